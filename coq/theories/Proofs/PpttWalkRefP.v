(* PPTT, C03 / C05 on the REFERENCE image (same shape as Proofs/RhctWalkRefP.v): for every history in the domain of
   Spec/PpttS.v the reference image is exactly tiled by the nodes that were added (walk from offset 36 by each node's own
   one-byte length field at its byte 1); by the refinement theorem the same holds of the image the Impl model emits.
   C05: the offset the Spec resolves a parent / private-resource / next-level-cache reference (104 k) to is the offset at
   which the walk finds the k-th node, and that node has the requested type (0 processor, 1 cache). *)
From Coq Require Import NArith ZArith List Lia Bool Arith.
From ACPI Require Import Lib.Bytes Lib.Sx Lib.Machine Impl.Checksum Impl.Table Impl.Fields Impl.Run Impl.Madt Impl.Pptt
  Spec.Layout Spec.MadtS Spec.HmatS Spec.PpttS
  Proofs.ChecksumP Proofs.TableP Proofs.MadtP Proofs.Tables Proofs.PpttP Proofs.RefTableCommonP
  Proofs.WalkP Proofs.WalkRefCommon2P Proofs.RefFieldCommonP Proofs.PpttRefP.
Import ListNotations.

Ltac Zify.zify_post_hook ::= Z.to_euclidean_division_equations.

Open Scope N_scope.

Definition pptt_ty (e : list N) : N := nth 0 e 0.

(* ---------- what an in-domain operation is, and what its reference node is made of ---------- *)
Lemma pptt_entry_ref_shape p o e : pptt_entry_ref p o = Some e ->
  (exists parent uid bs, o = SL [SA 1; parent; SA uid; SL bs]) \/ (exists st, o = SL [SA 2; SL st]).
Proof.
  intros H. unfold pptt_entry_ref in H.
  repeat match type of H with context [match ?v with _ => _ end] => is_var v; destruct v; try discriminate H end.
  all: first [ left; eexists _, _, _; reflexivity | right; eexists; reflexivity ].
Qed.

(* the parent argument of ProcessorNode::new: () = no parent (0), otherwise a raw number or a handle reference *)
Definition pptt_par_val (p : placed) (x : sx) : option N :=
  match x with SL [] => Some 0 | _ => resolve_or_raw p 0 x end.

Lemma pptt_proc_ref_inv p parent uid bs e : pptt_entry_ref p (SL [SA 1; parent; SA uid; SL bs]) = Some e ->
  exists par0 flags par id rres,
    pptt_par_val p parent = Some par0 /\
    proc_builders p (0, par0, uid, []) bs = Some (flags, par, id, rres) /\
    (20 + 4 * length rres <= 255)%nat /\
    lay_then 20 [L 0 1 0; L 1 1 (N.of_nat (20 + 4 * length rres)); L 2 2 0; L 4 4 flags; L 8 4 par; L 12 4 id;
                 L 16 4 (N.of_nat (length rres))] (arr 4 (frev rres)) = Some e.
Proof.
  intros H. cbn [pptt_entry_ref] in H. fold (pptt_par_val p parent) in H.
  destruct (pptt_par_val p parent) as [par0|] eqn:Epar; [|discriminate H].
  destruct (uid <? 2 ^ 32); [|discriminate H].
  destruct (proc_builders p (0, par0, uid, []) bs) as [[[[flags par] id] rres]|] eqn:Eb; [|discriminate H].
  destruct (Nat.leb_spec (20 + 4 * length rres) 255) as [Hn|]; [|discriminate H].
  exists par0, flags, par, id, rres. split; [reflexivity|]. split; [exact Eb|]. split; [exact Hn|exact H].
Qed.

Lemma pptt_cache_ref_inv p st e : pptt_entry_ref p (SL [SA 2; SL st]) = Some e ->
  exists next flags attrs,
    last_next_level p st 0 = Some next /\
    lay 28 [L 0 1 1; L 1 1 28; L 2 2 0; L 4 4 flags; L 8 4 next; L 12 4 (arg0 1 st); L 16 4 (arg0 2 st); L 20 1 (arg0 3 st);
            L 21 1 attrs; L 22 2 (arg0 7 st); L 24 4 (arg0 8 st)] = Some e.
Proof.
  intros H. cbn [pptt_entry_ref] in H.
  destruct (forallb cache_setter_ok st); [|discriminate H].
  destruct (last_next_level p st 0) as [next|] eqn:Enl; [|discriminate H]. cbv zeta in H.
  eexists next, _, _. split; [reflexivity|exact H].
Qed.

(* ---------- every reference node describes itself: its byte 1 holds its own size ---------- *)
Lemma pptt_entry_self p o e : pptt_entry_ref p o = Some e -> self_describing H_u8_u8 e (pptt_ty e).
Proof.
  intros H. destruct (pptt_entry_ref_shape p o e H) as [(parent & uid & bs & ->)|(st & ->)].
  - destruct (pptt_proc_ref_inv _ _ _ _ _ H) as (par0 & flags & par & id & rres & _ & _ & Hn & Hl).
    destruct (lay_then_decodes _ _ _ _ Hl) as [Hlen Hf].
    rewrite rf_length_arr, length_frev in Hlen.
    apply sd_u8_u8_of_fields; [lia|].
    rewrite (Hf 1%nat 1%nat (N.of_nat (20 + 4 * length rres))); [|cbn [In L]; tauto|lia].
    change (2 ^ (8 * N.of_nat 1)) with 256. rewrite N.mod_small by lia. rewrite Hlen. reflexivity.
  - destruct (pptt_cache_ref_inv _ _ _ H) as (next & flags & attrs & _ & Hl).
    destruct (lay_decodes _ _ _ Hl) as [Hlen Hf].
    apply sd_u8_u8_of_fields; [lia|]. rewrite Hlen. apply (Hf 1%nat 1%nat 28). cbn [In L]. tauto.
Qed.

(* ---------- Spec/PpttS.v lays its nodes out with the generic bookkeeping of Proofs/RefFieldCommonP.v ---------- *)
Lemma pptt_entries_from_pl ops : forall p next racc,
  pptt_entries_from ops p next racc = pl_entries_from pptt_entry_ref pptt_ty ops p next racc.
Proof.
  induction ops as [|o ops IH]; intros p next racc; cbn [pptt_entries_from pl_entries_from]; [reflexivity|].
  destruct (pptt_entry_ref p o) as [e|]; [|reflexivity]. apply IH.
Qed.

(* the Spec's bookkeeping (Spec/PpttS.v, [pptt_entries_from]) after a list of operations: the (type, start) of every node
   placed so far, most recent first, and their number; this is the [p] with which the NEXT operation's handle references
   (104 k) are resolved *)
Fixpoint pptt_placed_from (ops : list sx) (p : placed) (next : N) : option placed :=
  match ops with
  | [] => Some p
  | o :: r =>
      match pptt_entry_ref p o with
      | Some e => pptt_placed_from r ((nth 0 e 0, next) :: fst p, snd p + 1) (next + N.of_nat (length e))
      | None => None
      end
  end.

Definition pptt_placed (ops : list sx) : option placed := pptt_placed_from ops ([], 0) 36.

Lemma pptt_placed_from_pl ops : forall p next,
  pptt_placed_from ops p next = pl_placed_from pptt_entry_ref pptt_ty ops p next.
Proof.
  induction ops as [|o ops IH]; intros p next; cbn [pptt_placed_from pl_placed_from]; [reflexivity|].
  destruct (pptt_entry_ref p o) as [e|]; [|reflexivity]. apply IH.
Qed.

(* ---------- the shape of the reference image ---------- *)
Lemma pptt_image_shape ctor ops r : ts_image pptt_spec ctor ops = Some r ->
  exists o t rr ha es,
    ctor = SL [o; t; rr] /\ sx_hdr_args o t rr = Some ha /\
    pptt_entries_ref ops = Some es /\
    length (ha_oem ha) = 6%nat /\ length (ha_tbl ha) = 8%nat /\
    r = ref_table [80; 80; 84; 84] 1 ha ([] ++ concat es).
Proof.
  intros H. cbn [ts_image pptt_spec] in H. unfold pptt_image in H.
  destruct ctor as [|l]; [discriminate H|].
  destruct l as [|o [|t [|rr [|]]]]; try discriminate H.
  destruct (sx_hdr_args o t rr) as [ha|] eqn:Eha; [|discriminate H].
  destruct (pptt_entries_ref ops) as [es|] eqn:Ees; [|discriminate H].
  apply wr_Some_inj in H. subst r.
  destruct (sx_hdr_args_len _ _ _ _ Eha) as [Ho Ht].
  exists o, t, rr, ha, es. repeat split; assumption.
Qed.

Lemma pptt_skipn ha es : length (ha_oem ha) = 6%nat -> length (ha_tbl ha) = 8%nat ->
  skipn 36 (ref_table [80; 80; 84; 84] 1 ha ([] ++ concat es)) = concat es.
Proof. intros Ho Ht. apply skipn_ref_table; [reflexivity|exact Ho|exact Ht|reflexivity]. Qed.

(* ---------- (1) the reference image is exactly tiled ---------- *)
Theorem pptt_reference_tiles : forall ctor ops r,
  ts_image pptt_spec ctor ops = Some r -> c03_judge pptt_spec ctor r ops = true.
Proof.
  intros ctor ops r H.
  destruct (pptt_image_shape ctor ops r H) as (o & t & rr & ha & es & -> & Eha & Ees & Ho & Ht & ->).
  apply (c03_judge_of_tyf pptt_spec _ ops _ 36%nat H_u8_u8 pptt_ty es).
  - reflexivity.
  - cbn [ts_entries pptt_spec]. rewrite Ees. reflexivity.
  - exact (pptt_skipn ha es Ho Ht).
  - unfold pptt_entries_ref in Ees. rewrite pptt_entries_from_pl in Ees.
    exact (pl_entries_self pptt_entry_ref pptt_ty H_u8_u8 pptt_entry_self _ _ _ _ Ees).
  - reflexivity.
Qed.

(* ---------- (2) the image the Impl model emits is exactly tiled ---------- *)
Corollary pptt_model_tiles : forall md ctor ops r,
  ts_image pptt_spec ctor ops = Some r ->
  N.of_nat (length r) < 2 ^ 32 ->
  exists s0 s, pptt_new ctor = Some s0 /\
               run_adds pptt_addition md s0 ops = Some s /\
               c03_judge pptt_spec ctor (tbl_image s) ops = true.
Proof.
  intros md ctor ops r H Hfit.
  destruct (pptt_refines md ctor ops r H Hfit) as (s0 & s & Hn & Hr & Hi).
  exists s0, s. split; [exact Hn|]. split; [exact Hr|]. rewrite Hi. exact (pptt_reference_tiles ctor ops r H).
Qed.

(* ---------- (3) C05 on the reference image: the Spec's handles are the offsets the walk finds ---------- *)
(* A handle reference resolved after any prefix [pre] of a history names, in the reference image of the WHOLE history (so in
   every later image), the offset at which the walk finds the node added by that operation, and that node has the type the
   reference asked for (0: a parent must be a processor node; 1: a private resource / next level must be a cache node);
   conversely every node added by [pre] is reachable through its handle. *)
Theorem pptt_reference_handles : forall ctor pre post r,
  ts_image pptt_spec ctor (pre ++ post) = Some r ->
  exists p found,
    pptt_placed pre = Some p /\ snd p = N.of_nat (length pre) /\
    walk (S (length r)) H_u8_u8 36 (skipn 36 r) = Some found /\
    length found = length (pre ++ post) /\
    (forall k ty off, resolve p ty (SL [SA 104; SA k]) = Some off ->
       exists o len, nth_error found (N.to_nat k) = Some (ty, o, len) /\ N.of_nat o = off) /\
    (forall k, (k < length pre)%nat ->
       exists ty o len, nth_error found k = Some (ty, o, len) /\
                        resolve p ty (SL [SA 104; SA (N.of_nat k)]) = Some (N.of_nat o)).
Proof.
  intros ctor pre post r H.
  destruct (pptt_image_shape ctor _ r H) as (o & t & rr & ha & es & -> & Eha & Ees & Ho & Ht & ->).
  unfold pptt_entries_ref in Ees. rewrite pptt_entries_from_pl in Ees.
  unfold pptt_placed. rewrite pptt_placed_from_pl.
  exact (pl_reference_handles pptt_entry_ref pptt_ty H_u8_u8 pptt_entry_self _ 36%nat pre post es Ees (pptt_skipn ha es Ho Ht)).
Qed.

(* in the form of the run-time judgement [c05_handles_ok]: whatever set of (handle, operation number) pairs is pending, if
   each handle is the offset the Spec resolves that operation's (104 k) to, the judgement on the reference image is true *)
Corollary pptt_reference_handles_ok : forall ctor ops r p pending,
  ts_image pptt_spec ctor ops = Some r -> pptt_placed ops = Some p ->
  (forall hk, In hk pending -> exists ty, resolve p ty (SL [SA 104; SA (N.of_nat (snd hk))]) = Some (fst hk)) ->
  c05_handles_ok pptt_spec r pending = true.
Proof.
  intros ctor ops r p pending H Hp Hpend.
  destruct (pptt_image_shape ctor _ r H) as (o & t & rr & ha & es & -> & Eha & Ees & Ho & Ht & ->).
  unfold pptt_entries_ref in Ees. rewrite pptt_entries_from_pl in Ees.
  unfold pptt_placed in Hp. rewrite pptt_placed_from_pl in Hp.
  exact (pl_reference_handles_ok pptt_entry_ref pptt_ty H_u8_u8 pptt_entry_self pptt_spec _ 36%nat ops es p pending eq_refl Ees
           (pptt_skipn ha es Ho Ht) Hp Hpend).
Qed.

(* ---------- a history cut at one operation (used by the reference-field and model-level statements) ---------- *)
Lemma pptt_split_at ctor pre o post r : ts_image pptt_spec ctor (pre ++ o :: post) = Some r ->
  exists p es1 e tail r1,
    pptt_placed pre = Some p /\
    pl_ok pptt_ty 36 p (36 + N.of_nat (length (concat es1))) es1 /\
    pptt_entry_ref p o = Some e /\
    length es1 = length pre /\ length tail = length post /\
    skipn 36 r = concat (es1 ++ e :: tail) /\
    Forall (fun x => self_describing H_u8_u8 x (pptt_ty x)) (es1 ++ e :: tail) /\
    ts_image pptt_spec ctor pre = Some r1 /\ length r1 = (36 + length (concat es1))%nat /\ (length r1 <= length r)%nat.
Proof.
  intros H.
  destruct (pptt_image_shape ctor _ r H) as (oo & t & rr & ha & es & -> & Eha & Ees & Ho & Ht & ->).
  unfold pptt_entries_ref in Ees. rewrite pptt_entries_from_pl in Ees.
  destruct (pl_split_at pptt_entry_ref pptt_ty 36 pre o post es Ees) as (p & es1 & e & tail & Hp & Hok & He & Hes & Hl1 & Htl & Hpre).
  pose proof (pl_entries_self pptt_entry_ref pptt_ty H_u8_u8 pptt_entry_self _ _ _ _ Ees) as HF.
  subst es.
  exists p, es1, e, tail, (ref_table [80; 80; 84; 84] 1 ha ([] ++ concat es1)).
  split; [unfold pptt_placed; rewrite pptt_placed_from_pl; exact Hp|]. split; [exact Hok|]. split; [exact He|].
  split; [exact Hl1|]. split; [exact Htl|]. split; [exact (pptt_skipn ha _ Ho Ht)|]. split; [exact HF|].
  split.
  { cbn [ts_image pptt_spec]. unfold pptt_image, pptt_entries_ref. rewrite Eha, pptt_entries_from_pl, Hpre. reflexivity. }
  rewrite !(length_ref_table' [80; 80; 84; 84] 1 ha _ eq_refl Ho Ht). cbn [app].
  split; [reflexivity|]. rewrite concat_app, app_length. lia.
Qed.

Print Assumptions pptt_reference_tiles.
Print Assumptions pptt_model_tiles.
Print Assumptions pptt_reference_handles.
Print Assumptions pptt_reference_handles_ok.
