(* The refinement theorems of the fixed-layout structures collected (FADT, SPCR, BERT, TpmServer1_2, TpmClient1_2, Tpm2, RSDP,
   FACS), and their reading at the level of the case entry points `t_case`: for an in-domain history followed by an observation,
   the model's event list ends with the reference image and contains no refusal before it. *)
From Coq Require Import NArith List Bool.
From ACPI Require Import Lib.Bytes Lib.Sx Lib.Machine Impl.Table Impl.Fields Impl.Run
  Impl.Fadt Impl.Spcr Impl.Bert Impl.Tpm2 Impl.Rsdp Impl.Facs
  Spec.Layout Spec.FixedS Spec.FadtS Spec.SpcrS Spec.BertS Spec.Tpm2S Spec.RsdpS Spec.FacsS
  Proofs.FixedP Proofs.RefFixedCommonP Proofs.FadtRefP Proofs.SpcrRefP Proofs.BertRefP Proofs.Tpm2RefP Proofs.RsdpRefP Proofs.FacsRefP.
Import ListNotations.
Open Scope N_scope.

(* the shape shared by the eight theorems: a structure with its Spec, its model (constructor, step, image) and the
   well-formedness condition on the constructor's byte-array arguments (True when both sides treat them alike) *)
Definition refines {S : Type} (spec : tspec) (wf : sx -> Prop) (new : sx -> option S)
           (step : mode -> S -> sx -> option (S * list ev)) (image : S -> list N) : Prop :=
  forall md ctor ops r,
    ts_image spec ctor ops = Some r -> wf ctor ->
    exists s0 s, new ctor = Some s0 /\ run_steps (step md) s0 ops = Some s /\ image s = r.

Definition any_ctor (_ : sx) : Prop := True.

Theorem fixed_refines :
  refines fadt_spec fadt_ctor_bytes fadt_new fadt_step fadt_image /\
  refines spcr_spec any_ctor spcr_new spcr_step spcr_bytes /\
  refines bert_spec any_ctor bert_new bert_step bert_bytes /\
  refines tpmserver_spec any_ctor tpmserver_new tpmserver_step tpmserver_bytes /\
  refines tpmclient_spec any_ctor tpmclient_new tpmclient_step tpmclient_bytes /\
  refines tpm2_spec any_ctor tpm2_new tpm2_step tpm2_bytes /\
  refines rsdp_spec rsdp_ctor_bytes rsdp_new rsdp_step rsdp_bytes /\
  refines facs_spec any_ctor facs_new facs_step ser_flds.
Proof.
  unfold refines. repeat split; intros md ctor ops r H Hw.
  - exact (fadt_refines md ctor ops r H Hw).
  - exact (spcr_refines md ctor ops r H).
  - exact (bert_refines md ctor ops r H).
  - exact (tpmserver_refines md ctor ops r H).
  - exact (tpmclient_refines md ctor ops r H).
  - exact (tpm2_refines md ctor ops r H).
  - exact (rsdp_refines md ctor ops r H Hw).
  - exact (facs_refines md ctor ops r H).
Qed.

(* ---------- histories inside a Spec's domain contain no observation marker ---------- *)

Lemma ctor_only_no_markers image ctor ops r : ctor_only image ctor ops = Some r -> no_markers ops = true.
Proof. intros H. apply ctor_only_some in H. destruct H as [-> _]. reflexivity. Qed.

Lemma fadt_fold_no_markers ops : forall v v', fadt_fold v ops = Some v' -> no_markers ops = true.
Proof.
  induction ops as [|o ops IH]; intros v v' H; [reflexivity|]. cbn [fadt_fold] in H.
  destruct (fadt_apply v o) as [v1|] eqn:Ea; [|discriminate].
  destruct o as [n|l]; [discriminate Ea|].
  cbn [no_markers forallb]. exact (IH _ _ H).
Qed.

Lemma fadt_no_markers ctor ops r : ts_image fadt_spec ctor ops = Some r -> no_markers ops = true.
Proof.
  cbn [ts_image fadt_spec]. unfold fadt_ref_image.
  destruct ctor as [|l]; [discriminate|]. destruct l as [|o [|t [|r0 [|x l]]]]; try discriminate.
  destruct (sx_hdr_args o t r0); [|discriminate].
  destruct (fadt_fold fadt_vals0 ops) as [v|] eqn:Ef; [|discriminate]. intros _. eapply fadt_fold_no_markers; eauto.
Qed.

Lemma tpmserver_no_markers ctor ops r : ts_image tpmserver_spec ctor ops = Some r -> no_markers ops = true.
Proof.
  cbn [ts_image tpmserver_spec fixed_spec]. unfold tpmserver_ref.
  destruct ctor as [|l]; [discriminate|]. destruct l as [|o [|t [|r0 [|x l]]]]; try discriminate.
  destruct (forallb tpmserver_op_ok ops) eqn:Hok; [|discriminate]. intros _.
  unfold no_markers. rewrite forallb_forall in *. intros o0 Hin. specialize (Hok o0 Hin).
  destruct o0; [discriminate Hok|reflexivity].
Qed.

Lemma tpm2_no_markers ctor ops r : ts_image tpm2_spec ctor ops = Some r -> no_markers ops = true.
Proof.
  cbn [ts_image tpm2_spec fixed_spec]. unfold tpm2_ref.
  destruct ctor as [|l]; [discriminate|].
  destruct l as [|o [|t [|r0 [|[cls|] [|[base|] [|[sm|] [|]]]]]]]; try discriminate.
  cbv zeta. destruct (_ && _); [|discriminate]. destruct (sx_hdr_args o t r0); [|discriminate].
  destruct ops as [|[n|l] ops]; [reflexivity|discriminate|].
  destruct ops; [reflexivity|]. destruct l as [|[[|[p|p|]]|] [|[laml|] [|[lasa|] [|]]]]; discriminate.
Qed.

(* ---------- the case entry points ---------- *)

(* `t_case md (ctor op ... op 1)`: the observations of the history followed by one observation of the image *)
Definition case_observes (spec : tspec) (wf : sx -> Prop) (t_case : mode -> sx -> list ev) : Prop :=
  forall md ctor ops r,
    ts_image spec ctor ops = Some r -> wf ctor ->
    exists evs, t_case md (SL (ctor :: ops ++ [SA 1])) = evs ++ [EvBytes r].

Theorem fixed_cases_observe :
  case_observes fadt_spec fadt_ctor_bytes fadt_case /\
  case_observes spcr_spec any_ctor spcr_case /\
  case_observes bert_spec any_ctor bert_case /\
  case_observes tpmserver_spec any_ctor tpmserver_case /\
  case_observes tpmclient_spec any_ctor tpmclient_case /\
  case_observes tpm2_spec any_ctor tpm2_case /\
  case_observes rsdp_spec rsdp_ctor_bytes rsdp_case /\
  case_observes facs_spec any_ctor facs_case.
Proof.
  unfold case_observes. repeat split; intros md ctor ops r H Hw.
  - destruct (fadt_refines md ctor ops r H Hw) as (s0 & s & Hn & Hr & Hi).
    unfold fadt_case. eapply run_history_observe; [exact Hn|exact (fadt_no_markers _ _ _ H)|exact Hr|now rewrite Hi].
  - destruct (spcr_refines md ctor ops r H) as (s0 & s & Hn & Hr & Hi).
    unfold spcr_case. eapply run_history_observe; [exact Hn|exact (ctor_only_no_markers _ _ _ _ H)|exact Hr|now rewrite Hi].
  - destruct (bert_refines md ctor ops r H) as (s0 & s & Hn & Hr & Hi).
    unfold bert_case. eapply run_history_observe; [exact Hn|exact (ctor_only_no_markers _ _ _ _ H)|exact Hr|now rewrite Hi].
  - destruct (tpmserver_refines md ctor ops r H) as (s0 & s & Hn & Hr & Hi).
    unfold tpmserver_case. eapply run_history_observe; [exact Hn|exact (tpmserver_no_markers _ _ _ H)|exact Hr|now rewrite Hi].
  - destruct (tpmclient_refines md ctor ops r H) as (s0 & s & Hn & Hr & Hi).
    unfold tpmclient_case. eapply run_history_observe; [exact Hn|exact (ctor_only_no_markers _ _ _ _ H)|exact Hr|now rewrite Hi].
  - destruct (tpm2_refines md ctor ops r H) as (s0 & s & Hn & Hr & Hi).
    unfold tpm2_case. eapply run_history_observe; [exact Hn|exact (tpm2_no_markers _ _ _ H)|exact Hr|now rewrite Hi].
  - destruct (rsdp_refines md ctor ops r H Hw) as (s0 & s & Hn & Hr & Hi).
    unfold rsdp_case. eapply run_history_observe; [exact Hn|exact (ctor_only_no_markers _ _ _ _ H)|exact Hr|now rewrite Hi].
  - destruct (facs_refines md ctor ops r H) as (s0 & s & Hn & Hr & Hi).
    unfold facs_case. eapply run_history_observe; [exact Hn|exact (facs_no_markers _ _ _ H)|exact Hr|now rewrite Hi].
Qed.

Print Assumptions fixed_refines.
Print Assumptions fixed_cases_observe.
