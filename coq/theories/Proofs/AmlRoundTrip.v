(* C06: the Spec parser recovers, from the bytes the implementation model emits, exactly the tree the caller built.
   Part 1: definitions (depth, normal form, well-formedness) and the induction principle for terms. *)
From Coq Require Import NArith ZArith List Lia Bool Arith.
From ACPI Require Import Lib.Bytes Lib.Sx Lib.Machine Impl.AmlCore Impl.AmlTerm Spec.AmlCoreS Spec.AmlTermS
  Proofs.PkgLenP Proofs.IntP Proofs.PathP Proofs.AmlFrameP Proofs.EisaUuidP Proofs.FrameSitesP Proofs.FieldListP.
Import ListNotations.
Open Scope N_scope.

(* ---- induction principle over the nested term type ---- *)
Section TermInd.
  Variable P : term -> Prop.
  Hypothesis Hzero : P TZero. Hypothesis Hone : P TOne. Hypothesis Hones : P TOnes.
  Hypothesis Hint : forall ty n, P (TInt ty n).
  Hypothesis Hstr : forall s, P (TStr s).
  Hypothesis Hpath : forall s, P (TPath s).
  Hypothesis Hfname : forall s, P (TFieldName s).
  Hypothesis Heisa : forall s, P (TEisa s).
  Hypothesis Huuid : forall s, P (TUuid s).
  Hypothesis Hbuf : forall b, P (TBufData b).
  Hypothesis Harg : forall n, P (TArg n).
  Hypothesis Hlocal : forall n, P (TLocal n).
  Hypothesis Hdesc : forall d, P (TDesc d).
  Hypothesis Hop1 : forall k a, P a -> P (TOp1 k a).
  Hypothesis Hop2 : forall k a b, P a -> P b -> P (TOp2 k a b).
  Hypothesis Hop3 : forall k t a b, P t -> P a -> P b -> P (TOp3 k t a b).
  Hypothesis Hop4 : forall k a b c d, P a -> P b -> P c -> P d -> P (TOp4 k a b c d).
  Hypothesis Hname : forall p i, P i -> P (TName p i).
  Hypothesis Hdevice : forall p ks, Forall P ks -> P (TDevice p ks).
  Hypothesis Hscope : forall p ks, Forall P ks -> P (TScope p ks).
  Hypothesis Hscoperaw : forall p ks, Forall P ks -> P (TScopeRaw p ks).
  Hypothesis Hmethod : forall p a s ks, Forall P ks -> P (TMethod p a s ks).
  Hypothesis Hpower : forall p l o ks, Forall P ks -> P (TPowerRes p l o ks).
  Hypothesis Hopregion : forall p sp o l, P o -> P l -> P (TOpRegion p sp o l).
  Hypothesis Hmutex : forall p s, P (TMutex p s).
  Hypothesis Hacquire : forall p t, P (TAcquire p t).
  Hypothesis Hrelease : forall p, P (TRelease p).
  Hypothesis Hcall : forall p args, Forall P args -> P (TCall p args).
  Hypothesis Hfield : forall p a l u es, P (TField p a l u es).
  Hypothesis Hpackage : forall ks, Forall P ks -> P (TPackage ks).
  Hypothesis Hpkgb : forall ks, Forall P ks -> P (TPkgBuilder ks).
  Hypothesis Hrest : forall ks, Forall P ks -> P (TResTemplate ks).
  Hypothesis Hif : forall pr ks, P pr -> Forall P ks -> P (TIf pr ks).
  Hypothesis Helse : forall ks, Forall P ks -> P (TElse ks).
  Hypothesis Hwhile : forall pr ks, P pr -> Forall P ks -> P (TWhile pr ks).

  Fixpoint term_ind' (t : term) : P t :=
    let all := fix all (l : list term) : Forall P l :=
                 match l with [] => Forall_nil P | x :: r => Forall_cons x (term_ind' x) (all r) end in
    match t with
    | TZero => Hzero | TOne => Hone | TOnes => Hones
    | TInt ty n => Hint ty n | TStr s => Hstr s | TPath s => Hpath s | TFieldName s => Hfname s
    | TEisa s => Heisa s | TUuid s => Huuid s | TBufData b => Hbuf b | TArg n => Harg n | TLocal n => Hlocal n
    | TDesc d => Hdesc d
    | TOp1 k a => Hop1 k a (term_ind' a)
    | TOp2 k a b => Hop2 k a b (term_ind' a) (term_ind' b)
    | TOp3 k t a b => Hop3 k t a b (term_ind' t) (term_ind' a) (term_ind' b)
    | TOp4 k a b c d => Hop4 k a b c d (term_ind' a) (term_ind' b) (term_ind' c) (term_ind' d)
    | TName p i => Hname p i (term_ind' i)
    | TDevice p ks => Hdevice p ks (all ks)
    | TScope p ks => Hscope p ks (all ks)
    | TScopeRaw p ks => Hscoperaw p ks (all ks)
    | TMethod p a s ks => Hmethod p a s ks (all ks)
    | TPowerRes p l o ks => Hpower p l o ks (all ks)
    | TOpRegion p sp o l => Hopregion p sp o l (term_ind' o) (term_ind' l)
    | TMutex p s => Hmutex p s | TAcquire p t => Hacquire p t | TRelease p => Hrelease p
    | TCall p args => Hcall p args (all args)
    | TField p a l u es => Hfield p a l u es
    | TPackage ks => Hpackage ks (all ks)
    | TPkgBuilder ks => Hpkgb ks (all ks)
    | TResTemplate ks => Hrest ks (all ks)
    | TIf pr ks => Hif pr ks (term_ind' pr) (all ks)
    | TElse ks => Helse ks (all ks)
    | TWhile pr ks => Hwhile pr ks (term_ind' pr) (all ks)
    end.
End TermInd.

(* ---- encoding of child lists, by name ---- *)
Definition encs (md : mode) (l : list term) : option (list N) := opt_concat_map (enc md) l.

Lemma encs_fix md l :
  (fix encs (l : list term) : option (list N) :=
     match l with [] => Some [] | x :: r => do a <- enc md x; do b <- encs r; Some (a ++ b) end) l = encs md l.
Proof. induction l as [|x l IH]; [reflexivity|]. cbn [encs opt_concat_map]. rewrite IH. reflexivity. Qed.

Lemma encs_cons md x l : encs md (x :: l) = (do a <- enc md x; do b <- encs md l; Some (a ++ b)).
Proof. reflexivity. Qed.

(* ---- depth ---- *)
Fixpoint depth (t : term) : nat :=
  let dl := fix dl (l : list term) : nat := match l with [] => O | x :: r => Nat.max (depth x) (dl r) end in
  match t with
  | TOp1 _ a => S (depth a)
  | TOp2 _ a b => S (Nat.max (depth a) (depth b))
  | TOp3 _ t a b => S (Nat.max (depth t) (Nat.max (depth a) (depth b)))
  | TOp4 _ a b c d => S (Nat.max (Nat.max (depth a) (depth b)) (Nat.max (depth c) (depth d)))
  | TName _ i => S (depth i)
  | TDevice _ ks | TScope _ ks | TScopeRaw _ ks | TMethod _ _ _ ks | TPowerRes _ _ _ ks | TCall _ ks
  | TPackage ks | TPkgBuilder ks | TResTemplate ks | TElse ks => S (dl ks)
  | TOpRegion _ _ o l => S (Nat.max (depth o) (depth l))
  | TIf pr ks | TWhile pr ks => S (Nat.max (depth pr) (dl ks))
  | TBufData _ | TUuid _ => 1%nat        (* the BufferSize inside is one more parser layer *)
  | _ => O
  end.

Definition depths (l : list term) : nat := fold_right (fun x acc => Nat.max (depth x) acc) O l.

Lemma depth_list_fix l :
  (fix dl (l : list term) : nat := match l with [] => O | x :: r => Nat.max (depth x) (dl r) end) l = depths l.
Proof. induction l as [|x l IH]; [reflexivity|]. cbn [depths fold_right]. now rewrite IH. Qed.

Lemma depths_in l x : In x l -> (depth x <= depths l)%nat.
Proof.
  induction l as [|y l IH]; intros H; [destruct H|]. cbn [depths fold_right]. fold (depths l).
  destruct H as [->|H]; [lia|]. specialize (IH H). lia.
Qed.

(* =====================================================================================================
   Part 2: lemmas about the Spec parser's layers (independent of the term language) *)

Definition leaf_lead (b : N) : bool :=
  (b =? 0x00) || (b =? 0x01) || (b =? 0x0A) || (b =? 0x0B) || (b =? 0x0C) || (b =? 0x0E) || (b =? 0xFF) || (b =? 0x0D)
  || ((0x60 <=? b) && (b <=? 0x67)) || ((0x68 <=? b) && (b <=? 0x6E)) || is_name_lead b || (b =? 0x11).

Lemma parse_step_op env p el b r :
  leaf_lead b = false -> parse_step env p el (b :: r) = parse_op p (fst (op_code b r)) (snd (op_code b r)).
Proof.
  unfold leaf_lead. intros H.
  repeat (apply orb_false_iff in H; destruct H as [H ?]).
  unfold parse_step.
  repeat match goal with E : _ = false |- _ => rewrite E; clear E end. cbn [orb]. reflexivity.
Qed.

Lemma op_code_plain b r : b <> 0x5B -> b <> 0x92 -> op_code b r = (b, r).
Proof.
  intros H1 H2. unfold op_code. destruct r as [|b2 r2]; [reflexivity|].
  apply N.eqb_neq in H1, H2. rewrite H1, H2. reflexivity.
Qed.

Lemma op_code_ext b2 r : op_code 0x5B (b2 :: r) = (0x5B00 + b2, r).
Proof. reflexivity. Qed.

Lemma op_code_lnot b2 r : (b2 = 0x93 \/ b2 = 0x94 \/ b2 = 0x95) -> op_code 0x92 (b2 :: r) = (0x9200 + b2, r).
Proof. intros [->|[->| ->]]; reflexivity. Qed.

Lemma parse_op_fixed p code items its r0 rest :
  op_table code = Some (mk false items LNone) -> parse_items p items r0 = Some (its, rest) ->
  parse_op p code r0 = Some (GOp code its [], rest).
Proof. intros Ht Hi. unfold parse_op. rewrite Ht. cbn [oi_framed oi_items mk]. rewrite Hi. reflexivity. Qed.

Lemma parse_op_framed p code items lm md body pl r its body' kids :
  op_table code = Some (mk true items lm) ->
  N.of_nat (length body) < 2 ^ 63 -> pkg_len md (N.of_nat (length body)) true = Some pl ->
  parse_items p items body = Some (its, body') ->
  (match lm with
   | LNone => match body' with [] => Some [] | _ => None end
   | LTerms => parse_all p (length body') false body'
   | LElems => parse_all p (length body') true body'
   | LFields => parse_fields (length body') body'
   end) = Some kids ->
  parse_op p code (pl ++ body ++ r) = Some (GOp code its kids, r).
Proof.
  intros Ht Hn Hp Hi Hk. unfold parse_op. rewrite Ht. cbn [oi_framed oi_items oi_list mk].
  rewrite (take_pkg_framed md body pl r Hn Hp). rewrite Hi, Hk. reflexivity.
Qed.

(* items *)
Lemma parse_items_nil p l : parse_items p [] l = Some ([], l).
Proof. reflexivity. Qed.

Lemma parse_items_term p ks e g rest its r' :
  p false (e ++ rest) = Some (g, rest) -> parse_items p ks rest = Some (its, r') ->
  parse_items p (KTerm :: ks) (e ++ rest) = Some (g :: its, r').
Proof. intros H1 H2. cbn [parse_items]. rewrite H1, H2. reflexivity. Qed.

Lemma parse_items_name p ks e rt segs rest its r' :
  name_decode (e ++ rest) = Some (rt, segs, rest) -> parse_items p ks rest = Some (its, r') ->
  parse_items p (KName :: ks) (e ++ rest) = Some (GName rt segs :: its, r').
Proof. intros H1 H2. cbn [parse_items]. rewrite H1, H2. reflexivity. Qed.

Lemma parse_items_byte p ks b rest its r' :
  parse_items p ks rest = Some (its, r') -> parse_items p (KByte :: ks) (b :: rest) = Some (GNum b :: its, r').
Proof. intros H. cbn [parse_items]. rewrite H. reflexivity. Qed.

Lemma parse_items_word p ks v rest its r' : v < 2 ^ 16 ->
  parse_items p ks rest = Some (its, r') -> parse_items p (KWord :: ks) (w2 v ++ rest) = Some (GNum v :: its, r').
Proof.
  intros Hv H. unfold w2. cbn [le app parse_items]. rewrite H.
  replace (v mod 256 + 256 * ((v / 256) mod 256)) with v; [reflexivity|].
  change (2 ^ 16) with 65536 in Hv.
  assert (v / 256 < 256) by (apply N.div_lt_upper_bound; lia).
  rewrite (N.mod_small (v / 256)) by assumption. rewrite (N.div_mod v 256) at 1 by lia. apply N.add_comm.
Qed.

(* lists *)
Definition rt (p : pfun) (el : bool) (e : list N) (g : gt) : Prop := forall r, p el (e ++ r) = Some (g, r).

Lemma rt_nonempty p el e g : p el [] = None -> rt p el e g -> e <> [].
Proof. intros Hn H ->. specialize (H []). cbn [app] in H. congruence. Qed.

Lemma parse_all_concat p el : (forall b, p b [] = None) ->
  forall es gs n, Forall2 (rt p el) es gs -> (length (concat es) <= n)%nat -> parse_all p n el (concat es) = Some gs.
Proof.
  intros Hnil. induction es as [|e es IH]; intros gs n HF Hn.
  - inversion HF; subst. destruct n; reflexivity.
  - inversion HF as [|? g ? gs' Hrt Hrest]; subst. cbn [concat] in *.
    pose proof (rt_nonempty p el e g (Hnil el) Hrt) as Hne.
    destruct e as [|x e']; [congruence|]. cbn [app] in *. destruct n as [|n']; [cbn [length] in Hn; lia|].
    cbn [parse_all]. change (x :: e' ++ concat es) with ((x :: e') ++ concat es). rewrite (Hrt (concat es)).
    rewrite (IH gs' n' Hrest); [reflexivity|]. cbn [length] in Hn. rewrite app_length in Hn. lia.
Qed.

Lemma parse_n_concat p : forall es gs r, Forall2 (rt p false) es gs ->
  parse_n p (length es) (concat es ++ r) = Some (gs, r).
Proof.
  induction es as [|e es IH]; intros gs r HF.
  - inversion HF; subst. reflexivity.
  - inversion HF as [|? g ? gs' Hrt Hrest]; subst. cbn [concat length parse_n]. rewrite <- app_assoc.
    rewrite (Hrt (concat es ++ r)). rewrite (IH gs' r Hrest). reflexivity.
Qed.

(* strings *)
Lemma take_string_spec s : forall acc r, Forall (fun c => c <> 0) s ->
  take_string (s ++ 0 :: r) acc = Some (frev acc ++ s, r).
Proof.
  induction s as [|c s IH]; intros acc r H.
  - cbn [app take_string]. rewrite N.eqb_refl. now rewrite app_nil_r.
  - inversion H as [|? ? Hc Hs]; subst. cbn [app take_string]. apply N.eqb_neq in Hc. rewrite Hc.
    rewrite IH by exact Hs. f_equal. f_equal. rewrite !frev_rev. cbn [rev]. now rewrite <- app_assoc.
Qed.

(* =====================================================================================================
   Part 3: leaves *)
Definition leaf_const (b : N) : option gt :=
  if b =? 0xFF then Some GOnes
  else if (0x60 <=? b) && (b <=? 0x67) then Some (GLocal (b - 0x60))
  else if (0x68 <=? b) && (b <=? 0x6E) then Some (GArg (b - 0x68))
  else None.

Section Leaves.
  Variable env : arity_env.

  Lemma parse_nil f el : parse env f el [] = None.
  Proof. destruct f; reflexivity. Qed.

  Lemma spec_int_lead n : exists b rest, spec_int n = b :: rest /\
    ((b =? 0x00) || (b =? 0x01) || (b =? 0x0A) || (b =? 0x0B) || (b =? 0x0C) || (b =? 0x0E)) = true.
  Proof.
    unfold spec_int.
    destruct (n =? 0); [eexists; eexists; split; reflexivity|].
    destruct (n =? 1); [eexists; eexists; split; reflexivity|].
    destruct (n <? 2 ^ 8); [eexists; eexists; split; reflexivity|].
    destruct (n <? 2 ^ 16); [eexists; eexists; split; reflexivity|].
    destruct (n <? 2 ^ 32); eexists; eexists; split; reflexivity.
  Qed.

  Lemma rt_spec_int f el n : n < 2 ^ 64 -> rt (parse env (S f)) el (spec_int n) (GInt n).
  Proof.
    intros Hn r. destruct (spec_int_lead n) as (b & rest & E & Hb).
    cbn [parse]. unfold parse_step. rewrite E. cbn [app]. rewrite Hb.
    change (b :: rest ++ r) with ((b :: rest) ++ r). rewrite <- E.
    rewrite int_decode_spec_int by exact Hn. reflexivity.
  Qed.

  Lemma enc_int_spec ty n b :
    (ty = 8 /\ n < 2 ^ 8) \/ (ty = 16 /\ n < 2 ^ 16) \/ (ty = 32 /\ n < 2 ^ 32) \/ (ty = 64 /\ n < 2 ^ 64) \/ (ty = 0 /\ n < 2 ^ 64) ->
    enc_int ty n = Some b -> b = spec_int n /\ n < 2 ^ 64.
  Proof.
    intros [[-> H]|[[-> H]|[[-> H]|[[-> H]|[-> H]]]]]; cbn [enc_int]; intros E; inversion E; subst; split;
      try (now apply enc_u8_spec); try (now apply enc_u16_spec); try (now apply enc_u32_spec);
      try (apply enc_u64_spec); try (now apply enc_usize_spec); try exact H;
      (eapply N.lt_trans; [exact H|reflexivity]).
  Qed.

  Lemma rt_string f el s : Forall (fun c => c <> 0) s -> rt (parse env (S f)) el (enc_string s) (GStr s).
  Proof.
    intros Hs r. cbn [parse]. unfold parse_step, enc_string. cbn [app N.eqb Pos.eqb orb].
    change (13 =? 0) with false. change (13 =? 1) with false. change (13 =? 10) with false. change (13 =? 11) with false.
    change (13 =? 12) with false. change (13 =? 14) with false. change (13 =? 255) with false. change (13 =? 13) with true.
    cbn [orb]. rewrite <- app_assoc. cbn [app]. rewrite take_string_spec by exact Hs. reflexivity.
  Qed.

  Lemma rt_const f el b g : leaf_const b = Some g -> rt (parse env (S f)) el [b] g.
  Proof.
    unfold leaf_const. intros H r. cbn [parse app].
    destruct (N.eqb_spec b 0xFF) as [->|]; [inversion H; reflexivity|].
    destruct ((0x60 <=? b) && (b <=? 0x67)) eqn:E1.
    - inversion H; subst. apply andb_true_iff in E1. destruct E1 as [A B]. apply N.leb_le in A, B.
      unfold parse_step.
      assert (T : ((b =? 0) || (b =? 1) || (b =? 10) || (b =? 11) || (b =? 12) || (b =? 14)) = false).
      { repeat (apply orb_false_iff; split); apply N.eqb_neq; lia. }
      rewrite T. assert (T2 : (b =? 255) = false) by (apply N.eqb_neq; lia). rewrite T2.
      assert (T3 : (b =? 13) = false) by (apply N.eqb_neq; lia). rewrite T3.
      assert (T4 : ((96 <=? b) && (b <=? 103)) = true) by (apply andb_true_iff; split; apply N.leb_le; lia). rewrite T4. reflexivity.
    - destruct ((0x68 <=? b) && (b <=? 0x6E)) eqn:E2; [|discriminate].
      inversion H; subst. apply andb_true_iff in E2. destruct E2 as [A B]. apply N.leb_le in A, B.
      unfold parse_step.
      assert (T : ((b =? 0) || (b =? 1) || (b =? 10) || (b =? 11) || (b =? 12) || (b =? 14)) = false).
      { repeat (apply orb_false_iff; split); apply N.eqb_neq; lia. }
      rewrite T. assert (T2 : (b =? 255) = false) by (apply N.eqb_neq; lia). rewrite T2.
      assert (T3 : (b =? 13) = false) by (apply N.eqb_neq; lia). rewrite T3.
      rewrite E1. assert (T4 : ((104 <=? b) && (b <=? 110)) = true) by (apply andb_true_iff; split; apply N.leb_le; lia). rewrite T4. reflexivity.
  Qed.
End Leaves.

(* ---- names ---- *)
Definition head_is_name (e : list N) : Prop :=
  exists b rest, e = b :: rest /\ (b = 0x5C \/ b = 0x2E \/ b = 0x2F \/ is_lead_name_char b = true).

Lemma parse_step_name env p el e r rt segs r' :
  head_is_name e -> name_decode (e ++ r) = Some (rt, segs, r') ->
  parse_step env p el (e ++ r) =
  if el then Some (GName rt segs, r')
  else match parse_n p (env (rt, segs)) r' with Some (args, r'') => Some (GCall rt segs args, r'') | None => None end.
Proof.
  intros (b & rest & -> & Hb) Hd. cbn [app] in *. unfold parse_step.
  assert (Hr : 65 <= b <= 90 \/ b = 95 \/ b = 0x5C \/ b = 0x2E \/ b = 0x2F).
  { destruct Hb as [->|[->|[->|Hl]]]; auto. unfold is_lead_name_char in Hl. apply orb_true_iff in Hl.
    destruct Hl as [Hl|Hl]; [apply andb_true_iff in Hl; destruct Hl as [A B]; apply N.leb_le in A, B; left; lia|
                             apply N.eqb_eq in Hl; right; left; exact Hl]. }
  assert (T1 : ((b =? 0) || (b =? 1) || (b =? 10) || (b =? 11) || (b =? 12) || (b =? 14)) = false).
  { repeat (apply orb_false_iff; split); apply N.eqb_neq; lia. }
  assert (T2 : (b =? 255) = false) by (apply N.eqb_neq; lia).
  assert (T3 : (b =? 13) = false) by (apply N.eqb_neq; lia).
  assert (T4 : ((96 <=? b) && (b <=? 103)) = false).
  { destruct (N.leb_spec 96 b); [destruct (N.leb_spec b 103); [lia|reflexivity]|reflexivity]. }
  assert (T5 : ((104 <=? b) && (b <=? 110)) = false).
  { destruct (N.leb_spec 104 b); [destruct (N.leb_spec b 110); [lia|reflexivity]|reflexivity]. }
  assert (T6 : is_name_lead b = true).
  { unfold is_name_lead. destruct Hb as [->|[->|[->|Hl]]]; try reflexivity. rewrite Hl. reflexivity. }
  rewrite T1, T2, T3, T4, T5, T6. rewrite Hd. reflexivity.
Qed.

Lemma path_enc_head p e : wf_parts (p_parts p) -> (1 <= length (p_parts p))%nat -> path_enc p = Some e -> head_is_name e.
Proof.
  intros Hwf Hl He. unfold path_enc in He.
  destruct p as [root parts]. cbn [p_root p_parts] in *.
  destruct root.
  - destruct (match length parts with 0%nat => None | 1%nat => Some [] | 2%nat => Some [46] | S (S (S _)) => _ end) as [pre|];
      [|discriminate]. cbn [option_bind] in He. inversion He. exists 0x5C. eexists. split; [reflexivity|auto].
  - destruct parts as [|s1 [|s2 [|s3 rest]]]; cbn [length] in *; try lia.
    + cbn [option_bind app concat] in He. inversion He; subst. inversion Hwf as [|? ? Hs _]; subst.
      destruct (nameseg_shape s1 Hs) as (a & b & c & d & -> & Ha & _). exists a. eexists. split; [reflexivity|auto].
    + cbn [option_bind app] in He. inversion He. exists 0x2E. eexists. split; [reflexivity|auto].
    + destruct (assert _) in He; [|discriminate]. cbn [option_bind app] in He. inversion He.
      exists 0x2F. eexists. split; [reflexivity|auto].
Qed.

(* a path text in a name position (KName item) or at the head of an invocation *)
Lemma path_text_decode text q e r :
  path_new text = Some q -> wf_parts (p_parts q) -> enc_path_text text = Some e ->
  name_decode (e ++ r) = Some (p_root q, p_parts q, r) /\ head_is_name e.
Proof.
  intros Hq Hwf He. unfold enc_path_text in He. rewrite Hq in He. cbn [option_bind] in He.
  assert (Hlen : (1 <= length (p_parts q) <= 255)%nat).
  { destruct (Nat.eq_dec (length (p_parts q)) 0) as [E|E]; [rewrite path_enc_refuse in He by (now left); discriminate|].
    destruct (Nat.lt_ge_cases 255 (length (p_parts q))); [rewrite path_enc_refuse in He by (now right); discriminate|]. lia. }
  destruct (path_enc_decode q r Hwf Hlen) as (e' & He' & Hd & _).
  rewrite He in He'. inversion He'; subst e'. split; [exact Hd|].
  eapply path_enc_head; eauto. lia.
Qed.

(* =====================================================================================================
   Part 4: the tree a term must parse to, well-formedness, and the round trip *)
Section Main.
  Variable env : arity_env.

  Definition key_of (q : path) : name_key := (p_root q, p_parts q).
  Definition name_gt (text : list N) : option gt :=
    match path_new text with Some q => Some (GName (p_root q) (p_parts q)) | None => None end.
  Definition wf_name (text : list N) : Prop := exists q, path_new text = Some q /\ wf_parts (p_parts q).

  Definition op1_gcode (k : N) : option N :=
    match k with 0 => Some 0x8E | 1 => Some 0x87 | 2 => Some 0xA4 | 3 => Some 0x83 | _ => None end.
  Definition cmp_gcode (k : N) : option N :=
    match k with 0 => Some 0x93 | 1 => Some 0x95 | 2 => Some 0x94 | 3 => Some 0x9293 | 4 => Some 0x9295 | 5 => Some 0x9294 | _ => None end.

  Definition mkop (code : N) (fixed : list (option gt)) (kids : option (list gt)) : option gt :=
    match opt_all fixed, kids with Some f, Some k => Some (GOp code f k) | _, _ => None end.

  Fixpoint norm (el : bool) (t : term) {struct t} : option gt :=
    let norms := fix norms (el' : bool) (l : list term) : option (list gt) :=
                   match l with
                   | [] => Some []
                   | x :: r => match norm el' x, norms el' r with Some a, Some b => Some (a :: b) | _, _ => None end
                   end in
    match t with
    | TZero => Some (GInt 0) | TOne => Some (GInt 1) | TOnes => Some GOnes
    | TInt _ n => Some (GInt n)
    | TStr s => Some (GStr s)
    | TPath s => match path_new s with
                 | Some q => Some (if el then GName (p_root q) (p_parts q) else GCall (p_root q) (p_parts q) [])
                 | None => None end
    | TFieldName s => Some (if el then GName false [s] else GCall false [s] [])
    | TEisa s => option_map GInt (eisa_value s)
    | TUuid s => option_map (GBuffer (GInt 16)) (uuid_bytes s)
    | TBufData b => Some (GBuffer (GInt (N.of_nat (length b))) b)
    | TArg n => Some (GArg n) | TLocal n => Some (GLocal n)
    | TDesc _ => None
    | TOp1 k a =>
        match k with
        | 4 => match norm false a with Some sz => Some (GBuffer sz []) | None => None end
        | 5 => mkop 0x13 [norm false a] (Some [])
        | _ => match op1_gcode k with Some c => mkop c [norm false a] (Some []) | None => None end
        end
    | TOp2 k a b =>
        match k with
        | 6 => mkop 0x70 [norm false b; norm false a] (Some [])
        | 7 => mkop 0x86 [norm false a; norm false b] (Some [])
        | 8 => mkop 0x96 [norm false b; norm false a] (Some [])
        | 9 => mkop 0x99 [norm false b; norm false a] (Some [])
        | _ => match cmp_gcode k with Some c => mkop c [norm false a; norm false b] (Some []) | None => None end
        end
    | TOp3 k t a b =>
        match op3_code k with Some c => mkop c [norm false a; norm false b; norm false t] (Some []) | None => None end
    | TOp4 k a b c d =>
        match k with
        | 0 => mkop 0x5B13 [norm false b; norm false c; norm false d; norm false a] (Some [])
        | 1 => mkop 0x9E [norm false a; norm false b; norm false c; norm false d] (Some [])
        | _ => None
        end
    | TName p i => mkop 0x08 [name_gt p; norm false i] (Some [])
    | TDevice p ks => mkop 0x5B82 [name_gt p] (norms false ks)
    | TScope p ks | TScopeRaw p ks => mkop 0x10 [name_gt p] (norms false ks)
    | TMethod p ar sr ks => mkop 0x14 [name_gt p; Some (GNum (ar + 8 * sr))] (norms false ks)
    | TPowerRes p lv od ks => mkop 0x5B84 [name_gt p; Some (GNum lv); Some (GNum od)] (norms false ks)
    | TOpRegion p sp o l => mkop 0x5B80 [name_gt p; Some (GNum sp); norm false o; norm false l] (Some [])
    | TMutex p sy => mkop 0x5B01 [name_gt p; Some (GNum sy)] (Some [])
    | TAcquire p tm => mkop 0x5B23 [name_gt p; Some (GNum tm)] (Some [])
    | TRelease p => mkop 0x5B27 [name_gt p] (Some [])
    | TCall p args =>
        match path_new p, norms false args with
        | Some q, Some gs => Some (if el then GName (p_root q) (p_parts q) else GCall (p_root q) (p_parts q) gs)
        | _, _ => None
        end
    | TField p ac lk up es =>
        (* DefField: NameString, FieldFlags byte, then the field list *)
        mkop 0x5B81 [name_gt p; Some (GNum (ac + 16 * lk + 32 * up))] (Some (map fentry_gt es))
    | TPackage ks | TPkgBuilder ks => mkop 0x12 [Some (GNum (N.of_nat (length ks)))] (norms true ks)
    | TResTemplate ks =>
        (* a Buffer whose declared size is its payload: the descriptors' bytes and the end tag (not parsed as AML) *)
        match template_payload ks with
        | Some payload => Some (GBuffer (GInt (N.of_nat (length payload))) payload)
        | None => None
        end
    | TIf pr ks => mkop 0xA0 [norm false pr] (norms false ks)
    | TElse ks => mkop 0xA1 [] (norms false ks)
    | TWhile pr ks => mkop 0xA2 [norm false pr] (norms false ks)
    end.

  Definition norms (el : bool) (l : list term) : option (list gt) := map_opt (norm el) l.

  Lemma norms_fix el l :
    (fix norms (el' : bool) (l : list term) : option (list gt) :=
       match l with
       | [] => Some []
       | x :: r => match norm el' x, norms el' r with Some a, Some b => Some (a :: b) | _, _ => None end
       end) el l = norms el l.
  Proof. induction l as [|x l IH]; [reflexivity|]. cbn [norms map_opt]. rewrite IH. reflexivity. Qed.

  Fixpoint wf (el : bool) (t : term) {struct t} : Prop :=
    let wfs := fix wfs (el' : bool) (l : list term) : Prop :=
                 match l with [] => True | x :: r => wf el' x /\ wfs el' r end in
    match t with
    | TZero | TOne | TOnes => True
    | TInt ty n => (ty = 8 /\ n < 2 ^ 8) \/ (ty = 16 /\ n < 2 ^ 16) \/ (ty = 32 /\ n < 2 ^ 32) \/ (ty = 64 /\ n < 2 ^ 64)
                   \/ (ty = 0 /\ n < 2 ^ 64)
    | TStr s => Forall (fun c => c <> 0) s
    | TPath s => exists q, path_new s = Some q /\ wf_parts (p_parts q) /\ (el = false -> env (key_of q) = 0%nat)
    | TFieldName s => is_nameseg s = true /\ (el = false -> env (false, [s]) = 0%nat)
    | TEisa _ | TUuid _ | TBufData _ | TArg _ | TLocal _ => True
    | TDesc _ => False
    | TOp1 k a => k < 6 /\ wf false a
    | TOp2 k a b => k < 10 /\ wf false a /\ wf false b
    | TOp3 k t a b => k < 17 /\ wf false t /\ wf false a /\ wf false b
    | TOp4 k a b c d => k < 2 /\ wf false a /\ wf false b /\ wf false c /\ wf false d
    | TName p i => wf_name p /\ wf false i
    | TDevice p ks | TScope p ks | TScopeRaw p ks => wf_name p /\ wfs false ks
    | TMethod p ar sr ks => wf_name p /\ sr <= 1 /\ wfs false ks
    | TPowerRes p lv od ks => wf_name p /\ lv < 256 /\ od < 2 ^ 16 /\ wfs false ks
    | TOpRegion p sp o l => wf_name p /\ sp < 256 /\ wf false o /\ wf false l
    | TMutex p sy => wf_name p /\ sy < 256
    | TAcquire p tm => wf_name p /\ tm < 2 ^ 16
    | TRelease p => wf_name p
    | TCall p args => (exists q, path_new p = Some q /\ wf_parts (p_parts q) /\
                                 (if el then args = [] else env (key_of q) = length args)) /\ wfs false args
    | TField p ac lk up es => wf_name p /\ ac < 16 /\ lk <= 1 /\ up < 4 /\ Forall wf_fentry es
    | TPackage ks | TPkgBuilder ks => wfs true ks
    | TResTemplate ks => Forall desc_child ks      (* bare descriptors: allowed here, and only here *)
    | TIf pr ks | TWhile pr ks => wf false pr /\ wfs false ks
    | TElse ks => wfs false ks
    end.

  Definition wfs (el : bool) (l : list term) : Prop := Forall (wf el) l.

  Lemma wfs_fix el l :
    (fix wfs (el' : bool) (l : list term) : Prop := match l with [] => True | x :: r => wf el' x /\ wfs el' r end) el l
    <-> wfs el l.
  Proof.
    induction l as [|x l IH]; [split; [constructor|trivial]|]. split.
    - intros [H1 H2]. constructor; [exact H1|now apply IH].
    - intros H. inversion H; subst. split; [assumption|now apply IH].
  Qed.

  (* the statement proved for every sub-term *)
  Definition RT (t : term) : Prop :=
    forall el md b, wf el t -> enc md t = Some b -> N.of_nat (length b) < 2 ^ 63 ->
      exists g, norm el t = Some g /\ forall f, (depth t < f)%nat -> rt (parse env f) el b g.

  (* children: the concatenated encoding splits into the children's encodings, each of which round-trips *)
  Lemma kids_rt md el ks : Forall RT ks -> wfs el ks -> forall eks, encs md ks = Some eks -> N.of_nat (length eks) < 2 ^ 63 ->
    exists es gs, eks = concat es /\ norms el ks = Some gs /\ length es = length ks /\
      forall f, (depths ks < f)%nat -> Forall2 (rt (parse env f) el) es gs.
  Proof.
    induction ks as [|x ks IH]; intros HF Hwf eks He Hsz.
    - inversion He; subst. exists [], []. repeat split. intros; constructor.
    - inversion HF as [|? ? Hx Hks]; subst. inversion Hwf as [|? ? Wx Wks]; subst.
      rewrite encs_cons in He. destruct (enc md x) as [ex|] eqn:Ex; [|discriminate]. cbn [option_bind] in He.
      destruct (encs md ks) as [er|] eqn:Er; [|discriminate]. cbn [option_bind] in He. inversion He; subst eks.
      rewrite app_length in Hsz.
      destruct (Hx el md ex Wx Ex) as (g & Hg & Hrt); [lia|].
      destruct (IH Hks Wks er eq_refl) as (es & gs & -> & Hgs & Hlen & Hall); [lia|].
      exists (ex :: es), (g :: gs). cbn [concat norms map_opt length]. fold (norms el ks). rewrite Hg, Hgs, Hlen.
      repeat split. intros f Hf. cbn [depths fold_right] in Hf. fold (depths ks) in Hf.
      constructor; [apply Hrt; lia|apply Hall; lia].
  Qed.
End Main.

Section Main2.
  Variable env : arity_env.
  Notation RT := (RT env).
  Notation wf := (wf env).
  Notation norm := norm.

  Ltac fuel f := destruct f as [|f]; [lia|].

  Lemma RT_zero : RT TZero.
  Proof.
    intros el md b _ E _. inversion E; subst. exists (GInt 0). split; [reflexivity|]. intros f Hf. fuel f.
    apply (rt_spec_int env f el 0). reflexivity.
  Qed.

  Lemma RT_one : RT TOne.
  Proof.
    intros el md b _ E _. inversion E; subst. exists (GInt 1). split; [reflexivity|]. intros f Hf. fuel f.
    apply (rt_spec_int env f el 1). reflexivity.
  Qed.

  Lemma RT_ones : RT TOnes.
  Proof.
    intros el md b _ E _. inversion E; subst. exists GOnes. split; [reflexivity|]. intros f Hf. fuel f.
    apply rt_const. reflexivity.
  Qed.

  Lemma RT_int ty n : RT (TInt ty n).
  Proof.
    intros el md b W E _. cbn [wf] in W. cbn [enc] in E. destruct (enc_int_spec ty n b W E) as [-> Hn].
    exists (GInt n). split; [reflexivity|]. intros f Hf. fuel f. now apply rt_spec_int.
  Qed.

  Lemma RT_str s : RT (TStr s).
  Proof.
    intros el md b W E _. cbn [wf] in W. inversion E; subst. exists (GStr s). split; [reflexivity|].
    intros f Hf. fuel f. now apply rt_string.
  Qed.

  Lemma RT_path s : RT (TPath s).
  Proof.
    intros el md b (q & Hq & Hwf & Henv) E _. cbn [enc] in E. exists (if el then GName (p_root q) (p_parts q) else GCall (p_root q) (p_parts q) []).
    split; [cbn [norm]; rewrite Hq; reflexivity|]. intros f Hf. fuel f. intros r.
    destruct (path_text_decode s q b r Hq Hwf E) as [Hd Hh]. cbn [parse].
    rewrite (parse_step_name env _ el b r _ _ r Hh Hd). destruct el; [reflexivity|].
    unfold key_of in Henv. rewrite (Henv eq_refl). reflexivity.
  Qed.

  Lemma nameseg_decode s r : is_nameseg s = true -> name_decode (s ++ r) = Some (false, [s], r) /\ head_is_name s.
  Proof.
    intros H. destruct (nameseg_shape s H) as (a & b & c & d & -> & Ha & _).
    destruct (lead_not_prefix a Ha) as (N1 & N2 & N3). apply N.eqb_neq in N1, N2, N3.
    split; [|exists a; eexists; split; [reflexivity|auto]].
    unfold name_decode. cbn [app]. rewrite N1, N2, N3. cbn [take_segs]. rewrite H. reflexivity.
  Qed.

  Lemma RT_fieldname s : RT (TFieldName s).
  Proof.
    intros el md b [Hs Henv] E _. inversion E; subst. exists (if el then GName false [b] else GCall false [b] []).
    split; [reflexivity|]. intros f Hf. fuel f. intros r.
    destruct (nameseg_decode b r Hs) as [Hd Hh]. cbn [parse].
    rewrite (parse_step_name env _ el b r _ _ r Hh Hd). destruct el; [reflexivity|]. rewrite (Henv eq_refl). reflexivity.
  Qed.

  Lemma RT_arg n : RT (TArg n).
  Proof.
    intros el md b _ E _. cbn [enc] in E. destruct (N.leb_spec n 6) as [Hn|]; [|discriminate]. cbn [assert option_bind] in E.
    inversion E; subst. exists (GArg n). split; [reflexivity|]. intros f Hf. fuel f.
    apply rt_const. unfold leaf_const.
    destruct (N.eqb_spec (104 + n) 255); [lia|].
    assert (T : ((96 <=? 104 + n) && (104 + n <=? 103)) = false) by (destruct (N.leb_spec (104 + n) 103); [lia|apply andb_false_r]).
    rewrite T. assert (T2 : ((104 <=? 104 + n) && (104 + n <=? 110)) = true) by (apply andb_true_iff; split; apply N.leb_le; lia).
    rewrite T2. f_equal. f_equal. lia.
  Qed.

  Lemma RT_local n : RT (TLocal n).
  Proof.
    intros el md b _ E _. cbn [enc] in E. destruct (N.leb_spec n 7) as [Hn|]; [|discriminate]. cbn [assert option_bind] in E.
    inversion E; subst. exists (GLocal n). split; [reflexivity|]. intros f Hf. fuel f.
    apply rt_const. unfold leaf_const.
    destruct (N.eqb_spec (96 + n) 255); [lia|].
    assert (T : ((96 <=? 96 + n) && (96 + n <=? 103)) = true) by (apply andb_true_iff; split; apply N.leb_le; lia).
    rewrite T. f_equal. f_equal. lia.
  Qed.

  Lemma RT_eisa s : RT (TEisa s).
  Proof.
    intros el md b _ E _. cbn [enc] in E. unfold eisa_enc in E. destruct (eisa_value s) as [v|] eqn:Ev; [|discriminate].
    cbn [option_map] in E. inversion E; subst. exists (GInt v). split; [cbn [norm]; rewrite Ev; reflexivity|].
    assert (Hv : v < 2 ^ 32).
    { unfold eisa_value in Ev. repeat (destruct s as [|? s]; try discriminate).
      repeat match type of Ev with context [sub_c ?a ?b] => destruct (sub_c a b); [|discriminate] end.
      cbn [option_bind] in Ev.
      repeat match type of Ev with context [hex_digit ?a] => destruct (hex_digit a); [|discriminate] end.
      cbn [option_bind] in Ev. inversion Ev. apply swap_bytes32_lt. }
    intros f Hf. fuel f. rewrite enc_u32_spec by exact Hv. apply rt_spec_int. eapply N.lt_trans; [exact Hv|reflexivity].
  Qed.

  (* a buffer whose size operand is an integer constant *)
  Lemma rt_int_buffer md f el n data b :
    n < 2 ^ 64 -> framed md [0x11] (spec_int n ++ data) = Some b -> N.of_nat (length b) < 2 ^ 63 ->
    rt (parse env (S (S f))) el b (GBuffer (GInt n) data).
  Proof.
    intros Hn E Hsz r. unfold framed in E. destruct (pkg_len md _ true) as [pl|] eqn:Ep; [|discriminate].
    cbn [option_bind] in E. inversion E; subst b. cbn [app] in *.
    change (parse env (S (S f)) el) with (parse_step env (parse env (S f)) el). unfold parse_step at 1.
    cbn [N.eqb Pos.eqb orb andb N.leb N.compare Pos.compare Pos.compare_cont].
    change (17 =? 0) with false. change (17 =? 1) with false. change (17 =? 10) with false. change (17 =? 11) with false.
    change (17 =? 12) with false. change (17 =? 14) with false. change (17 =? 255) with false. change (17 =? 13) with false.
    change (96 <=? 17) with false. change (104 <=? 17) with false. cbn [orb andb].
    change (is_name_lead 17) with false. change (17 =? 17) with true. cbn iota.
    rewrite <- app_assoc.
    rewrite (take_pkg_framed md (spec_int n ++ data) pl r); [| |exact Ep].
    - rewrite (rt_spec_int env f false n Hn data). reflexivity.
    - cbn [length] in Hsz. rewrite app_length in Hsz. lia.
  Qed.

  Lemma RT_bufdata d : RT (TBufData d).
  Proof.
    intros el md b _ E Hsz. cbn [enc] in E. unfold buffer_data in E.
    assert (Hn : N.of_nat (length d) < 2 ^ 64).
    { unfold framed in E. destruct (pkg_len md _ true) as [pl|]; [|discriminate]. cbn [option_bind] in E. inversion E; subst b.
      cbn [app length] in Hsz. rewrite !app_length in Hsz. change (2 ^ 63) with 9223372036854775808 in Hsz.
      change (2 ^ 64) with 18446744073709551616. lia. }
    rewrite enc_usize_spec in E by exact Hn.
    exists (GBuffer (GInt (N.of_nat (length d))) d). split; [reflexivity|]. intros f Hf. cbn [depth] in Hf.
    destruct f as [|[|f]]; try lia. eapply rt_int_buffer; eauto.
  Qed.

  Lemma RT_uuid s : RT (TUuid s).
  Proof.
    intros el md b _ E Hsz. cbn [enc] in E. unfold uuid_enc in E. destruct (uuid_bytes s) as [u|] eqn:Eu; [|discriminate].
    cbn [option_bind] in E.
    assert (Hl : length u = 16%nat).
    { unfold uuid_bytes in Eu. destruct (assert (Nat.eqb (length s) 36)); [|discriminate]. cbn [option_bind] in Eu.
      destruct (assert _); [|discriminate]. cbn [option_bind] in Eu.
      unfold uuid_order in Eu. cbn [map] in Eu.
      repeat match type of Eu with context [hex2byte ?a ?b] => destruct (hex2byte a b); [|discriminate] end.
      cbn [opt_all option_map] in Eu. inversion Eu. reflexivity. }
    unfold buffer_data in E. rewrite Hl in E. change (N.of_nat 16) with 16 in E.
    exists (GBuffer (GInt 16) u). split; [cbn [norm]; rewrite Eu; reflexivity|]. intros f Hf. cbn [depth] in Hf.
    destruct f as [|[|f]]; try lia.
    rewrite enc_usize_spec in E by reflexivity. eapply rt_int_buffer; eauto. reflexivity.
  Qed.
End Main2.

Section Ops.
  Variable env : arity_env.
  Notation RT := (RT env).
  Notation wf := (wf env).

  Lemma dispatch1 op : leaf_lead op = false -> op <> 0x5B -> op <> 0x92 ->
    forall p el r0, parse_step env p el (op :: r0) = parse_op p op r0.
  Proof. intros H1 H2 H3 p el r0. rewrite parse_step_op by exact H1. rewrite op_code_plain by assumption. reflexivity. Qed.

  Lemma dispatch_ext x : forall p el r0, parse_step env p el (0x5B :: x :: r0) = parse_op p (0x5B00 + x) r0.
  Proof. intros. rewrite parse_step_op by reflexivity. rewrite op_code_ext. reflexivity. Qed.

  Lemma dispatch_lnot x : (x = 0x93 \/ x = 0x94 \/ x = 0x95) ->
    forall p el r0, parse_step env p el (0x92 :: x :: r0) = parse_op p (0x9200 + x) r0.
  Proof. intros Hx p el r0. rewrite parse_step_op by reflexivity. rewrite op_code_lnot by exact Hx. reflexivity. Qed.

  Lemma parse_items_terms p : forall es gs r, Forall2 (rt p false) es gs ->
    parse_items p (repeat KTerm (length es)) (concat es ++ r) = Some (gs, r).
  Proof.
    induction es as [|e es IH]; intros gs r HF.
    - inversion HF; subst. reflexivity.
    - inversion HF as [|? g ? gs' Hrt Hrest]; subst. cbn [length repeat concat]. rewrite <- app_assoc.
      eapply parse_items_term; [apply Hrt|apply IH; exact Hrest].
  Qed.

  (* an operator whose operands are all TermArgs *)
  Lemma rt_termop f el opb code es gs :
    (forall p el r0, parse_step env p el (opb ++ r0) = parse_op p code r0) ->
    op_table code = Some (mk false (repeat KTerm (length es)) LNone) ->
    Forall2 (rt (parse env f) false) es gs ->
    rt (parse env (S f)) el (opb ++ concat es) (GOp code gs []).
  Proof.
    intros Hd Ht HF r. cbn [parse]. rewrite <- app_assoc. rewrite Hd.
    eapply parse_op_fixed; [exact Ht|]. now apply parse_items_terms.
  Qed.

  Ltac fuel f := destruct f as [|f]; [lia|].

  Lemma opt_all_map {A B} (g : A -> option B) l : opt_all (map g l) = map_opt g l.
  Proof.
    induction l as [|x l IH]; [reflexivity|]. cbn [map opt_all map_opt]. rewrite IH.
    destruct (g x); [destruct (map_opt g l); reflexivity|reflexivity].
  Qed.

  (* generic case: an operator whose operands (in stream order ks) are all TermArgs *)
  Lemma RT_termop_gen md el opb code ks eks b d :
    Forall RT ks -> wfs env false ks -> encs md ks = Some eks -> b = opb ++ eks -> N.of_nat (length b) < 2 ^ 63 ->
    (forall p el r0, parse_step env p el (opb ++ r0) = parse_op p code r0) ->
    op_table code = Some (mk false (repeat KTerm (length ks)) LNone) ->
    (depths ks < d)%nat ->
    exists g, mkop code (map (norm false) ks) (Some []) = Some g /\
              forall f, (d < f)%nat -> rt (parse env f) el b g.
  Proof.
    intros HF Hwf He -> Hsz Hd Ht Hdep.
    destruct (kids_rt env md false ks HF Hwf eks He) as (es & gs & -> & Hgs & Hlen & Hall).
    { rewrite app_length in Hsz. lia. }
    exists (GOp code gs []). split.
    - unfold mkop. rewrite opt_all_map. fold (norms false ks). rewrite Hgs. reflexivity.
    - intros f Hf. destruct f as [|f]; [lia|]. rewrite <- Hlen in Ht.
      apply rt_termop; [exact Hd|exact Ht|apply Hall; lia].
  Qed.

  Lemma enc1 md a ea : enc md a = Some ea -> encs md [a] = Some (ea ++ []).
  Proof. intros H. cbn [encs opt_concat_map]. rewrite H. reflexivity. Qed.
  Lemma enc2 md a b ea eb : enc md a = Some ea -> enc md b = Some eb -> encs md [a; b] = Some (ea ++ eb ++ []).
  Proof. intros H1 H2. cbn [encs opt_concat_map]. rewrite H1, H2. reflexivity. Qed.
  Lemma enc3 md a b c ea eb ec : enc md a = Some ea -> enc md b = Some eb -> enc md c = Some ec ->
    encs md [a; b; c] = Some (ea ++ eb ++ ec ++ []).
  Proof. intros H1 H2 H3. cbn [encs opt_concat_map]. rewrite H1, H2, H3. reflexivity. Qed.
  Lemma enc4 md a b c d ea eb ec ed : enc md a = Some ea -> enc md b = Some eb -> enc md c = Some ec -> enc md d = Some ed ->
    encs md [a; b; c; d] = Some (ea ++ eb ++ ec ++ ed ++ []).
  Proof. intros H1 H2 H3 H4. cbn [encs opt_concat_map]. rewrite H1, H2, H3, H4. reflexivity. Qed.

  Ltac disp1 := intros; apply dispatch1; [reflexivity|discriminate|discriminate].

  (* single-byte operator with one TermArg operand *)
  Lemma op_arity1 op a el md b ea :
    leaf_lead op = false -> op <> 0x5B -> op <> 0x92 -> op_table op = Some (mk false [KTerm] LNone) ->
    RT a -> wf false a -> enc md a = Some ea -> b = [op] ++ ea -> N.of_nat (length b) < 2 ^ 63 ->
    exists g, mkop op [norm false a] (Some []) = Some g /\ forall f, (S (depth a) < f)%nat -> rt (parse env f) el b g.
  Proof.
    intros H1 H2 H3 Ht IHa Wa Ea -> Hsz.
    apply (RT_termop_gen md el [op] op [a] (ea ++ [])); auto.
    - constructor; [exact Wa|constructor]. - now apply enc1. - now rewrite app_nil_r.
    - intros; now apply dispatch1. - cbn [depths fold_right]. lia.
  Qed.

  Lemma RT_op1 k a : RT a -> RT (TOp1 k a).
  Proof.
    intros IHa el md b [Hk Wa] E Hsz. cbn [enc] in E. destruct (enc md a) as [ea|] eqn:Ea; [|discriminate].
    cbn [option_bind] in E.
    assert (Hk' : k = 0 \/ k = 1 \/ k = 2 \/ k = 3 \/ k = 4 \/ k = 5) by lia.
    destruct Hk' as [->|[->|[->|[->|[->| ->]]]]]; cbn [op1_code option_bind] in E.
    - inversion E; subst b. cbn [norm op1_gcode depth]. eapply (op_arity1 0x8E a el md _ ea); eauto; try reflexivity; discriminate.
    - inversion E; subst b. cbn [norm op1_gcode depth]. eapply (op_arity1 0x87 a el md _ ea); eauto; try reflexivity; discriminate.
    - inversion E; subst b. cbn [norm op1_gcode depth]. eapply (op_arity1 0xA4 a el md _ ea); eauto; try reflexivity; discriminate.
    - inversion E; subst b. cbn [norm op1_gcode depth]. eapply (op_arity1 0x83 a el md _ ea); eauto; try reflexivity; discriminate.
    - (* BufferTerm *) unfold framed in E. destruct (pkg_len md _ true) as [pl|] eqn:Ep; [|discriminate].
      cbn [option_bind] in E. inversion E; subst b. cbn [app length] in Hsz. rewrite app_length in Hsz.
      destruct (IHa false md ea Wa Ea) as (ga & Hga & Hrt); [lia|].
      exists (GBuffer ga []). split; [cbn [norm]; rewrite Hga; reflexivity|]. intros f Hf. cbn [depth] in Hf. fuel f.
      intros r. cbn [app parse]. unfold parse_step.
      change (17 =? 0) with false. change (17 =? 1) with false. change (17 =? 10) with false. change (17 =? 11) with false.
      change (17 =? 12) with false. change (17 =? 14) with false. change (17 =? 255) with false. change (17 =? 13) with false.
      change (96 <=? 17) with false. change (104 <=? 17) with false. cbn [orb andb].
      change (is_name_lead 17) with false. change (17 =? 17) with true. cbn iota.
      rewrite <- app_assoc. rewrite (take_pkg_framed md ea pl r); [|lia|exact Ep].
      pose proof (Hrt f ltac:(lia) []) as H0. rewrite app_nil_r in H0. rewrite H0. reflexivity.
    - (* VarPackageTerm *) unfold framed in E. destruct (pkg_len md _ true) as [pl|] eqn:Ep; [|discriminate].
      cbn [option_bind] in E. inversion E; subst b. cbn [app length] in Hsz. rewrite app_length in Hsz.
      destruct (IHa false md ea Wa Ea) as (ga & Hga & Hrt); [lia|].
      exists (GOp 0x13 [ga] []). split; [cbn [norm mkop opt_all option_map]; rewrite Hga; reflexivity|].
      intros f Hf. cbn [depth] in Hf. fuel f. intros r. cbn [app parse]. rewrite dispatch1; [|reflexivity|discriminate|discriminate].
      rewrite <- app_assoc.
      eapply (parse_op_framed _ 0x13 [KTerm] LElems md ea pl r [ga] [] []); [reflexivity|lia|exact Ep| |reflexivity].
      pose proof (Hrt f ltac:(lia) []) as H0. rewrite app_nil_r in H0.
      cbn [parse_items]. rewrite H0. reflexivity.
  Qed.

  Ltac dsp := first [ intros; apply dispatch1; [reflexivity|discriminate|discriminate]
                    | intros; apply dispatch_ext
                    | intros; apply dispatch_lnot; auto ].

  (* operands given in STREAM order *)
  Lemma op_stream2 opb code x y el md b ex ey d :
    (forall p el r0, parse_step env p el (opb ++ r0) = parse_op p code r0) ->
    op_table code = Some (mk false [KTerm; KTerm] LNone) ->
    RT x -> RT y -> wf false x -> wf false y -> enc md x = Some ex -> enc md y = Some ey ->
    b = opb ++ ex ++ ey -> N.of_nat (length b) < 2 ^ 63 -> (Nat.max (depth x) (depth y) < d)%nat ->
    exists g, mkop code [norm false x; norm false y] (Some []) = Some g /\ forall f, (d < f)%nat -> rt (parse env f) el b g.
  Proof.
    intros Hd Ht Ix Iy Wx Wy Ex Ey -> Hsz Hdep.
    apply (RT_termop_gen md el opb code [x; y] (ex ++ ey ++ [])); auto.
    - repeat constructor; assumption. - now apply enc2. - now rewrite app_nil_r.
    - cbn [depths fold_right]. lia.
  Qed.

  Lemma op_stream3 opb code x y z el md b ex ey ez d :
    (forall p el r0, parse_step env p el (opb ++ r0) = parse_op p code r0) ->
    op_table code = Some (mk false [KTerm; KTerm; KTerm] LNone) ->
    RT x -> RT y -> RT z -> wf false x -> wf false y -> wf false z ->
    enc md x = Some ex -> enc md y = Some ey -> enc md z = Some ez ->
    b = opb ++ ex ++ ey ++ ez -> N.of_nat (length b) < 2 ^ 63 -> (Nat.max (depth x) (Nat.max (depth y) (depth z)) < d)%nat ->
    exists g, mkop code [norm false x; norm false y; norm false z] (Some []) = Some g /\
              forall f, (d < f)%nat -> rt (parse env f) el b g.
  Proof.
    intros Hd Ht Ix Iy Iz Wx Wy Wz Ex Ey Ez -> Hsz Hdep.
    apply (RT_termop_gen md el opb code [x; y; z] (ex ++ ey ++ ez ++ [])); auto.
    - repeat constructor; assumption. - now apply enc3. - now rewrite app_nil_r.
    - cbn [depths fold_right]. lia.
  Qed.

  Lemma op_stream4 opb code x y z w el md b ex ey ez ew d :
    (forall p el r0, parse_step env p el (opb ++ r0) = parse_op p code r0) ->
    op_table code = Some (mk false [KTerm; KTerm; KTerm; KTerm] LNone) ->
    RT x -> RT y -> RT z -> RT w -> wf false x -> wf false y -> wf false z -> wf false w ->
    enc md x = Some ex -> enc md y = Some ey -> enc md z = Some ez -> enc md w = Some ew ->
    b = opb ++ ex ++ ey ++ ez ++ ew -> N.of_nat (length b) < 2 ^ 63 ->
    (Nat.max (depth x) (Nat.max (depth y) (Nat.max (depth z) (depth w))) < d)%nat ->
    exists g, mkop code [norm false x; norm false y; norm false z; norm false w] (Some []) = Some g /\
              forall f, (d < f)%nat -> rt (parse env f) el b g.
  Proof.
    intros Hd Ht Ix Iy Iz Iw Wx Wy Wz Ww Ex Ey Ez Ew -> Hsz Hdep.
    apply (RT_termop_gen md el opb code [x; y; z; w] (ex ++ ey ++ ez ++ ew ++ [])); auto.
    - repeat constructor; assumption. - now apply enc4. - now rewrite app_nil_r.
    - cbn [depths fold_right]. lia.
  Qed.

  Lemma RT_op2 k a b : RT a -> RT b -> RT (TOp2 k a b).
  Proof.
    intros IHa IHb el md bs (Hk & Wa & Wb) E Hsz. cbn [enc] in E.
    destruct (enc md a) as [ea|] eqn:Ea; [|discriminate]. destruct (enc md b) as [eb|] eqn:Eb; [|discriminate].
    cbn [option_bind] in E.
    assert (Hk' : k = 0 \/ k = 1 \/ k = 2 \/ k = 3 \/ k = 4 \/ k = 5 \/ k = 6 \/ k = 7 \/ k = 8 \/ k = 9) by lia.
    destruct Hk' as [->|[->|[->|[->|[->|[->|[->|[->|[->| ->]]]]]]]]]; cbn [cmp_code option_bind] in E; inversion E; subst bs;
      cbn [norm cmp_gcode depth].
    - eapply (op_stream2 [0x93] 0x93 a b el md _ ea eb); eauto; try reflexivity; try dsp; lia.
    - eapply (op_stream2 [0x95] 0x95 a b el md _ ea eb); eauto; try reflexivity; try dsp; lia.
    - eapply (op_stream2 [0x94] 0x94 a b el md _ ea eb); eauto; try reflexivity; try dsp; lia.
    - eapply (op_stream2 [0x92; 0x93] 0x9293 a b el md _ ea eb); eauto; try reflexivity; try dsp; lia.
    - eapply (op_stream2 [0x92; 0x95] 0x9295 a b el md _ ea eb); eauto; try reflexivity; try dsp; lia.
    - eapply (op_stream2 [0x92; 0x94] 0x9294 a b el md _ ea eb); eauto; try reflexivity; try dsp; lia.
    - eapply (op_stream2 [0x70] 0x70 b a el md _ eb ea); eauto; try reflexivity; try dsp; lia.
    - eapply (op_stream2 [0x86] 0x86 a b el md _ ea eb); eauto; try reflexivity; try dsp; lia.
    - eapply (op_stream2 [0x96] 0x96 b a el md _ eb ea); eauto; try reflexivity; try dsp; lia.
    - eapply (op_stream2 [0x99] 0x99 b a el md _ eb ea); eauto; try reflexivity; try dsp; lia.
  Qed.

  Definition op3_list : list N := [0x72; 0x73; 0x74; 0x77; 0x79; 0x7A; 0x7B; 0x7C; 0x7D; 0x7E; 0x7F; 0x84; 0x85; 0x88; 0x9C; 0x8A; 0x8F].
  Definition op3_ok (op : N) : bool :=
    negb (leaf_lead op) && negb (op =? 0x5B) && negb (op =? 0x92) &&
    match op_table op with Some oi => negb (oi_framed oi) && Nat.eqb (length (oi_items oi)) 3 &&
                                      forallb (fun k => match k with KTerm => true | _ => false end) (oi_items oi) &&
                                      match oi_list oi with LNone => true | _ => false end
                      | None => false end.

  Lemma op3_props k op : op3_code k = Some op ->
    leaf_lead op = false /\ op <> 0x5B /\ op <> 0x92 /\ op_table op = Some (mk false [KTerm; KTerm; KTerm] LNone).
  Proof.
    intros H. unfold op3_code in H. apply nth_error_In in H.
    assert (Hall : forallb op3_ok op3_list = true) by (vm_compute; reflexivity).
    rewrite forallb_forall in Hall. specialize (Hall op H). unfold op3_ok in Hall.
    apply andb_true_iff in Hall. destruct Hall as [Hall Ht]. apply andb_true_iff in Hall. destruct Hall as [Hall H92].
    apply andb_true_iff in Hall. destruct Hall as [Hl H5b].
    apply negb_true_iff in Hl, H5b, H92. apply N.eqb_neq in H5b, H92.
    repeat split; auto.
    destruct (op_table op) as [[fr its lm]|]; [|discriminate]. cbn [oi_framed oi_items oi_list] in Ht.
    apply andb_true_iff in Ht. destruct Ht as [Ht Hlm]. apply andb_true_iff in Ht. destruct Ht as [Ht Hk].
    apply andb_true_iff in Ht. destruct Ht as [Hfr Hlen]. apply negb_true_iff in Hfr. subst fr.
    destruct lm; try discriminate.
    destruct its as [|k1 [|k2 [|k3 [|k4 its]]]]; try discriminate.
    cbn [forallb] in Hk. destruct k1, k2, k3; try discriminate. reflexivity.
  Qed.

  Lemma RT_op3 k t a b : RT t -> RT a -> RT b -> RT (TOp3 k t a b).
  Proof.
    intros IHt IHa IHb el md bs (Hk & Wt & Wa & Wb) E Hsz. cbn [enc] in E.
    destruct (enc md a) as [ea|] eqn:Ea; [|discriminate]. destruct (enc md b) as [eb|] eqn:Eb; [|discriminate].
    destruct (enc md t) as [et|] eqn:Et; [|discriminate]. cbn [option_bind] in E.
    destruct (op3_code k) as [op|] eqn:Eo; [|discriminate]. cbn [option_bind] in E. inversion E; subst bs.
    destruct (op3_props k op Eo) as (H1 & H2 & H3 & H4).
    cbn [norm depth]. rewrite Eo.
    eapply (op_stream3 [op] op a b t el md _ ea eb et); eauto; try reflexivity.
    - intros; now apply dispatch1.
    - lia.
  Qed.

  Lemma RT_op4 k a b c d : RT a -> RT b -> RT c -> RT d -> RT (TOp4 k a b c d).
  Proof.
    intros IHa IHb IHc IHd el md bs (Hk & Wa & Wb & Wc & Wd) E Hsz. cbn [enc] in E.
    destruct (enc md a) as [ea|] eqn:Ea; [|discriminate]. destruct (enc md b) as [eb|] eqn:Eb; [|discriminate].
    destruct (enc md c) as [ec|] eqn:Ec; [|discriminate]. destruct (enc md d) as [ed|] eqn:Ed; [|discriminate].
    cbn [option_bind] in E.
    assert (Hk' : k = 0 \/ k = 1) by lia. destruct Hk' as [->| ->]; inversion E; subst bs; cbn [norm depth].
    - eapply (op_stream4 [0x5B; 0x13] 0x5B13 b c d a el md _ eb ec ed ea); eauto; try reflexivity; try dsp; lia.
    - eapply (op_stream4 [0x9E] 0x9E a b c d el md _ ea eb ec ed); eauto; try reflexivity; try dsp; lia.
  Qed.

  (* ---- names as items ---- *)
  Lemma name_item p ep r : wf_name p -> enc_path_text p = Some ep ->
    exists rt segs, name_gt p = Some (GName rt segs) /\ name_decode (ep ++ r) = Some (rt, segs, r).
  Proof.
    intros (q & Hq & Hwf) He. exists (p_root q), (p_parts q). unfold name_gt. rewrite Hq. split; [reflexivity|].
    exact (proj1 (path_text_decode p q ep r Hq Hwf He)).
  Qed.

  (* ---- length-delimited operators ---- *)
  Lemma rt_framed f el opb code items lm el' md body pl its es gs :
    (forall p el r0, parse_step env p el (opb ++ r0) = parse_op p code r0) ->
    op_table code = Some (mk true items lm) ->
    N.of_nat (length body) < 2 ^ 63 -> pkg_len md (N.of_nat (length body)) true = Some pl ->
    (lm = LTerms /\ el' = false) \/ (lm = LElems /\ el' = true) ->
    parse_items (parse env f) items body = Some (its, concat es) ->
    Forall2 (rt (parse env f) el') es gs ->
    rt (parse env (S f)) el (opb ++ pl ++ body) (GOp code its gs).
  Proof.
    intros Hd Ht Hsz Hp Hlm Hi HF r. cbn [parse]. rewrite <- !app_assoc. rewrite Hd.
    eapply (parse_op_framed _ code items lm md body pl r its (concat es) gs); eauto.
    assert (Hall : parse_all (parse env f) (length (concat es)) el' (concat es) = Some gs).
    { apply parse_all_concat; [intros; apply parse_nil|exact HF|lia]. }
    destruct Hlm as [[-> ->]|[-> ->]]; exact Hall.
  Qed.

  (* shared shape of the framed cases: the body is [prefix items] ++ children *)
  Lemma framed_case md el el' opb code items lm pre its ks eks b d :
    Forall RT ks -> wfs env el' ks -> encs md ks = Some eks ->
    framed md opb (pre ++ eks) = Some b -> N.of_nat (length b) < 2 ^ 63 ->
    (forall p el r0, parse_step env p el (opb ++ r0) = parse_op p code r0) ->
    op_table code = Some (mk true items lm) ->
    (lm = LTerms /\ el' = false) \/ (lm = LElems /\ el' = true) ->
    (forall f rest, (d <= f)%nat -> parse_items (parse env f) items (pre ++ rest) = Some (its, rest)) ->
    (depths ks < d)%nat ->
    exists gs, norms el' ks = Some gs /\ forall f, (d < f)%nat -> rt (parse env f) el b (GOp code its gs).
  Proof.
    intros HF Hwf He Hfr Hsz Hd Ht Hlm Hitems Hdep.
    unfold framed in Hfr. destruct (pkg_len md _ true) as [pl|] eqn:Ep; [|discriminate].
    cbn [option_bind] in Hfr. inversion Hfr; subst b.
    assert (Hb : N.of_nat (length (pre ++ eks)) < 2 ^ 63) by (rewrite !app_length in Hsz; rewrite app_length; lia).
    destruct (kids_rt env md el' ks HF Hwf eks He) as (es & gs & -> & Hgs & Hlen & Hall).
    { rewrite app_length in Hb. lia. }
    exists gs. split; [exact Hgs|]. intros f Hf. destruct f as [|f]; [lia|].
    eapply rt_framed; eauto.
    - apply Hitems. lia.
    - apply Hall. lia.
  Qed.

  Ltac prep E W :=
    cbn [enc] in E; rewrite ?encs_fix in E; cbn [norm]; rewrite ?norms_fix;
    cbn [wf] in W; rewrite ?wfs_fix in W; cbn [depth]; rewrite ?depth_list_fix.

  Lemma method_flags ar sr : ar <= 7 -> sr <= 1 -> N.lor (N.land ar 7) (N.shiftl sr 3) = ar + 8 * sr.
  Proof.
    intros Ha Hs.
    assert (Ha' : ar = 0 \/ ar = 1 \/ ar = 2 \/ ar = 3 \/ ar = 4 \/ ar = 5 \/ ar = 6 \/ ar = 7) by lia.
    assert (Hs' : sr = 0 \/ sr = 1) by lia.
    destruct Ha' as [->|[->|[->|[->|[->|[->|[->| ->]]]]]]]; destruct Hs' as [->| ->]; reflexivity.
  Qed.

  Lemma RT_device p ks : Forall RT ks -> RT (TDevice p ks).
  Proof.
    intros HF el md b W E Hsz. prep E W. destruct W as [Wp Wk].
    destruct (enc_path_text p) as [ep|] eqn:Ep; [|discriminate]. cbn [option_bind] in E.
    destruct (encs md ks) as [eks|] eqn:Ek; [|discriminate]. cbn [option_bind] in E.
    destruct (name_item p ep [] Wp Ep) as (rt0 & segs & Hng & _).
    destruct (framed_case md el false [0x5B; 0x82] 0x5B82 [KName] LTerms ep [GName rt0 segs] ks eks b (S (depths ks)))
      as (gs & Hgs & Hrt); auto; try dsp.
    - intros f rest _. destruct (name_item p ep rest Wp Ep) as (rt1 & segs1 & Hng1 & Hd1).
      rewrite Hng in Hng1. inversion Hng1; subst. eapply parse_items_name; [exact Hd1|reflexivity].
    - exists (GOp 0x5B82 [GName rt0 segs] gs). split; [unfold mkop; cbn [opt_all]; rewrite Hng, Hgs; reflexivity|exact Hrt].
  Qed.

  Lemma RT_scope p ks : Forall RT ks -> RT (TScope p ks).
  Proof.
    intros HF el md b W E Hsz. prep E W. destruct W as [Wp Wk].
    destruct (enc_path_text p) as [ep|] eqn:Ep; [|discriminate]. cbn [option_bind] in E.
    destruct (encs md ks) as [eks|] eqn:Ek; [|discriminate]. cbn [option_bind] in E.
    destruct (name_item p ep [] Wp Ep) as (rt0 & segs & Hng & _).
    destruct (framed_case md el false [0x10] 0x10 [KName] LTerms ep [GName rt0 segs] ks eks b (S (depths ks)))
      as (gs & Hgs & Hrt); auto; try dsp.
    - intros f rest _. destruct (name_item p ep rest Wp Ep) as (rt1 & segs1 & Hng1 & Hd1).
      rewrite Hng in Hng1. inversion Hng1; subst. eapply parse_items_name; [exact Hd1|reflexivity].
    - exists (GOp 0x10 [GName rt0 segs] gs). split; [unfold mkop; cbn [opt_all]; rewrite Hng, Hgs; reflexivity|exact Hrt].
  Qed.

  Lemma RT_scoperaw p ks : Forall RT ks -> RT (TScopeRaw p ks).
  Proof.
    intros HF el md b W E Hsz. rewrite scope_raw_eq in E.
    exact (RT_scope p ks HF el md b W E Hsz).
  Qed.

  Lemma RT_method p ar sr ks : Forall RT ks -> RT (TMethod p ar sr ks).
  Proof.
    intros HF el md b W E Hsz. prep E W. destruct W as (Wp & Wsr & Wk).
    destruct (enc_path_text p) as [ep|] eqn:Ep; [|discriminate]. cbn [option_bind] in E.
    destruct (N.leb_spec ar 7) as [Har|]; [|discriminate]. cbn [assert option_bind] in E.
    destruct (encs md ks) as [eks|] eqn:Ek; [|discriminate]. cbn [option_bind] in E.
    rewrite method_flags in E by assumption.
    destruct (name_item p ep [] Wp Ep) as (rt0 & segs & Hng & _).
    replace (ep ++ [ar + 8 * sr] ++ eks) with ((ep ++ [ar + 8 * sr]) ++ eks) in E by (now rewrite <- app_assoc).
    destruct (framed_case md el false [0x14] 0x14 [KName; KByte] LTerms (ep ++ [ar + 8 * sr]) [GName rt0 segs; GNum (ar + 8 * sr)]
                ks eks b (S (depths ks))) as (gs & Hgs & Hrt); auto; try dsp.
    - intros f rest _. destruct (name_item p ep ([ar + 8 * sr] ++ rest) Wp Ep) as (rt1 & segs1 & Hng1 & Hd1).
      rewrite Hng in Hng1. inversion Hng1; subst. rewrite <- app_assoc.
      eapply parse_items_name; [exact Hd1|]. cbn [app]. apply parse_items_byte. reflexivity.
    - exists (GOp 0x14 [GName rt0 segs; GNum (ar + 8 * sr)] gs).
      split; [unfold mkop; cbn [opt_all]; rewrite Hng, Hgs; reflexivity|exact Hrt].
  Qed.

  Lemma RT_power p lv od ks : Forall RT ks -> RT (TPowerRes p lv od ks).
  Proof.
    intros HF el md b W E Hsz. prep E W. destruct W as (Wp & Wlv & Wod & Wk).
    destruct (enc_path_text p) as [ep|] eqn:Ep; [|discriminate]. cbn [option_bind] in E.
    destruct (encs md ks) as [eks|] eqn:Ek; [|discriminate]. cbn [option_bind] in E.
    destruct (name_item p ep [] Wp Ep) as (rt0 & segs & Hng & _).
    replace (ep ++ [lv] ++ w2 od ++ eks) with ((ep ++ [lv] ++ w2 od) ++ eks) in E by (now rewrite <- !app_assoc).
    destruct (framed_case md el false [0x5B; 0x84] 0x5B84 [KName; KByte; KWord] LTerms (ep ++ [lv] ++ w2 od)
                [GName rt0 segs; GNum lv; GNum od] ks eks b (S (depths ks))) as (gs & Hgs & Hrt); auto; try dsp.
    - intros f rest _. destruct (name_item p ep ([lv] ++ w2 od ++ rest) Wp Ep) as (rt1 & segs1 & Hng1 & Hd1).
      rewrite Hng in Hng1. inversion Hng1; subst. rewrite <- !app_assoc.
      eapply parse_items_name; [exact Hd1|]. cbn [app]. apply parse_items_byte. apply parse_items_word; [exact Wod|reflexivity].
    - exists (GOp 0x5B84 [GName rt0 segs; GNum lv; GNum od] gs).
      split; [unfold mkop; cbn [opt_all]; rewrite Hng, Hgs; reflexivity|exact Hrt].
  Qed.

  Lemma RT_else ks : Forall RT ks -> RT (TElse ks).
  Proof.
    intros HF el md b W E Hsz. prep E W.
    destruct (encs md ks) as [eks|] eqn:Ek; [|discriminate]. cbn [option_bind] in E.
    destruct (framed_case md el false [0xA1] 0xA1 [] LTerms [] [] ks eks b (S (depths ks))) as (gs & Hgs & Hrt); auto; try dsp.
    exists (GOp 0xA1 [] gs). split; [unfold mkop; cbn [opt_all]; rewrite Hgs; reflexivity|exact Hrt].
  Qed.

  Lemma RT_ifwhile (isif : bool) pr ks : RT pr -> Forall RT ks -> RT (if isif then TIf pr ks else TWhile pr ks).
  Proof.
    intros Hpr HF el md b W E Hsz.
    set (opc := if isif then 0xA0 else 0xA2).
    assert (Eq : enc md (if isif then TIf pr ks else TWhile pr ks) =
                 (do ep <- enc md pr; do eks <- encs md ks; framed md [opc] (ep ++ eks))).
    { destruct isif; cbn [enc]; rewrite ?encs_fix; reflexivity. }
    assert (Wq : wf false pr /\ wfs env false ks) by (destruct isif; cbn [wf] in W; rewrite ?wfs_fix in W; exact W).
    rewrite Eq in E. destruct Wq as [Wp Wk].
    destruct (enc md pr) as [ep|] eqn:Ep; [|discriminate]. cbn [option_bind] in E.
    destruct (encs md ks) as [eks|] eqn:Ek; [|discriminate]. cbn [option_bind] in E.
    assert (Hsz' : N.of_nat (length ep) < 2 ^ 63).
    { unfold framed in E. destruct (pkg_len md _ true); [|discriminate]. cbn [option_bind] in E. inversion E; subst b.
      cbn [app length] in Hsz. rewrite !app_length in Hsz. lia. }
    destruct (Hpr false md ep Wp Ep Hsz') as (gp & Hgp & Hrtp).
    destruct (framed_case md el false [opc] opc [KTerm] LTerms ep [gp] ks eks b (S (Nat.max (depth pr) (depths ks))))
      as (gs & Hgs & Hrt); auto.
    - intros; apply dispatch1; destruct isif; try reflexivity; discriminate.
    - destruct isif; reflexivity.
    - intros f rest Hf. eapply parse_items_term; [apply Hrtp; lia|reflexivity].
    - lia.
    - exists (GOp opc [gp] gs). split.
      + destruct isif; cbn [norm]; rewrite ?norms_fix; unfold mkop; cbn [opt_all]; rewrite Hgp, Hgs; reflexivity.
      + intros f Hf. apply Hrt. destruct isif; cbn [depth] in Hf; rewrite ?depth_list_fix in Hf; exact Hf.
  Qed.

  Lemma RT_package (builder : bool) ks : Forall RT ks -> RT (if builder then TPkgBuilder ks else TPackage ks).
  Proof.
    intros HF el md b W E Hsz.
    assert (E' : enc md (TPackage ks) = Some b) by (destruct builder; [rewrite <- pkg_builder_eq|]; exact E).
    assert (Wk : wfs env true ks) by (destruct builder; cbn [wf] in W; rewrite ?wfs_fix in W; exact W).
    clear E W. cbn [enc] in E'. rewrite ?encs_fix in E'.
    destruct (N.leb_spec (N.of_nat (length ks)) 255) as [Hn|]; [|discriminate]. cbn [assert option_bind] in E'.
    destruct (encs md ks) as [eks|] eqn:Ek; [|discriminate]. cbn [option_bind] in E'.
    unfold cast, U8 in E'. change (2 ^ 8) with 256 in E'. rewrite N.mod_small in E' by lia.
    change (N.of_nat (length ks) :: eks) with ([N.of_nat (length ks)] ++ eks) in E'.
    destruct (framed_case md el true [0x12] 0x12 [KByte] LElems [N.of_nat (length ks)] [GNum (N.of_nat (length ks))]
                ks eks b (S (depths ks))) as (gs & Hgs & Hrt); auto; try dsp; try (right; split; reflexivity);
      try (intros f rest _; cbn [app]; apply parse_items_byte; reflexivity).
    exists (GOp 0x12 [GNum (N.of_nat (length ks))] gs). split.
      + destruct builder; cbn [norm]; rewrite ?norms_fix; unfold mkop; cbn [opt_all]; rewrite Hgs; reflexivity.
      + intros f Hf. apply Hrt. destruct builder; cbn [depth] in Hf; rewrite ?depth_list_fix in Hf; exact Hf.
  Qed.

  (* ---- fixed operators with name / byte / word items ---- *)
  Lemma rt_fixed f el opb code items its body :
    (forall p el r0, parse_step env p el (opb ++ r0) = parse_op p code r0) ->
    op_table code = Some (mk false items LNone) ->
    (forall r, parse_items (parse env f) items (body ++ r) = Some (its, r)) ->
    rt (parse env (S f)) el (opb ++ body) (GOp code its []).
  Proof.
    intros Hd Ht Hi r. cbn [parse]. rewrite <- app_assoc. rewrite Hd. eapply parse_op_fixed; [exact Ht|apply Hi].
  Qed.

  Lemma RT_name p i : RT i -> RT (TName p i).
  Proof.
    intros IHi el md b W E Hsz. prep E W. destruct W as [Wp Wi].
    destruct (enc_path_text p) as [ep|] eqn:Ep; [|discriminate]. cbn [option_bind] in E.
    destruct (enc md i) as [ei|] eqn:Ei; [|discriminate]. cbn [option_bind] in E. inversion E; subst b.
    cbn [app length] in Hsz. rewrite !app_length in Hsz.
    destruct (IHi false md ei Wi Ei) as (gi & Hgi & Hrt); [lia|].
    destruct (name_item p ep [] Wp Ep) as (rt0 & segs & Hng & _).
    exists (GOp 0x08 [GName rt0 segs; gi] []). split; [unfold mkop; cbn [opt_all]; rewrite Hng, Hgi; reflexivity|].
    intros f Hf. fuel f. apply (rt_fixed f el [0x08] 0x08 [KName; KTerm] [GName rt0 segs; gi] (ep ++ ei)); [dsp|reflexivity|].
    intros r. destruct (name_item p ep (ei ++ r) Wp Ep) as (rt1 & segs1 & Hng1 & Hd1).
    rewrite Hng in Hng1. inversion Hng1; subst. rewrite <- app_assoc.
    eapply parse_items_name; [exact Hd1|]. eapply parse_items_term; [apply Hrt; lia|reflexivity].
  Qed.

  Lemma RT_opregion p sp o l : RT o -> RT l -> RT (TOpRegion p sp o l).
  Proof.
    intros IHo IHl el md b W E Hsz. prep E W. destruct W as (Wp & Wsp & Wo & Wl).
    destruct (enc_path_text p) as [ep|] eqn:Ep; [|discriminate]. cbn [option_bind] in E.
    destruct (enc md o) as [eo|] eqn:Eo; [|discriminate]. destruct (enc md l) as [el0|] eqn:El; [|discriminate].
    cbn [option_bind] in E. inversion E; subst b. cbn [app length] in Hsz. rewrite !app_length in Hsz. cbn [length] in Hsz.
    rewrite ?app_length in Hsz.
    destruct (IHo false md eo Wo Eo) as (go & Hgo & Hrto); [lia|].
    destruct (IHl false md el0 Wl El) as (gl & Hgl & Hrtl); [lia|].
    destruct (name_item p ep [] Wp Ep) as (rt0 & segs & Hng & _).
    exists (GOp 0x5B80 [GName rt0 segs; GNum sp; go; gl] []).
    split; [unfold mkop; cbn [opt_all]; rewrite Hng, Hgo, Hgl; reflexivity|].
    intros f Hf. fuel f.
    apply (rt_fixed f el [0x5B; 0x80] 0x5B80 [KName; KByte; KTerm; KTerm] [GName rt0 segs; GNum sp; go; gl] (ep ++ [sp] ++ eo ++ el0));
      [dsp|reflexivity|].
    intros r. destruct (name_item p ep ([sp] ++ eo ++ el0 ++ r) Wp Ep) as (rt1 & segs1 & Hng1 & Hd1).
    rewrite Hng in Hng1. inversion Hng1; subst. rewrite <- !app_assoc.
    eapply parse_items_name; [exact Hd1|]. cbn [app]. apply parse_items_byte.
    eapply parse_items_term; [apply Hrto; lia|]. eapply parse_items_term; [apply Hrtl; lia|reflexivity].
  Qed.

  Lemma RT_mutex p sy : RT (TMutex p sy).
  Proof.
    intros el md b W E Hsz. prep E W. destruct W as (Wp & Wsy).
    destruct (enc_path_text p) as [ep|] eqn:Ep; [|discriminate]. cbn [option_bind] in E. inversion E; subst b.
    destruct (name_item p ep [] Wp Ep) as (rt0 & segs & Hng & _).
    exists (GOp 0x5B01 [GName rt0 segs; GNum sy] []). split; [unfold mkop; cbn [opt_all]; rewrite Hng; reflexivity|].
    intros f Hf. fuel f.
    apply (rt_fixed f el [0x5B; 0x01] 0x5B01 [KName; KByte] [GName rt0 segs; GNum sy] (ep ++ [sy])); [dsp|reflexivity|].
    intros r. destruct (name_item p ep ([sy] ++ r) Wp Ep) as (rt1 & segs1 & Hng1 & Hd1).
    rewrite Hng in Hng1. inversion Hng1; subst. rewrite <- !app_assoc.
    eapply parse_items_name; [exact Hd1|]. cbn [app]. apply parse_items_byte. reflexivity.
  Qed.

  Lemma RT_acquire p tm : RT (TAcquire p tm).
  Proof.
    intros el md b W E Hsz. prep E W. destruct W as (Wp & Wtm).
    destruct (enc_path_text p) as [ep|] eqn:Ep; [|discriminate]. cbn [option_bind] in E. inversion E; subst b.
    destruct (name_item p ep [] Wp Ep) as (rt0 & segs & Hng & _).
    exists (GOp 0x5B23 [GName rt0 segs; GNum tm] []). split; [unfold mkop; cbn [opt_all]; rewrite Hng; reflexivity|].
    intros f Hf. fuel f.
    apply (rt_fixed f el [0x5B; 0x23] 0x5B23 [KName; KWord] [GName rt0 segs; GNum tm] (ep ++ w2 tm)); [dsp|reflexivity|].
    intros r. destruct (name_item p ep (w2 tm ++ r) Wp Ep) as (rt1 & segs1 & Hng1 & Hd1).
    rewrite Hng in Hng1. inversion Hng1; subst. rewrite <- !app_assoc.
    eapply parse_items_name; [exact Hd1|]. apply parse_items_word; [exact Wtm|reflexivity].
  Qed.

  Lemma RT_release p : RT (TRelease p).
  Proof.
    intros el md b Wp E Hsz. prep E Wp.
    destruct (enc_path_text p) as [ep|] eqn:Ep; [|discriminate]. cbn [option_bind] in E. inversion E; subst b.
    destruct (name_item p ep [] Wp Ep) as (rt0 & segs & Hng & _).
    exists (GOp 0x5B27 [GName rt0 segs] []). split; [unfold mkop; cbn [opt_all]; rewrite Hng; reflexivity|].
    intros f Hf. fuel f.
    apply (rt_fixed f el [0x5B; 0x27] 0x5B27 [KName] [GName rt0 segs] ep); [dsp|reflexivity|].
    intros r. destruct (name_item p ep r Wp Ep) as (rt1 & segs1 & Hng1 & Hd1).
    rewrite Hng in Hng1. inversion Hng1; subst. eapply parse_items_name; [exact Hd1|reflexivity].
  Qed.

  Lemma RT_call p args : Forall RT args -> RT (TCall p args).
  Proof.
    intros HF el md b W E Hsz. prep E W. destruct W as ((q & Hq & Hwf & Har) & Wargs).
    destruct (enc_path_text p) as [ep|] eqn:Ep; [|discriminate]. cbn [option_bind] in E.
    destruct (encs md args) as [ea|] eqn:Ea; [|discriminate]. cbn [option_bind] in E. inversion E; subst b.
    rewrite app_length in Hsz.
    destruct (kids_rt env md false args HF Wargs ea Ea) as (es & gs & -> & Hgs & Hlen & Hall); [lia|].
    rewrite Hq. fold (norms false args). rewrite Hgs.
    eexists. split; [reflexivity|]. intros f Hf. fuel f. intros r.
    destruct (path_text_decode p q ep (concat es ++ r) Hq Hwf Ep) as [Hd Hh].
    cbn [parse]. rewrite <- app_assoc. rewrite (parse_step_name env _ el ep (concat es ++ r) _ _ _ Hh Hd).
    destruct el.
    - (* element position: a bare reference, no arguments allowed *)
      subst args. destruct es; [|discriminate]. inversion Hgs; subst. reflexivity.
    - unfold key_of in Har. rewrite Har, <- Hlen. rewrite (parse_n_concat (parse env f) es gs r) by (apply Hall; lia). reflexivity.
  Qed.


  (* ---- DefField: name and flags items, then a field list (no nested objects) ---- *)
  Lemma RT_field p ac lk up es : RT (TField p ac lk up es).
  Proof.
    intros el md b W E Hsz. prep E W. destruct W as (Wp & Wac & Wlk & Wup & Wes).
    destruct (enc_path_text p) as [ep|] eqn:Ep; [|discriminate]. cbn [option_bind] in E.
    destruct (opt_concat_map (enc_fentry md) es) as [ees|] eqn:Ee; [|discriminate]. cbn [option_bind] in E.
    rewrite field_flags in E by assumption.
    set (fl := ac + 16 * lk + 32 * up) in *.
    unfold framed in E. destruct (pkg_len md _ true) as [pl|] eqn:Epl; [|discriminate].
    cbn [option_bind] in E. inversion E; subst b. clear E.
    assert (Hb : N.of_nat (length (ep ++ [fl] ++ ees)) < 2 ^ 63).
    { cbn [app length] in Hsz. rewrite !app_length in Hsz. cbn [length] in Hsz. cbn [app]. rewrite app_length. cbn [length]. lia. }
    destruct (name_item p ep [] Wp Ep) as (rt0 & segs & Hng & _).
    exists (GOp 0x5B81 [GName rt0 segs; GNum fl] (map fentry_gt es)).
    split; [unfold mkop; cbn [opt_all]; rewrite Hng; reflexivity|].
    intros f Hf. fuel f. intros r. cbn [parse app]. rewrite dispatch_ext. change (0x5B00 + 0x81) with 0x5B81.
    replace ((pl ++ ep ++ fl :: ees) ++ r) with (pl ++ (ep ++ [fl] ++ ees) ++ r) by (rewrite <- !app_assoc; reflexivity).
    eapply (parse_op_framed _ 0x5B81 [KName; KByte] LFields md (ep ++ [fl] ++ ees) pl r [GName rt0 segs; GNum fl] ees
              (map fentry_gt es)); [reflexivity|exact Hb|exact Epl| |].
    - destruct (name_item p ep ([fl] ++ ees) Wp Ep) as (rt1 & segs1 & Hng1 & Hd1).
      rewrite Hng in Hng1. inversion Hng1; subst.
      eapply parse_items_name; [exact Hd1|]. cbn [app]. apply parse_items_byte. reflexivity.
    - apply (parse_fields_concat md); [exact Wes|exact Ee|lia].
  Qed.

  (* ---- ResourceTemplate: a Buffer with an integer size and an opaque payload ---- *)
  Lemma RT_restemplate ks : RT (TResTemplate ks).
  Proof.
    intros el md b W E Hsz. cbn [wf] in W. rewrite restemplate_framed in E. cbv zeta in E. rewrite encs_fix in E.
    destruct (encs md ks) as [eks|] eqn:Ek; [|discriminate]. cbn [option_bind] in E.
    pose proof (encs_template md ks eks W Ek) as Hp.
    set (payload := eks ++ [0x79; 0]) in *.
    assert (Hn : N.of_nat (length payload) < 2 ^ 64).
    { unfold framed in E. destruct (pkg_len md _ true) as [pl|]; [|discriminate]. cbn [option_bind] in E. inversion E; subst b.
      cbn [app length] in Hsz. rewrite !app_length in Hsz. change (2 ^ 63) with 9223372036854775808 in Hsz.
      change (2 ^ 64) with 18446744073709551616. lia. }
    rewrite enc_usize_spec in E by exact Hn.
    exists (GBuffer (GInt (N.of_nat (length payload))) payload). split; [cbn [norm]; rewrite Hp; reflexivity|].
    intros f Hf. cbn [depth] in Hf. destruct f as [|[|f]]; try lia. eapply (rt_int_buffer env); eauto.
  Qed.

  (* the round trip, for every term of the well-formed fragment *)
  Theorem roundtrip : forall t, RT t.
  Proof.
    induction t using term_ind'.
    - apply RT_zero. - apply RT_one. - apply RT_ones. - apply RT_int. - apply RT_str. - apply RT_path.
    - apply RT_fieldname. - apply RT_eisa. - apply RT_uuid. - apply RT_bufdata. - apply RT_arg. - apply RT_local.
    - intros el md b W. destruct W.
    - now apply RT_op1. - now apply RT_op2. - now apply RT_op3. - now apply RT_op4.
    - now apply RT_name. - now apply RT_device. - now apply RT_scope. - now apply RT_scoperaw. - now apply RT_method.
    - now apply RT_power. - now apply RT_opregion. - apply RT_mutex. - apply RT_acquire. - apply RT_release.
    - now apply RT_call.
    - apply RT_field.
    - now apply (RT_package false). - now apply (RT_package true).
    - apply RT_restemplate.
    - now apply (RT_ifwhile true). - now apply RT_else. - now apply (RT_ifwhile false).
  Qed.
End Ops.

(* =====================================================================================================
   Non-vacuity of the Field and ResourceTemplate cases: concrete terms are well-formed, are emitted, and parse back
   (completely, r = []) to their normal form. *)

(* Field (FLD0, ByteAcc, Lock, WriteAsOnes) { ABCD, 8, Offset-style gap of 4 bits, EFGH, 300, gap of 70000 bits, _X01, 1 } :
   widths needing 1-, 2- and 3-byte PkgLengths *)
Definition field_demo : term :=
  TField [70; 76; 68; 48] 1 1 1
    [FNamed [65; 66; 67; 68] 8; FReserved 4; FNamed [69; 70; 71; 72] 300; FReserved 70000; FNamed [95; 88; 48; 49] 1].

(* ResourceTemplate { Memory32Fixed (rw, 0xFED00000, 0x1000), IO (0x3F8, 0x3F8, 1, 8), Interrupt (consumer, level, high, excl, 4),
   QWordMemory [0x1_0000_0000 .. 0x1_FFFF_FFFF] } *)
Definition template_demo : term :=
  TResTemplate [TDesc (DMem32 1 0xFED00000 0x1000); TDesc (DIO 0x3F8 0x3F8 1 8); TDesc (DIrq 1 0 0 0 4);
                TDesc (DAddr 64 0 1 1 0x100000000 0x1FFFFFFFF None)].

Example field_demo_wf : wf (fun _ => O) false field_demo.
Proof.
  cbn [field_demo wf]. split; [|split; [reflexivity|split; [discriminate|split; [reflexivity|]]]].
  - eexists. split; [vm_compute; reflexivity|]. repeat constructor.
  - repeat constructor.
Qed.

Example template_demo_wf : wf (fun _ => O) false template_demo.
Proof. cbn [template_demo wf]. repeat constructor; eexists; reflexivity. Qed.

Example field_demo_parses :
  match enc Wrapping field_demo with
  | Some b => parse (fun _ => O) 1 false b = option_map (fun g => (g, [])) (norm false field_demo) /\
              norm false field_demo =
              Some (GOp 0x5B81 [GName false [[70; 76; 68; 48]]; GNum 49]
                      [GField [65; 66; 67; 68] 8; GField [] 4; GField [69; 70; 71; 72] 300; GField [] 70000;
                       GField [95; 88; 48; 49] 1])
  | None => False
  end.
Proof. vm_compute. split; reflexivity. Qed.

Example template_demo_parses :
  match enc Wrapping template_demo with
  | Some b => parse (fun _ => O) 2 false b = option_map (fun g => (g, [])) (norm false template_demo) /\
              match norm false template_demo with
              | Some (GBuffer (GInt n) payload) => n = N.of_nat (length payload) /\ n = 12 + 8 + 9 + 46 + 2
              | _ => False
              end
  | None => False
  end.
Proof. vm_compute. repeat split; reflexivity. Qed.

(* the theorem applies to them (both build profiles, any continuation) *)
Example field_demo_roundtrip md b : enc md field_demo = Some b -> N.of_nat (length b) < 2 ^ 63 ->
  exists g, norm false field_demo = Some g /\ forall r, parse (fun _ => O) 1 false (b ++ r) = Some (g, r).
Proof.
  intros E Hsz. destruct (roundtrip (fun _ => O) field_demo false md b field_demo_wf E Hsz) as (g & Hg & Hrt).
  exists g. split; [exact Hg|]. intros r. apply Hrt. cbn [depth field_demo]. lia.
Qed.

Example template_demo_roundtrip md b : enc md template_demo = Some b -> N.of_nat (length b) < 2 ^ 63 ->
  exists g, norm false template_demo = Some g /\ forall r, parse (fun _ => O) 2 false (b ++ r) = Some (g, r).
Proof.
  intros E Hsz. destruct (roundtrip (fun _ => O) template_demo false md b template_demo_wf E Hsz) as (g & Hg & Hrt).
  exists g. split; [exact Hg|]. intros r. apply Hrt. cbn. lia.
Qed.

Print Assumptions roundtrip.
