(* Coherence of the executable judgement with the history-level theorems, component 31: the generic user-defined table `Sdt`
   (C13; also C01, C02, C04, C11, C12 on that component).

   Proofs/CoherenceTablesP.v connects oracle and model for the 21 incrementally maintained / fixed tables.  The generic table
   has a different protocol: an operation is never fatal -- it is PERFORMED (EvNum 0) or REFUSED (EvNum 1, table unchanged) --
   so the history goes on after a refusal, the reference image of Spec/SdtS.v is defined for EVERY history of well-formed
   operations (a refused operation leaves the reference vector unchanged), and C13 has a third judgement, [sdt_oracle]
   (which operations must be refused).  This file proves: on every well-formed case (ctor op ...) -- constructor in the
   Spec's domain, every atom the observation marker 1, every operation in the vocabulary of Proofs/SdtHistP.v [sdt_op_ok],
   total size below 2^62 -- and in both build profiles, the oracles of C13, C01 and (below 2^32 bytes, or when the caller
   writes into Length himself) C02 ACCEPT the model's own observation stream; the same for a refused constructor followed
   by at least one operation or marker.  Built on the generic lemmas [c04_coherent], [images_coherent], [run_history_obs]
   and on sdt_history_refines, sdt_history_sums_to_zero, sdt_length_field_tracks_size, op_refines, spec_step_kind. *)
From Coq Require Import NArith List Bool Lia Arith.
From ACPI Require Import Lib.Bytes Lib.Sx Lib.Machine Impl.Checksum Impl.Table Impl.Fields Impl.Run Impl.Sdt
  Spec.Layout Spec.SdtS Proofs.FixedP Proofs.SdtP Proofs.Sink2P Proofs.SdtHistP
  Judge Proofs.CoherenceTablesP Proofs.CoherenceFixedP Proofs.CoherenceAllP.
Import ListNotations.
Open Scope N_scope.

(* ================= 1. the model as an instance of the generic runner ================= *)

Definition sdt_img (d : list N) : option (list N) := Some d.

Lemma sdt_step_one md s o s' evs : sdt_step md s o = Some (s', evs) -> exists h, evs = [EvNum h].
Proof.
  unfold sdt_step. destruct (sdt_op md s o) as [[d|]|]; intros H; inversion H; subst; eexists; reflexivity.
Qed.

Lemma sdt_img_total : forall s : list N, exists img, sdt_img s = Some img.
Proof. intros s. now exists s. Qed.

Lemma sdt_op_ok_shape o : sdt_op_ok o -> exists l, o = SL l.
Proof. intros H. destruct H; eexists; reflexivity. Qed.

(* on a list of operations (no markers) the generic [run_steps] is the [sdt_model_run] of the history theorems *)
Lemma run_steps_model md ops : forall v, Forall sdt_op_ok ops -> run_steps (sdt_step md) v ops = sdt_model_run md v ops.
Proof.
  induction ops as [|o r IH]; intros v Hok; [reflexivity|].
  inversion Hok as [|? ? Hok1 Hokr]; subst. destruct (sdt_op_ok_shape o Hok1) as [l ->].
  cbn [run_steps sdt_model_run]. destruct (sdt_step md v (SL l)) as [[v' e]|]; [now apply IH|reflexivity].
Qed.

Lemma ops_growth_prefix p q : ops_growth p <= ops_growth (p ++ q).
Proof. rewrite ops_growth_app. lia. Qed.

Lemma sx_nums_length l : forall r, sx_nums l = Some r -> length r = length l.
Proof.
  induction l as [|x l IH]; intros r H; cbn [sx_nums] in H.
  - inversion H. reflexivity.
  - destruct x as [n|k]; [|discriminate H]. destruct (sx_nums l) as [r'|]; [|discriminate H].
    inversion H; subst. cbn [length]. now rewrite (IH r' eq_refl).
Qed.

Lemma spec_width_value w k : spec_width w = Some k -> w = N.of_nat k.
Proof.
  intros H. unfold spec_width in H.
  repeat match type of H with
         | context [match ?x with _ => _ end] => is_var x; destruct x; try discriminate H
         end; inversion H; reflexivity.
Qed.

(* ================= 2. the well-formed cases ================= *)

(* the hypotheses of sdt_history_refines on the case (ctor op ...): constructor in the Spec's domain, every atom the
   observation marker, every operation in the vocabulary, total size below 2^62 *)
Record sdt_case_ok (ctor : sx) (ops : list sx) (v0 : list N) : Prop := {
  sco_new : sdt_spec_new ctor = Some v0;
  sco_markers : markers_ok ops = true;
  sco_ops : Forall sdt_op_ok (real_ops ops);
  sco_size : N.of_nat (length v0) + ops_growth (real_ops ops) < 2 ^ 62 }.

(* the same as a decision procedure (the size of the reference vector of the constructor is its declared length) *)
Definition sdt_case_okb (ctor : sx) (ops : list sx) : bool :=
  match sdt_spec_new ctor with
  | Some v0 => markers_ok ops && forallb sdt_op_okb (real_ops ops)
               && (N.of_nat (length v0) + ops_growth (real_ops ops) <? 2 ^ 62)
  | None => false
  end.

Lemma sdt_case_okb_sound ctor ops : sdt_case_okb ctor ops = true -> exists v0, sdt_case_ok ctor ops v0.
Proof.
  unfold sdt_case_okb. destruct (sdt_spec_new ctor) as [v0|] eqn:Hn; [|discriminate]. intros H.
  apply andb_true_iff in H. destruct H as [H Hsz]. apply andb_true_iff in H. destruct H as [Hm Hok].
  exists v0. split; [exact Hn|exact Hm|now apply sdt_ops_okb_sound|now apply N.ltb_lt].
Qed.

(* ================= 2b. C02's escape ================= *)
(* [sdt_writes_length] = false says that no write of the history can land in bytes 4..7 *)
Lemma keeps_of_not_writes o : sdt_op_ok o ->
  match o with
  | SL [SA 3; SA off; SL bs] => (off <? 8) && (4 <? off + N.of_nat (length bs))
  | SL [SA 4; SA w; SA off; _] => (off <? 8) && (4 <? off + w)
  | _ => false
  end = false -> op_keeps_length o.
Proof.
  intros Ho H. destruct Ho as [w k x Hw|b bytes Hb Hl|off b bytes Hoff Hb Hl|w k off x Hoff Hw|w k x Hw|b bytes Hb Hbo Hl|].
  - apply kl_append.
  - apply kl_append_slice.
  - apply (kl_write_bytes off b bytes Hb). destruct b as [n|bs]; [discriminate Hb|]. cbn [sx_bytes] in Hb.
    rewrite (sx_nums_length bs bytes Hb). apply andb_false_iff in H.
    destruct H as [H|H]; [apply N.ltb_ge in H; now left|apply N.ltb_ge in H; now right].
  - apply (kl_write_int w k off x Hw). rewrite <- (spec_width_value w k Hw). apply andb_false_iff in H.
    destruct H as [H|H]; [apply N.ltb_ge in H; now left|apply N.ltb_ge in H; now right].
  - apply kl_sink_int.
  - apply kl_sink_vec.
  - apply kl_update_checksum.
Qed.

Lemma all_keep_length (ctor : sx) (l : list sx) :
  Forall sdt_op_ok (real_ops l) -> sdt_writes_length (SL (ctor :: l)) = false -> Forall op_keeps_length (real_ops l).
Proof.
  unfold sdt_writes_length.
  induction l as [|o r IH]; intros Hokl H; [constructor|].
  cbn [existsb] in H. apply orb_false_iff in H. destruct H as [H1 H2].
  destruct o as [n|k]; [rewrite real_ops_cons_SA in *; now apply IH|].
  rewrite real_ops_cons_SL in *. inversion Hokl as [|? ? Hok1 Hokr]; subst.
  constructor; [now apply keeps_of_not_writes|now apply IH].
Qed.

Section Case.
  Variable md : mode.
  Variable ctor : sx.
  Variable ops : list sx.
  Variable v0 : list N.
  Hypothesis Hcase : sdt_case_ok ctor ops v0.

  Let Hnew := sco_new _ _ _ Hcase.
  Let Hm := sco_markers _ _ _ Hcase.
  Let Hok := sco_ops _ _ _ Hcase.
  Let Hsz := sco_size _ _ _ Hcase.

  Lemma sdt_v0_props : sdt_wf v0 /\ sum8 v0 = 0 /\ field_at v0 4 4 = N.of_nat (length v0) /\ N.of_nat (length v0) < 2 ^ 32.
  Proof. exact (sdt_spec_new_props ctor v0 Hnew). Qed.

  Lemma sdt_model_new : sdt_new ctor = Some v0.
  Proof. exact (sdt_new_refines ctor v0 Hnew). Qed.

  (* a prefix of the operations of the case inherits the hypotheses *)
  Lemma sdt_prefix_ok p q : real_ops ops = p ++ q ->
    Forall sdt_op_ok p /\ N.of_nat (length v0) + ops_growth p < 2 ^ 62.
  Proof.
    intros E. pose proof Hok as F. pose proof Hsz as Z. rewrite E in F, Z. apply Forall_app in F. destruct F as [F _].
    split; [exact F|]. pose proof (ops_growth_prefix p q). lia.
  Qed.

  (* the model accepts the whole history *)
  Lemma sdt_accepts : exists sf, run_steps (sdt_step md) v0 ops = Some sf.
  Proof.
    destruct sdt_v0_props as (Hwf & _).
    destruct (sdt_history_refines md (real_ops ops) v0 Hwf Hok Hsz) as (v' & Hr & _).
    exists v'. rewrite <- run_steps_real, run_steps_model by exact Hok. exact Hr.
  Qed.

  (* after every prefix: the model's table is the Spec's reference vector, and it sums to 0 *)
  Lemma sdt_at_prefix p q s1 : real_ops ops = p ++ q -> run_steps (sdt_step md) v0 p = Some s1 ->
    sdt_spec_run v0 p = Some s1 /\ sum8 s1 = 0.
  Proof.
    intros E Hs. destruct (sdt_prefix_ok p q E) as [Hokp Hszp]. destruct sdt_v0_props as (Hwf & Hs0 & _).
    rewrite run_steps_model in Hs by exact Hokp.
    destruct (sdt_history_sums_to_zero md p v0 Hwf Hs0 Hokp Hszp) as (v' & Hr & Hsp & _ & Hsum).
    rewrite Hr in Hs. inversion Hs; subst s1. auto.
  Qed.

  (* ---- C04 (also C11): every observed image is the reference image; nothing is refused fatally ---- *)
  Lemma sdt_c04 : c04_oracle sdt_spec (SL (ctor :: ops)) (sdt_case md (SL (ctor :: ops))) = true.
  Proof.
    destruct sdt_accepts as [sf Hr].
    apply (c04_coherent sdt_img (sdt_step md) (sdt_step_one md) sdt_img_total sdt_new sdt_spec ctor ops v0 sf Hm sdt_model_new Hr).
    intros p q s1 r E Hs Ht. cbn [ts_image sdt_spec] in Ht. unfold sdt_image in Ht. rewrite Hnew in Ht.
    destruct (sdt_at_prefix p q s1 E Hs) as [Hsp _]. rewrite Hsp in Ht. exact Ht.
  Qed.

  (* ---- C01: every observed image sums to 0 ---- *)
  Lemma sdt_c01 : c01_oracle (SL (ctor :: ops)) (sdt_case md (SL (ctor :: ops))) = true.
  Proof.
    destruct sdt_accepts as [sf Hr].
    apply (images_coherent sdt_img (sdt_step md) (sdt_step_one md) sdt_img_total sdt_new sum_ok ctor ops v0 sf Hm sdt_model_new Hr).
    intros p q s1 img E Hs Hi. inversion Hi; subst img. destruct (sdt_at_prefix p q s1 E Hs) as [_ Hsum].
    unfold sum_ok. now apply N.eqb_eq.
  Qed.

  (* ---- the third judgement of C13: performed / refused exactly as the Spec says ---- *)
  Lemma sdt_refusals_obs : forall l v,
    sdt_wf v -> markers_ok l = true -> Forall sdt_op_ok (real_ops l) -> N.of_nat (length v) + ops_growth (real_ops l) < 2 ^ 62 ->
    sdt_refusals_ok v l (obs sdt_img (sdt_step md) v l) = true.
  Proof.
    induction l as [|o r IH]; intros v Hwf Hml Hokl Hszl; [reflexivity|].
    cbn [markers_ok forallb] in Hml. apply andb_true_iff in Hml. destruct Hml as [Ho Hmr].
    destruct o as [n|k].
    - apply N.eqb_eq in Ho. subst n. rewrite real_ops_cons_SA in Hokl, Hszl.
      cbn [obs sdt_img sdt_refusals_ok]. now apply IH.
    - rewrite real_ops_cons_SL in Hokl, Hszl. inversion Hokl as [|? ? Hok1 Hokr]; subst. cbn [ops_growth] in Hszl.
      destruct (spec_step_kind v (SL k) Hok1) as (v1 & Hn & K).
      destruct Hwf as [H36 H62]. destruct (step_kind_length v (SL k) v1 H36 K) as [Hl1 Hl2].
      cbn [obs sdt_refusals_ok]. unfold sdt_step. rewrite (op_refines md v (SL k) (conj H36 H62) Hok1).
      unfold spec_next in Hn. destruct (sdt_spec_op v (SL k)) as [[v'|]|]; [| |discriminate Hn]; inversion Hn; subst v1.
      + cbn [app]. rewrite N.eqb_refl. cbn [andb]. apply IH; try assumption; [split; lia|lia].
      + cbn [app]. rewrite N.eqb_refl. cbn [andb]. apply IH; try assumption; [now split|lia].
  Qed.

  Lemma sdt_refusals : sdt_oracle (SL (ctor :: ops)) (sdt_case md (SL (ctor :: ops))) = true.
  Proof.
    unfold sdt_oracle, sdt_case. rewrite Hnew.
    rewrite (run_history_obs (fun d => Some d) (sdt_step md) sdt_new ctor ops v0 sdt_model_new).
    destruct sdt_v0_props as (Hwf & _). exact (sdt_refusals_obs ops v0 Hwf Hm Hok Hsz).
  Qed.

  (* ---- C02: the Length field is the size -- unless the caller writes into Length himself ---- *)

  Lemma sdt_c02 :
    sdt_writes_length (SL (ctor :: ops)) = true \/ N.of_nat (length v0) + ops_growth (real_ops ops) < 2 ^ 32 ->
    c02_table_oracle 31 (SL (ctor :: ops)) (sdt_case md (SL (ctor :: ops))) = true.
  Proof.
    intros Hlen. change (c02_table_oracle 31 (SL (ctor :: ops)) (sdt_case md (SL (ctor :: ops))))
      with (if sdt_writes_length (SL (ctor :: ops)) then true else c02_oracle (SL (ctor :: ops)) (sdt_case md (SL (ctor :: ops)))).
    destruct (sdt_writes_length (SL (ctor :: ops))) eqn:Ew; [reflexivity|].
    destruct Hlen as [Hlen|Hlen]; [discriminate Hlen|].
    pose proof (all_keep_length ctor ops Hok Ew) as Hk.
    destruct sdt_accepts as [sf Hr].
    apply (images_coherent sdt_img (sdt_step md) (sdt_step_one md) sdt_img_total sdt_new len_ok ctor ops v0 sf Hm sdt_model_new Hr).
    intros p q s1 img E Hs Hi. inversion Hi; subst img.
    destruct (sdt_prefix_ok p q E) as [Hokp _]. destruct sdt_v0_props as (Hwf & _ & Hf0 & _).
    assert (Hkp : Forall op_keeps_length p) by (rewrite E in Hk; apply Forall_app in Hk; apply Hk).
    assert (Hszp : N.of_nat (length v0) + ops_growth p < 2 ^ 32).
    { pose proof (ops_growth_prefix p q) as G. rewrite <- E in G. lia. }
    rewrite run_steps_model in Hs by exact Hokp.
    destruct (sdt_length_field_tracks_size md p v0 Hwf Hf0 Hokp Hkp Hszp) as (v' & Hr' & _ & Hf & _).
    rewrite Hr' in Hs. inversion Hs; subst s1. unfold len_ok. now apply N.eqb_eq.
  Qed.
End Case.

(* ================= 3. the statements about Judge.oracle / Judge.run_case ================= *)

Lemma oracle_13_31 c evs : oracle 13 31 c evs = c04_oracle sdt_spec c evs && c01_oracle c evs && sdt_oracle c evs.
Proof. reflexivity. Qed.

Theorem sdt_coherent : forall md ctor ops v0,
  sdt_case_ok ctor ops v0 ->
  let c := SL (ctor :: ops) in
  oracle 13 31 c (run_case md 31 c) = true /\ oracle 1 31 c (run_case md 31 c) = true.
Proof.
  intros md ctor ops v0 Hcase c.
  pose proof (sdt_c04 md ctor ops v0 Hcase) as H4. pose proof (sdt_c01 md ctor ops v0 Hcase) as H1.
  pose proof (sdt_refusals md ctor ops v0 Hcase) as H3.
  split; [|exact H1]. rewrite oracle_13_31.
  change (run_case md 31 c) with (sdt_case md (SL (ctor :: ops))). subst c. rewrite H4, H1, H3. reflexivity.
Qed.

Theorem sdt_coherent_c02 : forall md ctor ops v0,
  sdt_case_ok ctor ops v0 ->
  let c := SL (ctor :: ops) in
  sdt_writes_length c = true \/ N.of_nat (length v0) + ops_growth (real_ops ops) < 2 ^ 32 ->
  oracle 2 31 c (run_case md 31 c) = true.
Proof. intros md ctor ops v0 Hcase c Hlen. exact (sdt_c02 md ctor ops v0 Hcase Hlen). Qed.

(* the two together, hypotheses spelled out (the form stated in Props/CoherenceSdt.v) *)
Theorem sdt_coherence : forall md ctor ops v0,
  sdt_spec_new ctor = Some v0 ->
  markers_ok ops = true ->
  Forall sdt_op_ok (real_ops ops) ->
  N.of_nat (length v0) + ops_growth (real_ops ops) < 2 ^ 62 ->
  let c := SL (ctor :: ops) in
  oracle 13 31 c (run_case md 31 c) = true /\
  oracle 1 31 c (run_case md 31 c) = true /\
  (sdt_writes_length c = true \/ N.of_nat (length v0) + ops_growth (real_ops ops) < 2 ^ 32 ->
   oracle 2 31 c (run_case md 31 c) = true).
Proof.
  intros md ctor ops v0 Hnew Hm Hok Hsz c.
  pose proof (Build_sdt_case_ok ctor ops v0 Hnew Hm Hok Hsz) as Hcase.
  destruct (sdt_coherent md ctor ops v0 Hcase) as [H13 H1].
  split; [exact H13|]. split; [exact H1|]. intros Hlen. exact (sdt_coherent_c02 md ctor ops v0 Hcase Hlen).
Qed.

(* the other properties judged on component 31 by the same functions: C04 and C11 (images and fatal refusals), C12 (C04 and C01) *)
Theorem sdt_coherent_others : forall c evs,
  oracle 13 31 c evs = true ->
  oracle 4 31 c evs = true /\ oracle 11 31 c evs = true /\ oracle 12 31 c evs = true /\ oracle 1 31 c evs = true.
Proof.
  intros c evs H. rewrite oracle_13_31 in H. apply andb_true_iff in H. destruct H as [H H3].
  apply andb_true_iff in H. destruct H as [H4 H1].
  change (oracle 4 31 c evs) with (c04_oracle sdt_spec c evs). change (oracle 11 31 c evs) with (c04_oracle sdt_spec c evs).
  change (oracle 12 31 c evs) with (c04_oracle sdt_spec c evs && c01_oracle c evs).
  change (oracle 1 31 c evs) with (c01_oracle c evs). rewrite H4, H1. auto.
Qed.

(* ... and the size hypothesis of C02 cannot be weakened to the 2^62 of C13: Length is a u32.  For EVERY constructor of the
   Spec's domain and EVERY slice that takes the table to 4 GiB or more (below 2^62), the case (ctor (2 slice) 1) is well
   formed, the model performs the append (`new_length as u32` truncates silently in both profiles), the image carries
   size mod 2^32 in Length, and C02's judgement rejects the model's own stream -- while C13 and C01 accept it.
   (No such history can be run; this is a statement about the judgement, and about the crate if the model is right.) *)
Theorem sdt_c02_bound_needed : forall md ctor v0 b bytes,
  sdt_spec_new ctor = Some v0 -> sx_bytes b = Some bytes ->
  2 ^ 32 <= N.of_nat (length v0) + N.of_nat (length bytes) < 2 ^ 62 ->
  let ops := [SL [SA 2; b]; SA 1] in
  let c := SL (ctor :: ops) in
  (markers_ok ops = true /\ Forall sdt_op_ok (real_ops ops) /\ N.of_nat (length v0) + ops_growth (real_ops ops) < 2 ^ 62) /\
  run_case md 31 c = [EvNum 0; EvBytes (with_checksum (with_length (v0 ++ bytes)))] /\
  sdt_writes_length c = false /\
  oracle 2 31 c (run_case md 31 c) = false /\
  oracle 13 31 c (run_case md 31 c) = true /\ oracle 1 31 c (run_case md 31 c) = true.
Proof.
  intros md ctor v0 b bytes Hnew Hb [Hlo Hhi] ops c.
  assert (Hl : N.of_nat (length bytes) < 2 ^ 62) by lia.
  assert (Hcase : sdt_case_ok ctor ops v0).
  { split; [exact Hnew|reflexivity| |].
    - subst ops. rewrite real_ops_cons_SL. constructor; [now apply (ok_append_slice b bytes)|constructor].
    - subst ops. rewrite real_ops_cons_SL. cbn [real_ops filter ops_growth op_growth]. rewrite Hb. lia. }
  destruct (sdt_spec_new_props ctor v0 Hnew) as ([H36 H62] & _).
  assert (Hrun : run_case md 31 c = [EvNum 0; EvBytes (with_checksum (with_length (v0 ++ bytes)))]).
  { change (run_case md 31 c) with (sdt_case md (SL (ctor :: ops))). unfold sdt_case.
    rewrite (run_history_obs (fun d => Some d) (sdt_step md) sdt_new ctor ops v0 (sdt_new_refines ctor v0 Hnew)).
    subst ops. cbn [obs]. unfold sdt_step.
    rewrite (op_refines md v0 (SL [SA 2; b]) (conj H36 H62) (ok_append_slice b bytes Hb Hl)).
    cbn [sdt_spec_op]. rewrite Hb. reflexivity. }
  assert (Hw : sdt_writes_length c = false) by reflexivity.
  split; [destruct Hcase as [_ A B C]; auto|]. split; [exact Hrun|]. split; [exact Hw|]. split; [|exact (sdt_coherent md ctor ops v0 Hcase)].
  rewrite Hrun. change (oracle 2 31 c [EvNum 0; EvBytes (with_checksum (with_length (v0 ++ bytes)))])
    with (if sdt_writes_length c then true else c02_oracle c [EvNum 0; EvBytes (with_checksum (with_length (v0 ++ bytes)))]).
  rewrite Hw. unfold c02_oracle. cbn [forallb]. rewrite andb_true_r.
  fold (spec_appended v0 bytes). rewrite length_spec_appended by exact H36. rewrite spec_appended_sappend by exact H36.
  rewrite length_field_sappend by exact H36. apply N.eqb_neq.
  pose proof (N.mod_upper_bound (N.of_nat (length v0 + length bytes)) (2 ^ 32)) as Hmod. lia.
Qed.

(* ---- the refused constructor: the model answers [EvPanic]; coherent as soon as the case has one operation or marker ---- *)
Lemma sdt_spec_new_none ctor : sdt_new ctor = None -> sdt_spec_new ctor = None.
Proof.
  intros H. destruct (sdt_spec_new ctor) as [v|] eqn:E; [|reflexivity]. rewrite (sdt_new_refines ctor v E) in H. discriminate H.
Qed.

Theorem sdt_refused_ctor_coherent : forall md ctor ops,
  sdt_new ctor = None -> ops <> [] ->
  let c := SL (ctor :: ops) in
  run_case md 31 c = [EvPanic] /\
  oracle 13 31 c (run_case md 31 c) = true /\ oracle 1 31 c (run_case md 31 c) = true /\ oracle 2 31 c (run_case md 31 c) = true.
Proof.
  intros md ctor ops Hn Hne c.
  assert (Hrun : run_case md 31 c = [EvPanic]).
  { change (run_case md 31 c) with (sdt_case md (SL (ctor :: ops))). unfold sdt_case, run_history. now rewrite Hn. }
  pose proof (sdt_spec_new_none ctor Hn) as Hs.
  split; [exact Hrun|]. rewrite Hrun. split; [|split].
  - rewrite oracle_13_31. subst c.
    assert (H4 : c04_oracle sdt_spec (SL (ctor :: ops)) [EvPanic] = true).
    { unfold c04_oracle, case_parts. cbn [ts_image ts_returns sdt_spec]. unfold sdt_image. rewrite Hs.
      destruct ops as [|[n|k] r]; [now elim Hne| |]; reflexivity. }
    assert (H3 : sdt_oracle (SL (ctor :: ops)) [EvPanic] = true) by (unfold sdt_oracle; now rewrite Hs).
    rewrite H4, H3. reflexivity.
  - reflexivity.
  - change (oracle 2 31 c [EvPanic]) with (if sdt_writes_length c then true else c02_oracle c [EvPanic]).
    destruct (sdt_writes_length c); reflexivity.
Qed.

(* ... and the hypothesis [ops <> []] is needed: on the case (ctor) alone, refused, [judge_history] finds an event where it
   expects none and C04's judgement rejects the model's own [EvPanic] (Spec/Layout.v, the same for every table component;
   the generators always end a case with an observation marker) *)
Definition sdt_bad_ctor : sx :=
  SL [SL [SA 68; SA 83; SA 68; SA 84]; SA 35; SA 2; SL [SA 67; SA 76; SA 79; SA 85; SA 68; SA 72];
      SL [SA 67; SA 72; SA 68; SA 83; SA 68; SA 84; SA 32; SA 32]; SA 1].

Example sdt_refused_ctor_alone :
  let c := SL [sdt_bad_ctor] in
  sdt_new sdt_bad_ctor = None /\ run_case Checked 31 c = [EvPanic] /\ run_case Wrapping 31 c = [EvPanic] /\
  oracle 13 31 c (run_case Checked 31 c) = false /\ oracle 4 31 c (run_case Checked 31 c) = false /\
  oracle 1 31 c (run_case Checked 31 c) = true /\ oracle 2 31 c (run_case Checked 31 c) = true.
Proof. vm_compute. repeat split. Qed.

(* ---- no false alarm: K, as the driver computes it through Judge.project, implies the oracle's acceptance ---- *)
Lemma sdt_oracle1_through_projection c a b : project 1 31 a = project 1 31 b -> oracle 1 31 c a = oracle 1 31 c b.
Proof.
  intros H. apply (forallb_proj _ (project_ev 1 31) g_sum2); [|exact H].
  intros [img|n|]; try reflexivity; cbv beta iota delta [g_sum2 project_ev N.eqb Pos.eqb]; now rewrite ?andb_true_r.
Qed.

Lemma sdt_oracle2_through_projection c a b : project 2 31 a = project 2 31 b -> oracle 2 31 c a = oracle 2 31 c b.
Proof.
  intros H. change (oracle 2 31 c a) with (if sdt_writes_length c then true else c02_oracle c a).
  change (oracle 2 31 c b) with (if sdt_writes_length c then true else c02_oracle c b).
  destruct (sdt_writes_length c); [reflexivity|].
  apply (forallb_proj _ (project_ev 2 31) g_len); [|exact H]. intros [img|n|]; reflexivity.
Qed.

Theorem sdt_no_false_alarm : forall md c impl,
  (oracle 13 31 c (run_case md 31 c) = true ->
   evs_eqb (project 13 31 (run_case md 31 c)) (project 13 31 impl) = true -> oracle 13 31 c impl = true) /\
  (oracle 1 31 c (run_case md 31 c) = true ->
   evs_eqb (project 1 31 (run_case md 31 c)) (project 1 31 impl) = true -> oracle 1 31 c impl = true) /\
  (oracle 2 31 c (run_case md 31 c) = true ->
   evs_eqb (project 2 31 (run_case md 31 c)) (project 2 31 impl) = true -> oracle 2 31 c impl = true).
Proof.
  intros md c impl. split; [|split]; intros Ho E; apply evs_eqb_eq in E.
  - change (project 13 31 (run_case md 31 c)) with (run_case md 31 c) in E. change (project 13 31 impl) with impl in E.
    subst impl. exact Ho.
  - rewrite <- (sdt_oracle1_through_projection c _ _ E). exact Ho.
  - rewrite <- (sdt_oracle2_through_projection c _ _ E). exact Ho.
Qed.

(* ================= 4. non-vacuity ================= *)
(* Sdt::new("DSDT", 40, 2, "CLOUDH", "CHDSDT  ", 1) and a history with an append of each width, a slice append, a write
   inside the body, a write across the checksum byte, two refused writes (one only through the wrapped sum of the release
   profile), sink pushes (typed, slice, empty), update_checksum, and five observations; no write into Length *)
Definition sdt_ex_ctor : sx :=
  SL [SL [SA 68; SA 83; SA 68; SA 84]; SA 40; SA 2; SL [SA 67; SA 76; SA 79; SA 85; SA 68; SA 72];
      SL [SA 67; SA 72; SA 68; SA 83; SA 68; SA 84; SA 32; SA 32]; SA 1].

Definition sdt_ex_ops : list sx :=
  [SA 1;
   SL [SA 1; SA 1; SA 0xAB];                          (* append::<u8>                                    40 -> 41 *)
   SL [SA 1; SA 2; SA 0xBEEF];                        (* append::<u16>                                   41 -> 43 *)
   SL [SA 1; SA 4; SA 0xDEADBEEF];                    (* append::<u32>                                   43 -> 47 *)
   SL [SA 1; SA 8; SA 0x0123456789ABCDEF];            (* append::<u64>                                   47 -> 55 *)
   SA 1;
   SL [SA 2; SL [SA 9; SA 8; SA 7]];                  (* append_slice                                    55 -> 58 *)
   SL [SA 3; SA 37; SL [SA 1; SA 2]];                 (* write_bytes(37, ..): inside the body *)
   SL [SA 3; SA 8; SL [SA 7; SA 0xAA; SA 3]];         (* write_bytes(8, ..): revision, CHECKSUM, oem_id[0] *)
   SA 1;
   SL [SA 4; SA 8; SA 52; SA 5];                      (* write_u64(52, 5): 60 > 58                       refused *)
   SL [SA 3; SA (2 ^ 64 - 1); SL [SA 1; SA 2]];       (* offset + len wraps to 1 in release              refused *)
   SA 1;
   SL [SA 5; SA 2; SA 0x1234];                        (* sink.word                                       58 -> 60 *)
   SL [SA 6; SL [SA 1; SA 2; SA 3]];                  (* sink.vec                                        60 -> 63 *)
   SL [SA 6; SL []];                                  (* empty push: nothing happens *)
   SL [SA 4; SA 2; SA 9; SA 0xFFFF];                  (* write_u16(9, ..): CHECKSUM and oem_id[0] *)
   SL [SA 7];                                         (* update_checksum *)
   SA 1].

Example sdt_coherent_not_vacuous :
  let c := SL (sdt_ex_ctor :: sdt_ex_ops) in
  (exists v0, sdt_spec_new sdt_ex_ctor = Some v0 /\ markers_ok sdt_ex_ops = true /\ Forall sdt_op_ok (real_ops sdt_ex_ops) /\
              N.of_nat (length v0) + ops_growth (real_ops sdt_ex_ops) < 2 ^ 32) /\
  sdt_writes_length c = false /\
  oracle 13 31 c (run_case Wrapping 31 c) = true /\ oracle 13 31 c (run_case Checked 31 c) = true /\
  oracle 1 31 c (run_case Wrapping 31 c) = true /\ oracle 2 31 c (run_case Wrapping 31 c) = true /\
  run_case Checked 31 c = run_case Wrapping 31 c /\
  map (fun e => match e with EvBytes img => N.of_nat (length img) | EvNum n => n | EvPanic => 999 end) (run_case Wrapping 31 c)
  = [40; 0; 0; 0; 0; 55; 0; 0; 0; 58; 1; 1; 58; 0; 0; 0; 0; 0; 63].
Proof.
  split.
  - destruct (sdt_case_okb_sound sdt_ex_ctor sdt_ex_ops) as [v0 H]; [vm_compute; reflexivity|].
    exists v0. destruct H as [Hn A B _]. repeat split; try assumption. vm_compute in Hn. inversion Hn; subst v0.
    vm_compute. reflexivity.
  - vm_compute. repeat split.
Qed.

(* the escape of C02: the caller overwrites Length (write_u32(4, 1000)); the model's image has Length 1000 and 40 bytes,
   C02's plain judgement would reject it, Judge.v does not judge such a history; C13 and C01 still accept *)
Example sdt_writes_length_not_vacuous :
  let c := SL [sdt_ex_ctor; SA 1; SL [SA 4; SA 4; SA 4; SA 1000]; SA 1] in
  (let ops := [SA 1; SL [SA 4; SA 4; SA 4; SA 1000]; SA 1] in
   exists v0, sdt_spec_new sdt_ex_ctor = Some v0 /\ markers_ok ops = true /\ Forall sdt_op_ok (real_ops ops) /\
              N.of_nat (length v0) + ops_growth (real_ops ops) < 2 ^ 62) /\
  sdt_writes_length c = true /\ c02_oracle c (run_case Wrapping 31 c) = false /\
  oracle 2 31 c (run_case Wrapping 31 c) = true /\ oracle 13 31 c (run_case Wrapping 31 c) = true.
Proof.
  split; [|vm_compute; repeat split].
  destruct (sdt_case_okb_sound sdt_ex_ctor [SA 1; SL [SA 4; SA 4; SA 4; SA 1000]; SA 1]) as [v0 [Hn A B C]]; [vm_compute; reflexivity|].
  exists v0. auto.
Qed.

(* the theorem applied to the first history: both profiles at once, nothing computed *)
Example sdt_coherence_applies : forall md,
  let c := SL (sdt_ex_ctor :: sdt_ex_ops) in
  oracle 13 31 c (run_case md 31 c) = true /\ oracle 1 31 c (run_case md 31 c) = true /\ oracle 2 31 c (run_case md 31 c) = true.
Proof.
  intros md c. destruct sdt_coherent_not_vacuous as [(v0 & Hn & Hm & Hok & Hsz) _].
  assert (Hsz62 : N.of_nat (length v0) + ops_growth (real_ops sdt_ex_ops) < 2 ^ 62).
  { change (2 ^ 32) with 4294967296 in Hsz. change (2 ^ 62) with 4611686018427387904. lia. }
  destruct (sdt_coherence md sdt_ex_ctor sdt_ex_ops v0 Hn Hm Hok Hsz62) as (H13 & H1 & H2).
  split; [exact H13|]. split; [exact H1|]. apply H2. now right.
Qed.

(* the well-formedness of a case is decidable ([sdt_case_okb]): the form usable on a concrete case text *)
Theorem sdt_coherence_okb : forall md ctor ops,
  sdt_case_okb ctor ops = true ->
  let c := SL (ctor :: ops) in
  oracle 13 31 c (run_case md 31 c) = true /\ oracle 1 31 c (run_case md 31 c) = true.
Proof.
  intros md ctor ops H c. destruct (sdt_case_okb_sound ctor ops H) as [v0 Hcase]. exact (sdt_coherent md ctor ops v0 Hcase).
Qed.
