(* MCFG: the table-specific obligations of the generic history invariant. *)
From Coq Require Import NArith ZArith List Lia Bool Arith.
From ACPI Require Import Lib.Bytes Lib.Sx Lib.Machine Impl.Checksum Impl.Table Impl.Fields Impl.Run Impl.Madt Impl.Mcfg
  Proofs.ChecksumP Proofs.TableP Proofs.MadtP Proofs.Tables Proofs.FixedP.
Import ListNotations.
Open Scope N_scope.

Lemma mcfg_new_inv c s0 : mcfg_new c = Some s0 -> Inv2 KMcfg s0.
Proof.
  unfold mcfg_new. destruct c as [|l]; [discriminate|].
  destruct l as [|o [|t [|r [|x l]]]]; try discriminate.
  destruct (sx_hdr [77; 67; 70; 71] 1 o t r) as [h|] eqn:Eh; [|discriminate].
  cbn [option_bind]. intros H. inversion H; subst.
  apply tbl_new_inv2; [eapply sx_hdr_ok; [|exact Eh]; reflexivity | reflexivity].
Qed.

(* the claimed 16 bytes (size_of::<EcamEntry>()) are what the packed entry serialises to, for every argument value *)
Lemma mcfg_addition_sound s o e : t_kind s = KMcfg -> mcfg_addition s o = Some e ->
  a_claimed e = N.of_nat (length (a_bytes e)) /\
  (needs_pos (t_kind s) = true -> (1 <= length (a_bytes e))%nat /\ a_claimed e < 2 ^ 16).
Proof.
  intros Hk. unfold mcfg_addition.
  repeat match goal with |- (match ?x with _ => _ end) = Some _ -> _ => destruct x; try discriminate end.
  intros H. inversion H; subst; cbn [a_claimed a_bytes].
  split; [rewrite ser_flds_length; reflexivity|]. rewrite Hk. discriminate.
Qed.

Definition mcfg_table : addtable :=
  {| at_name := [77; 67; 70; 71]; at_kind := KMcfg; at_new := mcfg_new; at_entry := mcfg_addition;
     at_new_inv := mcfg_new_inv; at_sound := mcfg_addition_sound |}.

(* consequences for the emitted image after every history (the generic theorems of Proofs/Tables.v instantiated) *)
Theorem mcfg_sum_len md c ops s0 s :
  mcfg_new c = Some s0 -> run_adds mcfg_addition md s0 ops = Some s -> N.of_nat (length (tbl_image s)) < 2 ^ 32 ->
  sum8 (tbl_image s) = 0 /\ Spec.Layout.field_at (tbl_image s) 4 4 = N.of_nat (length (tbl_image s)).
Proof.
  intros Hn Hr Hfit. destruct (addtable_reach mcfg_table md c ops s0 s Hn Hr Hfit) as [I _].
  split; [apply inv_sum8_zero|apply image_len_field]; assumption.
Qed.
