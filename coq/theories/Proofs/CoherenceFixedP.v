(* Coherence (Proofs/CoherenceTablesP.v) instantiated for the eight fixed-layout structures:
   FADT 26, SPCR 28, BERT 27, TpmServer1_2 24, TpmClient1_2 25, Tpm2 23, RSDP 30, FACS 29.
   Their refinement theorems (Proofs/FixedRefP.v, fixed_refines) have no side condition on the history, so no closure
   property of the Spec's domain is needed: the whole history in the domain is enough. *)
From Coq Require Import NArith List Bool Lia.
From ACPI Require Import Lib.Bytes Lib.Sx Lib.Machine Impl.Table Impl.Fields Impl.Run
  Impl.Fadt Impl.Spcr Impl.Bert Impl.Tpm2 Impl.Rsdp Impl.Facs
  Spec.Layout Spec.FixedS Spec.FadtS Spec.SpcrS Spec.BertS Spec.Tpm2S Spec.RsdpS Spec.FacsS
  Proofs.FixedP Proofs.RefFixedCommonP Proofs.FadtRefP Proofs.RsdpRefP Proofs.FixedRefP Proofs.FadtP Proofs.Registry
  Judge Proofs.CoherenceTablesP.
Import ListNotations.
Open Scope N_scope.

(* the three judgements of a table component on the model's own observation stream *)
Definition coherent (comp : N) (md : mode) (c : sx) : Prop :=
  oracle 4 comp c (run_case md comp c) = true /\
  oracle 1 comp c (run_case md comp c) = true /\
  oracle 2 comp c (run_case md comp c) = true.

Section Fixed.
  Context {S : Type}.
  Variable spec : tspec.
  Variable wf : sx -> Prop.
  Variable new : sx -> option S.
  Variable step : mode -> S -> sx -> option (S * list ev).
  Variable img : S -> list N.
  Hypothesis step_one : forall md s o s' evs, step md s o = Some (s', evs) -> exists h, evs = [EvNum h].
  Hypothesis Href : refines spec wf new step img.

  Let image (s : S) : option (list N) := Some (img s).

  Lemma image_total : forall s, exists b, image s = Some b.
  Proof. intros s. exists (img s). reflexivity. Qed.

  Lemma fixed_refinement md : forall ctor p r, ts_image spec ctor p = Some r -> (fun c _ _ => wf c) ctor p r ->
    exists s0 s, new ctor = Some s0 /\ run_steps (step md) s0 p = Some s /\ image s = Some r.
  Proof.
    intros ctor p r Ht Hw. destruct (Href md ctor p r Ht Hw) as (s0 & s & Hn & Hr & Hi).
    exists s0, s. unfold image. rewrite Hi. auto.
  Qed.

  Lemma fixed_c04 md ctor ops r :
    markers_ok ops = true -> wf ctor -> ts_image spec ctor (real_ops ops) = Some r ->
    c04_oracle spec (SL (ctor :: ops)) (run_history (fun s => Some (img s)) (step md) new (SL (ctor :: ops))) = true.
  Proof.
    intros Hm Hw Ht.
    apply (c04_coherent_refines image (step md) (step_one md) image_total new spec (fun c _ _ => wf c) (fixed_refinement md)
             ctor ops r Hm Ht).
    intros p q r1 _ _. exact Hw.
  Qed.

  Lemma fixed_images (P : list N -> bool) md ctor ops r :
    (forall c ops s0 s, new c = Some s0 -> run_steps (step md) s0 ops = Some s -> P (img s) = true) ->
    markers_ok ops = true -> wf ctor -> ts_image spec ctor (real_ops ops) = Some r ->
    forallb (fun e => match e with EvBytes b => P b | _ => true end)
            (run_history (fun s => Some (img s)) (step md) new (SL (ctor :: ops))) = true.
  Proof.
    intros HP Hm Hw Ht.
    destruct (refinement_accepts image (step md) new spec (fun c _ _ => wf c) (fixed_refinement md) ctor ops r Ht) as (s0 & sf & Hn & Hr & _).
    { intros p q r1 _ _. exact Hw. }
    apply (images_coherent image (step md) (step_one md) image_total new P ctor ops s0 sf Hm Hn Hr).
    intros p q s1 b _ Hs Hi. unfold image in Hi. inversion Hi; subst b. exact (HP ctor p s0 s1 Hn Hs).
  Qed.
End Fixed.

(* ---------- every accepted operation reports one number ---------- *)
Lemma none_step_one {S} (md : mode) (s : S) (o : sx) s' (evs : list ev) : (None : option (S * list ev)) = Some (s', evs) -> exists h, evs = [EvNum h].
Proof. discriminate. Qed.

Lemma fadt_step_one md s o s' evs : fadt_step md s o = Some (s', evs) -> exists h, evs = [EvNum h].
Proof. unfold fadt_step. destruct (fadt_builder s o); [|discriminate]. cbn [option_bind]. intros [= _ <-]. now exists 0. Qed.

Lemma tpmserver_step_one md s o s' evs : tpmserver_step md s o = Some (s', evs) -> exists h, evs = [EvNum h].
Proof. unfold tpmserver_step. destruct (tpmserver_builder (sv_body s) o); [|discriminate]. cbn [option_bind]. intros [= _ <-]. now exists 0. Qed.

Lemma some_pair_one {S} (a s' : S) h (evs : list ev) : Some (a, [EvNum h]) = Some (s', evs) -> exists h, evs = [EvNum h].
Proof. intros [= _ <-]. now exists h. Qed.

Ltac inv_step H :=
  repeat match type of H with
         | match ?x with _ => _ end = Some _ => destruct x; try discriminate H
         | option_bind ?x _ = Some _ => destruct x; [cbn [option_bind] in H|discriminate H]
         end.

Lemma tpm2_step_one md s o s' evs : tpm2_step md s o = Some (s', evs) -> exists h, evs = [EvNum h].
Proof. unfold tpm2_step. intros H. inv_step H. exact (some_pair_one _ _ _ _ H). Qed.

Lemma facs_step_one md s o s' evs : facs_step md s o = Some (s', evs) -> exists h, evs = [EvNum h].
Proof. unfold facs_step. intros H. inv_step H. exact (some_pair_one _ _ _ _ H). Qed.

(* ---------- the usual judgement: byte sum 0 (C01), Length field at offset 4 = size (C02) ---------- *)
Definition sum_ok (b : list N) : bool := sum8 b =? 0.
Definition len_ok (b : list N) : bool := field_at b 4 4 =? N.of_nat (length b).

Section Usual.
  Context {S : Type}.
  Variable spec : tspec.
  Variable wf : sx -> Prop.
  Variable new : sx -> option S.
  Variable step : mode -> S -> sx -> option (S * list ev).
  Variable img : S -> list N.
  Hypothesis step_one : forall md s o s' evs, step md s o = Some (s', evs) -> exists h, evs = [EvNum h].
  Hypothesis Href : refines spec wf new step img.
  Hypothesis Hgood : forall md c ops s0 s, new c = Some s0 -> run_steps (step md) s0 ops = Some s ->
    sum8 (img s) = 0 /\ field_at (img s) 4 4 = N.of_nat (length (img s)).

  Lemma usual_coherent md ctor ops r :
    markers_ok ops = true -> wf ctor -> ts_image spec ctor (real_ops ops) = Some r ->
    let c := SL (ctor :: ops) in
    let evs := run_history (fun s => Some (img s)) (step md) new c in
    c04_oracle spec c evs = true /\ c01_oracle c evs = true /\ c02_oracle c evs = true.
  Proof.
    intros Hm Hw Ht c evs. split; [|split].
    - exact (fixed_c04 spec wf new step img step_one Href md ctor ops r Hm Hw Ht).
    - apply (fixed_images spec wf new step img step_one Href sum_ok md ctor ops r); try assumption.
      intros c0 ops0 s0 s Hn Hr. unfold sum_ok. apply N.eqb_eq. exact (proj1 (Hgood md c0 ops0 s0 s Hn Hr)).
    - apply (fixed_images spec wf new step img step_one Href len_ok md ctor ops r); try assumption.
      intros c0 ops0 s0 s Hn Hr. unfold len_ok. apply N.eqb_eq. exact (proj2 (Hgood md c0 ops0 s0 s Hn Hr)).
  Qed.
End Usual.

Lemma fadt_good md c ops s0 s : fadt_new c = Some s0 -> run_steps (fadt_step md) s0 ops = Some s ->
  sum8 (fadt_image s) = 0 /\ field_at (fadt_image s) 4 4 = N.of_nat (length (fadt_image s)).
Proof. intros Hn Hr. rewrite <- fadt_run_is_run_steps in Hr. exact (fadt_history md c ops s0 s Hn Hr). Qed.

Theorem fadt_coherent md ctor ops r :
  markers_ok ops = true -> fadt_ctor_bytes ctor -> ts_image fadt_spec ctor (real_ops ops) = Some r ->
  coherent 26 md (SL (ctor :: ops)).
Proof.
  exact (usual_coherent fadt_spec fadt_ctor_bytes fadt_new fadt_step fadt_image fadt_step_one
           (proj1 fixed_refines) fadt_good md ctor ops r).
Qed.

Theorem spcr_coherent md ctor ops r :
  markers_ok ops = true -> ts_image spcr_spec ctor (real_ops ops) = Some r -> coherent 28 md (SL (ctor :: ops)).
Proof.
  intros Hm Ht.
  exact (usual_coherent spcr_spec any_ctor spcr_new spcr_step spcr_bytes (fun md s o s' e => none_step_one md s o s' e)
           (proj1 (proj2 fixed_refines)) Proofs.SpcrP.spcr_sum_len md ctor ops r Hm I Ht).
Qed.

Theorem bert_coherent md ctor ops r :
  markers_ok ops = true -> ts_image bert_spec ctor (real_ops ops) = Some r -> coherent 27 md (SL (ctor :: ops)).
Proof.
  intros Hm Ht.
  exact (usual_coherent bert_spec any_ctor bert_new bert_step bert_bytes (fun md s o s' e => none_step_one md s o s' e)
           (proj1 (proj2 (proj2 fixed_refines))) Proofs.BertP.bert_sum_len md ctor ops r Hm I Ht).
Qed.

Theorem tpmserver_coherent md ctor ops r :
  markers_ok ops = true -> ts_image tpmserver_spec ctor (real_ops ops) = Some r -> coherent 24 md (SL (ctor :: ops)).
Proof.
  intros Hm Ht.
  exact (usual_coherent tpmserver_spec any_ctor tpmserver_new tpmserver_step tpmserver_bytes tpmserver_step_one
           (proj1 (proj2 (proj2 (proj2 fixed_refines)))) Proofs.Tpm2P.tpmserver_sum_len md ctor ops r Hm I Ht).
Qed.

Theorem tpmclient_coherent md ctor ops r :
  markers_ok ops = true -> ts_image tpmclient_spec ctor (real_ops ops) = Some r -> coherent 25 md (SL (ctor :: ops)).
Proof.
  intros Hm Ht.
  exact (usual_coherent tpmclient_spec any_ctor tpmclient_new tpmclient_step tpmclient_bytes (fun md s o s' e => none_step_one md s o s' e)
           (proj1 (proj2 (proj2 (proj2 (proj2 fixed_refines))))) Proofs.Tpm2P.tpmclient_sum_len md ctor ops r Hm I Ht).
Qed.

Theorem tpm2_coherent md ctor ops r :
  markers_ok ops = true -> ts_image tpm2_spec ctor (real_ops ops) = Some r -> coherent 23 md (SL (ctor :: ops)).
Proof.
  intros Hm Ht.
  exact (usual_coherent tpm2_spec any_ctor tpm2_new tpm2_step tpm2_bytes tpm2_step_one
           (proj1 (proj2 (proj2 (proj2 (proj2 (proj2 fixed_refines)))))) Proofs.Tpm2P.tpm2_sum_len md ctor ops r Hm I Ht).
Qed.

(* RSDP: two checksums (whole structure, first 20 bytes), Length 36 at offset 20 *)
Theorem rsdp_coherent md ctor ops r :
  markers_ok ops = true -> rsdp_ctor_bytes ctor -> ts_image rsdp_spec ctor (real_ops ops) = Some r ->
  coherent 30 md (SL (ctor :: ops)).
Proof.
  intros Hm Hw Ht.
  pose proof (proj1 (proj2 (proj2 (proj2 (proj2 (proj2 (proj2 fixed_refines))))))) as Href.
  pose proof (fun md s o s' e => @none_step_one rsdp md s o s' e) as Hone.
  split; [|split].
  - exact (fixed_c04 rsdp_spec rsdp_ctor_bytes rsdp_new rsdp_step rsdp_bytes Hone Href md ctor ops r Hm Hw Ht).
  - apply (fixed_images rsdp_spec rsdp_ctor_bytes rsdp_new rsdp_step rsdp_bytes Hone Href
             (fun b => (sum8 b =? 0) && (sum8 (firstn 20 b) =? 0)) md ctor ops r); try assumption.
    intros c0 ops0 s0 s Hn Hr. destruct (Proofs.RsdpP.rsdp_sums_len md c0 ops0 s0 s Hn Hr) as (H1 & H2 & _).
    rewrite H1, H2. reflexivity.
  - apply (fixed_images rsdp_spec rsdp_ctor_bytes rsdp_new rsdp_step rsdp_bytes Hone Href
             (fun b => (field_at b 20 4 =? 36) && Nat.eqb (length b) 36) md ctor ops r); try assumption.
    intros c0 ops0 s0 s Hn Hr. destruct (Proofs.RsdpP.rsdp_sums_len md c0 ops0 s0 s Hn Hr) as (_ & _ & H3 & H4).
    rewrite H3, H4. reflexivity.
Qed.

(* FACS: no checksum (C01 judges nothing), Length 64 at offset 4 *)
Theorem facs_coherent md ctor ops r :
  markers_ok ops = true -> ts_image facs_spec ctor (real_ops ops) = Some r -> coherent 29 md (SL (ctor :: ops)).
Proof.
  intros Hm Ht.
  pose proof (proj2 (proj2 (proj2 (proj2 (proj2 (proj2 (proj2 fixed_refines))))))) as Href.
  split; [|split].
  - exact (fixed_c04 facs_spec any_ctor facs_new facs_step ser_flds facs_step_one Href md ctor ops r Hm I Ht).
  - reflexivity.
  - apply (fixed_images facs_spec any_ctor facs_new facs_step ser_flds facs_step_one Href
             (fun b => (field_at b 4 4 =? 64) && Nat.eqb (length b) 64) md ctor ops r); try assumption; [|exact I].
    intros c0 ops0 s0 s Hn Hr. destruct (Proofs.FacsP.facs_len md c0 ops0 s0 s Hn Hr) as (H1 & H2).
    rewrite H1, H2. reflexivity.
Qed.
