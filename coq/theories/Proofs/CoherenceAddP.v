(* Coherence (Proofs/CoherenceTablesP.v) instantiated for the incrementally maintained tables whose operations are all
   additions (instances of Impl/Table.v): MADT 12, MCFG 11, XSDT 10, SRAT 13, PPTT 16, HMAT 15, RHCT 17, VIOT 19, RIMT 18, CEDT 20.
   The refinement theorems of these tables carry the side condition "the reference image fits the 32-bit Length field"
   (and, for MADT / SRAT, the well-formedness of builder lists).  The side condition is needed at every prefix of the history
   at which the oracle compares an image: it follows from the condition on the whole history because reference images do not
   shrink along a history ([len_mono], proved per shape of reference fold below). *)
From Coq Require Import NArith List Bool Lia Arith.
From ACPI Require Import Lib.Bytes Lib.Sx Lib.Machine Impl.Table Impl.Fields Impl.Run Spec.Layout Spec.MadtS Spec.RimtS
  Proofs.FixedP Proofs.TableP Proofs.Tables Proofs.Registry Judge Proofs.CoherenceTablesP Proofs.CoherenceFixedP.
Import ListNotations.
Open Scope N_scope.

Lemma add_step_one entry md s o s' evs : add_step entry md s o = Some (s', evs) -> exists h, evs = [EvNum h].
Proof.
  unfold add_step. destruct (entry s o) as [e|]; [|discriminate]. cbn [option_bind].
  destruct (tbl_add md s (a_style e) (a_claimed e) (a_bytes e)) as [r|]; [|discriminate]. cbn [option_bind].
  intros H. exact (some_pair_one _ _ _ _ H).
Qed.

Lemma run_adds_steps entry md ops : forall s, run_adds entry md s ops = run_steps (add_step entry md) s ops.
Proof.
  induction ops as [|[n|l] ops IH]; intros s; cbn [run_adds run_steps]; [reflexivity|apply IH|].
  destruct (add_step entry md s (SL l)) as [[s1 e]|]; [apply IH|reflexivity].
Qed.

Section AddTable.
  Variable T : mode -> addtable.
  Variable spec : tspec.
  Variable wfops : list sx -> Prop.
  Variable new : sx -> option tbl.
  Hypothesis T_new : forall md, at_new (T md) = new.
  Hypothesis Href : forall md ctor ops r,
    ts_image spec ctor ops = Some r -> wfops ops -> N.of_nat (length r) < 2 ^ 32 ->
    exists s0 s, new ctor = Some s0 /\ run_adds (at_entry (T md)) md s0 ops = Some s /\ tbl_image s = r.
  Hypothesis wf_prefix : forall p q, wfops (p ++ q) -> wfops p.
  Hypothesis len_mono : forall ctor p q r r1,
    ts_image spec ctor (p ++ q) = Some r -> ts_image spec ctor p = Some r1 -> (length r1 <= length r)%nat.

  Let image (s : tbl) : option (list N) := Some (tbl_image s).
  Let step (md : mode) := add_step (at_entry (T md)) md.

  Lemma add_image_total : forall s, exists b, image s = Some b.
  Proof. intros s. exists (tbl_image s). reflexivity. Qed.

  Lemma add_refinement md : forall ctor p r, ts_image spec ctor p = Some r ->
    (fun _ p r => wfops p /\ N.of_nat (length r) < 2 ^ 32) ctor p r ->
    exists s0 s, new ctor = Some s0 /\ run_steps (step md) s0 p = Some s /\ image s = Some r.
  Proof.
    intros ctor p r Ht [Hw Hf]. destruct (Href md ctor p r Ht Hw Hf) as (s0 & s & Hn & Hr & Hi).
    exists s0, s. unfold image, step. rewrite <- run_adds_steps, Hi. auto.
  Qed.

  Lemma add_side ctor ops r :
    wfops (real_ops ops) -> ts_image spec ctor (real_ops ops) = Some r -> N.of_nat (length r) < 2 ^ 32 ->
    side_at_prefixes spec (fun _ p r => wfops p /\ N.of_nat (length r) < 2 ^ 32) ctor ops.
  Proof.
    intros Hw Ht Hf p q r1 E Ht1. rewrite E in Hw, Ht. split; [exact (wf_prefix p q Hw)|].
    pose proof (len_mono ctor p q r r1 Ht Ht1). lia.
  Qed.

  Theorem add_coherent md ctor ops r :
    markers_ok ops = true -> wfops (real_ops ops) ->
    ts_image spec ctor (real_ops ops) = Some r -> N.of_nat (length r) < 2 ^ 32 ->
    let c := SL (ctor :: ops) in
    let evs := run_history (fun s => Some (tbl_image s)) (add_step (at_entry (T md)) md) new c in
    c04_oracle spec c evs = true /\ c01_oracle c evs = true /\ c02_oracle c evs = true.
  Proof.
    intros Hm Hw Ht Hf c evs.
    pose proof (add_side ctor ops r Hw Ht Hf) as Hs.
    destruct (refinement_accepts image (step md) new spec _ (add_refinement md) ctor ops r Ht Hs) as (s0 & sf & Hn & Hr & Hi).
    unfold image in Hi. inversion Hi as [Hi']; clear Hi.
    (* every state on the way: the invariant's consequences, because images only grow *)
    assert (Hgood : forall p q s1, real_ops ops = p ++ q -> run_steps (step md) s0 p = Some s1 ->
              sum8 (tbl_image s1) = 0 /\ field_at (tbl_image s1) 4 4 = N.of_nat (length (tbl_image s1))).
    { intros p q s1 E Hs1.
      pose proof (run_steps_split (step md) ops p q s0 sf E Hr s1 Hs1) as Hq.
      unfold step in Hs1, Hq. rewrite <- run_adds_steps in Hs1, Hq.
      assert (Hn' : at_new (T md) ctor = Some s0) by (rewrite T_new; exact Hn).
      pose proof (at_new_inv (T md) ctor s0 Hn') as I0.
      pose proof (inv_hdr s0 (proj1 I0)) as Hh0.
      pose proof (run_adds_hdr_ok (at_kind (T md)) (at_entry (T md)) (at_sound (T md)) md p s0 s1 Hh0 Hs1) as Hh1.
      pose proof (run_adds_grows (at_kind (T md)) (at_entry (T md)) (at_sound (T md)) md q s1 sf Hh1 Hq) as Hg.
      assert (Hf1 : N.of_nat (length (tbl_image s1)) < 2 ^ 32) by (rewrite Hi' in Hg; lia).
      split; [exact (add_tables_sum (T md) md ctor p s0 s1 Hn' Hs1 Hf1)|exact (add_tables_len (T md) md ctor p s0 s1 Hn' Hs1 Hf1)]. }
    split; [|split].
    - exact (c04_coherent_refines image (step md) (add_step_one _ md) add_image_total new spec _ (add_refinement md) ctor ops r Hm Ht Hs).
    - apply (images_coherent image (step md) (add_step_one _ md) add_image_total new sum_ok ctor ops s0 sf Hm Hn Hr).
      intros p q s1 b E Hs1 Hb. unfold image in Hb. inversion Hb; subst b. unfold sum_ok. apply N.eqb_eq.
      exact (proj1 (Hgood p q s1 E Hs1)).
    - apply (images_coherent image (step md) (add_step_one _ md) add_image_total new len_ok ctor ops s0 sf Hm Hn Hr).
      intros p q s1 b E Hs1 Hb. unfold image in Hb. inversion Hb; subst b. unfold len_ok. apply N.eqb_eq.
      exact (proj2 (Hgood p q s1 E Hs1)).
  Qed.
End AddTable.

(* ---------- reference images do not shrink: the reference table ---------- *)
Lemma length_ref_table_any sig rev h rest :
  length (ref_table sig rev h rest) = (length (ref_table sig rev h []) + length rest)%nat.
Proof. unfold ref_table, ref_header. rewrite !app_length, !length_le. cbn [length]. lia. Qed.

Lemma ref_table_len_mono sig rev h a b :
  (length a <= length b)%nat -> (length (ref_table sig rev h a) <= length (ref_table sig rev h b))%nat.
Proof. intros H. rewrite (length_ref_table_any sig rev h a), (length_ref_table_any sig rev h b). lia. Qed.

Lemma some_inj {A} (a b : A) : Some a = Some b -> a = b.
Proof. now intros [= ->]. Qed.

(* ---------- the shapes of reference folds ---------- *)
(* (1) one reference entry per operation, independently: opt_concat (map f ops) *)
Lemma opt_concat_app (f : sx -> option (list N)) p : forall q es,
  opt_concat (map f (p ++ q)) = Some es ->
  exists es1 es2, opt_concat (map f p) = Some es1 /\ opt_concat (map f q) = Some es2 /\ es = es1 ++ es2.
Proof.
  induction p as [|o p IH]; intros q es H.
  - exists [], es. auto.
  - cbn [app map opt_concat] in *. destruct (f o) as [e|]; [|discriminate].
    destruct (opt_concat (map f (p ++ q))) as [es'|] eqn:E; [|discriminate]. apply some_inj in H. subst es.
    destruct (IH q es' E) as (es1 & es2 & H1 & H2 & ->). rewrite H1. exists (e :: es1), es2. auto.
Qed.

(* (2) entries laid out with a state threaded through the history and a reversed accumulator *)
Section StateFold.
  Context {St : Type}.
  Variable f : St -> sx -> option (list N).
  Variable nx : St -> list N -> St.

  Fixpoint sfold (ops : list sx) (st : St) (racc : list (list N)) : option (list (list N)) :=
    match ops with
    | [] => Some (frev racc)
    | o :: r => match f st o with Some e => sfold r (nx st e) (e :: racc) | None => None end
    end.

  Lemma sfold_acc ops : forall st racc es, sfold ops st racc = Some es -> exists es2, es = rev racc ++ es2.
  Proof.
    induction ops as [|o ops IH]; intros st racc es H; cbn [sfold] in H.
    - apply some_inj in H. subst es. exists []. now rewrite frev_rev, app_nil_r.
    - destruct (f st o) as [e|]; [|discriminate]. destruct (IH _ _ _ H) as [es2 ->].
      exists (e :: es2). cbn [rev]. now rewrite <- app_assoc.
  Qed.

  Lemma sfold_app p : forall q st racc es,
    sfold (p ++ q) st racc = Some es -> exists es1 es2, sfold p st racc = Some es1 /\ es = es1 ++ es2.
  Proof.
    induction p as [|o p IH]; intros q st racc es H.
    - cbn [app] in H. destruct (sfold_acc q st racc es H) as [es2 ->]. exists (rev racc), es2.
      cbn [sfold]. now rewrite frev_rev.
    - cbn [app sfold] in *. destruct (f st o) as [e|]; [|discriminate]. exact (IH q _ _ _ H).
  Qed.
End StateFold.

Lemma concat_len_app (a b : list (list N)) : (length (concat a) <= length (concat (a ++ b)))%nat.
Proof. rewrite concat_app, app_length. lia. Qed.

(* ---------- per table: reference images do not shrink, and the coherence theorem ---------- *)
From ACPI Require Import Impl.Xsdt Impl.Mcfg Impl.Madt Impl.Srat Impl.Hmat Impl.Pptt Impl.Rhct Impl.Rimt Impl.Viot Impl.Cedt
  Spec.XsdtS Spec.McfgS Spec.SratS Spec.HmatS Spec.PpttS Spec.RhctS Spec.ViotS Spec.CedtS
  Proofs.MadtP Proofs.XsdtP Proofs.McfgP Proofs.SratP Proofs.HmatP Proofs.PpttP Proofs.RhctP Proofs.RimtP Proofs.ViotP Proofs.CedtP
  Proofs.MadtRefP Proofs.McfgRefP Proofs.XsdtRefP Proofs.SratRefP Proofs.RhctRefP Proofs.ViotRefP Proofs.RimtRefP Proofs.CedtRefP
  Proofs.PpttRefP Proofs.HmatRefP.

(* expose the constructor shape a reference image function matches on *)
Ltac ctor_shape H :=
  repeat (cbv beta match in H;
          match type of H with context [match ?x with _ => _ end] => is_var x; destruct x; try discriminate H end).

Ltac finish_mono H H1 :=
  apply some_inj in H; apply some_inj in H1; subst; apply ref_table_len_mono;
  rewrite ?app_length, ?length_le, ?concat_app, ?app_length; lia.

Lemma xsdt_len_mono ctor p q r r1 :
  ts_image xsdt_spec ctor (p ++ q) = Some r -> ts_image xsdt_spec ctor p = Some r1 -> (length r1 <= length r)%nat.
Proof.
  cbn [ts_image xsdt_spec]. unfold xsdt_image, xsdt_entries_ref. intros H H1. ctor_shape H. cbv beta match in H1.
  destruct (sx_hdr_args _ _ _) as [h|]; [|discriminate H].
  destruct (opt_concat (map xsdt_entry_ref (p ++ q))) as [es|] eqn:E; [|discriminate H].
  destruct (opt_concat_app _ p q es E) as (es1 & es2 & E1 & _ & ->). rewrite E1 in H1.
  finish_mono H H1.
Qed.

Theorem xsdt_coherent md ctor ops r :
  markers_ok ops = true -> ts_image xsdt_spec ctor (real_ops ops) = Some r -> N.of_nat (length r) < 2 ^ 32 ->
  coherent 10 md (SL (ctor :: ops)).
Proof.
  intros Hm Ht Hf.
  exact (add_coherent (fun _ => xsdt_table) xsdt_spec (fun _ => True) xsdt_new (fun _ => eq_refl)
           (fun md ctor ops r H _ Hf => xsdt_refines md ctor ops r H Hf) (fun _ _ _ => I) xsdt_len_mono md ctor ops r Hm I Ht Hf).
Qed.

Lemma mcfg_len_mono ctor p q r r1 :
  ts_image mcfg_spec ctor (p ++ q) = Some r -> ts_image mcfg_spec ctor p = Some r1 -> (length r1 <= length r)%nat.
Proof.
  cbn [ts_image mcfg_spec]. unfold mcfg_image, mcfg_entries_ref. intros H H1. ctor_shape H. cbv beta match in H1.
  destruct (sx_hdr_args _ _ _) as [h|]; [|discriminate H].
  destruct (opt_concat (map mcfg_entry_ref (p ++ q))) as [es|] eqn:E; [|discriminate H].
  destruct (opt_concat_app _ p q es E) as (es1 & es2 & E1 & _ & ->). rewrite E1 in H1.
  finish_mono H H1.
Qed.

Theorem mcfg_coherent md ctor ops r :
  markers_ok ops = true -> ts_image mcfg_spec ctor (real_ops ops) = Some r -> N.of_nat (length r) < 2 ^ 32 ->
  coherent 11 md (SL (ctor :: ops)).
Proof.
  intros Hm Ht Hf.
  exact (add_coherent (fun _ => mcfg_table) mcfg_spec (fun _ => True) mcfg_new (fun _ => eq_refl)
           (fun md ctor ops r H _ Hf => mcfg_refines md ctor ops r H Hf) (fun _ _ _ => I) mcfg_len_mono md ctor ops r Hm I Ht Hf).
Qed.

Lemma forall_prefix {A} (P : A -> Prop) (p q : list A) : Forall P (p ++ q) -> Forall P p.
Proof. intros H. apply Forall_app in H. exact (proj1 H). Qed.

Lemma madt_len_mono ctor p q r r1 :
  ts_image madt_spec ctor (p ++ q) = Some r -> ts_image madt_spec ctor p = Some r1 -> (length r1 <= length r)%nat.
Proof.
  cbn [ts_image madt_spec]. unfold madt_image, madt_entries_ref. intros H H1.
  destruct ctor as [|[|o [|t [|r0 [|lic [|]]]]]]; try discriminate H.
  destruct (sx_hdr_args o t r0) as [h|]; [|discriminate H].
  destruct (match lic with SL [] => Some 0 | SL [SA a] => Some a | _ => None end) as [addr|]; [|discriminate H].
  destruct (Nat.ltb 1 (length (filter is_imsic_add (p ++ q)))); [discriminate H|].
  destruct (Nat.ltb 1 (length (filter is_imsic_add p))); [discriminate H1|].
  destruct (opt_concat (map madt_entry_ref (p ++ q))) as [es|] eqn:E; [|discriminate H].
  destruct (opt_concat_app _ p q es E) as (es1 & es2 & E1 & _ & ->). rewrite E1 in H1.
  finish_mono H H1.
Qed.

Theorem madt_coherent md ctor ops r :
  markers_ok ops = true -> madt_ops_wf (real_ops ops) ->
  ts_image madt_spec ctor (real_ops ops) = Some r -> N.of_nat (length r) < 2 ^ 32 ->
  coherent 12 md (SL (ctor :: ops)).
Proof.
  exact (add_coherent (fun _ => madt_table) madt_spec madt_ops_wf madt_new (fun _ => eq_refl)
           madt_refines (forall_prefix _) madt_len_mono md ctor ops r).
Qed.

Lemma srat_len_mono ctor p q r r1 :
  ts_image srat_spec ctor (p ++ q) = Some r -> ts_image srat_spec ctor p = Some r1 -> (length r1 <= length r)%nat.
Proof.
  cbn [ts_image srat_spec]. unfold srat_image, srat_entries_ref. intros H H1. ctor_shape H. cbv beta match in H1.
  destruct (sx_hdr_args _ _ _) as [h|]; [|discriminate H].
  destruct (opt_concat (map srat_entry_ref (p ++ q))) as [es|] eqn:E; [|discriminate H].
  destruct (opt_concat_app _ p q es E) as (es1 & es2 & E1 & _ & ->). rewrite E1 in H1.
  finish_mono H H1.
Qed.

Theorem srat_coherent md ctor ops r :
  markers_ok ops = true -> srat_ops_wf (real_ops ops) ->
  ts_image srat_spec ctor (real_ops ops) = Some r -> N.of_nat (length r) < 2 ^ 32 ->
  coherent 13 md (SL (ctor :: ops)).
Proof.
  exact (add_coherent (fun _ => srat_table) srat_spec srat_ops_wf srat_new (fun _ => eq_refl)
           srat_refines (forall_prefix _) srat_len_mono md ctor ops r).
Qed.

Lemma hmat_len_mono ctor p q r r1 :
  ts_image hmat_spec ctor (p ++ q) = Some r -> ts_image hmat_spec ctor p = Some r1 -> (length r1 <= length r)%nat.
Proof.
  cbn [ts_image hmat_spec]. unfold hmat_image, hmat_entries_ref. intros H H1. ctor_shape H. cbv beta match in H1.
  destruct (sx_hdr_args _ _ _) as [h|]; [|discriminate H].
  destruct (opt_concat (map hmat_entry_ref (p ++ q))) as [es|] eqn:E; [|discriminate H].
  destruct (opt_concat_app _ p q es E) as (es1 & es2 & E1 & _ & ->). rewrite E1 in H1.
  finish_mono H H1.
Qed.

Theorem hmat_coherent md ctor ops r :
  markers_ok ops = true -> ts_image hmat_spec ctor (real_ops ops) = Some r -> N.of_nat (length r) < 2 ^ 32 ->
  coherent 15 md (SL (ctor :: ops)).
Proof.
  intros Hm Ht Hf.
  exact (add_coherent hmat_table hmat_spec (fun _ => True) hmat_new (fun _ => eq_refl)
           (fun md ctor ops r H _ Hf => hmat_refines md ctor ops r H Hf) (fun _ _ _ => I) hmat_len_mono md ctor ops r Hm I Ht Hf).
Qed.

(* the stateful folds of the Spec files are instances of [sfold] *)
Lemma sp_all_sfold (f : sx -> option (list N)) l : forall racc,
  sp_all f l racc = sfold (fun _ : unit => f) (fun st _ => st) l tt racc.
Proof. induction l as [|x l IH]; intros racc; cbn [sp_all sfold]; [reflexivity|]. destruct (f x); [apply IH|reflexivity]. Qed.

Definition sp_state := (N * nat * sp_starts)%type.
Definition sp_f (entry : nat -> sp_starts -> sx -> option (list N)) (st : sp_state) (o : sx) : option (list N) :=
  entry (snd (fst st)) (snd st) o.
Definition sp_nx (st : sp_state) (e : list N) : sp_state :=
  (fst (fst st) + N.of_nat (length e), S (snd (fst st)), (fst (fst st), nth 0 e 0) :: snd st).

Lemma sp_entries_sfold entry ops : forall off n rs racc,
  sp_entries entry ops off n rs racc = sfold (sp_f entry) sp_nx ops (off, n, rs) racc.
Proof.
  induction ops as [|o ops IH]; intros off n rs racc; cbn [sp_entries sfold]; [reflexivity|].
  unfold sp_f at 1. cbn [fst snd]. destruct (entry n rs o) as [e|]; [|reflexivity]. rewrite IH. reflexivity.
Qed.

Definition pl_state := (placed * N)%type.
Definition pl_nx (ty : list N -> N) (st : pl_state) (e : list N) : pl_state :=
  (((ty e, snd st) :: fst (fst st), snd (fst st) + 1), snd st + N.of_nat (length e)).

Lemma rhct_entries_sfold ops : forall p next racc,
  rhct_entries_from ops p next racc
  = sfold (fun st o => rhct_entry_ref (fst st) o) (pl_nx (fun e => unle (firstn 2 e))) ops (p, next) racc.
Proof.
  induction ops as [|o ops IH]; intros p next racc; cbn [rhct_entries_from sfold]; [reflexivity|].
  cbn [fst snd]. destruct (rhct_entry_ref p o) as [e|]; [|reflexivity]. rewrite IH. reflexivity.
Qed.

Lemma pptt_entries_sfold ops : forall p next racc,
  pptt_entries_from ops p next racc
  = sfold (fun st o => pptt_entry_ref (fst st) o) (pl_nx (fun e => nth 0 e 0)) ops (p, next) racc.
Proof.
  induction ops as [|o ops IH]; intros p next racc; cbn [pptt_entries_from sfold]; [reflexivity|].
  cbn [fst snd]. destruct (pptt_entry_ref p o) as [e|]; [|reflexivity]. rewrite IH. reflexivity.
Qed.

Lemma cedt_len_mono ctor p q r r1 :
  ts_image cedt_spec ctor (p ++ q) = Some r -> ts_image cedt_spec ctor p = Some r1 -> (length r1 <= length r)%nat.
Proof.
  cbn [ts_image cedt_spec]. unfold cedt_image, cedt_entries_ref. rewrite !sp_all_sfold. intros H H1.
  ctor_shape H. cbv beta match in H1.
  destruct (sx_hdr_args _ _ _) as [h|]; [|discriminate H].
  destruct (sfold _ _ (p ++ q) _ _) as [es|] eqn:E; [|discriminate H].
  destruct (sfold_app _ _ p q _ _ es E) as (es1 & es2 & E1 & ->). rewrite E1 in H1.
  finish_mono H H1.
Qed.

Theorem cedt_coherent md ctor ops r :
  markers_ok ops = true -> ts_image cedt_spec ctor (real_ops ops) = Some r -> N.of_nat (length r) < 2 ^ 32 ->
  coherent 20 md (SL (ctor :: ops)).
Proof.
  intros Hm Ht Hf.
  exact (add_coherent (fun _ => cedt_table) cedt_spec (fun _ => True) cedt_new (fun _ => eq_refl)
           (fun md ctor ops r H _ Hf => cedt_refines md ctor ops r H Hf) (fun _ _ _ => I) cedt_len_mono md ctor ops r Hm I Ht Hf).
Qed.

Lemma rimt_len_mono ctor p q r r1 :
  ts_image rimt_spec ctor (p ++ q) = Some r -> ts_image rimt_spec ctor p = Some r1 -> (length r1 <= length r)%nat.
Proof.
  cbn [ts_image rimt_spec]. unfold rimt_image, rimt_entries_ref. rewrite !sp_entries_sfold. intros H H1.
  ctor_shape H. cbv beta match in H1.
  destruct (sx_hdr_args _ _ _) as [h|]; [|discriminate H].
  destruct (sfold _ _ (p ++ q) _ _) as [es|] eqn:E; [|discriminate H].
  destruct (sfold_app _ _ p q _ _ es E) as (es1 & es2 & E1 & ->). rewrite E1 in H1.
  finish_mono H H1.
Qed.

Theorem rimt_coherent md ctor ops r :
  markers_ok ops = true -> ts_image rimt_spec ctor (real_ops ops) = Some r -> N.of_nat (length r) < 2 ^ 32 ->
  coherent 18 md (SL (ctor :: ops)).
Proof.
  intros Hm Ht Hf.
  exact (add_coherent (fun _ => rimt_table) rimt_spec (fun _ => True) rimt_new (fun _ => eq_refl)
           (fun md ctor ops r H _ Hf => rimt_refines md ctor ops r H Hf) (fun _ _ _ => I) rimt_len_mono md ctor ops r Hm I Ht Hf).
Qed.

Lemma rhct_len_mono ctor p q r r1 :
  ts_image rhct_spec ctor (p ++ q) = Some r -> ts_image rhct_spec ctor p = Some r1 -> (length r1 <= length r)%nat.
Proof.
  cbn [ts_image rhct_spec]. unfold rhct_image, rhct_entries_ref. rewrite !rhct_entries_sfold. intros H H1.
  ctor_shape H. cbv beta match in H1.
  destruct (sx_hdr_args _ _ _) as [h|]; [|discriminate H].
  destruct (sfold _ _ (p ++ q) _ _) as [es|] eqn:E; [|discriminate H].
  destruct (sfold_app _ _ p q _ _ es E) as (es1 & es2 & E1 & ->). rewrite E1 in H1. cbv zeta in H, H1.
  destruct (_ && _); [|discriminate H]. destruct (_ && _); [|discriminate H1].
  finish_mono H H1.
Qed.

Theorem rhct_coherent md ctor ops r :
  markers_ok ops = true -> ts_image rhct_spec ctor (real_ops ops) = Some r -> N.of_nat (length r) < 2 ^ 32 ->
  coherent 17 md (SL (ctor :: ops)).
Proof.
  intros Hm Ht Hf.
  exact (add_coherent (fun _ => rhct_table) rhct_spec (fun _ => True) rhct_new (fun _ => eq_refl)
           (fun md ctor ops r H _ Hf => rhct_refines md ctor ops r H Hf) (fun _ _ _ => I) rhct_len_mono md ctor ops r Hm I Ht Hf).
Qed.

Lemma pptt_len_mono ctor p q r r1 :
  ts_image pptt_spec ctor (p ++ q) = Some r -> ts_image pptt_spec ctor p = Some r1 -> (length r1 <= length r)%nat.
Proof.
  cbn [ts_image pptt_spec]. unfold pptt_image, pptt_entries_ref. rewrite !pptt_entries_sfold. intros H H1.
  ctor_shape H. cbv beta match in H1.
  destruct (sx_hdr_args _ _ _) as [h|]; [|discriminate H].
  destruct (sfold _ _ (p ++ q) _ _) as [es|] eqn:E; [|discriminate H].
  destruct (sfold_app _ _ p q _ _ es E) as (es1 & es2 & E1 & ->). rewrite E1 in H1.
  finish_mono H H1.
Qed.

Theorem pptt_coherent md ctor ops r :
  markers_ok ops = true -> ts_image pptt_spec ctor (real_ops ops) = Some r -> N.of_nat (length r) < 2 ^ 32 ->
  coherent 16 md (SL (ctor :: ops)).
Proof.
  intros Hm Ht Hf.
  exact (add_coherent (fun _ => pptt_table) pptt_spec (fun _ => True) pptt_new (fun _ => eq_refl)
           (fun md ctor ops r H _ Hf => pptt_refines md ctor ops r H Hf) (fun _ _ _ => I) pptt_len_mono md ctor ops r Hm I Ht Hf).
Qed.

(* VIOT: the refinement theorem has no side condition (the Spec's domain already bounds the table by its 16-bit node
   offsets); the bound the generic theorem asks for follows from the domain *)
Lemma viot_len_mono ctor p q r r1 :
  ts_image viot_spec ctor (p ++ q) = Some r -> ts_image viot_spec ctor p = Some r1 -> (length r1 <= length r)%nat.
Proof.
  cbn [ts_image viot_spec]. unfold viot_image, viot_entries_ref. rewrite !sp_entries_sfold. intros H H1.
  ctor_shape H. cbv beta match in H1.
  destruct (sx_hdr_args _ _ _) as [h|]; [|discriminate H].
  destruct (sfold _ _ (p ++ q) _ _) as [es|] eqn:E; [|discriminate H].
  destruct (sfold_app _ _ p q _ _ es E) as (es1 & es2 & E1 & ->). rewrite E1 in H1.
  destruct (_ <? _); [|discriminate H]. destruct (_ <? _); [|discriminate H1].
  finish_mono H H1.
Qed.

Lemma viot_fits ctor ops r : ts_image viot_spec ctor ops = Some r -> N.of_nat (length r) < 2 ^ 32.
Proof.
  cbn [ts_image viot_spec]. unfold viot_image, viot_entries_ref. intros H. ctor_shape H.
  destruct (sx_hdr_args _ _ _) as [h|] eqn:Eh; [|discriminate H].
  destruct (Proofs.RefFixedCommonP.sx_hdr_args_inv _ _ _ _ Eh) as (_ & _ & _ & Lo & Lt).
  destruct (sp_entries _ _ _ _ _ _) as [es|]; [|discriminate H].
  destruct (48 + N.of_nat (length (concat es)) <? 2 ^ 16) eqn:Eb; [|discriminate H]. apply N.ltb_lt in Eb.
  apply some_inj in H. subst r. rewrite length_ref_table_any.
  unfold ref_table, ref_header, CREATOR. rewrite !app_length, !length_le, Lo, Lt. cbn [length app].
  assert (2 ^ 16 < 2 ^ 32 - 100) by (vm_compute; reflexivity). lia.
Qed.

Theorem viot_coherent md ctor ops r :
  markers_ok ops = true -> ts_image viot_spec ctor (real_ops ops) = Some r ->
  coherent 19 md (SL (ctor :: ops)).
Proof.
  intros Hm Ht.
  exact (add_coherent (fun _ => viot_table) viot_spec (fun _ => True) viot_new (fun _ => eq_refl)
           (fun md ctor ops r H _ _ => viot_refines md ctor ops r H) (fun _ _ _ => I) viot_len_mono md ctor ops r Hm I Ht
           (viot_fits _ _ _ Ht)).
Qed.
