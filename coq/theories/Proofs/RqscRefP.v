(* RQSC refinement (property C04 as a theorem): for every constructor argument and every finite history of add_controller calls
   inside the domain of Spec/RqscS.v, in both build profiles, the Impl model of rqsc.rs (its own state machine rqsc_new /
   rqsc_step / rqsc_run, checksum recomputed from scratch at every add) accepts the history and serialises exactly the reference
   image.  Layers: resource id -> resource structure -> GAS -> controller (with the checked u16 count / length arithmetic of
   add_resource) -> table. *)
From Coq Require Import NArith ZArith List Lia Bool Arith.
From ACPI Require Import Lib.Bytes Lib.Sx Lib.Machine Impl.Checksum Impl.Table Impl.Fields Impl.Run Impl.Madt Impl.Gas Impl.Rqsc
  Spec.Layout Spec.GasS Spec.RqscS Proofs.ChecksumP Proofs.TableP Proofs.MadtP Proofs.BitsP Proofs.RqscP Proofs.RefAddTableP.
Import ListNotations.
Open Scope N_scope.

Lemma le_app a b x : le (a + b) x = le a x ++ le b (x / 2 ^ (8 * N.of_nat a)).
Proof.
  revert x; induction a as [|a IH]; intros x.
  - cbn [plus le app]. change (8 * N.of_nat 0) with 0. rewrite N.pow_0_r, N.div_1_r. reflexivity.
  - cbn [plus le app]. rewrite IH. do 2 f_equal.
    replace (8 * N.of_nat (S a)) with (8 + 8 * N.of_nat a) by lia.
    rewrite N.pow_add_r, N.div_div by (try apply N.pow_nonzero; lia). reflexivity.
Qed.

Lemma le8_small x : x < 2 ^ 32 -> le 8 x = le 4 x ++ le 4 0.
Proof. intros H. change (le 8 x) with (le (4 + 4) x). rewrite (le_app 4 4 x). change (8 * N.of_nat 4) with 32. now rewrite N.div_small. Qed.

Lemma map_cast_bytes bs : forallb (fun x => x <? 256) bs = true -> map (cast U8) bs = bs.
Proof.
  induction bs as [|b bs IH]; intros H; [reflexivity|]. cbn [forallb] in H. apply andb_true_iff in H. destruct H as [Hb Hr].
  apply N.ltb_lt in Hb. cbn [map]. rewrite IH by exact Hr. unfold cast, U8. now rewrite N.mod_small.
Qed.

(* resource id: (IDType, ID1 ++ ID2 ++ specific data) *)
Lemma resid_agrees s ty rest : resid_ref s = Some (ty, rest) ->
  exists id, resid_of_sx s = Some id /\ ri_type id = ty /\ ri_payload id = rest /\ ty < 256.
Proof.
  unfold resid_ref. intros H.
  repeat match type of H with context [match ?x with _ => _ end] => is_var x; destruct x; try discriminate H end.
  all: cbn [resid_of_sx].
  - destruct (N.ltb_spec n (2 ^ 32)); [|discriminate]. apply some_pair_inv in H; destruct H as [<- <-].
    eexists. split; [reflexivity|]. cbn [ri_type ri_payload]. split; [reflexivity|]. split; [|reflexivity].
    unfold d4. rewrite le8_small by assumption. now rewrite <- app_assoc.
  - destruct (N.ltb_spec n (2 ^ 32)); [|discriminate]. apply some_pair_inv in H; destruct H as [<- <-].
    eexists. split; [reflexivity|]. cbn [ri_type ri_payload]. split; [reflexivity|]. split; [|reflexivity].
    unfold d4. rewrite le8_small by assumption. now rewrite <- app_assoc.
  - destruct (sx_bytes s) as [bs|]; [|discriminate]. cbn [option_bind].
    destruct (N.leb_spec 4 n); [|discriminate]. destruct (N.ltb_spec n 256); [|discriminate].
    destruct (forallb (fun x => x <? 256) bs) eqn:Eb; [|discriminate]. destruct (Nat.leb 12 (length bs)); [|discriminate].
    cbn [andb] in H. apply some_pair_inv in H; destruct H as [<- <-].
    eexists. split; [reflexivity|]. cbn [ri_type ri_payload]. unfold cast at 1. unfold U8. rewrite N.mod_small by assumption.
    rewrite map_cast_bytes by exact Eb. auto.
  - destruct (N.ltb_spec n (2 ^ 64)); [|discriminate]. destruct (N.ltb_spec n0 (2 ^ 32)); [|discriminate].
    cbn [andb] in H. apply some_pair_inv in H; destruct H as [<- <-].
    eexists. split; [reflexivity|]. cbn [ri_type ri_payload]. split; [reflexivity|]. split; reflexivity.
  - destruct (N.ltb_spec n (2 ^ 32)); [|discriminate]. destruct (N.ltb_spec n0 (2 ^ 64)); [|discriminate].
    cbn [andb] in H. apply some_pair_inv in H; destruct H as [<- <-].
    eexists. split; [reflexivity|]. cbn [ri_type ri_payload]. split; [reflexivity|]. split; [|reflexivity].
    unfold d4, q8. rewrite (le8_small n) by assumption. now rewrite <- !app_assoc.
Qed.

Lemma resource_agrees s r : resource_ref s = Some r ->
  exists rs, resource_of_sx s = Some rs /\ ser_resource rs = r /\ rs_length rs = N.of_nat (length r) /\ N.of_nat (length r) < 65536.
Proof.
  unfold resource_ref. intros H.
  destruct s as [|[|[rtype|] [|[rflags|] [|id [|]]]]]; try discriminate H.
  destruct (resid_ref id) as [[ty rest]|] eqn:Ei; [|discriminate].
  destruct (resid_agrees _ _ _ Ei) as (i & Hi & Hty & Hpl & Hlt).
  destruct (N.ltb_spec rtype 2); [|discriminate]. destruct (N.ltb_spec rflags 65536); [|discriminate].
  destruct (N.ltb_spec (N.of_nat (8 + length rest)) 65536); [|discriminate]. cbn [andb] in H.
  destruct (lay 8 _) as [fx|] eqn:Ef; [|discriminate]. cbn [option_map] in H. inversion H; subst r; clear H.
  apply lay_Some in Ef. subst fx.
  cbn [resource_of_sx]. rewrite Hi. cbn [option_bind]. unfold resource_new, resid_len. rewrite Hpl.
  assert (Hl : 1 * 3 + 2 * 2 + (1 + N.of_nat (length rest)) = N.of_nat (8 + length rest)) by lia.
  rewrite Hl. unfold assert. destruct (N.leb_spec (N.of_nat (8 + length rest)) 65535); [|lia]. cbn [option_bind].
  eexists. split; [reflexivity|].
  assert (Hlen : length (assemble [L 0 1 rtype; L 1 1 0; L 2 2 (N.of_nat (8 + length rest)); L 4 2 rflags; L 6 1 0; L 7 1 ty] ++ rest)
                 = (8 + length rest)%nat) by (rewrite app_length; reflexivity).
  rewrite Hlen. unfold ser_resource. cbn [rs_type rs_length rs_flags rs_id]. rewrite Hty, Hpl.
  unfold cast, U16. rewrite N.mod_small by lia. split; [reflexivity|]. split; [reflexivity|assumption].
Qed.

Definition qos_same (q q' : qosc) : Prop :=
  q_type q' = q_type q /\ q_gas q' = q_gas q /\ q_rcid q' = q_rcid q /\ q_mcid q' = q_mcid q /\ q_flags q' = q_flags q.

Lemma qos_add_all_agrees : forall res rs q,
  Forall2 (fun x r => resource_ref x = Some r) res rs ->
  q_nres q + N.of_nat (length rs) < 65536 -> q_length q + N.of_nat (length (concat rs)) < 65536 ->
  exists q', qos_add_all q res = Some q' /\ qos_same q q' /\
             q_nres q' = q_nres q + N.of_nat (length rs) /\ q_length q' = q_length q + N.of_nat (length (concat rs)) /\
             map ser_resource (rev (q_rres q')) = map ser_resource (rev (q_rres q)) ++ rs.
Proof.
  induction res as [|x res IH]; intros rs q HF Hn Hl; inversion HF as [|? r ? rs' Hr HF']; subst.
  - exists q. cbn [qos_add_all length concat]. rewrite app_nil_r, !N.add_0_r. unfold qos_same. auto 10.
  - destruct (resource_agrees x r Hr) as (rsx & Hx & Hser & Hlen & Hlt).
    cbn [length concat] in Hn, Hl. rewrite app_length in Hl.
    cbn [qos_add_all]. rewrite Hx. cbn [option_bind]. unfold qos_add_resource, add_c, cast, U16.
    change (2 ^ 16) with 65536.
    destruct (N.ltb_spec (q_nres q + 1) 65536); [|lia]. cbn [option_bind].
    rewrite Hlen, (N.mod_small (N.of_nat (length r))) by exact Hlt.
    destruct (N.ltb_spec (q_length q + N.of_nat (length r)) 65536); [|lia]. cbn [option_bind].
    match goal with |- context [qos_add_all ?q1 res] => destruct (IH rs' q1 HF') as (q' & Hq' & Hs & Hn' & Hl' & Hm) end.
    { cbn [q_nres]. lia. } { cbn [q_length]. lia. }
    exists q'. split; [exact Hq'|]. cbn [q_type q_gas q_rcid q_mcid q_flags q_nres q_length q_rres] in *.
    split; [exact Hs|]. split; [rewrite Hn'; cbn [length]; lia|]. split; [rewrite Hl'; cbn [concat]; rewrite app_length; lia|].
    rewrite Hm. cbn [rev]. rewrite map_app. cbn [map]. rewrite Hser, <- app_assoc. reflexivity.
Qed.

(* every controller (with all its resources) is the reference encoding of the caller's values *)
Theorem controller_agrees o r : controller_ref o = Some r ->
  exists q, qos_of_sx o = Some q /\ ser_qos q = r /\ q_length q = N.of_nat (length r).
Proof.
  unfold controller_ref. intros H.
  repeat match type of H with context [match ?x with _ => _ end] => is_var x; destruct x; try discriminate H end.
  match type of H with context [gas_ref ?g] => destruct (gas_ref g) as [gb|] eqn:Eg; [|discriminate] end.
  match type of H with context [opt_seq (map resource_ref ?l)] => destruct (opt_seq (map resource_ref l)) as [rs|] eqn:Ers; [|discriminate] end.
  destruct (gas_agrees _ _ Eg) as (gv & Hg & Hgv & Hgok).
  apply opt_seq_Forall2 in Ers.
  match type of H with context [N.of_nat (28 + ?b) <? 65536] => destruct (N.ltb_spec (N.of_nat (28 + b)) 65536) as [Hlen|]; [|rewrite !andb_false_r in H; try discriminate H] end.
  destruct (N.ltb_spec (N.of_nat (length rs)) 65536) as [Hcnt|]; [|rewrite !andb_false_r in H; discriminate H].
  match type of H with (if ?c then _ else _) = _ => destruct c; [|discriminate H] end.
  destruct (lay 28 _) as [fx|] eqn:Ef; [|discriminate]. cbn [option_map] in H. injection H as <-.
  apply lay_Some in Ef. rewrite !assemble_app, (assemble_LB gb 4 Hgok) in Ef.
  cbn [qos_of_sx]. rewrite Hg. cbn [option_bind].
  match goal with |- context [qos_add_all ?q0 l0] => destruct (qos_add_all_agrees l0 rs q0 Ers) as (q & Hq & Hs & Hn & Hl & Hm) end.
  { cbn [qos_new q_nres]. lia. } { cbn [qos_new q_length]. lia. }
  exists q. split; [exact Hq|].
  destruct Hs as (H1 & H2 & H3 & H4 & H5). cbn [qos_new q_type q_gas q_rcid q_mcid q_flags q_nres q_length q_rres rev map app] in *.
  assert (Hser : ser_qos q = fx ++ concat rs).
  { unfold ser_qos. rewrite H1, H2, H3, H4, H5, Hn, Hl, frev_rev, Hm, Hgv, Ef.
    replace (28 + N.of_nat (length (concat rs))) with (N.of_nat (28 + length (concat rs))) by lia.
    rewrite N.add_0_l. rewrite <- !app_assoc. reflexivity. }
  split; [exact Hser|].
  rewrite Hl, app_length, Ef, !app_length.
  assert (Hgl : length gb = 12%nat).
  { rewrite <- Hgv. destruct (gas_of_sx_shape _ _ Hg) as (a & b & c & d & e & ->). apply length_gas_mk. }
  rewrite Hgl. cbn [assemble map concat fst snd L app length le]. lia.
Qed.

(* ---------- the table: simulation over histories ---------- *)
Lemma rqsc_image_length s : hdr_ok (r_hdr s) = true ->
  length (Rqsc.rqsc_image s) = (40 + length (concat (map ser_qos (rev (r_rcs s)))))%nat.
Proof.
  intros Hh. unfold Rqsc.rqsc_image. rewrite (length_rqsc_bytes _ _ _ _ Hh), length_concat_map_rev. reflexivity.
Qed.

Lemma rqsc_run_sim md : forall ops es s,
  RInv s -> Forall2 (fun o r => controller_ref o = Some r) ops es ->
  N.of_nat (length (Rqsc.rqsc_image s) + length (concat es)) < 2 ^ 32 ->
  exists s', rqsc_run md s ops = Some s' /\ RInv s' /\ r_hdr s' = r_hdr s /\
             map ser_qos (rev (r_rcs s')) = map ser_qos (rev (r_rcs s)) ++ es.
Proof.
  induction ops as [|o ops IH]; intros es s I HF Hfit; inversion HF as [|? r ? es' Hr HF']; subst.
  - exists s. cbn [rqsc_run]. rewrite app_nil_r. auto.
  - destruct (controller_agrees o r Hr) as (q & Hq & Hser & Hql).
    destruct o as [n|l]; [discriminate Hr|].
    pose proof (qos_of_sx_inv _ _ Hq) as Iq.
    cbn [concat] in Hfit. rewrite app_length in Hfit.
    assert (Hadd : exists s1, rqsc_add md s q = Some s1 /\ r_hdr s1 = r_hdr s /\ r_rcs s1 = q :: r_rcs s).
    { unfold rqsc_add, add_m, add_c, cast, U32. rewrite Hql, (ri_len s I).
      rewrite !N.mod_small by lia.
      destruct (N.ltb_spec (N.of_nat (length r) + N.of_nat (length (Rqsc.rqsc_image s))) (2 ^ 32)); [|lia].
      cbn [option_bind]. eexists. split; [reflexivity|]. split; reflexivity. }
    destruct Hadd as (s1 & Hadd & Hh1 & Hr1).
    pose proof (rqsc_add_inv md s q s1 I Iq Hadd) as I1.
    assert (Hm1 : map ser_qos (rev (r_rcs s1)) = map ser_qos (rev (r_rcs s)) ++ [r]).
    { rewrite Hr1. cbn [rev]. rewrite map_app. cbn [map]. now rewrite Hser. }
    destruct (IH es' s1 I1 HF') as (s' & Hrun & I' & Hh' & Hm').
    { rewrite (rqsc_image_length s1 (ri_hdr s1 I1)), Hm1, concat_app, app_length. cbn [concat]. rewrite app_nil_r.
      rewrite (rqsc_image_length s (ri_hdr s I)) in Hfit. lia. }
    exists s'. cbn [rqsc_run]. unfold rqsc_step. rewrite Hq. cbn [option_bind]. rewrite Hadd. cbn [option_bind].
    split; [exact Hrun|]. split; [exact I'|]. split; [congruence|]. rewrite Hm', Hm1, <- app_assoc. reflexivity.
Qed.

Theorem rqsc_refines :
  forall md ctor ops r,
    ts_image rqsc_spec ctor ops = Some r ->
    N.of_nat (length r) < 2 ^ 32 ->
    exists s0 s, rqsc_new ctor = Some s0 /\ rqsc_run md s0 ops = Some s /\ Rqsc.rqsc_image s = r.
Proof.
  intros md ctor ops r H Hfit. cbn [ts_image rqsc_spec] in H. unfold RqscS.rqsc_image in H.
  destruct ctor as [|[|o [|t [|r0 [|]]]]]; try discriminate H.
  destruct (sx_hdr_args o t r0) as [ha|] eqn:Ea; [|discriminate H].
  destruct (rqsc_entries_ref ops) as [es|] eqn:Ee; [|discriminate H].
  destruct (N.of_nat (length es) <? 2 ^ 32); [|discriminate H]. apply some_inv in H. subst r.
  destruct (sx_hdr_of_args [82; 81; 83; 67] 1 o t r0 ha Ea) as (Hh & Ho & Ht).
  set (h := {| h_sig := [82; 81; 83; 67]; h_rev := 1; h_oem := ha_oem ha; h_tbl := ha_tbl ha; h_orev := ha_orev ha |}) in *.
  destruct (rqsc_new (SL [o; t; r0])) as [s0|] eqn:Hnew; [|cbn [rqsc_new] in Hnew; rewrite Hh in Hnew; discriminate Hnew].
  pose proof (rqsc_new_inv _ _ Hnew) as I0.
  assert (Hs0 : r_hdr s0 = h /\ r_rcs s0 = []).
  { cbn [rqsc_new] in Hnew. rewrite Hh in Hnew. cbn [option_bind] in Hnew. injection Hnew as <-. split; reflexivity. }
  destruct Hs0 as [Hh0 Hr0].
  unfold rqsc_entries_ref in Ee. apply opt_seq_Forall2 in Ee.
  rewrite length_ref_table in Hfit by (first [reflexivity | assumption]). rewrite app_length, length_le in Hfit.
  destruct (rqsc_run_sim md ops es s0 I0 Ee) as (s & Hrun & I & Hhs & Hm).
  { rewrite (rqsc_image_length s0 (ri_hdr s0 I0)), Hr0. cbn [rev map concat length]. lia. }
  exists s0, s. split; [reflexivity|]. split; [exact Hrun|].
  rewrite Hr0 in Hm. cbn [rev map app] in Hm.
  assert (Hlen : length (Rqsc.rqsc_image s) = (40 + length (concat es))%nat).
  { rewrite (rqsc_image_length s (ri_hdr s I)), Hm. reflexivity. }
  pose proof (rinv_sum8 s I) as Hsum. pose proof (ri_len s I) as Hl.
  rewrite Hlen, N.mod_small in Hl by lia.
  unfold Rqsc.rqsc_image, rqsc_bytes in *. rewrite frev_rev, Hm in *.
  assert (Hcnt : length (r_rcs s) = length es).
  { rewrite <- (rev_length (r_rcs s)), <- (map_length ser_qos), Hm. reflexivity. }
  rewrite Hcnt in *.
  rewrite (hdr_image_is_ref_table (r_hdr s) (r_len s) (r_hck s) (d4 (N.of_nat (length es)) ++ concat es)).
  - rewrite Hhs, Hh0. destruct ha; reflexivity.
  - rewrite Hl, app_length. unfold d4. rewrite length_le. lia.
  - exact Hsum.
Qed.

(* the statement exercised on concrete histories (both sides computed) *)
Definition rqsc_both (md : mode) (ctor : sx) (ops : list sx) : option (list N * list N) :=
  match ts_image rqsc_spec ctor ops, rqsc_new ctor with
  | Some r, Some s0 => match rqsc_run md s0 ops with Some s => Some (r, Rqsc.rqsc_image s) | None => None end
  | _, _ => None
  end.
Definition rqsc_demo_ctor : sx := SL [SL (map SA [1; 2; 3; 4; 5; 6]); SL (map SA [1; 2; 3; 4; 5; 6; 7; 8]); SA 77].
Definition rqsc_demo_ops : list sx :=
  [SL [SA 1; SA 0; SL [SA 0; SA 0; SA 64; SA 0; SA 4; SA 0x80001000]; SA 16; SA 32; SA 3;
       SL [SL [SA 0; SA 1; SL [SA 0; SA 7]]; SL [SA 1; SA 2; SL [SA 1; SA 3; SA 0x1122334455667788]];
           SL [SA 0; SA 0; SL [SA 4; SA 200; SL (map SA [1; 2; 3; 4; 5; 6; 7; 8; 9; 10; 11; 12; 13])]]]];
   SL [SA 1; SA 1; SL [SA 1; SA 32; SA 3; SA 5; SA 6; SA 0x40]; SA 0xFFFFFFFF; SA 0; SA 65535;
       SL [SL [SA 1; SA 65535; SL [SA 2; SA 0xAABBCCDDEEFF0011; SA 9]]; SL [SA 0; SA 0; SL [SA 3; SA 0x1234]]]];
   SL [SA 1; SA 0; SL [SA 2]; SA 0; SA 0; SA 0; SL []]].
Example rqsc_refines_demo :
  match rqsc_both Checked rqsc_demo_ctor rqsc_demo_ops, rqsc_both Wrapping rqsc_demo_ctor [] with
  | Some (a, b), Some (c, d) => list_N_eqb a b && list_N_eqb c d && Nat.ltb 40 (length a)
  | _, _ => false
  end = true.
Proof. vm_compute. reflexivity. Qed.

Print Assumptions rqsc_refines.
