(* BERT (component 27): the Impl model refines the Spec.  The only public operation is the constructor; the Spec's domain is
   the empty history.  For every constructor argument (any region length / base, truncated to u32 / u64 on both sides) the
   emitted image is the reference image. *)
From Coq Require Import NArith ZArith List Lia Bool Arith.
From ACPI Require Import Lib.Bytes Lib.Sx Lib.Machine Impl.Checksum Impl.Table Impl.Fields Impl.Run Impl.Madt Impl.Bert
  Spec.Layout Spec.FixedS Spec.BertS Proofs.ChecksumP Proofs.TableP Proofs.MadtP Proofs.FixedP Proofs.BertP Proofs.RefFixedCommonP.
Import ListNotations.
Open Scope N_scope.

(* per-entry content: the two fields after the header, for all argument values *)
Lemma bert_entries_are_reference rlen rbase :
  lay_at 36 12 [L 36 4 rlen; L 40 8 rbase] = Some (d4 rlen ++ q8 rbase).
Proof.
  change (lay_at 36 12 [L 36 4 rlen; L 40 8 rbase]) with (Some (assemble [L 36 4 rlen; L 40 8 rbase])).
  unfold assemble. cbn [map concat fst snd]. rewrite app_nil_r. reflexivity.
Qed.

Lemma bert_new_shape o t r0 rlen rbase ha : sx_hdr_args o t r0 = Some ha ->
  exists c, bert_new (SL [o; t; r0; SA rlen; SA rbase]) =
            Some {| be_hdr := hdr_of [66; 69; 82; 84] 1 ha; be_len := 48; be_cks := c; be_rlen := rlen; be_rbase := rbase |}.
Proof.
  intros Eh. unfold bert_new. rewrite (sx_hdr_of_args' _ _ _ _ _ _ Eh). cbn [option_bind]. eexists. reflexivity.
Qed.

Theorem bert_refines :
  forall md ctor ops r,
    ts_image bert_spec ctor ops = Some r ->
    exists s0 s, bert_new ctor = Some s0 /\
                 run_steps (bert_step md) s0 ops = Some s /\
                 bert_bytes s = r.
Proof.
  intros md ctor ops r H. cbn [ts_image bert_spec fixed_spec] in H.
  apply ctor_only_some in H. destruct H as [-> H]. unfold bert_ref in H.
  destruct ctor as [|l]; [discriminate|].
  destruct l as [|o [|t [|r0 [|[rlen|] [|[rbase|] [|]]]]]]; try discriminate.
  destruct (sx_hdr_args o t r0) as [ha|] eqn:Eh; [|discriminate].
  rewrite bert_entries_are_reference in H. inversion H; subst r; clear H.
  destruct (bert_new_shape o t r0 rlen rbase ha Eh) as [c Hn].
  eexists. eexists. split; [exact Hn|]. split; [reflexivity|].
  destruct (bert_new_good _ _ Hn) as [Hs _].
  change (bert_bytes _) with (hdr_bytes (hdr_of [66; 69; 82; 84] 1 ha) 48 c ++ (d4 rlen ++ q8 rbase)) in *.
  assert (Hl : 48 = 36 + N.of_nat (length (d4 rlen ++ q8 rbase)))
    by (unfold d4, q8; rewrite app_length, !length_le; reflexivity).
  exact (hdr_of_image_is_ref _ _ _ _ _ _ Hl Hs).
Qed.

Print Assumptions bert_refines.
