(* Lemmas shared by the refinement theorems (Impl model image = Spec reference image) of PPTT, HMAT and SLIT:
   - an image whose header fields, Length field, body and zero byte-sum agree with [ref_table] IS [ref_table];
   - the two decoders of the constructor arguments agree;
   - for the addition tables without count field: an addition whose size fits is accepted, with the new state explicit;
   - lists indexed row-major are the [flat_map] the specifications write. *)
From Coq Require Import NArith ZArith List Lia Bool Arith.
From ACPI Require Import Lib.Bytes Lib.Sx Lib.Machine Impl.Checksum Impl.Table Impl.Fields Impl.Run Impl.Madt
  Spec.Layout Spec.MadtS Spec.HmatS Proofs.ChecksumP Proofs.TableP Proofs.MadtP Proofs.FixedP.
Import ListNotations.

Ltac Zify.zify_post_hook ::= Z.to_euclidean_division_equations.

Open Scope N_scope.

Lemma rc_Some_inj {A} (x y : A) : Some x = Some y -> x = y.
Proof. congruence. Qed.

(* equalities between nested ors, bit by bit *)
Ltac lor_ac := apply N.bits_inj; intros ?n; rewrite ?N.lor_spec, ?N.bits_0;
  repeat match goal with |- context [N.testbit ?a ?n] => destruct (N.testbit a n) end; reflexivity.

(* ---------- the header ---------- *)
Lemma hdr_bytes_ref_header h len cks :
  hdr_bytes h len cks = ref_header (h_sig h) len (h_rev h) cks (h_oem h) (h_tbl h) (h_orev h).
Proof. reflexivity. Qed.

Lemma sumN_ref_header sig len rev cks oem tbl orev :
  sumN (ref_header sig len rev cks oem tbl orev) = sumN (ref_header sig len rev 0 oem tbl orev) + cks mod 256.
Proof.
  unfold ref_header. rewrite !sumN_app. cbn [sumN]. change (0 mod 256) with 0. lia.
Qed.

(* the checksum byte is determined by the other bytes and the zero sum *)
Theorem image_is_ref_table h len cks rest sig rev ha :
  h_sig h = sig -> h_rev h = rev -> h_oem h = ha_oem ha -> h_tbl h = ha_tbl ha -> h_orev h = ha_orev ha ->
  len = 36 + N.of_nat (length rest) ->
  sum8 (hdr_bytes h len cks ++ rest) = 0 ->
  hdr_bytes h len cks ++ rest = ref_table sig rev ha rest.
Proof.
  intros Hs Hr Ho Ht Hv Hl Hsum.
  rewrite hdr_bytes_ref_header in *. rewrite Hs, Hr, Ho, Ht, Hv in *. unfold ref_table. rewrite <- Hl.
  f_equal.
  unfold sum8 in Hsum. rewrite sumN_app, sumN_ref_header in Hsum.
  set (A := sumN (ref_header sig len rev 0 (ha_oem ha) (ha_tbl ha) (ha_orev ha))) in *.
  set (B := sumN rest) in *.
  assert (E : cks mod 256 = ((256 - (A + B) mod 256) mod 256) mod 256).
  { clearbody A B. clear - Hsum. lia. }
  unfold ref_header. rewrite E. reflexivity.
Qed.

(* the Impl decoder of (oem6 tbl8 orev) accepts what the Spec decoder accepts, with the same values *)
Lemma sx_hdr_of_args sig rev o t r ha : sx_hdr_args o t r = Some ha ->
  exists h, sx_hdr sig rev o t r = Some h /\
    h_sig h = sig /\ h_rev h = rev /\ h_oem h = ha_oem ha /\ h_tbl h = ha_tbl ha /\ h_orev h = ha_orev ha.
Proof.
  unfold sx_hdr_args, sx_hdr, sx_arr.
  destruct (sx_bytes o) as [a|]; [|discriminate]. destruct (sx_bytes t) as [b|]; [|discriminate].
  destruct (sx_num r) as [c|]; [|discriminate].
  destruct (Nat.eqb (length a) 6); [|discriminate]. destruct (Nat.eqb (length b) 8); [|discriminate].
  cbn [andb option_bind]. intros H. apply rc_Some_inj in H. subst ha.
  eexists. split; [reflexivity|]. cbn. repeat split.
Qed.

Lemma sx_hdr_args_lengths o t r ha : sx_hdr_args o t r = Some ha -> length (ha_oem ha) = 6%nat /\ length (ha_tbl ha) = 8%nat.
Proof.
  unfold sx_hdr_args.
  destruct (sx_bytes o) as [a|]; [|discriminate]. destruct (sx_bytes t) as [b|]; [|discriminate].
  destruct (sx_num r) as [c|]; [|discriminate].
  destruct (Nat.eqb_spec (length a) 6); [|discriminate]. destruct (Nat.eqb_spec (length b) 8); [|discriminate].
  cbn [andb]. intros H. apply rc_Some_inj in H. subst ha. cbn. split; assumption.
Qed.

Lemma ref_table_length sig rev o t r ha rest : sx_hdr_args o t r = Some ha -> length sig = 4%nat ->
  length (ref_table sig rev ha rest) = (36 + length rest)%nat.
Proof.
  intros H Hs. destruct (sx_hdr_args_lengths o t r ha H) as [Ho Ht].
  unfold ref_table, ref_header, CREATOR. rewrite !app_length, !length_le, Hs, Ho, Ht. cbn [length]. lia.
Qed.

(* ---------- addition tables: the image of a state satisfying the invariant is a reference table ---------- *)
Lemma inv_image_ref s sig rev ha : Inv s ->
  h_sig (t_hdr s) = sig -> h_rev (t_hdr s) = rev -> h_oem (t_hdr s) = ha_oem ha -> h_tbl (t_hdr s) = ha_tbl ha ->
  h_orev (t_hdr s) = ha_orev ha ->
  tbl_image s = ref_table sig rev ha (mid (t_kind s) (t_pre s) (t_cnt s) ++ concat (t_ents s)).
Proof.
  intros I Hs Hr Ho Ht Hv. pose proof (inv_sum8_zero s I) as Hsum. pose proof (inv_len s I) as Hl.
  unfold tbl_image in *. unfold t_body in *.
  apply image_is_ref_table; try assumption.
  rewrite Hl. rewrite app_length, (length_hdr_bytes _ _ _ (inv_hdr s I)). lia.
Qed.

(* ---------- addition tables without count field: an addition that fits is accepted ---------- *)
Lemma tbl_add_accepts md s st claimed bytes :
  Inv s -> needs_pos (t_kind s) = false -> claimed = N.of_nat (length bytes) ->
  N.of_nat (length (tbl_image s)) + claimed < 2 ^ 32 ->
  exists s', tbl_add md s st claimed bytes = Some (s', N.of_nat (length (tbl_image s))) /\
    t_rents s' = bytes :: t_rents s /\ t_rhandles s' = N.of_nat (length (tbl_image s)) :: t_rhandles s.
Proof.
  intros I Hk Hcl Hfit. unfold tbl_add.
  assert (Hcast : cast U32 claimed = claimed) by (unfold cast, U32; apply N.mod_small; lia).
  rewrite Hcast.
  assert (Hnl : add_c U32 claimed (t_len s) = Some (claimed + t_len s)).
  { unfold add_m, add_c, U32. rewrite (inv_len s I).
    destruct (N.ltb_spec (claimed + N.of_nat (length (tbl_image s))) (2 ^ 32)); [reflexivity|lia]. }
  rewrite Hnl. cbn [option_bind].
  assert (Hho : add_m md U32 (t_hoff s) claimed = Some (t_hoff s + claimed)).
  { unfold add_m, add_c, U32. rewrite (inv_hoff s I).
    destruct (N.ltb_spec (N.of_nat (length (tbl_image s)) + claimed) (2 ^ 32)); [reflexivity|lia]. }
  rewrite <- (inv_hoff s I).
  destruct (t_kind s); try discriminate Hk; cbn [option_bind]; rewrite ?Hho; cbn [option_bind];
    (eexists; split; [reflexivity|split; reflexivity]).
Qed.

Section Accept.
  Variable K : tkind.
  Variable entry : tbl -> sx -> option addition.
  Hypothesis entry_sound : forall s o e, t_kind s = K -> entry s o = Some e ->
    a_claimed e = N.of_nat (length (a_bytes e)) /\
    (needs_pos (t_kind s) = true -> (1 <= length (a_bytes e))%nat /\ a_claimed e < 2 ^ 16).
  Hypothesis K_simple : needs_pos K = false.

  Lemma add_step_accepts md s l e :
    Inv2 K s -> entry s (SL l) = Some e ->
    N.of_nat (length (tbl_image s)) + N.of_nat (length (a_bytes e)) < 2 ^ 32 ->
    exists s' evs, add_step entry md s (SL l) = Some (s', evs) /\ Inv2 K s' /\
      t_rents s' = a_bytes e :: t_rents s /\
      t_rhandles s' = N.of_nat (length (tbl_image s)) :: t_rhandles s /\
      t_hdr s' = t_hdr s /\ t_pre s' = t_pre s /\
      length (tbl_image s') = (length (tbl_image s) + length (a_bytes e))%nat.
  Proof.
    intros I2 He Hfit. pose proof I2 as (I & HK & Hne).
    destruct (entry_sound s (SL l) e HK He) as [Hcl _].
    destruct (tbl_add_accepts md s (a_style e) (a_claimed e) (a_bytes e) I) as (s1 & E1 & Hre & Hrh).
    { rewrite HK. exact K_simple. }
    { exact Hcl. }
    { rewrite Hcl. exact Hfit. }
    assert (Estep : add_step entry md s (SL l) =
                    Some (set_flag s1 (a_flag e), [EvNum (if a_returns e then N.of_nat (length (tbl_image s)) else 0)])).
    { unfold add_step. rewrite He. cbn [option_bind]. rewrite E1. cbn [option_bind fst snd]. reflexivity. }
    assert (Hlen : length (tbl_image (set_flag s1 (a_flag e))) = (length (tbl_image s) + length (a_bytes e))%nat).
    { change (tbl_image (set_flag s1 (a_flag e))) with (tbl_image s1).
      destruct (tbl_add_inv md s (a_style e) (a_claimed e) (a_bytes e) s1 _ I E1 Hcl) as (I1 & _ & He1 & Hk1 & Hh1 & Hp1 & _).
      - rewrite Hcl. exact Hfit.
      - unfold kind_fits. rewrite HK. destruct K; try exact Logic.I; discriminate K_simple.
      - rewrite !length_image by (rewrite ?Hh1; exact (inv_hdr s I)). rewrite Hk1, Hp1. unfold t_body. rewrite He1.
        rewrite concat_app, app_length. cbn [concat]. rewrite app_nil_r. lia. }
    exists (set_flag s1 (a_flag e)), [EvNum (if a_returns e then N.of_nat (length (tbl_image s)) else 0)].
    split; [exact Estep|].
    destruct (add_step_inv K entry entry_sound md s (SL l) _ _ I2 Estep) as (I2' & _ & _ & Hhd & Hpre).
    { rewrite Hlen. lia. }
    split; [exact I2'|]. split; [exact Hre|]. split; [exact Hrh|]. split; [exact Hhd|]. split; [exact Hpre|exact Hlen].
  Qed.
End Accept.

(* ---------- from the fold to the entry point t_case: the events of a history observed once at its end ---------- *)
Definition is_num (e : ev) : Prop := exists n, e = EvNum n.
Definition all_lists (ops : list sx) : Prop := Forall (fun o => exists l, o = SL l) ops.

Section CaseEvents.
  Context {S : Type}.
  Variable image : S -> option (list N).
  Variable step : S -> sx -> option (S * list ev).
  Hypothesis step_nums : forall s o s1 e, step s o = Some (s1, e) -> Forall is_num e.

  Lemma run_ops_acc_end ops : forall s acc s' r,
    all_lists ops -> run_steps step s ops = Some s' -> image s' = Some r ->
    exists evs, Forall is_num evs /\ run_ops_acc image step s (ops ++ [SA 1]) acc = rev acc ++ evs ++ [EvBytes r].
  Proof.
    induction ops as [|o ops IH]; intros s acc s' r Hl Hr Hi.
    - cbn [run_steps] in Hr. apply rc_Some_inj in Hr. subst s'.
      exists []. split; [constructor|]. cbn [app run_ops_acc]. rewrite Hi. rewrite frev_rev. reflexivity.
    - inversion Hl as [|x y [l ->] Hl']; subst. cbn [run_steps] in Hr.
      destruct (step s (SL l)) as [[s1 e]|] eqn:E; [|discriminate].
      destruct (IH s1 (rev_append e acc) s' r Hl' Hr Hi) as (evs & Hn & Hrun).
      exists (e ++ evs). split; [apply Forall_app; split; [exact (step_nums _ _ _ _ E)|exact Hn]|].
      cbn [app run_ops_acc]. rewrite E, Hrun. rewrite rev_append_rev, rev_app_distr, rev_involutive, <- !app_assoc. reflexivity.
  Qed.

  Lemma run_history_end new ctor ops s0 s r :
    all_lists ops -> new ctor = Some s0 -> run_steps step s0 ops = Some s -> image s = Some r ->
    exists evs, Forall is_num evs /\ run_history image step new (SL (ctor :: ops ++ [SA 1])) = evs ++ [EvBytes r].
  Proof.
    intros Hl Hn Hr Hi. cbn [run_history]. rewrite Hn. unfold run_ops.
    destruct (run_ops_acc_end ops s0 [] s r Hl Hr Hi) as (evs & Hnum & E). exists evs. split; [exact Hnum|exact E].
  Qed.
End CaseEvents.

Lemma run_adds_run_steps entry md ops : forall s, run_adds entry md s ops = run_steps (add_step entry md) s ops.
Proof.
  induction ops as [|o ops IH]; intros s; [reflexivity|]. cbn [run_adds run_steps].
  destruct o as [n|l]; [apply IH|]. destruct (add_step entry md s (SL l)) as [[s1 e]|]; [apply IH|reflexivity].
Qed.

Lemma add_step_nums entry md s o s1 e : add_step entry md s o = Some (s1, e) -> Forall is_num e.
Proof.
  unfold add_step. destruct (entry s o) as [a|]; [|discriminate]. cbn [option_bind].
  destruct (tbl_add md s (a_style a) (a_claimed a) (a_bytes a)) as [r|]; [|discriminate]. cbn [option_bind].
  intros H. apply rc_Some_inj in H. inversion H; subst. constructor; [eexists; reflexivity|constructor].
Qed.

(* an addition table observed once, after the whole history *)
Lemma addtable_case_end entry md new ctor ops s0 s :
  all_lists ops -> new ctor = Some s0 -> run_adds entry md s0 ops = Some s ->
  exists evs, Forall is_num evs /\
    run_history (fun s => Some (tbl_image s)) (add_step entry md) new (SL (ctor :: ops ++ [SA 1])) = evs ++ [EvBytes (tbl_image s)].
Proof.
  intros Hl Hn Hr. rewrite run_adds_run_steps in Hr.
  eapply run_history_end; eauto. intros. eapply add_step_nums; eauto.
Qed.

(* ---------- lists ---------- *)
Lemma nth_ext_N (l1 l2 : list N) : length l1 = length l2 ->
  (forall k, (k < length l1)%nat -> nth k l1 0 = nth k l2 0) -> l1 = l2.
Proof.
  revert l2; induction l1 as [|x l1 IH]; intros [|y l2] Hl H; cbn [length] in *; try lia; [reflexivity|].
  f_equal.
  - apply (H 0%nat). lia.
  - apply IH; [lia|]. intros k Hk. apply (H (S k)). lia.
Qed.

Lemma seqN_length n : length (seqN n) = N.to_nat n.
Proof. unfold seqN. rewrite map_length, seq_length. reflexivity. Qed.

Lemma nth_seqN_map {B} (f : N -> B) n k d : (k < N.to_nat n)%nat -> nth k (map f (seqN n)) d = f (N.of_nat k).
Proof.
  intros H. unfold seqN. rewrite map_map.
  rewrite (nth_indep _ d (f (N.of_nat 0))) by (rewrite map_length, seq_length; exact H).
  rewrite (map_nth (fun x => f (N.of_nat x)) (seq 0 (N.to_nat n)) 0%nat k).
  rewrite seq_nth by exact H. reflexivity.
Qed.

(* a list described index by index is the [map] the specification writes *)
Lemma list_is_map (f : N -> N) n (l : list N) : length l = N.to_nat n ->
  (forall i, i < n -> nth (N.to_nat i) l 0 = f i) -> l = map f (seqN n).
Proof.
  intros Hl H. apply nth_ext_N.
  - rewrite map_length, seqN_length. exact Hl.
  - intros k Hk. rewrite nth_seqN_map by lia. rewrite <- (H (N.of_nat k)) by lia. rewrite Nat2N.id. reflexivity.
Qed.

(* row-major matrices *)
Lemma flat_map_rows_length {B} (g : nat -> list B) T rows :
  (forall r, length (g r) = T) -> length (flat_map g rows) = (length rows * T)%nat.
Proof.
  intros Hg. induction rows as [|r rows IH]; cbn [flat_map length]; [reflexivity|].
  rewrite app_length, Hg, IH. lia.
Qed.

Lemma nth_flat_map_rows (g : nat -> list N) T : (forall r, length (g r) = T) ->
  forall n a i j, (i < n)%nat -> (j < T)%nat ->
  nth (i * T + j) (flat_map g (seq a n)) 0 = nth j (g (a + i)%nat) 0.
Proof.
  intros Hg. induction n as [|n IH]; intros a i j Hi Hj; [lia|].
  cbn [seq flat_map]. destruct i as [|i].
  - cbn [Nat.mul Nat.add]. rewrite app_nth1 by (rewrite Hg; exact Hj). rewrite Nat.add_0_r. reflexivity.
  - rewrite app_nth2 by (rewrite Hg; lia). rewrite Hg.
    replace (S i * T + j - T)%nat with (i * T + j)%nat by lia.
    rewrite IH by lia. f_equal. f_equal. lia.
Qed.

(* a list of I * T values described cell by cell, cell (i, j) at index i * T + j, is the matrix the specification writes *)
Lemma list_is_matrix (c : N -> N -> N) nI nT (l : list N) : N.of_nat (length l) = nI * nT ->
  (forall i j, i < nI -> j < nT -> nth (N.to_nat (i * nT + j)) l 0 = c i j) ->
  l = flat_map (fun i => map (fun j => c i j) (seqN nT)) (seqN nI).
Proof.
  intros Hl H.
  set (g := fun r : nat => map (fun j => c (N.of_nat r) j) (seqN nT)).
  assert (Hg : forall r, length (g r) = N.to_nat nT) by (intros r; unfold g; rewrite map_length, seqN_length; reflexivity).
  assert (Efm : flat_map (fun i => map (fun j => c i j) (seqN nT)) (seqN nI) = flat_map g (seq 0 (N.to_nat nI))).
  { unfold seqN at 2. rewrite flat_map_concat_map, map_map, <- flat_map_concat_map. reflexivity. }
  rewrite Efm. apply nth_ext_N.
  - rewrite (flat_map_rows_length g (N.to_nat nT)) by exact Hg. rewrite seq_length. lia.
  - intros k Hk.
    assert (HT : nT <> 0) by (intros ->; lia).
    set (i := (k / N.to_nat nT)%nat). set (j := (k mod N.to_nat nT)%nat).
    assert (HTn : N.to_nat nT <> 0%nat) by lia.
    assert (Hk2 : k = (i * N.to_nat nT + j)%nat).
    { unfold i, j. rewrite Nat.mul_comm. apply Nat.div_mod. exact HTn. }
    assert (Hj : (j < N.to_nat nT)%nat) by (unfold j; apply Nat.mod_upper_bound; exact HTn).
    assert (Hi : (i < N.to_nat nI)%nat).
    { assert (Hk3 : (k < N.to_nat nI * N.to_nat nT)%nat) by lia.
      unfold i. apply Nat.div_lt_upper_bound; [exact HTn|]. lia. }
    rewrite Hk2 at 2. rewrite (nth_flat_map_rows g (N.to_nat nT) Hg) by assumption.
    cbn [Nat.add]. unfold g. rewrite nth_seqN_map by exact Hj.
    rewrite <- (H (N.of_nat i) (N.of_nat j)) by lia. f_equal. lia.
Qed.
