(* C13 at the level of whole histories: after ANY sequence of operations the generic table of the implementation model is
   the Spec's plain byte vector subjected to the same appends and writes (Length rewritten on every append, checksum
   recomputed after every operation, refused writes leaving the table unchanged), in both build profiles.
   Built on the per-operation lemmas of Proofs/SdtP.v (op_append ... op_update_checksum); nothing is reproved here. *)
From Coq Require Import NArith ZArith List Lia Bool Arith.
From ACPI Require Import Lib.Bytes Lib.Sx Lib.Machine Impl.Checksum Impl.Table Impl.Fields Impl.Run Impl.Sdt
  Spec.Layout Spec.SdtS Proofs.ChecksumP Proofs.SdtP Proofs.Sink2P.
Import ListNotations.
Open Scope N_scope.

(* ================= 1. the vocabulary ================= *)

(* an operation of the exchange vocabulary (Impl/Sdt.v) with parameters in the range of its Rust types:
   widths 1/2/4/8, usize offsets, slices below 2^62 bytes, bytes pushed through the sink are bytes.
   These are exactly the hypotheses of the seven op_* lemmas of Proofs/SdtP.v. *)
Inductive sdt_op_ok : sx -> Prop :=
| ok_append w k x : spec_width w = Some k -> sdt_op_ok (SL [SA 1; SA w; SA x])
| ok_append_slice b bytes : sx_bytes b = Some bytes -> N.of_nat (length bytes) < 2 ^ 62 -> sdt_op_ok (SL [SA 2; b])
| ok_write_bytes off b bytes : off < 2 ^ 64 -> sx_bytes b = Some bytes -> N.of_nat (length bytes) < 2 ^ 62 ->
    sdt_op_ok (SL [SA 3; SA off; b])
| ok_write_int w k off x : off < 2 ^ 64 -> spec_width w = Some k -> sdt_op_ok (SL [SA 4; SA w; SA off; SA x])
| ok_sink_int w k x : spec_width w = Some k -> sdt_op_ok (SL [SA 5; SA w; SA x])
| ok_sink_vec b bytes : sx_bytes b = Some bytes -> bytes_ok bytes = true -> N.of_nat (length bytes) < 2 ^ 62 ->
    sdt_op_ok (SL [SA 6; b])
| ok_update_checksum : sdt_op_ok (SL [SA 7]).

(* the same, as a decision procedure *)
Definition width_okb (w : N) : bool := match spec_width w with Some _ => true | None => false end.
Definition slice_okb (b : sx) : bool :=
  match sx_bytes b with Some bytes => N.of_nat (length bytes) <? 2 ^ 62 | None => false end.
Definition sdt_op_okb (o : sx) : bool :=
  match o with
  | SL [SA 1; SA w; SA _] | SL [SA 5; SA w; SA _] => width_okb w
  | SL [SA 2; b] => slice_okb b
  | SL [SA 3; SA off; b] => (off <? 2 ^ 64) && slice_okb b
  | SL [SA 4; SA w; SA off; SA _] => (off <? 2 ^ 64) && width_okb w
  | SL [SA 6; b] => slice_okb b && match sx_bytes b with Some bytes => bytes_ok bytes | None => false end
  | SL [SA 7] => true
  | _ => false
  end.

Lemma width_okb_spec w : width_okb w = true -> exists k, spec_width w = Some k.
Proof. unfold width_okb. destruct (spec_width w) as [k|]; [intros _; now exists k|discriminate]. Qed.

Lemma slice_okb_spec b : slice_okb b = true -> exists bytes, sx_bytes b = Some bytes /\ N.of_nat (length bytes) < 2 ^ 62.
Proof.
  unfold slice_okb. destruct (sx_bytes b) as [bytes|]; [|discriminate]. intros H. apply N.ltb_lt in H. now exists bytes.
Qed.

Lemma sdt_op_okb_sound o : sdt_op_okb o = true -> sdt_op_ok o.
Proof.
  intros H. unfold sdt_op_okb in H.
  repeat match type of H with
         | context [match ?x with _ => _ end] => is_var x; destruct x; try discriminate H
         end.
  all: first
    [ apply ok_update_checksum
    | destruct (width_okb_spec _ H) as [k Hk]; first [now apply (ok_append _ k)|now apply (ok_sink_int _ k)]
    | destruct (slice_okb_spec _ H) as (bytes & Hb & Hl); now apply (ok_append_slice _ bytes)
    | apply andb_true_iff in H; destruct H as [Ho H]; apply N.ltb_lt in Ho;
      destruct (slice_okb_spec _ H) as (bytes & Hb & Hl); now apply (ok_write_bytes _ _ bytes)
    | apply andb_true_iff in H; destruct H as [Ho H]; apply N.ltb_lt in Ho;
      destruct (width_okb_spec _ H) as [k Hk]; now apply (ok_write_int _ k)
    | apply andb_true_iff in H; destruct H as [H Hok];
      destruct (slice_okb_spec _ H) as (bytes & Hb & Hl); rewrite Hb in Hok; now apply (ok_sink_vec _ bytes) ].
Qed.

Lemma sdt_ops_okb_sound ops : forallb sdt_op_okb ops = true -> Forall sdt_op_ok ops.
Proof.
  induction ops as [|o r IH]; intros H; [constructor|]. cbn [forallb] in H. apply andb_true_iff in H.
  destruct H as [Ho Hr]. constructor; [now apply sdt_op_okb_sound|now apply IH].
Qed.

(* the number of bytes an operation adds to the table when it is performed *)
Definition op_growth (o : sx) : N :=
  match o with
  | SL [SA 1; SA w; SA _] | SL [SA 5; SA w; SA _] => match spec_width w with Some k => N.of_nat k | None => 0 end
  | SL [SA 2; b] | SL [SA 6; b] => match sx_bytes b with Some bytes => N.of_nat (length bytes) | None => 0 end
  | _ => 0
  end.

Fixpoint ops_growth (ops : list sx) : N :=
  match ops with [] => 0 | o :: r => op_growth o + ops_growth r end.

Lemma ops_growth_app a b : ops_growth (a ++ b) = ops_growth a + ops_growth b.
Proof. induction a as [|o a IH]; cbn [app ops_growth]; [reflexivity|]. rewrite IH. lia. Qed.

(* the table after one step of the implementation model / of the Spec (a refused operation keeps the table) *)
Definition sdt_next (md : mode) (v : list N) (o : sx) : option (list N) := option_map fst (sdt_step md v o).

Definition spec_next (v : list N) (o : sx) : option (list N) :=
  match sdt_spec_op v o with Some (Some v') => Some v' | Some None => Some v | None => None end.

(* the table after a history, by the model's own step function [sdt_step] *)
Fixpoint sdt_model_run (md : mode) (v : list N) (ops : list sx) : option (list N) :=
  match ops with
  | [] => Some v
  | o :: r => match sdt_step md v o with Some (v', _) => sdt_model_run md v' r | None => None end
  end.

Lemma sdt_model_run_cons md v o r :
  sdt_model_run md v (o :: r) = match sdt_next md v o with Some v' => sdt_model_run md v' r | None => None end.
Proof. cbn [sdt_model_run]. unfold sdt_next. destruct (sdt_step md v o) as [[v' e]|]; reflexivity. Qed.

Lemma sdt_spec_run_cons v o r :
  sdt_spec_run v (o :: r) = match spec_next v o with Some v' => sdt_spec_run v' r | None => None end.
Proof. cbn [sdt_spec_run]. unfold spec_next. destruct (sdt_spec_op v o) as [[v'|]|]; reflexivity. Qed.

Lemma sdt_model_run_app md a : forall v b,
  sdt_model_run md v (a ++ b) = match sdt_model_run md v a with Some v' => sdt_model_run md v' b | None => None end.
Proof.
  induction a as [|o a IH]; intros v b; [reflexivity|]. cbn [app]. rewrite !sdt_model_run_cons.
  destruct (sdt_next md v o); [apply IH|reflexivity].
Qed.

Lemma sdt_spec_run_app a : forall v b,
  sdt_spec_run v (a ++ b) = match sdt_spec_run v a with Some v' => sdt_spec_run v' b | None => None end.
Proof.
  induction a as [|o a IH]; intros v b; [reflexivity|]. cbn [app]. rewrite !sdt_spec_run_cons.
  destruct (spec_next v o); [apply IH|reflexivity].
Qed.

(* ================= 2. one operation ================= *)

(* the seven per-operation refinement lemmas, dispatched on the vocabulary *)
Lemma op_refines md v o : sdt_wf v -> sdt_op_ok o -> sdt_op md v o = sdt_spec_op v o.
Proof.
  intros Hwf Hok. destruct Hok.
  - eapply op_append; eauto.
  - eapply op_append_slice; eauto.
  - eapply op_write_bytes; eauto.
  - eapply op_write_int; eauto.
  - eapply op_sink_int; eauto.
  - eapply op_sink_vec; eauto.
  - now apply op_update_checksum.
Qed.

Lemma next_refines md v o : sdt_wf v -> sdt_op_ok o -> sdt_next md v o = spec_next v o.
Proof.
  intros Hwf Hok. unfold sdt_next, spec_next, sdt_step. rewrite (op_refines md v o Hwf Hok).
  destruct (sdt_spec_op v o) as [[v'|]|]; reflexivity.
Qed.

(* what the Spec's operations are, shape by shape *)
Definition spec_appended (v bs : list N) : list N := with_checksum (with_length (v ++ bs)).

Lemma spec_appended_sappend v bs : (36 <= length v)%nat -> spec_appended v bs = sappend v bs.
Proof. intros H. unfold spec_appended. symmetry. now apply sappend_spec. Qed.

Definition spec_written (v : list N) (off : N) (bs : list N) : option (option (list N)) :=
  if off + N.of_nat (length bs) <=? N.of_nat (length v)
  then Some (option_map with_checksum (vec_write v (N.to_nat off) bs)) else Some None.

(* an in-range write: the bytes are replaced in place, then byte 9 is recomputed *)
Lemma spec_written_in v off bs : off + N.of_nat (length bs) <= N.of_nat (length v) ->
  spec_written v off bs = Some (Some (with_checksum (write_at v (N.to_nat off) bs))).
Proof.
  intros H. unfold spec_written, vec_write. destruct (N.leb_spec (off + N.of_nat (length bs)) (N.of_nat (length v))); [|lia].
  destruct (Nat.leb_spec (N.to_nat off + length bs) (length v)); [|lia]. cbn [option_map].
  rewrite write_at_spec by lia. reflexivity.
Qed.

Lemma spec_written_out v off bs : N.of_nat (length v) < off + N.of_nat (length bs) -> spec_written v off bs = Some None.
Proof. intros H. unfold spec_written. destruct (N.leb_spec (off + N.of_nat (length bs)) (N.of_nat (length v))); [lia|reflexivity]. Qed.

(* the classification of one Spec step: refused (table kept), nothing to do (empty sink push, table kept), an append
   (old bytes ++ new bytes, Length and checksum rewritten), an in-place write or a bare checksum update *)
Inductive step_kind (v : list N) (o : sx) : list N -> Prop :=
| sk_refused : sdt_spec_op v o = Some None -> step_kind v o v
| sk_empty_push : sdt_spec_op v o = Some (Some v) -> op_growth o = 0 -> o = SL [SA 6; SL []] -> step_kind v o v
| sk_appended bs : sdt_spec_op v o = Some (Some (spec_appended v bs)) -> op_growth o = N.of_nat (length bs) ->
    step_kind v o (spec_appended v bs)
| sk_written off bs : sdt_spec_op v o = Some (Some (with_checksum (write_at v (N.to_nat off) bs))) ->
    off + N.of_nat (length bs) <= N.of_nat (length v) -> op_growth o = 0 ->
    (o = SL [SA 7] /\ bs = [] /\ off = 0 \/
     (exists b, o = SL [SA 3; SA off; b] /\ sx_bytes b = Some bs) \/
     (exists w k x, o = SL [SA 4; SA w; SA off; SA x] /\ spec_width w = Some k /\ bs = le k x)) ->
    step_kind v o (with_checksum (write_at v (N.to_nat off) bs)).

Lemma write_at_nil {A} (v : list A) : write_at v 0 [] = v.
Proof. destruct v; reflexivity. Qed.

Lemma sx_bytes_nil b : sx_bytes b = Some [] -> b = SL [].
Proof.
  destruct b as [n|l]; [discriminate|]. destruct l as [|s l]; [reflexivity|].
  cbn [sx_bytes sx_nums]. destruct s; [destruct (sx_nums l); discriminate|discriminate].
Qed.

Lemma spec_step_kind v o : sdt_op_ok o -> exists v', spec_next v o = Some v' /\ step_kind v o v'.
Proof.
  intros Hok. unfold spec_next. destruct Hok as [w k x Hw|b bytes Hb Hl|off b bytes Ho Hb Hl|w k off x Ho Hw|w k x Hw|b bytes Hb Hok Hl|].
  - assert (E : sdt_spec_op v (SL [SA 1; SA w; SA x]) = Some (Some (spec_appended v (le k x))))
      by (cbn [sdt_spec_op]; rewrite Hw; reflexivity).
    rewrite E. eexists; split; [reflexivity|]. apply sk_appended; [exact E|]. cbn [op_growth]. now rewrite Hw, length_le.
  - assert (E : sdt_spec_op v (SL [SA 2; b]) = Some (Some (spec_appended v bytes)))
      by (cbn [sdt_spec_op]; rewrite Hb; reflexivity).
    rewrite E. eexists; split; [reflexivity|]. apply sk_appended; [exact E|]. cbn [op_growth]. now rewrite Hb.
  - assert (E : sdt_spec_op v (SL [SA 3; SA off; b]) = spec_written v off bytes)
      by (cbn [sdt_spec_op]; rewrite Hb; reflexivity).
    destruct (N.le_gt_cases (off + N.of_nat (length bytes)) (N.of_nat (length v))) as [Hin|Hout].
    + rewrite spec_written_in in E by exact Hin. rewrite E. eexists; split; [reflexivity|].
      apply sk_written; [exact E|exact Hin|reflexivity|]. right; left. now exists b.
    + rewrite spec_written_out in E by exact Hout. rewrite E. eexists; split; [reflexivity|]. now apply sk_refused.
  - assert (E : sdt_spec_op v (SL [SA 4; SA w; SA off; SA x]) = spec_written v off (le k x))
      by (cbn [sdt_spec_op]; rewrite Hw; unfold spec_written; rewrite length_le; reflexivity).
    destruct (N.le_gt_cases (off + N.of_nat (length (le k x))) (N.of_nat (length v))) as [Hin|Hout].
    + rewrite spec_written_in in E by exact Hin. rewrite E. eexists; split; [reflexivity|].
      apply sk_written; [exact E|exact Hin|reflexivity|]. right; right. now exists w, k, x.
    + rewrite spec_written_out in E by exact Hout. rewrite E. eexists; split; [reflexivity|]. now apply sk_refused.
  - assert (E : sdt_spec_op v (SL [SA 5; SA w; SA x]) = Some (Some (spec_appended v (le k x))))
      by (cbn [sdt_spec_op]; rewrite Hw; reflexivity).
    rewrite E. eexists; split; [reflexivity|]. apply sk_appended; [exact E|]. cbn [op_growth]. now rewrite Hw, length_le.
  - destruct bytes as [|b0 bytes].
    + assert (E : sdt_spec_op v (SL [SA 6; b]) = Some (Some v)) by (cbn [sdt_spec_op]; rewrite Hb; reflexivity).
      rewrite E. eexists; split; [reflexivity|].
      apply sk_empty_push; [exact E|cbn [op_growth]; now rewrite Hb|now rewrite (sx_bytes_nil b Hb)].
    + assert (E : sdt_spec_op v (SL [SA 6; b]) = Some (Some (spec_appended v (b0 :: bytes))))
        by (cbn [sdt_spec_op]; rewrite Hb; reflexivity).
      rewrite E. eexists; split; [reflexivity|]. apply sk_appended; [exact E|]. cbn [op_growth]. now rewrite Hb.
  - assert (E : sdt_spec_op v (SL [SA 7]) = Some (Some (with_checksum (write_at v (N.to_nat 0) []))))
      by (change (N.to_nat 0) with 0%nat; rewrite write_at_nil; reflexivity).
    rewrite E. eexists; split; [reflexivity|]. apply sk_written; [exact E|cbn [length]; lia|reflexivity|]. now left.
Qed.

(* ---- consequences of the classification ---- *)
Lemma length_spec_appended v bs : (36 <= length v)%nat -> length (spec_appended v bs) = (length v + length bs)%nat.
Proof. intros H. rewrite spec_appended_sappend by exact H. apply length_sappend. lia. Qed.

Lemma sum8_spec_appended v bs : (36 <= length v)%nat -> sum8 (spec_appended v bs) = 0.
Proof. intros H. rewrite spec_appended_sappend by exact H. now apply sum8_sappend. Qed.

Lemma length_written v off bs : (36 <= length v)%nat -> off + N.of_nat (length bs) <= N.of_nat (length v) ->
  length (with_checksum (write_at v (N.to_nat off) bs)) = length v.
Proof.
  intros H Hin. destruct (with_checksum_props (write_at v (N.to_nat off) bs)) as [_ Hl]; [rewrite length_write_at; lia|].
  rewrite Hl. apply length_write_at. lia.
Qed.

Lemma sum8_written v off bs : (36 <= length v)%nat -> off + N.of_nat (length bs) <= N.of_nat (length v) ->
  sum8 (with_checksum (write_at v (N.to_nat off) bs)) = 0.
Proof. intros H Hin. apply with_checksum_props. rewrite length_write_at; lia. Qed.

(* size: a step adds at most [op_growth] bytes (exactly that many when performed, none when refused) *)
Lemma step_kind_length v o v' : (36 <= length v)%nat -> step_kind v o v' ->
  (length v <= length v')%nat /\ N.of_nat (length v') <= N.of_nat (length v) + op_growth o.
Proof.
  intros H K. destruct K as [_|_ _ _|bs _ Hg|off bs _ Hin _ _].
  - lia. - lia.
  - rewrite length_spec_appended by exact H. lia.
  - rewrite length_written by assumption. lia.
Qed.

(* checksum: after a step the image sums to 0, or the table is untouched *)
Lemma step_kind_sum v o v' : (36 <= length v)%nat -> step_kind v o v' -> sum8 v' = 0 \/ v' = v.
Proof.
  intros H K. destruct K as [_|_ _ _|bs _ _|off bs _ Hin _ _].
  - now right. - now right.
  - left. now apply sum8_spec_appended.
  - left. now apply sum8_written.
Qed.

(* ================= 3. histories ================= *)

(* The general form: the model and the Spec walk through the same tables, the tables stay well-formed, and every
   property I of tables that each single Spec step preserves (for operations satisfying P, below the size bound B)
   holds at the end.  The three theorems below are instances. *)
Section History.
  Variable I : list N -> Prop.
  Variable P : sx -> Prop.
  Variable B : N.
  Hypothesis HB : B <= 2 ^ 62.
  Hypothesis Hstep : forall v o v', sdt_wf v -> sdt_op_ok o -> P o -> N.of_nat (length v) + op_growth o < B ->
                                    I v -> step_kind v o v' -> I v'.

  Lemma history_invariant md ops : forall v,
    sdt_wf v -> Forall sdt_op_ok ops -> Forall P ops -> N.of_nat (length v) + ops_growth ops < B -> I v ->
    exists v', sdt_model_run md v ops = Some v' /\ sdt_spec_run v ops = Some v' /\ sdt_wf v' /\ I v' /\
               (length v <= length v')%nat /\ N.of_nat (length v') <= N.of_nat (length v) + ops_growth ops.
  Proof.
    induction ops as [|o r IH]; intros v Hwf Hok HP Hsz Hi.
    - exists v. cbn [sdt_model_run sdt_spec_run ops_growth]. destruct Hwf as [H36 H62]. repeat split; try assumption; lia.
    - inversion Hok as [|? ? Hok1 Hokr]; subst. inversion HP as [|? ? HP1 HPr]; subst.
      cbn [ops_growth] in Hsz.
      destruct (spec_step_kind v o Hok1) as (v1 & Hn & K).
      destruct Hwf as [H36 H62].
      destruct (step_kind_length v o v1 H36 K) as [Hl1 Hl2].
      assert (Hwf1 : sdt_wf v1) by (split; lia).
      assert (Hi1 : I v1) by (apply (Hstep v o v1); try assumption; [now split|lia]).
      destruct (IH v1 Hwf1 Hokr HPr) as (v' & Hm & Hs & Hwf' & Hi' & Hl3 & Hl4); [lia|exact Hi1|].
      exists v'. rewrite sdt_model_run_cons, sdt_spec_run_cons, (next_refines md v o (conj H36 H62) Hok1), Hn.
      repeat split; try assumption; try apply Hwf'; cbn [ops_growth]; lia.
  Qed.
End History.

(* ---- (main) history-level refinement, both build profiles ---- *)
Theorem sdt_history_refines : forall md ops v,
  sdt_wf v -> Forall sdt_op_ok ops -> N.of_nat (length v) + ops_growth ops < 2 ^ 62 ->
  exists v', sdt_model_run md v ops = Some v' /\ sdt_spec_run v ops = Some v' /\ sdt_wf v'.
Proof.
  intros md ops v Hwf Hok Hsz.
  destruct (history_invariant (fun _ => True) (fun _ => True) (2 ^ 62) (N.le_refl _) (fun _ _ _ _ _ _ _ _ _ => Logic.I)
              md ops v Hwf Hok) as (v' & Hm & Hs & Hwf' & _); [now apply Forall_forall|exact Hsz|exact Logic.I|].
  now exists v'.
Qed.

(* the two profiles cannot be told apart on such a history *)
Corollary sdt_history_profile_independent ops v :
  sdt_wf v -> Forall sdt_op_ok ops -> N.of_nat (length v) + ops_growth ops < 2 ^ 62 ->
  sdt_model_run Checked v ops = sdt_model_run Wrapping v ops.
Proof.
  intros Hwf Hok Hsz.
  destruct (sdt_history_refines Checked ops v Hwf Hok Hsz) as (a & Ha & Hsa & _).
  destruct (sdt_history_refines Wrapping ops v Hwf Hok Hsz) as (b & Hb & Hsb & _). congruence.
Qed.

(* ---- (a) checksum ---- *)
(* one performed operation: the result sums to 0 -- except for a sink push of no byte at all, which performs nothing *)
Theorem sdt_performed_sums_to_zero : forall md v o v',
  sdt_wf v -> sdt_op_ok o -> sdt_op md v o = Some (Some v') -> sum8 v' = 0 \/ (v' = v /\ o = SL [SA 6; SL []]).
Proof.
  intros md v o v' Hwf Hok Hop. rewrite (op_refines md v o Hwf Hok) in Hop. destruct Hwf as [H36 _].
  destruct (spec_step_kind v o Hok) as (v1 & Hn & K). unfold spec_next in Hn. rewrite Hop in Hn. inversion Hn; subst v1. clear Hn.
  destruct K as [E|E Hg Ho|bs E _|off bs E Hin _ _].
  - rewrite Hop in E. discriminate.
  - right. now split.
  - left. now apply sum8_spec_appended.
  - left. now apply sum8_written.
Qed.

(* a table that sums to 0 keeps summing to 0 through every history: performed or refused, every step *)
Theorem sdt_history_sums_to_zero : forall md ops v,
  sdt_wf v -> sum8 v = 0 -> Forall sdt_op_ok ops -> N.of_nat (length v) + ops_growth ops < 2 ^ 62 ->
  exists v', sdt_model_run md v ops = Some v' /\ sdt_spec_run v ops = Some v' /\ sdt_wf v' /\ sum8 v' = 0.
Proof.
  intros md ops v Hwf Hs Hok Hsz.
  destruct (history_invariant (fun x => sum8 x = 0) (fun _ => True) (2 ^ 62) (N.le_refl _)) with (md := md) (ops := ops) (v := v)
    as (v' & Hm & Hsp & Hwf' & Hs' & _); try assumption.
  - intros x o x' [H36 _] _ _ _ Hx K. destruct (step_kind_sum x o x' H36 K) as [S| ->]; assumption.
  - now apply Forall_forall.
  - now exists v'.
Qed.

(* ================= 4. the constructor ================= *)
Lemma length_hdr36 (sig oem tb : list N) len rev orev :
  length sig = 4%nat -> length oem = 6%nat -> length tb = 8%nat ->
  length (sig ++ le 4 len ++ [rev; 0] ++ oem ++ tb ++ le 4 orev ++ CREATOR) = 36%nat.
Proof. intros H1 H2 H3. rewrite !app_length, !length_le, H1, H2, H3. reflexivity. Qed.

Lemma sx_arr_spec k s b : sx_arr k s = Some b <-> sx_bytes s = Some b /\ length b = k.
Proof.
  unfold sx_arr. destruct (sx_bytes s) as [b'|]; [|split; [discriminate|intros [H _]; discriminate]].
  destruct (Nat.eqb_spec (length b') k) as [E|E]; split.
  - intros H; inversion H; subst; auto.
  - intros [H _]; exact H.
  - discriminate.
  - intros [H1 H2]. inversion H1; subst. contradiction.
Qed.

(* the raw 36-byte header followed by zeros, before the checksum is set: the same bytes on both sides *)
Definition raw_new (sig : list N) (len rev : N) (oem tb : list N) (orev : N) : list N :=
  sig ++ le 4 len ++ [rev mod 256; 0] ++ oem ++ tb ++ le 4 orev ++ CREATOR ++ repeatN 0 (N.to_nat len - 36).

Lemma length_raw_new sig len rev oem tb orev :
  length sig = 4%nat -> length oem = 6%nat -> length tb = 8%nat -> 36 <= len ->
  length (raw_new sig len rev oem tb orev) = N.to_nat len.
Proof.
  intros H1 H2 H3 Hlen. unfold raw_new. rewrite !app_length, !length_le, length_repeatN, H1, H2, H3. cbn [length CREATOR]. lia.
Qed.

(* decomposition of a constructor case accepted by the Spec *)
Lemma sdt_spec_new_inv c v : sdt_spec_new c = Some v ->
  exists sg len rev o t orev sig oem tb,
    c = SL [sg; SA len; SA rev; o; t; SA orev] /\
    sx_bytes sg = Some sig /\ sx_bytes o = Some oem /\ sx_bytes t = Some tb /\
    length sig = 4%nat /\ length oem = 6%nat /\ length tb = 8%nat /\ 36 <= len /\ len < 2 ^ 32 /\
    v = with_checksum (raw_new sig len rev oem tb orev).
Proof.
  intros H. unfold sdt_spec_new in H.
  repeat match type of H with
         | context [match ?x with _ => _ end] => is_var x; destruct x; try discriminate H
         end.
  match type of H with context [sx_bytes ?a] => destruct (sx_bytes a) as [sig|] eqn:E1; [|discriminate H] end.
  match type of H with context [match sx_bytes ?a with _ => _ end] => destruct (sx_bytes a) as [oem|] eqn:E2; [|discriminate H] end.
  match type of H with context [match sx_bytes ?a with _ => _ end] => destruct (sx_bytes a) as [tb|] eqn:E3; [|discriminate H] end.
  match type of H with (if ?c then _ else _) = _ => destruct c eqn:Ec; [|discriminate H] end.
  repeat (apply andb_true_iff in Ec; destruct Ec as [Ec ?]).
  repeat match goal with
         | Hx : Nat.eqb _ _ = true |- _ => apply Nat.eqb_eq in Hx
         | Hx : (_ <=? _) = true |- _ => apply N.leb_le in Hx
         | Hx : (_ <? _) = true |- _ => apply N.ltb_lt in Hx
         end.
  inversion H; subst v. do 9 eexists. repeat split; try eassumption; reflexivity.
Qed.

(* the constructor of the implementation model agrees with the Spec's on the whole of the Spec's domain *)
Theorem sdt_new_refines : forall c v, sdt_spec_new c = Some v -> sdt_new c = Some v.
Proof.
  intros c v H. destruct (sdt_spec_new_inv c v H) as (sg & len & rev & o & t & orev & sig & oem & tb & -> & E1 & E2 & E3 & L1 & L2 & L3 & Hlo & Hhi & ->).
  cbn [sdt_new].
  rewrite (proj2 (sx_arr_spec 4 sg sig) (conj E1 L1)), (proj2 (sx_arr_spec 6 o oem) (conj E2 L2)),
          (proj2 (sx_arr_spec 8 t tb) (conj E3 L3)). cbn [option_bind].
  destruct (N.leb_spec 36 len); [|lia]. cbn [assert option_bind]. f_equal.
  unfold cast, U32, U8. rewrite (N.mod_small len (2 ^ 32)) by exact Hhi. change (2 ^ 8) with 256.
  assert (E : (sig ++ d4 len ++ [rev mod 256] ++ [0] ++ oem ++ tb ++ d4 orev ++ CREATOR_ID ++ CREATOR_REVISION)
                ++ repeatN 0 (N.to_nat len - 36) = raw_new sig len rev oem tb orev).
  { unfold raw_new, d4, CREATOR, CREATOR_ID, CREATOR_REVISION. rewrite <- !app_assoc. reflexivity. }
  rewrite E. apply update_checksum_spec. rewrite length_raw_new by assumption. lia.
Qed.

(* field_at 4 4 only looks at bytes 4..7 *)
Lemma field44_ext a b : length a = length b -> (forall i, (4 <= i < 8)%nat -> nth i a 0 = nth i b 0) ->
  field_at a 4 4 = field_at b 4 4.
Proof.
  intros Hl Hn. unfold field_at. f_equal. apply (nth_ext _ _ 0 0).
  - rewrite !firstn_length, !skipn_length, Hl. reflexivity.
  - intros i Hi. rewrite firstn_length in Hi. assert (Hi4 : (i < 4)%nat) by lia.
    rewrite !nth_firstn' by exact Hi4. rewrite !nth_skipn'. apply Hn. lia.
Qed.

Lemma field44_with_checksum v : (10 <= length v)%nat -> field_at (with_checksum v) 4 4 = field_at v 4 4.
Proof.
  intros H. rewrite <- update_checksum_spec by exact H. destruct (agree9_update_checksum v H) as [Hl Hn].
  apply field44_ext; [exact Hl|]. intros i Hi. apply Hn. lia.
Qed.

(* what the Spec's constructor produces: `len` bytes, summing to 0, Length field = len = size *)
Lemma sdt_spec_new_props c v : sdt_spec_new c = Some v ->
  sdt_wf v /\ sum8 v = 0 /\ field_at v 4 4 = N.of_nat (length v) /\ N.of_nat (length v) < 2 ^ 32.
Proof.
  intros H. destruct (sdt_spec_new_inv c v H) as (sg & len & rev & o & t & orev & sig & oem & tb & -> & E1 & E2 & E3 & L1 & L2 & L3 & Hlo & Hhi & ->).
  assert (Hraw : length (raw_new sig len rev oem tb orev) = N.to_nat len) by now apply length_raw_new.
  destruct (with_checksum_props (raw_new sig len rev oem tb orev)) as [Hs Hl]; [lia|].
  assert (Hlen : N.of_nat (length (with_checksum (raw_new sig len rev oem tb orev))) = len) by (rewrite Hl, Hraw; lia).
  repeat split.
  - rewrite Hl, Hraw. lia.
  - rewrite Hlen. change (2 ^ 32) with 4294967296 in Hhi. change (2 ^ 62) with 4611686018427387904. lia.
  - exact Hs.
  - rewrite Hlen, field44_with_checksum by lia. unfold field_at, raw_new.
    replace (skipn 4 (sig ++ le 4 len ++ [rev mod 256; 0] ++ oem ++ tb ++ le 4 orev ++ CREATOR ++ repeatN 0 (N.to_nat len - 36)))
      with (le 4 len ++ [rev mod 256; 0] ++ oem ++ tb ++ le 4 orev ++ CREATOR ++ repeatN 0 (N.to_nat len - 36))
      by (rewrite <- L1; symmetry; apply skipn_app_exact).
    replace 4%nat with (length (le 4 len)) at 1 by apply length_le. rewrite firstn_app_exact.
    apply unle_le_small. exact Hhi.
  - rewrite Hlen. exact Hhi.
Qed.

(* whatever the model's constructor accepts is a well-formed table summing to 0 (also outside the Spec's domain) *)
Theorem sdt_new_sums_to_zero : forall c v, sdt_new c = Some v -> sum8 v = 0 /\ sdt_wf v.
Proof.
  intros c v H. unfold sdt_new in H.
  repeat match type of H with
         | context [match ?x with _ => _ end] => is_var x; destruct x; try discriminate H
         end.
  match type of H with context [sx_arr 4 ?a] => destruct (sx_arr 4 a) as [sig|] eqn:E1; [|discriminate H] end. cbn [option_bind] in H.
  match type of H with context [sx_arr 6 ?a] => destruct (sx_arr 6 a) as [oem|] eqn:E2; [|discriminate H] end. cbn [option_bind] in H.
  match type of H with context [sx_arr 8 ?a] => destruct (sx_arr 8 a) as [tb|] eqn:E3; [|discriminate H] end. cbn [option_bind] in H.
  match type of H with context [assert ?c] => destruct c eqn:Ec; [|discriminate H] end. cbn [assert option_bind] in H.
  apply sx_arr_spec in E1, E2, E3. destruct E1 as [_ L1], E2 as [_ L2], E3 as [_ L3].
  injection H as <-.
  match goal with |- context [sdt_update_checksum ?x] => set (raw := x) end.
  assert (Hraw : (36 <= length raw)%nat /\ N.of_nat (length raw) < 2 ^ 32 + 36).
  { unfold raw, d4, CREATOR_ID, CREATOR_REVISION. repeat first [rewrite app_length|progress cbn [length]].
    rewrite ?length_le, length_repeatN, L1, L2, L3.
    assert (Hc : cast U32 n < 2 ^ 32) by (unfold cast, U32; apply N.mod_lt; discriminate).
    revert Hc. generalize (cast U32 n). intros m Hm. change (2 ^ 32) with 4294967296 in *. lia. }
  destruct Hraw as [R1 R2]. split; [apply update_checksum_sums; lia|].
  split; rewrite length_update_checksum; [exact R1|].
  change (2 ^ 32) with 4294967296 in R2. change (2 ^ 62) with 4611686018427387904. lia.
Qed.

(* ---- (a) from the constructor: EVERY prefix of EVERY history sums to 0 ---- *)
Theorem sdt_every_prefix_sums_to_zero : forall md c v0 pre post,
  sdt_new c = Some v0 -> Forall sdt_op_ok (pre ++ post) -> N.of_nat (length v0) + ops_growth (pre ++ post) < 2 ^ 62 ->
  exists v, sdt_model_run md v0 pre = Some v /\ sdt_spec_run v0 pre = Some v /\ sdt_wf v /\ sum8 v = 0.
Proof.
  intros md c v0 pre post Hnew Hok Hsz. destruct (sdt_new_sums_to_zero c v0 Hnew) as [Hs Hwf].
  apply Forall_app in Hok. destruct Hok as [Hpre _]. rewrite ops_growth_app in Hsz.
  apply sdt_history_sums_to_zero; try assumption. lia.
Qed.

(* ================= 5. (b) the Length field tracks the size ================= *)

(* operations that do not write into bytes 4..7 themselves (every append does, through the code's own bookkeeping) *)
Inductive op_keeps_length : sx -> Prop :=
| kl_append w x : op_keeps_length (SL [SA 1; SA w; SA x])
| kl_append_slice b : op_keeps_length (SL [SA 2; b])
| kl_write_bytes off b bytes : sx_bytes b = Some bytes -> 8 <= off \/ off + N.of_nat (length bytes) <= 4 ->
    op_keeps_length (SL [SA 3; SA off; b])
| kl_write_int w k off x : spec_width w = Some k -> 8 <= off \/ off + N.of_nat k <= 4 ->
    op_keeps_length (SL [SA 4; SA w; SA off; SA x])
| kl_sink_int w x : op_keeps_length (SL [SA 5; SA w; SA x])
| kl_sink_vec b : op_keeps_length (SL [SA 6; b])
| kl_update_checksum : op_keeps_length (SL [SA 7]).

Definition length_field_ok (v : list N) : Prop := field_at v 4 4 = N.of_nat (length v).

Lemma field44_spec_appended v bs : (36 <= length v)%nat -> N.of_nat (length v + length bs) < 2 ^ 32 ->
  length_field_ok (spec_appended v bs).
Proof.
  intros H Hsz. unfold length_field_ok. rewrite length_spec_appended by exact H. rewrite spec_appended_sappend by exact H.
  rewrite length_field_sappend by exact H. now apply N.mod_small.
Qed.

Lemma field44_written v off bs : (36 <= length v)%nat -> off + N.of_nat (length bs) <= N.of_nat (length v) ->
  8 <= off \/ off + N.of_nat (length bs) <= 4 ->
  field_at (with_checksum (write_at v (N.to_nat off) bs)) 4 4 = field_at v 4 4.
Proof.
  intros H Hin Hout. assert (Hfit : (N.to_nat off + length bs <= length v)%nat) by lia.
  rewrite field44_with_checksum by (rewrite length_write_at by exact Hfit; lia).
  apply field44_ext; [now apply length_write_at|]. intros i Hi. rewrite nth_write_at by exact Hfit.
  destruct (Nat.leb_spec (N.to_nat off) i) as [Ha|Ha]; cbn [andb]; [|reflexivity].
  destruct (Nat.ltb_spec i (N.to_nat off + length bs)) as [Hb|Hb]; [lia|reflexivity].
Qed.

Lemma step_keeps_length_field v o v' :
  sdt_wf v -> sdt_op_ok o -> op_keeps_length o -> N.of_nat (length v) + op_growth o < 2 ^ 32 ->
  length_field_ok v -> step_kind v o v' -> length_field_ok v'.
Proof.
  intros [H36 _] _ Hk Hsz Hv K. destruct K as [_|_ _ _|bs _ Hg|off bs _ Hin _ Hshape].
  - exact Hv. - exact Hv.
  - apply field44_spec_appended; [exact H36|]. rewrite Hg in Hsz. lia.
  - unfold length_field_ok. rewrite length_written by assumption. rewrite <- Hv.
    destruct Hshape as [(-> & -> & ->)|[(b & -> & Hb)|(w & k & x & -> & Hw & ->)]].
    + apply field44_written; [exact H36|cbn [length]; lia|right; cbn [length]; lia].
    + apply field44_written; [exact H36|exact Hin|]. inversion Hk as [| |? ? bytes' Hb' Hr| | | |]; subst.
      rewrite Hb in Hb'. inversion Hb'; subst. exact Hr.
    + apply field44_written; [exact H36|exact Hin|]. inversion Hk as [| | |? k' ? ? Hw' Hr| | |]; subst.
      rewrite Hw in Hw'. inversion Hw'; subst. rewrite length_le. exact Hr.
Qed.

Theorem sdt_length_field_tracks_size : forall md ops v,
  sdt_wf v -> length_field_ok v -> Forall sdt_op_ok ops -> Forall op_keeps_length ops ->
  N.of_nat (length v) + ops_growth ops < 2 ^ 32 ->
  exists v', sdt_model_run md v ops = Some v' /\ sdt_spec_run v ops = Some v' /\
             field_at v' 4 4 = N.of_nat (length v') /\ N.of_nat (length v') < 2 ^ 32.
Proof.
  intros md ops v Hwf Hv Hok Hk Hsz.
  assert (HB : 2 ^ 32 <= 2 ^ 62) by (change (2 ^ 32) with 4294967296; change (2 ^ 62) with 4611686018427387904; lia).
  destruct (history_invariant length_field_ok op_keeps_length (2 ^ 32) HB step_keeps_length_field md ops v Hwf Hok Hk Hsz Hv)
    as (v' & Hm & Hs & _ & Hf & _ & Hl).
  exists v'. repeat split; try assumption. lia.
Qed.

(* from the constructor (declared length = number of bytes created = Length field), on every prefix *)
Theorem sdt_new_length_field_tracks_size : forall md c v0 pre post,
  sdt_spec_new c = Some v0 -> Forall sdt_op_ok (pre ++ post) -> Forall op_keeps_length (pre ++ post) ->
  N.of_nat (length v0) + ops_growth (pre ++ post) < 2 ^ 32 ->
  sdt_new c = Some v0 /\
  exists v, sdt_model_run md v0 pre = Some v /\ sdt_spec_run v0 pre = Some v /\
            field_at v 4 4 = N.of_nat (length v) /\ sum8 v = 0.
Proof.
  intros md c v0 pre post Hnew Hok Hk Hsz. split; [now apply sdt_new_refines|].
  destruct (sdt_spec_new_props c v0 Hnew) as (Hwf & Hs & Hf & _).
  apply Forall_app in Hok. destruct Hok as [Hok _]. apply Forall_app in Hk. destruct Hk as [Hk _].
  rewrite ops_growth_app in Hsz.
  destruct (sdt_length_field_tracks_size md pre v0 Hwf Hf Hok Hk) as (v & Hm & Hsp & Hfv & _); [lia|].
  exists v. repeat split; try assumption.
  destruct (sdt_history_sums_to_zero md pre v0 Hwf Hs Hok) as (v2 & Hm2 & _ & _ & Hs2).
  { change (2 ^ 32) with 4294967296 in Hsz. change (2 ^ 62) with 4611686018427387904. lia. }
  congruence.
Qed.

(* ================= 6. (c) refused operations, at history level ================= *)
(* a history made only of refused operations leaves the table exactly as it was *)
Theorem sdt_refused_history_unchanged : forall md ops v,
  Forall (fun o => sdt_op md v o = Some None) ops -> sdt_model_run md v ops = Some v.
Proof.
  intros md ops v H. induction H as [|o r Ho _ IH]; [reflexivity|].
  cbn [sdt_model_run]. unfold sdt_step. rewrite Ho. exact IH.
Qed.

(* inserting a refused operation anywhere in a history does not change its outcome *)
Theorem sdt_refused_op_is_noop : forall md pre o post v v1,
  sdt_model_run md v pre = Some v1 -> sdt_op md v1 o = Some None ->
  sdt_model_run md v (pre ++ o :: post) = sdt_model_run md v (pre ++ post).
Proof.
  intros md pre o post v v1 Hpre Ho. rewrite !sdt_model_run_app, Hpre. cbn [sdt_model_run]. unfold sdt_step. now rewrite Ho.
Qed.

(* ================= 7. the judged function ================= *)
(* [sdt_case] (what the correspondence harness compares with the crate) observes, at the end of such a history, exactly
   the table of [sdt_model_run]: one status number per operation, then the image *)
Lemma run_ops_acc_model md ops : forall v acc v',
  Forall sdt_op_ok ops -> sdt_model_run md v ops = Some v' ->
  exists nums, length nums = length ops /\
    run_ops_acc (fun d => Some d) (sdt_step md) v (ops ++ [SA 1]) acc = frev (EvBytes v' :: nums ++ acc).
Proof.
  induction ops as [|o r IH]; intros v acc v' Hok Hrun.
  - inversion Hrun; subst. exists []. split; [reflexivity|]. reflexivity.
  - inversion Hok as [|? ? Hok1 Hokr]; subst. cbn [sdt_model_run] in Hrun.
    destruct (sdt_step md v o) as [[v1 e]|] eqn:Es; [|discriminate].
    assert (He : exists n, e = [EvNum n]).
    { unfold sdt_step in Es. destruct (sdt_op md v o) as [[d|]|]; inversion Es; subst; eexists; reflexivity. }
    destruct He as [n ->].
    destruct (IH v1 (EvNum n :: acc) v' Hokr Hrun) as (nums & Hlen & Hr).
    exists (nums ++ [EvNum n]). split; [rewrite app_length; cbn [length]; lia|].
    assert (Hshape : exists l, o = SL l) by (destruct Hok1; eexists; reflexivity). destruct Hshape as [l ->].
    cbn [app run_ops_acc]. rewrite Es. cbn [rev_append]. rewrite Hr, <- app_assoc. reflexivity.
Qed.

Theorem sdt_case_observes_model_run : forall md c v0 ops v',
  sdt_new c = Some v0 -> Forall sdt_op_ok ops -> sdt_model_run md v0 ops = Some v' ->
  exists nums, length nums = length ops /\ sdt_case md (SL (c :: ops ++ [SA 1])) = rev nums ++ [EvBytes v'].
Proof.
  intros md c v0 ops v' Hnew Hok Hrun. unfold sdt_case, run_history, run_ops. rewrite Hnew.
  destruct (run_ops_acc_model md ops v0 [] v' Hok Hrun) as (nums & Hlen & Hr).
  exists nums. split; [exact Hlen|]. rewrite Hr, app_nil_r, frev_rev. reflexivity.
Qed.
