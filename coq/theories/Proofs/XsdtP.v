(* XSDT: the table-specific obligations of the generic history invariant. *)
From Coq Require Import NArith ZArith List Lia Bool Arith.
From ACPI Require Import Lib.Bytes Lib.Sx Lib.Machine Impl.Checksum Impl.Table Impl.Fields Impl.Run Impl.Madt Impl.Xsdt
  Proofs.ChecksumP Proofs.TableP Proofs.MadtP Proofs.Tables.
Import ListNotations.
Open Scope N_scope.

Lemma xsdt_new_inv c s0 : xsdt_new c = Some s0 -> Inv2 KXsdt s0.
Proof.
  unfold xsdt_new. destruct c as [|l]; [discriminate|].
  destruct l as [|o [|t [|r [|x l]]]]; try discriminate.
  destruct (sx_hdr [88; 83; 68; 84] 1 o t r) as [h|] eqn:Eh; [|discriminate].
  cbn [option_bind]. intros H. inversion H; subst.
  apply tbl_new_inv2; [eapply sx_hdr_ok; [|exact Eh]; reflexivity | reflexivity].
Qed.

(* the claimed 8 bytes (size_of::<u64>()) are what sink.qword writes, for every entry value *)
Lemma xsdt_addition_sound s o e : t_kind s = KXsdt -> xsdt_addition s o = Some e ->
  a_claimed e = N.of_nat (length (a_bytes e)) /\
  (needs_pos (t_kind s) = true -> (1 <= length (a_bytes e))%nat /\ a_claimed e < 2 ^ 16).
Proof.
  intros Hk. unfold xsdt_addition.
  repeat match goal with |- (match ?x with _ => _ end) = Some _ -> _ => destruct x; try discriminate end.
  intros H. inversion H; subst; cbn [a_claimed a_bytes].
  split; [unfold q8; rewrite length_le; reflexivity|]. rewrite Hk. discriminate.
Qed.

Definition xsdt_table : addtable :=
  {| at_name := [88; 83; 68; 84]; at_kind := KXsdt; at_new := xsdt_new; at_entry := xsdt_addition;
     at_new_inv := xsdt_new_inv; at_sound := xsdt_addition_sound |}.

(* consequences for the emitted image after every history (the generic theorems of Proofs/Tables.v instantiated) *)
Theorem xsdt_sum_len md c ops s0 s :
  xsdt_new c = Some s0 -> run_adds xsdt_addition md s0 ops = Some s -> N.of_nat (length (tbl_image s)) < 2 ^ 32 ->
  sum8 (tbl_image s) = 0 /\ Spec.Layout.field_at (tbl_image s) 4 4 = N.of_nat (length (tbl_image s)).
Proof.
  intros Hn Hr Hfit. destruct (addtable_reach xsdt_table md c ops s0 s Hn Hr Hfit) as [I _].
  split; [apply inv_sum8_zero|apply image_len_field]; assumption.
Qed.
