(* The Spec walker tiles any concatenation of self-describing entries exactly (C03, generic part);
   reference layouts decode to the values they were assembled from (C04, generic part). *)
From Coq Require Import NArith ZArith List Lia Bool Arith.
From ACPI Require Import Lib.Bytes Lib.Sx Spec.Layout.
Import ListNotations.
Open Scope N_scope.

(* an entry describes itself under header format h: whatever follows it, the header read at its start gives its type
   code and its own byte length, and it is not empty *)
Definition self_describing (h : ehdr) (e : list N) (ty : N) : Prop :=
  (1 <= length e)%nat /\ forall rest, read_ehdr h (e ++ rest) = Some (ty, length e).

Fixpoint walk_result (off : nat) (es : list (list N)) (tys : list N) : list (N * nat * nat) :=
  match es, tys with
  | e :: es', t :: ts' => (t, off, length e) :: walk_result (length e + off) es' ts'
  | _, _ => []
  end.

(* stepping by each entry's own length visits exactly the entries, in order, with their type codes, and lands exactly
   on the end (the walk returns Some only when the last entry ends where the bytes end) *)
Lemma walk_concat h : forall es tys off fuel,
  Forall2 (self_describing h) es tys -> (length es <= fuel)%nat ->
  walk fuel h off (concat es) = Some (walk_result off es tys).
Proof.
  induction es as [|e es IH]; intros tys off fuel HF Hfuel.
  - inversion HF; subst. cbn [concat]. destruct fuel; reflexivity.
  - inversion HF as [|? t ? ts [Hpos Hrd] Hrest]; subst. cbn [concat length] in *.
    destruct fuel as [|f]; [lia|].
    destruct e as [|x e']; [cbn [length] in Hpos; lia|].
    specialize (Hrd (concat es)).
    change ((x :: e') ++ concat es) with (x :: (e' ++ concat es)) in *.
    cbn [walk]. rewrite Hrd.
    assert (E0 : Nat.eqb (length (x :: e')) 0 = false) by (apply Nat.eqb_neq; cbn [length]; lia).
    assert (E1 : negb (Nat.eqb (length (firstn (length (x :: e')) (x :: e' ++ concat es))) (length (x :: e'))) = false).
    { change (x :: e' ++ concat es) with ((x :: e') ++ concat es). rewrite firstn_app_exact. now rewrite Nat.eqb_refl. }
    rewrite E0, E1. cbn [orb].
    change (x :: e' ++ concat es) with ((x :: e') ++ concat es). rewrite skipn_app_exact.
    rewrite (IH ts (length (x :: e') + off)%nat f Hrest) by lia.
    cbn [walk_result]. reflexivity.
Qed.

Lemma walk_result_length off es tys : length es = length tys -> length (walk_result off es tys) = length es.
Proof.
  revert off tys; induction es as [|e es IH]; intros off [|t ts] H; cbn [length walk_result] in *; try lia. rewrite IH; lia.
Qed.

(* ---------- layouts ---------- *)

Lemma assemble_cons o w v l : assemble ((o, w, v) :: l) = le w v ++ assemble l.
Proof. reflexivity. Qed.

Lemma length_assemble l : length (assemble l) = layout_size l.
Proof.
  induction l as [|[[o w] v] l IH]; [reflexivity|]. rewrite assemble_cons, app_length, length_le, IH. reflexivity.
Qed.

(* the independent decoder applied to an assembled layout returns, at every field's offset and width, the value the
   field was given (reduced to the field width, i.e. exactly for in-range values) *)
Lemma field_at_assemble : forall l off,
  layout_ok_from off l = true ->
  forall pre, length pre = off ->
  forall o w v, In (o, w, v) l -> field_at (pre ++ assemble l) o w = v mod 2 ^ (8 * N.of_nat w).
Proof.
  induction l as [|[[o0 w0] v0] l IH]; intros off Hok pre Hpre o w v Hin; [destruct Hin|].
  cbn [layout_ok_from] in Hok. apply andb_true_iff in Hok. destruct Hok as [Ho Hok]. apply Nat.eqb_eq in Ho. subst o0.
  destruct Hin as [E|Hin].
  - inversion E; subst. unfold field_at. rewrite assemble_cons, skipn_app_exact.
    rewrite firstn_le_app. apply unle_le.
  - rewrite assemble_cons, app_assoc.
    apply (IH (off + w0)%nat Hok (pre ++ le w0 v0)); [rewrite app_length, length_le; lia|exact Hin].
Qed.

Lemma lay_decodes size l img : lay size l = Some img ->
  length img = size /\ forall o w v, In (o, w, v) l -> field_at img o w = v mod 2 ^ (8 * N.of_nat w).
Proof.
  unfold lay. destruct (layout_ok_from 0 l) eqn:Hok; [|discriminate].
  destruct (Nat.eqb_spec (layout_size l) size); cbn [andb]; [|discriminate]. intros H. inversion H; subst.
  split; [apply length_assemble|]. intros o w v Hin.
  apply (field_at_assemble l 0 Hok [] eq_refl o w v Hin).
Qed.
