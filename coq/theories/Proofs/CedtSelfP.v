(* CEDT, property C03, per-entry part: the reference image of every in-domain history is tiled by structures that describe
   themselves and passes the self-check (CHBS 32 bytes; CFMWS: one target per interleave way of its encoded ENIW, against
   the record length; CXIMS: xormap count against the record length; RDPAS 17 bytes as laid out). *)
From Coq Require Import NArith ZArith List Lia Bool Arith ZifyBool ZifyNat ZifyN.
From ACPI Require Import Lib.Bytes Lib.Sx Spec.Layout Spec.RimtS Spec.CedtS Spec.SelfCheck Judge
  Proofs.WalkP Proofs.WalkRefCommon2P Proofs.SelfCommonP.
Import ListNotations.

Ltac Zify.zify_post_hook ::= Z.to_euclidean_division_equations.

Open Scope N_scope.

Definition cedt_ty (e : list N) : N := nth 0 e 0.

Lemma cedt_target_length t b : cedt_target t = Some b -> length b = 4%nat.
Proof.
  unfold cedt_target. destruct (sx_bytes t) as [x|]; [|discriminate].
  destruct (Nat.eqb_spec (length x) 4); [|discriminate]. intros H. apply wr_Some_inj in H. now subst b.
Qed.

Lemma cedt_ways_cases ways niw : cedt_ways ways = Some niw ->
  eniw_ways (ways mod 256) = Some (N.of_nat niw) /\ (niw <= 16)%nat.
Proof.
  unfold cedt_ways. intros H.
  destruct ways as [|w]; [apply wr_Some_inj in H; subst niw; split; [reflexivity|lia]|].
  repeat (destruct w as [w|w|]; try discriminate H); apply wr_Some_inj in H; subst niw; (split; [reflexivity|lia]).
Qed.

(* what is needed of a reference structure: it describes itself, and it passes the self-check *)
Definition cedt_good (e : list N) : Prop :=
  self_describing H_u8_x_u16 e (cedt_ty e) /\ entry_self_ok 20 (cedt_ty e) e = true.

Lemma cedt_entry_good o e : cedt_entry_ref o = Some e -> cedt_good e.
Proof.
  intros H. unfold cedt_entry_ref in H. unfold cedt_good, cedt_ty. cbn [entry_self_ok].
  destruct o as [|l]; [discriminate H|]. destruct l as [|[op|] l]; try discriminate H.
  destruct op as [|op]; try discriminate H.
  repeat (destruct op as [op|op|]; try discriminate H).
  - (* 3: CXIMS *)
    destruct l as [|[gran|] [|[|maps] [|]]]; try discriminate H.
    destruct (sx_nums maps) as [ms|]; [|discriminate H]. cbv zeta in H.
    destruct (N.leb_spec (N.of_nat (length ms)) 255) as [Hn|]; [|discriminate H].
    destruct (option_map_app_decodes _ _ _ _ H) as [Hlen Hf].
    assert (Hc : length (concat (map (le 8) ms)) = (8 * length ms)%nat).
    { rewrite <- (map_length (le 8) ms). apply concat_length_const. apply Forall_forall. intros x Hx.
      apply in_map_iff in Hx. destruct Hx as (v & <- & _). apply length_le. }
    rewrite Hc in Hlen.
    assert (Hp : (1 <= length e)%nat) by lia.
    rewrite (nth0_field e Hp), (Hf 0%nat 1%nat 2) by (cbn [In L]; try tauto; lia).
    change (2 mod 2 ^ (8 * N.of_nat 1)) with 2. split.
    + replace 2 with (field_at e 0 1) by (rewrite (Hf 0%nat 1%nat 2) by (cbn [In L]; try tauto; lia); reflexivity).
      rewrite <- (nth0_field e Hp). apply sd_u8_x_u16_of_fields; [lia|].
      rewrite (Hf 2%nat 2%nat (N.of_nat (8 + 8 * length ms))) by (cbn [In L]; try tauto; lia).
      rewrite pow8_2, N.mod_small by lia. rewrite Hlen. reflexivity.
    + cbn [cedt_self]. rewrite (Hf 7%nat 1%nat (N.of_nat (length ms))) by (cbn [In L]; try tauto; lia).
      rewrite pow8_1, N.mod_small by lia. unfold lenN. rewrite Hlen. apply N.eqb_eq. lia.
  - (* 4: RDPAS *)
    destruct l as [|[seg|] [|[bus|] [|[dev|] [|[fn|] [|[proto|] [|[base|] [|]]]]]]]; try discriminate H.
    destruct (sp_bdf bus dev fn) as [b|]; [|discriminate H].
    destruct (lay_decodes _ _ _ H) as [Hlen Hf].
    assert (Hp : (1 <= length e)%nat) by lia.
    split.
    + apply sd_u8_x_u16_of_fields; [lia|]. rewrite Hlen. apply (Hf 2%nat 2%nat 17). cbn [In L]. tauto.
    + rewrite (nth0_field e Hp), (Hf 0%nat 1%nat 3) by (cbn [In L]; tauto).
      change (3 mod 2 ^ (8 * N.of_nat 1)) with 3. cbn [cedt_self]. rewrite Hlen. reflexivity.
  - (* 2: CFMWS *)
    destruct l as [|[base|] [|[size|] [|[arith|] [|[gran|] [|[ways|] [|[qtg|] [|[|builders] [|[|targets] [|]]]]]]]]]; try discriminate H.
    destruct (cedt_ways ways) as [niw|] eqn:Ew; [|discriminate H].
    destruct (sp_all cedt_target targets []) as [tg|] eqn:Etg; [|discriminate H].
    destruct (Nat.eqb_spec (length tg) niw) as [Hniw|]; [|discriminate H]. cbn [andb] in H.
    destruct (cedt_builders_ok builders); [|discriminate H].
    destruct (cedt_ways_cases _ _ Ew) as [Hways Hsmall].
    destruct (option_map_app_decodes _ _ _ _ H) as [Hlen Hf].
    assert (Hc : length (concat tg) = (4 * length tg)%nat).
    { apply concat_length_const. apply (sp_all_forall cedt_target _ cedt_target_length targets [] tg Etg). constructor. }
    rewrite Hc, Hniw in Hlen.
    assert (Hp : (1 <= length e)%nat) by lia.
    split.
    + apply sd_u8_x_u16_of_fields; [lia|].
      rewrite (Hf 2%nat 2%nat (N.of_nat (36 + 4 * niw))) by (cbn [In L]; try tauto; lia).
      rewrite pow8_2, N.mod_small by lia. rewrite Hlen. reflexivity.
    + rewrite (nth0_field e Hp), (Hf 0%nat 1%nat 1) by (cbn [In L]; try tauto; lia).
      change (1 mod 2 ^ (8 * N.of_nat 1)) with 1. cbn [cedt_self].
      rewrite (Hf 24%nat 1%nat ways) by (cbn [In L]; try tauto; lia).
      rewrite pow8_1, Hways. unfold lenN. rewrite Hlen. apply N.eqb_eq. lia.
  - (* 1: CHBS *)
    destruct l as [|[uid|] [|[ver|] [|[base|] [|]]]]; try discriminate H.
    destruct (match ver with 0 => Some 8192 | 1 => Some 65536 | _ => None end) as [len|]; [|discriminate H].
    destruct (lay_decodes _ _ _ H) as [Hlen Hf].
    assert (Hp : (1 <= length e)%nat) by lia.
    split.
    + apply sd_u8_x_u16_of_fields; [lia|]. rewrite Hlen. apply (Hf 2%nat 2%nat 32). cbn [In L]. tauto.
    + rewrite (nth0_field e Hp), (Hf 0%nat 1%nat 0) by (cbn [In L]; tauto).
      change (0 mod 2 ^ (8 * N.of_nat 1)) with 0. cbn [cedt_self]. rewrite Hlen. reflexivity.
Qed.

Lemma cedt_image_shape ctor ops r : ts_image cedt_spec ctor ops = Some r ->
  exists ha es, sp_all cedt_entry_ref ops [] = Some es /\
    length (ha_oem ha) = 6%nat /\ length (ha_tbl ha) = 8%nat /\
    r = ref_table [67; 69; 68; 84] 1 ha ([] ++ concat es).
Proof.
  intros H. cbn [ts_image cedt_spec] in H. unfold cedt_image in H.
  destruct ctor as [|l]; [discriminate H|].
  destruct l as [|o [|t [|rr [|]]]]; try discriminate H.
  destruct (sx_hdr_args o t rr) as [ha|] eqn:Eha; [|discriminate H].
  destruct (cedt_entries_ref ops) as [es|] eqn:Ees; [|discriminate H].
  apply wr_Some_inj in H. subst r.
  destruct (sx_hdr_args_len _ _ _ _ Eha) as [Ho Ht].
  exists ha, es. split; [exact Ees|]. split; [exact Ho|]. split; [exact Ht|]. reflexivity.
Qed.

Theorem cedt_selfcheck : forall ctor ops r, ts_image cedt_spec ctor ops = Some r -> c03_self 20 r = true.
Proof.
  intros ctor ops r H.
  destruct (cedt_image_shape ctor ops r H) as (ha & es & Ees & Ho & Ht & ->).
  assert (HG : Forall cedt_good es).
  { apply (sp_all_forall cedt_entry_ref _ cedt_entry_good ops [] es Ees). constructor. }
  unfold c03_self. change (ts_walk (spec_of 20)) with (Some (36%nat, H_u8_x_u16)).
  apply (c03_self_at_ref 20 36%nat H_u8_x_u16 cedt_ty); try assumption; try reflexivity.
  - eapply Forall_impl; [|exact HG]. intros e [Hsd _]. exact Hsd.
  - eapply Forall_impl; [|exact HG]. intros e [_ Hok]. exact Hok.
Qed.

(* the reference image is also exactly tiled in the sense of the run-time judgement [c03_judge] *)
Theorem cedt_reference_tiles : forall ctor ops r,
  ts_image cedt_spec ctor ops = Some r -> c03_judge cedt_spec ctor r ops = true.
Proof.
  intros ctor ops r H.
  destruct (cedt_image_shape ctor ops r H) as (ha & es & Ees & Ho & Ht & ->).
  apply (c03_judge_of_tyf cedt_spec ctor ops _ 36%nat H_u8_x_u16 cedt_ty es).
  - reflexivity.
  - cbn [ts_entries cedt_spec]. unfold cedt_entries_ref. rewrite Ees. reflexivity.
  - apply skipn_ref_table; [reflexivity|exact Ho|exact Ht|reflexivity].
  - eapply Forall_impl; [|apply (sp_all_forall cedt_entry_ref _ cedt_entry_good ops [] es Ees); constructor].
    intros e [Hsd _]. exact Hsd.
  - reflexivity.
Qed.

Print Assumptions cedt_selfcheck.
Print Assumptions cedt_reference_tiles.
