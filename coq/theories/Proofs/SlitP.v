(* SLIT: checksum, length and matrix refinement for every constructor argument and every sequence of
   set_distance calls (C01, C02, C12).  The SLIT is not an addition table: its invariant is proved here directly. *)
From Coq Require Import NArith ZArith List Lia Bool Arith.
From ACPI Require Import Lib.Bytes Lib.Sx Lib.Machine Impl.Checksum Impl.Table Impl.Fields Impl.Run Impl.Madt Impl.Slit
  Spec.Layout Proofs.ChecksumP Proofs.TableP Proofs.MadtP.
Import ListNotations.

Ltac Zify.zify_post_hook ::= Z.to_euclidean_division_equations.

Open Scope N_scope.

Ltac break_sx H :=
  repeat match type of H with
         | context [match ?x with _ => _ end] => is_var x; destruct x; try discriminate H
         end.

Lemma st_Some_inj {A} (x y : A) : Some x = Some y -> x = y.
Proof. congruence. Qed.

(* ---------- the vector model ---------- *)
Lemma st_nth_repeatN {A} (x d : A) n k : (k < n)%nat -> nth k (repeatN x n) d = x.
Proof. revert k; induction n as [|n IH]; intros [|k] H; cbn [repeatN nth]; try lia; auto. apply IH. lia. Qed.

Lemma vlen_vlist x : vlen x = N.of_nat (length (vlist x)).
Proof. destruct x as [n v|l]; cbn [vlen vlist]; [|reflexivity]. rewrite length_repeatN. lia. Qed.

Lemma vget_spec x i o : vget x i = Some o -> i < vlen x /\ o = nth (N.to_nat i) (vlist x) 0.
Proof.
  unfold vget. destruct (N.ltb_spec i (vlen x)) as [Hlt|]; [|discriminate].
  intros H. apply st_Some_inj in H. split; [exact Hlt|]. subst o.
  destruct x as [n v|l]; cbn [vlist vlen] in *; [|reflexivity].
  symmetry. apply st_nth_repeatN. lia.
Qed.

Lemma vget_ok x i : i < vlen x -> vget x i = Some (nth (N.to_nat i) (vlist x) 0).
Proof.
  intros H. unfold vget. apply N.ltb_lt in H as H'. rewrite H'. f_equal.
  destruct x as [n v|l]; cbn [vlist vlen] in *; [|reflexivity].
  symmetry. apply st_nth_repeatN. lia.
Qed.

Lemma vset_spec x i v x' : vset x i v = Some x' -> i < vlen x /\ vlist x' = upd (vlist x) (N.to_nat i) v.
Proof.
  unfold vset. destruct (N.ltb_spec i (vlen x)) as [Hlt|]; [|discriminate].
  intros H. apply st_Some_inj in H. subst x'. split; [exact Hlt|reflexivity].
Qed.

Lemma vset_ok x i v : i < vlen x -> vset x i v = Some (VList (upd (vlist x) (N.to_nat i) v)).
Proof. intros H. unfold vset. apply N.ltb_lt in H. rewrite H. reflexivity. Qed.

(* the closed form used by the constructor is the byte-by-byte accumulation over the filled vector *)
Lemma ck_append_fill_spec s v k : s < 256 -> ck_append s (repeatN v k) = ck_append_fill s v (N.of_nat k).
Proof. intros H. rewrite ck_append_sum8 by exact H. rewrite sumN_repeatN. unfold ck_append_fill. f_equal. lia. Qed.

Lemma zsum_repeatN x n : zsum (repeatN x n) = (Z.of_nat n * Z.of_N x)%Z.
Proof. induction n as [|n IH]; cbn [repeatN zsum]; [lia|]. rewrite IH. lia. Qed.

Lemma zsum_upd l : forall i v, (i < length l)%nat -> zsum (upd l i v) = (zsum l - Z.of_N (nth i l 0%N) + Z.of_N v)%Z.
Proof.
  induction l as [|x l IH]; intros [|i] v H; cbn [length] in H; try lia; cbn [upd zsum nth]; [lia|].
  rewrite IH by lia. lia.
Qed.

(* ---------- the invariant ---------- *)
Definition slit_image0 (s : slit) : list N := hdr_bytes (st_hdr s) (st_len s) 0 ++ q8 (st_loc s) ++ vlist (st_ents s).

Record SInv (s : slit) : Prop := {
  si_hdr : hdr_ok (st_hdr s) = true;
  si_shape : vlen (st_ents s) = st_loc s * st_loc s;
  si_len : st_len s = 44 + st_loc s * st_loc s;
  si_fit : st_len s < 2 ^ 32;
  si_ck_lt : st_ck s < 256;
  si_ck : (Z.of_N (st_ck s) mod 256 = zsum (slit_image0 s) mod 256)%Z;
  si_hck : st_hck s = ck_value (st_ck s)
}.

Lemma length_slit_image s : SInv s -> N.of_nat (length (slit_image s)) = st_len s.
Proof.
  intros I. unfold slit_image. rewrite !app_length, (length_hdr_bytes _ _ _ (si_hdr s I)). unfold q8. rewrite length_le.
  pose proof (si_shape s I) as Hs. rewrite vlen_vlist in Hs. rewrite (si_len s I). lia.
Qed.

(* C01 *)
Lemma sinv_sum8 s : SInv s -> sum8 (slit_image s) = 0.
Proof.
  intros I. destruct I as [Hh _ _ _ Hlt Hck Hhck].
  unfold sum8. apply N2Z.inj. rewrite N2Z.inj_mod by lia. rewrite <- zsum_sumN.
  unfold slit_image. unfold slit_image0 in Hck. rewrite zsum_app, zsum_hdr_bytes in *.
  rewrite Hhck. change (Z.of_N 0) with 0%Z.
  change (0 mod 256) with 0 in Hck. cbn [Z.of_N] in Hck.
  destruct (ck_value_spec (st_ck s) Hlt) as [Hv Hvl]. unfold ck_raw in Hv.
  rewrite (N.mod_small (ck_value (st_ck s)) 256) by exact Hvl.
  set (X := (zsum (hdr_bytes (st_hdr s) 0 0) + zsum (d4 (st_len s)))%Z) in *.
  set (Y := zsum (q8 (st_loc s) ++ vlist (st_ents s))) in *.
  set (c := st_ck s) in *. set (v := ck_value c) in *.
  assert (Hz : ((Z.of_N c + Z.of_N v) mod 256 = 0)%Z) by lia.
  clearbody X Y c v. clear - Hck Hz. lia.
Qed.

(* C02 *)
Lemma hdr_len_field h len cks rest : hdr_ok h = true -> len < 2 ^ 32 -> field_at (hdr_bytes h len cks ++ rest) 4 4 = len.
Proof.
  intros Hh Hfit. unfold hdr_ok in Hh. apply andb_true_iff in Hh. destruct Hh as [Hh _]. apply andb_true_iff in Hh.
  destruct Hh as [Hs _]. apply Nat.eqb_eq in Hs.
  unfold field_at, hdr_bytes. rewrite <- !app_assoc.
  match goal with |- context [skipn 4 (h_sig ?h ++ ?X)] =>
    pose proof (skipn_app_exact (h_sig h) X) as Hsk; rewrite Hs in Hsk; rewrite Hsk end.
  unfold d4. rewrite firstn_le_app. apply unle_le_small. exact Hfit.
Qed.

Lemma sinv_len_field s : SInv s -> field_at (slit_image s) 4 4 = N.of_nat (length (slit_image s)).
Proof.
  intros I. rewrite (length_slit_image s I). unfold slit_image. apply hdr_len_field; [exact (si_hdr s I)|exact (si_fit s I)].
Qed.

(* ---------- the constructor ---------- *)
Lemma slit_new_inv c s0 : slit_new c = Some s0 ->
  SInv s0 /\ forall k, (k < length (vlist (st_ents s0)))%nat -> nth k (vlist (st_ents s0)) 0 = 10.
Proof.
  unfold slit_new. intros H. break_sx H.
  destruct (sx_hdr [83; 76; 73; 84] 1 _ _ _) as [h|] eqn:Eh; [|discriminate]. cbn [option_bind] in H.
  rename n into loc.
  unfold mul_c in H. destruct (N.ltb_spec (loc * loc) U32) as [Hm|]; [|discriminate]. cbn [option_bind] in H.
  unfold add_c in H. destruct (N.ltb_spec (loc * loc + 44) U32) as [Ha|]; [|discriminate]. cbn [option_bind] in H.
  apply st_Some_inj in H. subst s0.
  assert (Hh : hdr_ok h = true) by (eapply sx_hdr_ok; [|exact Eh]; reflexivity).
  split.
  - constructor; cbn [st_hdr st_len st_ck st_hck st_ents st_loc vlen].
    + exact Hh.
    + reflexivity.
    + lia.
    + unfold U32 in Ha. exact Ha.
    + destruct (0 <? loc * loc); [unfold ck_append_fill; apply N.mod_lt; lia|].
      unfold ck_append. apply fold_wadd8_lt. apply fold_wadd8_lt. lia.
    + unfold slit_image0. cbn [st_hdr st_len st_loc st_ents vlist]. rewrite !zsum_app, zsum_repeatN.
      set (hb := hdr_bytes h (loc * loc + 44) 0).
      assert (H0 : (Z.of_N (ck_append (ck_append 0 hb) (q8 loc)) mod 256 = (zsum hb + zsum (q8 loc)) mod 256)%Z).
      { unfold ck_append. rewrite fold_wadd8_Z. rewrite <- Zplus_mod_idemp_l. rewrite fold_wadd8_Z.
        rewrite Zplus_mod_idemp_l. f_equal. }
      destruct (N.ltb_spec 0 (loc * loc)) as [Hp|Hz].
      * unfold ck_append_fill. rewrite N2Z.inj_mod by lia. rewrite Zmod_mod.
        rewrite N2Z.inj_add, N2Z.inj_mul. rewrite <- Zplus_mod_idemp_l. rewrite H0. rewrite Zplus_mod_idemp_l.
        f_equal. rewrite N_nat_Z. change (Z.of_N 10) with 10%Z. lia.
      * replace (loc * loc) with 0 by lia. cbn [N.to_nat Z.of_nat]. rewrite H0. f_equal. lia.
    + reflexivity.
  - intros k Hk. cbn [st_ents vlist] in *. rewrite length_repeatN in Hk. apply st_nth_repeatN. exact Hk.
Qed.

(* ---------- set_distance ---------- *)
Lemma loc_small s : SInv s -> st_loc s < 65536.
Proof.
  intros I. pose proof (si_len s I) as Hl. pose proof (si_fit s I) as Hf. rewrite Hl in Hf.
  destruct (N.lt_ge_cases (st_loc s) 65536) as [H|H]; [exact H|].
  pose proof (N.mul_le_mono 65536 (st_loc s) 65536 (st_loc s) H H) as Hm. lia.
Qed.

(* an operation whose index arithmetic does not wrap: always in the checked profile; in the wrapping profile
   when the two indices are below 2^32 *)
Definition nowrap (md : mode) (a b : N) : Prop := md = Checked \/ (a < 4294967296 /\ b < 4294967296).

Lemma slit_idx_exact md s a b i : SInv s -> slit_idx md s a b = Some i -> nowrap md a b -> i = a + st_loc s * b.
Proof.
  intros I H Hw. pose proof (loc_small s I) as HL. unfold slit_idx, mul_m, add_m in H.
  assert (Hm : nowrap md a b -> md = Wrapping -> st_loc s * b < 281474976710656 /\ a < 4294967296).
  { intros [Hc|[Ha Hb]] Hmd; [congruence|]. split; [|exact Ha].
    apply (N.mul_lt_mono (st_loc s) 65536 b 4294967296 HL Hb). }
  assert (HU : U64 = 18446744073709551616) by reflexivity. rewrite HU in H.
  destruct (N.ltb_spec (st_loc s * b) 18446744073709551616) as [H1|H1].
  - cbn [option_bind] in H. destruct (N.ltb_spec (a + st_loc s * b) 18446744073709551616) as [H2|H2]; [congruence|].
    destruct md; [discriminate|]. destruct (Hm Hw eq_refl). lia.
  - destruct md; [discriminate|]. destruct (Hm Hw eq_refl). lia.
Qed.

Lemma slit_idx_ok md s a b : SInv s -> a < st_loc s -> b < st_loc s -> slit_idx md s a b = Some (a + st_loc s * b).
Proof.
  intros I Ha Hb. pose proof (loc_small s I) as HL. unfold slit_idx, mul_m, add_m.
  assert (Hb' : b < 65536) by lia.
  pose proof (N.mul_lt_mono (st_loc s) 65536 b 65536 HL Hb') as Hm.
  assert (HU : U64 = 18446744073709551616) by reflexivity. rewrite HU.
  destruct (N.ltb_spec (st_loc s * b) 18446744073709551616); [|lia]. cbn [option_bind].
  destruct (N.ltb_spec (a + st_loc s * b) 18446744073709551616); [reflexivity|lia].
Qed.

Lemma row_in_range L a b : a + L * b < L * L -> b < L.
Proof.
  intros H. destruct (N.lt_ge_cases b L) as [Hb|Hb]; [exact Hb|].
  pose proof (N.mul_le_mono_l L b L Hb). lia.
Qed.

Lemma cell_index_lt L a b : a < L -> b < L -> a + L * b < L * L.
Proof.
  intros Ha Hb. assert (H : L * b + L <= L * L).
  { replace (L * b + L) with (L * (b + 1)) by lia. apply N.mul_le_mono_l. lia. }
  lia.
Qed.

Lemma cell_index_inj L a b a' b' : a < L -> a' < L -> a + L * b = a' + L * b' -> a = a' /\ b = b'.
Proof. intros H1 H2 H. destruct (N.div_mod_unique L b b' a a' H1 H2 ltac:(lia)). split; congruence. Qed.

Lemma upd_idem {A} (l : list A) i v : upd (upd l i v) i v = upd l i v.
Proof. revert i; induction l as [|x l IH]; intros [|i]; cbn [upd]; try reflexivity. now rewrite IH. Qed.

Definition cells (s : slit) : list N := vlist (st_ents s).

(* what one accepted call does: both indices were in range, the two mirrored cells (one cell on the diagonal)
   now hold the value, nothing else changed, and the invariant is kept *)
Lemma set_distance_spec md s a b v s' :
  SInv s -> slit_set_distance md s a b v = Some s' -> nowrap md a b -> nowrap md b a ->
  a < st_loc s /\ b < st_loc s /\ SInv s' /\ st_loc s' = st_loc s /\
  cells s' = upd (upd (cells s) (N.to_nat (a + st_loc s * b)) v) (N.to_nat (b + st_loc s * a)) v.
Proof.
  intros I H Hw Hw'. unfold slit_set_distance in H.
  destruct ((a <? st_loc s) && (b <? st_loc s)) eqn:Eab; [|discriminate]. cbn [assert option_bind] in H.
  set (L := st_loc s) in *.
  pose proof (si_shape s I) as Hshape. fold L in Hshape.
  assert (Hlen : N.of_nat (length (cells s)) = L * L) by (unfold cells; rewrite <- vlen_vlist; exact Hshape).
  destruct (N.eqb_spec a b) as [<-|Hab].
  - (* diagonal *)
    destruct (slit_idx md s a a) as [idx|] eqn:Ei; [|discriminate]. cbn [option_bind] in H.
    pose proof (slit_idx_exact md s a a idx I Ei Hw) as ->. fold L in H.
    destruct (vget (st_ents s) (a + L * a)) as [old|] eqn:Eg; [|discriminate]. cbn [option_bind] in H.
    destruct (vset (st_ents s) (a + L * a) v) as [e|] eqn:Es; [|discriminate]. cbn [option_bind] in H.
    apply st_Some_inj in H. subst s'.
    destruct (vget_spec _ _ _ Eg) as [Hlt Hold]. destruct (vset_spec _ _ _ _ Es) as [_ He].
    rewrite Hshape in Hlt. pose proof (row_in_range L a a Hlt) as Ha.
    split; [exact Ha|]. split; [exact Ha|].
    assert (Hcells : vlist e = upd (cells s) (N.to_nat (a + L * a)) v) by exact He.
    split; [|split; [reflexivity|]].
    + constructor; cbn [slit_with st_hdr st_len st_ck st_hck st_ents st_loc]; try reflexivity; try (destruct I; assumption).
      * rewrite vlen_vlist, Hcells, length_upd. fold L. exact Hlen.
      * unfold ck_append. apply fold_wadd8_lt. unfold ck_delete. apply fold_wsub8_lt. exact (si_ck_lt s I).
      * change (ck_append (ck_delete (st_ck s) [old]) [v]) with (fold_left ck_step [CkDelete [old]; CkAppend [v]] (st_ck s)).
        rewrite ck_fold_Z. rewrite <- Zplus_mod_idemp_l, (si_ck s I), Zplus_mod_idemp_l.
        unfold slit_image0. cbn [slit_with st_hdr st_len st_ents st_loc net op_added op_removed zsum].
        rewrite !zsum_app. rewrite Hcells. rewrite zsum_upd by (unfold cells in *; lia).
        unfold cells. rewrite <- Hold. f_equal. lia.
    + unfold cells at 1. cbn [slit_with st_ents]. rewrite Hcells. symmetry. apply upd_idem.
  - (* off the diagonal *)
    destruct (slit_idx md s a b) as [i1|] eqn:E1; [|discriminate]. cbn [option_bind] in H.
    pose proof (slit_idx_exact md s a b i1 I E1 Hw) as ->. fold L in H.
    destruct (vget (st_ents s) (a + L * b)) as [o1|] eqn:Eg1; [|discriminate]. cbn [option_bind] in H.
    destruct (slit_idx md s b a) as [i2|] eqn:E2; [|discriminate]. cbn [option_bind] in H.
    pose proof (slit_idx_exact md s b a i2 I E2 Hw') as ->. fold L in H.
    destruct (vget (st_ents s) (b + L * a)) as [o2|] eqn:Eg2; [|discriminate]. cbn [option_bind] in H.
    destruct (vset (st_ents s) (a + L * b) v) as [e1|] eqn:Es1; [|discriminate]. cbn [option_bind] in H.
    destruct (vset e1 (b + L * a) v) as [e2|] eqn:Es2; [|discriminate]. cbn [option_bind] in H.
    apply st_Some_inj in H. subst s'.
    destruct (vget_spec _ _ _ Eg1) as [Hlt1 Ho1]. destruct (vget_spec _ _ _ Eg2) as [Hlt2 Ho2].
    destruct (vset_spec _ _ _ _ Es1) as [_ He1]. destruct (vset_spec _ _ _ _ Es2) as [_ He2].
    rewrite Hshape in Hlt1, Hlt2.
    pose proof (row_in_range L a b Hlt1) as Hb. pose proof (row_in_range L b a Hlt2) as Ha.
    split; [exact Ha|]. split; [exact Hb|].
    assert (Hne : N.to_nat (a + L * b) <> N.to_nat (b + L * a)).
    { intros Heq. apply N2Nat.inj in Heq. destruct (cell_index_inj L a b b a Ha Hb Heq). congruence. }
    assert (Hcells : vlist e2 = upd (upd (cells s) (N.to_nat (a + L * b)) v) (N.to_nat (b + L * a)) v).
    { rewrite He2, He1. reflexivity. }
    split; [|split; [reflexivity|exact Hcells]].
    constructor; cbn [slit_with st_hdr st_len st_ck st_hck st_ents st_loc]; try reflexivity; try (destruct I; assumption).
    + rewrite vlen_vlist, Hcells, !length_upd. fold L. exact Hlen.
    + unfold ck_append. apply fold_wadd8_lt. unfold ck_delete. apply fold_wsub8_lt. exact (si_ck_lt s I).
    + change (ck_append (ck_delete (st_ck s) [o1; o2]) [v; v])
        with (fold_left ck_step [CkDelete [o1; o2]; CkAppend [v; v]] (st_ck s)).
      rewrite ck_fold_Z. rewrite <- Zplus_mod_idemp_l, (si_ck s I), Zplus_mod_idemp_l.
      unfold slit_image0. cbn [slit_with st_hdr st_len st_ents st_loc net op_added op_removed zsum].
      rewrite !zsum_app. rewrite Hcells.
      rewrite zsum_upd by (rewrite length_upd; unfold cells in *; lia).
      rewrite nth_upd_other by exact Hne.
      rewrite zsum_upd by (unfold cells in *; lia).
      unfold cells. rewrite <- Ho1, <- Ho2. f_equal. lia.
Qed.

(* every in-range pair is accepted, in both profiles *)
Lemma set_distance_accepts md s a b v : SInv s -> a < st_loc s -> b < st_loc s ->
  exists s', slit_set_distance md s a b v = Some s'.
Proof.
  intros I Ha Hb. unfold slit_set_distance.
  assert (Eab0 : (a <? st_loc s) && (b <? st_loc s) = true) by (apply andb_true_iff; split; apply N.ltb_lt; assumption).
  rewrite Eab0. cbn [assert option_bind].
  pose proof (si_shape s I) as Hshape.
  pose proof (cell_index_lt _ _ _ Ha Hb) as H1. pose proof (cell_index_lt _ _ _ Hb Ha) as H2.
  rewrite (slit_idx_ok md s a b I Ha Hb), (slit_idx_ok md s b a I Hb Ha). cbn [option_bind].
  destruct (a =? b) eqn:Eab.
  - apply N.eqb_eq in Eab. subst b.
    rewrite vget_ok by (rewrite Hshape; exact H1). cbn [option_bind].
    rewrite vset_ok by (rewrite Hshape; exact H1). cbn [option_bind]. eexists; reflexivity.
  - rewrite vget_ok by (rewrite Hshape; exact H1). cbn [option_bind].
    rewrite vget_ok by (rewrite Hshape; exact H2). cbn [option_bind].
    rewrite vset_ok by (rewrite Hshape; exact H1). cbn [option_bind].
    rewrite vset_ok.
    + cbn [option_bind]. eexists; reflexivity.
    + cbn [vlen]. rewrite length_upd, <- vlen_vlist, Hshape. exact H2.
Qed.

(* ---------- histories ---------- *)
Fixpoint slit_run (md : mode) (s : slit) (ops : list (N * N * N)) : option slit :=
  match ops with
  | [] => Some s
  | (a, b, v) :: r => match slit_set_distance md s a b v with Some s' => slit_run md s' r | None => None end
  end.

(* the public step is set_distance on the value truncated to u8 *)
Lemma slit_step_is md s a b v :
  slit_step md s (SL [SA 1; SA a; SA b; SA v]) =
  option_map (fun s' => (s', [EvNum 0])) (slit_set_distance md s a b (cast U8 v)).
Proof. unfold slit_step. destruct (slit_set_distance md s a b (cast U8 v)); reflexivity. Qed.

(* the abstract matrix: the last value assigned to the unordered pair {i, j}; d if never assigned *)
Fixpoint slit_last (i j : N) (ops : list (N * N * N)) (d : N) : N :=
  match ops with
  | [] => d
  | (a, b, v) :: r => slit_last i j r (if ((a =? i) && (b =? j)) || ((a =? j) && (b =? i)) then v else d)
  end.

Lemma slit_last_sym i j ops : forall d, slit_last i j ops d = slit_last j i ops d.
Proof.
  induction ops as [|[[a b] v] r IH]; intros d; cbn [slit_last]; [reflexivity|].
  rewrite IH. rewrite (orb_comm ((a =? i) && (b =? j))). reflexivity.
Qed.

Definition op_nowrap (md : mode) (o : N * N * N) : Prop := nowrap md (fst (fst o)) (snd (fst o)).
Definition op_in_range (L : N) (o : N * N * N) : Prop := fst (fst o) < L /\ snd (fst o) < L.

(* the cell for the ordered pair (i, j) as the code indexes it *)
Definition mcell (s : slit) (i j : N) : N := nth (N.to_nat (i + st_loc s * j)) (cells s) 0.

Lemma nowrap_sym md a b : nowrap md a b -> nowrap md b a.
Proof. intros [H|[H1 H2]]; [left; exact H|right; split; assumption]. Qed.

Lemma two_cell_update (l : list N) L a b i j v : N.of_nat (length l) = L * L ->
  a < L -> b < L -> i < L -> j < L ->
  nth (N.to_nat (i + L * j)) (upd (upd l (N.to_nat (a + L * b)) v) (N.to_nat (b + L * a)) v) 0 =
  if ((a =? i) && (b =? j)) || ((a =? j) && (b =? i)) then v else nth (N.to_nat (i + L * j)) l 0.
Proof.
  intros Hlen Ha Hb Hi Hj.
  pose proof (cell_index_lt L i j Hi Hj) as Hk. pose proof (cell_index_lt L a b Ha Hb) as H1.
  pose proof (cell_index_lt L b a Hb Ha) as H2.
  destruct (N.eq_dec (i + L * j) (b + L * a)) as [E2|N2].
  - destruct (cell_index_inj L i j b a Hi Hb E2) as [-> ->]. rewrite !N.eqb_refl. cbn [andb]. rewrite orb_true_r.
    apply nth_upd_same. rewrite length_upd. lia.
  - rewrite nth_upd_other by (intros Heq; apply N2Nat.inj in Heq; congruence).
    destruct (N.eq_dec (i + L * j) (a + L * b)) as [E1|N1].
    + destruct (cell_index_inj L i j a b Hi Ha E1) as [-> ->]. rewrite !N.eqb_refl. cbn [andb orb].
      apply nth_upd_same. lia.
    + rewrite nth_upd_other by (intros Heq; apply N2Nat.inj in Heq; congruence).
      destruct (N.eqb_spec a i) as [Eai|Eai]; destruct (N.eqb_spec b j) as [Ebj|Ebj];
        destruct (N.eqb_spec a j) as [Eaj|Eaj]; destruct (N.eqb_spec b i) as [Ebi|Ebi]; cbn [andb orb]; try reflexivity;
        exfalso; first [apply N1; subst; reflexivity | apply N2; subst; reflexivity].
Qed.

(* after any accepted history: the invariant, every operation was in range, and each cell holds the last value
   assigned to its unordered pair *)
Theorem slit_run_spec md ops : forall s s',
  SInv s -> slit_run md s ops = Some s' -> Forall (op_nowrap md) ops ->
  SInv s' /\ st_loc s' = st_loc s /\ Forall (op_in_range (st_loc s)) ops /\
  forall i j, i < st_loc s -> j < st_loc s -> mcell s' i j = slit_last i j ops (mcell s i j).
Proof.
  induction ops as [|[[a b] v] r IH]; intros s s' I H Hw; cbn [slit_run] in H.
  - apply st_Some_inj in H. subst s'. split; [exact I|]. split; [reflexivity|]. split; [constructor|]. intros; reflexivity.
  - destruct (slit_set_distance md s a b v) as [s1|] eqn:E1; [|discriminate].
    inversion Hw as [|x l Hw1 Hwr]; subst. unfold op_nowrap in Hw1. cbn [fst snd] in Hw1.
    destruct (set_distance_spec md s a b v s1 I E1 Hw1 (nowrap_sym _ _ _ Hw1)) as (Ha & Hb & I1 & HL1 & Hc1).
    destruct (IH s1 s' I1 H Hwr) as (I' & HL' & Hr' & Hc').
    split; [exact I'|]. split; [congruence|]. split.
    + constructor; [split; assumption|]. rewrite <- HL1. exact Hr'.
    + intros i j Hi Hj. cbn [slit_last]. rewrite Hc' by (rewrite HL1; assumption). f_equal.
      unfold mcell. rewrite HL1, Hc1. apply two_cell_update; try assumption.
      unfold cells. rewrite <- vlen_vlist. exact (si_shape s I).
Qed.

(* every history of in-range pairs is accepted, in both profiles *)
Theorem slit_run_accepts md ops : forall s, SInv s -> Forall (op_in_range (st_loc s)) ops ->
  exists s', slit_run md s ops = Some s'.
Proof.
  induction ops as [|[[a b] v] r IH]; intros s I Hr; cbn [slit_run]; [eexists; reflexivity|].
  inversion Hr as [|x l [Ha Hb] Hr']; subst. cbn [fst snd] in Ha, Hb.
  destruct (set_distance_accepts md s a b v I Ha Hb) as [s1 E1]. rewrite E1.
  pose proof (loc_small s I) as HL.
  assert (Hw : nowrap md a b) by (right; split; lia).
  destruct (set_distance_spec md s a b v s1 I E1 Hw (nowrap_sym _ _ _ Hw)) as (_ & _ & I1 & HL1 & _).
  apply (IH s1 I1). rewrite HL1. exact Hr'.
Qed.

(* ---------- the statements on the emitted image ---------- *)
(* Entry[i][j] of the image: the byte at offset 44 + i * localities + j *)
Definition image_cell (s : slit) (i j : N) : N := nth (44 + N.to_nat (i * st_loc s + j)) (slit_image s) 0.

Lemma image_cell_mcell s i j : SInv s -> image_cell s i j = mcell s j i.
Proof.
  intros I. unfold image_cell, mcell, slit_image, cells.
  rewrite app_nth2 by (rewrite (length_hdr_bytes _ _ _ (si_hdr s I)); lia).
  rewrite (length_hdr_bytes _ _ _ (si_hdr s I)).
  rewrite app_nth2 by (unfold q8; rewrite length_le; lia).
  unfold q8. rewrite length_le. f_equal. lia.
Qed.

Theorem slit_correct md c ops s0 s :
  slit_new c = Some s0 -> slit_run md s0 ops = Some s -> Forall (op_nowrap md) ops ->
  sum8 (slit_image s) = 0 /\
  field_at (slit_image s) 4 4 = N.of_nat (length (slit_image s)) /\
  st_loc s = st_loc s0 /\
  Forall (op_in_range (st_loc s0)) ops /\
  forall i j, i < st_loc s0 -> j < st_loc s0 ->
    image_cell s i j = slit_last i j ops 10 /\ image_cell s j i = slit_last i j ops 10.
Proof.
  intros Hn Hr Hw. destruct (slit_new_inv c s0 Hn) as [I0 Hd].
  destruct (slit_run_spec md ops s0 s I0 Hr Hw) as (I & HL & Hin & Hc).
  split; [exact (sinv_sum8 s I)|]. split; [exact (sinv_len_field s I)|]. split; [exact HL|]. split; [exact Hin|].
  assert (Hdef : forall i j, i < st_loc s0 -> j < st_loc s0 -> mcell s0 i j = 10).
  { intros i j Hi Hj. unfold mcell, cells. apply Hd.
    pose proof (cell_index_lt _ _ _ Hi Hj) as Hk. pose proof (si_shape s0 I0) as Hs. rewrite vlen_vlist in Hs. lia. }
  intros i j Hi Hj. rewrite !(image_cell_mcell s) by exact I.
  rewrite (Hc j i Hj Hi), (Hc i j Hi Hj), !Hdef by assumption. split; [apply slit_last_sym|reflexivity].
Qed.

Theorem slit_accepts md c ops s0 :
  slit_new c = Some s0 -> Forall (op_in_range (st_loc s0)) ops -> exists s, slit_run md s0 ops = Some s.
Proof. intros Hn Hr. destruct (slit_new_inv c s0 Hn) as [I0 _]. exact (slit_run_accepts md ops s0 I0 Hr). Qed.

(* ---- with the bounds assert of set_distance, every accepted call has in-range (hence non-wrapping) indices ---- *)
Lemma accepted_in_range md s a b v s' : slit_set_distance md s a b v = Some s' -> a < st_loc s /\ b < st_loc s.
Proof.
  unfold slit_set_distance. destruct ((a <? st_loc s) && (b <? st_loc s)) eqn:E; [|discriminate]. intros _.
  apply andb_true_iff in E. destruct E as [E1 E2]. apply N.ltb_lt in E1, E2. split; assumption.
Qed.

Lemma accepted_nowrap md s a b v s' : SInv s -> slit_set_distance md s a b v = Some s' -> nowrap md a b.
Proof.
  intros I H. destruct (accepted_in_range md s a b v s' H) as [Ha Hb]. pose proof (loc_small s I) as HL.
  right. split; lia.
Qed.

Lemma slit_run_nowrap md ops : forall s s', SInv s -> slit_run md s ops = Some s' -> Forall (op_nowrap md) ops.
Proof.
  induction ops as [|[[a b] v] r IH]; intros s s' I H; [constructor|]. cbn [slit_run] in H.
  destruct (slit_set_distance md s a b v) as [s1|] eqn:E; [|discriminate].
  pose proof (accepted_nowrap md s a b v s1 I E) as Hw.
  destruct (set_distance_spec md s a b v s1 I E Hw (nowrap_sym _ _ _ Hw)) as (_ & _ & I1 & _).
  constructor; [exact Hw|]. exact (IH s1 s' I1 H).
Qed.

(* C12 / C01 / C02 for the SLIT, for every constructor argument and every accepted sequence of set_distance calls,
   in both build profiles, without side conditions *)
Theorem slit_correct_all md c ops s0 s :
  slit_new c = Some s0 -> slit_run md s0 ops = Some s ->
  sum8 (slit_image s) = 0 /\
  field_at (slit_image s) 4 4 = N.of_nat (length (slit_image s)) /\
  Forall (op_in_range (st_loc s0)) ops /\
  forall i j, i < st_loc s0 -> j < st_loc s0 ->
    image_cell s i j = slit_last i j ops 10 /\ image_cell s j i = slit_last i j ops 10.
Proof.
  intros Hn Hr. destruct (slit_new_inv c s0 Hn) as [I0 _].
  pose proof (slit_run_nowrap md ops s0 s I0 Hr) as Hw.
  destruct (slit_correct md c ops s0 s Hn Hr Hw) as (H1 & H2 & _ & H4 & H5). auto.
Qed.
