(* FADT (component 26): the Impl model refines the Spec.
   For every constructor argument and every finite sequence of builder calls inside the specification's domain, in both build
   modes, the model accepts the history and the finalized image is byte for byte the reference image
   (`ref_table "FACP" 6 hdr body`, body = the ACPI 6.5 layout of the values the calls determine).  Consequences: the Flags dword
   of the image is the union of the requested flags' bits (C11), the profile byte is the last requested profile. *)
From Coq Require Import NArith ZArith List Lia Bool Arith.
From ACPI Require Import Lib.Bytes Lib.Sx Lib.Machine Impl.Checksum Impl.Table Impl.Fields Impl.Run Impl.Madt Impl.Gas Impl.Fadt
  Spec.Layout Spec.GasS Spec.FadtS Proofs.ChecksumP Proofs.TableP Proofs.MadtP Proofs.FixedP Proofs.FadtP Proofs.RefFixedCommonP.
Import ListNotations.

Ltac Zify.zify_post_hook ::= Z.to_euclidean_division_equations.

Open Scope N_scope.

(* ---------- the abstraction: the FADTBuilder value that holds the Spec's values ---------- *)

(* the fields after the header (indices 30..128), holding the values of [v] *)
Definition fadt_body_flds (v : fadt_vals) : flds :=
  [F 4 (v_fw v); F 4 (v_dsdt v); F 1 0; F 1 (v_profile v); F 2 0; F 4 0; F 1 (v_enable v); F 1 (v_disable v); F 1 0; F 1 0;
   F 4 0; F 4 0; F 4 0; F 4 0; F 4 0; F 4 0; F 4 (v_gpe0 v); F 4 (v_gpe1 v);
   F 1 0; F 1 0; F 1 0; F 1 0; F 1 (v_gpe0_len v); F 1 (v_gpe1_len v); F 1 (v_gpe1_base v); F 1 0;
   F 2 0; F 2 0; F 2 0; F 2 0; F 1 0; F 1 0; F 1 0; F 1 0; F 1 0; F 2 0; F 1 0; F 4 (v_flags v)]
  ++ gas_default ++ [F 1 0; F 2 0; F 1 5; F 8 (v_xfw v); F 8 (v_xdsdt v)]
  ++ gas_default ++ gas_default ++ gas_default ++ gas_default ++ gas_default
  ++ gas_default ++ gas_default ++ gas_default ++ gas_default ++ gas_default
  ++ [F 8 0].

(* the whole struct, with checksum byte [c] *)
Definition fadt_flds (oem tbl : list N) (orev c : N) (v : fadt_vals) : flds :=
  fbytes [70; 65; 67; 80]
  ++ [F 4 FADT_LEN; F 1 6; F 1 c] ++ fbytes oem ++ fbytes tbl ++ [F 4 orev] ++ fbytes CREATOR_ID ++ fbytes CREATOR_REVISION
  ++ fadt_body_flds v.

Lemma fadt_new_flds_abs oem tbl orev : fadt_new_flds oem tbl orev = fadt_flds oem tbl orev 0 fadt_vals0.
Proof. reflexivity. Qed.

Lemma fadt_flds_set_ck oem tbl orev c c' v :
  fset (fadt_flds oem tbl orev c v) I_CHECKSUM c' = fadt_flds oem tbl orev c' v.
Proof. reflexivity. Qed.

Lemma fadt_flds_widths oem tbl orev c v : length oem = 6%nat -> length tbl = 8%nat ->
  widths (fadt_flds oem tbl orev c v) = FADT_WIDTHS.
Proof.
  intros Ho Ht.
  destruct oem as [|o0 [|o1 [|o2 [|o3 [|o4 [|o5 [|]]]]]]]; try discriminate.
  destruct tbl as [|t0 [|t1 [|t2 [|t3 [|t4 [|t5 [|t6 [|t7 [|]]]]]]]]]; try discriminate.
  reflexivity.
Qed.

(* ---------- one builder call ---------- *)

Lemma flag_bits_ref i : flag_bits i = flag_ref i.
Proof.
  unfold flag_bits, flag_ref. destruct (i <=? 21).
  - rewrite N.shiftl_mul_pow2, N.mul_1_l. reflexivity.
  - repeat (destruct i as [|i]; try reflexivity; destruct i as [i|i|]; try reflexivity).
Qed.

(* whenever the Spec accepts the call on the values [v], the model accepts it on the abstraction of [v] and reaches the
   abstraction of the Spec's new values *)
Lemma fadt_builder_sim oem tbl orev c v o : length oem = 6%nat -> length tbl = 8%nat ->
  match fadt_apply v o with
  | Some v' => fadt_builder (fadt_flds oem tbl orev c v) o = Some (fadt_flds oem tbl orev c v')
  | None => True
  end.
Proof.
  intros Ho Ht.
  destruct oem as [|o0 [|o1 [|o2 [|o3 [|o4 [|o5 [|]]]]]]]; try discriminate.
  destruct tbl as [|t0 [|t1 [|t2 [|t3 [|t4 [|t5 [|t6 [|t7 [|]]]]]]]]]; try discriminate.
  destruct v as [fw xfw dsdt xdsdt en dis flags g0 g1 l0 l1 gb p].
  unfold fadt_apply, fadt_builder.
  repeat (match goal with
          | |- match (match ?x with _ => _ end) with _ => _ end => destruct x eqn:?
          end; try exact I);
  try reflexivity.
  (* flag(i) *)
  match goal with E : flag_ref ?i = Some _ |- _ => rewrite (flag_bits_ref i), E end.
  reflexivity.
Qed.

(* ---------- histories ---------- *)

Lemma fadt_run_sim md oem tbl orev c ops : length oem = 6%nat -> length tbl = 8%nat ->
  forall v v', fadt_fold v ops = Some v' ->
  run_steps (fadt_step md) (fadt_flds oem tbl orev c v) ops = Some (fadt_flds oem tbl orev c v').
Proof.
  intros Ho Ht. induction ops as [|o ops IH]; intros v v' H; cbn [fadt_fold] in H.
  - inversion H; subst. reflexivity.
  - destruct (fadt_apply v o) as [v1|] eqn:Ea; [|discriminate].
    pose proof (fadt_builder_sim oem tbl orev c v o Ho Ht) as Hb. rewrite Ea in Hb.
    destruct o as [n|l]; [destruct v; discriminate Ea|].
    cbn [run_steps]. unfold fadt_step. rewrite Hb. cbn [option_bind]. apply IH. exact H.
Qed.

(* ---------- the finalized image ---------- *)

(* the reference layout of the body (the field table of Spec/FadtS.v `fadt_body`) *)
Definition fadt_layout (v : fadt_vals) : layout :=
    ([L 36 4 (v_fw v); L 40 4 (v_dsdt v); L 44 1 0; L 45 1 (v_profile v);
      L 46 2 0; L 48 4 0; L 52 1 (v_enable v); L 53 1 (v_disable v);
      L 54 1 0; L 55 1 0;
      L 56 4 0; L 60 4 0; L 64 4 0; L 68 4 0;
      L 72 4 0; L 76 4 0; L 80 4 (v_gpe0 v); L 84 4 (v_gpe1 v);
      L 88 1 0; L 89 1 0; L 90 1 0; L 91 1 0;
      L 92 1 (v_gpe0_len v); L 93 1 (v_gpe1_len v); L 94 1 (v_gpe1_base v);
      L 95 1 0; L 96 2 0; L 98 2 0; L 100 2 0;
      L 102 2 0; L 104 1 0; L 105 1 0; L 106 1 0;
      L 107 1 0; L 108 1 0; L 109 2 0; L 111 1 0;
      L 112 4 (v_flags v)]
     ++ gas0 116
     ++ [L 128 1 0; L 129 2 0; L 131 1 5;
         L 132 8 (v_xfw v); L 140 8 (v_xdsdt v)]
     ++ gas0 148 ++ gas0 160 ++ gas0 172
     ++ gas0 184 ++ gas0 196 ++ gas0 208
     ++ gas0 220 ++ gas0 232 ++ gas0 244
     ++ gas0 256
     ++ [L 268 8 0]).

Lemma fadt_body_layout v : fadt_body v = Some (assemble (fadt_layout v)).
Proof. reflexivity. Qed.

(* per-field content: the packed struct after the header serialises to the reference layout, for all values *)
Lemma fadt_body_flds_ref v : ser_flds (fadt_body_flds v) = assemble (fadt_layout v).
Proof. reflexivity. Qed.

Lemma fadt_body_length v : length (assemble (fadt_layout v)) = 240%nat.
Proof. rewrite length_assemble. reflexivity. Qed.

Lemma fadt_flds_ser oem tbl orev c v : bytes_ok oem = true -> bytes_ok tbl = true ->
  ser_flds (fadt_flds oem tbl orev c v) =
  ref_header [70; 65; 67; 80] 276 6 c oem tbl orev ++ assemble (fadt_layout v).
Proof.
  intros Bo Bt. unfold fadt_flds. rewrite !ser_flds_app, fadt_body_flds_ref.
  rewrite (ser_flds_fbytes oem Bo), (ser_flds_fbytes tbl Bt).
  rewrite !ser_flds_fbytes by reflexivity.
  unfold ref_header. rewrite <- !app_assoc. reflexivity.
Qed.

Theorem fadt_image_is_reference oem tbl orev c v :
  length oem = 6%nat -> length tbl = 8%nat -> bytes_ok oem = true -> bytes_ok tbl = true ->
  fadt_image (fadt_flds oem tbl orev c v) =
  ref_table [70; 65; 67; 80] 6 {| ha_oem := oem; ha_tbl := tbl; ha_orev := orev |} (assemble (fadt_layout v)).
Proof.
  intros Ho Ht Bo Bt.
  pose proof (fadt_image_sum _ (fadt_flds_widths oem tbl orev c v Ho Ht)) as Hs.
  unfold fadt_image in *. rewrite fadt_finalize_eq in *. rewrite !fadt_flds_set_ck in *.
  set (g := generate_checksum _) in *. clearbody g.
  rewrite (fadt_flds_ser oem tbl orev g v Bo Bt) in *.
  apply (ref_table_unique [70; 65; 67; 80] 6 {| ha_oem := oem; ha_tbl := tbl; ha_orev := orev |}); [|exact Hs].
  rewrite fadt_body_length. reflexivity.
Qed.

(* ---------- the refinement theorem ---------- *)

(* the byte-array constructor arguments are bytes *)
Definition fadt_ctor_bytes (ctor : sx) : Prop :=
  match ctor with SL (o :: t :: _) => sx_is_bytes o /\ sx_is_bytes t | _ => True end.

Theorem fadt_refines :
  forall md ctor ops r,
    ts_image fadt_spec ctor ops = Some r ->
    fadt_ctor_bytes ctor ->
    exists f0 f, fadt_new ctor = Some f0 /\
                 run_steps (fadt_step md) f0 ops = Some f /\
                 fadt_image f = r.
Proof.
  intros md ctor ops r H Hb. cbn [ts_image fadt_spec] in H. unfold fadt_ref_image in H.
  destruct ctor as [|l]; [discriminate|].
  destruct l as [|o [|t [|r0 [|x l]]]]; try discriminate.
  destruct (sx_hdr_args o t r0) as [ha|] eqn:Eh; [|discriminate].
  destruct (fadt_fold fadt_vals0 ops) as [v|] eqn:Ef; [|discriminate].
  rewrite fadt_body_layout in H. inversion H; subst r; clear H.
  destruct (sx_hdr_args_inv _ _ _ _ Eh) as (Eo & Et & Er & Lo & Lt).
  destruct Hb as [Bo Bt]. specialize (Bo _ Eo). specialize (Bt _ Et).
  exists (fadt_flds (ha_oem ha) (ha_tbl ha) (ha_orev ha) 0 fadt_vals0),
         (fadt_flds (ha_oem ha) (ha_tbl ha) (ha_orev ha) 0 v).
  split; [|split].
  - unfold fadt_new. rewrite (sx_arr_of_bytes 6 o _ Eo Lo), (sx_arr_of_bytes 8 t _ Et Lt), Er. reflexivity.
  - apply fadt_run_sim; assumption.
  - rewrite (fadt_image_is_reference _ _ _ _ _ Lo Lt Bo Bt). destruct ha; reflexivity.
Qed.

(* the same for the history function of Proofs/FadtP.v *)
Lemma fadt_run_is_run_steps md ops : forall f, fadt_run md f ops = run_steps (fadt_step md) f ops.
Proof.
  induction ops as [|o ops IH]; intros f; cbn [fadt_run run_steps]; [reflexivity|].
  destruct o as [n|l]; [apply IH|]. destruct (fadt_step md f (SL l)) as [[f1 e]|]; [apply IH|reflexivity].
Qed.

Corollary fadt_refines_run md ctor ops r :
  ts_image fadt_spec ctor ops = Some r -> fadt_ctor_bytes ctor ->
  exists f0 f, fadt_new ctor = Some f0 /\ fadt_run md f0 ops = Some f /\ fadt_image f = r.
Proof.
  intros H Hb. destruct (fadt_refines md ctor ops r H Hb) as (f0 & f & H1 & H2 & H3).
  exists f0, f. rewrite fadt_run_is_run_steps. auto.
Qed.

(* ---------- the excluded class: byte-array arguments that are not bytes ----------
   The Spec puts the elements of oem_id / oem_table_id into the reference image as they are; the model serialises the
   [u8; 6] / [u8; 8] fields of the packed struct with `le 1` (mod 256).  An S-expression case with an element >= 256 (which
   no Rust caller can express: the arguments are u8 arrays) is therefore inside the Spec's domain with a different image. *)
Example fadt_refines_refuted :
  exists ctor ops r,
    ts_image fadt_spec ctor ops = Some r /\
    forall md f0 f, fadt_new ctor = Some f0 -> run_steps (fadt_step md) f0 ops = Some f -> fadt_image f <> r.
Proof.
  exists (SL [SL [SA 256; SA 0; SA 0; SA 0; SA 0; SA 0]; SL [SA 0; SA 0; SA 0; SA 0; SA 0; SA 0; SA 0; SA 0]; SA 0]), [].
  eexists. split; [vm_compute; reflexivity|].
  intros md f0 f Hn Hr. vm_compute in Hn. inversion Hn; subst f0; clear Hn.
  cbn [run_steps] in Hr. inversion Hr; subst f; clear Hr.
  vm_compute. discriminate.
Qed.

(* ---------- consequences read off the reference image ---------- *)

(* the values the Spec's fold computes for the flags: the union (N.lor) of the requested flags' bits *)
Definition spec_flag_call (o : sx) : list N :=
  match o with
  | SL [SA 7; SA i] => match flag_ref i with Some b => [b] | None => [] end
  | _ => []
  end.

Lemma fadt_apply_flags v o v' : fadt_apply v o = Some v' ->
  v_flags v' = fold_left N.lor (spec_flag_call o) (v_flags v).
Proof.
  destruct v as [fw xfw dsdt xdsdt en dis flags g0 g1 l0 l1 gb p].
  unfold fadt_apply, spec_flag_call.
  repeat (match goal with
          | |- match ?x with _ => _ end = Some _ -> _ => destruct x eqn:?
          end; try discriminate);
  intros [= <-]; reflexivity.
Qed.

Lemma fadt_fold_flags ops : forall v v', fadt_fold v ops = Some v' ->
  v_flags v' = fold_left N.lor (concat (map spec_flag_call ops)) (v_flags v).
Proof.
  induction ops as [|o ops IH]; intros v v' H; cbn [fadt_fold] in H.
  - inversion H; subst. reflexivity.
  - destruct (fadt_apply v o) as [v1|] eqn:Ea; [|discriminate].
    cbn [map concat]. rewrite fold_left_app, <- (fadt_apply_flags _ _ _ Ea). now apply IH.
Qed.

(* C11 through the refinement: in every in-domain history, the Flags dword (offset 112) of the MODEL's finalized image is the
   union of the bits of the flags requested, whatever the order, the repetitions and the other builder calls *)
Corollary fadt_refines_flags md ctor ops r :
  ts_image fadt_spec ctor ops = Some r -> fadt_ctor_bytes ctor ->
  exists f0 f, fadt_new ctor = Some f0 /\ run_steps (fadt_step md) f0 ops = Some f /\
               field_at (fadt_image f) 112 4 = fold_left N.lor (concat (map spec_flag_call ops)) 0 mod 2 ^ 32.
Proof.
  intros H Hb. destruct (fadt_refines md ctor ops r H Hb) as (f0 & f & Hn & Hr & Hi).
  exists f0, f. split; [exact Hn|]. split; [exact Hr|].
  rewrite <- fadt_run_is_run_steps in Hr.
  rewrite (fadt_flags_in_image md ctor ops f0 f Hn Hr). f_equal.
  (* the model's flag_call and the Spec's agree *)
  unfold flag_calls. f_equal. f_equal. apply map_ext. intros o. unfold flag_call, spec_flag_call.
  repeat match goal with |- match ?x with _ => _ end = match ?x with _ => _ end => destruct x; try reflexivity end.
  rewrite flag_bits_ref. reflexivity.
Qed.

Print Assumptions fadt_refines.
Print Assumptions fadt_refines_refuted.
Print Assumptions fadt_refines_flags.
