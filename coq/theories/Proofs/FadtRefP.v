(* FADT (component 26): the Impl model refines the Spec.
   For every constructor argument and every finite sequence of builder calls and direct assignments of public body fields
   (scalar fields: op 10, GAS fields: op 11) inside the specification's domain, in both build modes, the model accepts the
   history and the finalized image is byte for byte the reference image (`ref_table "FACP" 6 hdr body`, body = the ACPI 6.5
   layout in which every field holds the value last written to it).  Consequences: the Flags dword of the image is the last
   directly assigned value (0 if none) united with the bits of the flags requested after it (C11). *)
From Coq Require Import NArith ZArith List Lia Bool Arith.
From ACPI Require Import Lib.Bytes Lib.Sx Lib.Machine Impl.Checksum Impl.Table Impl.Fields Impl.Run Impl.Madt Impl.Gas Impl.Fadt
  Spec.Layout Spec.GasS Spec.FadtS Proofs.ChecksumP Proofs.TableP Proofs.MadtP Proofs.FixedP Proofs.FadtP Proofs.RefFixedCommonP.
Import ListNotations.

Ltac Zify.zify_post_hook ::= Z.to_euclidean_division_equations.

Open Scope N_scope.

(* ---------- the abstraction: the FADTBuilder value that holds the Spec's values ---------- *)

(* a GAS whose five fields hold the values written at table offsets off .. off+4 *)
Definition gas_flds (v : fadt_vals) (off : N) : flds :=
  [F 1 (val v off); F 1 (val v (off + 1)); F 1 (val v (off + 2)); F 1 (val v (off + 3)); F 8 (val v (off + 4))].

(* the fields after the header (indices 30..128), holding the values of [v] *)
Definition fadt_body_flds (v : fadt_vals) : flds :=
  [F 4 (val v 36); F 4 (val v 40); F 1 0; F 1 (val v 45); F 2 (val v 46); F 4 (val v 48); F 1 (val v 52); F 1 (val v 53);
   F 1 (val v 54); F 1 (val v 55);
   F 4 (val v 56); F 4 (val v 60); F 4 (val v 64); F 4 (val v 68); F 4 (val v 72); F 4 (val v 76); F 4 (val v 80); F 4 (val v 84);
   F 1 (val v 88); F 1 (val v 89); F 1 (val v 90); F 1 (val v 91); F 1 (val v 92); F 1 (val v 93); F 1 (val v 94); F 1 (val v 95);
   F 2 (val v 96); F 2 (val v 98); F 2 (val v 100); F 2 (val v 102); F 1 (val v 104); F 1 (val v 105); F 1 (val v 106);
   F 1 (val v 107); F 1 (val v 108); F 2 (val v 109); F 1 0; F 4 (val v 112)]
  ++ gas_flds v 116 ++ [F 1 (val v 128); F 2 (val v 129); F 1 (val v 131); F 8 (val v 132); F 8 (val v 140)]
  ++ gas_flds v 148 ++ gas_flds v 160 ++ gas_flds v 172 ++ gas_flds v 184 ++ gas_flds v 196
  ++ gas_flds v 208 ++ gas_flds v 220 ++ gas_flds v 232 ++ gas_flds v 244 ++ gas_flds v 256
  ++ [F 8 (val v 268)].

(* the whole struct, with checksum byte [c] *)
Definition fadt_flds (oem tbl : list N) (orev c : N) (v : fadt_vals) : flds :=
  fbytes [70; 65; 67; 80]
  ++ [F 4 FADT_LEN; F 1 6; F 1 c] ++ fbytes oem ++ fbytes tbl ++ [F 4 orev] ++ fbytes CREATOR_ID ++ fbytes CREATOR_REVISION
  ++ fadt_body_flds v.

Lemma fadt_new_flds_abs oem tbl orev : fadt_new_flds oem tbl orev = fadt_flds oem tbl orev 0 fadt_vals0.
Proof. reflexivity. Qed.

Lemma fadt_flds_set_ck oem tbl orev c c' v :
  fset (fadt_flds oem tbl orev c v) I_CHECKSUM c' = fadt_flds oem tbl orev c' v.
Proof. reflexivity. Qed.

Lemma fadt_flds_widths oem tbl orev c v : length oem = 6%nat -> length tbl = 8%nat ->
  widths (fadt_flds oem tbl orev c v) = FADT_WIDTHS.
Proof.
  intros Ho Ht.
  destruct oem as [|o0 [|o1 [|o2 [|o3 [|o4 [|o5 [|]]]]]]]; try discriminate.
  destruct tbl as [|t0 [|t1 [|t2 [|t3 [|t4 [|t5 [|t6 [|t7 [|]]]]]]]]]; try discriminate.
  reflexivity.
Qed.

(* ---------- one builder call ---------- *)

Lemma flag_bits_ref i : flag_bits i = flag_ref i.
Proof.
  unfold flag_bits, flag_ref. destruct (i <=? 21).
  - rewrite N.shiftl_mul_pow2, N.mul_1_l. reflexivity.
  - repeat (destruct i as [|i]; try reflexivity; destruct i as [i|i|]; try reflexivity).
Qed.

(* direct assignment of scalar field k: the Spec writes at the field's offset what the model stores in the field *)
Lemma fadt_assign_sim oem tbl orev c v k x : length oem = 6%nat -> length tbl = 8%nat ->
  match fadt_assign v k x with
  | Some v' => fadt_assign_m (fadt_flds oem tbl orev c v) k x = Some (fadt_flds oem tbl orev c v')
  | None => True
  end.
Proof.
  intros Ho Ht.
  destruct oem as [|o0 [|o1 [|o2 [|o3 [|o4 [|o5 [|]]]]]]]; try discriminate.
  destruct tbl as [|t0 [|t1 [|t2 [|t3 [|t4 [|t5 [|t6 [|t7 [|]]]]]]]]]; try discriminate.
  unfold fadt_assign, fadt_assign_m. generalize (N.to_nat k) as n. intros n.
  do 42 (destruct n as [|n];
         [cbn [nth_error fadt_scalars FADT_ASSIGNABLE];
          match goal with |- match (if ?b then _ else _) with _ => _ end => destruct b eqn:Hx end; [|exact I];
          apply N.ltb_lt in Hx; rewrite (N.mod_small _ _ Hx); reflexivity|]).
  destruct n; exact I.
Qed.

(* direct assignment of GAS field g *)
Lemma fadt_assign_gas_sim oem tbl orev c v g sp bw bo ac addr : length oem = 6%nat -> length tbl = 8%nat ->
  match fadt_assign_gas v g sp bw bo ac addr with
  | Some v' => fadt_assign_gas_m (fadt_flds oem tbl orev c v) g sp bw bo ac addr = Some (fadt_flds oem tbl orev c v')
  | None => True
  end.
Proof.
  intros Ho Ht.
  destruct oem as [|o0 [|o1 [|o2 [|o3 [|o4 [|o5 [|]]]]]]]; try discriminate.
  destruct tbl as [|t0 [|t1 [|t2 [|t3 [|t4 [|t5 [|t6 [|t7 [|]]]]]]]]]; try discriminate.
  unfold fadt_assign_gas, fadt_assign_gas_m. generalize (N.to_nat g) as n. intros n.
  do 11 (destruct n as [|n];
         [cbn [nth_error fadt_gas_offs FADT_GAS_FIELDS];
          match goal with |- match (if ?b then _ else _) with _ => _ end => destruct b end; [|exact I];
          reflexivity|]).
  destruct n; exact I.
Qed.

(* whenever the Spec accepts the call on the values [v], the model accepts it on the abstraction of [v] and reaches the
   abstraction of the Spec's new values *)
Lemma fadt_builder_sim oem tbl orev c v o : length oem = 6%nat -> length tbl = 8%nat ->
  match fadt_apply v o with
  | Some v' => fadt_builder (fadt_flds oem tbl orev c v) o = Some (fadt_flds oem tbl orev c v')
  | None => True
  end.
Proof.
  intros Ho Ht.
  pose proof (fun k x => fadt_assign_sim oem tbl orev c v k x Ho Ht) as Hscalar.
  pose proof (fun g sp bw bo ac addr => fadt_assign_gas_sim oem tbl orev c v g sp bw bo ac addr Ho Ht) as Hgas.
  destruct oem as [|o0 [|o1 [|o2 [|o3 [|o4 [|o5 [|]]]]]]]; try discriminate.
  destruct tbl as [|t0 [|t1 [|t2 [|t3 [|t4 [|t5 [|t6 [|t7 [|]]]]]]]]]; try discriminate.
  unfold fadt_apply, fadt_builder.
  repeat (match goal with
          | |- match (match ?x with _ => _ end) with _ => _ end => destruct x eqn:?
          end; try exact I);
  try reflexivity; try apply Hscalar; try apply Hgas.
  (* flag(i) *)
  match goal with E : flag_ref ?i = Some _ |- _ => rewrite (flag_bits_ref i), E end.
  reflexivity.
Qed.

(* ---------- histories ---------- *)

Lemma fadt_run_sim md oem tbl orev c ops : length oem = 6%nat -> length tbl = 8%nat ->
  forall v v', fadt_fold v ops = Some v' ->
  run_steps (fadt_step md) (fadt_flds oem tbl orev c v) ops = Some (fadt_flds oem tbl orev c v').
Proof.
  intros Ho Ht. induction ops as [|o ops IH]; intros v v' H; cbn [fadt_fold] in H.
  - inversion H; subst. reflexivity.
  - destruct (fadt_apply v o) as [v1|] eqn:Ea; [|discriminate].
    pose proof (fadt_builder_sim oem tbl orev c v o Ho Ht) as Hb. rewrite Ea in Hb.
    destruct o as [n|l]; [discriminate Ea|].
    cbn [run_steps]. unfold fadt_step. rewrite Hb. cbn [option_bind]. apply IH. exact H.
Qed.

(* ---------- the finalized image ---------- *)

(* the reference layout of the body (Spec/FadtS.v `fadt_layout`) assembles for all values *)
Lemma fadt_body_layout v : fadt_body v = Some (assemble (fadt_layout v)).
Proof. reflexivity. Qed.

(* per-field content: the packed struct after the header serialises to the reference layout, for all values *)
Lemma fadt_body_flds_ref v : ser_flds (fadt_body_flds v) = assemble (fadt_layout v).
Proof. reflexivity. Qed.

Lemma fadt_body_length v : length (assemble (fadt_layout v)) = 240%nat.
Proof. rewrite length_assemble. reflexivity. Qed.

Lemma fadt_flds_ser oem tbl orev c v : bytes_ok oem = true -> bytes_ok tbl = true ->
  ser_flds (fadt_flds oem tbl orev c v) =
  ref_header [70; 65; 67; 80] 276 6 c oem tbl orev ++ assemble (fadt_layout v).
Proof.
  intros Bo Bt. unfold fadt_flds. rewrite !ser_flds_app, fadt_body_flds_ref.
  rewrite (ser_flds_fbytes oem Bo), (ser_flds_fbytes tbl Bt).
  rewrite !ser_flds_fbytes by reflexivity.
  unfold ref_header. rewrite <- !app_assoc. reflexivity.
Qed.

Theorem fadt_image_is_reference oem tbl orev c v :
  length oem = 6%nat -> length tbl = 8%nat -> bytes_ok oem = true -> bytes_ok tbl = true ->
  fadt_image (fadt_flds oem tbl orev c v) =
  ref_table [70; 65; 67; 80] 6 {| ha_oem := oem; ha_tbl := tbl; ha_orev := orev |} (assemble (fadt_layout v)).
Proof.
  intros Ho Ht Bo Bt.
  pose proof (fadt_image_sum _ (fadt_flds_widths oem tbl orev c v Ho Ht)) as Hs.
  unfold fadt_image in *. rewrite fadt_finalize_eq in *. rewrite !fadt_flds_set_ck in *.
  set (g := generate_checksum _) in *. clearbody g.
  rewrite (fadt_flds_ser oem tbl orev g v Bo Bt) in *.
  apply (ref_table_unique [70; 65; 67; 80] 6 {| ha_oem := oem; ha_tbl := tbl; ha_orev := orev |}); [|exact Hs].
  rewrite fadt_body_length. reflexivity.
Qed.

(* ---------- the refinement theorem ---------- *)

(* the byte-array constructor arguments are bytes *)
Definition fadt_ctor_bytes (ctor : sx) : Prop :=
  match ctor with SL (o :: t :: _) => sx_is_bytes o /\ sx_is_bytes t | _ => True end.

Theorem fadt_refines :
  forall md ctor ops r,
    ts_image fadt_spec ctor ops = Some r ->
    fadt_ctor_bytes ctor ->
    exists f0 f, fadt_new ctor = Some f0 /\
                 run_steps (fadt_step md) f0 ops = Some f /\
                 fadt_image f = r.
Proof.
  intros md ctor ops r H Hb. cbn [ts_image fadt_spec] in H. unfold fadt_ref_image in H.
  destruct ctor as [|l]; [discriminate|].
  destruct l as [|o [|t [|r0 [|x l]]]]; try discriminate.
  destruct (sx_hdr_args o t r0) as [ha|] eqn:Eh; [|discriminate].
  destruct (fadt_fold fadt_vals0 ops) as [v|] eqn:Ef; [|discriminate].
  rewrite fadt_body_layout in H. inversion H; subst r; clear H.
  destruct (sx_hdr_args_inv _ _ _ _ Eh) as (Eo & Et & Er & Lo & Lt).
  destruct Hb as [Bo Bt]. specialize (Bo _ Eo). specialize (Bt _ Et).
  exists (fadt_flds (ha_oem ha) (ha_tbl ha) (ha_orev ha) 0 fadt_vals0),
         (fadt_flds (ha_oem ha) (ha_tbl ha) (ha_orev ha) 0 v).
  split; [|split].
  - unfold fadt_new. rewrite (sx_arr_of_bytes 6 o _ Eo Lo), (sx_arr_of_bytes 8 t _ Et Lt), Er. reflexivity.
  - apply fadt_run_sim; assumption.
  - rewrite (fadt_image_is_reference _ _ _ _ _ Lo Lt Bo Bt). destruct ha; reflexivity.
Qed.

(* the same for the history function of Proofs/FadtP.v *)
Lemma fadt_run_is_run_steps md ops : forall f, fadt_run md f ops = run_steps (fadt_step md) f ops.
Proof.
  induction ops as [|o ops IH]; intros f; cbn [fadt_run run_steps]; [reflexivity|].
  destruct o as [n|l]; [apply IH|]. destruct (fadt_step md f (SL l)) as [[f1 e]|]; [apply IH|reflexivity].
Qed.

Corollary fadt_refines_run md ctor ops r :
  ts_image fadt_spec ctor ops = Some r -> fadt_ctor_bytes ctor ->
  exists f0 f, fadt_new ctor = Some f0 /\ fadt_run md f0 ops = Some f /\ fadt_image f = r.
Proof.
  intros H Hb. destruct (fadt_refines md ctor ops r H Hb) as (f0 & f & H1 & H2 & H3).
  exists f0, f. rewrite fadt_run_is_run_steps. auto.
Qed.

(* ---------- the excluded class: byte-array arguments that are not bytes ----------
   The Spec puts the elements of oem_id / oem_table_id into the reference image as they are; the model serialises the
   [u8; 6] / [u8; 8] fields of the packed struct with `le 1` (mod 256).  An S-expression case with an element >= 256 (which
   no Rust caller can express: the arguments are u8 arrays) is therefore inside the Spec's domain with a different image. *)
Example fadt_refines_refuted :
  exists ctor ops r,
    ts_image fadt_spec ctor ops = Some r /\
    forall md f0 f, fadt_new ctor = Some f0 -> run_steps (fadt_step md) f0 ops = Some f -> fadt_image f <> r.
Proof.
  exists (SL [SL [SA 256; SA 0; SA 0; SA 0; SA 0; SA 0]; SL [SA 0; SA 0; SA 0; SA 0; SA 0; SA 0; SA 0; SA 0]; SA 0]), [].
  eexists. split; [vm_compute; reflexivity|].
  intros md f0 f Hn Hr. vm_compute in Hn. inversion Hn; subst f0; clear Hn.
  cbn [run_steps] in Hr. inversion Hr; subst f; clear Hr.
  vm_compute. discriminate.
Qed.

(* ---------- consequences read off the reference image ---------- *)

(* the values the Spec's fold computes for the flags: the union (N.lor) of the requested flags' bits *)
Definition spec_flag_call (o : sx) : list N :=
  match o with
  | SL [SA 7; SA i] => match flag_ref i with Some b => [b] | None => [] end
  | _ => []
  end.

(* the Spec's tables: entry 35 of the scalar fields is the Flags dword at offset 112, no other assignable field and no
   GAS sub-field starts there *)
Lemma fadt_scalars_flags : forall n off w, nth_error fadt_scalars n = Some (off, w) ->
  (n = 35%nat /\ off = 112) \/ (n <> 35%nat /\ off <> 112).
Proof.
  intros n.
  do 42 (destruct n as [|n];
         [cbn [nth_error fadt_scalars]; intros off w Hn; inversion Hn; subst off w; clear Hn;
          ((left; split; reflexivity) || (right; split; discriminate))|]).
  intros off w Hn. destruct n; discriminate Hn.
Qed.

Lemma fadt_gas_offs_flags : forall n off, nth_error fadt_gas_offs n = Some off -> 116 <= off.
Proof.
  intros n.
  do 11 (destruct n as [|n]; [cbn [nth_error fadt_gas_offs]; intros off Hn; inversion Hn; subst off; clear Hn; lia|]).
  intros off Hn. destruct n; discriminate Hn.
Qed.

Lemma val_cons_other off x v o : off <> o -> val ((off, x) :: v) o = val v o.
Proof. intros H. cbn [val]. destruct (N.eqb_spec off o); [contradiction|reflexivity]. Qed.

Lemma flags_k_match {A} (n : N) (a b : A) : n <> 35 -> match n with 35 => a | _ => b end = b.
Proof.
  intros H. destruct n as [|p]; [reflexivity|].
  repeat (try reflexivity; match goal with q : positive |- _ => destruct q end).
  exfalso; apply H; reflexivity.
Qed.

(* one operation of the Spec seen from the Flags value (offset 112) *)
Lemma fadt_apply_flags v o v' : fadt_apply v o = Some v' ->
  val v' 112 = match flags_assigned o with
               | Some x => x
               | None => fold_left N.lor (spec_flag_call o) (val v 112)
               end.
Proof.
  unfold fadt_apply, spec_flag_call, flags_assigned.
  repeat (match goal with
          | |- match ?x with _ => _ end = Some _ -> _ => destruct x eqn:?
          end; try discriminate);
  try (intros [= <-]; reflexivity).
  - (* a GAS field *)
    unfold fadt_assign_gas.
    match goal with |- match nth_error fadt_gas_offs ?n with _ => _ end = _ -> _ =>
      destruct (nth_error fadt_gas_offs n) as [off|] eqn:En; [|discriminate] end.
    match goal with |- (if ?b then _ else _) = _ -> _ => destruct b; [|discriminate] end.
    intros [= <-]. pose proof (fadt_gas_offs_flags _ _ En) as Hoff.
    rewrite !val_cons_other by lia. reflexivity.
  - (* a scalar field *)
    unfold fadt_assign.
    match goal with |- match nth_error fadt_scalars (N.to_nat ?k) with _ => _ end = _ -> _ =>
      rename k into kk; destruct (nth_error fadt_scalars (N.to_nat kk)) as [[off w]|] eqn:En; [|discriminate] end.
    match goal with |- (if ?b then _ else _) = _ -> _ => destruct b; [|discriminate] end.
    intros [= <-]. destruct (fadt_scalars_flags _ _ _ En) as [[Hk Hoff]|[Hk Hoff]].
    + apply (f_equal N.of_nat) in Hk. rewrite N2Nat.id in Hk. change (N.of_nat 35) with 35 in Hk. subst kk off. reflexivity.
    + rewrite flags_k_match by (intros ->; apply Hk; reflexivity). cbn [fold_left]. apply val_cons_other. exact Hoff.
Qed.

Lemma fadt_fold_flags ops : forall v v', fadt_fold v ops = Some v' ->
  val v' 112 = fold_left N.lor (concat (map spec_flag_call (snd (flags_cut ops))))
                         (match fst (flags_cut ops) with Some x => x | None => val v 112 end).
Proof.
  induction ops as [|o ops IH]; intros v v' H; cbn [fadt_fold] in H.
  - inversion H; subst. reflexivity.
  - destruct (fadt_apply v o) as [v1|] eqn:Ea; [|discriminate].
    pose proof (fadt_apply_flags _ _ _ Ea) as H1. specialize (IH v1 v' H).
    cbn [flags_cut]. destruct (flags_cut ops) as [[x|] post] eqn:Ec; cbn [fst snd] in *.
    + exact IH.
    + destruct (flags_cut_none_inv _ _ Ec) as [-> _].
      destruct (flags_assigned o) as [x|]; cbn [fst snd].
      * rewrite IH, H1. reflexivity.
      * rewrite IH, H1. cbn [map concat]. rewrite fold_left_app. reflexivity.
Qed.

(* C11 through the refinement: in every in-domain history, the Flags dword (offset 112) of the MODEL's finalized image is the
   value of the last direct assignment `b.flags = v` (op (10 35 v); 0 when the history has none) united with the bits of the
   flags requested by the flag() calls made after that assignment ((base, post) = flags_cut ops, Proofs/FadtP.v), whatever
   the order, the repetitions and the other builder calls and assignments *)
Corollary fadt_refines_flags md ctor ops r :
  ts_image fadt_spec ctor ops = Some r -> fadt_ctor_bytes ctor ->
  exists f0 f, fadt_new ctor = Some f0 /\ run_steps (fadt_step md) f0 ops = Some f /\
               field_at (fadt_image f) 112 4 =
               fold_left N.lor (concat (map spec_flag_call (snd (flags_cut ops))))
                         (match fst (flags_cut ops) with Some v => v | None => 0 end) mod 2 ^ 32.
Proof.
  intros H Hb. destruct (fadt_refines md ctor ops r H Hb) as (f0 & f & Hn & Hr & Hi).
  exists f0, f. split; [exact Hn|]. split; [exact Hr|].
  rewrite <- fadt_run_is_run_steps in Hr.
  rewrite (fadt_flags_in_image md ctor ops f0 f Hn Hr). f_equal.
  (* the model's flag_call and the Spec's agree *)
  unfold flag_calls. f_equal. f_equal. apply map_ext. intros o. unfold flag_call, spec_flag_call.
  repeat match goal with |- match ?x with _ => _ end = match ?x with _ => _ end => destruct x; try reflexivity end.
  rewrite flag_bits_ref. reflexivity.
Qed.

(* the two readings: no direct assignment of `flags` in the history: the union of all the flags requested (the statement
   before the vocabulary had assignments); a last assignment `flags = v` followed by [post]: v united with post's flags *)
Corollary fadt_refines_flags_no_assign md ctor ops r :
  ts_image fadt_spec ctor ops = Some r -> fadt_ctor_bytes ctor -> no_flags_assignment ops ->
  exists f0 f, fadt_new ctor = Some f0 /\ run_steps (fadt_step md) f0 ops = Some f /\
               field_at (fadt_image f) 112 4 = fold_left N.lor (concat (map spec_flag_call ops)) 0 mod 2 ^ 32.
Proof.
  intros H Hb Hn. destruct (fadt_refines_flags md ctor ops r H Hb) as (f0 & f & H1 & H2 & H3).
  exists f0, f. rewrite (flags_cut_none ops Hn) in H3. auto.
Qed.

Corollary fadt_refines_flags_after_assign md ctor pre v post r :
  ts_image fadt_spec ctor (pre ++ SL [SA 10; SA 35; SA v] :: post) = Some r -> fadt_ctor_bytes ctor ->
  no_flags_assignment post ->
  exists f0 f, fadt_new ctor = Some f0 /\ run_steps (fadt_step md) f0 (pre ++ SL [SA 10; SA 35; SA v] :: post) = Some f /\
               field_at (fadt_image f) 112 4 = fold_left N.lor (concat (map spec_flag_call post)) v mod 2 ^ 32.
Proof.
  intros H Hb Hn. destruct (fadt_refines_flags md ctor _ r H Hb) as (f0 & f & H1 & H2 & H3).
  exists f0, f. rewrite (flags_cut_last pre v post Hn) in H3. auto.
Qed.

(* ---------- non-vacuity: a history mixing builder calls, direct assignments and observations ----------
   dsdt_64, flag(Wbinvd), sci_int = 9, hypervisor_vendor_identity with a non-zero upper half, x_pm1a_evt_blk = GAS::new(SystemIo,
   32, 0, DwordAccess, 0x600), flags = 0x00100000 (dropping Wbinvd), flag(Headless), fadt_minor_version = 4, dsdt = 0x1234 (direct:
   X_DSDT keeps the dsdt_64 value), gpe_info, gpe1_base = 7 (direct, after gpe_info): the Spec accepts it, the model's case
   entry point emits the reference image at each of the three observations, the image sums to 0, carries every value at its
   ACPI 6.5 offset, and its last four bytes are the upper half of the vendor identity. *)
Definition fadt_example_ctor : sx :=
  SL [SL [SA 79; SA 69; SA 77; SA 95; SA 73; SA 68]; SL [SA 84; SA 65; SA 66; SA 76; SA 69; SA 95; SA 73; SA 68]; SA 1].
Definition fadt_example_ops1 : list sx :=
  [SL [SA 2; SA 0x800000000000]; SL [SA 7; SA 0]; SL [SA 10; SA 3; SA 9]; SL [SA 10; SA 41; SA 0xA1B2C3D400000005]].
Definition fadt_example_ops2 : list sx :=
  [SL [SA 11; SA 1; SA 1; SA 32; SA 0; SA 3; SA 0x600]; SL [SA 10; SA 35; SA 0x100000]; SL [SA 7; SA 12]].
Definition fadt_example_ops3 : list sx :=
  [SL [SA 10; SA 38; SA 4]; SL [SA 10; SA 1; SA 0x1234]; SL [SA 8; SA 0x1800; SA 0x1900; SA 32; SA 32; SA 16]; SL [SA 10; SA 23; SA 7]].
Definition fadt_example_ops : list sx := fadt_example_ops1 ++ fadt_example_ops2 ++ fadt_example_ops3.

Example fadt_refines_nonvacuous :
  exists r1 r2 r,
    ts_image fadt_spec fadt_example_ctor fadt_example_ops1 = Some r1 /\
    ts_image fadt_spec fadt_example_ctor (fadt_example_ops1 ++ fadt_example_ops2) = Some r2 /\
    ts_image fadt_spec fadt_example_ctor fadt_example_ops = Some r /\
    (forall md, exists evs1 evs2 evs3,
        fadt_case md (SL (fadt_example_ctor :: fadt_example_ops1 ++ [SA 1] ++ fadt_example_ops2 ++ [SA 1]
                                            ++ fadt_example_ops3 ++ [SA 1]))
        = evs1 ++ [EvBytes r1] ++ evs2 ++ [EvBytes r2] ++ evs3 ++ [EvBytes r]) /\
    length r = 276%nat /\ sum8 r = 0 /\
    field_at r 46 2 = 9 /\                                  (* SCI_INT *)
    field_at r 40 4 = 0x1234 /\ field_at r 140 8 = 0x800000000000 /\     (* DSDT (direct), X_DSDT (dsdt_64) *)
    field_at r 112 4 = 0x101000 /\                          (* Flags: assigned HwReducedAcpi, then flag(Headless); Wbinvd gone *)
    field_at r 131 1 = 4 /\                                 (* FADT minor version *)
    field_at r 94 1 = 7 /\ field_at r 92 1 = 32 /\          (* GPE1_BASE (direct, last writer), GPE0_BLK_LEN (gpe_info) *)
    firstn 12 (skipn 148 r) = [1; 32; 0; 3; 0; 6; 0; 0; 0; 0; 0; 0] /\    (* X_PM1a_EVT_BLK *)
    field_at r 268 8 = 0xA1B2C3D400000005 /\ skipn 272 r = [0xD4; 0xC3; 0xB2; 0xA1] /\
    field_at r1 112 4 = 1 /\ field_at r2 112 4 = 0x101000.
Proof.
  eexists; eexists; eexists.
  split; [vm_compute; reflexivity|]. split; [vm_compute; reflexivity|]. split; [vm_compute; reflexivity|].
  split.
  - intros md. exists [EvNum 0; EvNum 0; EvNum 0; EvNum 0], [EvNum 0; EvNum 0; EvNum 0], [EvNum 0; EvNum 0; EvNum 0; EvNum 0].
    destruct md; vm_compute; reflexivity.
  - vm_compute. repeat split; reflexivity.
Qed.

Print Assumptions fadt_refines.
Print Assumptions fadt_refines_refuted.
Print Assumptions fadt_refines_flags.
Print Assumptions fadt_refines_nonvacuous.
