(* RQSC nested walk (property C03): for every history the Impl model of rqsc.rs accepts, in both build profiles, the two-level
   walker of Spec/RqscWalkS.v applied to the MODEL image finds exactly the controllers that were added, in order, each with
   exactly the resources it was given (type codes and sizes), every inner walk lands on its controller's end and the outer
   walk on the end of the image; ControllerCount (offset 36) is the number of controllers and every controller's ResourceCount
   is the number of resources the inner walk finds.  No side condition remains: the checked u16 / u32 additions of
   add_resource / update_header keep every length field exact on accepted histories. *)
From Coq Require Import NArith ZArith List Lia Bool Arith.
From ACPI Require Import Lib.Bytes Lib.Sx Lib.Machine Impl.Checksum Impl.Table Impl.Fields Impl.Run Impl.Madt Impl.Gas Impl.Rqsc
  Spec.Layout Spec.GasS Spec.RqscS Spec.RqscWalkS Proofs.ChecksumP Proofs.TableP Proofs.MadtP Proofs.WalkP Proofs.WalkW3Common
  Proofs.RqscP Proofs.RqscRefP.
Import ListNotations.
Open Scope N_scope.

(* ================= generic part: the two-level walker on any concatenation of well-formed controllers ================= *)

(* a controller as a byte string together with what it is made of *)
Record cdesc := { cd_bytes : list N; cd_ty : N; cd_count : N; cd_res : list (list N); cd_rtys : list N }.

Definition cd_ok (d : cdesc) : Prop :=
  self_describing H_u8_x_u16 (cd_bytes d) (cd_ty d) /\
  (exists fx, length fx = RQ_CTRL_FIXED /\ cd_bytes d = fx ++ concat (cd_res d)) /\
  Forall2 (self_describing H_u8_x_u16) (cd_res d) (cd_rtys d) /\
  field_at (cd_bytes d) 26 2 = cd_count d.

Fixpoint walk2_result (off : nat) (ds : list cdesc) : list rq_ctrl :=
  match ds with
  | [] => []
  | d :: r =>
      {| rc_type := cd_ty d; rc_off := off; rc_len := length (cd_bytes d); rc_count := cd_count d;
         rc_res := walk_result (RQ_CTRL_FIXED + off) (cd_res d) (cd_rtys d) |}
      :: walk2_result (length (cd_bytes d) + off) r
  end.

Lemma length_concat_ge {A} (es : list (list A)) : Forall (fun e => (1 <= length e)%nat) es -> (length es <= length (concat es))%nat.
Proof.
  induction 1 as [|e es He _ IH]; [reflexivity|]. cbn [concat length]. rewrite app_length. lia.
Qed.

Lemma F2_length {A B} (R : A -> B -> Prop) l l' : Forall2 R l l' -> length l = length l'.
Proof. induction 1; cbn [length]; congruence. Qed.

Lemma self_describing_nonempty h es tys : Forall2 (self_describing h) es tys -> Forall (fun e => (1 <= length e)%nat) es.
Proof. induction 1 as [|e t es ts [Hp _] _ IH]; constructor; assumption. Qed.

Lemma rqsc_walk_ctrls_cons f off x l :
  rqsc_walk_ctrls (S f) off (x :: l) =
  match read_ehdr H_u8_x_u16 (x :: l) with
  | Some (ty, len) =>
      if Nat.ltb len RQ_CTRL_FIXED || negb (Nat.eqb (length (firstn len (x :: l))) len) then None
      else
        match walk (S len) H_u8_x_u16 (RQ_CTRL_FIXED + off) (skipn RQ_CTRL_FIXED (firstn len (x :: l))),
              rqsc_walk_ctrls f (len + off) (skipn len (x :: l)) with
        | Some rs, Some r =>
            Some ({| rc_type := ty; rc_off := off; rc_len := len; rc_count := field_at (firstn len (x :: l)) 26 2; rc_res := rs |} :: r)
        | _, _ => None
        end
  | None => None
  end.
Proof. reflexivity. Qed.

(* the two-level walk over a concatenation of well-formed controllers visits exactly those controllers and, inside each,
   exactly its resources; it answers Some, i.e. every inner walk and the outer walk land exactly on their ends *)
Lemma walk2_concat : forall ds off fuel,
  Forall cd_ok ds -> (length ds <= fuel)%nat ->
  rqsc_walk_ctrls fuel off (concat (map cd_bytes ds)) = Some (walk2_result off ds).
Proof.
  induction ds as [|d ds IH]; intros off fuel HF Hfuel.
  - cbn [map concat]. destruct fuel; reflexivity.
  - inversion HF as [|? ? Hd HF']; subst. destruct Hd as ([Hpos Hrd] & (fx & Hfx & Hbytes) & Hres & Hcnt).
    cbn [map concat length] in *. destruct fuel as [|f]; [lia|].
    set (e := cd_bytes d) in *. set (rest := concat (map cd_bytes ds)).
    specialize (Hrd rest).
    destruct (e ++ rest) as [|x l] eqn:El; [destruct e; [cbn [length] in Hpos; lia|discriminate El]|].
    rewrite rqsc_walk_ctrls_cons, Hrd, <- El.
    assert (Hlen : length e = (RQ_CTRL_FIXED + length (concat (cd_res d)))%nat) by (rewrite Hbytes, app_length, Hfx; reflexivity).
    assert (E0 : Nat.ltb (length e) RQ_CTRL_FIXED = false) by (apply Nat.ltb_ge; lia).
    rewrite firstn_app_exact, Nat.eqb_refl, E0. cbn [orb negb].
    rewrite skipn_app_exact.
    assert (Hsk : skipn RQ_CTRL_FIXED e = concat (cd_res d)) by (rewrite Hbytes, <- Hfx; apply skipn_app_exact).
    rewrite Hsk.
    rewrite (walk_concat H_u8_x_u16 (cd_res d) (cd_rtys d) (RQ_CTRL_FIXED + off) (S (length e)) Hres).
    2:{ pose proof (length_concat_ge _ (self_describing_nonempty _ _ _ Hres)). lia. }
    unfold rest. rewrite (IH (length e + off)%nat f HF') by lia.
    cbn [walk2_result]. fold e. rewrite Hcnt. reflexivity.
Qed.

(* ---------- what the result looks like: tiling and shape ---------- *)
Lemma walk_result_tiles h : forall es tys off,
  Forall2 (self_describing h) es tys -> items_tile off (walk_result off es tys) (length (concat es) + off).
Proof.
  induction es as [|e es IH]; intros tys off HF; inversion HF as [|? t ? ts [Hp _] HF']; subst.
  - reflexivity.
  - cbn [walk_result items_tile concat]. split; [reflexivity|]. split; [exact Hp|].
    rewrite app_length. replace (length e + length (concat es) + off)%nat with (length (concat es) + (length e + off))%nat by lia.
    apply IH. exact HF'.
Qed.

Lemma walk2_result_tiles : forall ds off,
  Forall cd_ok ds -> ctrls_tile off (walk2_result off ds) (length (concat (map cd_bytes ds)) + off).
Proof.
  induction ds as [|d ds IH]; intros off HF; inversion HF as [|? ? Hd HF']; subst.
  - reflexivity.
  - destruct Hd as (_ & (fx & Hfx & Hbytes) & Hres & _).
    assert (Hlen : length (cd_bytes d) = (RQ_CTRL_FIXED + length (concat (cd_res d)))%nat) by (rewrite Hbytes, app_length, Hfx; reflexivity).
    cbn [walk2_result ctrls_tile map concat rc_off rc_len rc_res]. split; [reflexivity|]. split; [lia|]. split.
    + rewrite Hlen. replace (RQ_CTRL_FIXED + length (concat (cd_res d)) + off)%nat with (length (concat (cd_res d)) + (RQ_CTRL_FIXED + off))%nat by lia.
      apply (walk_result_tiles H_u8_x_u16). exact Hres.
    + rewrite app_length.
      replace (length (cd_bytes d) + length (concat (map cd_bytes ds)) + off)%nat
        with (length (concat (map cd_bytes ds)) + (length (cd_bytes d) + off))%nat by lia.
      apply IH. exact HF'.
Qed.

Lemma walk_result_shape : forall es tys off, length es = length tys ->
  map (fun it : N * nat * nat => (fst (fst it), snd it)) (walk_result off es tys) = combine tys (map (@length N) es).
Proof.
  induction es as [|e es IH]; intros [|t ts] off H; cbn [length] in H; try discriminate; [reflexivity|].
  cbn [walk_result map combine fst snd]. f_equal. apply IH. lia.
Qed.

Definition cd_shape (d : cdesc) : N * nat * list (N * nat) :=
  (cd_ty d, length (cd_bytes d), combine (cd_rtys d) (map (@length N) (cd_res d))).

Lemma walk2_result_shape : forall ds off, Forall cd_ok ds -> rq_shape (walk2_result off ds) = map cd_shape ds.
Proof.
  induction ds as [|d ds IH]; intros off HF; inversion HF as [|? ? Hd HF']; subst; [reflexivity|].
  unfold rq_shape in *. cbn [walk2_result map rc_type rc_len rc_res]. rewrite IH by exact HF'. f_equal.
  unfold cd_shape. f_equal. destruct Hd as (_ & _ & Hres & _). apply walk_result_shape. eapply F2_length; exact Hres.
Qed.

Lemma walk2_result_length off ds : length (walk2_result off ds) = length ds.
Proof. revert off; induction ds as [|d ds IH]; intros off; [reflexivity|]. cbn [walk2_result length]. now rewrite IH. Qed.

Lemma walk2_result_counts : forall ds off, Forall cd_ok ds ->
  Forall (fun d => cd_count d = N.of_nat (length (cd_res d))) ds ->
  Forall (fun c => rc_count c = N.of_nat (length (rc_res c))) (walk2_result off ds).
Proof.
  induction ds as [|d ds IH]; intros off HF HC; inversion HF as [|? ? Hd HF']; inversion HC as [|? ? Hc HC']; subst; constructor.
  - cbn [rc_count rc_res]. destruct Hd as (_ & _ & Hres & _). rewrite walk_result_length by (eapply F2_length; exact Hres). exact Hc.
  - apply IH; assumption.
Qed.

(* ================= the Impl model: resources ================= *)

Lemma resid_size_agrees id i : resid_of_sx id = Some i -> resid_size id = Some (length (ri_payload i)).
Proof.
  unfold resid_of_sx. intros H.
  repeat match type of H with context [match ?x with _ => _ end] => is_var x; destruct x; try discriminate H end.
  all: cbn [resid_size].
  all: try (apply Some_inj in H; subst i; cbn [ri_payload]; unfold d4, q8; rewrite !app_length, !length_le; reflexivity).
  destruct (sx_bytes s) as [bs|]; [|discriminate H]. cbn [option_bind option_map] in *.
  apply Some_inj in H; subst i; cbn [ri_payload]. now rewrite map_length.
Qed.

Lemma ser_resource_length r : length (ser_resource r) = (8 + length (ri_payload (rs_id r)))%nat.
Proof. unfold ser_resource, b1, w2. rewrite !app_length, !length_le. reflexivity. Qed.

Lemma resource_self x r : resource_of_sx x = Some r ->
  self_describing H_u8_x_u16 (ser_resource r) (rs_type r mod 256) /\
  resource_expect x = Some (rs_type r mod 256, length (ser_resource r)).
Proof.
  intros H. pose proof (resource_of_sx_ok x r H) as [Hl Hlt]. split.
  - unfold ser_resource in *. apply u8_x_u16_self_whole; assumption.
  - unfold resource_of_sx in H.
    destruct x as [|[|[rtype|] [|[rflags|] [|id [|]]]]]; try discriminate H.
    destruct (resid_of_sx id) as [i|] eqn:Ei; [|discriminate H]. cbn [option_bind] in H.
    unfold resource_new, assert in H.
    match type of H with option_bind (if ?c then _ else _) _ = _ => destruct c; [|discriminate H] end.
    cbn [option_bind] in H. apply Some_inj in H. subst r.
    cbn [resource_expect]. rewrite (resid_size_agrees id i Ei). cbn [option_map rs_type].
    rewrite ser_resource_length. reflexivity.
Qed.

(* ================= the Impl model: controllers ================= *)

Lemma qos_add_all_fields l : forall q q', qos_add_all q l = Some q' ->
  exists rs, Forall2 (fun x r => resource_of_sx x = Some r) l rs /\ q_rres q' = rev rs ++ q_rres q /\
             q_nres q' = q_nres q + N.of_nat (length rs) /\ (q_nres q < 2 ^ 16 -> q_nres q' < 2 ^ 16) /\ q_type q' = q_type q.
Proof.
  induction l as [|x l IH]; intros q q' H; cbn [qos_add_all] in H.
  - apply Some_inj in H. subst q'. exists []. cbn [rev app length N.of_nat]. rewrite N.add_0_r. auto.
  - destruct (resource_of_sx x) as [r|] eqn:Er; [|discriminate]. cbn [option_bind] in H.
    destruct (qos_add_resource q r) as [q1|] eqn:Ea; [|discriminate]. cbn [option_bind] in H.
    destruct (IH q1 q' H) as (rs & HF & Hrr & Hn & Hlt & Hty).
    unfold qos_add_resource, add_c in Ea.
    destruct (N.ltb_spec (q_nres q + 1) U16) as [Hn1|]; [|discriminate Ea]. cbn [option_bind] in Ea.
    match type of Ea with option_bind (if ?c then _ else _) _ = _ => destruct c; [|discriminate Ea] end.
    cbn [option_bind] in Ea. apply Some_inj in Ea. subst q1. cbn [q_rres q_nres q_type] in *.
    exists (r :: rs). split; [constructor; assumption|]. cbn [rev length]. rewrite <- app_assoc. cbn [app].
    split; [exact Hrr|]. split; [lia|]. split; [|exact Hty]. intros _. apply Hlt. exact Hn1.
Qed.

Definition cdesc_of (q : qosc) : cdesc :=
  {| cd_bytes := ser_qos q; cd_ty := q_type q mod 256; cd_count := q_nres q;
     cd_res := map ser_resource (rev (q_rres q));
     cd_rtys := map (fun r => rs_type r mod 256) (rev (q_rres q)) |}.

Lemma resources_expect l rs : Forall2 (fun x r => resource_of_sx x = Some r) l rs ->
  Forall2 (self_describing H_u8_x_u16) (map ser_resource rs) (map (fun r => rs_type r mod 256) rs) /\
  opt_seq (map resource_expect l) = Some (map (fun r => (rs_type r mod 256, length (ser_resource r))) rs).
Proof.
  induction 1 as [|x r l rs Hx _ [IH1 IH2]]; [split; [constructor|reflexivity]|].
  destruct (resource_self x r Hx) as [Hs He]. split; [constructor; assumption|].
  cbn [map opt_seq]. rewrite He, IH2. reflexivity.
Qed.

Lemma combine_map2 {A B C} (f : A -> B) (g : A -> C) l : combine (map f l) (map g l) = map (fun x => (f x, g x)) l.
Proof. induction l as [|a l IH]; [reflexivity|]. cbn [map combine]. now rewrite IH. Qed.

Lemma length_concat_sum {A} (es : list (list A)) : length (concat es) = list_sum (map (@length A) es).
Proof. induction es as [|e es IH]; [reflexivity|]. cbn [concat map list_sum]. now rewrite app_length, IH. Qed.

(* every controller the API can build: it describes itself, its fixed part is 28 bytes and what follows is exactly its
   resources, each describing itself; its ResourceCount field is their number; and it is what the caller asked for *)
Lemma qos_of_sx_desc o q : qos_of_sx o = Some q ->
  cd_ok (cdesc_of q) /\ cd_count (cdesc_of q) = N.of_nat (length (cd_res (cdesc_of q))) /\
  controller_expect o = Some (cd_shape (cdesc_of q)).
Proof.
  intros H. pose proof (qos_of_sx_inv o q H) as IQ. pose proof IQ as (Hg & Hl & Hlt).
  unfold qos_of_sx in H.
  repeat match type of H with
         | match ?x with _ => _ end = Some _ => destruct x; try discriminate
         end.
  match type of H with option_bind (gas_of_sx ?g) _ = _ => destruct (gas_of_sx g) as [gv|] eqn:Eg; [|discriminate] end.
  cbn [option_bind] in H.
  match type of H with qos_add_all (qos_new ?ct _ _ _ _) ?res = _ => set (ctype := ct) in *; set (rl := res) in * end.
  destruct (qos_add_all_fields _ _ _ H) as (rs & HF & Hrr & Hn & Hnlt & Hty).
  cbn [qos_new q_rres q_nres q_type] in Hrr, Hn, Hnlt, Hty. rewrite app_nil_r in Hrr. rewrite N.add_0_l in Hn.
  specialize (Hnlt ltac:(reflexivity)).
  assert (Hrev : rev (q_rres q) = rs) by (rewrite Hrr; apply rev_involutive).
  destruct (resources_expect rl rs HF) as [Hself Hexp].
  pose proof (ser_qos_length q IQ) as Hsl.
  (* the serialisation: 26 bytes, the count, the resources *)
  set (pre := b1 (q_type q) ++ b1 0 ++ w2 (q_length q) ++ ser_flds (q_gas q) ++ d4 (q_rcid q) ++ d4 (q_mcid q) ++ w2 (q_flags q)).
  assert (Hpre : length pre = 26%nat) by (unfold pre, b1, w2, d4; rewrite !app_length, !length_le, Hg; reflexivity).
  assert (Hser : ser_qos q = pre ++ w2 (q_nres q) ++ concat (map ser_resource rs)).
  { unfold ser_qos, pre. rewrite frev_rev, Hrev, <- !app_assoc. reflexivity. }
  split; [|split].
  - unfold cd_ok, cdesc_of. cbn [cd_bytes cd_ty cd_count cd_res cd_rtys]. rewrite Hrev. split; [|split; [|split]].
    + unfold ser_qos in *. apply u8_x_u16_self_whole; [exact Hlt|]. symmetry. exact Hsl.
    + exists (pre ++ w2 (q_nres q)). split; [unfold w2; rewrite app_length, length_le, Hpre; reflexivity|].
      rewrite Hser, <- app_assoc. reflexivity.
    + exact Hself.
    + rewrite Hser. unfold field_at. rewrite <- Hpre, skipn_app_exact. unfold w2. rewrite firstn_le_app.
      apply unle_le_small. exact Hnlt.
  - unfold cdesc_of. cbn [cd_count cd_res]. rewrite Hrev, map_length. exact Hn.
  - cbn [controller_expect]. fold rl. rewrite Hexp. cbn [option_map]. f_equal.
    unfold cd_shape, cdesc_of. cbn [cd_bytes cd_ty cd_res cd_rtys]. rewrite Hrev, Hty.
    rewrite (map_map ser_resource), combine_map2.
    assert (Hlen : length (ser_qos q) = (RQ_CTRL_FIXED + list_sum (map snd (map (fun r => ((rs_type r mod 256)%N, length (ser_resource r))) rs)))%nat).
    { rewrite Hser. unfold w2. rewrite !app_length, length_le, Hpre, length_concat_sum, !map_map. cbn [snd]. reflexivity. }
    rewrite Hlen. reflexivity.
Qed.

(* ================= the Impl model: the table ================= *)

(* on accepted histories the 32-bit header length never wraps: update_header's checked_add refuses first *)
Definition rq_fit (s : rqsc) : Prop := N.of_nat (length (Rqsc.rqsc_image s)) < 2 ^ 32.

Lemma rqsc_add_fields md s q s' : rqsc_add md s q = Some s' ->
  r_hdr s' = r_hdr s /\ r_rcs s' = q :: r_rcs s /\ cast U32 (q_length q) + r_len s < 2 ^ 32.
Proof.
  unfold rqsc_add, add_c. destruct (N.ltb_spec (cast U32 (q_length q) + r_len s) U32) as [Hlt|]; [|discriminate].
  cbn [option_bind]. intros H. apply Some_inj in H. subst s'. cbn [r_hdr r_rcs]. auto.
Qed.

Lemma rqsc_add_fit md s q s' : RInv s -> rq_fit s -> QInv q -> rqsc_add md s q = Some s' -> rq_fit s'.
Proof.
  intros I Hfit IQ Ha. destruct (rqsc_add_fields md s q s' Ha) as (Hh & Hr & Hlt).
  pose proof (ri_hdr s I) as Hok. pose proof (ri_len s I) as Hlen. unfold rq_fit in *.
  rewrite N.mod_small in Hlen by exact Hfit.
  pose proof (ser_qos_length q IQ) as Hq. destruct IQ as (_ & _ & Hq16).
  unfold cast, U32 in Hlt. rewrite N.mod_small in Hlt by (change (2 ^ 16) with 65536 in Hq16; change (2 ^ 32) with 4294967296; lia).
  unfold Rqsc.rqsc_image in *. rewrite Hh, Hr. rewrite (length_rqsc_bytes _ _ _ _ Hok) in Hlen. rewrite (length_rqsc_bytes _ _ _ _ Hok).
  cbn [map concat]. rewrite app_length. lia.
Qed.

Lemma rqsc_run_track md ops : forall s s', RInv s -> rq_fit s -> rqsc_run md s ops = Some s' ->
  RInv s' /\ rq_fit s' /\ r_hdr s' = r_hdr s /\
  exists qs, Forall2 (fun o q => qos_of_sx o = Some q) (real_ops ops) qs /\ r_rcs s' = rev qs ++ r_rcs s.
Proof.
  induction ops as [|o ops IH]; intros s s' I Hfit H; cbn [rqsc_run] in H.
  - apply Some_inj in H. subst s'. split; [exact I|]. split; [exact Hfit|]. split; [reflexivity|]. exists []. split; [constructor|reflexivity].
  - destruct o as [n|l]; [exact (IH s s' I Hfit H)|].
    unfold rqsc_step in H. destruct (qos_of_sx (SL l)) as [q|] eqn:Eq; [|discriminate]. cbn [option_bind] in H.
    destruct (rqsc_add md s q) as [s1|] eqn:Ea; [|discriminate]. cbn [option_bind] in H.
    pose proof (qos_of_sx_inv _ _ Eq) as IQ.
    pose proof (rqsc_add_inv md s q s1 I IQ Ea) as I1. pose proof (rqsc_add_fit md s q s1 I Hfit IQ Ea) as F1.
    destruct (rqsc_add_fields md s q s1 Ea) as (Hh1 & Hr1 & _).
    destruct (IH s1 s' I1 F1 H) as (I' & F' & Hh' & qs & HF & Hr').
    split; [exact I'|]. split; [exact F'|]. split; [congruence|].
    exists (q :: qs). cbn [real_ops filter]. split; [constructor; assumption|].
    rewrite Hr', Hr1. cbn [rev]. rewrite <- app_assoc. reflexivity.
Qed.

Lemma controllers_desc os qs : Forall2 (fun o q => qos_of_sx o = Some q) os qs ->
  Forall cd_ok (map cdesc_of qs) /\
  Forall (fun d => cd_count d = N.of_nat (length (cd_res d))) (map cdesc_of qs) /\
  opt_seq (map controller_expect os) = Some (map cd_shape (map cdesc_of qs)).
Proof.
  induction 1 as [|o q os qs Ho _ (IH1 & IH2 & IH3)]; [repeat split; constructor|].
  destruct (qos_of_sx_desc o q Ho) as (H1 & H2 & H3). cbn [map opt_seq]. rewrite H3, IH3.
  repeat split; try constructor; assumption.
Qed.

Lemma shape_eqb_refl a : shape_eqb a a = true.
Proof.
  assert (Hin : forall rs : list (N * nat), forallb (fun q => match q with ((a1, a2), (b1, b2)) => (a1 =? b1) && Nat.eqb a2 b2 end) (combine rs rs) = true).
  { induction rs as [|[t n] rs IH]; [reflexivity|]. cbn [combine forallb]. now rewrite N.eqb_refl, Nat.eqb_refl, IH. }
  unfold shape_eqb. rewrite Nat.eqb_refl. cbn [andb].
  induction a as [|[[t n] rs] a IH]; [reflexivity|]. cbn [combine forallb].
  now rewrite N.eqb_refl, !Nat.eqb_refl, Hin, IH.
Qed.

(* ---------- C03 for the RQSC: every constructor argument, every accepted history, both build profiles ---------- *)
Theorem rqsc_nested_walk md c ops s0 s :
  rqsc_new c = Some s0 -> rqsc_run md s0 ops = Some s ->
  exists found exp,
    (* the two-level walk of the model image succeeds: every inner walk lands on its controller's end, the outer on the image's *)
    rqsc_walk2 (Rqsc.rqsc_image s) = Some found /\
    (* what the caller added (read off the operations alone) ... *)
    rqsc_expected ops = Some exp /\
    (* ... is exactly what the walk found: same controllers in the same order, same type codes and sizes, and inside each the
       same resources in the same order with the same type codes and sizes *)
    rq_shape found = exp /\
    (* the controllers tile [40, end of image) and each controller's resources tile [its offset + 28, its end) *)
    ctrls_tile RQ_FIRST found (length (Rqsc.rqsc_image s)) /\
    (* ControllerCount *)
    field_at (Rqsc.rqsc_image s) 36 4 = N.of_nat (length found) /\
    (* every ResourceCount *)
    Forall (fun rc => rc_count rc = N.of_nat (length (rc_res rc))) found.
Proof.
  intros Hn Hr. pose proof (rqsc_new_inv c s0 Hn) as I0.
  assert (Hr0 : r_rcs s0 = []).
  { unfold rqsc_new in Hn. destruct c as [|[|o [|t [|r [|]]]]]; try discriminate Hn.
    destruct (sx_hdr _ _ o t r); [|discriminate Hn]. cbn [option_bind] in Hn. apply Some_inj in Hn. now subst s0. }
  assert (F0 : rq_fit s0).
  { unfold rq_fit, Rqsc.rqsc_image. rewrite (length_rqsc_bytes _ _ _ _ (ri_hdr s0 I0)), Hr0. cbn [map concat length]. lia. }
  destruct (rqsc_run_track md ops s0 s I0 F0 Hr) as (I & Hfit & _ & qs & HF & Hrcs).
  rewrite Hr0, app_nil_r in Hrcs.
  destruct (controllers_desc _ _ HF) as (Hok & Hcnt & Hexp).
  set (ds := map cdesc_of qs) in *.
  pose proof (ri_hdr s I) as Hh.
  (* the image: 36 header bytes, the count, the controllers *)
  assert (Himg : Rqsc.rqsc_image s =
                 (hdr_bytes (r_hdr s) (r_len s) (r_hck s) ++ d4 (N.of_nat (length qs))) ++ concat (map cd_bytes ds)).
  { unfold Rqsc.rqsc_image, rqsc_bytes. rewrite frev_rev, Hrcs, rev_involutive, rev_length, <- app_assoc.
    unfold ds. rewrite map_map. reflexivity. }
  assert (Hpre : length (hdr_bytes (r_hdr s) (r_len s) (r_hck s) ++ d4 (N.of_nat (length qs))) = RQ_FIRST).
  { unfold d4. rewrite app_length, length_le, (length_hdr_bytes _ _ _ Hh). reflexivity. }
  assert (Hlen : length (Rqsc.rqsc_image s) = (length (concat (map cd_bytes ds)) + RQ_FIRST)%nat).
  { rewrite Himg, app_length, Hpre. lia. }
  assert (Hnum : (length ds <= length (concat (map cd_bytes ds)))%nat).
  { rewrite <- (map_length cd_bytes ds). apply length_concat_ge. apply Forall_map.
    eapply Forall_impl; [|exact Hok]. intros d (Hs & _). exact (proj1 Hs). }
  exists (walk2_result RQ_FIRST ds), (map cd_shape ds).
  split; [|split; [|split; [|split; [|split]]]].
  - assert (Hskip : skipn RQ_FIRST (Rqsc.rqsc_image s) = concat (map cd_bytes ds)).
    { rewrite Himg. rewrite <- Hpre. apply skipn_app_exact. }
    unfold rqsc_walk2. rewrite Hskip. apply walk2_concat; [exact Hok|]. rewrite Hlen. lia.
  - exact Hexp.
  - apply walk2_result_shape. exact Hok.
  - rewrite Hlen. apply walk2_result_tiles. exact Hok.
  - rewrite walk2_result_length. unfold ds at 1. rewrite map_length.
    rewrite Himg, <- app_assoc. unfold field_at.
    rewrite <- (length_hdr_bytes (r_hdr s) (r_len s) (r_hck s) Hh), skipn_app_exact. unfold d4. rewrite firstn_le_app.
    apply unle_le_small. change (2 ^ (8 * N.of_nat 4)) with (2 ^ 32).
    unfold rq_fit in Hfit. rewrite Hlen in Hfit. unfold ds in Hnum. rewrite map_length in Hnum. unfold ds in Hfit. lia.
  - apply walk2_result_counts; assumption.
Qed.

(* the same as the executable judgement of Spec/RqscWalkS.v answering true on the model image *)
Corollary rqsc_nested_judge_model md c ops s0 s :
  rqsc_new c = Some s0 -> rqsc_run md s0 ops = Some s -> rqsc_nested_judge (Rqsc.rqsc_image s) ops = true.
Proof.
  intros Hn Hr. destruct (rqsc_nested_walk md c ops s0 s Hn Hr) as (found & exp & Hw & He & Hs & _ & Hc & Hrc).
  unfold rqsc_nested_judge. rewrite He, Hw, Hs, shape_eqb_refl, Hc, N.eqb_refl. cbn [andb].
  apply forallb_forall. intros rc Hin. rewrite Forall_forall in Hrc. rewrite (Hrc rc Hin). apply N.eqb_refl.
Qed.

(* ---------- non-vacuity: a concrete accepted history (three controllers, 3 + 2 + 0 resources of every id form) ---------- *)
Definition rqsc_walk_demo (md : mode) : option (list rq_ctrl * option (list (N * nat * list (N * nat))) * nat * N) :=
  match rqsc_new rqsc_demo_ctor with
  | Some s0 => match rqsc_run md s0 rqsc_demo_ops with
               | Some s => match rqsc_walk2 (Rqsc.rqsc_image s) with
                           | Some found => Some (found, rqsc_expected rqsc_demo_ops, length (Rqsc.rqsc_image s),
                                                 field_at (Rqsc.rqsc_image s) 36 4)
                           | None => None
                           end
               | None => None
               end
  | None => None
  end.

Example rqsc_nested_walk_demo :
  rqsc_walk_demo Checked =
  Some ([ {| rc_type := 0; rc_off := 40; rc_len := 97; rc_count := 3;
             rc_res := [(0, 68%nat, 20%nat); (1, 88%nat, 28%nat); (0, 116%nat, 21%nat)] |};
          {| rc_type := 1; rc_off := 137; rc_len := 68; rc_count := 2; rc_res := [(1, 165%nat, 20%nat); (0, 185%nat, 20%nat)] |};
          {| rc_type := 0; rc_off := 205; rc_len := 28; rc_count := 0; rc_res := [] |} ],
        Some [ (0, 97%nat, [(0, 20%nat); (1, 28%nat); (0, 21%nat)]); (1, 68%nat, [(1, 20%nat); (0, 20%nat)]); (0, 28%nat, []) ],
        233%nat, 3)
  /\ rqsc_walk_demo Wrapping = rqsc_walk_demo Checked.
Proof. split; vm_compute; reflexivity. Qed.

(* the walker is not a rubber stamp: a ResourceCount that disagrees, a resource Length one too large, a controller Length one too
   small, and a truncated image are all rejected by the judgement *)
Definition rqsc_demo_image : list N :=
  match rqsc_new rqsc_demo_ctor with
  | Some s0 => match rqsc_run Checked s0 rqsc_demo_ops with Some s => Rqsc.rqsc_image s | None => [] end
  | None => []
  end.
Example rqsc_nested_judge_rejects :
  rqsc_nested_judge rqsc_demo_image rqsc_demo_ops = true /\
  rqsc_nested_judge (upd rqsc_demo_image 66 4) rqsc_demo_ops = false /\        (* ResourceCount 3 -> 4 *)
  rqsc_nested_judge (upd rqsc_demo_image 70 21) rqsc_demo_ops = false /\       (* first resource Length 20 -> 21 *)
  rqsc_nested_judge (upd rqsc_demo_image 42 96) rqsc_demo_ops = false /\       (* first controller Length 97 -> 96 *)
  rqsc_nested_judge (upd rqsc_demo_image 36 2) rqsc_demo_ops = false /\        (* ControllerCount 3 -> 2 *)
  rqsc_nested_judge (firstn 232 rqsc_demo_image) rqsc_demo_ops = false.
Proof. repeat split; vm_compute; reflexivity. Qed.

Print Assumptions rqsc_nested_walk.
Print Assumptions rqsc_nested_judge_model.
