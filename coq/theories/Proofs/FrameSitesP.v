(* C07 at the call sites: every constructor of the term model that emits a length-prefixed object produces
   opcode ++ PkgLength ++ body where the PkgLength decodes, by the specification's rule, to the distance from its own
   first byte to the end of the object, has the specification's lead-byte format and is the shortest that can include
   its own size.  (create_pkg_length itself: PkgLenP.) *)
From Coq Require Import NArith ZArith List Lia Bool Arith.
From ACPI Require Import Lib.Bytes Lib.Sx Lib.Machine Impl.AmlCore Impl.AmlTerm Spec.AmlCoreS
  Proofs.PkgLenP Proofs.AmlFrameP.
Import ListNotations.
Open Scope N_scope.

Definition well_framed (op b : list N) : Prop :=
  exists pl body,
    b = op ++ pl ++ body /\
    (forall r, pkg_decode (pl ++ body ++ r) = Some (N.of_nat (length pl + length body), body ++ r)) /\
    lead_ok pl /\
    (forall w, (1 <= w < length pl)%nat -> pkg_cap w < N.of_nat (length body) + N.of_nat w).

Lemma framed_well md op body b :
  framed md op body = Some b -> N.of_nat (length b) < 2 ^ 63 -> well_framed op b.
Proof.
  unfold framed. destruct (pkg_len md (N.of_nat (length body)) true) as [pl|] eqn:E; cbn [option_bind]; [|discriminate].
  intros H Hb. injection H as <-.
  assert (Hn : N.of_nat (length body) < 2 ^ 63) by (rewrite !app_length in Hb; lia).
  exists pl, body. split; [reflexivity|].
  split; [|split].
  - intros r. destruct (pkg_len_incl_correct md _ pl (body ++ r) Hn E) as (Hd & _ & _).
    rewrite Hd. f_equal. f_equal. lia.
  - destruct (pkg_len_incl_correct md _ pl [] Hn E) as (_ & Hl & _). exact Hl.
  - destruct (pkg_len_incl_correct md _ pl [] Hn E) as (_ & _ & Hm). exact Hm.
Qed.

(* the opcode of the length-prefixed object a constructor emits (None: the constructor emits no PkgLength of its own) *)
Definition frame_op (t : term) : option (list N) :=
  match t with
  | TBufData _ | TUuid _ | TResTemplate _ => Some [0x11]
  | TOp1 4 _ => Some [0x11]
  | TOp1 5 _ => Some [0x13]
  | TDevice _ _ => Some [0x5B; 0x82]
  | TScope _ _ | TScopeRaw _ _ => Some [0x10]
  | TMethod _ _ _ _ => Some [0x14]
  | TPowerRes _ _ _ _ => Some [0x5B; 0x84]
  | TField _ _ _ _ _ => Some [0x5B; 0x81]
  | TPackage _ | TPkgBuilder _ => Some [0x12]
  | TIf _ _ => Some [0xA0]
  | TElse _ => Some [0xA1]
  | TWhile _ _ => Some [0xA2]
  | _ => None
  end.

Ltac binds H :=
  repeat match type of H with
         | option_bind ?x _ = Some _ => let E := fresh "E" in destruct x eqn:E; cbn [option_bind] in H; [|discriminate H]
         end.

Lemma restemplate_framed md ks :
  enc md (TResTemplate ks) =
  (let encs := fix encs (l : list term) : option (list N) :=
                 match l with [] => Some [] | x :: r => do a <- enc md x; do b <- encs r; Some (a ++ b) end in
   do e <- encs ks;
   let bytes := e ++ [0x79; 0] in
   framed md [0x11] (enc_usize (N.of_nat (length bytes)) ++ bytes)).
Proof.
  cbn [enc].
  match goal with |- context [?f ks] => is_fix f; destruct (f ks) as [eks|] end; [|reflexivity].
  cbn [option_bind]. unfold framed. rewrite (app_length (enc_usize _)).
  rewrite (Nat.add_comm (length (enc_usize _))). reflexivity.
Qed.

Theorem frame_sites md t op b :
  frame_op t = Some op -> enc md t = Some b -> N.of_nat (length b) < 2 ^ 63 -> well_framed op b.
Proof.
  intros Hop He Hb.
  destruct t; cbn [frame_op] in Hop; try discriminate Hop.
  - (* Uuid *) injection Hop as <-. cbn [enc] in He. unfold uuid_enc in He. binds He. unfold buffer_data in He.
    eapply framed_well; eassumption.
  - (* BufferData *) injection Hop as <-. cbn [enc] in He. unfold buffer_data in He. eapply framed_well; eassumption.
  - (* BufferTerm / VarPackageTerm *)
    cbn [enc] in He. binds He.
    destruct k as [|p]; [discriminate Hop|].
    destruct p as [p|p|]; try discriminate Hop; destruct p as [p|p|]; try discriminate Hop;
      destruct p as [p|p|]; try discriminate Hop; injection Hop as <-; eapply framed_well; eassumption.
  - (* Device *) injection Hop as <-. cbn [enc] in He. binds He. eapply framed_well; eassumption.
  - (* Scope *) injection Hop as <-. cbn [enc] in He. binds He. eapply framed_well; eassumption.
  - (* Scope::raw *) injection Hop as <-. rewrite scope_raw_eq in He. cbn [enc] in He. binds He. eapply framed_well; eassumption.
  - (* Method *) injection Hop as <-. cbn [enc] in He. binds He. eapply framed_well; eassumption.
  - (* PowerResource *) injection Hop as <-. cbn [enc] in He. binds He. eapply framed_well; eassumption.
  - (* Field *) injection Hop as <-. cbn [enc] in He. binds He. eapply framed_well; eassumption.
  - (* Package *) injection Hop as <-. cbn [enc] in He. binds He. eapply framed_well; eassumption.
  - (* PackageBuilder *) injection Hop as <-. rewrite pkg_builder_eq in He. cbn [enc] in He. binds He. eapply framed_well; eassumption.
  - (* ResourceTemplate *) injection Hop as <-. rewrite restemplate_framed in He. cbv zeta in He. binds He.
    eapply framed_well; eassumption.
  - (* If *) injection Hop as <-. cbn [enc] in He. binds He. eapply framed_well; eassumption.
  - (* Else *) injection Hop as <-. cbn [enc] in He. binds He. eapply framed_well; eassumption.
  - (* While *) injection Hop as <-. cbn [enc] in He. binds He. eapply framed_well; eassumption.
Qed.

(* Field-list entries use the exclusive form: the emitted width field decodes to exactly the width given *)
Lemma fentry_width md e b :
  enc_fentry md e = Some b ->
  match e with
  | FNamed name len => len < 2 ^ 63 -> exists pl, b = name ++ pl /\ forall r, pkg_decode (pl ++ r) = Some (len, r)
  | FReserved len => len < 2 ^ 63 -> exists pl, b = 0 :: pl /\ forall r, pkg_decode (pl ++ r) = Some (len, r)
  end.
Proof.
  destruct e as [name len|len]; cbn [enc_fentry]; intros H Hl.
  - binds H. injection H as <-. eexists. split; [reflexivity|]. intros r.
    match goal with E : pkg_len _ _ false = Some _ |- _ => destruct (pkg_len_excl_correct md _ _ r Hl E) as (Hd & _); exact Hd end.
  - binds H. injection H as <-. eexists. split; [reflexivity|]. intros r.
    match goal with E : pkg_len _ _ false = Some _ |- _ => destruct (pkg_len_excl_correct md _ _ r Hl E) as (Hd & _); exact Hd end.
Qed.
