(* MCFG: the body is tiled by fixed 16-byte ECAM entries (no entry header) -- the walk instance for C03.  No count or
   length field narrower than 32 bits is emitted (the entry count is implied by the table Length). *)
From Coq Require Import NArith ZArith List Lia Bool Arith.
From ACPI Require Import Lib.Bytes Lib.Sx Lib.Machine Impl.Checksum Impl.Table Impl.Fields Impl.Run Impl.Madt Impl.Mcfg
  Spec.Layout Proofs.ChecksumP Proofs.TableP Proofs.MadtP Proofs.Tables Proofs.FixedP Proofs.McfgP Proofs.RimtP Proofs.WalkP
  Proofs.WalkW3Common.
Import ListNotations.
Open Scope N_scope.

Lemma mcfg_addition_self s o e : mcfg_addition s o = Some e -> exists ty, self_describing (H_fixed 16) (a_bytes e) ty.
Proof.
  unfold mcfg_addition.
  repeat match goal with |- (match ?x with _ => _ end) = Some _ -> _ => destruct x; try discriminate end.
  intros H. apply Some_inj in H. subst e. cbn [a_bytes]. exists 0.
  apply fixed_self; [rewrite ser_flds_length; reflexivity|lia].
Qed.

Lemma mcfg_new_empty c s0 : mcfg_new c = Some s0 -> t_ents s0 = [].
Proof.
  unfold mcfg_new. destruct c as [|l]; [discriminate|].
  destruct l as [|o [|t [|r [|x l]]]]; try discriminate.
  destruct (sx_hdr _ _ _ _ _); [|discriminate]. cbn [option_bind].
  intros H. apply Some_inj in H. subst. reflexivity.
Qed.

Definition mcfg_walk : walktable :=
  {| wt_table := mcfg_table; wt_ehdr := H_fixed 16; wt_self := mcfg_addition_self; wt_new_empty := mcfg_new_empty |}.

(* the body of the emitted table is 16 bytes per added entry, after the 8 reserved bytes *)
Corollary mcfg_history_body_size md c ops s0 s :
  mcfg_new c = Some s0 -> run_adds mcfg_addition md s0 ops = Some s -> N.of_nat (length (tbl_image s)) < 2 ^ 32 ->
  Forall (fun e => length e = 16%nat) (t_ents s) /\ length (tbl_image s) = (44 + 16 * length (t_ents s))%nat.
Proof.
  intros Hn Hr Hfit.
  destruct (walktable_tiles mcfg_walk md c ops s0 s Hn Hr Hfit) as (tys & HF & _ & Hc & _).
  cbn [wt_ehdr mcfg_walk] in HF.
  assert (H16 : Forall (fun e => length e = 16%nat) (t_ents s)).
  { clear -HF. induction HF as [|e ty es tys He _ IH]; constructor; [|exact IH].
    destruct He as [Hp He]. specialize (He []). rewrite app_nil_r in He.
    destruct e as [|x e]; [cbn [length] in Hp; lia|]. cbn [read_ehdr] in He. apply Some_inj in He. congruence. }
  split; [exact H16|].
  destruct (addtable_reach mcfg_table md c ops s0 s Hn Hr Hfit) as (I & Hk & _). cbn [at_kind mcfg_table] in Hk.
  rewrite (length_image s (inv_hdr s I)), Hk. change (length (mid KMcfg (t_pre s) 0)) with 8%nat. unfold t_body.
  rewrite (length_concat_const 16 _ H16). lia.
Qed.

Print Assumptions mcfg_walk.
Print Assumptions mcfg_history_body_size.
