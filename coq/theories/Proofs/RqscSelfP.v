(* RQSC, property C03, per-entry part: the reference image of every in-domain history is tiled by controller structures
   that describe themselves and passes the self-check (each controller is itself exactly tiled by its resource structures,
   and its ResourceCount field is their number). *)
From Coq Require Import NArith ZArith List Lia Bool Arith ZifyBool ZifyNat ZifyN.
From ACPI Require Import Lib.Bytes Lib.Sx Spec.Layout Spec.GasS Spec.RqscS Spec.SelfCheck Judge
  Proofs.WalkP Proofs.WalkRefCommon2P Proofs.SelfCommonP Proofs.HestSelfP.
Import ListNotations.

Ltac Zify.zify_post_hook ::= Z.to_euclidean_division_equations.

Open Scope N_scope.

Definition rqsc_ty (e : list N) : N := nth 0 e 0.

Lemma resource_self s r : resource_ref s = Some r -> self_describing H_u8_x_u16 r (rqsc_ty r).
Proof.
  unfold resource_ref. intros H.
  destruct s as [|l]; [discriminate H|]. destruct l as [|[rtype|] [|[rflags|] [|id [|]]]]; try discriminate H.
  destruct (resid_ref id) as [[idtype rest]|]; [|discriminate H]. cbv zeta in H.
  match type of H with (if ?g then _ else _) = _ => destruct g eqn:G; [|discriminate H] end.
  apply andb_true_iff in G. destruct G as [_ G]. apply N.ltb_lt in G.
  destruct (option_map_app_decodes _ _ _ _ H) as [Hlen Hf].
  apply sd_u8_x_u16_of_fields; [lia|].
  rewrite (Hf 2%nat 2%nat (N.of_nat (8 + length rest))) by (cbn [In L]; try tauto; lia).
  rewrite pow8_2, N.mod_small by (change 65536 with 65536 in G; lia). rewrite Hlen. reflexivity.
Qed.

Definition rqsc_good (e : list N) : Prop :=
  self_describing H_u8_x_u16 e (rqsc_ty e) /\ entry_self_ok 22 (rqsc_ty e) e = true.

Lemma controller_good o e : controller_ref o = Some e -> rqsc_good e.
Proof.
  unfold controller_ref. intros H.
  destruct o as [|l]; [discriminate H|].
  destruct l as [|[op|] l]; try discriminate H. destruct op as [|[op|op|]]; try discriminate H.
  destruct l as [|[ctype|] [|g [|[rcid|] [|[mcid|] [|[flags|] [|[|res] [|]]]]]]]; try discriminate H.
  destruct (gas_ref g) as [gb|]; [|discriminate H].
  destruct (opt_seq (map resource_ref res)) as [rs|] eqn:Ers; [|discriminate H]. cbv zeta in H.
  match type of H with (if ?g then _ else _) = _ => destruct g eqn:G; [|discriminate H] end.
  apply andb_true_iff in G. destruct G as [G Gcnt]. apply andb_true_iff in G. destruct G as [_ Glen].
  apply N.ltb_lt in Gcnt. apply N.ltb_lt in Glen.
  destruct (option_map_app_decodes _ _ _ _ H) as [Hlen Hf].
  destruct (option_map_app_split _ _ _ _ H) as (fixed & Hfx & He).
  assert (HR : Forall (fun r => self_describing H_u8_x_u16 r (rqsc_ty r)) rs).
  { apply (opt_seq_forall _ _ _ Ers). intros x Hx. apply in_map_iff in Hx. destruct Hx as (s & Hs & _).
    exact (resource_self s x Hs). }
  assert (Hsd : self_describing H_u8_x_u16 e (rqsc_ty e)).
  { apply sd_u8_x_u16_of_fields; [lia|].
    rewrite (Hf 2%nat 2%nat (N.of_nat (28 + length (concat rs)))) by (cbn [In L app]; try tauto; lia).
    rewrite pow8_2, N.mod_small by lia. rewrite Hlen. reflexivity. }
  split; [exact Hsd|].
  assert (Hself : rqsc_controller_self e = true).
  { unfold rqsc_controller_self.
    rewrite (proj2 (Nat.leb_le 28 (length e))) by lia. cbn [andb].
    assert (Hsk : skipn 28 e = concat rs) by (rewrite He, <- Hfx; apply skipn_app_exact).
    rewrite Hsk.
    assert (HF2 : Forall2 (self_describing H_u8_x_u16) rs (map rqsc_ty rs)) by (apply Forall_Forall2_map; exact HR).
    rewrite (walk_concat H_u8_x_u16 rs (map rqsc_ty rs) 28 (S (length e)) HF2).
    2:{ pose proof (concat_length_ge _ _ _ HF2). lia. }
    rewrite walk_result_length by (rewrite map_length; reflexivity).
    rewrite (Hf 26%nat 2%nat (N.of_nat (length rs))).
    - rewrite pow8_2, N.mod_small by lia. apply N.eqb_refl.
    - apply in_or_app. right. apply in_or_app. right. cbn [In L]. tauto.
    - lia. }
  cbn [entry_self_ok]. rewrite Hself. destruct (rqsc_ty e) as [|[p|p|]]; reflexivity.
Qed.

Lemma rqsc_image_shape ctor ops r : ts_image rqsc_spec ctor ops = Some r ->
  exists ha es, rqsc_entries_ref ops = Some es /\ N.of_nat (length es) < 2 ^ 32 /\
    length (ha_oem ha) = 6%nat /\ length (ha_tbl ha) = 8%nat /\
    r = ref_table [82; 81; 83; 67] 1 ha (le 4 (N.of_nat (length es)) ++ concat es).
Proof.
  intros H. cbn [ts_image rqsc_spec] in H. unfold rqsc_image in H.
  destruct ctor as [|l]; [discriminate H|].
  destruct l as [|o [|t [|rr [|]]]]; try discriminate H.
  destruct (sx_hdr_args o t rr) as [ha|] eqn:Eha; [|discriminate H].
  destruct (rqsc_entries_ref ops) as [es|] eqn:Ees; [|discriminate H].
  destruct (N.ltb_spec (N.of_nat (length es)) (2 ^ 32)) as [Hc|]; [|discriminate H].
  apply wr_Some_inj in H. subst r.
  destruct (sx_hdr_args_len _ _ _ _ Eha) as [Ho Ht].
  exists ha, es. split; [reflexivity|]. split; [exact Hc|]. split; [exact Ho|]. split; [exact Ht|]. reflexivity.
Qed.

Lemma rqsc_entries_good ops es : rqsc_entries_ref ops = Some es -> Forall rqsc_good es.
Proof.
  intros H. unfold rqsc_entries_ref in H. apply (opt_seq_forall rqsc_good _ _ H).
  intros x Hx. apply in_map_iff in Hx. destruct Hx as (o & Ho & _). exact (controller_good o x Ho).
Qed.

Theorem rqsc_selfcheck : forall ctor ops r, ts_image rqsc_spec ctor ops = Some r -> c03_self 22 r = true.
Proof.
  intros ctor ops r H.
  destruct (rqsc_image_shape ctor ops r H) as (ha & es & Ees & Hc & Ho & Ht & ->).
  pose proof (rqsc_entries_good ops es Ees) as HG.
  unfold c03_self. change (ts_walk (spec_of 22)) with (Some (40%nat, H_u8_x_u16)).
  apply (c03_self_at_ref 22 40%nat H_u8_x_u16 rqsc_ty); try assumption; try reflexivity.
  - eapply Forall_impl; [|exact HG]. intros e [Hsd _]. exact Hsd.
  - eapply Forall_impl; [|exact HG]. intros e [_ Hok]. exact Hok.
Qed.

(* the reference image is also exactly tiled, with the right controller count, in the sense of [c03_judge] *)
Theorem rqsc_reference_tiles : forall ctor ops r,
  ts_image rqsc_spec ctor ops = Some r -> c03_judge rqsc_spec ctor r ops = true.
Proof.
  intros ctor ops r H.
  destruct (rqsc_image_shape ctor ops r H) as (ha & es & Ees & Hc & Ho & Ht & ->).
  pose proof (rqsc_entries_good ops es Ees) as HG.
  apply (c03_judge_of_tyf rqsc_spec ctor ops _ 40%nat H_u8_x_u16 rqsc_ty es).
  - reflexivity.
  - cbn [ts_entries rqsc_spec]. rewrite Ees. reflexivity.
  - apply skipn_ref_table; [reflexivity|exact Ho|exact Ht|]. rewrite length_le. reflexivity.
  - eapply Forall_impl; [|exact HG]. intros e [Hsd _]. exact Hsd.
  - cbn [ts_counts rqsc_spec forallb]. rewrite andb_true_r.
    rewrite (field_at_ref_table [82; 81; 83; 67] 1 ha _ 0%nat 4%nat eq_refl Ho Ht).
    rewrite field_at_le_app, pow8_4, N.mod_small by exact Hc. apply N.eqb_refl.
Qed.

Print Assumptions rqsc_selfcheck.
Print Assumptions rqsc_reference_tiles.
