(* create_pkg_length: decode correctness, lead-byte format, minimality, refusal. *)
From Coq Require Import NArith ZArith List Lia Bool.
From ACPI Require Import Lib.Bytes Lib.Sx Lib.Machine Impl.AmlCore Spec.AmlCoreS Proofs.BitsP.
Import ListNotations.
Open Scope N_scope.

Ltac Zify.zify_post_hook ::= Z.to_euclidean_division_equations.

(* lead-byte format of the specification *)
Definition lead_ok (e : list N) : Prop :=
  match e with
  | [] => False
  | [b0] => b0 < 64
  | b0 :: rest => b0 / 64 = N.of_nat (length rest) /\ (b0 / 16) mod 4 = 0 /\ (length rest <= 3)%nat
  end.

Lemma pkg_ll_cases len :
  (len < 63 /\ pkg_ll len = 1) \/ (63 <= len < 4094 /\ pkg_ll len = 2) \/
  (4094 <= len < 1048573 /\ pkg_ll len = 3) \/ (1048573 <= len /\ pkg_ll len = 4).
Proof.
  unfold pkg_ll. change (2 ^ 6 - 1) with 63. change (2 ^ 12 - 2) with 4094. change (2 ^ 20 - 3) with 1048573.
  destruct (N.ltb_spec len 63); [left; lia|].
  destruct (N.ltb_spec len 4094); [right; left; lia|].
  destruct (N.ltb_spec len 1048573); [right; right; left; lia|].
  right; right; right; lia.
Qed.

(* the byte list produced for a given total [length] and width *)
Definition pkg_bytes (ll tot : N) : list N :=
  match ll with
  | 1 => [cast U8 tot]
  | 2 => [N.lor (N.shiftl 1 6) (cast U8 (N.land tot 15)); cast U8 (N.shiftr tot 4)]
  | 3 => [N.lor (N.shiftl 2 6) (cast U8 (N.land tot 15)); cast U8 (N.shiftr tot 4);
          cast U8 (N.shiftr tot 12)]
  | _ => [N.lor (N.shiftl 3 6) (cast U8 (N.land tot 15)); cast U8 (N.shiftr tot 4);
          cast U8 (N.shiftr tot 12); cast U8 (N.shiftr tot 20)]
  end.

Lemma nib_lt x : cast U8 (N.land x 15) < 16.
Proof. unfold cast, U8. rewrite land_15. change (2 ^ 8) with 256. lia. Qed.

Lemma nib_val x : cast U8 (N.land x 15) = x mod 16.
Proof. unfold cast, U8. rewrite land_15. change (2 ^ 8) with 256. lia. Qed.

Lemma dec1 tot r : tot < 64 -> pkg_decode (pkg_bytes 1 tot ++ r) = Some (tot, r).
Proof.
  intros H. cbn [pkg_bytes app]. unfold cast, U8. change (2 ^ 8) with 256.
  rewrite (N.mod_small tot 256) by lia.
  unfold pkg_decode. rewrite (N.div_small tot 64) by lia.
  rewrite (N.mod_small tot 64) by lia. reflexivity.
Qed.

Lemma lead_facts c y : c < 4 -> y < 16 -> (c * 64 + y) / 64 = c /\ ((c * 64 + y) / 16) mod 4 = 0 /\ (c * 64 + y) mod 16 = y.
Proof. intros. repeat split; lia. Qed.

Lemma dec2 tot r : tot < 2 ^ 12 -> pkg_decode (pkg_bytes 2 tot ++ r) = Some (tot, r).
Proof.
  intros H. change (2 ^ 12) with 4096 in H. cbn [pkg_bytes app].
  rewrite lor_shiftl_6 by apply nib_lt. rewrite nib_val. rewrite shiftr_div. change (2 ^ 4) with 16.
  unfold cast, U8. change (2 ^ 8) with 256.
  destruct (lead_facts 1 (tot mod 16)) as (E1 & E2 & E3); [lia|lia|].
  unfold pkg_decode. rewrite E1, E2, E3. rewrite N.eqb_refl. f_equal. f_equal. lia.
Qed.

Lemma dec3 tot r : tot < 2 ^ 20 -> pkg_decode (pkg_bytes 3 tot ++ r) = Some (tot, r).
Proof.
  intros H. change (2 ^ 20) with 1048576 in H. cbn [pkg_bytes app].
  rewrite lor_shiftl_6 by apply nib_lt. rewrite nib_val. rewrite !shiftr_div. change (2 ^ 4) with 16. change (2 ^ 12) with 4096.
  unfold cast, U8. change (2 ^ 8) with 256.
  destruct (lead_facts 2 (tot mod 16)) as (E1 & E2 & E3); [lia|lia|].
  unfold pkg_decode. rewrite E1, E2, E3. rewrite N.eqb_refl. f_equal. f_equal. lia.
Qed.

Lemma dec4 tot r : tot < 2 ^ 28 -> pkg_decode (pkg_bytes 4 tot ++ r) = Some (tot, r).
Proof.
  intros H. change (2 ^ 28) with 268435456 in H. cbn [pkg_bytes app].
  rewrite lor_shiftl_6 by apply nib_lt. rewrite nib_val. rewrite !shiftr_div.
  change (2 ^ 4) with 16. change (2 ^ 12) with 4096. change (2 ^ 20) with 1048576.
  unfold cast, U8. change (2 ^ 8) with 256.
  destruct (lead_facts 3 (tot mod 16)) as (E1 & E2 & E3); [lia|lia|].
  unfold pkg_decode. rewrite E1, E2, E3. rewrite N.eqb_refl. f_equal. f_equal. lia.
Qed.

Lemma lead_ok_bytes ll tot :
  (ll = 1 /\ tot < 64) \/ ll = 2 \/ ll = 3 \/ ll = 4 -> lead_ok (pkg_bytes ll tot).
Proof.
  intros [[-> H]|[ -> |[ -> | -> ]]]; cbn [pkg_bytes lead_ok length].
  - unfold cast, U8. change (2 ^ 8) with 256. rewrite N.mod_small; lia.
  - rewrite lor_shiftl_6 by apply nib_lt. destruct (lead_facts 1 (cast U8 (N.land tot 15))) as (E1 & E2 & _); [lia|apply nib_lt|].
    rewrite E1, E2. repeat split; lia.
  - rewrite lor_shiftl_6 by apply nib_lt. destruct (lead_facts 2 (cast U8 (N.land tot 15))) as (E1 & E2 & _); [lia|apply nib_lt|].
    rewrite E1, E2. repeat split; lia.
  - rewrite lor_shiftl_6 by apply nib_lt. destruct (lead_facts 3 (cast U8 (N.land tot 15))) as (E1 & E2 & _); [lia|apply nib_lt|].
    rewrite E1, E2. repeat split; lia.
Qed.

Lemma pkg_len_unfold md len incl :
  pkg_len md len incl =
  (do tot <- add_m md U64 len (if incl then pkg_ll len else 0);
   do _ <- assert (tot <? 2 ^ 28);
   Some (pkg_bytes (pkg_ll len) tot)).
Proof. reflexivity. Qed.

Lemma length_pkg_bytes ll x : 1 <= ll <= 4 -> N.of_nat (length (pkg_bytes ll x)) = ll.
Proof.
  intros H. assert (ll = 1 \/ ll = 2 \/ ll = 3 \/ ll = 4) as [ -> |[ -> |[ -> | -> ]]] by lia; reflexivity.
Qed.

(* the result, whenever there is one *)
Lemma pkg_len_some md len incl e :
  pkg_len md len incl = Some e ->
  len < 2 ^ 63 ->
  let tot := len + (if incl then pkg_ll len else 0) in
  e = pkg_bytes (pkg_ll len) tot /\ tot < 2 ^ 28.
Proof.
  intros H Hlen. rewrite pkg_len_unfold in H. cbn zeta.
  assert (Hll : pkg_ll len <= 4) by (destruct (pkg_ll_cases len) as [[_ ->]|[[_ ->]|[[_ ->]|[_ ->]]]]; lia).
  unfold add_m in H.
  assert (Hs : len + (if incl then pkg_ll len else 0) <? U64 = true).
  { apply N.ltb_lt. unfold U64. change (2 ^ 63) with 9223372036854775808 in Hlen.
    change (2 ^ 64) with 18446744073709551616. destruct incl; lia. }
  rewrite Hs in H. cbn [option_bind] in H.
  destruct (N.ltb_spec (len + (if incl then pkg_ll len else 0)) (2 ^ 28)) as [Hlt|Hge]; cbn [assert option_bind] in H; [|discriminate].
  inversion H. split; [reflexivity|exact Hlt].
Qed.

Lemma pkg_len_accept md len (incl : bool) :
  len + 4 < 2 ^ 28 -> exists e, pkg_len md len incl = Some e.
Proof.
  intros H. rewrite pkg_len_unfold.
  assert (Hll : pkg_ll len <= 4) by (destruct (pkg_ll_cases len) as [[_ ->]|[[_ ->]|[[_ ->]|[_ ->]]]]; lia).
  change (2 ^ 28) with 268435456 in *.
  unfold add_m.
  assert (Hs : len + (if incl then pkg_ll len else 0) <? U64 = true).
  { apply N.ltb_lt. unfold U64. change (2 ^ 64) with 18446744073709551616. destruct incl; lia. }
  rewrite Hs. cbn [option_bind].
  assert (Ha : len + (if incl then pkg_ll len else 0) <? 268435456 = true) by (apply N.ltb_lt; destruct incl; lia).
  rewrite Ha. cbn [assert option_bind]. eexists; reflexivity.
Qed.

Lemma pkg_len_refuse md len (incl : bool) :
  len < 2 ^ 63 -> 2 ^ 28 <= len + (if incl then pkg_ll len else 0) -> pkg_len md len incl = None.
Proof.
  intros Hlen H. rewrite pkg_len_unfold.
  assert (Hll : pkg_ll len <= 4) by (destruct (pkg_ll_cases len) as [[_ ->]|[[_ ->]|[[_ ->]|[_ ->]]]]; lia).
  unfold add_m.
  assert (Hs : len + (if incl then pkg_ll len else 0) <? U64 = true).
  { apply N.ltb_lt. unfold U64. change (2 ^ 63) with 9223372036854775808 in Hlen.
    change (2 ^ 64) with 18446744073709551616. destruct incl; lia. }
  rewrite Hs. cbn [option_bind].
  destruct (N.ltb_spec (len + (if incl then pkg_ll len else 0)) (2 ^ 28)); [lia|]. reflexivity.
Qed.

(* inclusive form *)
Lemma pkg_len_incl_correct md n e r :
  n < 2 ^ 63 -> pkg_len md n true = Some e ->
  pkg_decode (e ++ r) = Some (n + N.of_nat (length e), r) /\ lead_ok e /\
  (forall w, (1 <= w < length e)%nat -> pkg_cap w < n + N.of_nat w).
Proof.
  intros Hn H. destruct (pkg_len_some md n true e H Hn) as [-> Hlt]. cbn zeta in *.
  change (2 ^ 28) with 268435456 in Hlt.
  destruct (pkg_ll_cases n) as [[Hr E]|[[Hr E]|[[Hr E]|[Hr E]]]]; rewrite E in *.
  - split; [|split].
    + rewrite dec1 by lia. reflexivity.
    + apply lead_ok_bytes. left. split; [reflexivity|lia].
    + cbn [pkg_bytes length]. intros w Hw. lia.
  - split; [|split].
    + rewrite dec2 by (change (2 ^ 12) with 4096; lia). reflexivity.
    + apply lead_ok_bytes. auto.
    + cbn [pkg_bytes length]. intros w Hw. assert (w = 1%nat) as -> by lia. cbn [pkg_cap]. lia.
  - split; [|split].
    + rewrite dec3 by (change (2 ^ 20) with 1048576; lia). reflexivity.
    + apply lead_ok_bytes. auto.
    + cbn [pkg_bytes length]. intros w Hw. assert (w = 1%nat \/ w = 2%nat) as [ -> | -> ] by lia; cbn [pkg_cap];
        [|change (2 ^ 12 - 1) with 4095]; lia.
  - split; [|split].
    + rewrite dec4 by (change (2 ^ 28) with 268435456; lia). reflexivity.
    + apply lead_ok_bytes. auto.
    + cbn [pkg_bytes length]. intros w Hw. assert (w = 1%nat \/ w = 2%nat \/ w = 3%nat) as [ -> |[ -> | -> ]] by lia; cbn [pkg_cap];
        [|change (2 ^ 12 - 1) with 4095|change (2 ^ 20 - 1) with 1048575]; lia.
Qed.

(* exclusive form (field-list entries) *)
Lemma pkg_len_excl_correct md n e r :
  n < 2 ^ 63 -> pkg_len md n false = Some e ->
  pkg_decode (e ++ r) = Some (n, r) /\ lead_ok e.
Proof.
  intros Hn H. destruct (pkg_len_some md n false e H Hn) as [-> Hlt]. cbn zeta in *.
  rewrite N.add_0_r in *. change (2 ^ 28) with 268435456 in Hlt.
  destruct (pkg_ll_cases n) as [[Hr E]|[[Hr E]|[[Hr E]|[Hr E]]]]; rewrite E in *.
  - split; [rewrite dec1 by lia; reflexivity | apply lead_ok_bytes; left; split; [reflexivity|lia]].
  - split; [rewrite dec2 by (change (2 ^ 12) with 4096; lia); reflexivity | apply lead_ok_bytes; auto].
  - split; [rewrite dec3 by (change (2 ^ 20) with 1048576; lia); reflexivity | apply lead_ok_bytes; auto].
  - split; [rewrite dec4 by (change (2 ^ 28) with 268435456; lia); reflexivity | apply lead_ok_bytes; auto].
Qed.
