(* Lemmas shared by the proofs about the fixed-size tables and the entry serialisers:
   packed field lists, the 36-byte header with a checksum computed from content, histories of a step function. *)
From Coq Require Import NArith ZArith List Lia Bool Arith.
From ACPI Require Import Lib.Bytes Lib.Sx Lib.Machine Impl.Checksum Impl.Table Impl.Fields Impl.Run Spec.Layout
  Proofs.ChecksumP Proofs.TableP.
Import ListNotations.

Ltac Zify.zify_post_hook ::= Z.to_euclidean_division_equations.

Open Scope N_scope.

(* ---------- packed field lists ---------- *)
Lemma ser_flds_length f : length (ser_flds f) = flds_len f.
Proof.
  unfold ser_flds. induction f as [|[w v] r IH]; [reflexivity|].
  cbn [map concat flds_len fst snd]. rewrite app_length, length_le, IH. reflexivity.
Qed.

Lemma flds_len_fset f i v : flds_len (fset f i v) = flds_len f.
Proof.
  revert i; induction f as [|[w x] r IH]; intros [|i]; cbn [fset flds_len]; try reflexivity. now rewrite IH.
Qed.

Lemma flds_len_f_or f i v : flds_len (f_or f i v) = flds_len f.
Proof.
  revert i; induction f as [|[w x] r IH]; intros [|i]; cbn [f_or flds_len]; try reflexivity. now rewrite IH.
Qed.

Lemma flds_len_app a b : flds_len (a ++ b) = (flds_len a + flds_len b)%nat.
Proof. induction a as [|[w x] r IH]; cbn [app flds_len]; [reflexivity|]. rewrite IH. lia. Qed.

Lemma flds_len_fbytes l : flds_len (fbytes l) = length l.
Proof. unfold fbytes. induction l as [|x l IH]; cbn [map flds_len length]; [reflexivity|]. now rewrite IH. Qed.

(* ---------- the standard header in front of a fixed body ---------- *)
Lemma hdr_ok_sig h : hdr_ok h = true -> length (h_sig h) = 4%nat.
Proof.
  unfold hdr_ok. intros H. apply andb_true_iff in H. destruct H as [H _]. apply andb_true_iff in H. destruct H as [H _].
  now apply Nat.eqb_eq in H.
Qed.

Lemma hdr_image_length h len cks rest : hdr_ok h = true ->
  length (hdr_bytes h len cks ++ rest) = (36 + length rest)%nat.
Proof. intros H. rewrite app_length, (length_hdr_bytes _ _ _ H). reflexivity. Qed.

(* C02: the dword at offset 4 of header ++ rest is the header's length field *)
Lemma hdr_len_field h len cks rest : hdr_ok h = true -> len < 2 ^ 32 ->
  field_at (hdr_bytes h len cks ++ rest) 4 4 = len.
Proof.
  intros Hh Hfit. pose proof (hdr_ok_sig h Hh) as Hs.
  unfold field_at, hdr_bytes. rewrite <- !app_assoc.
  match goal with |- context [skipn 4 (h_sig ?h ++ ?X)] =>
    pose proof (skipn_app_exact (h_sig h) X) as Hsk; rewrite Hs in Hsk; rewrite Hsk end.
  unfold d4. rewrite firstn_le_app. apply unle_le_small. exact Hfit.
Qed.

(* C01 when the checksum byte is the value() of an accumulator that has summed the image with the byte zeroed *)
Lemma hdr_sum8_zero h len c rest : c < 256 ->
  (Z.of_N c mod 256 = (zsum (hdr_bytes h len 0) + zsum rest) mod 256)%Z ->
  sum8 (hdr_bytes h len (ck_value c) ++ rest) = 0.
Proof.
  intros Hlt Hck.
  unfold sum8. apply N2Z.inj. rewrite N2Z.inj_mod by lia. rewrite <- zsum_sumN.
  rewrite zsum_app, zsum_hdr_bytes in *. change (Z.of_N 0) with 0%Z.
  change (0 mod 256) with 0 in Hck. cbn [Z.of_N] in Hck.
  destruct (ck_value_spec c Hlt) as [Hv Hvl]. unfold ck_raw in Hv.
  rewrite (N.mod_small (ck_value c) 256) by exact Hvl.
  set (X := (zsum (hdr_bytes h 0 0) + zsum (d4 len))%Z) in *.
  set (Y := zsum rest) in *. set (v := ck_value c) in *.
  assert (Hz : ((Z.of_N c + Z.of_N v) mod 256 = 0)%Z) by lia.
  clearbody X Y v. clear - Hck Hz. lia.
Qed.

(* ... and when it is generate_checksum of the whole struct with the byte zeroed (from-scratch recomputation) *)
Lemma hdr_gen_sum8_zero h len rest :
  sum8 (hdr_bytes h len (generate_checksum (hdr_bytes h len 0 ++ rest)) ++ rest) = 0.
Proof.
  unfold generate_checksum. apply hdr_sum8_zero.
  - apply fold_wadd8_lt. lia.
  - rewrite fold_wadd8_Z, zsum_app. reflexivity.
Qed.

(* the accumulator after appending a list of slices *)
Lemma ck_append_Z s l : (Z.of_N (ck_append s l) mod 256 = (Z.of_N s + zsum l) mod 256)%Z.
Proof. unfold ck_append. apply fold_wadd8_Z. Qed.

Lemma ck_append_lt s l : s < 256 -> ck_append s l < 256.
Proof. unfold ck_append. apply fold_wadd8_lt. Qed.

(* Checksum::append called on several slices in turn *)
Lemma ck_appends_Z (ls : list (list N)) s :
  (Z.of_N (fold_left ck_append ls s) mod 256 = (Z.of_N s + zsum (concat ls)) mod 256)%Z.
Proof.
  revert s; induction ls as [|l ls IH]; intros s; cbn [fold_left concat zsum].
  - f_equal. lia.
  - rewrite IH, zsum_app. rewrite <- Zplus_mod_idemp_l, ck_append_Z, Zplus_mod_idemp_l. f_equal. lia.
Qed.

Lemma ck_appends_lt (ls : list (list N)) s : s < 256 -> fold_left ck_append ls s < 256.
Proof.
  revert s; induction ls as [|l ls IH]; intros s H; cbn [fold_left]; [exact H|]. apply IH. now apply ck_append_lt.
Qed.

Lemma ck_append2 s A B : ck_append (ck_append s A) B = fold_left ck_append [A; B] s.
Proof. reflexivity. Qed.
Lemma ck_append3 s A B C : ck_append (ck_append (ck_append s A) B) C = fold_left ck_append [A; B; C] s.
Proof. reflexivity. Qed.
Lemma ck_append4 s A B C D : ck_append (ck_append (ck_append (ck_append s A) B) C) D = fold_left ck_append [A; B; C; D] s.
Proof. reflexivity. Qed.

(* ---------- histories of a step function (observation markers are skipped) ---------- *)
Section Steps.
  Context {S : Type}.
  Variable step : S -> sx -> option (S * list ev).

  Fixpoint run_steps (s : S) (ops : list sx) : option S :=
    match ops with
    | [] => Some s
    | SA _ :: r => run_steps s r
    | o :: r => match step s o with Some (s', _) => run_steps s' r | None => None end
    end.

  Lemma run_steps_inv (P : S -> Prop) :
    (forall s o s' e, P s -> step s o = Some (s', e) -> P s') ->
    forall ops s s', P s -> run_steps s ops = Some s' -> P s'.
  Proof.
    intros Hstep. induction ops as [|o ops IH]; intros s s' Hp H; cbn [run_steps] in H.
    - inversion H; subst. exact Hp.
    - destruct o as [n|l]; [now apply (IH s)|].
      destruct (step s (SL l)) as [[s1 e]|] eqn:E; [|discriminate].
      apply (IH s1); [|exact H]. eapply Hstep; eauto.
  Qed.
End Steps.
