(* AML inside a generic table -- how a VMM builds its DSDT: the bytes an AML tree serialises to, pushed through the Sdt sink
   (one append::<u8> per byte) or appended as one slice, give one and the same table image; that image has the right size,
   sums to 0, carries its size in the Length field, keeps the caller's header, and its body -- everything after the old
   table -- is byte for byte the AML stream, which the Spec parser reads back as exactly the tree the caller built.
   Composition of C13 (Proofs/SdtP.v), C14 (Proofs/Sink2P.v) and C06 (Proofs/AmlRoundTrip.v); nothing is reproved. *)
From Coq Require Import NArith ZArith List Lia Bool Arith.
From ACPI Require Import Lib.Bytes Lib.Sx Lib.Machine Impl.Checksum Impl.Fields Impl.Sink Impl.Sdt Impl.Sink2
  Impl.AmlCore Impl.AmlTerm Spec.Layout Spec.SdtS Spec.AmlCoreS Spec.AmlTermS
  Proofs.SdtP Proofs.Sink2P Proofs.AmlFrameP Proofs.AmlRoundTrip Proofs.SdtHistP.
Import ListNotations.
Open Scope N_scope.

(* ---- the table side: what appending a payload does to the image ---- *)
Lemma skipn_sappend v bs : (36 <= length v)%nat -> skipn (length v) (sappend v bs) = bs.
Proof.
  intros H. apply (nth_ext _ _ 0 0).
  - rewrite skipn_length, length_sappend by lia. lia.
  - intros i _. rewrite nth_skipn'. rewrite nth_sappend by (try exact H; lia).
    rewrite app_nth2 by lia. f_equal. lia.
Qed.

Lemma header_sappend v bs i : (36 <= length v)%nat -> (i < length v)%nat -> i <> 9%nat -> ~ (4 <= i < 8)%nat ->
  nth i (sappend v bs) 0 = nth i v 0.
Proof. intros H Hi H9 H48. rewrite nth_sappend by assumption. now apply app_nth1. Qed.

(* the image of a table v after the payload b has been delivered to it *)
Record payload_image (v b img : list N) : Prop := {
  pi_length : length img = (length v + length b)%nat;
  pi_sum : sum8 img = 0;
  pi_length_field : field_at img 4 4 = N.of_nat (length img);
  pi_payload : skipn (length v) img = b;                      (* the payload is intact ... *)
  pi_header : forall i, (i < length v)%nat -> i <> 9%nat -> ~ (4 <= i < 8)%nat -> nth i img 0 = nth i v 0
                                                               (* ... and only Length and Checksum moved in the old bytes *)
}.

Lemma sappend_payload_image v b : (36 <= length v)%nat -> N.of_nat (length v + length b) < 2 ^ 32 ->
  payload_image v b (sappend v b).
Proof.
  intros H Hsz. constructor.
  - apply length_sappend. lia.
  - now apply sum8_sappend.
  - rewrite length_field_sappend, length_sappend by lia. now apply N.mod_small.
  - now apply skipn_sappend.
  - intros i Hi H9 H48. now apply header_sappend.
Qed.

(* every way of delivering b -- one append_slice; byte by byte through the sink; any chunking of it into sink calls --
   ends in the same image *)
Lemma deliver_payload md v b : (36 <= length v)%nat -> N.of_nat (length v + length b) < 2 ^ 32 ->
  exists img,
    sdt_append_slice md v b = Some img /\
    (bytes_ok b = true -> b <> [] ->
       sdt_sink_vec md v b = Some img /\ forall tr, flatten tr = b -> run_sdt md v tr = Some img) /\
    payload_image v b img.
Proof.
  intros H Hsz. exists (sappend v b). assert (H64 := lt32_lt64 _ Hsz). split; [|split].
  - apply append_slice_refines; [exact H|lia].
  - intros Hb Hne. split; [now apply sink_vec_refines|].
    intros tr <-. now apply run_sdt_sappend.
  - now apply sappend_payload_image.
Qed.

(* ---- one AML term as the body ---- *)
Theorem dsdt_composition : forall env t md b v0,
  wf env false t -> enc md t = Some b -> bytes_ok b = true ->
  (36 <= length v0)%nat -> N.of_nat (length v0 + length b) < 2 ^ 32 ->
  exists img g,
    sdt_sink_vec md v0 b = Some img /\ sdt_append_slice md v0 b = Some img /\
    (forall tr, flatten tr = b -> run_sdt md v0 tr = Some img) /\
    payload_image v0 b img /\
    norm false t = Some g /\
    forall f, (depth t < f)%nat -> parse env f false (skipn (length v0) img) = Some (g, []).
Proof.
  intros env t md b v0 Hwf Henc Hb H36 Hsz.
  assert (H63 : N.of_nat (length b) < 2 ^ 63).
  { change (2 ^ 32) with 4294967296 in Hsz. change (2 ^ 63) with 9223372036854775808. lia. }
  destruct (roundtrip env t false md b Hwf Henc H63) as (g & Hg & Hrt).
  assert (Hne : b <> []).
  { intros ->. specialize (Hrt (S (depth t)) (Nat.lt_succ_diag_r _) []). cbn [app] in Hrt.
    rewrite parse_nil in Hrt. discriminate. }
  destruct (deliver_payload md v0 b H36 Hsz) as (img & Happ & Hsink & Himg).
  destruct (Hsink Hb Hne) as [Hvec Htr].
  exists img, g. split; [exact Hvec|split; [exact Happ|split; [exact Htr|split; [exact Himg|split; [exact Hg|]]]]].
  intros f Hf. rewrite (pi_payload _ _ _ Himg). rewrite <- (app_nil_r b) at 1. now apply Hrt.
Qed.

(* ---- a list of AML terms as the body (a DSDT is a TermList) ---- *)
Theorem dsdt_body_composition : forall env ks md b v0,
  Forall (wf env false) ks -> encs md ks = Some b -> bytes_ok b = true -> b <> [] ->
  (36 <= length v0)%nat -> N.of_nat (length v0 + length b) < 2 ^ 32 ->
  exists img gs,
    sdt_sink_vec md v0 b = Some img /\ sdt_append_slice md v0 b = Some img /\
    (forall tr, flatten tr = b -> run_sdt md v0 tr = Some img) /\
    payload_image v0 b img /\
    norms false ks = Some gs /\
    forall f, (depths ks < f)%nat ->
      parse_all (parse env f) (length img - length v0) false (skipn (length v0) img) = Some gs.
Proof.
  intros env ks md b v0 Hwf Henc Hb Hne H36 Hsz.
  assert (H63 : N.of_nat (length b) < 2 ^ 63).
  { change (2 ^ 32) with 4294967296 in Hsz. change (2 ^ 63) with 9223372036854775808. lia. }
  assert (HRT : Forall (RT env) ks) by (apply Forall_forall; intros x _; apply roundtrip).
  destruct (kids_rt env md false ks HRT Hwf b Henc H63) as (es & gs & -> & Hgs & _ & Hall).
  destruct (deliver_payload md v0 (concat es) H36 Hsz) as (img & Happ & Hsink & Himg).
  destruct (Hsink Hb Hne) as [Hvec Htr].
  exists img, gs. split; [exact Hvec|split; [exact Happ|split; [exact Htr|split; [exact Himg|split; [exact Hgs|]]]]].
  intros f Hf. rewrite (pi_payload _ _ _ Himg), (pi_length _ _ _ Himg).
  apply parse_all_concat; [intros el; apply parse_nil|now apply Hall|lia].
Qed.

(* ---- from the constructor: Sdt::new(...) then the AML body ---- *)
Corollary dsdt_from_new : forall env t md b c v0,
  sdt_new c = Some v0 -> wf env false t -> enc md t = Some b -> bytes_ok b = true ->
  N.of_nat (length v0 + length b) < 2 ^ 32 ->
  exists img g,
    sdt_sink_vec md v0 b = Some img /\ sdt_append_slice md v0 b = Some img /\
    payload_image v0 b img /\ norm false t = Some g /\
    forall f, (depth t < f)%nat -> parse env f false (skipn (length v0) img) = Some (g, []).
Proof.
  intros env t md b c v0 Hnew Hwf Henc Hb Hsz. destruct (sdt_new_sums_to_zero c v0 Hnew) as [_ [H36 _]].
  destruct (dsdt_composition env t md b v0 Hwf Henc Hb H36 Hsz) as (img & g & H1 & H2 & _ & H3 & H4 & H5).
  now exists img, g.
Qed.
