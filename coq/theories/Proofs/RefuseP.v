(* C18 for the AML encoder: counts and sizes that do not fit their field are refused in both build profiles. *)
From Coq Require Import NArith ZArith List Lia Bool Arith.
From ACPI Require Import Lib.Bytes Lib.Sx Lib.Machine Impl.AmlCore Impl.AmlTerm Proofs.PkgLenP Proofs.PathP.
Import ListNotations.
Open Scope N_scope.

Lemma package_refuses md ks : (255 < length ks)%nat -> enc md (TPackage ks) = None.
Proof.
  intros H. cbn [enc]. destruct (N.leb_spec (N.of_nat (length ks)) 255); [lia|]. reflexivity.
Qed.

Lemma pkg_builder_refuses md ks : (255 < length ks)%nat -> enc md (TPkgBuilder ks) = None.
Proof.
  intros H. cbn [enc].
  match goal with |- context [?f ks] => is_fix f; destruct (f ks) end; [|reflexivity].
  cbn [option_bind]. destruct (N.leb_spec (N.of_nat (length ks)) 255); [lia|]. reflexivity.
Qed.

Lemma method_refuses md p args sr ks : 7 < args -> enc md (TMethod p args sr ks) = None.
Proof.
  intros H. cbn [enc]. destruct (enc_path_text p); [|reflexivity]. cbn [option_bind].
  destruct (N.leb_spec args 7); [lia|]. reflexivity.
Qed.

Lemma arg_local_refuse md n : (6 < n -> enc md (TArg n) = None) /\ (7 < n -> enc md (TLocal n) = None).
Proof.
  split; intros H; cbn [enc].
  - destruct (N.leb_spec n 6); [lia|reflexivity].
  - destruct (N.leb_spec n 7); [lia|reflexivity].
Qed.

Lemma path_text_refuses s p : path_new s = Some p -> (255 < length (p_parts p))%nat -> enc_path_text s = None.
Proof. intros H Hl. unfold enc_path_text. rewrite H. cbn [option_bind]. apply path_enc_refuse. now right. Qed.

(* a body of 2^28 - 1 bytes or more cannot be framed: every length-prefixed object refuses it *)
Lemma framed_refuses md op body :
  N.of_nat (length body) < 2 ^ 63 -> 2 ^ 28 <= N.of_nat (length body) + 4 -> 2 ^ 20 <= N.of_nat (length body) ->
  framed md op body = None.
Proof.
  intros Hn H Hbig. unfold framed. rewrite pkg_len_refuse; [reflexivity|exact Hn|].
  change (2 ^ 20) with 1048576 in Hbig.
  destruct (pkg_ll_cases (N.of_nat (length body))) as [[Hr _]|[[Hr _]|[[Hr _]|[_ E]]]]; lia.
Qed.

(* whenever a package is emitted, its NumElements byte is the number of elements *)
Lemma package_count_agrees md ks b : enc md (TPackage ks) = Some b ->
  exists pl body, b = [0x12] ++ pl ++ N.of_nat (length ks) :: body /\ N.of_nat (length ks) <= 255.
Proof.
  cbn [enc]. destruct (N.leb_spec (N.of_nat (length ks)) 255) as [Hle|]; [|discriminate]. cbn [assert option_bind].
  match goal with |- context [?f ks] => is_fix f; destruct (f ks) as [eks|] end; [|discriminate].
  cbn [option_bind]. unfold framed. destruct (pkg_len md _ true) as [pl|]; [|discriminate].
  cbn [option_bind]. intros H. inversion H; subst. exists pl, eks. split; [|exact Hle].
  unfold cast, U8. change (2 ^ 8) with 256. rewrite N.mod_small by lia. reflexivity.
Qed.
