(* VIOT: the table-specific obligations of the generic history invariant.  The VIOT keeps a u16 handle counter and a u16
   node count (needs_pos KViot = true), so besides "claimed len() = bytes written" every node must be non-empty and
   shorter than 2^16. *)
From Coq Require Import NArith ZArith List Lia Bool Arith.
From ACPI Require Import Lib.Bytes Lib.Sx Lib.Machine Impl.Checksum Impl.Table Impl.Fields Impl.Run Impl.Madt Impl.Viot Spec.Layout
  Proofs.ChecksumP Proofs.TableP Proofs.MadtP Proofs.Tables Proofs.RimtP.
Import ListNotations.
Open Scope N_scope.

Lemma viot_new_inv c s0 : viot_new c = Some s0 -> Inv2 KViot s0.
Proof.
  unfold viot_new. destruct c as [|l]; [discriminate|].
  destruct l as [|o [|t [|r [|x l]]]]; try discriminate.
  destruct (sx_hdr [86; 73; 79; 84] 1 o t r) as [h|] eqn:Eh; [|discriminate]. cbn [option_bind].
  intros H. inversion H; subst.
  apply tbl_new_inv2; [eapply sx_hdr_ok; [|exact Eh]; reflexivity | reflexivity].
Qed.

(* the four constant len() functions agree with the four serialisers, for every argument value *)
Lemma pci_range_len f l h : length (pci_range_bytes f l h) = 24%nat.
Proof. reflexivity. Qed.
Lemma mmio_endpoint_len ep base h : length (mmio_endpoint_bytes ep base h) = 24%nat.
Proof. reflexivity. Qed.
Lemma virtio_pci_len d : length (virtio_pci_bytes d) = 16%nat.
Proof. reflexivity. Qed.
Lemma virtio_mmio_len base : length (virtio_mmio_bytes base) = 16%nat.
Proof. reflexivity. Qed.

Lemma viot_addition_sound s o e : t_kind s = KViot -> viot_addition s o = Some e ->
  a_claimed e = N.of_nat (length (a_bytes e)) /\
  (needs_pos (t_kind s) = true -> (1 <= length (a_bytes e))%nat /\ a_claimed e < 2 ^ 16).
Proof.
  intros Hk H. unfold viot_addition in H.
  split_matches H; inversion H; subst; cbn [a_claimed a_bytes];
    rewrite ?pci_range_len, ?mmio_endpoint_len, ?virtio_pci_len, ?virtio_mmio_len;
    (split; [reflexivity|intros _; split; [lia|reflexivity]]).
Qed.

Definition viot_table : addtable :=
  {| at_name := [86; 73; 79; 84]; at_kind := KViot; at_new := viot_new; at_entry := viot_addition;
     at_new_inv := viot_new_inv; at_sound := viot_addition_sound |}.

(* what the generic history theorems give for this table: after every constructor and every history of additions
   (no bound on the length) the serialised table sums to 0 and its Length field is its size *)
Corollary viot_history md c ops s0 s :
  viot_new c = Some s0 -> run_adds viot_addition md s0 ops = Some s -> N.of_nat (length (tbl_image s)) < 2 ^ 32 ->
  sum8 (tbl_image s) = 0 /\ field_at (tbl_image s) 4 4 = N.of_nat (length (tbl_image s)).
Proof.
  intros Hn Hr Hfit. pose proof (addtable_reach viot_table md c ops s0 s Hn Hr Hfit) as [I _].
  split; [now apply inv_sum8_zero|now apply image_len_field].
Qed.
