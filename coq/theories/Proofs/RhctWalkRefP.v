(* RHCT, C03 as a theorem: for every history in the domain of Spec/RhctS.v the reference image is exactly tiled by the nodes
   that were added (walk from offset 56 by each node's own 16-bit length field), the node count (offset 48) is the number of
   nodes and the node offset (offset 52) is 56; by the refinement theorem the same holds of the image the Impl model emits.
   C05 on the reference image: the offset the Spec resolves (104 k) to is the offset at which the walk finds the k-th node. *)
From Coq Require Import NArith ZArith List Lia Bool Arith.
From ACPI Require Import Lib.Bytes Lib.Sx Lib.Machine Impl.Checksum Impl.Table Impl.Fields Impl.Run Impl.Madt Impl.Rhct
  Proofs.ChecksumP Proofs.TableP Proofs.MadtP Proofs.Tables Proofs.RhctP Proofs.RefTableCommonP
  Spec.Layout Spec.MadtS Spec.HmatS Spec.PpttS Spec.RhctS
  Proofs.WalkP Proofs.WalkRefCommon2P Proofs.RhctRefP.
Import ListNotations.

Ltac Zify.zify_post_hook ::= Z.to_euclidean_division_equations.

Open Scope N_scope.

Definition rhct_ty (e : list N) : N := unle (firstn 2 e).

Lemma length_arr w l : length (arr w l) = (w * length l)%nat.
Proof.
  unfold arr. induction l as [|x l IH]; cbn [map concat length]; [lia|]. rewrite app_length, length_le, IH. lia.
Qed.

Lemma pow16 : 2 ^ (8 * N.of_nat 2) = 65536.
Proof. reflexivity. Qed.

(* ---------- every reference node describes itself: its bytes 2..3 hold its own size ---------- *)
Lemma rhct_entry_self p o e : rhct_entry_ref p o = Some e -> self_describing H_u16_u16 e (rhct_ty e).
Proof.
  intros H. unfold rhct_entry_ref in H.
  destruct o as [|l]; [discriminate H|]. destruct l as [|[op|] l]; try discriminate H.
  destruct op as [|op]; try discriminate H.
  repeat (destruct op as [op|op|]; try discriminate H).
  - (* 3: CMO *)
    destruct l as [|[cbom|] [|[cbop|] [|[cboz|] [|]]]]; try discriminate H.
    destruct ((cbom <? 256) && (cbop <? 256) && (cboz <? 256)); [|discriminate H].
    destruct (lay_decodes _ _ _ H) as [Hlen Hf].
    apply sd_u16_u16_of_fields; [lia|]. rewrite Hlen. apply (Hf 2%nat 2%nat 10). cbn [In L]. tauto.
  - (* 4: hart info *)
    destruct l as [|[uid|] [|isa [|[|cmos] [|]]]]; try discriminate H.
    destruct (resolve p 0 isa) as [i|]; [|discriminate H].
    destruct (resolve_all p 1 cmos) as [cs|]; [|discriminate H].
    destruct (uid <? 2 ^ 32); [|discriminate H]. cbn [andb] in H.
    destruct (N.leb_spec (N.of_nat (12 + 4 * S (length cs))) 65535) as [Hle|]; [|discriminate H].
    destruct (lay_then_decodes _ _ _ _ H) as [Hlen Hf].
    rewrite length_arr in Hlen. cbn [length] in Hlen.
    apply sd_u16_u16_of_fields; [lia|].
    rewrite (Hf 2%nat 2%nat (N.of_nat (12 + 4 * S (length cs)))); [|cbn [In L]; tauto|lia].
    rewrite pow16, N.mod_small by lia. rewrite Hlen. reflexivity.
  - (* 2: MMU *)
    destruct l as [|[scheme|] [|]]; try discriminate H.
    destruct (scheme <? 3); [|discriminate H].
    destruct (lay_decodes _ _ _ H) as [Hlen Hf].
    apply sd_u16_u16_of_fields; [lia|]. rewrite Hlen. apply (Hf 2%nat 2%nat 8). cbn [In L]. tauto.
  - (* 1: ISA string *)
    destruct l as [|str [|]]; try discriminate H.
    destruct (sx_bytes str) as [b|]; [|discriminate H]. cbv zeta in H.
    destruct (forallb _ b); [|discriminate H]. cbn [andb] in H.
    remember (8 + length b + 1 + (if Nat.odd (8 + length b + 1) then 1 else 0))%nat as total eqn:Et.
    destruct (N.leb_spec (N.of_nat total) 65535) as [Hle|]; [|discriminate H].
    destruct (lay_then_decodes _ _ _ _ H) as [Hlen Hf].
    assert (Hl : length e = total).
    { rewrite Hlen, Et, !app_length. cbn [length]. destruct (Nat.odd (8 + length b + 1)); cbn [length]; lia. }
    apply sd_u16_u16_of_fields; [rewrite Hl, Et; lia|].
    rewrite (Hf 2%nat 2%nat (N.of_nat total)); [|cbn [In L]; tauto|lia].
    rewrite pow16, N.mod_small by lia. rewrite Hl. reflexivity.
Qed.

Lemma rhct_entries_from_self ops : forall p next racc es,
  rhct_entries_from ops p next racc = Some es ->
  Forall (fun e => self_describing H_u16_u16 e (rhct_ty e)) racc ->
  Forall (fun e => self_describing H_u16_u16 e (rhct_ty e)) es.
Proof.
  induction ops as [|o ops IH]; intros p next racc es H HF; cbn [rhct_entries_from] in H.
  - apply wr_Some_inj in H. subst es. rewrite frev_rev. apply Forall_rev. exact HF.
  - destruct (rhct_entry_ref p o) as [e|] eqn:He; [|discriminate H].
    apply (IH _ _ _ _ H). constructor; [exact (rhct_entry_self p o e He)|exact HF].
Qed.

(* ---------- the shape of the reference image ---------- *)
Lemma rhct_image_shape ctor ops r : ts_image rhct_spec ctor ops = Some r ->
  exists ha timebase es,
    rhct_entries_ref ops = Some es /\ N.of_nat (length es) < 2 ^ 32 /\
    length (ha_oem ha) = 6%nat /\ length (ha_tbl ha) = 8%nat /\
    r = ref_table [82; 72; 67; 84] 1 ha ((le 4 0 ++ le 8 timebase ++ le 4 (N.of_nat (length es)) ++ le 4 56) ++ concat es).
Proof.
  intros H. cbn [ts_image rhct_spec] in H. unfold rhct_image in H.
  destruct ctor as [|l]; [discriminate H|].
  destruct l as [|o [|t [|rr [|[timebase|] [|]]]]]; try discriminate H.
  destruct (sx_hdr_args o t rr) as [ha|] eqn:Eha; [|discriminate H].
  destruct (rhct_entries_ref ops) as [es|] eqn:Ees; [|discriminate H].
  destruct (timebase <? 2 ^ 64); [|discriminate H]. cbn [andb] in H.
  destruct (N.ltb_spec (N.of_nat (length es)) (2 ^ 32)) as [Hc|]; [|discriminate H].
  apply wr_Some_inj in H. subst r.
  destruct (sx_hdr_args_len _ _ _ _ Eha) as [Ho Ht].
  exists ha, timebase, es. split; [reflexivity|]. split; [exact Hc|]. split; [exact Ho|]. split; [exact Ht|].
  rewrite <- !app_assoc. reflexivity.
Qed.

(* ---------- (1) the reference image is exactly tiled, and its count fields hold ---------- *)
Theorem rhct_reference_tiles : forall ctor ops r,
  ts_image rhct_spec ctor ops = Some r -> c03_judge rhct_spec ctor r ops = true.
Proof.
  intros ctor ops r H.
  destruct (rhct_image_shape ctor ops r H) as (ha & timebase & es & Ees & Hc & Ho & Ht & ->).
  apply (c03_judge_of_tyf rhct_spec ctor ops _ 56%nat H_u16_u16 rhct_ty es).
  - reflexivity.
  - cbn [ts_entries rhct_spec]. rewrite Ees. reflexivity.
  - apply skipn_ref_table; [reflexivity|exact Ho|exact Ht|]. rewrite !app_length, !length_le. reflexivity.
  - apply (rhct_entries_from_self ops _ _ _ es Ees). constructor.
  - cbn [ts_counts rhct_spec forallb]. rewrite andb_true_r.
    rewrite <- !app_assoc.
    rewrite (field_at_ref_table [82; 72; 67; 84] 1 ha _ 12%nat 4%nat eq_refl Ho Ht).
    rewrite (field_at_ref_table [82; 72; 67; 84] 1 ha _ 16%nat 4%nat eq_refl Ho Ht).
    rewrite (app_assoc (le 4 0) (le 8 timebase)).
    assert (H12 : length (le 4 0 ++ le 8 timebase) = 12%nat) by (rewrite app_length, !length_le; reflexivity).
    rewrite (field_at_skip _ _ 12%nat 4%nat H12), field_at_le_app.
    rewrite (app_assoc _ (le 4 (N.of_nat (length es)))).
    assert (H16 : length ((le 4 0 ++ le 8 timebase) ++ le 4 (N.of_nat (length es))) = 16%nat)
      by (rewrite !app_length, !length_le; reflexivity).
    rewrite (field_at_skip _ _ 16%nat 4%nat H16), field_at_le_app.
    change (2 ^ (8 * N.of_nat 4)) with (2 ^ 32). rewrite N.mod_small by exact Hc. rewrite N.eqb_refl. reflexivity.
Qed.

(* ---------- (2) the image the Impl model emits is exactly tiled ---------- *)
Corollary rhct_model_tiles : forall md ctor ops r,
  ts_image rhct_spec ctor ops = Some r ->
  N.of_nat (length r) < 2 ^ 32 ->
  exists s0 s, rhct_new ctor = Some s0 /\
               run_adds rhct_addition md s0 ops = Some s /\
               c03_judge rhct_spec ctor (tbl_image s) ops = true.
Proof.
  intros md ctor ops r H Hfit.
  destruct (rhct_refines md ctor ops r H Hfit) as (s0 & s & Hn & Hr & Hi).
  exists s0, s. split; [exact Hn|]. split; [exact Hr|]. rewrite Hi. exact (rhct_reference_tiles ctor ops r H).
Qed.

(* ---------- (3) C05 on the reference image: the Spec's handles are the offsets the walk finds ---------- *)

(* the Spec's bookkeeping (Spec/RhctS.v, [rhct_entries_from]) after a list of operations: the (type, start) of every node
   placed so far, most recent first, and their number; this is the [p] with which the NEXT operation's handle references
   (104 k) are resolved *)
Fixpoint rhct_placed_from (ops : list sx) (p : placed) (next : N) : option placed :=
  match ops with
  | [] => Some p
  | o :: r =>
      match rhct_entry_ref p o with
      | Some e => rhct_placed_from r ((rhct_ty e, next) :: fst p, snd p + 1) (next + N.of_nat (length e))
      | None => None
      end
  end.

Definition rhct_placed (ops : list sx) : option placed := rhct_placed_from ops ([], 0) 56.

(* the bookkeeping lists exactly the starts of the entries laid out so far *)
Definition placed_ok (p : placed) (next : N) (es : list (list N)) : Prop :=
  rev (fst p) = starts_of rhct_ty 56 es /\ snd p = N.of_nat (length (fst p)) /\ next = 56 + N.of_nat (length (concat es)).

Lemma placed_ok_step p next racc e : placed_ok p next (rev racc) ->
  placed_ok ((rhct_ty e, next) :: fst p, snd p + 1) (next + N.of_nat (length e)) (rev (e :: racc)).
Proof.
  intros (H1 & H2 & H3). unfold placed_ok. cbn [fst snd rev length]. split; [|split].
  - rewrite H1, starts_of_app. cbn [starts_of]. rewrite <- H3. reflexivity.
  - rewrite H2. lia.
  - rewrite concat_app, app_length. cbn [concat]. rewrite app_nil_r. lia.
Qed.

Lemma rhct_entries_from_length ops : forall p next racc es,
  rhct_entries_from ops p next racc = Some es -> length es = (length racc + length ops)%nat.
Proof.
  induction ops as [|o ops IH]; intros p next racc es H; cbn [rhct_entries_from] in H.
  - apply wr_Some_inj in H. subst es. rewrite frev_rev, rev_length. cbn [length]. lia.
  - destruct (rhct_entry_ref p o) as [e|]; [|discriminate H]. rewrite (IH _ _ _ _ H). cbn [length]. lia.
Qed.

Lemma rhct_placed_split pre : forall post p next racc es,
  rhct_entries_from (pre ++ post) p next racc = Some es -> placed_ok p next (rev racc) ->
  exists p' next' es1 tail,
    rhct_placed_from pre p next = Some p' /\ placed_ok p' next' es1 /\ es = es1 ++ tail /\
    length es1 = (length racc + length pre)%nat /\ length es = (length racc + length (pre ++ post))%nat.
Proof.
  induction pre as [|o pre IH]; intros post p next racc es H Hok.
  - cbn [app] in H. cbn [rhct_placed_from].
    destruct (rhct_entries_from_prefix _ _ _ _ _ H) as [tail ->].
    exists p, next, (rev racc), tail. split; [reflexivity|]. split; [exact Hok|]. split; [reflexivity|].
    split; [rewrite rev_length; cbn [length]; lia|].
    cbn [app]. exact (rhct_entries_from_length _ _ _ _ _ H).
  - cbn [app rhct_entries_from] in H. cbn [rhct_placed_from].
    destruct (rhct_entry_ref p o) as [e|] eqn:He; [|discriminate H].
    destruct (IH post _ _ _ es H (placed_ok_step p next racc e Hok)) as (p' & next' & es1 & tail & Hp & Hok' & Hes & Hl1 & Hl).
    exists p', next', es1, tail. split; [exact Hp|]. split; [exact Hok'|]. split; [exact Hes|].
    cbn [length app] in *. split; lia.
Qed.

(* resolving (104 k) in the bookkeeping = reading the k-th start *)
Lemma resolve_is_start p next es k ty off : placed_ok p next es ->
  resolve p ty (SL [SA 104; SA k]) = Some off -> nth_error (starts_of rhct_ty 56 es) (N.to_nat k) = Some (ty, off).
Proof.
  intros (H1 & H2 & _) H. cbn [resolve] in H.
  destruct (N.ltb_spec k (snd p)) as [Hk|]; [|discriminate H].
  destruct (nth_error (fst p) (N.to_nat (snd p - 1 - k))) as [[t o]|] eqn:En; [|discriminate H].
  destruct (N.eqb_spec t ty) as [->|]; [|discriminate H]. apply wr_Some_inj in H. subst o.
  rewrite <- H1, nth_error_rev_lt' by lia.
  replace (length (fst p) - 1 - N.to_nat k)%nat with (N.to_nat (snd p - 1 - k)) by lia. exact En.
Qed.

Lemma start_is_resolved p next es k ty off : placed_ok p next es ->
  nth_error (starts_of rhct_ty 56 es) k = Some (ty, off) -> resolve p ty (SL [SA 104; SA (N.of_nat k)]) = Some off.
Proof.
  intros (H1 & H2 & _) H.
  assert (Hk : (k < length (fst p))%nat).
  { rewrite <- rev_length, H1. apply nth_error_Some. congruence. }
  rewrite <- H1, nth_error_rev_lt' in H by exact Hk. cbn [resolve].
  destruct (N.ltb_spec (N.of_nat k) (snd p)); [|lia].
  replace (N.to_nat (snd p - 1 - N.of_nat k)) with (length (fst p) - 1 - k)%nat by lia.
  rewrite H, N.eqb_refl. reflexivity.
Qed.

(* A handle reference resolved after any prefix [pre] of a history names, in the reference image of the WHOLE history (so in
   every later image), the offset at which the walk finds the node added by that operation, and that node has the type the
   reference asked for; conversely every node added by [pre] is reachable through its handle. *)
Theorem rhct_reference_handles : forall ctor pre post r,
  ts_image rhct_spec ctor (pre ++ post) = Some r ->
  exists p found,
    rhct_placed pre = Some p /\ snd p = N.of_nat (length pre) /\
    walk (S (length r)) H_u16_u16 56 (skipn 56 r) = Some found /\
    length found = length (pre ++ post) /\
    (forall k ty off, resolve p ty (SL [SA 104; SA k]) = Some off ->
       exists o len, nth_error found (N.to_nat k) = Some (ty, o, len) /\ N.of_nat o = off) /\
    (forall k, (k < length pre)%nat ->
       exists ty o len, nth_error found k = Some (ty, o, len) /\
                        resolve p ty (SL [SA 104; SA (N.of_nat k)]) = Some (N.of_nat o)).
Proof.
  intros ctor pre post r H.
  destruct (rhct_image_shape ctor _ r H) as (ha & timebase & es & Ees & Hc & Ho & Ht & ->).
  assert (Hsk : skipn 56 (ref_table [82; 72; 67; 84] 1 ha
                  ((le 4 0 ++ le 8 timebase ++ le 4 (N.of_nat (length es)) ++ le 4 56) ++ concat es)) = concat es).
  { apply skipn_ref_table; [reflexivity|exact Ho|exact Ht|]. rewrite !app_length, !length_le. reflexivity. }
  assert (HF : Forall (fun e => self_describing H_u16_u16 e (rhct_ty e)) es).
  { apply (rhct_entries_from_self _ _ _ _ es Ees). constructor. }
  assert (Hok0 : placed_ok ([], 0) 56 (rev [])) by (repeat split).
  destruct (rhct_placed_split pre post _ _ _ es Ees Hok0) as (p & next & es1 & tail & Hp & Hok & Hes & Hl1 & Hl).
  cbn [length] in Hl1, Hl.
  exists p, (walk_result 56 es (map rhct_ty es)).
  split; [exact Hp|]. split.
  { destruct Hok as (H1 & H2 & _). rewrite H2, <- rev_length, H1, length_starts_of, Hl1. reflexivity. }
  split; [exact (walk_of_entries _ 56%nat H_u16_u16 rhct_ty es Hsk HF)|].
  split; [rewrite walk_result_length by (now rewrite map_length); exact Hl|].
  split.
  - intros k ty off Hr. subst es.
    exact (start_is_walked rhct_ty 56 es1 tail (N.to_nat k) ty off (resolve_is_start p next es1 k ty off Hok Hr)).
  - intros k Hk.
    assert (Hk1 : (k < length (starts_of rhct_ty 56 es1))%nat) by (rewrite length_starts_of; lia).
    destruct (nth_error (starts_of rhct_ty 56 es1) k) as [[ty off]|] eqn:En; [|apply nth_error_None in En; lia].
    subst es. destruct (start_is_walked rhct_ty 56 es1 tail k ty off En) as (o & len & Hf & Hoff).
    exists ty, o, len. split; [exact Hf|]. rewrite Hoff. exact (start_is_resolved p next es1 k ty off Hok En).
Qed.

(* in the form of the run-time judgement [c05_handles_ok]: whatever set of (handle, operation number) pairs is pending, if
   each handle is the offset the Spec resolves that operation's (104 k) to, the judgement on the reference image is true *)
Corollary rhct_reference_handles_ok : forall ctor ops r p pending,
  ts_image rhct_spec ctor ops = Some r -> rhct_placed ops = Some p ->
  (forall hk, In hk pending -> exists ty, resolve p ty (SL [SA 104; SA (N.of_nat (snd hk))]) = Some (fst hk)) ->
  c05_handles_ok rhct_spec r pending = true.
Proof.
  intros ctor ops r p pending H Hp Hpend.
  pose proof H as H'. rewrite <- (app_nil_r ops) in H'.
  destruct (rhct_image_shape ctor _ r H) as (ha & timebase & es & Ees & Hc & Ho & Ht & ->).
  assert (Hok0 : placed_ok ([], 0) 56 (rev [])) by (repeat split).
  pose proof Ees as Ees'. unfold rhct_entries_ref in Ees'. rewrite <- (app_nil_r ops) in Ees'.
  destruct (rhct_placed_split ops [] _ _ _ es Ees' Hok0) as (p' & next & es1 & tail & Hp' & Hok & Hes & Hl1 & Hl).
  unfold rhct_placed in Hp. rewrite Hp in Hp'. apply wr_Some_inj in Hp'. subst p'.
  assert (tail = []) as ->.
  { assert (Hlen : length es = length es1) by (rewrite app_nil_r in Hl; lia).
    rewrite Hes, app_length in Hlen. destruct tail; [reflexivity|cbn [length] in Hlen; lia]. }
  rewrite app_nil_r in Hes. subst es1.
  apply (c05_handles_ok_of_starts rhct_spec _ 56%nat H_u16_u16 rhct_ty es pending).
  - reflexivity.
  - apply skipn_ref_table; [reflexivity|exact Ho|exact Ht|]. rewrite !app_length, !length_le. reflexivity.
  - apply (rhct_entries_from_self _ _ _ _ es Ees). constructor.
  - intros hk Hin. destruct (Hpend hk Hin) as [ty Hr]. exists ty.
    pose proof (resolve_is_start p next es _ ty (fst hk) Hok Hr) as Hn. rewrite Nat2N.id in Hn. exact Hn.
Qed.

Print Assumptions rhct_reference_tiles.
Print Assumptions rhct_model_tiles.
Print Assumptions rhct_reference_handles.
Print Assumptions rhct_reference_handles_ok.
