(* XSDT: the body is tiled by fixed 8-byte entries (no entry header) -- the walk instance for C03.  No count or length
   field narrower than 32 bits is emitted (the entry count is implied by the table Length). *)
From Coq Require Import NArith ZArith List Lia Bool Arith.
From ACPI Require Import Lib.Bytes Lib.Sx Lib.Machine Impl.Checksum Impl.Table Impl.Fields Impl.Run Impl.Madt Impl.Xsdt
  Spec.Layout Proofs.ChecksumP Proofs.TableP Proofs.MadtP Proofs.Tables Proofs.XsdtP Proofs.RimtP Proofs.WalkP Proofs.WalkW3Common.
Import ListNotations.
Open Scope N_scope.

Lemma xsdt_addition_self s o e : xsdt_addition s o = Some e -> exists ty, self_describing (H_fixed 8) (a_bytes e) ty.
Proof.
  unfold xsdt_addition.
  repeat match goal with |- (match ?x with _ => _ end) = Some _ -> _ => destruct x; try discriminate end.
  intros H. apply Some_inj in H. subst e. cbn [a_bytes]. exists 0.
  apply fixed_self; [unfold q8; apply length_le|lia].
Qed.

Lemma xsdt_new_empty c s0 : xsdt_new c = Some s0 -> t_ents s0 = [].
Proof.
  unfold xsdt_new. destruct c as [|l]; [discriminate|].
  destruct l as [|o [|t [|r [|x l]]]]; try discriminate.
  destruct (sx_hdr _ _ _ _ _); [|discriminate]. cbn [option_bind].
  intros H. apply Some_inj in H. subst. reflexivity.
Qed.

Definition xsdt_walk : walktable :=
  {| wt_table := xsdt_table; wt_ehdr := H_fixed 8; wt_self := xsdt_addition_self; wt_new_empty := xsdt_new_empty |}.

(* the body of the emitted table is 8 bytes per added entry *)
Corollary xsdt_history_body_size md c ops s0 s :
  xsdt_new c = Some s0 -> run_adds xsdt_addition md s0 ops = Some s -> N.of_nat (length (tbl_image s)) < 2 ^ 32 ->
  Forall (fun e => length e = 8%nat) (t_ents s) /\ length (tbl_image s) = (36 + 8 * length (t_ents s))%nat.
Proof.
  intros Hn Hr Hfit.
  destruct (walktable_tiles xsdt_walk md c ops s0 s Hn Hr Hfit) as (tys & HF & _ & Hc & _).
  cbn [wt_ehdr xsdt_walk] in HF.
  assert (H8 : Forall (fun e => length e = 8%nat) (t_ents s)).
  { clear -HF. induction HF as [|e ty es tys He _ IH]; constructor; [|exact IH].
    destruct He as [Hp He]. specialize (He []). rewrite app_nil_r in He.
    destruct e as [|x e]; [cbn [length] in Hp; lia|]. cbn [read_ehdr] in He. apply Some_inj in He. congruence. }
  split; [exact H8|].
  destruct (addtable_reach xsdt_table md c ops s0 s Hn Hr Hfit) as (I & Hk & _). cbn [at_kind xsdt_table] in Hk.
  rewrite (length_image s (inv_hdr s I)), Hk. cbn [mid length]. unfold t_body.
  rewrite (length_concat_const 8 _ H8). lia.
Qed.

Print Assumptions xsdt_walk.
Print Assumptions xsdt_history_body_size.
