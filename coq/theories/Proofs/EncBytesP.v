(* The AML encoder only emits bytes.

   [enc md t = Some b] gives a list of N; nothing in Impl/ says its elements are < 256.  Most of what [enc] writes is
   reduced on the way out ([cast U8], [le w], PkgLength nibbles, opcodes); the rest is copied from a constructor argument
   as it stands.  [typed t] lists exactly those arguments and asks each to be inside the Rust type it has in the crate's
   API (u8 < 256, bool <= 1, the field-flag enums inside their bit fields, byte strings made of bytes).  Under [typed],
   every list [enc] / [encs] / [enc_desc] / [enc_fentry] / [pkg_len] / the kernels return is [bytes_ok]; without it the
   statement is false (Example [typed_needed]).

   Arguments for which NO hypothesis is needed, because the model already reduces them the way the crate's types do:
     TInt 16/32/64/usize n (enc_u16.. fall through [cast] or [le]); TEisa / TUuid input characters (refused unless hex
     digits, results < 16 and recombined under [cast U8]); TArg / TLocal (asserted <= 6 / <= 7 before use);
     Method args (asserted <= 7, masked with 7); PowerResource order, Acquire timeout, IO min/max (w2 = le 2);
     Memory32Fixed base/len, Interrupt number (d4); Register address (q8); AddressSpace cacheable (cast U8 of the shift),
     min/max/translation/length (le w); Package / PackageBuilder element count (asserted <= 255, cast U8);
     FieldEntry widths (PkgLength); every PkgLength and BufferSize.
   Arguments [wf] (Proofs/AmlRoundTrip.v) already bounds at least as tightly as [typed] does:
     TInt 8 n (n < 2^8), TFieldName (a NameSeg), Method serialized (<= 1), PowerResource level (< 256), OpRegion space
     (< 256), Mutex sync level (< 256), Field access (< 16) lock (<= 1) update (< 4), named field entries (NameSegs).
   [wf] does not bound: the characters of TStr (only non-zero) and TBufData, and descriptor arguments (a bare descriptor
   is not wf at all, and inside a ResourceTemplate wf only asks that the children are descriptors). *)
From Coq Require Import NArith ZArith List Lia Bool Arith.
From ACPI Require Import Lib.Bytes Lib.Sx Lib.Machine Impl.AmlCore Impl.AmlTerm Spec.AmlCoreS Spec.AmlTermS
  Impl.Sink Impl.Sdt Impl.Sink2 Spec.Layout
  Proofs.BitsP Proofs.PkgLenP Proofs.PathP Proofs.FieldListP Proofs.Sink2P Proofs.AmlFrameP Proofs.AmlRoundTrip Proofs.DsdtP.
Import ListNotations.
Open Scope N_scope.

(* ---------------------------------------------------------------- the hypothesis *)

(* resource descriptors.  Memory32Fixed::new(read_write: bool, ..); AddressSpace: the type is one of the three
   constructors (0 new_memory 1 new_io 2 new_bus_number) and read_write: bool exists for new_memory only;
   IO::new(.., alignment: u8, length: u8); Interrupt::new(four bools, ..); Register::new(GAS): four u8 fields *)
Definition typed_descb (d : desc) : bool :=
  match d with
  | DMem32 rw _ _ => rw <=? 1
  | DAddr _ ty _ rw _ _ _ => (ty <=? 2) && (negb (ty =? 0) || (rw <=? 1))
  | DIO _ _ align len => (align <? 256) && (len <? 256)
  | DIrq consumer edge active_low shared _ => (consumer <=? 1) && (edge <=? 1) && (active_low <=? 1) && (shared <=? 1)
  | DReg space width offset access _ => (space <? 256) && (width <? 256) && (offset <? 256) && (access <? 256)
  end.

(* FieldEntry::Named([u8; 4], usize): the name is copied *)
Definition typed_fentryb (e : fentry) : bool :=
  match e with FNamed name _ => bytes_ok name | FReserved _ => true end.

Fixpoint typedb (t : term) {struct t} : bool :=
  let all := fix all (l : list term) : bool := match l with [] => true | x :: r => typedb x && all r end in
  match t with
  | TZero | TOne | TOnes => true
  | TInt ty n => negb (ty =? 8) || (n <? 256)                       (* u8: written as [0x0A; n] *)
  | TStr s | TPath s | TFieldName s | TBufData s => bytes_ok s      (* &str / Vec<u8>: copied *)
  | TEisa _ | TUuid _ | TArg _ | TLocal _ => true
  | TDesc d => typed_descb d
  | TOp1 _ a => typedb a
  | TOp2 _ a b => typedb a && typedb b
  | TOp3 _ x a b => typedb x && typedb a && typedb b
  | TOp4 _ a b c d => typedb a && typedb b && typedb c && typedb d
  | TName p i => bytes_ok p && typedb i
  | TDevice p ks | TScope p ks | TScopeRaw p ks | TCall p ks => bytes_ok p && all ks
  | TMethod p _ serialized ks => bytes_ok p && (serialized <=? 1) && all ks          (* serialized: bool *)
  | TPowerRes p level _ ks => bytes_ok p && (level <? 256) && all ks                  (* level: u8 *)
  | TOpRegion p space o l => bytes_ok p && (space <? 256) && typedb o && typedb l     (* space as u8 *)
  | TMutex p sync => bytes_ok p && (sync <? 256)                                      (* sync_level: u8 *)
  | TAcquire p _ | TRelease p => bytes_ok p
  | TField p access lock update es =>
      (* access | lock << 4 | update << 5: FieldAccessType 0..5, FieldLockRule 0..1, FieldUpdateRule 0..2 *)
      bytes_ok p && (access <? 16) && (lock <=? 1) && (update <? 4) && forallb typed_fentryb es
  | TPackage ks | TPkgBuilder ks | TResTemplate ks | TElse ks => all ks
  | TIf pr ks | TWhile pr ks => typedb pr && all ks
  end.

Definition typed (t : term) : Prop := typedb t = true.
Definition typed_desc (d : desc) : Prop := typed_descb d = true.
Definition typed_fentry (e : fentry) : Prop := typed_fentryb e = true.

Lemma typedb_all_fix l :
  (fix all (l : list term) : bool := match l with [] => true | x :: r => typedb x && all r end) l = forallb typedb l.
Proof. induction l as [|x l IH]; [reflexivity|]. cbn [forallb]. now rewrite IH. Qed.

Lemma typed_all l : forallb typedb l = true <-> Forall typed l.
Proof.
  induction l as [|x l IH]; [split; [constructor|reflexivity]|]. cbn [forallb]. rewrite andb_true_iff. split.
  - intros [Hx Hl]. constructor; [exact Hx|now apply IH].
  - intros H. inversion H as [|? ? Hx Hl]; subst. split; [exact Hx|now apply IH].
Qed.

(* ---------------------------------------------------------------- byte lists *)

Lemma some_inj {A} (x y : A) : Some x = Some y -> x = y.
Proof. intros H. now inversion H. Qed.
(* [inversion] would also compute inside the list; this does not *)
Ltac inv_some E b := apply some_inj in E; subst b.

Lemma bok_cons x l : bytes_ok (x :: l) = is_byte x && bytes_ok l.
Proof. reflexivity. Qed.

Lemma bok_app a b : bytes_ok (a ++ b) = bytes_ok a && bytes_ok b.
Proof. apply bytes_ok_app. Qed.

Lemma is_byte_lt x : x < 256 -> is_byte x = true.
Proof. intros H. unfold is_byte. now apply N.ltb_lt. Qed.

Lemma is_byte_cast x : is_byte (cast U8 x) = true.
Proof. apply is_byte_lt. unfold cast, U8. change (2 ^ 8) with 256. apply N.mod_lt. lia. Qed.

Lemma bok_in l x : bytes_ok l = true -> In x l -> x < 256.
Proof. intros H Hx. unfold bytes_ok in H. rewrite forallb_forall in H. apply N.ltb_lt. now apply H. Qed.

Lemma bok_forall l : (forall x, In x l -> x < 256) -> bytes_ok l = true.
Proof. intros H. unfold bytes_ok. apply forallb_forall. intros x Hx. apply is_byte_lt. now apply H. Qed.

Lemma bok_rev l : bytes_ok l = true -> bytes_ok (rev l) = true.
Proof. intros H. apply bok_forall. intros x Hx. apply (bok_in l x H). now apply in_rev. Qed.

Lemma bok_tl l : bytes_ok l = true -> bytes_ok (tl l) = true.
Proof. destruct l as [|x l]; [trivial|]. rewrite bok_cons, andb_true_iff. now intros [_ H]. Qed.

Lemma bok_firstn n l : bytes_ok l = true -> bytes_ok (firstn n l) = true.
Proof.
  intros H. rewrite <- (firstn_skipn n l), bok_app, andb_true_iff in H. exact (proj1 H).
Qed.

Lemma bok_skipn n l : bytes_ok l = true -> bytes_ok (skipn n l) = true.
Proof.
  intros H. rewrite <- (firstn_skipn n l), bok_app, andb_true_iff in H. exact (proj2 H).
Qed.

Lemma bok_app_intro a b : bytes_ok a = true -> bytes_ok b = true -> bytes_ok (a ++ b) = true.
Proof. intros Ha Hb. now rewrite bok_app, Ha, Hb. Qed.

Lemma bok_cons_intro x l : is_byte x = true -> bytes_ok l = true -> bytes_ok (x :: l) = true.
Proof. intros Hx Hl. now rewrite bok_cons, Hx, Hl. Qed.

(* a ++ (x :: b) ++ ... : one goal per piece (syntactic: a piece such as [w2 n] is not unfolded); [leaf] closes what it can *)
Ltac bok_with leaf :=
  lazymatch goal with
  | |- bytes_ok (?a ++ ?b) = true => apply (bok_app_intro a b); [bok_with leaf|bok_with leaf]
  | |- bytes_ok (?x :: ?l) = true => apply (bok_cons_intro x l); [try reflexivity; try leaf|bok_with leaf]
  | |- bytes_ok [] = true => reflexivity
  | |- _ => try reflexivity; try leaf
  end.

Ltac leaf0 :=
  idtac; match goal with
  | |- bytes_ok (le _ _) = true => apply le_bytes_ok
  | |- is_byte (cast U8 _) = true => apply is_byte_cast
  end.
Ltac bok_split := bok_with leaf0.

(* ---------------------------------------------------------------- bit-wise or *)

Lemma lor_lt a b n : a < 2 ^ n -> b < 2 ^ n -> N.lor a b < 2 ^ n.
Proof.
  intros Ha Hb.
  destruct (N.eq_dec (N.lor a b) 0) as [Hz|Hnz].
  - rewrite Hz. assert (Hp : 2 ^ n <> 0) by (apply N.pow_nonzero; lia). lia.
  - assert (Hn : n <> 0).
    { intros ->. change (2 ^ 0) with 1 in Ha, Hb. assert (a = 0) by lia. assert (b = 0) by lia. subst. now apply Hnz. }
    apply N.log2_lt_pow2; [lia|]. rewrite N.log2_lor. apply N.max_lub_lt.
    + destruct (N.eq_dec a 0) as [->|Ha0]; [change (N.log2 0) with 0; lia|]. apply N.log2_lt_pow2; [lia|exact Ha].
    + destruct (N.eq_dec b 0) as [->|Hb0]; [change (N.log2 0) with 0; lia|]. apply N.log2_lt_pow2; [lia|exact Hb].
Qed.

Lemma lor_byte a b : a < 256 -> b < 256 -> is_byte (N.lor a b) = true.
Proof. intros Ha Hb. apply is_byte_lt. change 256 with (2 ^ 8). now apply lor_lt. Qed.

Lemma cast_u8_lt x : cast U8 x < 256.
Proof. unfold cast, U8. change (2 ^ 8) with 256. apply N.mod_lt. lia. Qed.

Lemma shiftl_lt x k m : x * 2 ^ k < m -> N.shiftl x k < m.
Proof. now rewrite shiftl_mul. Qed.

(* ---------------------------------------------------------------- the kernels of Impl/AmlCore.v *)

(* create_pkg_length: every byte of the result is a byte, whatever the length asked for *)
Lemma pkg_len_bytes_ok md len incl e : pkg_len md len incl = Some e -> bytes_ok e = true.
Proof.
  intros H. unfold pkg_len in H.
  destruct (add_m md U64 len _) as [tot|]; [|discriminate H]. cbn [option_bind] in H.
  destruct (assert (tot <? 2 ^ 28)); [|discriminate H]. cbn [option_bind] in H.
  assert (Hlead : forall c, c <= 3 -> is_byte (N.lor (N.shiftl c 6) (cast U8 (N.land tot 15))) = true).
  { intros c Hc. apply lor_byte; [|apply cast_u8_lt]. apply shiftl_lt. change (2 ^ 6) with 64. lia. }
  unfold pkg_ll in H.
  destruct (len <? 2 ^ 6 - 1); [|destruct (len <? 2 ^ 12 - 2); [|destruct (len <? 2 ^ 20 - 3)]];
    inversion H; subst e; clear H; bok_split; apply Hlead; lia.
Qed.

Lemma framed_bytes_ok md op body e :
  bytes_ok op = true -> bytes_ok body = true -> framed md op body = Some e -> bytes_ok e = true.
Proof.
  intros Hop Hbody H. unfold framed in H.
  destruct (pkg_len md _ true) as [pl|] eqn:Epl; [|discriminate H]. cbn [option_bind] in H. inversion H; subst e.
  rewrite !bok_app, Hop, Hbody, (pkg_len_bytes_ok _ _ _ _ Epl). reflexivity.
Qed.

(* integers: u8 is the one carrier whose value is written as it stands *)
Lemma enc_u8_bytes_ok n : n < 256 -> bytes_ok (enc_u8 n) = true.
Proof.
  intros H. unfold enc_u8. destruct n as [|[p|p|]]; try reflexivity; rewrite !bok_cons, (is_byte_lt _ H); reflexivity.
Qed.

Lemma enc_u16_bytes_ok n : bytes_ok (enc_u16 n) = true.
Proof.
  unfold enc_u16. destruct (n <=? 255); [apply enc_u8_bytes_ok, cast_u8_lt|]. rewrite bok_cons, le_bytes_ok. reflexivity.
Qed.

Lemma enc_u32_bytes_ok n : bytes_ok (enc_u32 n) = true.
Proof.
  unfold enc_u32. destruct (n <=? 65535); [apply enc_u16_bytes_ok|]. rewrite bok_cons, le_bytes_ok. reflexivity.
Qed.

Lemma enc_u64_bytes_ok n : bytes_ok (enc_u64 n) = true.
Proof.
  unfold enc_u64. destruct (n <=? 4294967295); [apply enc_u32_bytes_ok|]. rewrite bok_cons, le_bytes_ok. reflexivity.
Qed.

Lemma enc_usize_bytes_ok n : bytes_ok (enc_usize n) = true.
Proof. apply enc_u64_bytes_ok. Qed.

Lemma enc_int_bytes_ok ty n e : (ty = 8 -> n < 256) -> enc_int ty n = Some e -> bytes_ok e = true.
Proof.
  intros Hn H. unfold enc_int in H.
  repeat match type of H with context [match ?x with _ => _ end] => destruct x end;
    try discriminate H; inversion H; subst e;
    first [ apply enc_u8_bytes_ok, Hn; reflexivity | apply enc_u16_bytes_ok | apply enc_u32_bytes_ok
          | apply enc_u64_bytes_ok | apply enc_usize_bytes_ok ].
Qed.

(* Path::new(text).to_aml_bytes: the prefix bytes are constants or a cast; the name segments are pieces of the text *)
Lemma split_dot_bytes_ok s : forall cur, bytes_ok cur = true -> bytes_ok s = true ->
  bytes_ok (concat (split_dot cur s)) = true.
Proof.
  induction s as [|c r IH]; intros cur Hcur Hs.
  - cbn [split_dot concat]. rewrite app_nil_r. now apply bok_rev.
  - rewrite bok_cons, andb_true_iff in Hs. destruct Hs as [Hc Hr]. cbn [split_dot].
    destruct (c =? 0x2E).
    + cbn [concat]. rewrite bok_app, (bok_rev _ Hcur). now apply IH.
    + apply IH; [|exact Hr]. rewrite bok_cons, Hc, Hcur. reflexivity.
Qed.

Lemma path_new_bytes_ok s p : bytes_ok s = true -> path_new s = Some p -> bytes_ok (concat (p_parts p)) = true.
Proof.
  intros Hs H. unfold path_new in H.
  destruct (forallb _ _); [|discriminate H]. inversion H; subst p. cbn [p_parts].
  apply split_dot_bytes_ok; [reflexivity|]. destruct (match s with [] => false | c :: _ => c =? 0x5C end); [now apply bok_tl|exact Hs].
Qed.

Lemma path_enc_bytes_ok p e : bytes_ok (concat (p_parts p)) = true -> path_enc p = Some e -> bytes_ok e = true.
Proof.
  intros Hp H. unfold path_enc in H.
  destruct (match length (p_parts p) with O => None | _ => _ end) as [pre|] eqn:Epre; [|discriminate H].
  cbn [option_bind] in H. inversion H; subst e.
  assert (Hpre : bytes_ok pre = true).
  { destruct (length (p_parts p)) as [|[|[|n]]]; try discriminate Epre; try (inversion Epre; subst pre; reflexivity).
    destruct (assert _); [|discriminate Epre]. cbn [option_bind] in Epre. inversion Epre; subst pre.
    rewrite !bok_cons, is_byte_cast. reflexivity. }
  rewrite !bok_app, Hpre, Hp. destruct (p_root p); reflexivity.
Qed.

Lemma enc_path_text_bytes_ok s e : bytes_ok s = true -> enc_path_text s = Some e -> bytes_ok e = true.
Proof.
  intros Hs H. unfold enc_path_text in H. destruct (path_new s) as [p|] eqn:Ep; [|discriminate H].
  cbn [option_bind] in H. exact (path_enc_bytes_ok p e (path_new_bytes_ok s p Hs Ep) H).
Qed.

(* EISAName::new: whatever characters come in, the result is an integer encoding (or a refusal) *)
Lemma eisa_enc_bytes_ok s e : eisa_enc s = Some e -> bytes_ok e = true.
Proof.
  unfold eisa_enc. destruct (eisa_value s) as [v|]; [|discriminate]. cbn [option_map]. intros H; inversion H; subst e.
  apply enc_u32_bytes_ok.
Qed.

(* Uuid::new: each of the 16 bytes is (hi << 4) as u8 | lo with two hex digits *)
Lemma hex_digit_lt c d : hex_digit c = Some d -> d < 16.
Proof.
  unfold hex_digit. intros H.
  destruct ((48 <=? c) && (c <=? 57)) eqn:E1.
  { inversion H; subst d. apply andb_true_iff in E1. destruct E1 as [Ea Eb]. apply N.leb_le in Ea, Eb. lia. }
  destruct ((97 <=? c) && (c <=? 102)) eqn:E2.
  { inversion H; subst d. apply andb_true_iff in E2. destruct E2 as [Ea Eb]. apply N.leb_le in Ea, Eb. lia. }
  destruct ((65 <=? c) && (c <=? 70)) eqn:E3; [|discriminate H].
  inversion H; subst d. apply andb_true_iff in E3. destruct E3 as [Ea Eb]. apply N.leb_le in Ea, Eb. lia.
Qed.

Lemma hex2byte_lt v1 v2 x : hex2byte v1 v2 = Some x -> x < 256.
Proof.
  unfold hex2byte. destruct (hex_digit v1) as [hi|]; [|discriminate]. cbn [option_bind].
  destruct (hex_digit v2) as [lo|] eqn:Elo; [|discriminate]. cbn [option_bind]. intros H; inversion H; subst x.
  apply hex_digit_lt in Elo. change 256 with (2 ^ 8). apply lor_lt; [apply cast_u8_lt|]. change (2 ^ 8) with 256. lia.
Qed.

Lemma opt_all_bytes_ok (l : list (option N)) r :
  (forall x, In (Some x) l -> x < 256) -> opt_all l = Some r -> bytes_ok r = true.
Proof.
  revert r. induction l as [|o l IH]; intros r Hl H.
  - inversion H; subst r. reflexivity.
  - cbn [opt_all] in H. destruct o as [x|]; [|discriminate H].
    destruct (opt_all l) as [r'|]; [|discriminate H]. cbn [option_map] in H. inversion H; subst r.
    rewrite bok_cons, (is_byte_lt x), (IH r'); [reflexivity| |reflexivity|].
    + intros y Hy. apply Hl. now right.
    + apply Hl. now left.
Qed.

Lemma uuid_bytes_bytes_ok s b : uuid_bytes s = Some b -> bytes_ok b = true.
Proof.
  unfold uuid_bytes. destruct (assert (Nat.eqb _ _)); [|discriminate]. cbn [option_bind].
  destruct (assert _); [|discriminate]. cbn [option_bind]. apply opt_all_bytes_ok.
  intros x Hx. apply in_map_iff in Hx. destruct Hx as ([i j] & Hx & _). exact (hex2byte_lt _ _ _ Hx).
Qed.

(* BufferData::new(Vec<u8>): the data is copied *)
Lemma buffer_data_bytes_ok md data e : bytes_ok data = true -> buffer_data md data = Some e -> bytes_ok e = true.
Proof.
  intros Hd. unfold buffer_data. apply framed_bytes_ok; [reflexivity|]. rewrite bok_app, enc_usize_bytes_ok, Hd. reflexivity.
Qed.

Lemma uuid_enc_bytes_ok md s e : uuid_enc md s = Some e -> bytes_ok e = true.
Proof.
  unfold uuid_enc. destruct (uuid_bytes s) as [b|] eqn:Eb; [|discriminate]. cbn [option_bind].
  apply buffer_data_bytes_ok. exact (uuid_bytes_bytes_ok s b Eb).
Qed.

(* ---------------------------------------------------------------- descriptors and field entries *)

Lemma shiftl_bool_lt x k : x <= 1 -> k < 8 -> N.shiftl x k < 256.
Proof.
  intros Hx Hk. assert (Hc : x = 0 \/ x = 1) by lia. destruct Hc as [->| ->].
  - rewrite N.shiftl_0_l. lia.
  - rewrite N.shiftl_1_l. change 256 with (2 ^ 8). apply N.pow_lt_mono_r; lia.
Qed.

Ltac tsplit T :=
  repeat (let T' := fresh T in apply andb_true_iff in T; destruct T as [T T']).

Ltac tnum :=
  repeat match goal with
         | H : (_ <=? _) = true |- _ => apply N.leb_le in H
         | H : (_ <? _) = true |- _ => apply N.ltb_lt in H
         end.

Theorem enc_desc_bytes_ok : forall d b, typed_desc d -> enc_desc d = Some b -> bytes_ok b = true.
Proof.
  intros d b T E. unfold typed_desc in T. destruct d as [rw base len|width ty cacheable rw min max trans0|min max align len
                                                       |consumer edge active_low shared number|space width offset access addr];
    cbn [typed_descb] in T; cbn [enc_desc] in E.
  - inv_some E b. tnum. unfold w2, d4. bok_split. apply is_byte_lt. lia.
  - tsplit T. tnum.
    assert (Htf : is_byte (match ty with 0 => N.lor (cast U8 (N.shiftl cacheable 1)) rw | 1 => 3 | _ => 0 end) = true).
    { assert (Hc : ty = 0 \/ ty = 1 \/ ty = 2) by lia. destruct Hc as [->|[->| ->]]; try reflexivity.
      cbn [negb orb N.eqb] in T0. change (0 =? 0) with true in T0. cbn [negb orb] in T0. tnum.
      apply lor_byte; [apply cast_u8_lt|lia]. }
    assert (Hty : is_byte ty = true) by (apply is_byte_lt; lia).
    destruct (if width =? 16 then _ else _) as [[[dcode w] m]|] eqn:Ew; [|discriminate E]. cbn [option_bind] in E.
    assert (Hd : is_byte dcode = true).
    { destruct (width =? 16); [inversion Ew; reflexivity|]. destruct (width =? 32); [inversion Ew; reflexivity|].
      destruct (width =? 64); [inversion Ew; reflexivity|discriminate Ew]. }
    destruct (sub_c max min) as [diff|]; [|discriminate E]. cbn [option_bind] in E.
    destruct (add_c m diff 1) as [ln|]; [|discriminate E]. cbn [option_bind] in E. inv_some E b.
    unfold w2. bok_split; assumption.
  - inv_some E b. tsplit T. tnum. unfold w2. bok_split; apply is_byte_lt; assumption.
  - inv_some E b. tsplit T. tnum. unfold w2, d4. bok_split.
    apply is_byte_lt. change 256 with (2 ^ 8). repeat apply lor_lt; change (2 ^ 8) with 256;
      try (apply shiftl_bool_lt; lia); lia.
  - inv_some E b. tsplit T. tnum. unfold w2, q8. bok_split; apply is_byte_lt; assumption.
Qed.

Theorem enc_fentry_bytes_ok : forall md e b, typed_fentry e -> enc_fentry md e = Some b -> bytes_ok b = true.
Proof.
  intros md e b T E. unfold typed_fentry in T. destruct e as [name len|len]; cbn [typed_fentryb] in T; cbn [enc_fentry] in E;
    (destruct (pkg_len md len false) as [p|] eqn:Ep; [|discriminate E]); cbn [option_bind] in E; inv_some E b.
  - rewrite bok_app, T, (pkg_len_bytes_ok _ _ _ _ Ep). reflexivity.
  - rewrite bok_cons, (pkg_len_bytes_ok _ _ _ _ Ep). reflexivity.
Qed.

Lemma opt_concat_map_bytes_ok {A} (f : A -> option (list N)) (ok : A -> bool) l :
  (forall x b, ok x = true -> f x = Some b -> bytes_ok b = true) ->
  forall e, forallb ok l = true -> opt_concat_map f l = Some e -> bytes_ok e = true.
Proof.
  intros Hf. induction l as [|x l IH]; intros e T E.
  - inversion E; subst e. reflexivity.
  - cbn [forallb] in T. apply andb_true_iff in T. destruct T as [Tx Tl]. cbn [opt_concat_map] in E.
    destruct (f x) as [a|] eqn:Ea; [|discriminate E]. cbn [option_bind] in E.
    destruct (opt_concat_map f l) as [r|]; [|discriminate E]. cbn [option_bind] in E. inversion E; subst e.
    rewrite bok_app, (Hf x a Tx Ea), (IH r Tl eq_refl). reflexivity.
Qed.

Lemma fentries_bytes_ok md es e :
  forallb typed_fentryb es = true -> opt_concat_map (enc_fentry md) es = Some e -> bytes_ok e = true.
Proof. apply opt_concat_map_bytes_ok. intros x b. apply enc_fentry_bytes_ok. Qed.

(* ---------------------------------------------------------------- opcodes *)

Ltac case_all H := repeat match type of H with context [match ?x with _ => _ end] => destruct x end.

Lemma op1_code_bytes_ok k op : op1_code k = Some op -> bytes_ok op = true.
Proof. intros H. unfold op1_code in H. case_all H; try discriminate H; inversion H; reflexivity. Qed.

Lemma cmp_code_bytes_ok k op : cmp_code k = Some op -> bytes_ok op = true.
Proof. intros H. unfold cmp_code in H. case_all H; try discriminate H; inversion H; reflexivity. Qed.

Lemma op3_code_byte k op : op3_code k = Some op -> is_byte op = true.
Proof.
  intros H. unfold op3_code in H. apply nth_error_In in H. cbn [In] in H.
  repeat (destruct H as [<-|H]; [reflexivity|]). destruct H.
Qed.

Lemma land7_lt x : N.land x 7 < 256.
Proof.
  change 7 with (N.ones 3). rewrite land_ones_k. change (2 ^ 3) with 8. assert (x mod 8 < 8) by (apply N.mod_lt; lia). lia.
Qed.

Lemma assert_true c u : assert c = Some u -> c = true.
Proof. destruct c; [reflexivity|discriminate]. Qed.

(* ---------------------------------------------------------------- the term encoder *)

(* the statement proved for every sub-term *)
Definition EB (t : term) : Prop := forall md b, typedb t = true -> enc md t = Some b -> bytes_ok b = true.

Lemma kids_eb md ks : Forall EB ks -> forall e, forallb typedb ks = true -> encs md ks = Some e -> bytes_ok e = true.
Proof.
  induction ks as [|x ks IH]; intros HF e T E.
  - inversion E; subst e. reflexivity.
  - inversion HF as [|? ? Hx Hks]; subst. cbn [forallb] in T. apply andb_true_iff in T. destruct T as [Tx Tks].
    rewrite encs_cons in E. destruct (enc md x) as [ex|] eqn:Ex; [|discriminate E]. cbn [option_bind] in E.
    destruct (encs md ks) as [er|] eqn:Er; [|discriminate E]. cbn [option_bind] in E. inversion E; subst e.
    rewrite bok_app, (Hx md ex Tx Ex), (IH Hks er Tks eq_refl). reflexivity.
Qed.

(* peel the option binds of the encoder off a hypothesis  enc .. = Some b *)
Ltac ob H :=
  repeat match type of H with
         | option_bind ?o _ = Some _ =>
             let e := fresh "e" in let Eo := fresh "Eo" in
             destruct o as [e|] eqn:Eo; [cbn [option_bind] in H|discriminate H]
         end.

Ltac prep T E :=
  cbn [typedb] in T; rewrite ?typedb_all_fix in T; tsplit T;
  rewrite ?scope_raw_eq, ?pkg_builder_eq in E; cbn [enc] in E; cbv zeta in E; rewrite ?encs_fix in E.

(* one piece of the output: produced by a sub-term, a child list, a path, a PkgLength, a field list, an opcode table *)
Ltac piece :=
  idtac; match goal with
  | |- bytes_ok (le _ _) = true => apply le_bytes_ok
  | |- bytes_ok (w2 _) = true => apply le_bytes_ok
  | |- bytes_ok (enc_usize _) = true => apply enc_usize_bytes_ok
  | |- is_byte (cast U8 _) = true => apply is_byte_cast
  | H : bytes_ok ?e = true |- bytes_ok ?e = true => exact H
  | H : enc_path_text ?s = Some ?e |- bytes_ok ?e = true => apply (enc_path_text_bytes_ok s e); [assumption|exact H]
  | IH : EB ?a, H : enc ?md ?a = Some ?e |- bytes_ok ?e = true => apply (IH md e); [assumption|exact H]
  | HF : Forall _ ?ks, H : encs ?md ?ks = Some ?e |- bytes_ok ?e = true => apply (kids_eb md ks HF e); [assumption|exact H]
  | H : pkg_len _ _ _ = Some ?e |- bytes_ok ?e = true => exact (pkg_len_bytes_ok _ _ _ _ H)
  | H : opt_concat_map (enc_fentry ?md) ?es = Some ?e |- bytes_ok ?e = true => apply (fentries_bytes_ok md es e); [assumption|exact H]
  | H : op1_code _ = Some ?e |- bytes_ok ?e = true => exact (op1_code_bytes_ok _ _ H)
  | H : cmp_code _ = Some ?e |- bytes_ok ?e = true => exact (cmp_code_bytes_ok _ _ H)
  | H : op3_code _ = Some ?e |- is_byte ?e = true => exact (op3_code_byte _ _ H)
  | H : ?x < 256 |- is_byte ?x = true => exact (is_byte_lt x H)
  end.

Ltac pieces := bok_with piece.

(* E is either  framed md op body = Some b  or  Some (...) = Some b *)
Ltac finish E :=
  lazymatch type of E with
  | framed ?md ?op ?body = Some ?b => apply (framed_bytes_ok md op body b); [reflexivity| |exact E]; pieces
  | Some _ = Some ?b => inv_some E b; pieces
  | None = Some _ => discriminate E
  end.

Theorem enc_bytes_ok_all : forall t, EB t.
Proof.
  induction t using term_ind'; intros md b0 T E; prep T E; tnum.
  - (* Zero *) finish E.
  - finish E.
  - finish E.
  - (* integers *) apply (enc_int_bytes_ok ty n b0); [|exact E]. intros ->. change (8 =? 8) with true in T. cbn [negb orb] in T. tnum. exact T.
  - (* string *) inv_some E b0. unfold enc_string. pieces.
  - (* path *) exact (enc_path_text_bytes_ok s b0 T E).
  - (* field name *) inv_some E b0. exact T.
  - exact (eisa_enc_bytes_ok s b0 E).
  - exact (uuid_enc_bytes_ok md s b0 E).
  - exact (buffer_data_bytes_ok md b b0 T E).
  - (* Arg *) ob E. apply assert_true in Eo. tnum. finish E. apply is_byte_lt. lia.
  - (* Local *) ob E. apply assert_true in Eo. tnum. finish E. apply is_byte_lt. lia.
  - (* bare descriptor *) exact (enc_desc_bytes_ok d b0 T E).
  - (* Op1 *) ob E. case_all E; try finish E; ob E; finish E.
  - (* Op2 *) ob E. case_all E; try finish E; ob E; finish E.
  - (* Op3 *) ob E. finish E.
  - (* Op4 *) ob E. case_all E; finish E.
  - (* Name *) ob E. finish E.
  - (* Device *) ob E. finish E.
  - (* Scope *) ob E. finish E.
  - (* Scope::raw *) ob E. finish E.
  - (* Method *) ob E. finish E. apply lor_byte; [|apply shiftl_bool_lt; lia].
    apply land7_lt.
  - (* PowerResource *) ob E. finish E.
  - (* OpRegion *) ob E. finish E.
  - (* Mutex *) ob E. finish E.
  - (* Acquire *) ob E. finish E.
  - (* Release *) ob E. finish E.
  - (* MethodCall *) ob E. finish E.
  - (* Field *) ob E. finish E. apply is_byte_lt. change 256 with (2 ^ 8). repeat apply lor_lt; change (2 ^ 8) with 256.
    + lia.
    + apply shiftl_bool_lt; lia.
    + apply shiftl_lt. change (2 ^ 5) with 32. lia.
  - (* Package *) ob E. finish E.
  - (* PackageBuilder *) ob E. finish E.
  - (* ResourceTemplate *) ob E. finish E.
  - (* If *) ob E. finish E.
  - (* Else *) ob E. finish E.
  - (* While *) ob E. finish E.
Qed.

(* ---------------------------------------------------------------- the statements *)

(* every list the encoder returns for a typed term is a list of bytes *)
Theorem enc_bytes_ok : forall md t b, typed t -> enc md t = Some b -> bytes_ok b = true.
Proof. intros md t b T E. exact (enc_bytes_ok_all t md b T E). Qed.

(* ... and so is the concatenation it returns for a list of typed terms *)
Theorem encs_bytes_ok : forall md ks b, Forall typed ks -> encs md ks = Some b -> bytes_ok b = true.
Proof.
  intros md ks b T E. apply (kids_eb md ks); [|apply typed_all; exact T|exact E].
  apply Forall_forall. intros x _. apply enc_bytes_ok_all.
Qed.

(* ---------------------------------------------------------------- the hypothesis is needed *)

(* A string whose one character is 300: well-formed in the sense of the round-trip theorem (no NUL), not typed, and the
   encoder copies the 300 into its output.  So [wf] alone cannot replace [bytes_ok b] in the DSDT theorems. *)
Example typed_needed :
  let t := TStr [300] in
  wf (fun _ => O) false t /\ typedb t = false /\ enc Checked t = Some [0x0D; 300; 0] /\ bytes_ok [0x0D; 300; 0] = false.
Proof. split; [repeat constructor; discriminate|]. vm_compute. repeat split. Qed.

(* One witness per argument [typed] speaks about: the term is not typed, is encoded in both profiles, and the encoding
   contains a non-byte.  (For the bool / bit-field arguments the witness shows that SOME bound is needed; the bound
   [typed] asks for is the range of the Rust type, which is tighter than the largest value that would still fit.) *)
Definition untyped_witnesses : list term :=
  let nm := [65; 66; 67; 68] in let bad := [65; 66; 67; 256] in
  [ TInt 8 256; TStr [256]; TPath bad; TFieldName [256; 66; 67; 68]; TBufData [256];
    TDesc (DMem32 256 0 0);
    TDesc (DAddr 16 256 0 0 0 0 None); TDesc (DAddr 32 0 0 256 0 0 None);
    TDesc (DIO 0 0 256 0); TDesc (DIO 0 0 0 256);
    TDesc (DIrq 256 0 0 0 0); TDesc (DIrq 0 128 0 0 0); TDesc (DIrq 0 0 64 0 0); TDesc (DIrq 0 0 0 32 0);
    TDesc (DReg 256 0 0 0 0); TDesc (DReg 0 256 0 0 0); TDesc (DReg 0 0 256 0 0); TDesc (DReg 0 0 0 256 0);
    TName bad TZero; TDevice bad []; TScope bad []; TScopeRaw bad []; TCall bad [];
    TMethod bad 0 0 []; TMethod nm 0 32 [];
    TPowerRes bad 0 0 []; TPowerRes nm 256 0 [];
    TOpRegion bad 0 TZero TZero; TOpRegion nm 256 TZero TZero;
    TMutex bad 0; TMutex nm 256; TAcquire bad 0; TRelease bad;
    TField bad 0 0 0 []; TField nm 256 0 0 []; TField nm 0 16 0 []; TField nm 0 0 8 []; TField nm 0 0 0 [FNamed bad 8];
    (* and through a parent: the violation may sit at any depth *)
    TIf TOne [TPackage [TOp1 2 (TStr [256])]]; TResTemplate [TDesc (DIO 0 0 256 0)] ].

Example every_conjunct_needed :
  forallb (fun t => negb (typedb t) &&
                    match enc Checked t, enc Wrapping t with
                    | Some b, Some b' => negb (bytes_ok b) && negb (bytes_ok b')
                    | _, _ => false
                    end) untyped_witnesses = true.
Proof. vm_compute. reflexivity. Qed.

(* ---------------------------------------------------------------- the DSDT composition without the byte hypothesis *)

(* Proofs/DsdtP.v [dsdt_composition] with [bytes_ok b = true] replaced by [typed t] *)
Theorem dsdt_composition_typed : forall env t md b v0,
  wf env false t -> typed t -> enc md t = Some b ->
  (36 <= length v0)%nat -> N.of_nat (length v0 + length b) < 2 ^ 32 ->
  exists img g,
    sdt_sink_vec md v0 b = Some img /\ sdt_append_slice md v0 b = Some img /\
    (forall tr, flatten tr = b -> run_sdt md v0 tr = Some img) /\
    payload_image v0 b img /\
    norm false t = Some g /\
    forall f, (depth t < f)%nat -> parse env f false (skipn (length v0) img) = Some (g, []).
Proof.
  intros env t md b v0 Hwf Ht Henc H36 Hsz.
  exact (dsdt_composition env t md b v0 Hwf Henc (enc_bytes_ok md t b Ht Henc) H36 Hsz).
Qed.

(* Proofs/DsdtP.v [dsdt_body_composition] with [bytes_ok b = true] replaced by [Forall typed ks] *)
Theorem dsdt_body_composition_typed : forall env ks md b v0,
  Forall (wf env false) ks -> Forall typed ks -> encs md ks = Some b -> b <> [] ->
  (36 <= length v0)%nat -> N.of_nat (length v0 + length b) < 2 ^ 32 ->
  exists img gs,
    sdt_sink_vec md v0 b = Some img /\ sdt_append_slice md v0 b = Some img /\
    (forall tr, flatten tr = b -> run_sdt md v0 tr = Some img) /\
    payload_image v0 b img /\
    norms false ks = Some gs /\
    forall f, (depths ks < f)%nat ->
      parse_all (parse env f) (length img - length v0) false (skipn (length v0) img) = Some gs.
Proof.
  intros env ks md b v0 Hwf Ht Henc Hne H36 Hsz.
  exact (dsdt_body_composition env ks md b v0 Hwf Henc (encs_bytes_ok md ks b Ht Henc) Hne H36 Hsz).
Qed.

(* Proofs/DsdtP.v [dsdt_from_new], likewise *)
Corollary dsdt_from_new_typed : forall env t md b c v0,
  sdt_new c = Some v0 -> wf env false t -> typed t -> enc md t = Some b ->
  N.of_nat (length v0 + length b) < 2 ^ 32 ->
  exists img g,
    sdt_sink_vec md v0 b = Some img /\ sdt_append_slice md v0 b = Some img /\
    payload_image v0 b img /\ norm false t = Some g /\
    forall f, (depth t < f)%nat -> parse env f false (skipn (length v0) img) = Some (g, []).
Proof.
  intros env t md b c v0 Hnew Hwf Ht Henc Hsz.
  exact (dsdt_from_new env t md b c v0 Hnew Hwf Henc (enc_bytes_ok md t b Ht Henc) Hsz).
Qed.

(* ---------------------------------------------------------------- what [wf] already gives *)

(* Under the well-formedness hypothesis of the round-trip theorem most of [typed] is redundant: wf bounds every flag /
   level / space argument, and makes every name text a rendering of NameSegs (upper-case letters, digits, '_', and the
   separators '\' '.').  What wf leaves open is [rawb]: the characters of strings and of BufferData, and the arguments of
   the descriptors inside a ResourceTemplate. *)
Fixpoint rawb (t : term) {struct t} : bool :=
  let all := fix all (l : list term) : bool := match l with [] => true | x :: r => rawb x && all r end in
  match t with
  | TStr s | TBufData s => bytes_ok s
  | TDesc d => typed_descb d
  | TOp1 _ a | TName _ a => rawb a
  | TOp2 _ a b | TOpRegion _ _ a b => rawb a && rawb b
  | TOp3 _ x a b => rawb x && rawb a && rawb b
  | TOp4 _ a b c d => rawb a && rawb b && rawb c && rawb d
  | TDevice _ ks | TScope _ ks | TScopeRaw _ ks | TCall _ ks | TMethod _ _ _ ks | TPowerRes _ _ _ ks
  | TPackage ks | TPkgBuilder ks | TResTemplate ks | TElse ks => all ks
  | TIf pr ks | TWhile pr ks => rawb pr && all ks
  | _ => true
  end.

Lemma rawb_all_fix l :
  (fix all (l : list term) : bool := match l with [] => true | x :: r => rawb x && all r end) l = forallb rawb l.
Proof. induction l as [|x l IH]; [reflexivity|]. cbn [forallb]. now rewrite IH. Qed.

Lemma name_char_lt c : is_name_char c = true -> c < 256.
Proof.
  unfold is_name_char, is_lead_name_char. intros H.
  repeat match type of H with
         | (_ || _) = true => apply orb_true_iff in H; destruct H as [H|H]
         | (_ && _) = true => apply andb_true_iff in H; destruct H as [_ H]
         end; first [apply N.leb_le in H | apply N.eqb_eq in H]; lia.
Qed.

Lemma nameseg_bytes_ok s : is_nameseg s = true -> bytes_ok s = true.
Proof.
  intros H. destruct (nameseg_shape s H) as (a & b & c & d & -> & Ha & Hb & Hc & Hd).
  assert (Ha' : is_name_char a = true) by (unfold is_name_char; now rewrite Ha).
  rewrite !bok_cons, !is_byte_lt by now apply name_char_lt. reflexivity.
Qed.

Lemma join_dot_bytes_ok parts : Forall (fun s => bytes_ok s = true) parts -> bytes_ok (join_dot parts) = true.
Proof.
  induction parts as [|x r IH]; intros HF; [reflexivity|]. inversion HF as [|? ? Hx Hr]; subst.
  destruct r as [|y r]; [exact Hx|].
  change (join_dot (x :: y :: r)) with (x ++ 0x2E :: join_dot (y :: r)). rewrite bok_app, bok_cons, Hx, (IH Hr). reflexivity.
Qed.

Lemma path_text_bytes_ok s : (exists q, path_new s = Some q /\ wf_parts (p_parts q)) -> bytes_ok s = true.
Proof.
  intros (q & Hq & Hwf). destruct (path_new_sound s q Hq) as [<- _]. unfold render. rewrite bok_app.
  rewrite join_dot_bytes_ok; [destruct (p_root q); reflexivity|].
  unfold wf_parts in Hwf. eapply Forall_impl; [|exact Hwf]. intros part. apply nameseg_bytes_ok.
Qed.

Lemma wf_fentries_typed es : Forall wf_fentry es -> forallb typed_fentryb es = true.
Proof.
  induction es as [|e es IH]; intros HF; [reflexivity|]. inversion HF as [|? ? He Hes]; subst. cbn [forallb].
  rewrite (IH Hes), andb_true_r. destruct e as [name len|len]; [|reflexivity]. destruct He as [Hn _]. now apply nameseg_bytes_ok.
Qed.

Section WfTyped.
  Variable env : arity_env.

  Definition WT (t : term) : Prop := forall el, wf env el t -> rawb t = true -> typedb t = true.

  Lemma kids_wt ks : Forall WT ks -> forall el, wfs env el ks -> forallb rawb ks = true -> forallb typedb ks = true.
  Proof.
    induction ks as [|x ks IH]; intros HF el W R; [reflexivity|].
    inversion HF as [|? ? Hx Hks]; subst. inversion W as [|? ? Wx Wks]; subst.
    cbn [forallb] in R |- *. apply andb_true_iff in R. destruct R as [Rx Rks].
    rewrite (Hx el Wx Rx), (IH Hks el Wks Rks). reflexivity.
  Qed.

  Ltac wprep W R :=
    cbn [wf] in W; rewrite ?wfs_fix in W; cbn [rawb] in R; rewrite ?rawb_all_fix in R; tsplit R;
    cbn [typedb]; rewrite ?typedb_all_fix.

  Ltac wpiece :=
    idtac; match goal with
    | H : ?x = true |- ?x = true => exact H
    | H : wf_name ?p |- bytes_ok ?p = true => exact (path_text_bytes_ok p H)
    | IH : WT ?a, W : wf env ?el ?a |- typedb ?a = true => apply (IH el W); assumption
    | HF : Forall _ ?ks, W : wfs env ?el ?ks |- forallb typedb ?ks = true => apply (kids_wt ks HF el W); assumption
    | H : ?a < ?b |- (?a <? ?b) = true => now apply N.ltb_lt
    | H : ?a <= ?b |- (?a <=? ?b) = true => now apply N.leb_le
    end.

  Ltac wsplit := repeat (apply andb_true_iff; split); try wpiece.

  Theorem wf_raw_typed_all : forall t, WT t.
  Proof.
    induction t using term_ind'; intros el W R; wprep W R; try reflexivity; try exact R.
    - (* integers *) destruct W as [[-> Hn]|[[-> _]|[[-> _]|[[-> _]|[-> _]]]]]; try reflexivity.
      change (8 =? 8) with true. cbn [negb orb]. apply N.ltb_lt. exact Hn.
    - (* path *) destruct W as (q & Hq & Hwf & _). apply path_text_bytes_ok. now exists q.
    - (* field name *) apply nameseg_bytes_ok. exact (proj1 W).
    - destruct W as [_ W]. wsplit.
    - destruct W as (_ & Wa & Wb). wsplit.
    - destruct W as (_ & Wt & Wa & Wb). wsplit.
    - destruct W as (_ & Wa & Wb & Wc & Wd). wsplit.
    - destruct W as [Wp Wi]. wsplit.
    - destruct W as [Wp Wk]. wsplit.
    - destruct W as [Wp Wk]. wsplit.
    - destruct W as [Wp Wk]. wsplit.
    - destruct W as (Wp & Ws & Wk). wsplit.
    - destruct W as (Wp & Wl & Wo & Wk). wsplit.
    - destruct W as (Wp & Ws & Wo & Wl). wsplit.
    - destruct W as [Wp Ws]. wsplit.
    - destruct W as [Wp _]. wsplit.
    - exact (path_text_bytes_ok p W).
    - destruct W as ((q & Hq & Hwf & _) & Wk). wsplit. apply path_text_bytes_ok. now exists q.
    - destruct W as (Wp & Wa & Wl & Wu & We). wsplit. now apply wf_fentries_typed.
    - wsplit.
    - wsplit.
    - (* ResourceTemplate: the children are bare descriptors, for which typed and rawb coincide *)
      revert W R. clear. induction ks as [|k ks IH]; intros W R; [reflexivity|].
      inversion W as [|? ? [d ->] Wk]; subst. cbn [forallb rawb typedb] in R |- *.
      apply andb_true_iff in R. destruct R as [Rd Rk]. rewrite Rd, (IH Wk Rk). reflexivity.
    - destruct W as [Wp Wk]. wsplit.
    - wsplit.
    - destruct W as [Wp Wk]. wsplit.
  Qed.
End WfTyped.

(* a well-formed term is typed as soon as its strings, buffers and descriptors are *)
Theorem wf_raw_typed : forall env el t, wf env el t -> rawb t = true -> typed t.
Proof. intros env el t W R. exact (wf_raw_typed_all env t el W R). Qed.

(* ... so for a well-formed term the encoder's output is bytes as soon as those are *)
Corollary enc_bytes_ok_wf : forall env el md t b, wf env el t -> rawb t = true -> enc md t = Some b -> bytes_ok b = true.
Proof. intros env el md t b W R E. exact (enc_bytes_ok md t b (wf_raw_typed env el t W R) E). Qed.

Print Assumptions enc_bytes_ok.
Print Assumptions encs_bytes_ok.
Print Assumptions enc_desc_bytes_ok.
Print Assumptions enc_fentry_bytes_ok.
Print Assumptions pkg_len_bytes_ok.
Print Assumptions dsdt_composition_typed.
Print Assumptions dsdt_body_composition_typed.
Print Assumptions dsdt_from_new_typed.
Print Assumptions wf_raw_typed.
