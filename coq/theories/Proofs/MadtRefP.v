(* MADT: the Impl model refines the Spec (property C04 as a theorem).
   For every constructor argument and every finite history inside the specification's domain whose GICC / GIC MSI builder
   lists are well-formed builder calls, in both build modes, the model accepts the history and its image is byte for byte
   the reference image `ts_image madt_spec ctor ops`.
   The well-formedness hypothesis is necessary: see `madt_refines_refuted` (the Spec silently ignores an unknown builder
   call, the model -- like the harness -- refuses it). *)
From Coq Require Import NArith ZArith List Lia Bool Arith.
From ACPI Require Import Lib.Bytes Lib.Sx Lib.Machine Impl.Checksum Impl.Table Impl.Fields Impl.Run Impl.Madt
  Spec.Layout Spec.MadtS Proofs.ChecksumP Proofs.TableP Proofs.MadtP Proofs.Tables Proofs.RefCommonP.
Import ListNotations.
Open Scope N_scope.

Definition fl3 (acc : option (list N)) : N := match acc with Some _ => 1 | None => 0 end.

Lemma called_fl3 k st : (if called k st then 1 else 0) = fl3 (last_arg k st None).
Proof. unfold called, fl3. destruct (last_arg k st None); reflexivity. Qed.

(* ---------- GICC ---------- *)
(* a well-formed builder call of Gicc: (k v) for the twelve plain setters, (13|14 gsi trigger) for the two interrupts *)
Definition gicc_wf (o : sx) : bool :=
  match o with
  | SL [SA k; SA _] => (1 <=? k) && (k <=? 12)
  | SL [SA k; SA _; SA _] => (k =? 13) || (k =? 14)
  | _ => false
  end.

(* the Gicc struct with its settable fields as parameters (named after the setter that writes them) *)
Definition G (a1 a2 fl a3 a13 a4 a5 a6 a7 a14 a8 a9 a10 a11 a12 : N) : flds :=
  [F 1 0xB; F 1 82; F 2 0; F 4 a1; F 4 a2; F 4 fl; F 4 a3; F 4 a13; F 8 a4; F 8 a5; F 8 a6; F 8 a7;
   F 4 a14; F 8 a8; F 8 a9; F 1 a10; F 1 0; F 2 a11; F 2 a12].

Definition gicc_flags0 (status : N) : N := match status with 1 => 1 | 2 => 8 | _ => 0 end.

Lemma gicc_new_G status : gicc_new status = G 0 0 (gicc_flags0 status) 0 0 0 0 0 0 0 0 0 0 0 0.
Proof. reflexivity. Qed.

(* what the builder chain does to the flags word: edge-triggered interrupts OR in bit 1 / bit 2 *)
Fixpoint eacc (fl : N) (st : list sx) : N :=
  match st with
  | [] => fl
  | o :: r => eacc (match o with
                    | SL [SA 13; _; SA 1] => N.lor fl 2
                    | SL [SA 14; _; SA 1] => N.lor fl 4
                    | _ => fl
                    end) r
  end.

Lemma gicc_wf_cases o : gicc_wf o = true ->
  (exists k v, o = SL [SA k; SA v] /\
     (k = 1 \/ k = 2 \/ k = 3 \/ k = 4 \/ k = 5 \/ k = 6 \/ k = 7 \/ k = 8 \/ k = 9 \/ k = 10 \/ k = 11 \/ k = 12)) \/
  (exists k g e, o = SL [SA k; SA g; SA e] /\ (k = 13 \/ k = 14)).
Proof.
  unfold gicc_wf. intros H.
  destruct o as [n|[|[k|?] [|[v|?] [|[w|?] [|? ?]]]]]; try discriminate H.
  - left. exists k, v. split; [reflexivity|]. apply andb_true_iff in H. destruct H as [H1 H2].
    apply N.leb_le in H1. apply N.leb_le in H2. lia.
  - right. exists k, v, w. split; [reflexivity|]. apply orb_true_iff in H. destruct H as [H|H]; apply N.eqb_eq in H; auto.
Qed.

Lemma match_ne1 {A} (e : N) (x y : A) : e <> 1 -> match e with 1 => x | _ => y end = y.
Proof. intros H. destruct e as [|[p|p|]]; try reflexivity. congruence. Qed.

Lemma gicc_run st : forallb gicc_wf st = true ->
  forall fl c1 c2 c3 c4 c5 c6 c7 c8 c9 c10 c11 c12 c13 c14,
  apply_setters gicc_setter
    (G (val c1) (val c2) fl (val c3) (val c13) (val c4) (val c5) (val c6) (val c7) (val c14) (val c8) (val c9)
       (val c10) (val c11) (val c12)) st
  = Some (G (val (last_arg 1 st c1)) (val (last_arg 2 st c2)) (eacc fl st) (val (last_arg 3 st c3))
            (val (last_arg 13 st c13)) (val (last_arg 4 st c4)) (val (last_arg 5 st c5)) (val (last_arg 6 st c6))
            (val (last_arg 7 st c7)) (val (last_arg 14 st c14)) (val (last_arg 8 st c8)) (val (last_arg 9 st c9))
            (val (last_arg 10 st c10)) (val (last_arg 11 st c11)) (val (last_arg 12 st c12))).
Proof.
  induction st as [|o st IH]; intros Hwf fl c1 c2 c3 c4 c5 c6 c7 c8 c9 c10 c11 c12 c13 c14.
  - reflexivity.
  - cbn [forallb] in Hwf. apply andb_true_iff in Hwf. destruct Hwf as [Ho Hst]. specialize (IH Hst).
    destruct (gicc_wf_cases o Ho) as [(k & v & -> & Hk)|(k & g & e & -> & Hk)].
    + destruct Hk as [->|[->|[->|[->|[->|[->|[->|[->|[->|[->|[->| ->]]]]]]]]]]].
      * exact (IH fl (Some [v]) c2 c3 c4 c5 c6 c7 c8 c9 c10 c11 c12 c13 c14).
      * exact (IH fl c1 (Some [v]) c3 c4 c5 c6 c7 c8 c9 c10 c11 c12 c13 c14).
      * exact (IH fl c1 c2 (Some [v]) c4 c5 c6 c7 c8 c9 c10 c11 c12 c13 c14).
      * exact (IH fl c1 c2 c3 (Some [v]) c5 c6 c7 c8 c9 c10 c11 c12 c13 c14).
      * exact (IH fl c1 c2 c3 c4 (Some [v]) c6 c7 c8 c9 c10 c11 c12 c13 c14).
      * exact (IH fl c1 c2 c3 c4 c5 (Some [v]) c7 c8 c9 c10 c11 c12 c13 c14).
      * exact (IH fl c1 c2 c3 c4 c5 c6 (Some [v]) c8 c9 c10 c11 c12 c13 c14).
      * exact (IH fl c1 c2 c3 c4 c5 c6 c7 (Some [v]) c9 c10 c11 c12 c13 c14).
      * exact (IH fl c1 c2 c3 c4 c5 c6 c7 c8 (Some [v]) c10 c11 c12 c13 c14).
      * exact (IH fl c1 c2 c3 c4 c5 c6 c7 c8 c9 (Some [v]) c11 c12 c13 c14).
      * exact (IH fl c1 c2 c3 c4 c5 c6 c7 c8 c9 c10 (Some [v]) c12 c13 c14).
      * exact (IH fl c1 c2 c3 c4 c5 c6 c7 c8 c9 c10 c11 (Some [v]) c13 c14).
    + destruct Hk as [->| ->]; destruct (N.eqb_spec e 1) as [->|Hne].
      * exact (IH (N.lor fl 2) c1 c2 c3 c4 c5 c6 c7 c8 c9 c10 c11 c12 (Some [g; 1]) c14).
      * cbn [apply_setters gicc_setter eacc]. rewrite (proj2 (N.eqb_neq e 1) Hne), (match_ne1 e _ _ Hne).
        exact (IH fl c1 c2 c3 c4 c5 c6 c7 c8 c9 c10 c11 c12 (Some [g; e]) c14).
      * exact (IH (N.lor fl 4) c1 c2 c3 c4 c5 c6 c7 c8 c9 c10 c11 c12 c13 (Some [g; 1])).
      * cbn [apply_setters gicc_setter eacc]. rewrite (proj2 (N.eqb_neq e 1) Hne), (match_ne1 e _ _ Hne).
        exact (IH fl c1 c2 c3 c4 c5 c6 c7 c8 c9 c10 c11 c12 c13 (Some [g; e])).
Qed.

(* the Spec's flags word *)
Definition edge (k : N) (st : list sx) : bool :=
  ever (fun s => match s with SL [SA k'; _; SA 1] => k' =? k | _ => false end) st.

Definition gflags (s1 e13 e14 s2 : bool) : N :=
  (if s1 then 1 else 0) + (if e13 then 2 else 0) + (if e14 then 4 else 0) + (if s2 then 8 else 0).

Lemma gflags_lor2 s1 e13 e14 s2 : N.lor (gflags s1 e13 e14 s2) 2 = gflags s1 true e14 s2.
Proof. destruct s1, e13, e14, s2; reflexivity. Qed.
Lemma gflags_lor4 s1 e13 e14 s2 : N.lor (gflags s1 e13 e14 s2) 4 = gflags s1 e13 true s2.
Proof. destruct s1, e13, e14, s2; reflexivity. Qed.

Lemma eacc_gflags st : forallb gicc_wf st = true -> forall s1 e13 e14 s2,
  eacc (gflags s1 e13 e14 s2) st = gflags s1 (e13 || edge 13 st) (e14 || edge 14 st) s2.
Proof.
  induction st as [|o st IH]; intros Hwf s1 e13 e14 s2.
  - cbn [eacc edge ever existsb]. now rewrite !orb_false_r.
  - cbn [forallb] in Hwf. apply andb_true_iff in Hwf. destruct Hwf as [Ho Hst]. specialize (IH Hst).
    unfold edge, ever in *. cbn [existsb eacc].
    destruct (gicc_wf_cases o Ho) as [(k & v & -> & Hk)|(k & g & e & -> & Hk)].
    + cbn [orb].
      destruct Hk as [->|[->|[->|[->|[->|[->|[->|[->|[->|[->|[->| ->]]]]]]]]]]]; apply IH.
    + destruct Hk as [->| ->]; destruct (N.eqb_spec e 1) as [->|Hne].
      * rewrite gflags_lor2, IH. change (13 =? 13) with true. change (13 =? 14) with false.
        cbn [orb]. now rewrite orb_true_r.
      * rewrite !(match_ne1 e _ _ Hne). cbn [orb]. apply IH.
      * rewrite gflags_lor4, IH. change (14 =? 14) with true. change (14 =? 13) with false.
        cbn [orb]. now rewrite orb_true_r.
      * rewrite !(match_ne1 e _ _ Hne). cbn [orb]. apply IH.
Qed.

Lemma gicc_flags0_gflags status : gicc_flags0 status = gflags (status =? 1) false false (status =? 2).
Proof. destruct status as [|[[p|p|]|[p|p|]|]]; reflexivity. Qed.

(* GICC: for every status value and every well-formed builder chain the model's bytes are the reference layout *)
Lemma madt_gicc_is_reference status st : forallb gicc_wf st = true ->
  exists f, apply_setters gicc_setter (gicc_new status) st = Some f /\
            madt_entry_ref (SL [SA 3; SA status; SL st]) = Some (ser_flds f).
Proof.
  intros Hwf.
  pose proof (gicc_run st Hwf (gicc_flags0 status) None None None None None None None None None None None None None None) as Hrun.
  eexists. split; [exact Hrun|].
  rewrite gicc_flags0_gflags, (eacc_gflags st Hwf). cbn [orb].
  reflexivity.
Qed.

(* ---------- GIC MSI frame ---------- *)
Definition msi_wf (o : sx) : bool :=
  match o with
  | SL [SA k; SA _] => (k =? 1) || (k =? 2)
  | SL [SA k; SA _; SA _] => k =? 3
  | _ => false
  end.

Definition M (a1 a2 fl cnt base : N) : flds := [F 1 0xD; F 1 24; F 2 0; F 4 a1; F 8 a2; F 4 fl; F 2 cnt; F 2 base].

Lemma msi_wf_cases o : msi_wf o = true ->
  (exists v, o = SL [SA 1; SA v]) \/ (exists v, o = SL [SA 2; SA v]) \/ (exists c b, o = SL [SA 3; SA c; SA b]).
Proof.
  unfold msi_wf. intros H.
  destruct o as [n|[|[k|?] [|[v|?] [|[w|?] [|? ?]]]]]; try discriminate H.
  - apply orb_true_iff in H. destruct H as [H|H]; apply N.eqb_eq in H; subst; eauto.
  - apply N.eqb_eq in H; subst. right; right; eauto.
Qed.

Lemma msi_run st : forallb msi_wf st = true -> forall c1 c2 c3,
  apply_setters gicmsi_setter (M (val c1) (val c2) (fl3 c3) (val c3) (val1 c3)) st
  = Some (M (val (last_arg 1 st c1)) (val (last_arg 2 st c2)) (fl3 (last_arg 3 st c3)) (val (last_arg 3 st c3))
            (val1 (last_arg 3 st c3))).
Proof.
  induction st as [|o st IH]; intros Hwf c1 c2 c3.
  - reflexivity.
  - cbn [forallb] in Hwf. apply andb_true_iff in Hwf. destruct Hwf as [Ho Hst]. specialize (IH Hst).
    destruct (msi_wf_cases o Ho) as [(v & ->)|[(v & ->)|(c & b & ->)]].
    + exact (IH (Some [v]) c2 c3).
    + exact (IH c1 (Some [v]) c3).
    + exact (IH c1 c2 (Some [c; b])).
Qed.

Lemma madt_gicmsi_is_reference st : forallb msi_wf st = true ->
  exists f, apply_setters gicmsi_setter gicmsi_new st = Some f /\
            madt_entry_ref (SL [SA 5; SL st]) = Some (ser_flds f).
Proof.
  intros Hwf. pose proof (msi_run st Hwf None None None) as Hrun.
  eexists. split; [exact Hrun|].
  cbn [madt_entry_ref]. rewrite called_fl3. reflexivity.
Qed.

(* ---------- every operation ---------- *)
(* an operation of the case vocabulary whose builder lists are well-formed builder calls *)
Definition madt_op_wf (o : sx) : bool :=
  match o with
  | SL [SA 3; _; SL st] => forallb gicc_wf st
  | SL [SA 5; SL st] => forallb msi_wf st
  | _ => true
  end.

Ltac fin H :=
  eexists; split; [reflexivity|];
  match goal with |- ?x = ?y => cut (Some x = Some y); [let E := fresh in intros E; injection E; auto | rewrite <- H; reflexivity] end.

(* C04 per entry, for every operation kind and all argument values:
   whatever the Spec lays out for an operation, the model accepts the operation and serialises to exactly those bytes *)
Theorem madt_entries_are_reference o b :
  madt_op_wf o = true -> madt_entry_ref o = Some b ->
  exists f, madt_entry o = Some f /\ ser_flds f = b.
Proof.
  intros Hwf H. unfold madt_entry_ref in H.
  repeat dvar H.
  all: try (fin H; fail).
  all: try (match goal with |- context [SL [SA 3; SA ?st; SL ?l]] =>          (* GICC *)
              cbn [madt_op_wf] in Hwf;
              destruct (madt_gicc_is_reference st l Hwf) as (f & Hf & Hr);
              exists f; split; [exact Hf|]; unfold madt_entry_ref in Hr; rewrite Hr in H; now inversion H end).
  all: try (match goal with |- context [SL [SA 5; SL ?l]] =>                   (* GIC MSI frame *)
              cbn [madt_op_wf] in Hwf;
              destruct (madt_gicmsi_is_reference l Hwf) as (f & Hf & Hr);
              exists f; split; [exact Hf|]; unfold madt_entry_ref in Hr; rewrite Hr in H; now inversion H end).
  (* APLIC, PLIC: the 8 hardware-id bytes *)
  all: match type of H with context [sx_bytes ?hw] => destruct (sx_bytes hw) as [hwb|] eqn:Ehw; [|discriminate H] end;
       destruct (Nat.eqb_spec (length hwb) 8) as [Hl|]; [|discriminate H];
       cbn [madt_entry]; rewrite (sx_arr_of_bytes _ _ _ Ehw Hl); cbn [option_bind];
       do 8 (destruct hwb as [|? hwb]; [discriminate Hl|]); (destruct hwb; [|discriminate Hl]);
       fin H.
Qed.

(* ---------- whole histories ---------- *)
Definition madt_ops_wf (ops : list sx) : Prop := Forall (fun o => madt_op_wf o = true) ops.

(* the reference entry of an operation of a well-formed case *)
Definition madt_eref (o : sx) : option (list N) := if madt_op_wf o then madt_entry_ref o else None.

Definition madt_ok (flag : bool) (ops : list sx) : Prop :=
  (length (filter is_imsic_add ops) <= 1)%nat /\ (flag = true -> filter is_imsic_add ops = []).

Lemma madt_eref_atom n : madt_eref (SA n) = None.
Proof. reflexivity. Qed.

Lemma madt_is_add_imsic o :
  (match o with SL (SA 10 :: _) => true | _ => false end) = is_imsic_add o.
Proof. reflexivity. Qed.

Lemma madt_step_ok s o rest b : t_kind s = KMadt -> madt_ok (t_flag s) (o :: rest) -> madt_eref o = Some b ->
  exists e, madt_addition s o = Some e /\ a_bytes e = b /\ madt_ok (a_flag e) rest.
Proof.
  intros _ [Hcnt Hfl] He. unfold madt_eref in He.
  destruct (madt_op_wf o) eqn:Hwf; [|discriminate].
  destruct (madt_entries_are_reference o b Hwf He) as (f & Hf & Hb).
  unfold madt_addition. rewrite madt_is_add_imsic.
  cbn [filter] in Hcnt, Hfl.
  assert (Hassert : negb (is_imsic_add o && t_flag s) = true).
  { destruct (is_imsic_add o) eqn:Ei; [|reflexivity]. destruct (t_flag s); [|reflexivity].
    specialize (Hfl eq_refl). discriminate. }
  rewrite Hassert. cbn [assert option_bind]. rewrite Hf. cbn [option_bind].
  eexists. split; [reflexivity|]. cbn [a_bytes a_flag]. split; [exact Hb|].
  split.
  - destruct (is_imsic_add o); cbn [length] in Hcnt; lia.
  - intros Hor. apply orb_true_iff in Hor. destruct Hor as [Ht|Hi].
    + specialize (Hfl Ht). destruct (is_imsic_add o); [discriminate|exact Hfl].
    + rewrite Hi in Hcnt. cbn [length] in Hcnt. destruct (filter is_imsic_add rest); [reflexivity|cbn [length] in Hcnt; lia].
Qed.

Lemma madt_eref_map ops : madt_ops_wf ops -> map madt_eref ops = map madt_entry_ref ops.
Proof.
  induction 1 as [|o ops Ho _ IH]; [reflexivity|]. cbn [map]. rewrite IH. unfold madt_eref. now rewrite Ho.
Qed.

Theorem madt_refines : forall md ctor ops r,
  ts_image madt_spec ctor ops = Some r ->
  madt_ops_wf ops ->
  N.of_nat (length r) < 2 ^ 32 ->
  exists s0 s, madt_new ctor = Some s0 /\ run_adds madt_addition md s0 ops = Some s /\ tbl_image s = r.
Proof.
  intros md ctor ops r Himg Hwf Hfit. cbn [ts_image madt_spec] in Himg. unfold madt_image in Himg.
  destruct ctor as [n|[|o [|t [|rv [|lic [|x l]]]]]]; try discriminate Himg.
  destruct (sx_hdr_args o t rv) as [ha|] eqn:Eha; [|discriminate Himg].
  destruct (match lic with SL [] => Some 0 | SL [SA a] => Some a | _ => None end) as [addr|] eqn:Elic; [|discriminate Himg].
  destruct (madt_entries_ref ops) as [es|] eqn:Ees; [|discriminate Himg].
  inversion Himg; subst r; clear Himg.
  unfold madt_entries_ref in Ees.
  destruct (Nat.ltb_spec 1 (length (filter is_imsic_add ops))) as [|Hcnt]; [discriminate Ees|].
  pose (s0 := tbl_new KMadt (mk_hdr [65; 80; 73; 67] 1 ha) (d4 addr ++ d4 0)).
  assert (Hnew : madt_new (SL [o; t; rv; lic]) = Some s0).
  { unfold madt_new. rewrite (sx_hdr_of_args _ _ _ _ _ _ Eha). cbn [option_bind]. rewrite Elic. reflexivity. }
  destruct (sim_image KMadt eq_refl madt_addition madt_addition_sound madt_eref madt_eref_atom madt_ok madt_step_ok
              md s0 ops es [65; 80; 73; 67] 1 ha (le 4 addr ++ le 4 0)) as (s & Hr & Hi).
  - exact (madt_new_inv _ _ Hnew).
  - reflexivity.
  - split; [exact Hcnt|discriminate].
  - reflexivity.
  - reflexivity.
  - rewrite (madt_eref_map ops Hwf). exact Ees.
  - rewrite <- app_assoc. exact Hfit.
  - exists s0, s. split; [exact Hnew|]. split; [exact Hr|]. rewrite Hi, <- app_assoc. reflexivity.
Qed.

(* inside the Spec's domain a history contains no observation marker, so `run_adds` above is the plain fold of
   `madt_step` over the history; at the entry point `madt_case`: one EvNum 0 per operation, then the reference image *)
Lemma madt_no_handle s o e : madt_addition s o = Some e -> a_returns e = false.
Proof.
  unfold madt_addition. destruct (assert _); [|discriminate]. cbn [option_bind].
  destruct (madt_entry o); [|discriminate]. cbn [option_bind]. intros H. inversion H; subst. reflexivity.
Qed.

Theorem madt_case_refines : forall md ctor ops r,
  ts_image madt_spec ctor ops = Some r -> madt_ops_wf ops -> N.of_nat (length r) < 2 ^ 32 ->
  madt_case md (SL (ctor :: ops ++ [SA 1])) = map (fun _ => EvNum 0) ops ++ [EvBytes r].
Proof.
  intros md ctor ops r Himg Hwf Hfit.
  destruct (madt_refines md ctor ops r Himg Hwf Hfit) as (s0 & s & Hn & Hr & Hi).
  unfold madt_case, madt_step. rewrite <- Hi.
  apply (run_history_adds madt_addition madt_no_handle md madt_new ctor ops s0 s Hn); [|exact Hr].
  cbn [ts_image madt_spec] in Himg. unfold madt_image in Himg.
  destruct ctor as [n|[|o [|t [|rv [|lic [|x l]]]]]]; try discriminate Himg.
  destruct (sx_hdr_args o t rv); [|discriminate Himg].
  destruct (match lic with SL [] => Some 0 | SL [SA a] => Some a | _ => None end); [|discriminate Himg].
  destruct (madt_entries_ref ops) as [es|] eqn:Ees; [|discriminate Himg].
  unfold madt_entries_ref in Ees. destruct (Nat.ltb 1 _); [discriminate Ees|].
  rewrite <- (madt_eref_map ops Hwf) in Ees.
  exact (eref_ops_SL madt_eref madt_eref_atom ops es Ees).
Qed.

(* ---------- the hypothesis `madt_ops_wf` cannot be dropped ---------- *)
(* The Spec's GICC / GIC MSI layouts read "the last value given to setter k" and ignore list elements that are not a known
   builder call, so `ts_image` is defined on a history whose builder list contains an unknown call; the model (like the
   harness, which panics with "bad msi setter") refuses it.  Smallest witness: one GIC MSI frame with the builder list ((0)). *)
Definition madt_witness_ctor : sx :=
  SL [SL [SA 0; SA 0; SA 0; SA 0; SA 0; SA 0]; SL [SA 0; SA 0; SA 0; SA 0; SA 0; SA 0; SA 0; SA 0]; SA 0; SL []].
Definition madt_witness_ops : list sx := [SL [SA 5; SL [SL [SA 0]]]].

Example madt_refines_refuted :
  exists r, ts_image madt_spec madt_witness_ctor madt_witness_ops = Some r /\ N.of_nat (length r) < 2 ^ 32 /\
    forall md, exists s0, madt_new madt_witness_ctor = Some s0 /\ run_adds madt_addition md s0 madt_witness_ops = None.
Proof.
  eexists. split; [vm_compute; reflexivity|]. split; [vm_compute; reflexivity|].
  intros md. eexists. split; [reflexivity|]. destruct md; vm_compute; reflexivity.
Qed.

Print Assumptions madt_entries_are_reference.
Print Assumptions madt_refines.
Print Assumptions madt_case_refines.
Print Assumptions madt_refines_refuted.
