(* VIOT, property C03, per-entry part: the reference image of every in-domain history passes the self-check
   (every node has the size the specification assigns to its type). *)
From Coq Require Import NArith ZArith List Lia Bool Arith.
From ACPI Require Import Lib.Bytes Lib.Sx Spec.Layout Spec.RimtS Spec.ViotS Spec.SelfCheck Judge
  Proofs.WalkP Proofs.WalkRefCommon2P Proofs.ViotWalkRefP Proofs.SelfCommonP.
Import ListNotations.
Open Scope N_scope.

Lemma viot_entry_self_ok n rs o e : viot_entry_ref n rs o = Some e -> entry_self_ok 19 (viot_ty e) e = true.
Proof.
  intros H. unfold viot_entry_ref in H. unfold viot_ty. cbn [entry_self_ok].
  destruct o as [|l]; [discriminate H|]. destruct l as [|[op|] l]; try discriminate H.
  destruct op as [|op]; try discriminate H.
  repeat (destruct op as [op|op|]; try discriminate H).
  - destruct l as [|dev [|]]; try discriminate H.
    destruct (viot_pci_ref dev) as [d|]; [|discriminate H].
    eapply lay_u8_fixed; [exact H|reflexivity].
  - destruct l as [|[base|] [|]]; try discriminate H.
    eapply lay_u8_fixed; [exact H|reflexivity].
  - destruct l as [|[ep|] [|[base|] [|href [|]]]]; try discriminate H.
    destruct (viot_out_ref n rs href) as [out|]; [|discriminate H].
    eapply lay_u8_fixed; [exact H|reflexivity].
  - destruct l as [|first [|last [|href [|]]]]; try discriminate H.
    destruct (viot_pci_ref first) as [f|]; [|discriminate H].
    destruct (viot_pci_ref last) as [la|]; [|discriminate H].
    destruct (viot_out_ref n rs href) as [out|]; [|discriminate H].
    eapply lay_u8_fixed; [exact H|reflexivity].
Qed.

Theorem viot_selfcheck : forall ctor ops r, ts_image viot_spec ctor ops = Some r -> c03_self 19 r = true.
Proof.
  intros ctor ops r H.
  destruct (viot_image_shape ctor ops r H) as (ha & es & Ees & Esp & Hsmall & Ho & Ht & ->).
  unfold c03_self. change (ts_walk (spec_of 19)) with (Some (48%nat, H_u8_x_u16)).
  apply (c03_self_at_ref 19 48%nat H_u8_x_u16 viot_ty); try assumption; try reflexivity.
  - apply (sp_entries_forall viot_entry_ref _ viot_entry_self ops _ _ _ _ es Esp). constructor.
  - apply (sp_entries_forall viot_entry_ref _ viot_entry_self_ok ops _ _ _ _ es Esp). constructor.
Qed.

Print Assumptions viot_selfcheck.
