(* Helpers shared by the per-table walk / C18 files (PpttWalkP.v, HmatWalkP.v):
   - reading a field of a serialiser spine `le w1 v1 ++ le w2 v2 ++ ...` with the Spec decoder `field_at`;
   - what `self_describing` says about the entry's own length field, read with `field_at`;
   - a variant of the walk registry record (`walktable_fit`) whose self-description obligation may assume that the
     entry is shorter than 2^32 bytes (which every entry of an image shorter than 2^32 bytes is), with the same tiling
     theorem as `walktable_tiles`.  It is needed for tables whose entries carry a 32-bit length that the code does not
     guard (HMAT System Locality: `self.len() as u32`). *)
From Coq Require Import NArith ZArith List Lia Bool Arith.
From ACPI Require Import Lib.Bytes Lib.Sx Lib.Machine Impl.Checksum Impl.Table Impl.Fields Impl.Run Spec.Layout
  Proofs.ChecksumP Proofs.TableP Proofs.WalkP Proofs.Tables.
Import ListNotations.
Open Scope N_scope.

(* ---------- field_at over a spine of little-endian images ---------- *)

Lemma wf_skipn_add {A} a b : forall l : list A, skipn (a + b) l = skipn b (skipn a l).
Proof. induction a as [|a IH]; intros l; [reflexivity|]. destruct l as [|x l]; [now rewrite !skipn_nil|]. cbn [Nat.add skipn]. apply IH. Qed.

Lemma wf_field_at_skip w v rest off k : field_at (le w v ++ rest) (w + off) k = field_at rest off k.
Proof. unfold field_at. rewrite wf_skipn_add, skipn_le_app. reflexivity. Qed.

Lemma wf_field_at_skip' w v rest off off' k : off = (w + off')%nat -> field_at (le w v ++ rest) off k = field_at rest off' k.
Proof. intros ->. apply wf_field_at_skip. Qed.

(* step over the leading fields of a spine until the field at the requested offset is at the front *)
Ltac wf_fa_skip :=
  repeat match goal with
         | |- context [field_at (le ?w ?v ++ ?rest) ?off ?k] =>
             rewrite (wf_field_at_skip' w v rest off (off - w) k) by reflexivity; cbn [Nat.sub]
         end.

Lemma wf_field_at_here w v post : field_at (le w v ++ post) 0 w = v mod 2 ^ (8 * N.of_nat w).
Proof. unfold field_at. cbn [skipn]. rewrite firstn_le_app. apply unle_le. Qed.

Lemma wf_field_at_here_small w v post : v < 2 ^ (8 * N.of_nat w) -> field_at (le w v ++ post) 0 w = v.
Proof. intros H. rewrite wf_field_at_here. now apply N.mod_small. Qed.

(* ---------- the entry's own length field, as the Spec decoder reads it ---------- *)

(* type u8, length u8 (MADT SRAT PPTT): the byte at offset 1 is the number of bytes of the entry *)
Lemma self_describing_u8_len e ty : self_describing H_u8_u8 e ty ->
  field_at e 1 1 = N.of_nat (length e) /\ field_at e 0 1 = ty.
Proof.
  intros [Hpos Hrd]. specialize (Hrd []). rewrite app_nil_r in Hrd.
  destruct e as [|t [|n r]]; cbn [read_ehdr] in Hrd; try discriminate.
  injection Hrd as Ht Hn. unfold field_at. cbn [skipn firstn unle].
  cbn [length] in *. split; lia.
Qed.

Lemma self_describing_u16_u16_u32_len e ty : self_describing H_u16_u16_u32 e ty ->
  field_at e 4 4 = N.of_nat (length e) /\ field_at e 0 2 = ty.
Proof.
  intros [Hpos Hrd]. specialize (Hrd []). rewrite app_nil_r in Hrd.
  destruct e as [|t0 [|t1 [|r0 [|r1 [|a [|b [|c [|d r]]]]]]]]; cbn [read_ehdr] in Hrd; try discriminate.
  injection Hrd as Ht Hn. unfold field_at. cbn [skipn firstn].
  split; [|exact Ht]. cbn [length] in *. rewrite <- Hn. symmetry. apply N2Nat.id.
Qed.

(* ---------- constructing self-description from a serialiser spine ---------- *)

Lemma wf_le2_eq n : le 2 n = [n mod 256; n / 256 mod 256].
Proof. reflexivity. Qed.
Lemma wf_le4_eq n : le 4 n = [n mod 256; n / 256 mod 256; n / 256 / 256 mod 256; n / 256 / 256 / 256 mod 256].
Proof. reflexivity. Qed.

(* type u8, length u8 *)
Lemma wf_sd_u8_u8 ty len tail : ty < 2 ^ 8 -> len < 2 ^ 8 -> N.to_nat len = (2 + length tail)%nat ->
  self_describing H_u8_u8 (le 1 ty ++ le 1 len ++ tail) ty.
Proof.
  intros Ht Hl Hn.
  assert (HL : length (le 1 ty ++ le 1 len ++ tail) = N.to_nat len) by (rewrite !app_length, !length_le; lia).
  split; [rewrite HL; lia|].
  intros rest. rewrite HL.
  cbn [le app read_ehdr]. change (2 ^ 8) with 256 in *. rewrite !N.mod_small by assumption. reflexivity.
Qed.

(* type u16, reserved u16, length u32 *)
Lemma wf_sd_u16_u16_u32 ty res len tail : ty < 2 ^ 16 -> len < 2 ^ 32 -> N.to_nat len = (8 + length tail)%nat ->
  self_describing H_u16_u16_u32 (le 2 ty ++ le 2 res ++ le 4 len ++ tail) ty.
Proof.
  intros Ht Hl Hn.
  assert (HL : length (le 2 ty ++ le 2 res ++ le 4 len ++ tail) = N.to_nat len) by (rewrite !app_length, !length_le; lia).
  split; [rewrite HL; lia|].
  intros rest. rewrite HL.
  rewrite (wf_le2_eq ty), (wf_le2_eq res), (wf_le4_eq len). cbn [app read_ehdr].
  rewrite <- (wf_le2_eq ty), <- (wf_le4_eq len).
  rewrite (unle_le_small 2 ty) by exact Ht. rewrite (unle_le_small 4 len) by exact Hl. reflexivity.
Qed.

(* ---------- walk registry record with the "entry shorter than 2^32 bytes" side condition ---------- *)

Record walktable_fit := {
  wf_table : addtable;
  wf_ehdr : ehdr;
  wf_self : forall s o e, at_entry wf_table s o = Some e -> N.of_nat (length (a_bytes e)) < 2 ^ 32 ->
                          exists ty, self_describing wf_ehdr (a_bytes e) ty;
  wf_new_empty : forall c s0, at_new wf_table c = Some s0 -> t_ents s0 = []
}.

(* every walktable is one *)
Definition walktable_as_fit (W : walktable) : walktable_fit :=
  {| wf_table := wt_table W; wf_ehdr := wt_ehdr W;
     wf_self := fun s o e H _ => wt_self W s o e H; wf_new_empty := wt_new_empty W |}.

Lemma wf_entry_le_concat (es : list (list N)) : Forall (fun e => (length e <= length (concat es))%nat) es.
Proof.
  induction es as [|x es IH]; [constructor|]. cbn [concat]. rewrite app_length. constructor; [lia|].
  eapply Forall_impl; [|exact IH]. cbn beta. intros a Ha. lia.
Qed.

Lemma wf_entry_le_image s : Forall (fun e => (length e <= length (tbl_image s))%nat) (t_ents s).
Proof.
  eapply Forall_impl; [|apply wf_entry_le_concat]. cbn beta. intros a Ha.
  unfold tbl_image, t_body. rewrite !app_length. lia.
Qed.

(* same conclusion as `walktable_tiles` (Proofs/Tables.v) *)
Lemma walktable_fit_tiles (W : walktable_fit) md c ops s0 s :
  at_new (wf_table W) c = Some s0 -> run_adds (at_entry (wf_table W)) md s0 ops = Some s ->
  N.of_nat (length (tbl_image s)) < 2 ^ 32 ->
  let first := (36 + length (mid (t_kind s) (t_pre s) 0))%nat in
  exists tys,
    Forall2 (self_describing (wf_ehdr W)) (t_ents s) tys /\
    walk (length (t_ents s)) (wf_ehdr W) first (skipn first (tbl_image s)) = Some (walk_result first (t_ents s) tys) /\
    concat (t_ents s) = skipn first (tbl_image s) /\
    t_cnt s = N.of_nat (length (t_ents s)).
Proof.
  intros Hn Hr Hfit first.
  pose proof (at_new_inv (wf_table W) c s0 Hn) as I0.
  pose proof (addtable_reach (wf_table W) md c ops s0 s Hn Hr Hfit) as I.
  assert (HF0 : Forall (fun e => N.of_nat (length e) < 2 ^ 32 -> exists ty, self_describing (wf_ehdr W) e ty) (t_ents s)).
  { apply (run_adds_forall (at_kind (wf_table W)) (at_entry (wf_table W)) (at_sound (wf_table W)) _ md ops s0 s); auto.
    - intros s1 o e He. exact (wf_self W s1 o e He).
    - rewrite (wf_new_empty W c s0 Hn). constructor. }
  assert (HF : Forall (fun e => exists ty, self_describing (wf_ehdr W) e ty) (t_ents s)).
  { pose proof (wf_entry_le_image s) as Hle. rewrite Forall_forall in *. intros e He. apply (HF0 e He).
    specialize (Hle e He). cbn beta in Hle. lia. }
  destruct (forall_self_tys _ _ HF) as [tys Htys].
  destruct I as (I & _).
  destruct (image_split s (inv_hdr s I)) as (pre & Hs & Hl).
  exists tys. split; [exact Htys|].
  assert (Hsk : skipn first (tbl_image s) = t_body s).
  { rewrite Hs. unfold first. rewrite <- Hl. apply skipn_app_exact. }
  rewrite Hsk. split; [|split; [reflexivity|exact (inv_cnt s I)]].
  apply walk_concat; [exact Htys|lia].
Qed.

Print Assumptions walktable_fit_tiles.
