(* RHCT: the Impl model refines the Spec (C04 as a theorem).  For every constructor argument and every history of
   operations in the domain of Spec/RhctS.v, in both build modes, the model of rhct.rs accepts the history and the table it
   serialises is byte for byte the reference image. *)
From Coq Require Import NArith ZArith List Lia Bool Arith.
From ACPI Require Import Lib.Bytes Lib.Sx Lib.Machine Impl.Checksum Impl.Table Impl.Fields Impl.Run Impl.Madt Impl.Rhct
  Spec.Layout Spec.MadtS Spec.HmatS Spec.PpttS Spec.RhctS
  Proofs.ChecksumP Proofs.TableP Proofs.MadtP Proofs.Tables Proofs.RhctP Proofs.RefTableCommonP.
Import ListNotations.

Ltac Zify.zify_post_hook ::= Z.to_euclidean_division_equations.

Open Scope N_scope.

(* ---------- per-entry lemmas: model entry bytes = reference entry bytes, for all arguments ---------- *)

Lemma odd_N m : Nat.odd m = negb (N.of_nat m mod 2 =? 0).
Proof.
  destruct (Nat.odd m) eqn:E.
  - apply Nat.odd_spec in E. destruct E as [k ->]. symmetry. apply negb_true_iff. apply N.eqb_neq. lia.
  - rewrite <- Nat.negb_even in E. apply negb_false_iff in E. apply Nat.even_spec in E. destruct E as [k ->].
    symmetry. apply negb_false_iff. apply N.eqb_eq. lia.
Qed.

(* ISA string node *)
Lemma isa_is_reference b e :
  (let n := length b in
   let pad := Nat.odd (8 + n + 1) in
   let total := (8 + n + 1 + (if pad then 1 else 0))%nat in
   if forallb (fun x => x <? 256) b && (N.of_nat total <=? 65535) then
     lay_then 8 [L 0 2 0; L 2 2 (N.of_nat total); L 4 2 1; L 6 2 (N.of_nat (n + 1))] (b ++ [0] ++ (if pad then [0] else []))
   else None) = Some e ->
  isa_bytes b = Some e.
Proof.
  cbv zeta. destruct (forallb _ b); [|discriminate]. cbn [andb].
  destruct (N.leb_spec (N.of_nat (8 + length b + 1 + (if Nat.odd (8 + length b + 1) then 1 else 0))) 65535) as [Hle|]; [|discriminate].
  intros H. unfold isa_bytes.
  assert (Hlen : isa_len b = N.of_nat (8 + length b + 1 + (if Nat.odd (8 + length b + 1) then 1 else 0))).
  { unfold isa_len. rewrite odd_N. replace (N.of_nat (8 + length b + 1)) with (8 + N.of_nat (length b) + 1) by lia.
    destruct ((8 + N.of_nat (length b) + 1) mod 2 =? 0); cbn [negb]; lia. }
  rewrite Hlen. destruct (N.leb_spec (N.of_nat (8 + length b + 1 + (if Nat.odd (8 + length b + 1) then 1 else 0))) 65535); [|lia].
  cbn [assert option_bind].
  assert (Hn : N.of_nat (length b) <= 65526) by (destruct (Nat.odd (8 + length b + 1)); lia).
  assert (Hstr : cast U16 (N.of_nat (length b)) + 1 = N.of_nat (length b + 1)).
  { unfold cast, U16. rewrite N.mod_small by lia. lia. }
  rewrite Hstr.
  assert (Hpad : (N.of_nat (length b + 1) mod 2 =? 1) = Nat.odd (8 + length b + 1)).
  { rewrite odd_N. replace (N.of_nat (8 + length b + 1)) with (N.of_nat (length b + 1) + 4 * 2) by lia.
    rewrite N.mod_add by lia.
    pose proof (N.mod_lt (N.of_nat (length b + 1)) 2 ltac:(lia)) as Hm.
    destruct (N.eqb_spec (N.of_nat (length b + 1) mod 2) 1), (N.eqb_spec (N.of_nat (length b + 1) mod 2) 0); cbn [negb]; try reflexivity; lia. }
  rewrite Hpad. rewrite <- H. clear.
  generalize (N.of_nat (8 + length b + 1 + (if Nat.odd (8 + length b + 1) then 1 else 0))) (N.of_nat (length b + 1)).
  intros t k. destruct (Nat.odd (8 + length b + 1)); reflexivity.
Qed.

(* MMU node *)
Lemma mmu_is_reference scheme : lay 8 [L 0 2 2; L 2 2 8; L 4 2 1; L 6 1 0; L 7 1 scheme] = Some (mmu_bytes scheme).
Proof. reflexivity. Qed.

(* CMO node *)
Lemma cmo_is_reference cbom cbop cboz :
  lay 10 [L 0 2 1; L 2 2 10; L 4 2 1; L 6 1 0; L 7 1 cbom; L 8 1 cbop; L 9 1 cboz] = Some (cmo_bytes cbom cbop cboz).
Proof. reflexivity. Qed.

(* hart info node, given the offsets its handles resolve to *)
Lemma hart_is_reference uid hs e :
  (if (uid <? 2 ^ 32) && (N.of_nat (12 + 4 * length hs) <=? 65535) then
     lay_then 12 [L 0 2 65535; L 2 2 (N.of_nat (12 + 4 * length hs)); L 4 2 1; L 6 2 (N.of_nat (length hs)); L 8 4 uid] (arr 4 hs)
   else None) = Some e ->
  hart_bytes uid hs = Some e.
Proof.
  destruct (uid <? 2 ^ 32); [|discriminate]. cbn [andb].
  destruct (N.leb_spec (N.of_nat (12 + 4 * length hs)) 65535) as [Hle|]; [|discriminate].
  intros H. unfold hart_bytes.
  assert (Hlen : hart_len hs = N.of_nat (12 + 4 * length hs)) by (unfold hart_len; lia).
  rewrite Hlen. destruct (N.leb_spec (N.of_nat (12 + 4 * length hs)) 65535); [|lia].
  cbn [assert option_bind]. rewrite <- H. clear.
  generalize (N.of_nat (12 + 4 * length hs)) (N.of_nat (length hs)). intros. reflexivity.
Qed.

(* ---------- the simulation relation ---------- *)

(* [s] is the model state, [(p, next, racc)] the Spec's bookkeeping after the same prefix *)
Record Sim (s : tbl) (p : placed) (next : N) (racc : list (list N)) : Prop := {
  sim_inv : Inv2 KRhct s;
  sim_ents : t_ents s = rev racc;
  sim_handles : t_handles s = rev (map snd (fst p));
  sim_count : snd p = N.of_nat (length (fst p));
  sim_next : next = N.of_nat (length (tbl_image s));
  sim_first : length (mid KRhct (t_pre s) 0) = 20%nat
}.

Lemma sim_resolve s p next racc ty x off : Sim s p next racc -> resolve p ty x = Some off -> handle_ref s x = Some off.
Proof.
  intros SM H. unfold resolve in H.
  destruct x as [|l]; [discriminate H|]. destruct l as [|[a|] l]; try discriminate H.
  destruct a as [|a]; try discriminate H.
  destruct (Pos.eq_dec a 104) as [->|Ea].
  2:{ exfalso. repeat (destruct a as [a|a|]; try discriminate H). apply Ea; reflexivity. }
  destruct l as [|[k|] l]; try discriminate H. destruct l; try discriminate H.
  destruct (N.ltb_spec k (snd p)) as [Hk|]; [|discriminate H].
  destruct (nth_error (fst p) (N.to_nat (snd p - 1 - k))) as [[t o]|] eqn:En; [|discriminate H].
  destruct (t =? ty); [|discriminate H]. inversion H; subst o.
  cbn [handle_ref]. rewrite (sim_handles _ _ _ _ SM). pose proof (sim_count _ _ _ _ SM) as Hc.
  rewrite nth_error_rev_lt by (rewrite map_length; lia).
  rewrite map_length. rewrite nth_error_map.
  replace (length (fst p) - 1 - N.to_nat k)%nat with (N.to_nat (snd p - 1 - k)) by lia.
  rewrite En. reflexivity.
Qed.

Lemma sim_resolve_all s p next racc ty l offs : Sim s p next racc -> resolve_all p ty l = Some offs -> handle_refs s l = Some offs.
Proof.
  intros SM. revert offs. induction l as [|x l IH]; intros offs H; cbn [resolve_all handle_refs] in *.
  - exact H.
  - destruct (resolve p ty x) as [h|] eqn:Eh; [|discriminate H].
    destruct (resolve_all p ty l) as [hs|]; [|discriminate H]. inversion H; subst.
    rewrite (sim_resolve _ _ _ _ _ _ _ SM Eh), (IH hs eq_refl). reflexivity.
Qed.

(* every structure type is the reference encoding of the caller's values *)
Theorem rhct_entries_are_reference s p next racc o e :
  Sim s p next racc -> rhct_entry_ref p o = Some e ->
  exists a, rhct_addition s o = Some a /\ a_bytes a = e.
Proof.
  intros SM H. unfold rhct_entry_ref in H.
  destruct o as [|l]; [discriminate H|]. destruct l as [|[op|] l]; try discriminate H.
  destruct op as [|op]; try discriminate H.
  repeat (destruct op as [op|op|]; try discriminate H).
  - (* 3: CMO *)
    destruct l as [|[cbom|] [|[cbop|] [|[cboz|] [|]]]]; try discriminate H.
    destruct ((cbom <? 256) && (cbop <? 256) && (cboz <? 256)); [|discriminate H].
    rewrite cmo_is_reference in H. inversion H; subst.
    eexists. split; [reflexivity|reflexivity].
  - (* 4: hart info *)
    destruct l as [|[uid|] [|isa [|[|cmos] [|]]]]; try discriminate H.
    destruct (resolve p 0 isa) as [i|] eqn:Ei; [|discriminate H].
    destruct (resolve_all p 1 cmos) as [cs|] eqn:Ec; [|discriminate H].
    cbn [rhct_addition]. rewrite (sim_resolve _ _ _ _ _ _ _ SM Ei), (sim_resolve_all _ _ _ _ _ _ _ SM Ec). cbn [option_bind].
    change (S (length cs)) with (length (i :: cs)) in H.
    rewrite (hart_is_reference uid (i :: cs) e H). cbn [option_bind].
    eexists. split; reflexivity.
  - (* 2: MMU *)
    destruct l as [|[scheme|] [|]]; try discriminate H.
    destruct (scheme <? 3); [|discriminate H]. rewrite mmu_is_reference in H. inversion H; subst.
    eexists. split; reflexivity.
  - (* 1: ISA string *)
    destruct l as [|str [|]]; try discriminate H.
    destruct (sx_bytes str) as [b|] eqn:Eb; [|discriminate H].
    cbn [rhct_addition]. rewrite Eb. cbn [option_bind].
    rewrite (isa_is_reference b e H). cbn [option_bind]. eexists. split; reflexivity.
Qed.

(* the Spec's list of entries only grows at its end *)
Lemma rhct_entries_from_prefix ops : forall p next racc es,
  rhct_entries_from ops p next racc = Some es -> exists tail, es = rev racc ++ tail.
Proof.
  induction ops as [|o ops IH]; intros p next racc es H; cbn [rhct_entries_from] in H.
  - inversion H; subst. exists []. now rewrite frev_rev, app_nil_r.
  - destruct (rhct_entry_ref p o) as [e|]; [|discriminate H].
    destruct (IH _ _ _ _ H) as [tail ->]. exists (e :: tail). cbn [rev]. now rewrite <- app_assoc.
Qed.

Lemma sim_image_length s p next racc : Sim s p next racc -> length (tbl_image s) = (56 + length (concat (rev racc)))%nat.
Proof.
  intros SM. destruct (sim_inv _ _ _ _ SM) as (I & HK & _).
  rewrite length_image by (exact (inv_hdr s I)). rewrite HK, (sim_first _ _ _ _ SM). unfold t_body. rewrite (sim_ents _ _ _ _ SM). lia.
Qed.

(* one operation *)
Lemma rhct_sim_step md s p next racc o e :
  Sim s p next racc -> rhct_entry_ref p o = Some e ->
  N.of_nat (56 + length (concat (rev (e :: racc)))) < 2 ^ 32 ->
  exists s', add_step rhct_addition md s o = Some (s', [EvNum (if rhct_returns o then next else 0)]) /\
    Sim s' ((unle (firstn 2 e), next) :: fst p, snd p + 1) (next + N.of_nat (length e)) (e :: racc) /\
    t_hdr s' = t_hdr s /\ t_pre s' = t_pre s.
Proof.
  intros SM He Hfit.
  destruct (rhct_entries_are_reference s p next racc o e SM He) as (a & Ha & Hb).
  pose proof (sim_image_length _ _ _ _ SM) as Hlen.
  assert (Hsz : length (concat (rev (e :: racc))) = (length (concat (rev racc)) + length e)%nat).
  { cbn [rev]. rewrite concat_app, app_length. cbn [concat]. rewrite app_nil_r. reflexivity. }
  destruct (add_step_ok KRhct rhct_addition rhct_addition_sound md s o a (sim_inv _ _ _ _ SM) Ha)
    as (s' & Hstep & I' & Hents & Hhs & Hk & Hh & Hp & Hl').
  - rewrite Hb, Hlen. rewrite Hsz in Hfit. replace (56 + length (concat (rev racc)) + length e)%nat
      with (56 + (length (concat (rev racc)) + length e))%nat by lia. exact Hfit.
  - discriminate.
  - exists s'. split; [|split; [|split; assumption]].
    + rewrite Hstep. rewrite <- (sim_next _ _ _ _ SM).
      assert (Hr : a_returns a = rhct_returns o).
      { clear - Ha. unfold rhct_addition in Ha.
        destruct o as [|l]; [discriminate Ha|]. destruct l as [|[op|] l]; try discriminate Ha.
        destruct op as [|op]; try discriminate Ha.
        repeat (destruct op as [op|op|]; try discriminate Ha).
        - destruct l as [|[cbom|] [|[cbop|] [|[cboz|] [|]]]]; try discriminate Ha. inversion Ha; subst. reflexivity.
        - destruct l as [|[uid|] [|isa [|[|cmos] [|]]]]; try discriminate Ha.
          destruct (handle_ref s isa); [|discriminate Ha]. cbn [option_bind] in Ha.
          destruct (handle_refs s cmos); [|discriminate Ha]. cbn [option_bind] in Ha.
          destruct (hart_bytes _ _); [|discriminate Ha]. inversion Ha; subst. reflexivity.
        - destruct l as [|[scheme|] [|]]; try discriminate Ha. inversion Ha; subst. reflexivity.
        - destruct l as [|str [|]]; try discriminate Ha.
          destruct (sx_bytes str); [|discriminate Ha]. cbn [option_bind] in Ha.
          destruct (isa_bytes _); [|discriminate Ha]. inversion Ha; subst. reflexivity. }
      rewrite Hr. reflexivity.
    + constructor; cbn [fst snd map rev].
      * exact I'.
      * rewrite Hents, (sim_ents _ _ _ _ SM), Hb. reflexivity.
      * rewrite Hhs, (sim_handles _ _ _ _ SM), <- (sim_next _ _ _ _ SM). reflexivity.
      * rewrite (sim_count _ _ _ _ SM). cbn [length]. lia.
      * rewrite Hl', (sim_next _ _ _ _ SM), Hb. lia.
      * rewrite Hp. exact (sim_first _ _ _ _ SM).
Qed.

(* every history *)
Lemma rhct_sim md ops : forall s p next racc es,
  Sim s p next racc -> rhct_entries_from ops p next racc = Some es ->
  N.of_nat (56 + length (concat es)) < 2 ^ 32 ->
  exists s', run_adds rhct_addition md s ops = Some s' /\ Inv2 KRhct s' /\ t_ents s' = es /\
             t_hdr s' = t_hdr s /\ t_pre s' = t_pre s /\ all_calls ops.
Proof.
  induction ops as [|o ops IH]; intros s p next racc es SM H Hfit; cbn [rhct_entries_from] in H.
  - inversion H; subst. exists s. cbn [run_adds]. rewrite frev_rev.
    repeat split; try reflexivity; try exact (sim_ents _ _ _ _ SM); try constructor; apply (sim_inv _ _ _ _ SM).
  - destruct (rhct_entry_ref p o) as [e|] eqn:He; [|discriminate H].
    destruct (rhct_entries_from_prefix _ _ _ _ _ H) as [tail Htail].
    destruct (rhct_sim_step md s p next racc o e SM He) as (s1 & Hstep & S1 & Hh1 & Hp1).
    { rewrite Htail, concat_app, app_length in Hfit. lia. }
    destruct (IH s1 _ _ _ es S1 H Hfit) as (s' & Hrun & I' & Hents & Hh & Hp & Hall).
    assert (Ho : exists l, o = SL l).
    { destruct o as [n|l]; [cbn in He; discriminate|eexists; reflexivity]. }
    destruct Ho as [l ->].
    exists s'. cbn [run_adds]. rewrite Hstep. split; [exact Hrun|]. split; [exact I'|]. split; [exact Hents|].
    split; [congruence|]. split; [congruence|]. constructor; [exact Logic.I|exact Hall].
Qed.

Lemma rhct_new_sim ctor o t r timebase ha : ctor = SL [o; t; r; SA timebase] -> sx_hdr_args o t r = Some ha ->
  exists s0, rhct_new ctor = Some s0 /\ Sim s0 ([], 0) 56 [] /\
    t_hdr s0 = {| h_sig := [82; 72; 67; 84]; h_rev := 1; h_oem := ha_oem ha; h_tbl := ha_tbl ha; h_orev := ha_orev ha |} /\
    t_pre s0 = q8 timebase.
Proof.
  intros -> Hha. unfold rhct_new. rewrite (sx_hdr_of_args _ _ _ _ _ _ Hha). cbn [option_bind].
  eexists. split; [reflexivity|]. split; [|split; reflexivity].
  assert (I0 : Inv2 KRhct (tbl_new KRhct {| h_sig := [82; 72; 67; 84]; h_rev := 1; h_oem := ha_oem ha; h_tbl := ha_tbl ha; h_orev := ha_orev ha |} (q8 timebase))).
  { apply (rhct_new_inv (SL [o; t; r; SA timebase])). unfold rhct_new. rewrite (sx_hdr_of_args _ _ _ _ _ _ Hha). reflexivity. }
  constructor.
  - exact I0.
  - reflexivity.
  - reflexivity.
  - reflexivity.
  - destruct I0 as (I0 & _). rewrite length_image by (exact (inv_hdr _ I0)). reflexivity.
  - reflexivity.
Qed.

(* ---------- the refinement theorem ---------- *)
Theorem rhct_refines :
  forall md ctor ops r,
    ts_image rhct_spec ctor ops = Some r ->
    N.of_nat (length r) < 2 ^ 32 ->
    exists s0 s, rhct_new ctor = Some s0 /\
                 run_adds rhct_addition md s0 ops = Some s /\
                 tbl_image s = r.
Proof.
  intros md ctor ops r H Hfit. cbn [ts_image rhct_spec] in H. unfold rhct_image in H.
  destruct ctor as [|l]; [discriminate H|].
  destruct l as [|o [|t [|rr [|[timebase|] [|]]]]]; try discriminate H.
  destruct (sx_hdr_args o t rr) as [ha|] eqn:Eha; [|discriminate H].
  destruct (rhct_entries_ref ops) as [es|] eqn:Ees; [|discriminate H].
  destruct ((timebase <? 2 ^ 64) && (N.of_nat (length es) <? 2 ^ 32)); [|discriminate H].
  apply rh_Some_inj in H. subst r.
  destruct (rhct_new_sim _ o t rr timebase ha eq_refl Eha) as (s0 & Hnew & S0 & Hh0 & Hp0).
  assert (Hsz : N.of_nat (56 + length (concat es)) < 2 ^ 32).
  { destruct (sx_hdr_args_lengths _ _ _ _ Eha) as [Ho Ht].
    rewrite (length_ref_table [82; 72; 67; 84] _ _ _ eq_refl Ho Ht) in Hfit. rewrite !app_length, !length_le in Hfit. lia. }
  destruct (rhct_sim md ops s0 _ _ _ es S0 Ees Hsz) as (s & Hrun & (I & HK & _) & Hents & Hh & Hp & _).
  exists s0, s. split; [exact Hnew|]. split; [exact Hrun|].
  rewrite (inv_image_ref s I). rewrite HK, Hh, Hp, Hh0, Hp0. cbn [h_sig h_rev mid].
  unfold t_body. rewrite Hents, (inv_cnt s I), Hents. unfold ha_of. cbn [h_oem h_tbl h_orev].
  destruct ha; reflexivity.
Qed.

(* the same in terms of what a case reports: the constructor, the calls, then one observation *)
Corollary rhct_case_refines md ctor ops r :
  ts_image rhct_spec ctor ops = Some r -> N.of_nat (length r) < 2 ^ 32 ->
  exists evs, Forall (fun e => match e with EvNum _ => True | _ => False end) evs /\ length evs = length ops /\
    rhct_case md (SL (ctor :: ops ++ [SA 1])) = evs ++ [EvBytes r].
Proof.
  intros H Hfit.
  assert (Hall : all_calls ops).
  { cbn [ts_image rhct_spec] in H. unfold rhct_image in H.
    destruct ctor as [|l]; [discriminate H|].
    destruct l as [|o [|t [|rr [|[timebase|] [|]]]]]; try discriminate H.
    destruct (sx_hdr_args o t rr) as [ha|] eqn:Eha; [|discriminate H].
    destruct (rhct_entries_ref ops) as [es|] eqn:Ees; [|discriminate H].
    clear - Ees. unfold rhct_entries_ref in Ees. revert Ees. generalize ([] : list (N * N), 0) 56 ([] : list (list N)).
    induction ops as [|o ops IH]; intros p next racc H; [constructor|]. cbn [rhct_entries_from] in H.
    destruct (rhct_entry_ref p o) eqn:He; [|discriminate H].
    constructor; [destruct o; [cbn in He; discriminate|exact Logic.I]|]. eapply IH; exact H. }
  destruct (rhct_refines md ctor ops r H Hfit) as (s0 & s & Hn & Hr & Hi).
  destruct (run_history_adds rhct_addition md rhct_new ctor ops s0 s Hall Hn Hr) as (evs & Hf & Hl & Hrun).
  exists evs. split; [exact Hf|]. split; [exact Hl|]. unfold rhct_case, rhct_step. rewrite Hrun, Hi. reflexivity.
Qed.

Print Assumptions rhct_refines.
Print Assumptions rhct_case_refines.
