(* Coherence of the C03 oracle (Judge.v: oracle 3 = c03_full_oracle && c03_extra_oracle) with the theorems of Props/C03.v:
   on every well-formed case whose history is in the Spec's domain the oracle ACCEPTS the model's own observation stream.
   At every observation c03_full_oracle asks c03_judge (the walk from the first-entry offset finds the (type, length) list of
   the entries added so far, lands on the end, count fields hold) and c03_self (every entry is consistent with itself);
   c03_extra_oracle asks the nested walk of the RQSC and the count-and-matrix shape of the SLIT.

   c03_judge reads ts_entries, not ts_image: it judges an observation even where the Spec has no reference image.  The proof
   therefore needs the Spec's domain to be CLOSED UNDER PREFIXES (every observation of an in-domain history is then the
   reference image of an in-domain prefix, of which <t>_reference_tiles and <t>_selfcheck speak): proved here for
   XSDT MCFG MADT SRAT HMAT CEDT ([<t>_dom_prefix]), taken from <t>_split_gen for PPTT RHCT RIMT VIOT and from
   CoherenceSpecialP.v for HEST RQSC SLIT. *)
From Coq Require Import NArith List Bool Lia Arith.
From ACPI Require Import Lib.Bytes Lib.Sx Lib.Machine Impl.Table Impl.Fields Impl.Run Spec.Layout Spec.MadtS Spec.RimtS
  Spec.SelfCheck Proofs.FixedP Proofs.TableP Proofs.Tables Proofs.Registry Judge
  Proofs.CoherenceTablesP Proofs.CoherenceFixedP Proofs.CoherenceAddP Proofs.CoherenceSpecialP Proofs.CoherenceWalkP
  Proofs.CoherenceWalkC05P.
From ACPI Require Import Impl.Xsdt Impl.Mcfg Impl.Madt Impl.Srat Impl.Hmat Impl.Pptt Impl.Rhct Impl.Rimt Impl.Viot Impl.Cedt
  Impl.Slit Impl.Rqsc Impl.Hest
  Spec.XsdtS Spec.McfgS Spec.SratS Spec.HmatS Spec.PpttS Spec.RhctS Spec.ViotS Spec.CedtS Spec.SlitS Spec.RqscS Spec.HestS
  Spec.RqscWalkS Spec.SlitShapeS
  Proofs.MadtP Proofs.XsdtP Proofs.McfgP Proofs.SratP Proofs.HmatP Proofs.PpttP Proofs.RhctP Proofs.RimtP Proofs.ViotP Proofs.CedtP
  Proofs.MadtRefP Proofs.McfgRefP Proofs.XsdtRefP Proofs.SratRefP Proofs.RhctRefP Proofs.ViotRefP Proofs.RimtRefP Proofs.CedtRefP
  Proofs.PpttRefP Proofs.HmatRefP Proofs.SlitRefP Proofs.RqscRefP Proofs.HestRefP Proofs.SlitP Proofs.RqscP Proofs.HestP
  Proofs.MadtWalkRefP Proofs.SratWalkRefP Proofs.McfgWalkRefP Proofs.XsdtWalkRefP Proofs.RhctWalkRefP Proofs.ViotWalkRefP
  Proofs.RimtWalkRefP
  Proofs.MadtSelfP Proofs.SratSelfP Proofs.McfgSelfP Proofs.XsdtSelfP Proofs.RhctSelfP Proofs.ViotSelfP Proofs.RimtSelfP
  Proofs.CedtSelfP Proofs.PpttSelfP Proofs.HmatSelfP Proofs.HestSelfP Proofs.RqscSelfP
  Proofs.HandleModelP Proofs.RqscWalkP Proofs.SlitShapeP.
Import ListNotations.
Open Scope N_scope.

(* the judgement c03_full_oracle asks at every observation *)
Definition c03_obs_judge (comp : N) (ctor : sx) (img : list N) (prefix : list sx) : bool :=
  c03_judge (spec_of comp) ctor img prefix && (if (comp =? 21) && shows_alone prefix then true else c03_self comp img).

Definition no_handles (_ : list N) (_ : list (N * nat)) : bool := true.

Lemma c03_full_oracle_eq comp ctor ops evs :
  c03_full_oracle comp (SL (ctor :: ops)) evs
  = judge_history (ts_returns (spec_of comp)) (c03_obs_judge comp ctor) no_handles [] ops evs [].
Proof. reflexivity. Qed.

(* ---------- tables built on the shared addition machinery ---------- *)
Section C03Add.
  Variable T : mode -> addtable.
  Variable comp : N.
  Variable wfops : list sx -> Prop.
  Variable new : sx -> option tbl.
  Hypothesis T_new : forall md, at_new (T md) = new.
  Hypothesis Href : forall md ctor ops r,
    ts_image (spec_of comp) ctor ops = Some r -> wfops ops -> N.of_nat (length r) < 2 ^ 32 ->
    exists s0 s, new ctor = Some s0 /\ run_adds (at_entry (T md)) md s0 ops = Some s /\ tbl_image s = r.
  Hypothesis wf_prefix : forall p q, wfops (p ++ q) -> wfops p.
  Hypothesis dom_prefix : forall ctor p q r, ts_image (spec_of comp) ctor (p ++ q) = Some r ->
    exists r1, ts_image (spec_of comp) ctor p = Some r1 /\ (length r1 <= length r)%nat.
  Hypothesis Hne : (comp =? 21) = false.
  Hypothesis Hjudge : forall ctor ops r, ts_image (spec_of comp) ctor ops = Some r -> N.of_nat (length r) < 2 ^ 32 ->
    c03_judge (spec_of comp) ctor r ops = true.
  Hypothesis Hself : forall ctor ops r, ts_image (spec_of comp) ctor ops = Some r -> c03_self comp r = true.

  Let image (s : tbl) : option (list N) := Some (tbl_image s).
  Let step (md : mode) := add_step (at_entry (T md)) md.

  Theorem c03_add_coherent md ctor ops r :
    markers_ok ops = true -> wfops (real_ops ops) ->
    ts_image (spec_of comp) ctor (real_ops ops) = Some r -> N.of_nat (length r) < 2 ^ 32 ->
    let c := SL (ctor :: ops) in
    c03_full_oracle comp c (run_history (fun s => Some (tbl_image s)) (add_step (at_entry (T md)) md) new c) = true.
  Proof.
    intros Hm Hw Ht Hf c. unfold c. rewrite c03_full_oracle_eq.
    apply (walk_coherent (spec_of comp) new step image wfops fits_u32 (fun md => add_step_one _ md)) with (r := r);
      try assumption.
    - intros md' ctor' p r1 Ht1 Hw1 Hf1. destruct (Href md' ctor' p r1 Ht1 Hw1 Hf1) as (s0 & s & Hn & Hr & Hi).
      exists s0, s. unfold image, step. rewrite <- run_adds_steps, Hi. auto.
    - intros ctor' p q r1 Ht1 _ Hf1. destruct (dom_prefix ctor' p q r1 Ht1) as (r2 & Ht2 & Hle).
      exists r2. split; [exact Ht2|]. unfold fits_u32 in *. lia.
    - intros ctor' p r1 Ht1 _ Hf1. unfold c03_obs_judge. rewrite Hne, (Hjudge ctor' p r1 Ht1 Hf1), (Hself ctor' p r1 Ht1).
      reflexivity.
    - intros. reflexivity.
  Qed.
End C03Add.

(* ---------- prefix-closed domains ---------- *)
Lemma prefix_of_split (spec : tspec) :
  (forall ctor pre o post r, ts_image spec ctor (pre ++ o :: post) = Some r ->
     exists r1, ts_image spec ctor pre = Some r1 /\ (length r1 <= length r)%nat) ->
  forall ctor p q r, ts_image spec ctor (p ++ q) = Some r ->
     exists r1, ts_image spec ctor p = Some r1 /\ (length r1 <= length r)%nat.
Proof.
  intros H ctor p [|o post] r Ht.
  - rewrite app_nil_r in Ht. exists r. auto.
  - exact (H ctor p o post r Ht).
Qed.

Lemma xsdt_dom_prefix : forall ctor p q r, ts_image xsdt_spec ctor (p ++ q) = Some r ->
  exists r1, ts_image xsdt_spec ctor p = Some r1 /\ (length r1 <= length r)%nat.
Proof.
  intros ctor p q r H.
  assert (exists r1, ts_image xsdt_spec ctor p = Some r1) as [r1 H1];
    [|exists r1; split; [exact H1|exact (xsdt_len_mono ctor p q r r1 H H1)]].
  revert H. cbn [ts_image xsdt_spec]. unfold xsdt_image, xsdt_entries_ref. intros H. ctor_shape H. cbv beta match.
  destruct (sx_hdr_args _ _ _) as [h|]; [|discriminate H].
  destruct (opt_concat (map xsdt_entry_ref (p ++ q))) as [es|] eqn:E; [|discriminate H].
  destruct (opt_concat_app _ p q es E) as (es1 & es2 & E1 & _ & ->). rewrite E1. eexists. reflexivity.
Qed.

Lemma mcfg_dom_prefix : forall ctor p q r, ts_image mcfg_spec ctor (p ++ q) = Some r ->
  exists r1, ts_image mcfg_spec ctor p = Some r1 /\ (length r1 <= length r)%nat.
Proof.
  intros ctor p q r H.
  assert (exists r1, ts_image mcfg_spec ctor p = Some r1) as [r1 H1];
    [|exists r1; split; [exact H1|exact (mcfg_len_mono ctor p q r r1 H H1)]].
  revert H. cbn [ts_image mcfg_spec]. unfold mcfg_image, mcfg_entries_ref. intros H. ctor_shape H. cbv beta match.
  destruct (sx_hdr_args _ _ _) as [h|]; [|discriminate H].
  destruct (opt_concat (map mcfg_entry_ref (p ++ q))) as [es|] eqn:E; [|discriminate H].
  destruct (opt_concat_app _ p q es E) as (es1 & es2 & E1 & _ & ->). rewrite E1. eexists. reflexivity.
Qed.

Lemma srat_dom_prefix : forall ctor p q r, ts_image srat_spec ctor (p ++ q) = Some r ->
  exists r1, ts_image srat_spec ctor p = Some r1 /\ (length r1 <= length r)%nat.
Proof.
  intros ctor p q r H.
  assert (exists r1, ts_image srat_spec ctor p = Some r1) as [r1 H1];
    [|exists r1; split; [exact H1|exact (srat_len_mono ctor p q r r1 H H1)]].
  revert H. cbn [ts_image srat_spec]. unfold srat_image, srat_entries_ref. intros H. ctor_shape H. cbv beta match.
  destruct (sx_hdr_args _ _ _) as [h|]; [|discriminate H].
  destruct (opt_concat (map srat_entry_ref (p ++ q))) as [es|] eqn:E; [|discriminate H].
  destruct (opt_concat_app _ p q es E) as (es1 & es2 & E1 & _ & ->). rewrite E1. eexists. reflexivity.
Qed.

Lemma hmat_dom_prefix : forall ctor p q r, ts_image hmat_spec ctor (p ++ q) = Some r ->
  exists r1, ts_image hmat_spec ctor p = Some r1 /\ (length r1 <= length r)%nat.
Proof.
  intros ctor p q r H.
  assert (exists r1, ts_image hmat_spec ctor p = Some r1) as [r1 H1];
    [|exists r1; split; [exact H1|exact (hmat_len_mono ctor p q r r1 H H1)]].
  revert H. cbn [ts_image hmat_spec]. unfold hmat_image, hmat_entries_ref. intros H. ctor_shape H. cbv beta match.
  destruct (sx_hdr_args _ _ _) as [h|]; [|discriminate H].
  destruct (opt_concat (map hmat_entry_ref (p ++ q))) as [es|] eqn:E; [|discriminate H].
  destruct (opt_concat_app _ p q es E) as (es1 & es2 & E1 & _ & ->). rewrite E1. eexists. reflexivity.
Qed.

Lemma cedt_dom_prefix : forall ctor p q r, ts_image cedt_spec ctor (p ++ q) = Some r ->
  exists r1, ts_image cedt_spec ctor p = Some r1 /\ (length r1 <= length r)%nat.
Proof.
  intros ctor p q r H.
  assert (exists r1, ts_image cedt_spec ctor p = Some r1) as [r1 H1];
    [|exists r1; split; [exact H1|exact (cedt_len_mono ctor p q r r1 H H1)]].
  revert H. cbn [ts_image cedt_spec]. unfold cedt_image, cedt_entries_ref. rewrite !sp_all_sfold. intros H.
  ctor_shape H. cbv beta match.
  destruct (sx_hdr_args _ _ _) as [h|]; [|discriminate H].
  destruct (sfold _ _ (p ++ q) _ _) as [es|] eqn:E; [|discriminate H].
  destruct (sfold_app _ _ p q _ _ es E) as (es1 & es2 & E1 & ->). rewrite E1. eexists. reflexivity.
Qed.

Lemma madt_dom_prefix : forall ctor p q r, ts_image madt_spec ctor (p ++ q) = Some r ->
  exists r1, ts_image madt_spec ctor p = Some r1 /\ (length r1 <= length r)%nat.
Proof.
  intros ctor p q r H.
  assert (exists r1, ts_image madt_spec ctor p = Some r1) as [r1 H1];
    [|exists r1; split; [exact H1|exact (madt_len_mono ctor p q r r1 H H1)]].
  revert H. cbn [ts_image madt_spec]. unfold madt_image, madt_entries_ref. intros H.
  destruct ctor as [|[|o [|t [|r0 [|lic [|]]]]]]; try discriminate H.
  destruct (sx_hdr_args o t r0) as [h|]; [|discriminate H].
  destruct (match lic with SL [] => Some 0 | SL [SA a] => Some a | _ => None end) as [addr|]; [|discriminate H].
  destruct (Nat.ltb 1 (length (filter is_imsic_add (p ++ q)))) eqn:Eq; [discriminate H|].
  assert (Ep : Nat.ltb 1 (length (filter is_imsic_add p)) = false).
  { apply Nat.ltb_ge. apply Nat.ltb_ge in Eq. rewrite filter_app, app_length in Eq. lia. }
  rewrite Ep.
  destruct (opt_concat (map madt_entry_ref (p ++ q))) as [es|] eqn:E; [|discriminate H].
  destruct (opt_concat_app _ p q es E) as (es1 & es2 & E1 & _ & ->). rewrite E1. eexists. reflexivity.
Qed.

Definition pptt_dom_prefix := prefix_of_split pptt_spec (split_weaken pptt_spec 36 H_u8_u8 _ pptt_split_gen).
Definition rhct_dom_prefix := prefix_of_split rhct_spec (split_weaken rhct_spec 56 H_u16_u16 _ rhct_split_gen).
Definition rimt_dom_prefix := prefix_of_split rimt_spec (split_weaken rimt_spec 48 H_u8_x_u16 _ rimt_split_gen).
Definition viot_dom_prefix := prefix_of_split viot_spec (split_weaken viot_spec 48 H_u8_x_u16 _ viot_split_gen).

(* ---------- the theorems ---------- *)
Ltac split_oracle3 comp :=
  match goal with
  | |- oracle 3 _ ?c ?e = true =>
      change (c03_full_oracle comp c e && c03_extra_oracle comp c e = true);
      apply andb_true_intro; split; [|reflexivity]
  end.

Theorem xsdt_c03_coherent md ctor ops r :
  markers_ok ops = true -> ts_image xsdt_spec ctor (real_ops ops) = Some r -> N.of_nat (length r) < 2 ^ 32 ->
  oracle 3 10 (SL (ctor :: ops)) (run_case md 10 (SL (ctor :: ops))) = true.
Proof.
  intros Hm Ht Hf. split_oracle3 10.
  exact (c03_add_coherent (fun _ => xsdt_table) 10 (fun _ => True) xsdt_new (fun _ => eq_refl)
           (fun md ctor ops r H _ Hf => xsdt_refines md ctor ops r H Hf) (fun _ _ _ => I) xsdt_dom_prefix eq_refl
           (fun ctor ops r H _ => xsdt_reference_tiles ctor ops r H) xsdt_selfcheck md ctor ops r Hm I Ht Hf).
Qed.

Theorem mcfg_c03_coherent md ctor ops r :
  markers_ok ops = true -> ts_image mcfg_spec ctor (real_ops ops) = Some r -> N.of_nat (length r) < 2 ^ 32 ->
  oracle 3 11 (SL (ctor :: ops)) (run_case md 11 (SL (ctor :: ops))) = true.
Proof.
  intros Hm Ht Hf. split_oracle3 11.
  exact (c03_add_coherent (fun _ => mcfg_table) 11 (fun _ => True) mcfg_new (fun _ => eq_refl)
           (fun md ctor ops r H _ Hf => mcfg_refines md ctor ops r H Hf) (fun _ _ _ => I) mcfg_dom_prefix eq_refl
           (fun ctor ops r H _ => mcfg_reference_tiles ctor ops r H) mcfg_selfcheck md ctor ops r Hm I Ht Hf).
Qed.

Theorem madt_c03_coherent md ctor ops r :
  markers_ok ops = true -> madt_ops_wf (real_ops ops) ->
  ts_image madt_spec ctor (real_ops ops) = Some r -> N.of_nat (length r) < 2 ^ 32 ->
  oracle 3 12 (SL (ctor :: ops)) (run_case md 12 (SL (ctor :: ops))) = true.
Proof.
  intros Hm Hw Ht Hf. split_oracle3 12.
  exact (c03_add_coherent (fun _ => madt_table) 12 madt_ops_wf madt_new (fun _ => eq_refl)
           madt_refines (forall_prefix _) madt_dom_prefix eq_refl
           (fun ctor ops r H _ => madt_reference_tiles ctor ops r H) madt_selfcheck md ctor ops r Hm Hw Ht Hf).
Qed.

Theorem srat_c03_coherent md ctor ops r :
  markers_ok ops = true -> srat_ops_wf (real_ops ops) ->
  ts_image srat_spec ctor (real_ops ops) = Some r -> N.of_nat (length r) < 2 ^ 32 ->
  oracle 3 13 (SL (ctor :: ops)) (run_case md 13 (SL (ctor :: ops))) = true.
Proof.
  intros Hm Hw Ht Hf. split_oracle3 13.
  exact (c03_add_coherent (fun _ => srat_table) 13 srat_ops_wf srat_new (fun _ => eq_refl)
           srat_refines (forall_prefix _) srat_dom_prefix eq_refl
           (fun ctor ops r H _ => srat_reference_tiles ctor ops r H) srat_selfcheck md ctor ops r Hm Hw Ht Hf).
Qed.

Theorem hmat_c03_coherent md ctor ops r :
  markers_ok ops = true -> ts_image hmat_spec ctor (real_ops ops) = Some r -> N.of_nat (length r) < 2 ^ 32 ->
  oracle 3 15 (SL (ctor :: ops)) (run_case md 15 (SL (ctor :: ops))) = true.
Proof.
  intros Hm Ht Hf. split_oracle3 15.
  exact (c03_add_coherent hmat_table 15 (fun _ => True) hmat_new (fun _ => eq_refl)
           (fun md ctor ops r H _ Hf => hmat_refines md ctor ops r H Hf) (fun _ _ _ => I) hmat_dom_prefix eq_refl
           (fun ctor ops r H _ => hmat_reference_tiles ctor ops r H) hmat_selfcheck md ctor ops r Hm I Ht Hf).
Qed.

Theorem pptt_c03_coherent md ctor ops r :
  markers_ok ops = true -> ts_image pptt_spec ctor (real_ops ops) = Some r -> N.of_nat (length r) < 2 ^ 32 ->
  oracle 3 16 (SL (ctor :: ops)) (run_case md 16 (SL (ctor :: ops))) = true.
Proof.
  intros Hm Ht Hf. split_oracle3 16.
  exact (c03_add_coherent (fun _ => pptt_table) 16 (fun _ => True) pptt_new (fun _ => eq_refl)
           (fun md ctor ops r H _ Hf => pptt_refines md ctor ops r H Hf) (fun _ _ _ => I) pptt_dom_prefix eq_refl
           (fun ctor ops r H _ => PpttSelfP.pptt_reference_tiles ctor ops r H) pptt_selfcheck md ctor ops r Hm I Ht Hf).
Qed.

Theorem rhct_c03_coherent md ctor ops r :
  markers_ok ops = true -> ts_image rhct_spec ctor (real_ops ops) = Some r -> N.of_nat (length r) < 2 ^ 32 ->
  oracle 3 17 (SL (ctor :: ops)) (run_case md 17 (SL (ctor :: ops))) = true.
Proof.
  intros Hm Ht Hf. split_oracle3 17.
  exact (c03_add_coherent (fun _ => rhct_table) 17 (fun _ => True) rhct_new (fun _ => eq_refl)
           (fun md ctor ops r H _ Hf => rhct_refines md ctor ops r H Hf) (fun _ _ _ => I) rhct_dom_prefix eq_refl
           (fun ctor ops r H _ => rhct_reference_tiles ctor ops r H) rhct_selfcheck md ctor ops r Hm I Ht Hf).
Qed.

Theorem rimt_c03_coherent md ctor ops r :
  markers_ok ops = true -> ts_image rimt_spec ctor (real_ops ops) = Some r -> N.of_nat (length r) < 2 ^ 32 ->
  oracle 3 18 (SL (ctor :: ops)) (run_case md 18 (SL (ctor :: ops))) = true.
Proof.
  intros Hm Ht Hf. split_oracle3 18.
  exact (c03_add_coherent (fun _ => rimt_table) 18 (fun _ => True) rimt_new (fun _ => eq_refl)
           (fun md ctor ops r H _ Hf => rimt_refines md ctor ops r H Hf) (fun _ _ _ => I) rimt_dom_prefix eq_refl
           rimt_reference_tiles rimt_selfcheck md ctor ops r Hm I Ht Hf).
Qed.

Theorem viot_c03_coherent md ctor ops r :
  markers_ok ops = true -> ts_image viot_spec ctor (real_ops ops) = Some r ->
  oracle 3 19 (SL (ctor :: ops)) (run_case md 19 (SL (ctor :: ops))) = true.
Proof.
  intros Hm Ht. split_oracle3 19.
  exact (c03_add_coherent (fun _ => viot_table) 19 (fun _ => True) viot_new (fun _ => eq_refl)
           (fun md ctor ops r H _ _ => viot_refines md ctor ops r H) (fun _ _ _ => I) viot_dom_prefix eq_refl
           (fun ctor ops r H _ => viot_reference_tiles ctor ops r H) viot_selfcheck md ctor ops r Hm I Ht
           (viot_fits _ _ _ Ht)).
Qed.

Theorem cedt_c03_coherent md ctor ops r :
  markers_ok ops = true -> ts_image cedt_spec ctor (real_ops ops) = Some r -> N.of_nat (length r) < 2 ^ 32 ->
  oracle 3 20 (SL (ctor :: ops)) (run_case md 20 (SL (ctor :: ops))) = true.
Proof.
  intros Hm Ht Hf. split_oracle3 20.
  exact (c03_add_coherent (fun _ => cedt_table) 20 (fun _ => True) cedt_new (fun _ => eq_refl)
           (fun md ctor ops r H _ Hf => cedt_refines md ctor ops r H Hf) (fun _ _ _ => I) cedt_dom_prefix eq_refl
           (fun ctor ops r H _ => cedt_reference_tiles ctor ops r H) cedt_selfcheck md ctor ops r Hm I Ht Hf).
Qed.

(* ---------- HEST: histories of additions (no stand-alone structures), as in hest_coherent ---------- *)
Theorem hest_c03_coherent md ctor ops r :
  markers_ok ops = true -> forallb (fun o => negb (is_alone_op o)) (real_ops ops) = true ->
  ts_image hest_spec ctor (real_ops ops) = Some r -> N.of_nat (length r) < 2 ^ 32 ->
  oracle 3 21 (SL (ctor :: ops)) (run_case md 21 (SL (ctor :: ops))) = true.
Proof.
  intros Hm Hna Ht Hf. split_oracle3 21. rewrite c03_full_oracle_eq.
  apply (walk_coherent hest_spec hest_state_new hest_step Impl.Hest.hest_image hest_no_alone fits32 hest_step_one) with (r := r);
    try assumption.
  - intros md' c p r1 H Hw Hf1. destruct (hest_table_refines md' c p r1 H Hw Hf1) as (t0 & s & Hn & Hr & Hi).
    exists {| hs_tbl := t0; hs_alone := None |}, s. unfold hest_state_new. rewrite Hn, <- hest_run_steps. auto.
  - exact no_alone_prefix.
  - exact hest_dom_closed.
  - intros c p r1 H Hw _. unfold c03_obs_judge. rewrite (no_alone_shows p Hw).
    change (spec_of 21) with hest_spec. rewrite (hest_reference_tiles c p r1 H), (hest_selfcheck c p r1 H (no_alone_shows p Hw)).
    reflexivity.
  - intros. reflexivity.
Qed.

(* ---------- RQSC: the generic walk over the controllers (c03_full_oracle) and the nested walk (c03_extra_oracle) ---------- *)
Definition rqsc_extra_judge (_ : sx) (img : list N) (prefix : list sx) : bool := rqsc_nested_judge img prefix.

Lemma rqsc_walk_refinement : forall md ctor p r, ts_image rqsc_spec ctor p = Some r -> True -> fits32 r ->
  exists s0 s, rqsc_new ctor = Some s0 /\ run_steps (rqsc_step md) s0 p = Some s /\ (fun s => Some (Impl.Rqsc.rqsc_image s)) s = Some r.
Proof.
  intros md c p r1 H _ Hf1. destruct (rqsc_refines md c p r1 H Hf1) as (s0 & s & Hn & Hr & Hi).
  exists s0, s. rewrite Hi, <- rqsc_run_steps. auto.
Qed.

Theorem rqsc_c03_coherent md ctor ops r :
  markers_ok ops = true -> ts_image rqsc_spec ctor (real_ops ops) = Some r -> N.of_nat (length r) < 2 ^ 32 ->
  oracle 3 22 (SL (ctor :: ops)) (run_case md 22 (SL (ctor :: ops))) = true.
Proof.
  intros Hm Ht Hf.
  change (c03_full_oracle 22 (SL (ctor :: ops)) (run_case md 22 (SL (ctor :: ops)))
          && judge_history (fun _ => false) (rqsc_extra_judge ctor) no_handles [] ops (run_case md 22 (SL (ctor :: ops))) [] = true).
  apply andb_true_intro; split.
  - rewrite c03_full_oracle_eq.
    apply (walk_coherent rqsc_spec rqsc_new rqsc_step (fun s => Some (Impl.Rqsc.rqsc_image s)) (fun _ => True) fits32
             rqsc_step_one rqsc_walk_refinement) with (r := r); try assumption; try exact I.
    + intros; exact I.
    + intros c p q r1 H _ Hf1. exact (rqsc_dom_closed c p q r1 H Hf1).
    + intros c p r1 H _ _. unfold c03_obs_judge. change (spec_of 22) with rqsc_spec.
      rewrite (rqsc_reference_tiles c p r1 H), (rqsc_selfcheck c p r1 H). reflexivity.
    + intros. reflexivity.
  - apply (walk_coherent rqsc_spec rqsc_new rqsc_step (fun s => Some (Impl.Rqsc.rqsc_image s)) (fun _ => True) fits32
             rqsc_step_one rqsc_walk_refinement) with (r := r); try assumption; try exact I.
    + intros; exact I.
    + intros c p q r1 H _ Hf1. exact (rqsc_dom_closed c p q r1 H Hf1).
    + intros c p r1 H _ Hf1. destruct (rqsc_refines md c p r1 H Hf1) as (s0 & s & Hn & Hr & <-).
      exact (rqsc_nested_judge_model md c p s0 s Hn Hr).
    + intros. reflexivity.
Qed.

(* ---------- SLIT: no walker (c03_full_oracle judges nothing); the count-and-matrix shape (c03_extra_oracle) ---------- *)
Definition slit_extra_judge (ctor : sx) (img : list N) (_ : list sx) : bool := slit_shape_judge ctor img.

Lemma slit_walk_refinement : forall md ctor p r, ts_image slit_spec ctor p = Some r -> True -> True ->
  exists s0 s, slit_new ctor = Some s0 /\ run_steps (slit_step md) s0 p = Some s /\ (fun s => Some (Impl.Slit.slit_image s)) s = Some r.
Proof.
  intros md c p r1 H _ _. destruct (slit_refines md c p r1 H) as (s0 & s & Hn & Hr & Hi).
  exists s0, s. rewrite Hi. auto.
Qed.

Theorem slit_c03_coherent md ctor ops r :
  markers_ok ops = true -> ts_image slit_spec ctor (real_ops ops) = Some r ->
  oracle 3 14 (SL (ctor :: ops)) (run_case md 14 (SL (ctor :: ops))) = true.
Proof.
  intros Hm Ht.
  change (c03_full_oracle 14 (SL (ctor :: ops)) (run_case md 14 (SL (ctor :: ops)))
          && judge_history (fun _ => false) (slit_extra_judge ctor) no_handles [] ops (run_case md 14 (SL (ctor :: ops))) [] = true).
  apply andb_true_intro; split.
  - rewrite c03_full_oracle_eq.
    apply (walk_coherent slit_spec slit_new slit_step (fun s => Some (Impl.Slit.slit_image s)) (fun _ => True) (fun _ => True)
             slit_step_one slit_walk_refinement) with (r := r); try assumption; try exact I.
    + intros; exact I.
    + intros c p q r1 H _ _. destruct (slit_dom_closed c p q r1 H) as [r2 H2]. exists r2. auto.
    + intros. reflexivity.
    + intros. reflexivity.
  - apply (walk_coherent slit_spec slit_new slit_step (fun s => Some (Impl.Slit.slit_image s)) (fun _ => True) (fun _ => True)
             slit_step_one slit_walk_refinement) with (r := r); try assumption; try exact I.
    + intros; exact I.
    + intros c p q r1 H _ _. destruct (slit_dom_closed c p q r1 H) as [r2 H2]. exists r2. auto.
    + intros c p r1 H _ _. destruct (slit_refines md c p r1 H) as (s0 & s & Hn & Hr & <-).
      destruct (slit_domain _ _ _ H) as (o & t & r0 & n & h & -> & _).
      exact (slit_shape_judge_model md o t r0 n p s0 s Hn Hr).
    + intros. reflexivity.
Qed.
