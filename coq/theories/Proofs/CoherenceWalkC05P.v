(* Coherence of the C05 oracle (Spec/Layout.v, c05_oracle) for the four handle-returning tables PPTT 16, RHCT 17, RIMT 18, VIOT 19:
   on every well-formed case whose history is in the Spec's domain the oracle ACCEPTS the model's own observation stream --
   every observed image is the reference image (the C04 part) and EVERY handle the model has returned so far is, in EVERY
   later observed image, the offset at which the Spec walker finds the entry of the operation that returned it.
   Built from Proofs/CoherenceWalkP.v (walk_coherent, pend_in) and the <t>_model_handles theorems of Proofs/HandleModelP.v
   (Props/C05.v), applied at every observed prefix: the domain of these four Specs is closed under prefixes (<t>_split_gen). *)
From Coq Require Import NArith List Bool Lia Arith.
From ACPI Require Import Lib.Bytes Lib.Sx Lib.Machine Impl.Table Impl.Run Impl.Pptt Impl.Rhct Impl.Rimt Impl.Viot
  Spec.Layout Spec.MadtS Spec.PpttS Spec.RhctS Spec.RimtS Spec.ViotS
  Proofs.FixedP Proofs.TableP Proofs.Tables Proofs.PpttP Proofs.RhctP Proofs.RimtP Proofs.ViotP
  Proofs.PpttRefP Proofs.RhctRefP Proofs.RimtRefP Proofs.ViotRefP Proofs.HandleModelP
  Judge Proofs.CoherenceTablesP Proofs.CoherenceFixedP Proofs.CoherenceAddP Proofs.CoherenceWalkP.
Import ListNotations.
Open Scope N_scope.

Definition fits_u32 (r : list N) : Prop := N.of_nat (length r) < 2 ^ 32.
Definition any_ops (_ : list sx) : Prop := True.

Section HandleTable.
  Variable T : addtable.
  Variable spec : tspec.
  Variable first : nat.
  Variable eh : ehdr.
  Hypothesis Hwalk : ts_walk spec = Some (first, eh).
  Hypothesis Href : forall md ctor ops r, ts_image spec ctor ops = Some r -> N.of_nat (length r) < 2 ^ 32 ->
    exists s0 s, at_new T ctor = Some s0 /\ run_adds (at_entry T) md s0 ops = Some s /\ tbl_image s = r.
  Hypothesis Hsplit : forall ctor pre o post r, ts_image spec ctor (pre ++ o :: post) = Some r ->
    exists r1, ts_image spec ctor pre = Some r1 /\ (length r1 <= length r)%nat.
  Hypothesis Hhandles : forall md ctor pre o post r,
    ts_image spec ctor (pre ++ o :: post) = Some r -> N.of_nat (length r) < 2 ^ 32 ->
    exists s0 s s1 s' h found,
      at_new T ctor = Some s0 /\ run_adds (at_entry T) md s0 pre = Some s /\
      add_step (at_entry T) md s o = Some (s1, [EvNum h]) /\ run_adds (at_entry T) md s1 post = Some s' /\
      tbl_image s' = r /\
      walk (S (length (tbl_image s'))) eh first (skipn first (tbl_image s')) = Some found /\
      length found = length (pre ++ o :: post) /\
      exists ty off len, nth_error found (length pre) = Some (ty, off, len) /\
        h = if ts_returns spec o then N.of_nat off else 0.

  Let image (s : tbl) : option (list N) := Some (tbl_image s).
  Let step (md : mode) := add_step (at_entry T) md.

  Lemma h_refinement : forall md ctor p r, ts_image spec ctor p = Some r -> any_ops p -> fits_u32 r ->
    exists s0 s, at_new T ctor = Some s0 /\ run_steps (step md) s0 p = Some s /\ image s = Some r.
  Proof.
    intros md ctor p r Ht _ Hf. destruct (Href md ctor p r Ht Hf) as (s0 & s & Hn & Hr & Hi).
    exists s0, s. unfold image, step. rewrite <- run_adds_steps, Hi. auto.
  Qed.

  Lemma h_dom_closed : forall ctor p q r, ts_image spec ctor (p ++ q) = Some r -> any_ops (p ++ q) -> fits_u32 r ->
    exists r1, ts_image spec ctor p = Some r1 /\ fits_u32 r1.
  Proof.
    intros ctor p [|o post] r Ht _ Hf.
    - rewrite app_nil_r in Ht. exists r. auto.
    - destruct (Hsplit ctor p o post r Ht) as (r1 & Ht1 & Hle). exists r1. split; [exact Ht1|]. unfold fits_u32 in *. lia.
  Qed.

  Definition c04_judge (ctor : sx) (img : list N) (prefix : list sx) : bool :=
    match ts_image spec ctor prefix with Some r => list_N_eqb img r | None => true end.

  Lemma h_ref_judge : forall ctor p r, ts_image spec ctor p = Some r -> any_ops p -> fits_u32 r -> c04_judge ctor r p = true.
  Proof. intros ctor p r Ht _ _. unfold c04_judge. rewrite Ht. now apply list_N_eqb_eq. Qed.

  (* the heart: every handle the model returned along the history p is the offset of its entry in p's reference image *)
  Lemma h_ref_handles : forall md ctor p r s0 s1,
    ts_image spec ctor p = Some r -> any_ops p -> fits_u32 r -> all_lists p ->
    at_new T ctor = Some s0 -> run_steps (step md) s0 p = Some s1 -> image s1 = Some r ->
    c05_handles_ok spec r (pend (step md) (ts_returns spec) s0 0 p []) = true.
  Proof.
    intros md ctor p r s0 s1 Ht _ Hf Hl Hn Hs Hi.
    assert (Hx : forall h k, In (h, k) (pend (step md) (ts_returns spec) s0 0 p []) ->
              exists found ty off len, walk (S (length r)) eh first (skipn first r) = Some found /\
                                       nth_error found k = Some (ty, off, len) /\ N.of_nat off = h).
    { intros h k Hin.
      destruct (pend_in (step md) (add_step_one _ md) (ts_returns spec) p s0 0%nat [] h k Hl Hin)
        as [[]|(pre & o & post & sk & sk1 & -> & -> & Hr & Hst & Hret)].
      destruct (Hhandles md ctor pre o post r Ht Hf)
        as (s0' & s' & s1' & sf' & h' & found & Hn' & Hrp & Hst' & _ & Himg & Hw & _ & ty & off & len & Hnth & Hh).
      rewrite Hn in Hn'. inversion Hn'; subst s0'.
      rewrite run_adds_steps in Hrp. fold (step md) in Hrp. rewrite Hr in Hrp. inversion Hrp; subst s'.
      fold (step md) in Hst'. rewrite Hst in Hst'. inversion Hst'; subst s1' h'.
      rewrite Himg in Hw. exists found, ty, off, len. split; [exact Hw|]. split; [exact Hnth|].
      rewrite Hret. reflexivity. }
    unfold c05_handles_ok.
    destruct (pend (step md) (ts_returns spec) s0 0 p []) as [|[h0 k0] L]; [reflexivity|].
    rewrite Hwalk.
    destruct (Hx h0 k0 (or_introl eq_refl)) as (found & _ & _ & _ & Hw & _). rewrite Hw.
    apply forallb_forall. intros [h k] Hin.
    destruct (Hx h k Hin) as (found' & ty & off & len & Hw' & Hnth & Hh).
    rewrite Hw in Hw'. inversion Hw'; subst found'. cbn [fst snd]. rewrite Hnth. apply N.eqb_eq. exact Hh.
  Qed.

  Theorem c05_coherent md ctor ops r :
    markers_ok ops = true -> ts_image spec ctor (real_ops ops) = Some r -> N.of_nat (length r) < 2 ^ 32 ->
    let c := SL (ctor :: ops) in
    c05_oracle spec c (run_history (fun s => Some (tbl_image s)) (add_step (at_entry T) md) (at_new T) c) = true.
  Proof.
    intros Hm Ht Hf c. unfold c05_oracle, c, case_parts.
    exact (walk_coherent spec (at_new T) step image any_ops fits_u32 (add_step_one _) h_refinement (fun _ _ _ => I) h_dom_closed
             (ts_returns spec) c04_judge (c05_handles_ok spec) h_ref_judge h_ref_handles md ctor ops r Hm I Ht Hf).
  Qed.
End HandleTable.

Lemma split_weaken (spec : tspec) (first : nat) (eh : ehdr) (tyf : list N -> N) :
  (forall ctor pre o post r, ts_image spec ctor (pre ++ o :: post) = Some r ->
    exists es1 e tail r1,
      (exists l, o = SL l) /\ length es1 = length pre /\ length tail = length post /\
      skipn first r = concat (es1 ++ e :: tail) /\
      Forall (fun x => Proofs.WalkP.self_describing eh x (tyf x)) (es1 ++ e :: tail) /\
      ts_image spec ctor pre = Some r1 /\ length r1 = (first + length (concat es1))%nat /\ (length r1 <= length r)%nat) ->
  forall ctor pre o post r, ts_image spec ctor (pre ++ o :: post) = Some r ->
    exists r1, ts_image spec ctor pre = Some r1 /\ (length r1 <= length r)%nat.
Proof.
  intros H ctor pre o post r Ht.
  destruct (H ctor pre o post r Ht) as (es1 & e & tail & r1 & _ & _ & _ & _ & _ & Ht1 & _ & Hle). exists r1. auto.
Qed.

Theorem pptt_c05_coherent md ctor ops r :
  markers_ok ops = true -> ts_image pptt_spec ctor (real_ops ops) = Some r -> N.of_nat (length r) < 2 ^ 32 ->
  oracle 5 16 (SL (ctor :: ops)) (run_case md 16 (SL (ctor :: ops))) = true.
Proof.
  exact (c05_coherent pptt_table pptt_spec 36 H_u8_u8 eq_refl pptt_refines
           (split_weaken pptt_spec 36 H_u8_u8 _ pptt_split_gen) pptt_model_handles md ctor ops r).
Qed.

Theorem rhct_c05_coherent md ctor ops r :
  markers_ok ops = true -> ts_image rhct_spec ctor (real_ops ops) = Some r -> N.of_nat (length r) < 2 ^ 32 ->
  oracle 5 17 (SL (ctor :: ops)) (run_case md 17 (SL (ctor :: ops))) = true.
Proof.
  exact (c05_coherent rhct_table rhct_spec 56 H_u16_u16 eq_refl rhct_refines
           (split_weaken rhct_spec 56 H_u16_u16 _ rhct_split_gen) rhct_model_handles md ctor ops r).
Qed.

Theorem rimt_c05_coherent md ctor ops r :
  markers_ok ops = true -> ts_image rimt_spec ctor (real_ops ops) = Some r -> N.of_nat (length r) < 2 ^ 32 ->
  oracle 5 18 (SL (ctor :: ops)) (run_case md 18 (SL (ctor :: ops))) = true.
Proof.
  exact (c05_coherent rimt_table rimt_spec 48 H_u8_x_u16 eq_refl rimt_refines
           (split_weaken rimt_spec 48 H_u8_x_u16 _ rimt_split_gen) rimt_model_handles md ctor ops r).
Qed.

(* VIOT: the Spec's domain bounds the table by 2^16 bytes, no size hypothesis *)
Theorem viot_c05_coherent md ctor ops r :
  markers_ok ops = true -> ts_image viot_spec ctor (real_ops ops) = Some r ->
  oracle 5 19 (SL (ctor :: ops)) (run_case md 19 (SL (ctor :: ops))) = true.
Proof.
  intros Hm Ht.
  exact (c05_coherent viot_table viot_spec 48 H_u8_x_u16 eq_refl viot_refines32
           (split_weaken viot_spec 48 H_u8_x_u16 _ viot_split_gen)
           (fun md ctor pre o post r H _ => viot_model_handles md ctor pre o post r H) md ctor ops r Hm Ht
           (viot_image_small _ _ _ Ht)).
Qed.


