(* VIOT, C03 as a theorem: for every history in the domain of Spec/ViotS.v the reference image is exactly tiled by the nodes
   that were added (walk from offset 48 by each node's own 16-bit length field at its bytes 2..3), the node count (offset 36)
   is the number of nodes and the node offset (offset 38) is 48; by the refinement theorem the same holds of the image the
   Impl model emits. *)
From Coq Require Import NArith ZArith List Lia Bool Arith.
From ACPI Require Import Lib.Bytes Lib.Sx Lib.Machine Impl.Checksum Impl.Table Impl.Fields Impl.Run Impl.Madt Impl.Viot
  Spec.Layout Spec.RimtS Spec.ViotS
  Proofs.ChecksumP Proofs.TableP Proofs.MadtP Proofs.Tables Proofs.RimtP Proofs.ViotP Proofs.RefTableCommonP Proofs.SpRefP
  Proofs.WalkP Proofs.WalkRefCommon2P Proofs.ViotRefP.
Import ListNotations.

Ltac Zify.zify_post_hook ::= Z.to_euclidean_division_equations.

Open Scope N_scope.

Definition viot_ty (e : list N) : N := nth 0 e 0.

(* ---------- every reference node describes itself: its bytes 2..3 hold its own size ---------- *)
Lemma viot_entry_self n rs o e : viot_entry_ref n rs o = Some e -> self_describing H_u8_x_u16 e (viot_ty e).
Proof.
  intros H. unfold viot_entry_ref in H.
  destruct o as [|l]; [discriminate H|]. destruct l as [|[op|] l]; try discriminate H.
  destruct op as [|op]; try discriminate H.
  repeat (destruct op as [op|op|]; try discriminate H).
  - (* 3: virtio-pci IOMMU *)
    destruct l as [|dev [|]]; try discriminate H.
    destruct (viot_pci_ref dev) as [d|]; [|discriminate H].
    destruct (lay_decodes _ _ _ H) as [Hlen Hf].
    apply sd_u8_x_u16_of_fields; [lia|]. rewrite Hlen. apply (Hf 2%nat 2%nat 16). cbn [In L]. tauto.
  - (* 4: virtio-mmio IOMMU *)
    destruct l as [|[base|] [|]]; try discriminate H.
    destruct (lay_decodes _ _ _ H) as [Hlen Hf].
    apply sd_u8_x_u16_of_fields; [lia|]. rewrite Hlen. apply (Hf 2%nat 2%nat 16). cbn [In L]. tauto.
  - (* 2: MMIO endpoint *)
    destruct l as [|[ep|] [|[base|] [|href [|]]]]; try discriminate H.
    destruct (viot_out_ref n rs href) as [out|]; [|discriminate H].
    destruct (lay_decodes _ _ _ H) as [Hlen Hf].
    apply sd_u8_x_u16_of_fields; [lia|]. rewrite Hlen. apply (Hf 2%nat 2%nat 24). cbn [In L]. tauto.
  - (* 1: PCI range *)
    destruct l as [|first [|last [|href [|]]]]; try discriminate H.
    destruct (viot_pci_ref first) as [f|]; [|discriminate H].
    destruct (viot_pci_ref last) as [la|]; [|discriminate H].
    destruct (viot_out_ref n rs href) as [out|]; [|discriminate H].
    destruct (lay_decodes _ _ _ H) as [Hlen Hf].
    apply sd_u8_x_u16_of_fields; [lia|]. rewrite Hlen. apply (Hf 2%nat 2%nat 24). cbn [In L]. tauto.
Qed.

(* ---------- the shape of the reference image ---------- *)
Lemma viot_image_shape ctor ops r : ts_image viot_spec ctor ops = Some r ->
  exists ha es,
    viot_entries_ref ops = Some es /\ sp_entries viot_entry_ref ops 48 0 [] [] = Some es /\
    48 + N.of_nat (length (concat es)) < 2 ^ 16 /\
    length (ha_oem ha) = 6%nat /\ length (ha_tbl ha) = 8%nat /\
    r = ref_table [86; 73; 79; 84] 1 ha ((le 2 (N.of_nat (length es)) ++ le 2 48 ++ le 8 0) ++ concat es).
Proof.
  intros H. cbn [ts_image viot_spec] in H. unfold viot_image in H.
  destruct ctor as [|l]; [discriminate H|].
  destruct l as [|o [|t [|rr [|]]]]; try discriminate H.
  destruct (sx_hdr_args o t rr) as [ha|] eqn:Eha; [|discriminate H].
  destruct (viot_entries_ref ops) as [es|] eqn:Ees; [|discriminate H].
  apply wr_Some_inj in H. subst r.
  destruct (sx_hdr_args_len _ _ _ _ Eha) as [Ho Ht].
  exists ha, es. split; [reflexivity|].
  unfold viot_entries_ref in Ees.
  destruct (sp_entries viot_entry_ref ops 48 0 [] []) as [es'|] eqn:Ees'; [|discriminate Ees].
  destruct (N.ltb_spec (48 + N.of_nat (length (concat es'))) (2 ^ 16)) as [Hsmall|]; [|discriminate Ees].
  apply wr_Some_inj in Ees. subst es'.
  split; [reflexivity|]. split; [exact Hsmall|]. split; [exact Ho|]. split; [exact Ht|].
  rewrite <- !app_assoc. reflexivity.
Qed.

(* ---------- (1) the reference image is exactly tiled, and its count fields hold ---------- *)
Theorem viot_reference_tiles : forall ctor ops r,
  ts_image viot_spec ctor ops = Some r -> c03_judge viot_spec ctor r ops = true.
Proof.
  intros ctor ops r H.
  destruct (viot_image_shape ctor ops r H) as (ha & es & Ees & Esp & Hsmall & Ho & Ht & ->).
  assert (HF : Forall (fun e => self_describing H_u8_x_u16 e (viot_ty e)) es).
  { apply (sp_entries_forall viot_entry_ref _ viot_entry_self ops _ _ _ _ es Esp). constructor. }
  apply (c03_judge_of_tyf viot_spec ctor ops _ 48%nat H_u8_x_u16 viot_ty es).
  - reflexivity.
  - cbn [ts_entries viot_spec]. rewrite Ees. reflexivity.
  - apply skipn_ref_table; [reflexivity|exact Ho|exact Ht|]. rewrite !app_length, !length_le. reflexivity.
  - exact HF.
  - assert (Hc : N.of_nat (length es) < 2 ^ 16).
    { assert (Hn : (length es <= length (concat es))%nat).
      { apply concat_length_ge_pos. eapply Forall_impl; [|exact HF]. intros e [Hp _]. exact Hp. }
      change (2 ^ 16) with 65536 in *. lia. }
    cbn [ts_counts viot_spec forallb]. rewrite andb_true_r.
    rewrite <- !app_assoc.
    rewrite (field_at_ref_table [86; 73; 79; 84] 1 ha _ 0%nat 2%nat eq_refl Ho Ht).
    rewrite (field_at_ref_table [86; 73; 79; 84] 1 ha _ 2%nat 2%nat eq_refl Ho Ht).
    rewrite field_at_le_app.
    rewrite (field_at_skip (le 2 (N.of_nat (length es))) _ 2%nat 2%nat (length_le _ _)), field_at_le_app.
    change (2 ^ (8 * N.of_nat 2)) with (2 ^ 16). rewrite N.mod_small by exact Hc. rewrite N.eqb_refl. reflexivity.
Qed.

(* ---------- (2) the image the Impl model emits is exactly tiled ---------- *)
Corollary viot_model_tiles : forall md ctor ops r,
  ts_image viot_spec ctor ops = Some r ->
  exists s0 s, viot_new ctor = Some s0 /\
               run_adds viot_addition md s0 ops = Some s /\
               c03_judge viot_spec ctor (tbl_image s) ops = true.
Proof.
  intros md ctor ops r H.
  destruct (viot_refines md ctor ops r H) as (s0 & s & Hn & Hr & Hi).
  exists s0, s. split; [exact Hn|]. split; [exact Hr|]. rewrite Hi. exact (viot_reference_tiles ctor ops r H).
Qed.

(* ---------- (3) C05 on the reference image: the Spec's handles are the offsets the walk finds ---------- *)
(* [sp_final viot_entry_ref pre 48 0 []] is the Spec's bookkeeping (number of nodes, their (start, type) most recent first)
   after the operations [pre], i.e. what the next operation's references (104 k) are looked up in ([sp_lookup]).  A reference
   looked up after any prefix of a history names, in the reference image of the whole history, the offset at which the walk
   finds the node added by operation k, with the type recorded for it; every node is reachable through its handle. *)
Theorem viot_reference_handles : forall ctor pre post r,
  ts_image viot_spec ctor (pre ++ post) = Some r ->
  exists n rs found,
    sp_final viot_entry_ref pre 48 0 [] = Some (n, rs) /\ n = length pre /\
    walk (S (length r)) H_u8_x_u16 48 (skipn 48 r) = Some found /\
    length found = length (pre ++ post) /\
    (forall k o ty, sp_lookup n rs (SL [SA 104; SA k]) = Some (o, ty) ->
       exists off len, nth_error found (N.to_nat k) = Some (ty, off, len) /\ N.of_nat off = o) /\
    (forall k, (k < length pre)%nat ->
       exists ty off len, nth_error found k = Some (ty, off, len) /\
                          sp_lookup n rs (SL [SA 104; SA (N.of_nat k)]) = Some (N.of_nat off, ty)).
Proof.
  intros ctor pre post r H.
  destruct (viot_image_shape ctor _ r H) as (ha & es & Ees & Esp & Hsmall & Ho & Ht & ->).
  apply (sp_reference_handles viot_entry_ref H_u8_x_u16 viot_entry_self _ 48%nat pre post es Esp).
  apply skipn_ref_table; [reflexivity|exact Ho|exact Ht|]. rewrite !app_length, !length_le. reflexivity.
Qed.

Corollary viot_reference_handles_ok : forall ctor ops r n rs pending,
  ts_image viot_spec ctor ops = Some r -> sp_final viot_entry_ref ops 48 0 [] = Some (n, rs) ->
  (forall hk, In hk pending -> exists ty, sp_lookup n rs (SL [SA 104; SA (N.of_nat (snd hk))]) = Some (fst hk, ty)) ->
  c05_handles_ok viot_spec r pending = true.
Proof.
  intros ctor ops r n rs pending H Hp Hpend.
  destruct (viot_image_shape ctor _ r H) as (ha & es & Ees & Esp & Hsmall & Ho & Ht & ->).
  apply (sp_reference_handles_ok viot_entry_ref H_u8_x_u16 viot_entry_self viot_spec _ 48%nat ops es n rs pending eq_refl Esp);
    [|exact Hp|exact Hpend].
  apply skipn_ref_table; [reflexivity|exact Ho|exact Ht|]. rewrite !app_length, !length_le. reflexivity.
Qed.

Print Assumptions viot_reference_tiles.
Print Assumptions viot_model_tiles.
Print Assumptions viot_reference_handles.
Print Assumptions viot_reference_handles_ok.
