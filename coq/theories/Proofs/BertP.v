(* BERT: checksum and length of the emitted table, for every constructor argument (C01, C02). *)
From Coq Require Import NArith ZArith List Lia Bool Arith.
From ACPI Require Import Lib.Bytes Lib.Sx Lib.Machine Impl.Checksum Impl.Table Impl.Fields Impl.Run Impl.Madt Impl.Bert
  Spec.Layout Proofs.ChecksumP Proofs.TableP Proofs.MadtP Proofs.FixedP.
Import ListNotations.
Open Scope N_scope.

Definition bert_good (b : bert) : Prop :=
  sum8 (bert_bytes b) = 0 /\ field_at (bert_bytes b) 4 4 = N.of_nat (length (bert_bytes b)).

Lemma bert_new_good c b : bert_new c = Some b -> bert_good b.
Proof.
  unfold bert_new.
  repeat match goal with |- (match ?x with _ => _ end) = Some _ -> _ => destruct x; try discriminate end.
  match goal with |- (do h <- ?X; _) = _ -> _ => destruct X as [h|] eqn:Eh; [|discriminate] end.
  cbn [option_bind]. intros H. inversion H; subst; clear H.
  assert (Hh : hdr_ok h = true) by (eapply sx_hdr_ok; [|exact Eh]; reflexivity).
  unfold bert_good, bert_bytes. cbn [be_hdr be_len be_cks be_rlen be_rbase].
  change (36 + 12) with 48. split.
  - apply hdr_sum8_zero.
    + apply ck_append_lt. lia.
    + rewrite ck_append_Z, zsum_app. reflexivity.
  - rewrite hdr_len_field by (exact Hh || reflexivity).
    rewrite hdr_image_length by exact Hh. unfold d4, q8. rewrite app_length, !length_le. reflexivity.
Qed.

(* every constructor argument, every sequence of operations the model accepts (there is no mutating operation) *)
Theorem bert_sum_len md c ops s0 s :
  bert_new c = Some s0 -> run_steps (bert_step md) s0 ops = Some s ->
  sum8 (bert_bytes s) = 0 /\ field_at (bert_bytes s) 4 4 = N.of_nat (length (bert_bytes s)).
Proof.
  intros Hn Hr. apply (run_steps_inv (bert_step md) bert_good) with (ops := ops) (s := s0); [|eapply bert_new_good; eauto|exact Hr].
  intros x o x' e _ H. discriminate H.
Qed.
