(* C06 support: the two constructors whose payload is not a list of AML objects.
   - DefField: the FieldFlags byte and the FieldList (entries with PkgLength in the exclusive form): the Spec's
     [parse_fields] inverts the concatenation of [enc_fentry].
   - ResourceTemplate: the payload of the Buffer is the concatenation of the descriptors' bytes and the end tag. *)
From Coq Require Import NArith ZArith List Lia Bool Arith.
From ACPI Require Import Lib.Bytes Lib.Sx Lib.Machine Impl.AmlCore Impl.AmlTerm Spec.AmlCoreS Spec.AmlTermS
  Proofs.BitsP Proofs.PkgLenP Proofs.PathP.
Import ListNotations.
Open Scope N_scope.

(* ---------------------------------------------------------------- field lists *)

(* the parsed entry a field-list entry must give *)
Definition fentry_gt (e : fentry) : gt :=
  match e with FNamed name len => GField name len | FReserved len => GField [] len end.

(* a named field is a NameSeg (4 characters, the first a lead name character: in particular not 0, which is how the
   grammar tells a NamedField from a ReservedField); the width must be encodable as a PkgLength (28 bits) *)
Definition wf_fentry (e : fentry) : Prop :=
  match e with
  | FNamed name len => is_nameseg name = true /\ len < 2 ^ 28
  | FReserved len => len < 2 ^ 28
  end.

Lemma lead_name_char_nonzero a : is_lead_name_char a = true -> (a =? 0) = false.
Proof.
  unfold is_lead_name_char. intros H. apply N.eqb_neq. intros ->. discriminate H.
Qed.

Lemma parse_fields_nil n : parse_fields n [] = Some [].
Proof. destruct n; reflexivity. Qed.

(* one entry, then the rest of the list *)
Lemma parse_fields_named n a b c d pl len rest fs :
  is_nameseg [a; b; c; d] = true -> pkg_decode (pl ++ rest) = Some (len, rest) -> parse_fields n rest = Some fs ->
  parse_fields (S n) ([a; b; c; d] ++ pl ++ rest) = Some (GField [a; b; c; d] len :: fs).
Proof.
  intros Hs Hd Hr.
  assert (Ha : is_lead_name_char a = true).
  { cbn [is_nameseg] in Hs. repeat (apply andb_true_iff in Hs; destruct Hs as [Hs ?]). exact Hs. }
  cbn [app parse_fields]. rewrite (lead_name_char_nonzero a Ha). rewrite Hs, Hd, Hr. reflexivity.
Qed.

Lemma parse_fields_reserved n pl len rest fs :
  pkg_decode (pl ++ rest) = Some (len, rest) -> parse_fields n rest = Some fs ->
  parse_fields (S n) (0 :: pl ++ rest) = Some (GField [] len :: fs).
Proof.
  intros Hd Hr. cbn [parse_fields]. change (0 =? 0) with true. cbv iota. rewrite Hd, Hr. reflexivity.
Qed.

(* [parse_fields] inverts the concatenation of [enc_fentry]; the fuel only has to cover the byte count *)
Lemma parse_fields_concat md : forall es bytes n,
  Forall wf_fentry es -> opt_concat_map (enc_fentry md) es = Some bytes -> (length bytes <= n)%nat ->
  parse_fields n bytes = Some (map fentry_gt es).
Proof.
  induction es as [|e es IH]; intros bytes n HF He Hn.
  - inversion He; subst. apply parse_fields_nil.
  - inversion HF as [|? ? We Wes]; subst. cbn [opt_concat_map] in He.
    destruct (enc_fentry md e) as [be|] eqn:Ee; [|discriminate]. cbn [option_bind] in He.
    destruct (opt_concat_map (enc_fentry md) es) as [br|] eqn:Er; [|discriminate]. cbn [option_bind] in He.
    inversion He; subst bytes. clear He.
    assert (H28 : 2 ^ 28 < 2 ^ 63) by reflexivity.
    destruct e as [name len|len]; cbn [enc_fentry] in Ee;
      (destruct (pkg_len md len false) as [pl|] eqn:Ep; [|discriminate]); cbn [option_bind] in Ee; inversion Ee; subst be; clear Ee.
    + destruct We as [Hs Hl].
      destruct (nameseg_shape name Hs) as (a & b & c & d & -> & _).
      destruct (pkg_len_excl_correct md len pl br (N.lt_trans _ _ _ Hl H28) Ep) as [Hd _].
      rewrite <- app_assoc. rewrite !app_length in Hn. cbn [length] in Hn.
      destruct n as [|n]; [lia|].
      cbn [map fentry_gt]. apply parse_fields_named; [exact Hs|exact Hd|]. apply IH; [exact Wes|reflexivity|lia].
    + cbn [wf_fentry] in We.
      destruct (pkg_len_excl_correct md len pl br (N.lt_trans _ _ _ We H28) Ep) as [Hd _].
      cbn [app] in *. cbn [length] in Hn. rewrite app_length in Hn.
      destruct n as [|n]; [lia|].
      cbn [map fentry_gt]. apply parse_fields_reserved; [exact Hd|]. apply IH; [exact Wes|reflexivity|lia].
Qed.

(* FieldFlags: access type bits 0-3, lock rule bit 4, update rule bits 5-6 *)
Lemma field_flags ac lk up :
  ac < 16 -> lk <= 1 -> N.lor (N.lor ac (N.shiftl lk 4)) (N.shiftl up 5) = ac + 16 * lk + 32 * up.
Proof.
  intros Ha Hl. rewrite !shiftl_mul.
  rewrite (lor_disjoint' ac lk 4) by exact Ha.
  rewrite (lor_disjoint' (lk * 2 ^ 4 + ac) up 5) by (change (2 ^ 4) with 16; change (2 ^ 5) with 32; lia).
  change (2 ^ 4) with 16. change (2 ^ 5) with 32. lia.
Qed.

(* ---------------------------------------------------------------- resource templates *)

(* the children of a template are bare descriptors *)
Definition desc_child (t : term) : Prop := exists d, t = TDesc d.
Definition desc_bytes (t : term) : option (list N) := match t with TDesc d => enc_desc d | _ => None end.

(* payload of the template's Buffer: the descriptors, then the end tag (0x79) with a zero checksum byte *)
Definition template_payload (ks : list term) : option (list N) :=
  match map_opt desc_bytes ks with
  | Some ds => Some (concat ds ++ [0x79; 0x00])
  | None => None
  end.

Lemma encs_template md ks eks :
  Forall desc_child ks -> opt_concat_map (enc md) ks = Some eks -> template_payload ks = Some (eks ++ [0x79; 0x00]).
Proof.
  unfold template_payload. revert eks. induction ks as [|k ks IH]; intros eks HF He.
  - inversion He; subst. reflexivity.
  - inversion HF as [|? ? [d ->] Hks]; subst. cbn [opt_concat_map] in He.
    cbn [enc] in He. cbn [map_opt desc_bytes].
    destruct (enc_desc d) as [bd|] eqn:Ed; [|discriminate]. cbn [option_bind] in He.
    destruct (opt_concat_map (enc md) ks) as [er|] eqn:Er; [|discriminate]. cbn [option_bind] in He. inversion He; subst eks.
    specialize (IH er Hks eq_refl).
    destruct (map_opt desc_bytes ks) as [ds|]; [|discriminate]. inversion IH as [H0].
    cbn [concat]. rewrite <- !app_assoc. rewrite H0. reflexivity.
Qed.
