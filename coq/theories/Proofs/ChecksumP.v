(* Lemmas about the Checksum accumulator model. *)
From Coq Require Import NArith ZArith List Lia.
From ACPI Require Import Lib.Bytes Lib.Sx Impl.Checksum.
Import ListNotations.

Ltac Zify.zify_post_hook ::= Z.to_euclidean_division_equations.

Open Scope Z_scope.

Fixpoint zsum (l : list N) : Z :=
  match l with [] => 0 | x :: r => Z.of_N x + zsum r end.

Lemma zsum_app a b : zsum (a ++ b) = zsum a + zsum b.
Proof. induction a as [|x a IH]; cbn [zsum app]; lia. Qed.

Lemma zsum_sumN l : zsum l = Z.of_N (sumN l).
Proof. induction l as [|x l IH]; cbn [zsum sumN]; lia. Qed.

(* wide-integer reference: what each operation adds / removes *)
Definition op_added (o : ckop) : Z :=
  match o with
  | CkAdd b | CkByte b => Z.of_N b
  | CkAppend l | CkVec l => zsum l
  | CkWord x => zsum (le 2 x)
  | CkDword x => zsum (le 4 x)
  | CkQword x => zsum (le 8 x)
  | CkSub _ | CkDelete _ => 0
  end.

Definition op_removed (o : ckop) : Z :=
  match o with
  | CkSub b => Z.of_N b
  | CkDelete l => zsum l
  | _ => 0
  end.

Fixpoint net (ops : list ckop) : Z :=
  match ops with [] => 0 | o :: r => op_added o - op_removed o + net r end.

Lemma wadd8_Z a x : Z.of_N (wadd8 a x) = (Z.of_N a + Z.of_N x) mod 256.
Proof. unfold wadd8. lia. Qed.

Lemma wsub8_Z a x : Z.of_N (wsub8 a x) = (Z.of_N a - Z.of_N x) mod 256.
Proof. unfold wsub8. lia. Qed.

Lemma fold_wadd8_Z l a : Z.of_N (fold_left wadd8 l a) mod 256 = (Z.of_N a + zsum l) mod 256.
Proof.
  revert a; induction l as [|x l IH]; intros a; cbn [fold_left zsum].
  - f_equal. lia.
  - rewrite IH, wadd8_Z. rewrite Zplus_mod_idemp_l. f_equal. lia.
Qed.

Lemma fold_wsub8_Z l a : Z.of_N (fold_left wsub8 l a) mod 256 = (Z.of_N a - zsum l) mod 256.
Proof.
  revert a; induction l as [|x l IH]; intros a; cbn [fold_left zsum].
  - f_equal. lia.
  - rewrite IH, wsub8_Z. rewrite Zminus_mod_idemp_l. f_equal. lia.
Qed.

Lemma fold_wadd8_lt l a : (a < 256)%N -> (fold_left wadd8 l a < 256)%N.
Proof.
  revert a; induction l as [|x l IH]; intros a H; cbn [fold_left]; [exact H|].
  apply IH. unfold wadd8. apply N.mod_lt. lia.
Qed.

Lemma fold_wsub8_lt l a : (a < 256)%N -> (fold_left wsub8 l a < 256)%N.
Proof.
  revert a; induction l as [|x l IH]; intros a H; cbn [fold_left]; [exact H|].
  apply IH. unfold wsub8. apply N.mod_lt. lia.
Qed.

Lemma ck_step_lt s o : (s < 256)%N -> (ck_step s o < 256)%N.
Proof.
  intros H. destruct o; cbn [ck_step]; unfold ck_add, ck_sub, ck_append, ck_delete, ck_sink_byte,
    ck_sink_word, ck_sink_dword, ck_sink_qword, ck_sink_vec, ck_add;
    try (apply fold_wadd8_lt; exact H); try (apply fold_wsub8_lt; exact H);
    unfold wadd8, wsub8; apply N.mod_lt; lia.
Qed.

Lemma ck_step_Z s o : Z.of_N (ck_step s o) mod 256 = (Z.of_N s + op_added o - op_removed o) mod 256.
Proof.
  destruct o; cbn [ck_step op_added op_removed];
    unfold ck_add, ck_sub, ck_append, ck_delete, ck_sink_byte, ck_sink_word, ck_sink_dword,
      ck_sink_qword, ck_sink_vec;
    try (change (fold_left ck_add) with (fold_left wadd8));
    rewrite ?fold_wadd8_Z, ?fold_wsub8_Z, ?wadd8_Z, ?wsub8_Z, ?Zmod_mod; f_equal; lia.
Qed.

Lemma ck_fold_Z ops s :
  Z.of_N (fold_left ck_step ops s) mod 256 = (Z.of_N s + net ops) mod 256.
Proof.
  revert s; induction ops as [|o ops IH]; intros s; cbn [fold_left net].
  - f_equal. lia.
  - rewrite IH. rewrite <- Zplus_mod_idemp_l. rewrite ck_step_Z. rewrite Zplus_mod_idemp_l. f_equal. lia.
Qed.

Lemma ck_fold_lt ops s : (s < 256)%N -> (fold_left ck_step ops s < 256)%N.
Proof.
  revert s; induction ops as [|o ops IH]; intros s H; cbn [fold_left]; [exact H|].
  apply IH. now apply ck_step_lt.
Qed.

Lemma ck_run_net ops : Z.of_N (ck_raw (ck_run ops)) = net ops mod 256.
Proof.
  unfold ck_run, ck_raw.
  pose proof (ck_fold_Z ops 0%N) as H. pose proof (ck_fold_lt ops 0%N ltac:(lia)) as Hlt.
  rewrite Z.mod_small in H by lia. rewrite H. f_equal.
Qed.

(* exact inverses *)
Lemma ck_sub_add s b : (s < 256)%N -> ck_sub (ck_add s b) b = s.
Proof. unfold ck_sub, ck_add, wsub8, wadd8. intros H. lia. Qed.

Lemma ck_add_sub s b : (s < 256)%N -> ck_add (ck_sub s b) b = s.
Proof. unfold ck_sub, ck_add, wsub8, wadd8. intros H. lia. Qed.

Lemma ck_delete_append s l : (s < 256)%N -> ck_delete (ck_append s l) l = s.
Proof.
  intros H. unfold ck_delete, ck_append.
  pose proof (fold_wsub8_Z l (fold_left wadd8 l s)) as H1.
  pose proof (fold_wadd8_Z l s) as H2.
  pose proof (fold_wsub8_lt l _ (fold_wadd8_lt l s H)) as H3.
  pose proof (fold_wadd8_lt l s H) as H4.
  rewrite <- Zminus_mod_idemp_l in H1. rewrite H2 in H1. rewrite Zminus_mod_idemp_l in H1.
  replace (Z.of_N s + zsum l - zsum l) with (Z.of_N s) in H1 by lia.
  rewrite !Z.mod_small in H1 by lia. lia.
Qed.

Lemma ck_append_delete s l : (s < 256)%N -> ck_append (ck_delete s l) l = s.
Proof.
  intros H. unfold ck_delete, ck_append.
  pose proof (fold_wadd8_Z l (fold_left wsub8 l s)) as H1.
  pose proof (fold_wsub8_Z l s) as H2.
  pose proof (fold_wadd8_lt l _ (fold_wsub8_lt l s H)) as H3.
  rewrite <- Zplus_mod_idemp_l in H1. rewrite H2 in H1. rewrite Zplus_mod_idemp_l in H1.
  replace (Z.of_N s - zsum l + zsum l) with (Z.of_N s) in H1 by lia.
  rewrite !Z.mod_small in H1 by lia. lia.
Qed.

Lemma ck_value_spec s : (s < 256)%N -> ((ck_raw s + ck_value s) mod 256 = 0)%N /\ (ck_value s < 256)%N.
Proof. unfold ck_raw, ck_value. intros H. split; lia. Qed.

(* chunking: the sink entry points add exactly the little-endian bytes, one at a time *)
Lemma ck_sink_vec_append s l : ck_sink_vec s l = ck_append s l.
Proof. reflexivity. Qed.

Lemma ck_append_app s a b : ck_append s (a ++ b) = ck_append (ck_append s a) b.
Proof. unfold ck_append. apply fold_left_app. Qed.

Lemma ck_append_sum8 s l : (s < 256)%N -> ck_append s l = ((s + sumN l) mod 256)%N.
Proof. intros H. unfold ck_append. now apply fold_wadd8_mod. Qed.

Lemma generate_checksum_spec l :
  ((sumN l + generate_checksum l) mod 256 = 0)%N /\ (generate_checksum l < 256)%N.
Proof.
  unfold generate_checksum. rewrite fold_wadd8_mod by lia. rewrite N.add_0_l.
  pose proof (N.mod_lt (sumN l) 256 ltac:(lia)) as Hlt.
  destruct (ck_value_spec (sumN l mod 256) Hlt) as [H1 H2]. split; [|exact H2].
  unfold ck_raw in H1. rewrite <- N.add_mod_idemp_l by lia. exact H1.
Qed.
