(* C11 instances, HMAT: system locality structure (hierarchy argument x non-sequential transfers x minimum transfer size
   required, interleaved with the matrix setters) and memory proximity domain attributes (initiator-valid flag).
   Statements about the bytes the Impl model of hmat.rs emits. *)
From Coq Require Import NArith ZArith List Lia Bool Arith ZifyBool ZifyNat ZifyN.
From ACPI Require Import Lib.Bytes Lib.Sx Lib.Machine Impl.Table Impl.Fields Impl.Madt Impl.Hmat Spec.Layout Spec.OptionsS
  Proofs.FlagsP Proofs.FadtP Proofs.HmatP Proofs.WalkRefCommon2P Proofs.C11CommonP.
Import ListNotations.
Open Scope N_scope.

Definition sl_rest (s : sysloc) := (sl_dt s, sl_mts s, sl_unit s, sl_inits s, sl_targets s, sl_entries s).

Lemma sysloc_builders_fold l : forall s, sysloc_builders s l = fold_opt sysloc_builder s l.
Proof. induction l as [|o l IH]; intros s; cbn [sysloc_builders fold_opt]; [reflexivity|]. destruct (sysloc_builder s o); [apply IH|reflexivity]. Qed.

Lemma sysloc_step p o p' : sysloc_builder p o = Some p' ->
  sl_flags p' = N.lor (sl_flags p) (sysloc_call_bit o) /\
  (sysloc_is_option o = true -> sl_rest p' = sl_rest p) /\
  (sysloc_is_option o = false -> forall q, sl_rest q = sl_rest p -> exists q', sysloc_builder q o = Some q' /\ sl_rest q' = sl_rest p').
Proof.
  unfold sysloc_builder, sl_rest. intros H.
  dmatch_in H; cbn [sysloc_call_bit sysloc_is_option]; rewrite ?N.lor_0_r.
  - (* set_entry_value *)
    unfold sysloc_set_entry in H.
    destruct (assert _) eqn:Ea; [|discriminate H]. cbn [option_bind] in H.
    destruct (hm_vec_set _ _ _) as [e|] eqn:Ee; [|discriminate H]. cbn [option_bind] in H. inversion H; subst p'; clear H.
    cbn [sl_with_entries sl_flags sl_dt sl_mts sl_unit sl_inits sl_targets sl_entries].
    split; [reflexivity|]. split; [discriminate|]. intros _ q Hq. injection Hq as H1 H2 H3 H4 H5 H6.
    unfold sysloc_set_entry. rewrite H4, H5, H6, Ea. cbn [option_bind]. rewrite Ee. cbn [option_bind].
    eexists. split; [reflexivity|]. cbn [sl_with_entries sl_dt sl_mts sl_unit sl_inits sl_targets sl_entries]. congruence.
  - (* set_initiator_value *)
    destruct (hm_vec_set _ _ _) as [e|] eqn:Ee; [|discriminate H]. cbn [option_map] in H. inversion H; subst p'; clear H.
    cbn [sl_with_inits sl_flags sl_dt sl_mts sl_unit sl_inits sl_targets sl_entries].
    split; [reflexivity|]. split; [discriminate|]. intros _ q Hq. injection Hq as H1 H2 H3 H4 H5 H6.
    rewrite H4, Ee. cbn [option_map]. eexists. split; [reflexivity|].
    cbn [sl_with_inits sl_dt sl_mts sl_unit sl_inits sl_targets sl_entries]. congruence.
  - (* set_target_value *)
    destruct (hm_vec_set _ _ _) as [e|] eqn:Ee; [|discriminate H]. cbn [option_map] in H. inversion H; subst p'; clear H.
    cbn [sl_with_targets sl_flags sl_dt sl_mts sl_unit sl_inits sl_targets sl_entries].
    split; [reflexivity|]. split; [discriminate|]. intros _ q Hq. injection Hq as H1 H2 H3 H4 H5 H6.
    rewrite H5, Ee. cbn [option_map]. eexists. split; [reflexivity|].
    cbn [sl_with_targets sl_dt sl_mts sl_unit sl_inits sl_targets sl_entries]. congruence.
  - inversion H; subst p'; clear H. cbn [sl_with_flags sl_flags sl_dt sl_mts sl_unit sl_inits sl_targets sl_entries].
    split; [reflexivity|]. split; [reflexivity|discriminate].
  - inversion H; subst p'; clear H. cbn [sl_with_flags sl_flags sl_dt sl_mts sl_unit sl_inits sl_targets sl_entries].
    split; [reflexivity|]. split; [reflexivity|discriminate].
Qed.

Definition sysloc_nonoption (o : sx) : bool := negb (sysloc_is_option o).

Lemma sysloc_sim : forall bs p q p', sl_rest q = sl_rest p -> fold_opt sysloc_builder p bs = Some p' ->
  sl_flags p' = N.lor (sl_flags p) (big_or (map sysloc_call_bit bs)) /\
  exists q', fold_opt sysloc_builder q (filter sysloc_nonoption bs) = Some q' /\ sl_rest q' = sl_rest p'.
Proof.
  induction bs as [|o bs IH]; intros p q p' Hq H; cbn [fold_opt] in H.
  - inversion H; subst. cbn [map big_or fold_right]. rewrite N.lor_0_r. split; [reflexivity|]. exists q. split; [reflexivity|exact Hq].
  - destruct (sysloc_builder p o) as [p1|] eqn:E; [|discriminate].
    destruct (sysloc_step p o p1 E) as (Hf & Hopt & Hnon).
    cbn [map big_or fold_right filter]. fold (big_or (map sysloc_call_bit bs)). unfold sysloc_nonoption at 1.
    destruct (sysloc_is_option o) eqn:Eo; cbn [negb].
    + destruct (IH p1 q p' ltac:(rewrite Hq; symmetry; now apply Hopt) H) as (Hf' & q' & Hq' & Hr').
      split; [now rewrite Hf', Hf, N.lor_assoc|]. exists q'. split; assumption.
    + destruct (Hnon eq_refl q Hq) as (q1 & Eq1 & Hr1).
      destruct (IH p1 q1 p' Hr1 H) as (Hf' & q' & Hq' & Hr').
      split; [now rewrite Hf', Hf, N.lor_assoc|]. exists q'. cbn [fold_opt]. rewrite Eq1. split; assumption.
Qed.

Definition sysloc_post (s : sysloc) : list N :=
  b1 (sl_dt s) ++ b1 (sl_mts s) ++ b1 0 ++
  d4 (hm_len (sl_inits s)) ++ d4 (hm_len (sl_targets s)) ++ d4 0 ++ q8 (sl_unit s) ++
  hm_dwords (sl_inits s) ++ hm_dwords (sl_targets s) ++ hm_words (sl_entries s).

Lemma sysloc_shape s : sysloc_bytes s = (w2 1 ++ w2 0 ++ d4 (sysloc_len s)) ++ le 1 (sl_flags s) ++ sysloc_post s.
Proof. unfold sysloc_bytes, sysloc_post. rewrite <- !app_assoc. reflexivity. Qed.

Lemma sysloc_rest_eq p q : sl_rest q = sl_rest p -> sysloc_len q = sysloc_len p /\ sysloc_post q = sysloc_post p.
Proof. unfold sl_rest. intros H. injection H as H1 H2 H3 H4 H5 H6. unfold sysloc_len, sysloc_post. now rewrite H1, H2, H3, H4, H5, H6. Qed.

Lemma sysloc_call_bit_small o : sysloc_call_bit o < 2 ^ 8.
Proof. unfold sysloc_call_bit. dmatch_goal; reflexivity. Qed.

(* the option bits leave the hierarchy nibble alone *)
Lemma sysloc_bits_high bs : big_or (map sysloc_call_bit bs) mod 2 ^ 4 = 0.
Proof.
  induction bs as [|o bs IH]; [reflexivity|]. cbn [map big_or fold_right]. fold (big_or (map sysloc_call_bit bs)).
  rewrite <- N.land_ones, N.land_lor_distr_l, !N.land_ones, IH, N.lor_0_r.
  unfold sysloc_call_bit; dmatch_goal; reflexivity.
Qed.

Lemma sysloc_gate k b o : In (k, b) [(1, 5); (2, 4)] -> N.testbit (sysloc_call_bit o) b = sysloc_calls k o.
Proof.
  intros Hk. cbn [In] in Hk. destruct Hk as [Hk|[Hk|[]]]; inversion Hk; subst k b;
    unfold sysloc_call_bit, sysloc_calls; dmatch_goal; reflexivity.
Qed.

(* for EVERY constructor argument and EVERY sequence of calls (options and matrix setters interleaved) the model accepts:
   - the Flags byte (offset 8) is the hierarchy argument (as u8) united with the bits of the options invoked; for a hierarchy
     value of the enumeration (< 16) bit 5 / bit 4 is set iff non_sequential_transfers / minimum_transfer_size_required
     was called, and the low nibble is the hierarchy;
   - removing the option calls gives an accepted structure of the same size differing at most in the Flags byte *)
Theorem hmat_sysloc_options md s lt dt mts unit ni nt bs e :
  hmat_addition md s (SL [SA 2; SA lt; SA dt; SA mts; SA unit; SA ni; SA nt; SL bs]) = Some e ->
  field_at (a_bytes e) 8 1 = N.lor (lt mod 256) (big_or (map sysloc_call_bit bs)) /\
  (lt < 16 -> field_at (a_bytes e) 8 1 mod 16 = lt /\
              forall k b, In (k, b) [(1, 5); (2, 4)] -> N.testbit (field_at (a_bytes e) 8 1) b = existsb (sysloc_calls k) bs) /\
  exists e0, hmat_addition md s (SL [SA 2; SA lt; SA dt; SA mts; SA unit; SA ni; SA nt; SL (filter sysloc_nonoption bs)]) = Some e0 /\
    length (a_bytes e) = length (a_bytes e0) /\
    forall k, ~ in_range k sysloc_flags_at -> nth k (a_bytes e) 0 = nth k (a_bytes e0) 0.
Proof.
  cbn [hmat_addition]. destruct (sysloc_new md lt dt mts unit ni nt) as [p0|] eqn:En; [|discriminate]. cbn [option_bind].
  rewrite !sysloc_builders_fold.
  destruct (fold_opt sysloc_builder p0 bs) as [p|] eqn:E; [|discriminate]. cbn [option_bind].
  destruct (assert (sysloc_len p <? U32)) eqn:Ea; [|discriminate]. cbn [option_bind].
  intros H; inversion H; subst e; clear H. cbn [hmat_add a_bytes].
  destruct (sysloc_sim bs p0 p0 p eq_refl E) as (Hf & q & Eq & Hr).
  assert (H0 : sl_flags p0 = lt mod 256).
  { unfold sysloc_new in En. destruct (mul_m md U64 ni nt); [|discriminate]. cbn [option_bind] in En. inversion En. reflexivity. }
  rewrite H0 in Hf.
  destruct (sysloc_rest_eq p q Hr) as [Hl Hp].
  assert (Hsmall : N.lor (lt mod 256) (big_or (map sysloc_call_bit bs)) < 2 ^ 8).
  { apply lor_lt; [change (2 ^ 8) with 256; apply N.mod_lt; discriminate|]. apply big_or_map_lt, sysloc_call_bit_small. }
  assert (Hfield : field_at (sysloc_bytes p) 8 1 = N.lor (lt mod 256) (big_or (map sysloc_call_bit bs))).
  { rewrite sysloc_shape, Hf. apply field_at_mid_small; [reflexivity|exact Hsmall]. }
  split; [exact Hfield|]. split.
  - intros Hlt. rewrite Hfield, (N.mod_small lt 256) by lia. split.
    + change 16 with (2 ^ 4). rewrite <- N.land_ones, N.land_lor_distr_l, !N.land_ones.
      rewrite (N.mod_small lt) by exact Hlt.
      rewrite sysloc_bits_high. apply N.lor_0_r.
    + intros k b Hk. rewrite N.lor_spec.
      replace (N.testbit lt b) with false.
      * cbn [orb]. apply big_or_gate. intros o. now apply (sysloc_gate k b o).
      * symmetry. cbn [In] in Hk. destruct Hk as [Hk|[Hk|[]]]; inversion Hk; subst k b; apply N.bits_above_log2;
          (destruct (N.eq_dec lt 0) as [->|Hz]; [reflexivity|]); apply N.log2_lt_pow2; lia.
  - rewrite Eq. cbn [option_bind]. rewrite Hl, Ea. cbn [option_bind]. eexists. split; [reflexivity|]. cbn [hmat_add a_bytes].
    rewrite !sysloc_shape, Hl, Hp. split.
    + rewrite !app_length, !length_le. reflexivity.
    + intros k Hk. apply nth_mid_frame. exact Hk.
Qed.

Lemma sysloc_options_distinct : distinct_single_bits sysloc_option_table && below (2 ^ 8) sysloc_option_table = true /\
  forallb (fun b => b mod 16 =? 0) sysloc_option_table = true.
Proof. split; reflexivity. Qed.

(* memory proximity domain attributes: the constructor always takes the initiator domain, and the "initiator proximity
   domain valid" flag (Flags word at offset 8, bit 0) is always set; nothing else is in the Flags word *)
Theorem hmat_memprox_flags md s ipd mpd e :
  hmat_addition md s (SL [SA 1; SA ipd; SA mpd]) = Some e ->
  length (a_bytes e) = 40%nat /\ field_at (a_bytes e) 8 2 = 1 /\ field_at (a_bytes e) 12 4 = ipd mod 2 ^ 32.
Proof.
  cbn [hmat_addition]. intros H; inversion H; subst e; clear H. cbn [hmat_add a_bytes].
  unfold mem_prox, ser_flds. cbn [map app concat fst snd F fbytes repeatN].
  split; [rewrite !app_length, !length_le; reflexivity|]. split.
  - apply (field_at_mid_small (le 2 0 ++ le 2 0 ++ le 4 40) 2 1); reflexivity.
  - rewrite (app_assoc (le 2 0)), (app_assoc _ (le 4 40)), (app_assoc _ (le 2 1)), (app_assoc _ (le 2 0)).
    apply (field_at_mid ((((le 2 0 ++ le 2 0) ++ le 4 40) ++ le 2 1) ++ le 2 0) 4 ipd).
Qed.
