(* PPTT: every accepted addition is a self-describing entry (type u8, length u8) -- the walk instance for C03 --
   and the count / length fields inside the entries hold the true values or the addition is refused (C18).

   Sites (pptt.rs):
     ProcessorNode::to_aml_bytes   byte 1  = self.len() as u8            guarded by assert!(self.len() <= u8::MAX)
                                   dword 16 = self.resources.len() as u32 (cannot exceed 58 once the length fits)
     CacheNode                     byte 1  = CacheNode::len() as u8 = 28  (fixed-size packed struct)
   The model is mode-independent for PPTT entries (`pptt_addition` takes no mode): the statements hold in both profiles. *)
From Coq Require Import NArith ZArith List Lia Bool Arith.
From ACPI Require Import Lib.Bytes Lib.Sx Lib.Machine Impl.Checksum Impl.Table Impl.Fields Impl.Run Impl.Madt Impl.Pptt
  Spec.Layout Proofs.ChecksumP Proofs.TableP Proofs.WalkP Proofs.MadtP Proofs.Tables Proofs.PpttP Proofs.WalkFitP.
Import ListNotations.
Open Scope N_scope.

(* the number of add_cache(&handle) calls among the builders of an add_processor op = the true number of private resources *)
Definition is_add_cache (b : sx) : bool := match b with SL [SA 6; _] => true | _ => false end.
Definition pptt_resources (bs : list sx) : nat := length (filter is_add_cache bs).

(* ---------- boundary tests (Eval vm_compute equivalents, kept as checked examples) ---------- *)
Definition pw_ctor : sx := SL [SL (map SA [65;66;67;68;69;70]); SL (map SA [1;2;3;4;5;6;7;8]); SA 1].
Definition pw_s0 : tbl := match pptt_new pw_ctor with Some s => s | None => tbl_new KPptt {| h_sig := []; h_rev := 0; h_oem := []; h_tbl := []; h_orev := 0 |} [] end.
Definition pw_proc (n : nat) : sx := SL [SA 1; SL []; SA 7; SL (repeatN (SL [SA 6; SA 36]) n)].

Example pw_test_58_accepted :
  option_map (fun e => (field_at (a_bytes e) 1 1, field_at (a_bytes e) 16 4, length (a_bytes e))) (pptt_addition pw_s0 (pw_proc 58))
  = Some (252, 58, 252%nat).
Proof. vm_compute. reflexivity. Qed.
Example pw_test_59_refused : pptt_addition pw_s0 (pw_proc 59) = None /\ pptt_step Checked pw_s0 (pw_proc 59) = None /\ pptt_step Wrapping pw_s0 (pw_proc 59) = None.
Proof. vm_compute. auto. Qed.
Example pw_test_64_refused : pptt_addition pw_s0 (pw_proc 64) = None /\ pptt_addition pw_s0 (pw_proc 300) = None.
Proof. vm_compute. auto. Qed.

(* ---------- constructor ---------- *)
Lemma pptt_new_empty c s0 : pptt_new c = Some s0 -> t_ents s0 = [].
Proof.
  unfold pptt_new. destruct c as [|l]; [discriminate|].
  destruct l as [|o [|t [|r [|x l]]]]; try discriminate.
  destruct (sx_hdr _ _ _ _ _); [|discriminate]. cbn [option_bind]. intros H. apply Some_inj in H. subst s0. reflexivity.
Qed.

(* ---------- processor node ---------- *)
Lemma pnode_builder_res s p o p' : pnode_builder s p o = Some p' ->
  length (pn_rres p') = ((if is_add_cache o then 1 else 0) + length (pn_rres p))%nat.
Proof.
  unfold pnode_builder. intros H. break_sx H;
    try (destruct (handle_ref s _); [|discriminate H]; cbn [option_bind] in H);
    apply Some_inj in H; subst p'; reflexivity.
Qed.

Lemma pnode_builders_res s bs : forall p p', pnode_builders s p bs = Some p' ->
  length (pn_rres p') = (pptt_resources bs + length (pn_rres p))%nat.
Proof.
  unfold pptt_resources. induction bs as [|o bs IH]; intros p p' H; cbn [pnode_builders] in H.
  - apply Some_inj in H. subst. reflexivity.
  - destruct (pnode_builder s p o) as [p1|] eqn:E; [|discriminate].
    rewrite (IH _ _ H), (pnode_builder_res _ _ _ _ E). cbn [filter]. destruct (is_add_cache o); cbn [length]; lia.
Qed.

Lemma pnode_new_res s parent uid p0 : pnode_new s parent uid = Some p0 -> pn_rres p0 = [].
Proof.
  unfold pnode_new. destruct (match parent with SL [] => Some 0 | x => handle_ref s x end); [|discriminate].
  cbn [option_bind]. intros H. apply Some_inj in H. subst. reflexivity.
Qed.

(* what an accepted add_processor serialises *)
Lemma pptt_proc_shape s parent uid bs e : pptt_addition s (SL [SA 1; parent; SA uid; SL bs]) = Some e ->
  exists p, length (pn_rres p) = pptt_resources bs /\ pnode_len p <= 255 /\
    a_bytes e = le 1 0 ++ le 1 (pnode_len p) ++ le 2 0 ++ le 4 (pn_flags p) ++ le 4 (pn_parent p) ++ le 4 (pn_uid p) ++
                le 4 (N.of_nat (length (pn_rres p))) ++ pp_dwords (frev (pn_rres p)).
Proof.
  cbn [pptt_addition]. intros H.
  destruct (pnode_new s parent uid) as [p0|] eqn:E0; [|discriminate H]. cbn [option_bind] in H.
  destruct (pnode_builders s p0 bs) as [p|] eqn:E1; [|discriminate H]. cbn [option_bind] in H.
  destruct (pnode_bytes p) as [b|] eqn:Eb; [|discriminate H]. cbn [option_bind] in H.
  apply Some_inj in H. subst e. cbn [a_bytes].
  exists p. split; [rewrite (pnode_builders_res _ _ _ _ E1), (pnode_new_res _ _ _ _ E0); cbn [length]; lia|].
  split; [exact (proj2 (pnode_bytes_length p b Eb))|].
  unfold pnode_bytes in Eb. destruct (pnode_len p <=? 255); [|discriminate]. cbn [assert option_bind] in Eb.
  apply Some_inj in Eb. subst b. reflexivity.
Qed.

Lemma pnode_spine_length p :
  length (le 1 0 ++ le 1 (pnode_len p) ++ le 2 0 ++ le 4 (pn_flags p) ++ le 4 (pn_parent p) ++ le 4 (pn_uid p) ++
          le 4 (N.of_nat (length (pn_rres p))) ++ pp_dwords (frev (pn_rres p))) = N.to_nat (pnode_len p).
Proof. unfold pnode_len. rewrite !app_length, !length_le, length_pp_dwords, length_frev. lia. Qed.

(* C18, processor node: the one-byte length and the private-resource count are the true values *)
Lemma pptt_proc_exact s parent uid bs e : pptt_addition s (SL [SA 1; parent; SA uid; SL bs]) = Some e ->
  field_at (a_bytes e) 1 1 = N.of_nat (length (a_bytes e)) /\
  N.of_nat (length (a_bytes e)) = 20 + 4 * N.of_nat (pptt_resources bs) /\
  field_at (a_bytes e) 16 4 = N.of_nat (pptt_resources bs).
Proof.
  intros H. destruct (pptt_proc_shape _ _ _ _ _ H) as (p & Hres & Hle & Hb).
  pose proof (pnode_spine_length p) as HL. rewrite <- Hb in HL.
  assert (Hlen : pnode_len p = 20 + 4 * N.of_nat (pptt_resources bs)) by (unfold pnode_len; rewrite Hres; lia).
  rewrite HL, N2Nat.id, <- Hlen. rewrite Hb.
  split; [|split; [reflexivity|]].
  - change 1%nat with (1 + 0)%nat at 1. rewrite wf_field_at_skip. apply wf_field_at_here_small. change (2 ^ (8 * N.of_nat 1)) with 256. lia.
  - change 16%nat with (1 + (1 + (2 + (4 + (4 + (4 + 0))))))%nat. rewrite !wf_field_at_skip.
    rewrite Hres. apply wf_field_at_here_small. change (2 ^ (8 * N.of_nat 4)) with 4294967296.
    rewrite Hlen in Hle. lia.
Qed.

(* C18, processor node: a node whose length does not fit the byte is refused (both build profiles: no mode is involved) *)
Lemma pptt_proc_refuses s parent uid bs : 2 ^ 8 <= 20 + 4 * N.of_nat (pptt_resources bs) ->
  pptt_addition s (SL [SA 1; parent; SA uid; SL bs]) = None.
Proof.
  intros Hbig. destruct (pptt_addition s (SL [SA 1; parent; SA uid; SL bs])) as [e|] eqn:E; [|reflexivity]. exfalso.
  destruct (pptt_proc_shape _ _ _ _ _ E) as (p & Hres & Hle & _). unfold pnode_len in Hle. rewrite Hres in Hle.
  change (2 ^ 8) with 256 in Hbig. lia.
Qed.

Corollary pptt_proc_count_refuses s parent uid bs : 2 ^ 32 <= N.of_nat (pptt_resources bs) ->
  pptt_addition s (SL [SA 1; parent; SA uid; SL bs]) = None.
Proof. intros H. apply pptt_proc_refuses. change (2 ^ 32) with 4294967296 in H. change (2 ^ 8) with 256. lia. Qed.

Corollary pptt_proc_refuses_step md s parent uid bs : 2 ^ 8 <= 20 + 4 * N.of_nat (pptt_resources bs) ->
  pptt_step md s (SL [SA 1; parent; SA uid; SL bs]) = None.
Proof. intros H. unfold pptt_step, add_step. rewrite (pptt_proc_refuses s parent uid bs H). reflexivity. Qed.

(* ---------- cache node ---------- *)
Lemma cache_setter_head2 s f o f' : cache_setter s f o = Some f' -> head2 f' = head2 f.
Proof.
  unfold cache_setter. intros H. break_sx H;
    try (destruct (handle_ref s _); [|discriminate H]; cbn [option_bind] in H);
    apply Some_inj in H; subst f'; rewrite ?f_or_head2, ?fset_head2 by lia; reflexivity.
Qed.

Lemma cache_setters_head2 s l : forall f f', cache_setters s f l = Some f' -> head2 f' = head2 f.
Proof.
  induction l as [|o l IH]; intros f f' H; cbn [cache_setters] in H.
  - apply Some_inj in H. subst. reflexivity.
  - destruct (cache_setter s f o) as [f1|] eqn:E; [|discriminate].
    rewrite (IH _ _ H). eapply cache_setter_head2; eauto.
Qed.

Lemma pptt_cache_shape s st e : pptt_addition s (SL [SA 2; SL st]) = Some e ->
  exists f, a_bytes e = ser_flds f /\ head2 f = Some (1, 28) /\ flds_len f = 28%nat.
Proof.
  cbn [pptt_addition]. intros H.
  destruct (cache_setters s cache_default st) as [f|] eqn:Ef; [|discriminate H]. cbn [option_bind] in H.
  apply Some_inj in H. subst e. cbn [a_bytes]. exists f. split; [reflexivity|].
  rewrite (cache_setters_head2 _ _ _ _ Ef), (cache_setters_len _ _ _ _ Ef). split; reflexivity.
Qed.

(* ---------- the walk instance ---------- *)
Lemma pptt_addition_self s o e : pptt_addition s o = Some e -> exists ty, self_describing H_u8_u8 (a_bytes e) ty.
Proof.
  intros H. pose proof H as H0. unfold pptt_addition in H0. break_sx H0; clear H0.
  - (* add_cache *)
    destruct (pptt_cache_shape _ _ _ H) as (f & Hb & Hh & Hl). rewrite Hb.
    apply good_entry_self. eapply good_entry_intro; [exact Hh|lia|lia|rewrite Hl; reflexivity|rewrite Hl; lia].
  - (* add_processor *)
    destruct (pptt_proc_shape _ _ _ _ _ H) as (p & Hres & Hle & Hb). exists 0. rewrite Hb.
    apply wf_sd_u8_u8; [reflexivity|change (2 ^ 8) with 256; lia|].
    pose proof (pnode_spine_length p) as HL. rewrite !app_length, !length_le in HL. rewrite !app_length, !length_le. lia.
Qed.

Definition pptt_walk : walktable :=
  {| wt_table := pptt_table; wt_ehdr := H_u8_u8; wt_self := pptt_addition_self; wt_new_empty := pptt_new_empty |}.

(* C18 for every PPTT addition (processor or cache): the length byte is the number of bytes the entry occupies *)
Lemma pptt_length_exact s o e : pptt_addition s o = Some e -> field_at (a_bytes e) 1 1 = N.of_nat (length (a_bytes e)).
Proof. intros H. destruct (pptt_addition_self s o e H) as [ty Hty]. exact (proj1 (self_describing_u8_len _ _ Hty)). Qed.

Lemma pptt_cache_exact s st e : pptt_addition s (SL [SA 2; SL st]) = Some e ->
  field_at (a_bytes e) 1 1 = 28 /\ length (a_bytes e) = 28%nat.
Proof.
  intros H. pose proof (pptt_length_exact _ _ _ H) as HL.
  destruct (pptt_cache_shape _ _ _ H) as (f & Hb & _ & Hl).
  assert (E : length (a_bytes e) = 28%nat) by (rewrite Hb, ser_flds_length; exact Hl).
  rewrite HL, E. split; reflexivity.
Qed.

(* C03 for the PPTT: the instance of the registry theorem *)
Theorem pptt_tiles md c ops s0 s :
  pptt_new c = Some s0 -> run_adds pptt_addition md s0 ops = Some s -> N.of_nat (length (tbl_image s)) < 2 ^ 32 ->
  exists tys,
    Forall2 (self_describing H_u8_u8) (t_ents s) tys /\
    walk (length (t_ents s)) H_u8_u8 36 (skipn 36 (tbl_image s)) = Some (walk_result 36 (t_ents s) tys) /\
    concat (t_ents s) = skipn 36 (tbl_image s) /\
    t_cnt s = N.of_nat (length (t_ents s)).
Proof.
  intros Hn Hr Hfit. pose proof (walktable_tiles pptt_walk md c ops s0 s Hn Hr Hfit) as H. cbv zeta in H.
  destruct (addtable_reach pptt_table md c ops s0 s Hn Hr Hfit) as (_ & Hk & _). cbn [at_kind pptt_table] in Hk.
  rewrite Hk in H. cbn [mid length Nat.add] in H. exact H.
Qed.

Print Assumptions pptt_addition_self.
Print Assumptions pptt_new_empty.
Print Assumptions pptt_proc_exact.
Print Assumptions pptt_proc_refuses.
Print Assumptions pptt_proc_count_refuses.
Print Assumptions pptt_proc_refuses_step.
Print Assumptions pptt_cache_exact.
Print Assumptions pptt_length_exact.
Print Assumptions pptt_tiles.
