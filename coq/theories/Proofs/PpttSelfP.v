(* PPTT, property C03, per-entry part: the reference image of every in-domain history is tiled by nodes that describe
   themselves and passes the self-check (processor node: private-resource count against the node length; cache node: 28). *)
From Coq Require Import NArith ZArith List Lia Bool Arith ZifyBool ZifyNat ZifyN.
From ACPI Require Import Lib.Bytes Lib.Sx Spec.Layout Spec.MadtS Spec.HmatS Spec.PpttS Spec.SelfCheck Judge
  Proofs.WalkP Proofs.WalkRefCommon2P Proofs.SelfCommonP.
Import ListNotations.

Ltac Zify.zify_post_hook ::= Z.to_euclidean_division_equations.

Open Scope N_scope.

Definition pptt_ty (e : list N) : N := nth 0 e 0.

Definition pptt_good (e : list N) : Prop :=
  self_describing H_u8_u8 e (pptt_ty e) /\ entry_self_ok 16 (pptt_ty e) e = true.

Lemma pptt_entry_good p o e : pptt_entry_ref p o = Some e -> pptt_good e.
Proof.
  intros H. unfold pptt_entry_ref in H. unfold pptt_good, pptt_ty. cbn [entry_self_ok].
  destruct o as [|l]; [discriminate H|]. destruct l as [|[op|] l]; try discriminate H.
  destruct op as [|op]; try discriminate H.
  repeat (destruct op as [op|op|]; try discriminate H).
  - (* 2: cache *)
    destruct l as [|[|st] [|]]; try discriminate H.
    destruct (forallb cache_setter_ok st); [|discriminate H].
    destruct (last_next_level p st 0) as [next|]; [|discriminate H]. cbv zeta in H.
    destruct (lay_decodes _ _ _ H) as [Hlen Hf].
    assert (Hp : (1 <= length e)%nat) by lia.
    split.
    + apply sd_u8_u8_of_fields; [lia|]. rewrite Hlen. apply (Hf 1%nat 1%nat 28). cbn [In L]. tauto.
    + rewrite (nth0_field e Hp), (Hf 0%nat 1%nat 1) by (cbn [In L]; tauto).
      change (1 mod 2 ^ (8 * N.of_nat 1)) with 1. cbn [pptt_self]. rewrite Hlen. reflexivity.
  - (* 1: processor *)
    destruct l as [|parent [|[uid|] [|[|bs] [|]]]]; try discriminate H.
    destruct (match parent with SL [] => Some 0 | x => resolve_or_raw p 0 x end) as [par0|]; [|discriminate H].
    destruct (uid <? 2 ^ 32); [|discriminate H].
    destruct (proc_builders p (0, par0, uid, []) bs) as [[[[flags par] id] rres]|]; [|discriminate H]. cbv zeta in H.
    destruct (Nat.leb_spec (20 + 4 * length rres) 255) as [Hle|]; [|discriminate H].
    destruct (lay_then_decodes _ _ _ _ H) as [Hlen Hf].
    rewrite length_arr', frev_rev, rev_length in Hlen.
    assert (Hp : (1 <= length e)%nat) by lia.
    split.
    + apply sd_u8_u8_of_fields; [lia|].
      rewrite (Hf 1%nat 1%nat (N.of_nat (20 + 4 * length rres))) by (cbn [In L]; try tauto; lia).
      rewrite pow8_1, N.mod_small by lia. rewrite Hlen. reflexivity.
    + rewrite (nth0_field e Hp), (Hf 0%nat 1%nat 0) by (cbn [In L]; try tauto; lia).
      change (0 mod 2 ^ (8 * N.of_nat 1)) with 0. cbn [pptt_self].
      rewrite (Hf 16%nat 4%nat (N.of_nat (length rres))) by (cbn [In L]; try tauto; lia).
      rewrite pow8_4, N.mod_small by lia. unfold lenN. rewrite Hlen. apply N.eqb_eq. lia.
Qed.

Lemma pptt_entries_from_good ops : forall p next racc es,
  pptt_entries_from ops p next racc = Some es -> Forall pptt_good racc -> Forall pptt_good es.
Proof.
  induction ops as [|o ops IH]; intros p next racc es H HF; cbn [pptt_entries_from] in H.
  - apply wr_Some_inj in H. subst es. rewrite frev_rev. apply Forall_rev. exact HF.
  - destruct (pptt_entry_ref p o) as [e|] eqn:He; [|discriminate H].
    apply (IH _ _ _ _ H). constructor; [exact (pptt_entry_good p o e He)|exact HF].
Qed.

Lemma pptt_image_shape ctor ops r : ts_image pptt_spec ctor ops = Some r ->
  exists ha es, pptt_entries_ref ops = Some es /\
    length (ha_oem ha) = 6%nat /\ length (ha_tbl ha) = 8%nat /\
    r = ref_table [80; 80; 84; 84] 1 ha ([] ++ concat es).
Proof.
  intros H. cbn [ts_image pptt_spec] in H. unfold pptt_image in H.
  destruct ctor as [|l]; [discriminate H|].
  destruct l as [|o [|t [|rr [|]]]]; try discriminate H.
  destruct (sx_hdr_args o t rr) as [ha|] eqn:Eha; [|discriminate H].
  destruct (pptt_entries_ref ops) as [es|] eqn:Ees; [|discriminate H].
  apply wr_Some_inj in H. subst r.
  destruct (sx_hdr_args_len _ _ _ _ Eha) as [Ho Ht].
  exists ha, es. split; [reflexivity|]. split; [exact Ho|]. split; [exact Ht|]. reflexivity.
Qed.

Theorem pptt_selfcheck : forall ctor ops r, ts_image pptt_spec ctor ops = Some r -> c03_self 16 r = true.
Proof.
  intros ctor ops r H.
  destruct (pptt_image_shape ctor ops r H) as (ha & es & Ees & Ho & Ht & ->).
  assert (HG : Forall pptt_good es) by (apply (pptt_entries_from_good ops _ _ _ es Ees); constructor).
  unfold c03_self. change (ts_walk (spec_of 16)) with (Some (36%nat, H_u8_u8)).
  apply (c03_self_at_ref 16 36%nat H_u8_u8 pptt_ty); try assumption; try reflexivity.
  - eapply Forall_impl; [|exact HG]. intros e [Hsd _]. exact Hsd.
  - eapply Forall_impl; [|exact HG]. intros e [_ Hok]. exact Hok.
Qed.

(* the reference image is also exactly tiled in the sense of the run-time judgement [c03_judge] *)
Theorem pptt_reference_tiles : forall ctor ops r,
  ts_image pptt_spec ctor ops = Some r -> c03_judge pptt_spec ctor r ops = true.
Proof.
  intros ctor ops r H.
  destruct (pptt_image_shape ctor ops r H) as (ha & es & Ees & Ho & Ht & ->).
  apply (c03_judge_of_tyf pptt_spec ctor ops _ 36%nat H_u8_u8 pptt_ty es).
  - reflexivity.
  - cbn [ts_entries pptt_spec]. rewrite Ees. reflexivity.
  - apply skipn_ref_table; [reflexivity|exact Ho|exact Ht|reflexivity].
  - eapply Forall_impl; [|apply (pptt_entries_from_good ops _ _ _ es Ees); constructor].
    intros e [Hsd _]. exact Hsd.
  - reflexivity.
Qed.

Print Assumptions pptt_selfcheck.
Print Assumptions pptt_reference_tiles.
