(* FACS: length field and size of the emitted structure (C02; the FACS has no checksum). *)
From Coq Require Import NArith ZArith List Lia Bool Arith.
From ACPI Require Import Lib.Bytes Lib.Sx Lib.Machine Impl.Checksum Impl.Table Impl.Fields Impl.Run Impl.Facs
  Spec.Layout Proofs.FixedP.
Import ListNotations.
Open Scope N_scope.

Definition facs_good (s : flds) : Prop :=
  field_at (ser_flds s) 4 4 = 64 /\ length (ser_flds s) = 64%nat.

Lemma facs_new_flds_good : facs_good facs_new_flds.
Proof. split; vm_compute; reflexivity. Qed.

Lemma facs_new_good c s : facs_new c = Some s -> facs_good s.
Proof.
  unfold facs_new.
  repeat match goal with |- (match ?x with _ => _ end) = Some _ -> _ => destruct x; try discriminate end.
  intros [= <-]. exact facs_new_flds_good.
Qed.

(* every sequence of operations the model accepts (there is no mutating operation) *)
Theorem facs_len md c ops s0 s :
  facs_new c = Some s0 -> run_steps (facs_step md) s0 ops = Some s ->
  field_at (ser_flds s) 4 4 = 64 /\ length (ser_flds s) = 64%nat.
Proof.
  intros Hn Hr. apply (run_steps_inv (facs_step md) facs_good) with (ops := ops) (s := s0); [|eapply facs_new_good; eauto|exact Hr].
  intros x o x' e _ H. discriminate H.
Qed.
