(* FACS: length field and size of the emitted structure (C02; the FACS has no checksum), for every sequence of direct
   assignments of its public fields. *)
From Coq Require Import NArith ZArith List Lia Bool Arith.
From ACPI Require Import Lib.Bytes Lib.Sx Lib.Machine Impl.Checksum Impl.Table Impl.Fields Impl.Run Impl.Facs
  Spec.Layout Proofs.FixedP Proofs.FadtP.
Import ListNotations.
Open Scope N_scope.

(* the widths of the 39 fields of FACS *)
Definition FACS_WIDTHS : list nat := Eval vm_compute in widths facs_new_flds.

Definition FACS_I_LENGTH := 4%nat.

(* the shape every reachable value has: the struct's field widths, `length` still 64 *)
Definition facs_shape (s : flds) : Prop := widths s = FACS_WIDTHS /\ fget s FACS_I_LENGTH = 64.

Definition facs_good (s : flds) : Prop :=
  field_at (ser_flds s) 4 4 = 64 /\ length (ser_flds s) = 64%nat.

Lemma facs_shape_good s : facs_shape s -> facs_good s.
Proof.
  intros [Hw Hl]. split.
  - assert (Hi : (FACS_I_LENGTH < length s)%nat) by (rewrite <- widths_length, Hw; vm_compute; lia).
    pose proof (field_at_ser_flds s FACS_I_LENGTH Hi) as H. rewrite Hw, Hl in H.
    change (wsum (firstn FACS_I_LENGTH FACS_WIDTHS)) with 4%nat in H. change (nth FACS_I_LENGTH FACS_WIDTHS 0%nat) with 4%nat in H.
    rewrite H. reflexivity.
  - rewrite length_ser_flds_w, Hw. reflexivity.
Qed.

Lemma facs_new_flds_good : facs_good facs_new_flds.
Proof. split; vm_compute; reflexivity. Qed.

Lemma facs_new_shape c s : facs_new c = Some s -> facs_shape s.
Proof.
  unfold facs_new.
  repeat match goal with |- (match ?x with _ => _ end) = Some _ -> _ => destruct x; try discriminate end.
  intros [= <-]. split; reflexivity.
Qed.

Lemma facs_new_good c s : facs_new c = Some s -> facs_good s.
Proof. intros H. apply facs_shape_good. eapply facs_new_shape; eauto. Qed.

(* no assignable field is `length` *)
Lemma facs_assignable_spec : forall n i w, nth_error FACS_ASSIGNABLE n = Some (i, w) -> i <> FACS_I_LENGTH.
Proof.
  intros n.
  do 7 (destruct n as [|n]; [cbn [nth_error FACS_ASSIGNABLE]; intros i w Hn; inversion Hn; subst i w; discriminate|]).
  intros i w Hn. destruct n; discriminate Hn.
Qed.

Lemma facs_step_shape md s o s' e : facs_shape s -> facs_step md s o = Some (s', e) -> facs_shape s'.
Proof.
  intros [Hw Hl] H. unfold facs_step in H.
  repeat match type of H with
         | match ?x with _ => _ end = Some _ => destruct x; try discriminate
         end.
  match type of H with option_bind (facs_assign_m ?a ?k ?v) _ = _ => destruct (facs_assign_m a k v) as [s1|] eqn:Ea; [|discriminate] end.
  cbn [option_bind] in H. inversion H; subst s1 e; clear H.
  unfold facs_assign_m in Ea. destruct (nth_error FACS_ASSIGNABLE _) as [[i w]|] eqn:En; [|discriminate].
  inversion Ea; subst s'; clear Ea. pose proof (facs_assignable_spec _ _ _ En) as Hi.
  split; [now rewrite widths_fset|]. rewrite fget_fset_other by exact Hi. exact Hl.
Qed.

(* every sequence of operations the model accepts (assignments of the public fields) *)
Theorem facs_len md c ops s0 s :
  facs_new c = Some s0 -> run_steps (facs_step md) s0 ops = Some s ->
  field_at (ser_flds s) 4 4 = 64 /\ length (ser_flds s) = 64%nat.
Proof.
  intros Hn Hr. apply facs_shape_good.
  apply (run_steps_inv (facs_step md) facs_shape) with (ops := ops) (s := s0); [|eapply facs_new_shape; eauto|exact Hr].
  intros x o x' e Hx H. eapply facs_step_shape; eauto.
Qed.
