(* FACS (component 29): the Impl model refines the Spec.  FACS::new() takes no argument and there is no mutating operation:
   the emitted 64 bytes are the reference layout. *)
From Coq Require Import NArith ZArith List Lia Bool Arith.
From ACPI Require Import Lib.Bytes Lib.Sx Lib.Machine Impl.Checksum Impl.Table Impl.Fields Impl.Run Impl.Facs
  Spec.Layout Spec.FixedS Spec.FacsS Proofs.FixedP Proofs.FacsP Proofs.RefFixedCommonP.
Import ListNotations.
Open Scope N_scope.

Lemma facs_entries_are_reference : facs_ref (SL []) = Some (ser_flds facs_new_flds).
Proof. vm_compute. reflexivity. Qed.

Theorem facs_refines :
  forall md ctor ops r,
    ts_image facs_spec ctor ops = Some r ->
    exists s0 s, facs_new ctor = Some s0 /\
                 run_steps (facs_step md) s0 ops = Some s /\
                 ser_flds s = r.
Proof.
  intros md ctor ops r H. cbn [ts_image facs_spec fixed_spec] in H.
  apply ctor_only_some in H. destruct H as [-> H].
  destruct ctor as [|l]; [discriminate|]. destruct l as [|x l]; [|discriminate].
  rewrite facs_entries_are_reference in H. inversion H; subst r; clear H.
  exists facs_new_flds, facs_new_flds. repeat split.
Qed.

Print Assumptions facs_refines.
