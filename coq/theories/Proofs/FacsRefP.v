(* FACS (component 29): the Impl model refines the Spec.  FACS::new() takes no argument; the operations are direct assignments
   of the seven public fields after signature and length: for every in-domain history the emitted 64 bytes are the reference
   layout (ACPI 6.5 Table 5.12) in which every field holds the value last assigned to it. *)
From Coq Require Import NArith ZArith List Lia Bool Arith.
From ACPI Require Import Lib.Bytes Lib.Sx Lib.Machine Impl.Checksum Impl.Table Impl.Fields Impl.Run Impl.Facs
  Spec.Layout Spec.FixedS Spec.FacsS Proofs.FixedP Proofs.FacsP Proofs.RefFixedCommonP.
Import ListNotations.
Open Scope N_scope.

(* the abstraction: the FACS value that holds the Spec's values *)
Definition facs_flds (v : facs_vals) : flds :=
  fbytes [70; 65; 67; 83]
  ++ [F 4 64; F 4 (facs_val v 8); F 4 (facs_val v 12); F 4 (facs_val v 16); F 4 (facs_val v 20); F 8 (facs_val v 24);
      F 1 (facs_val v 32)]
  ++ fbytes [0; 0; 0]
  ++ [F 4 (facs_val v 36)]
  ++ fbytes (repeatN 0 24).

Lemma facs_new_flds_abs : facs_new_flds = facs_flds facs_vals0.
Proof. reflexivity. Qed.

(* per-field content: the packed struct serialises to the reference layout, for all values *)
Lemma facs_flds_ref v : lay 64 (facs_layout v) = Some (ser_flds (facs_flds v)).
Proof. reflexivity. Qed.

Lemma facs_entries_are_reference : facs_ref_image (SL []) [] = Some (ser_flds facs_new_flds).
Proof. vm_compute. reflexivity. Qed.

(* one assignment: whenever the Spec accepts it on the values [v], the model accepts it on the abstraction of [v] and reaches
   the abstraction of the Spec's new values *)
Lemma facs_step_sim md v o :
  match facs_apply v o with
  | Some v' => facs_step md (facs_flds v) o = Some (facs_flds v', [EvNum 0])
  | None => True
  end.
Proof.
  unfold facs_apply, facs_step.
  repeat (match goal with
          | |- match (match ?x with _ => _ end) with _ => _ end => lazymatch x with nth_error _ _ => fail | _ => destruct x eqn:? end
          end; try exact I).
  unfold facs_assign_m.
  match goal with |- context [nth_error facs_scalars (N.to_nat ?k)] => generalize (N.to_nat k) as kn end. intros kn.
  do 7 (destruct kn as [|kn];
        [cbn [nth_error facs_scalars FACS_ASSIGNABLE];
         match goal with |- match (if ?b then _ else _) with _ => _ end => destruct b eqn:Hx end; [|exact I];
         apply N.ltb_lt in Hx; rewrite (N.mod_small _ _ Hx); reflexivity|]).
  destruct kn; exact I.
Qed.

Lemma facs_run_sim md ops : forall v v', facs_fold v ops = Some v' ->
  run_steps (facs_step md) (facs_flds v) ops = Some (facs_flds v').
Proof.
  induction ops as [|o ops IH]; intros v v' H; cbn [facs_fold] in H.
  - inversion H; subst. reflexivity.
  - destruct (facs_apply v o) as [v1|] eqn:Ea; [|discriminate].
    pose proof (facs_step_sim md v o) as Hb. rewrite Ea in Hb.
    destruct o as [n|l]; [discriminate Ea|].
    cbn [run_steps]. rewrite Hb. apply IH. exact H.
Qed.

Theorem facs_refines :
  forall md ctor ops r,
    ts_image facs_spec ctor ops = Some r ->
    exists s0 s, facs_new ctor = Some s0 /\
                 run_steps (facs_step md) s0 ops = Some s /\
                 ser_flds s = r.
Proof.
  intros md ctor ops r H. cbn [ts_image facs_spec fixed_spec] in H. unfold facs_ref_image in H.
  destruct ctor as [|l]; [discriminate|]. destruct l as [|x l]; [|discriminate].
  destruct (facs_fold facs_vals0 ops) as [v|] eqn:Ef; [|discriminate].
  rewrite facs_flds_ref in H. inversion H; subst r; clear H.
  exists facs_new_flds, (facs_flds v). split; [reflexivity|]. split; [|reflexivity].
  rewrite facs_new_flds_abs. apply facs_run_sim. exact Ef.
Qed.

(* histories inside the Spec's domain contain no observation marker *)
Lemma facs_fold_no_markers ops : forall v v', facs_fold v ops = Some v' -> no_markers ops = true.
Proof.
  induction ops as [|o ops IH]; intros v v' H; [reflexivity|]. cbn [facs_fold] in H.
  destruct (facs_apply v o) as [v1|] eqn:Ea; [|discriminate].
  destruct o as [n|l]; [discriminate Ea|].
  cbn [no_markers forallb]. exact (IH _ _ H).
Qed.

Lemma facs_no_markers ctor ops r : ts_image facs_spec ctor ops = Some r -> no_markers ops = true.
Proof.
  cbn [ts_image facs_spec fixed_spec]. unfold facs_ref_image.
  destruct ctor as [|l]; [discriminate|]. destruct l as [|x l]; [|discriminate].
  destruct (facs_fold facs_vals0 ops) as [v|] eqn:Ef; [|discriminate]. intros _. eapply facs_fold_no_markers; eauto.
Qed.

(* non-vacuity: every field assigned (x_waking with a non-zero upper half), hardware_signature twice (the last value stays),
   observations in between: the Spec accepts the history, the model's case entry point emits the reference images, and the
   final image carries every value at its ACPI 6.5 offset with Length = 64 *)
Definition facs_example_ops1 : list sx := [SL [SA 10; SA 0; SA 0x11111111]; SL [SA 10; SA 4; SA 0xA1B2C3D400000005]].
Definition facs_example_ops2 : list sx :=
  [SL [SA 10; SA 1; SA 0x22222222]; SL [SA 10; SA 2; SA 3]; SL [SA 10; SA 3; SA 0x80000001]; SL [SA 10; SA 5; SA 2];
   SL [SA 10; SA 6; SA 0xFFFFFFFF]; SL [SA 10; SA 0; SA 0xDEADBEEF]].

Example facs_refines_nonvacuous :
  exists r1 r,
    ts_image facs_spec (SL []) facs_example_ops1 = Some r1 /\
    ts_image facs_spec (SL []) (facs_example_ops1 ++ facs_example_ops2) = Some r /\
    (forall md, exists evs1 evs2,
        facs_case md (SL (SL [] :: facs_example_ops1 ++ [SA 1] ++ facs_example_ops2 ++ [SA 1]))
        = evs1 ++ [EvBytes r1] ++ evs2 ++ [EvBytes r]) /\
    length r = 64%nat /\ field_at r 4 4 = 64 /\
    field_at r 8 4 = 0xDEADBEEF /\ field_at r 12 4 = 0x22222222 /\ field_at r 16 4 = 3 /\ field_at r 20 4 = 0x80000001 /\
    field_at r 24 8 = 0xA1B2C3D400000005 /\ firstn 4 (skipn 28 r) = [0xD4; 0xC3; 0xB2; 0xA1] /\
    field_at r 32 1 = 2 /\ field_at r 36 4 = 0xFFFFFFFF /\ field_at r1 8 4 = 0x11111111 /\ field_at r1 32 1 = 1.
Proof.
  eexists; eexists.
  split; [vm_compute; reflexivity|]. split; [vm_compute; reflexivity|]. split.
  - intros md. exists [EvNum 0; EvNum 0], [EvNum 0; EvNum 0; EvNum 0; EvNum 0; EvNum 0; EvNum 0].
    destruct md; vm_compute; reflexivity.
  - vm_compute. repeat split; reflexivity.
Qed.

Print Assumptions facs_refines.
Print Assumptions facs_refines_nonvacuous.
