(* Coherence of the Spec-layer oracles with the Impl model, for the pure kernels (components 1..6):
   on every case of the stated domain the oracle accepts the model's own output,
       oracle prop comp c (run_case md comp c) = true.
   Consequences: (i) on a case where the crate agrees with the model (K) the oracle cannot raise an alarm by itself;
   (ii) the executable judgements agree with the property theorems on all inputs, not only on the sampled ones.
   Every proof below goes through the lemmas behind Props/C07 C08 C09 C16 C17; nothing is reproved. *)
From Coq Require Import NArith ZArith List Lia Bool Arith.
From ACPI Require Import Lib.Bytes Lib.Sx Lib.Machine Impl.Checksum Spec.ChecksumS Impl.AmlCore Spec.AmlCoreS.
From ACPI Require Import Proofs.ChecksumP Proofs.BitsP Proofs.PkgLenP Proofs.IntP Proofs.PathP Proofs.EisaUuidP.
From ACPI Require Import Judge.
Import ListNotations.
Open Scope N_scope.

Ltac Zify.zify_post_hook ::= Z.to_euclidean_division_equations.

Lemma list_N_eqb_refl l : list_N_eqb l l = true.
Proof. now apply list_N_eqb_eq. Qed.

(* =====================================================================================================
   1. (17, 1)  ck_oracle / ck_case
   ===================================================================================================== *)

(* the case grammar ck_case accepts: a list of operations each of which ckop_of_sx parses *)
Definition ck_op_ok (o : sx) : bool := match ckop_of_sx o with Some _ => true | None => false end.
Definition ck_wf (c : sx) : bool := match c with SL ops => forallb ck_op_ok ops | SA _ => false end.

Lemma zsumS_zsum l : zsumS l = zsum l.
Proof. induction l as [|x l IH]; cbn [zsumS zsum]; [reflexivity|]. now rewrite IH. Qed.

(* the oracle's signed contribution of an operation is the model operation's (added - removed) *)
Lemma ck_delta_op o op : ckop_of_sx o = Some op -> ck_delta o = Some (op_added op - op_removed op)%Z.
Proof.
  intros H. unfold ckop_of_sx in H.
  repeat match type of H with
         | context [match ?x with _ => _ end] => is_var x; destruct x; try discriminate H
         end;
    try (inversion H; subst; clear H; cbn [ck_delta op_added op_removed]; rewrite ?zsumS_zsum; f_equal; lia).
  all: match type of H with option_map _ (sx_bytes ?l) = _ => destruct (sx_bytes l) as [bs|] eqn:Eb; [|discriminate H] end;
    cbn [option_map] in H; inversion H; subst; clear H;
    cbn [ck_delta]; rewrite Eb; cbn [option_map op_added op_removed]; rewrite ?zsumS_zsum; f_equal; lia.
Qed.

Lemma coh_ck_go ops : forall s acc,
  s < 256 -> Z.of_N s = (acc mod 256)%Z -> forallb ck_op_ok ops = true ->
  ck_oracle_go acc ops (ck_trace s ops) = true.
Proof.
  induction ops as [|o ops IH]; intros s acc Hs Hacc Hwf; [reflexivity|].
  cbn [forallb] in Hwf. apply andb_true_iff in Hwf. destruct Hwf as [Ho Hwf].
  unfold ck_op_ok in Ho. destruct (ckop_of_sx o) as [op|] eqn:Eo; [clear Ho|discriminate Ho].
  cbn [ck_trace]. rewrite Eo. cbn [ck_oracle_go]. rewrite (ck_delta_op o op Eo).
  pose proof (ck_step_lt s op Hs) as Hs'.
  pose proof (ck_step_Z s op) as HZ.
  destruct (ck_value_spec (ck_step s op) Hs') as [Hv1 Hv2].
  unfold ck_raw in *.
  assert (Hraw : Z.of_N (ck_step s op) = ((acc + (op_added op - op_removed op)) mod 256)%Z).
  { rewrite Hacc in HZ. rewrite <- Z.add_sub_assoc in HZ. rewrite Zplus_mod_idemp_l in HZ.
    rewrite Z.mod_small in HZ by lia. exact HZ. }
  assert (Hsum : ((Z.of_N (ck_step s op) + Z.of_N (ck_value (ck_step s op))) mod 256 = 0)%Z) by lia.
  repeat (apply andb_true_iff; split).
  - apply Z.eqb_eq. exact Hraw.
  - apply Z.eqb_eq. exact Hsum.
  - apply N.ltb_lt. exact Hv2.
  - apply IH; [exact Hs'|exact Hraw|exact Hwf].
Qed.

Lemma coh_ck_kernel c : ck_wf c = true -> ck_oracle c (ck_case c) = true.
Proof.
  destruct c as [n|ops]; cbn [ck_wf]; intros H; [discriminate H|].
  cbn [ck_oracle ck_case]. apply coh_ck_go; [lia|reflexivity|exact H].
Qed.

Lemma coh_ck_driver md c : ck_wf c = true -> oracle 17 1 c (run_case md 1 c) = true.
Proof. intros H. exact (coh_ck_kernel c H). Qed.

(* outside the grammar the model reports a panic and the oracle does not accept it: the domain is the largest one *)
Lemma coh_ck_sharp c : ck_oracle c (ck_case c) = true -> ck_wf c = true.
Proof.
  destruct c as [n|ops]; cbn [ck_oracle ck_case ck_wf]; intros H; [discriminate H|].
  revert H. generalize 0%N. generalize 0%Z.
  induction ops as [|o ops IH]; intros acc s H; [reflexivity|].
  cbn [forallb]. cbn [ck_trace] in H. unfold ck_op_ok at 1.
  destruct (ckop_of_sx o) as [op|]; [|cbn [ck_oracle_go] in H; discriminate H].
  cbn [ck_oracle_go] in H. destruct (ck_delta o); [|discriminate H].
  apply andb_true_iff in H. destruct H as [_ H]. cbn [andb]. exact (IH _ _ H).
Qed.

(* =====================================================================================================
   2. (7, 2) and (18, 2)  pkglen_oracle / pkglen_oracle18 / pkglen_case
   ===================================================================================================== *)

(* In the overflow-checking profile every n; in the wrapping profile the sum len + length_length must not leave usize
   (otherwise the MODEL, like the code, wraps the sum and emits bytes for a small total: see coh_pkglen_wrap_counterexample) *)
Definition pkg_dom (md : mode) (n : N) (incl : bool) : bool :=
  match md with Checked => true | Wrapping => n + (if incl then 4 else 0) <? 2 ^ 64 end.

Lemma pkg_ll_le4 n : 1 <= pkg_ll n <= 4.
Proof. destruct (pkg_ll_cases n) as [[_ ->]|[[_ ->]|[[_ ->]|[_ ->]]]]; lia. Qed.

Lemma pkg_len_eval md n incl :
  pkg_dom md n incl = true ->
  pkg_len md n incl =
  (if n + (if incl then pkg_ll n else 0) <? 2 ^ 28
   then Some (pkg_bytes (pkg_ll n) (n + (if incl then pkg_ll n else 0))) else None).
Proof.
  intros Hd. rewrite pkg_len_unfold. unfold add_m.
  pose proof (pkg_ll_le4 n) as Hll.
  destruct (N.ltb_spec (n + (if incl then pkg_ll n else 0)) U64) as [Hlt|Hge].
  - cbn [option_bind]. destruct (n + (if incl then pkg_ll n else 0) <? 2 ^ 28); reflexivity.
  - unfold U64 in Hge. change (2 ^ 64) with 18446744073709551616 in Hge.
    assert (Hf : n + (if incl then pkg_ll n else 0) <? 2 ^ 28 = false).
    { apply N.ltb_ge. change (2 ^ 28) with 268435456. lia. }
    rewrite Hf. destruct md; [reflexivity|].
    exfalso. cbn [pkg_dom] in Hd. apply N.ltb_lt in Hd. change (2 ^ 64) with 18446744073709551616 in Hd.
    destruct incl; lia.
Qed.

Lemma pkg_bytes_ok n tot : bytes_ok (pkg_bytes (pkg_ll n) tot) = true.
Proof.
  assert (Hc : forall x, is_byte (cast U8 x) = true).
  { intros x. unfold is_byte, cast, U8. apply N.ltb_lt. apply N.mod_lt. change (2 ^ 8) with 256. lia. }
  assert (Hl : forall c, c < 4 -> is_byte (N.lor (N.shiftl c 6) (cast U8 (N.land tot 15))) = true).
  { intros c Hc4. rewrite lor_shiftl_6 by apply nib_lt. pose proof (nib_lt tot) as Hn.
    unfold is_byte. apply N.ltb_lt. lia. }
  destruct (pkg_ll_cases n) as [[_ ->]|[[_ ->]|[[_ ->]|[_ ->]]]]; cbn [pkg_bytes bytes_ok forallb];
    rewrite ?Hc, ?Hl by lia; reflexivity.
Qed.

Lemma lead_ok_bool e : lead_ok e -> pkg_lead_format_ok e = true.
Proof.
  destruct e as [|b0 [|b1 r]]; cbn [lead_ok pkg_lead_format_ok]; intros H.
  - destruct H.
  - now apply N.ltb_lt.
  - destruct H as (H1 & H2 & H3). rewrite H1, H2, !N.eqb_refl. cbn [andb]. now apply Nat.leb_le.
Qed.

Lemma pkg_minimal_bool n e :
  (forall w, (1 <= w < length e)%nat -> pkg_cap w < n + N.of_nat w) -> pkg_minimal n e = true.
Proof.
  intros H. unfold pkg_minimal. apply forallb_forall. intros w Hin.
  destruct (Nat.ltb_spec w (length e)) as [Hw|Hw]; [|reflexivity].
  apply N.ltb_lt. apply H. cbn [In] in Hin. destruct Hin as [<-|[<-|[<-|[]]]]; lia.
Qed.

Lemma pkg_representable_spec n incl :
  pkg_representable n incl = (n + (if incl then pkg_ll n else 0) <? 2 ^ 28).
Proof.
  unfold pkg_representable. cbn [pkg_cap].
  change (2 ^ 12 - 1) with 4095. change (2 ^ 20 - 1) with 1048575. change (2 ^ 28 - 1) with 268435455.
  change (2 ^ 28) with 268435456.
  destruct incl.
  - destruct (pkg_ll_cases n) as [[Hr ->]|[[Hr ->]|[[Hr ->]|[Hr ->]]]];
      destruct (N.leb_spec (n + 1) 63); destruct (N.leb_spec (n + 2) 4095); destruct (N.leb_spec (n + 3) 1048575);
      destruct (N.leb_spec (n + 4) 268435455); cbn [orb]; symmetry;
      first [apply N.ltb_lt; lia | apply N.ltb_ge; lia].
  - rewrite N.add_0_r. destruct (N.leb_spec n 268435455); symmetry; [apply N.ltb_lt|apply N.ltb_ge]; lia.
Qed.

Lemma coh_pkglen_kernel md n i :
  pkg_dom md n (negb (i =? 0)) = true ->
  pkglen_oracle (SL [SA n; SA i]) (pkglen_case md (SL [SA n; SA i])) = true.
Proof.
  intros Hd. cbn [pkglen_oracle pkglen_case]. cbv zeta.
  set (incl := negb (i =? 0)) in *.
  pose proof (pkg_len_eval md n incl Hd) as Hev.
  destruct (N.ltb_spec (n + (if incl then pkg_ll n else 0)) (2 ^ 28)) as [Hlt|Hge].
  - (* accepted *)
    assert (Hn : n < 2 ^ 63).
    { change (2 ^ 28) with 268435456 in Hlt. change (2 ^ 63) with 9223372036854775808. lia. }
    rewrite Hev. cbn [ev_opt]. rewrite pkg_bytes_ok. cbn [andb].
    destruct incl.
    + destruct (pkg_len_incl_correct md n _ [0xAA] Hn Hev) as (Hdec & Hlead & Hmin).
      rewrite Hdec. cbn [opt_eqb_Nl]. rewrite N.eqb_refl, list_N_eqb_refl. cbn [andb].
      rewrite (lead_ok_bool _ Hlead). cbn [andb]. apply pkg_minimal_bool. exact Hmin.
    + destruct (pkg_len_excl_correct md n _ [0xAA] Hn Hev) as (Hdec & Hlead).
      rewrite Hdec. cbn [opt_eqb_Nl]. replace (n =? n + 0) with true by (symmetry; apply N.eqb_eq; lia). rewrite list_N_eqb_refl. cbn [andb].
      rewrite (lead_ok_bool _ Hlead). reflexivity.
  - (* refused *)
    rewrite Hev. cbn [ev_opt]. rewrite pkg_representable_spec.
    apply N.ltb_ge in Hge. rewrite Hge. reflexivity.
Qed.

Lemma coh_pkglen18_kernel md n i :
  pkg_dom md n (negb (i =? 0)) = true ->
  pkglen_oracle18 (SL [SA n; SA i]) (pkglen_case md (SL [SA n; SA i])) = true.
Proof.
  intros Hd. cbn [pkglen_oracle18 pkglen_case]. cbv zeta.
  set (incl := negb (i =? 0)) in *.
  rewrite pkg_representable_spec. rewrite (pkg_len_eval md n incl Hd).
  destruct (n + (if incl then pkg_ll n else 0) <? 2 ^ 28); reflexivity.
Qed.

Lemma coh_pkglen_driver md n i :
  pkg_dom md n (negb (i =? 0)) = true ->
  oracle 7 2 (SL [SA n; SA i]) (run_case md 2 (SL [SA n; SA i])) = true.
Proof. intros H. exact (coh_pkglen_kernel md n i H). Qed.

Lemma coh_pkglen18_driver md n i :
  pkg_dom md n (negb (i =? 0)) = true ->
  oracle 18 2 (SL [SA n; SA i]) (run_case md 2 (SL [SA n; SA i])) = true.
Proof. intros H. exact (coh_pkglen18_kernel md n i H). Qed.

(* the sizes C07 covers, as asked: both forms, both profiles *)
Lemma coh_pkglen_c07_sizes md n i :
  (if i =? 0 then n < 2 ^ 28 else n + 4 < 2 ^ 28) ->
  oracle 7 2 (SL [SA n; SA i]) (run_case md 2 (SL [SA n; SA i])) = true.
Proof.
  intros H. apply coh_pkglen_driver. destruct md; [reflexivity|]. cbn [pkg_dom]. apply N.ltb_lt.
  change (2 ^ 28) with 268435456 in H. change (2 ^ 64) with 18446744073709551616.
  destruct (i =? 0); cbn [negb]; lia.
Qed.

(* C18: in the overflow-checking profile, every n whatsoever; in the wrapping profile every n with n + 4 inside usize *)
Lemma coh_pkglen18_checked n i :
  oracle 18 2 (SL [SA n; SA i]) (run_case Checked 2 (SL [SA n; SA i])) = true.
Proof. apply coh_pkglen18_driver. reflexivity. Qed.

Lemma coh_pkglen18_wrapping n i :
  n + 4 < 2 ^ 64 -> oracle 18 2 (SL [SA n; SA i]) (run_case Wrapping 2 (SL [SA n; SA i])) = true.
Proof.
  intros H. apply coh_pkglen18_driver. cbn [pkg_dom]. apply N.ltb_lt.
  change (2 ^ 64) with 18446744073709551616 in *. destruct (negb (i =? 0)); lia.
Qed.

(* the domain is sharp on usize: for a usize n outside pkg_dom (wrapping profile, inclusive form, n + 4 >= 2^64) the
   model emits bytes for the wrapped total and BOTH oracles reject them *)
Lemma coh_pkglen_wrap_sharp n i :
  n < 2 ^ 64 -> pkg_dom Wrapping n (negb (i =? 0)) = false ->
  oracle 7 2 (SL [SA n; SA i]) (run_case Wrapping 2 (SL [SA n; SA i])) = false /\
  oracle 18 2 (SL [SA n; SA i]) (run_case Wrapping 2 (SL [SA n; SA i])) = false.
Proof.
  intros Hn Hd. cbn [pkg_dom] in Hd. apply N.ltb_ge in Hd.
  change (2 ^ 64) with 18446744073709551616 in *.
  change (oracle 7 2 (SL [SA n; SA i]) (run_case Wrapping 2 (SL [SA n; SA i])))
    with (pkglen_oracle (SL [SA n; SA i]) (pkglen_case Wrapping (SL [SA n; SA i]))).
  change (oracle 18 2 (SL [SA n; SA i]) (run_case Wrapping 2 (SL [SA n; SA i])))
    with (pkglen_oracle18 (SL [SA n; SA i]) (pkglen_case Wrapping (SL [SA n; SA i]))).
  cbn [pkglen_oracle pkglen_oracle18 pkglen_case]. cbv zeta.
  destruct (negb (i =? 0)); [|lia].
  assert (n = 18446744073709551612 \/ n = 18446744073709551613 \/ n = 18446744073709551614 \/ n = 18446744073709551615)
    as [->|[->|[->| ->]]] by lia; vm_compute; split; reflexivity.
Qed.

(* =====================================================================================================
   3. (8, 3)  int_oracle / int_case
   ===================================================================================================== *)

(* the carrier of a type tag: 8 / 16 / 32 / 64 and 0 = usize (64-bit target) *)
Definition int_carrier (ty : N) : option N :=
  if ty =? 8 then Some (2 ^ 8) else if ty =? 16 then Some (2 ^ 16) else if ty =? 32 then Some (2 ^ 32)
  else if ty =? 64 then Some (2 ^ 64) else if ty =? 0 then Some (2 ^ 64) else None.

Definition int_dom (ty n : N) : bool := match int_carrier ty with Some m => n <? m | None => false end.

Lemma int_oracle_spec_int ty n e : n < 2 ^ 64 -> e = spec_int n -> int_oracle (SL [SA ty; SA n]) [EvBytes e] = true.
Proof.
  intros Hn ->. cbn [int_oracle]. rewrite list_N_eqb_refl. cbn [andb].
  pose proof (int_decode_spec_int n [] Hn) as Hd. rewrite app_nil_r in Hd. rewrite Hd.
  cbn [opt_eqb_Nl list_N_eqb]. now rewrite N.eqb_refl.
Qed.

Lemma coh_int_kernel ty n :
  int_dom ty n = true -> int_oracle (SL [SA ty; SA n]) (int_case (SL [SA ty; SA n])) = true.
Proof.
  unfold int_dom, int_carrier. intros H.
  destruct (N.eqb_spec ty 8) as [->|N8];
    [|destruct (N.eqb_spec ty 16) as [->|N16];
      [|destruct (N.eqb_spec ty 32) as [->|N32];
        [|destruct (N.eqb_spec ty 64) as [->|N64];
          [|destruct (N.eqb_spec ty 0) as [->|N0]; [|discriminate H]]]]];
    apply N.ltb_lt in H; cbn [int_case]; apply int_oracle_spec_int;
    try exact H; try (eapply N.lt_trans; [exact H|reflexivity]).
  - now apply enc_u8_spec.
  - now apply enc_u16_spec.
  - now apply enc_u32_spec.
  - apply enc_u64_spec.
  - now apply enc_usize_spec.
Qed.

Lemma coh_int_driver md ty n :
  int_dom ty n = true -> oracle 8 3 (SL [SA ty; SA n]) (run_case md 3 (SL [SA ty; SA n])) = true.
Proof. intros H. exact (coh_int_kernel ty n H). Qed.

(* =====================================================================================================
   4. (9, 4) and (18, 4)  path_oracle / path_case  -- every string of atoms, no condition on the characters
   ===================================================================================================== *)

Lemma spec_split_cons c r :
  spec_split (c :: r) =
  if c =? 0x2E then [] :: spec_split r else match spec_split r with x :: r' => (c :: x) :: r' | [] => [[c]] end.
Proof. reflexivity. Qed.

(* the Spec's right fold and the model's accumulator loop split a text at the dots in the same way *)
Lemma split_dot_spec_split s : forall cur,
  exists x xs, spec_split s = x :: xs /\ split_dot cur s = (rev cur ++ x) :: xs.
Proof.
  induction s as [|c r IH]; intros cur.
  - exists [], []. split; [reflexivity|]. cbn [split_dot]. now rewrite app_nil_r.
  - rewrite spec_split_cons. cbn [split_dot]. destruct (c =? 0x2E).
    + destruct (IH []) as (x & xs & E1 & E2). exists [], (x :: xs). split; [now rewrite E1|].
      rewrite E2. cbn [rev app]. now rewrite app_nil_r.
    + destruct (IH (c :: cur)) as (x & xs & E1 & E2). exists (c :: x), xs. split; [now rewrite E1|].
      rewrite E2. cbn [rev]. now rewrite <- app_assoc.
Qed.

Lemma spec_split_is_split_dot s : spec_split s = split_dot [] s.
Proof. destruct (split_dot_spec_split s []) as (x & xs & E1 & E2). rewrite E1, E2. reflexivity. Qed.

Lemma spec_path_form_by_length root parts :
  spec_path_form root parts =
  (if root then [0x5C] else []) ++
  (match length parts with 1%nat => [] | 2%nat => [0x2E] | k => [0x2F; N.of_nat k] end) ++ concat parts.
Proof. destruct parts as [|a [|b [|c r]]]; reflexivity. Qed.

Lemma coh_path_kernel c s : sx_bytes c = Some s -> path_oracle c (path_case c) = true.
Proof.
  intros Hs. unfold path_oracle, path_case. rewrite Hs. cbv zeta.
  rewrite spec_split_is_split_dot. unfold path_new.
  set (root := match s with ch :: _ => ch =? 0x5C | [] => false end).
  set (parts := split_dot [] (if root then tl s else s)).
  destruct (forallb (fun p => Nat.eqb (length p) 4) parts) eqn:H4; cbn [negb option_bind ev_opt]; [|reflexivity].
  set (p := {| p_root := root; p_parts := parts |}).
  destruct (Nat.ltb_spec 255 (length parts)) as [Hbig|Hfit].
  - rewrite (path_enc_refuse p) by (right; exact Hbig). reflexivity.
  - destruct (forallb is_nameseg parts) eqn:Hseg; [|reflexivity].
    assert (Hwf : wf_parts (p_parts p)).
    { unfold wf_parts. apply Forall_forall. intros x Hx. rewrite forallb_forall in Hseg. now apply Hseg. }
    assert (Hlen : (1 <= length (p_parts p) <= 255)%nat).
    { cbn [p p_parts]. split; [|exact Hfit]. subst parts.
      destruct (split_dot [] (if root then tl s else s)) eqn:E; [now apply split_dot_nonempty in E|cbn [length]; lia]. }
    destruct (path_enc_decode p [0xAA] Hwf Hlen) as (e & E1 & E2 & _ & E4).
    rewrite E1. cbn [ev_opt]. rewrite E2. cbn [p_root p_parts p] in *.
    rewrite spec_path_form_by_length, <- E4.
    rewrite !list_N_eqb_refl, Bool.eqb_reflx, Nat.eqb_refl. reflexivity.
Qed.

Lemma coh_path_driver md c s : sx_bytes c = Some s -> oracle 9 4 c (run_case md 4 c) = true.
Proof. intros H. exact (coh_path_kernel c s H). Qed.

Lemma coh_path18_driver md c s : sx_bytes c = Some s -> oracle 18 4 c (run_case md 4 c) = true.
Proof. intros H. exact (coh_path_kernel c s H). Qed.

(* a case that is not a list of atoms is outside the grammar: the oracle rejects whatever is observed *)
Lemma coh_path_sharp c impl : sx_bytes c = None -> path_oracle c impl = false.
Proof. intros H. unfold path_oracle. now rewrite H. Qed.

(* =====================================================================================================
   5. (16, 5)  eisa_oracle / eisa_case  -- every string of atoms
   ===================================================================================================== *)

Lemma not_hex_any_digit h : is_hex_any h = false -> hex_digit h = None.
Proof.
  unfold is_hex_any, hex_digit. intros H.
  apply orb_false_iff in H. destruct H as [H H3]. apply orb_false_iff in H. destruct H as [H1 H2].
  now rewrite H1, H2, H3.
Qed.

Lemma coh_eisa_kernel c s : sx_bytes c = Some s -> eisa_oracle c (eisa_case c) = true.
Proof.
  intros Hs. unfold eisa_oracle, eisa_case. rewrite Hs.
  destruct (valid_eisa s) eqn:Hv.
  - (* valid: emitted, and the value decompresses back *)
    destruct (eisa_roundtrip s Hv) as (v & E & Hlt & D).
    rewrite (eisa_emitted s v E). cbn [ev_opt].
    rewrite enc_u32_spec by exact Hlt.
    assert (H64 : v < 2 ^ 64) by (eapply N.lt_trans; [exact Hlt|reflexivity]).
    pose proof (int_decode_spec_int v [] H64) as Hd. rewrite app_nil_r in Hd. rewrite Hd.
    rewrite D, list_N_eqb_refl. apply N.ltb_lt in Hlt. now rewrite Hlt.
  - destruct (negb (Nat.eqb (length s) 7) || negb (forallb is_hex_any (skipn 3 s))) eqn:Hbad; [|reflexivity].
    (* wrong length or a non-hex character among the last four: refused *)
    assert (Hnone : eisa_value s = None).
    { apply orb_true_iff in Hbad. destruct Hbad as [Hl|Hh].
      - apply eisa_refuse_length. apply negb_true_iff in Hl. now apply Nat.eqb_neq in Hl.
      - destruct s as [|c0 [|c1 [|c2 [|h3 [|h4 [|h5 [|h6 [|x s]]]]]]]]; try reflexivity.
        apply eisa_refuse_digit. apply negb_true_iff in Hh. cbn [skipn forallb] in Hh.
        rewrite andb_true_r in Hh.
        apply andb_false_iff in Hh. destruct Hh as [Hh|Hh]; [left; now apply not_hex_any_digit|right].
        apply andb_false_iff in Hh. destruct Hh as [Hh|Hh]; [left; now apply not_hex_any_digit|right].
        apply andb_false_iff in Hh. destruct Hh as [Hh|Hh]; [left|right]; now apply not_hex_any_digit. }
    unfold eisa_enc. rewrite Hnone. reflexivity.
Qed.

Lemma coh_eisa_driver md c s : sx_bytes c = Some s -> oracle 16 5 c (run_case md 5 c) = true.
Proof. intros H. exact (coh_eisa_kernel c s H). Qed.

(* =====================================================================================================
   6. (16, 6)  uuid_oracle / uuid_case  -- every string of atoms, both profiles
   ===================================================================================================== *)

Lemma forallb_false_ex {A} (f : A -> bool) l : forallb f l = false -> exists x, In x l /\ f x = false.
Proof.
  induction l as [|a l IH]; cbn [forallb]; intros H; [discriminate H|].
  apply andb_false_iff in H. destruct H as [H|H].
  - exists a. split; [now left|exact H].
  - destruct (IH H) as (x & Hin & Hx). exists x. split; [now right|exact Hx].
Qed.

(* the sixteen pairs read every position of the 36 that is not a separator *)
Definition uuid_pair_of (i : nat) : option (nat * nat) :=
  find (fun '(a, b) => Nat.eqb a i || Nat.eqb b i) uuid_order.

Lemma uuid_order_covers i :
  In i (seq 0 36) -> existsb (Nat.eqb i) [8; 13; 18; 23]%nat = false ->
  exists a b, In (a, b) uuid_order /\ (i = a \/ i = b).
Proof.
  intros Hin Hsep.
  assert (Hf : exists a b, uuid_pair_of i = Some (a, b)).
  { cbn [seq In] in Hin.
    repeat (destruct Hin as [<-|Hin]; [first [discriminate Hsep | eexists; eexists; reflexivity]|]). destruct Hin. }
  destruct Hf as (a & b & Hf). exists a, b. unfold uuid_pair_of in Hf.
  apply find_some in Hf. destruct Hf as [Hin' Hab]. split; [exact Hin'|].
  apply orb_true_iff in Hab. destruct Hab as [H|H]; apply Nat.eqb_eq in H; [left|right]; now symmetry.
Qed.

Lemma uuid_not_canonical_refused s : canonical_uuid s = false -> uuid_bytes s = None.
Proof.
  unfold canonical_uuid. intros H. apply andb_false_iff in H. destruct H as [H|H].
  - apply uuid_refuse_length. now apply Nat.eqb_neq.
  - apply forallb_false_ex in H. destruct H as (i & Hin & Hi).
    destruct (existsb (Nat.eqb i) [8; 13; 18; 23]%nat) eqn:Hsep.
    + apply (uuid_refuse_dash s i); [|now apply N.eqb_neq].
      apply existsb_exists in Hsep. destruct Hsep as (j & Hj & Ej). apply Nat.eqb_eq in Ej. now subst.
    + destruct (uuid_order_covers i Hin Hsep) as (a & b & Hab & Hor).
      apply (uuid_refuse_digit s a b Hab). apply not_hex_any_digit in Hi.
      destruct Hor as [<-|<-]; [left|right]; exact Hi.
Qed.

Lemma coh_uuid_kernel md c s : sx_bytes c = Some s -> uuid_oracle c (uuid_case md c) = true.
Proof.
  intros Hs. unfold uuid_oracle, uuid_case. rewrite Hs.
  destruct (canonical_uuid s) eqn:Hc.
  - destruct (uuid_roundtrip s Hc) as (b & E & L & S).
    destruct (buffer16 md b [] L) as [B1 B2]. rewrite app_nil_r in B2.
    unfold uuid_enc. rewrite E. cbn [option_bind]. rewrite B1. cbn [ev_opt]. rewrite B2.
    rewrite L, S, list_N_eqb_refl. reflexivity.
  - unfold uuid_enc. rewrite (uuid_not_canonical_refused s Hc). reflexivity.
Qed.

Lemma coh_uuid_driver md c s : sx_bytes c = Some s -> oracle 16 6 c (run_case md 6 c) = true.
Proof. intros H. exact (coh_uuid_kernel md c s H). Qed.
