(* C11 instances, MADT: GICC (enabled status x performance-interrupt trigger x VGIC-maintenance trigger), GIC MSI frame
   (the "SPI values supplied" flag), Processor Local APIC and RINTC enable states.  All statements are about the bytes of the
   entry the Impl model of madt.rs emits (`a_bytes` of the addition), read at the SPECIFICATION offsets of Spec/OptionsS.v. *)
From Coq Require Import NArith ZArith List Lia Bool Arith ZifyBool ZifyNat ZifyN.
From ACPI Require Import Lib.Bytes Lib.Sx Lib.Machine Impl.Table Impl.Fields Impl.Madt Spec.Layout Spec.OptionsS
  Proofs.FlagsP Proofs.FadtP Proofs.WalkRefCommon2P Proofs.C11CommonP.
Import ListNotations.
Open Scope N_scope.

(* ================= GICC ================= *)
Definition GICC_WS : list nat := Eval vm_compute in widths (gicc_new 0).
(* Gicc::new(EnabledStatus::Disabled) with no builder call *)
Definition GICC_BLANK : list N := Eval vm_compute in ser_flds (gicc_new 0).

Lemma gicc_step f o f' : widths f = GICC_WS -> True -> gicc_setter f o = Some f' ->
  widths f' = GICC_WS /\ True /\ fget f' 5 = N.lor (fget f 5) (gicc_call_bit o) /\
  forall j, j <> 5%nat -> ~ In (fld_range GICC_WS j) (gicc_call_ranges o) -> fget f' j = fget f j.
Proof.
  intros Hw _ H.
  assert (Hl : length f = 19%nat) by (rewrite <- widths_length, Hw; reflexivity).
  unfold gicc_setter in H. dmatch_in H; inversion H; subst f'; clear H;
    (split; [rewrite ?widths_fset, ?widths_f_or; try (destruct (_ =? 1)); rewrite ?widths_fset, ?widths_f_or; exact Hw|]);
    (split; [exact I|]); cbn [gicc_call_bit gicc_call_ranges];
    try (destruct (_ =? 1));
    (split; [fg0; rewrite ?N.lor_0_r; reflexivity | intros j Hj Hn; fg Hn; reflexivity]).
Qed.

Lemma gicc_new_flags status : fget (gicc_new status) 5 = gicc_status_bits status.
Proof. reflexivity. Qed.

Lemma gicc_call_bit_small o : gicc_call_bit o < 2 ^ (8 * N.of_nat (fwid GICC_WS 5)).
Proof. unfold gicc_call_bit. dmatch_goal; try (destruct (_ =? 1)); reflexivity. Qed.

Lemma gicc_blank_frame status k : ~ in_range k (12, 4)%nat -> nth k (ser_flds (gicc_new status)) 0 = nth k GICC_BLANK 0.
Proof.
  intros Hk.
  change (ser_flds (gicc_new status)) with ([0xB; 82; 0; 0; 0; 0; 0; 0; 0; 0; 0; 0] ++ le 4 (gicc_status_bits status) ++ skipn 16 GICC_BLANK).
  change GICC_BLANK with ([0xB; 82; 0; 0; 0; 0; 0; 0; 0; 0; 0; 0] ++ le 4 0 ++ skipn 16 GICC_BLANK).
  apply nth_mid_frame. exact Hk.
Qed.

(* for EVERY constructor status and EVERY sequence of builder calls the model accepts: the entry is 82 bytes, its Flags dword
   (offset 12) is the union of the status bits and of the bits of the edge-trigger options invoked, and every byte outside
   the Flags dword and outside the value fields of the calls made is the byte of a blank Gicc::new(Disabled) *)
Theorem madt_gicc_options s status st e :
  madt_addition s (SL [SA 3; SA status; SL st]) = Some e ->
  length (a_bytes e) = 82%nat /\
  field_at (a_bytes e) 12 4 = N.lor (gicc_status_bits status) (big_or (map gicc_call_bit st)) /\
  forall k, ~ in_ranges k (gicc_flags_at :: concat (map gicc_call_ranges st)) -> nth k (a_bytes e) 0 = nth k GICC_BLANK 0.
Proof.
  unfold madt_addition. cbn [andb assert option_bind madt_entry]. rewrite apply_setters_fold.
  destruct (fold_opt gicc_setter (gicc_new status) st) as [f|] eqn:E; [|discriminate].
  cbn [option_bind]. intros H; inversion H; subst e; clear H. cbn [a_bytes].
  assert (Hs : fget (gicc_new status) 5 < 2 ^ (8 * N.of_nat (fwid GICC_WS 5))).
  { rewrite gicc_new_flags. unfold gicc_status_bits. dmatch_goal; reflexivity. }
  destruct (flag_bytes gicc_setter GICC_WS 5 (fun _ => True) gicc_call_bit gicc_call_ranges ltac:(cbn; lia)
              gicc_call_bit_small gicc_step st (gicc_new status) f eq_refl I Hs E) as (Hlen & Hfl & Hfr).
  split; [exact Hlen|]. split; [exact Hfl|].
  intros k Hk. rewrite (Hfr k Hk). apply gicc_blank_frame.
  intros Hr. apply Hk. exists gicc_flags_at. split; [now left|exact Hr].
Qed.

(* distinctness: the four options own four different single bits of the 32-bit word *)
Lemma gicc_options_distinct : distinct_single_bits gicc_option_table && below (2 ^ 32) gicc_option_table = true.
Proof. reflexivity. Qed.

(* ================= GIC MSI frame ================= *)
Definition GICMSI_WS : list nat := Eval vm_compute in widths gicmsi_new.
Definition GICMSI_BLANK : list N := Eval vm_compute in ser_flds gicmsi_new.

(* the model assigns flags = 1 (it does not OR): equivalent because bit 0 is the only bit any builder sets *)
Lemma gicmsi_step f o f' : widths f = GICMSI_WS -> fget f 5 <= 1 -> gicmsi_setter f o = Some f' ->
  widths f' = GICMSI_WS /\ fget f' 5 <= 1 /\ fget f' 5 = N.lor (fget f 5) (gicmsi_call_bit o) /\
  forall j, j <> 5%nat -> ~ In (fld_range GICMSI_WS j) (gicmsi_call_ranges o) -> fget f' j = fget f j.
Proof.
  intros Hw HI H.
  assert (Hl : length f = 8%nat) by (rewrite <- widths_length, Hw; reflexivity).
  assert (H01 : fget f 5 = 0 \/ fget f 5 = 1) by lia.
  unfold gicmsi_setter in H. dmatch_in H; inversion H; subst f'; clear H;
    (split; [rewrite ?widths_fset; exact Hw|]);
    unfold gicmsi_call_bit; cbn [gicmsi_supplies_spi gicmsi_call_ranges];
    (split; [fg0; lia|]);
    (split; [fg0; destruct H01 as [-> | ->]; reflexivity | intros j Hj Hn; fg Hn; reflexivity]).
Qed.

Lemma gicmsi_call_bit_small o : gicmsi_call_bit o < 2 ^ (8 * N.of_nat (fwid GICMSI_WS 5)).
Proof. unfold gicmsi_call_bit. destruct (gicmsi_supplies_spi o); reflexivity. Qed.

(* union + frame + gating: the Flags dword (offset 16) is 1 exactly when spi_count_and_base was called, 0 otherwise;
   bytes outside the flag and the value fields of the calls made (in particular SPI count / base when never supplied) are
   those of GicMsi::new() *)
Theorem madt_gicmsi_options s st e :
  madt_addition s (SL [SA 5; SL st]) = Some e ->
  length (a_bytes e) = 24%nat /\
  field_at (a_bytes e) 16 4 = big_or (map gicmsi_call_bit st) /\
  field_at (a_bytes e) 16 4 = (if existsb gicmsi_supplies_spi st then 1 else 0) /\
  forall k, ~ in_ranges k (gicmsi_flags_at :: concat (map gicmsi_call_ranges st)) -> nth k (a_bytes e) 0 = nth k GICMSI_BLANK 0.
Proof.
  unfold madt_addition. cbn [andb assert option_bind madt_entry]. rewrite apply_setters_fold.
  destruct (fold_opt gicmsi_setter gicmsi_new st) as [f|] eqn:E; [|discriminate].
  cbn [option_bind]. intros H; inversion H; subst e; clear H. cbn [a_bytes].
  destruct (flag_bytes gicmsi_setter GICMSI_WS 5 (fun f => fget f 5 <= 1) gicmsi_call_bit gicmsi_call_ranges ltac:(cbn; lia)
              gicmsi_call_bit_small gicmsi_step st gicmsi_new f eq_refl ltac:(cbn; lia) ltac:(reflexivity) E) as (Hlen & Hfl & Hfr).
  change (fget gicmsi_new 5) with 0 in Hfl. rewrite N.lor_0_l in Hfl.
  change (foff GICMSI_WS 5) with 16%nat in Hfl. change (fwid GICMSI_WS 5) with 4%nat in Hfl.
  split; [exact Hlen|]. split; [exact Hfl|]. split; [|exact Hfr].
  rewrite Hfl. unfold gicmsi_call_bit. apply big_or_if.
Qed.

(* ================= Processor Local APIC, RINTC: the enable state is a constructor argument ================= *)
Lemma enable_states_distinct : distinct_single_bits enable_state_table = true /\
  map enable_state_bits [0; 1; 2] = [0; 1; 2].
Proof. split; reflexivity. Qed.

(* the Flags dword (offset 4) is the enable state's value; for the three states of the enumeration it is the
   specification's bit (none / b0 enabled / b1 online capable); nothing else depends on the state *)
Theorem madt_lapic_enable s uid id en e :
  madt_addition s (SL [SA 1; SA uid; SA id; SA en]) = Some e ->
  length (a_bytes e) = 8%nat /\
  field_at (a_bytes e) 4 4 = en mod 2 ^ 32 /\
  (en < 3 -> field_at (a_bytes e) 4 4 = enable_state_bits en) /\
  forall k, ~ in_range k lapic_flags_at -> nth k (a_bytes e) 0 = nth k (ser_flds (local_apic uid id 0)) 0.
Proof.
  unfold madt_addition. cbn [andb assert option_bind madt_entry]. intros H; inversion H; subst e; clear H. cbn [a_bytes].
  assert (Hshape : forall x, ser_flds (local_apic uid id x) = (b1 0 ++ b1 8 ++ b1 uid ++ b1 id) ++ le 4 x ++ [])
    by (intros x; unfold ser_flds, local_apic; cbn [map concat fst snd F app]; rewrite <- !app_assoc; reflexivity).
  assert (Hf : field_at (ser_flds (local_apic uid id en)) 4 4 = en mod 2 ^ 32).
  { rewrite Hshape. apply (field_at_mid (b1 0 ++ b1 8 ++ b1 uid ++ b1 id) 4 en []). }
  split; [reflexivity|]. split; [exact Hf|]. split.
  - intros Hen. rewrite Hf. assert (en = 0 \/ en = 1 \/ en = 2) as [->|[->| ->]] by lia; reflexivity.
  - intros k Hk. rewrite !Hshape. apply nth_mid_frame. exact Hk.
Qed.

Theorem madt_rintc_enable s st hart uid ext ib isz e :
  madt_addition s (SL [SA 8; SA st; SA hart; SA uid; SA ext; SA ib; SA isz]) = Some e ->
  length (a_bytes e) = 36%nat /\
  field_at (a_bytes e) 4 4 = st mod 2 ^ 32 /\
  (st < 3 -> field_at (a_bytes e) 4 4 = enable_state_bits st) /\
  forall k, ~ in_range k rintc_flags_at -> nth k (a_bytes e) 0 = nth k (ser_flds (rintc 0 hart uid ext ib isz)) 0.
Proof.
  unfold madt_addition. cbn [andb assert option_bind madt_entry]. intros H; inversion H; subst e; clear H. cbn [a_bytes].
  assert (Hshape : forall x, ser_flds (rintc x hart uid ext ib isz) =
            [0x18; 36; 1; 0] ++ le 4 x ++ (q8 hart ++ d4 uid ++ d4 ext ++ q8 ib ++ d4 isz))
    by (intros x; unfold ser_flds, rintc; cbn [map concat fst snd F app]; rewrite <- ?app_assoc, ?app_nil_r; reflexivity).
  assert (Hf : field_at (ser_flds (rintc st hart uid ext ib isz)) 4 4 = st mod 2 ^ 32).
  { rewrite Hshape. apply (field_at_mid [0x18; 36; 1; 0] 4 st). }
  split; [rewrite Hshape; cbn [length app]; rewrite !app_length, !length_le; reflexivity|]. split; [exact Hf|]. split.
  - intros Hen. rewrite Hf. assert (st = 0 \/ st = 1 \/ st = 2) as [->|[->| ->]] by lia; reflexivity.
  - intros k Hk. rewrite !Hshape. apply (nth_mid_frame [0x18; 36; 1; 0]). exact Hk.
Qed.
