(* XSDT: the Impl model refines the Spec (property C04 as a theorem): for every constructor argument and every finite history
   in the specification's domain, in both build modes, the model accepts the history and its image is the reference image. *)
From Coq Require Import NArith ZArith List Lia Bool Arith.
From ACPI Require Import Lib.Bytes Lib.Sx Lib.Machine Impl.Checksum Impl.Table Impl.Fields Impl.Run Impl.Madt Impl.Xsdt
  Spec.Layout Spec.MadtS Spec.XsdtS Proofs.ChecksumP Proofs.TableP Proofs.MadtP Proofs.Tables Proofs.XsdtP Proofs.RefCommonP.
Import ListNotations.
Open Scope N_scope.

(* sink.qword(entry) is the reference 8-byte entry, for every entry value *)
Theorem xsdt_entries_are_reference s o b : xsdt_entry_ref o = Some b ->
  exists e, xsdt_addition s o = Some e /\ a_bytes e = b /\ a_flag e = t_flag s /\ a_returns e = false.
Proof.
  intros H. unfold xsdt_entry_ref in H. repeat dvar H.
  eexists. split; [reflexivity|]. cbn [a_bytes a_flag a_returns]. split; [|split; reflexivity].
  match goal with |- ?x = ?y => cut (Some x = Some y); [let E := fresh in intros E; injection E; auto | rewrite <- H] end.
  unfold lay, assemble, q8. cbn [layout_ok_from layout_size Nat.eqb Nat.add andb map concat fst snd]. now rewrite app_nil_r.
Qed.

Lemma xsdt_eref_atom n : xsdt_entry_ref (SA n) = None.
Proof. reflexivity. Qed.

Lemma xsdt_step_ok s o rest b : t_kind s = KXsdt -> ok_any (t_flag s) (o :: rest) -> xsdt_entry_ref o = Some b ->
  exists e, xsdt_addition s o = Some e /\ a_bytes e = b /\ ok_any (a_flag e) rest.
Proof.
  intros _ _ H. destruct (xsdt_entries_are_reference s o b H) as (e & He & Hb & _). exists e. repeat split; assumption.
Qed.

Theorem xsdt_refines : forall md ctor ops r,
  ts_image xsdt_spec ctor ops = Some r ->
  N.of_nat (length r) < 2 ^ 32 ->
  exists s0 s, xsdt_new ctor = Some s0 /\ run_adds xsdt_addition md s0 ops = Some s /\ tbl_image s = r.
Proof.
  intros md ctor ops r Himg Hfit. cbn [ts_image xsdt_spec] in Himg. unfold xsdt_image in Himg.
  destruct ctor as [n|[|o [|t [|rv [|x l]]]]]; try discriminate Himg.
  destruct (sx_hdr_args o t rv) as [ha|] eqn:Eha; [|discriminate Himg].
  destruct (xsdt_entries_ref ops) as [es|] eqn:Ees; [|discriminate Himg].
  inversion Himg; subst r; clear Himg.
  pose (s0 := tbl_new KXsdt (mk_hdr [88; 83; 68; 84] 1 ha) []).
  assert (Hnew : xsdt_new (SL [o; t; rv]) = Some s0).
  { unfold xsdt_new. rewrite (sx_hdr_of_args _ _ _ _ _ _ Eha). reflexivity. }
  destruct (sim_image KXsdt eq_refl xsdt_addition xsdt_addition_sound xsdt_entry_ref xsdt_eref_atom ok_any xsdt_step_ok
              md s0 ops es [88; 83; 68; 84] 1 ha []) as (s & Hr & Hi);
    try reflexivity; try exact Logic.I; try exact Ees; try exact Hfit.
  - exact (xsdt_new_inv _ _ Hnew).
  - exists s0, s. auto.
Qed.

Lemma xsdt_no_handle s o e : xsdt_addition s o = Some e -> a_returns e = false.
Proof.
  unfold xsdt_addition. intros H. repeat dvar H. inversion H; subst. reflexivity.
Qed.

(* at the entry point: one EvNum 0 per operation, then the reference image *)
Theorem xsdt_case_refines : forall md ctor ops r,
  ts_image xsdt_spec ctor ops = Some r -> N.of_nat (length r) < 2 ^ 32 ->
  xsdt_case md (SL (ctor :: ops ++ [SA 1])) = map (fun _ => EvNum 0) ops ++ [EvBytes r].
Proof.
  intros md ctor ops r Himg Hfit.
  destruct (xsdt_refines md ctor ops r Himg Hfit) as (s0 & s & Hn & Hr & Hi).
  unfold xsdt_case, xsdt_step. rewrite <- Hi.
  apply (run_history_adds xsdt_addition xsdt_no_handle md xsdt_new ctor ops s0 s Hn); [|exact Hr].
  cbn [ts_image xsdt_spec] in Himg. unfold xsdt_image in Himg.
  destruct ctor as [n|[|o [|t [|rv [|x l]]]]]; try discriminate Himg.
  destruct (sx_hdr_args o t rv); [|discriminate Himg].
  destruct (xsdt_entries_ref ops) as [es|] eqn:Ees; [|discriminate Himg].
  exact (eref_ops_SL xsdt_entry_ref xsdt_eref_atom ops es Ees).
Qed.

Print Assumptions xsdt_entries_are_reference.
Print Assumptions xsdt_refines.
Print Assumptions xsdt_case_refines.
