(* Name paths: NameString round trip, prefix form, Path::new parsing and refusal. *)
From Coq Require Import NArith ZArith List Lia Bool Arith.
From ACPI Require Import Lib.Bytes Lib.Sx Lib.Machine Impl.AmlCore Spec.AmlCoreS.
Import ListNotations.
Open Scope N_scope.

Definition wf_parts (parts : list (list N)) : Prop := Forall (fun s => is_nameseg s = true) parts.

(* the textual form of a path: optional '\', segments joined by '.' *)
Fixpoint join_dot (l : list (list N)) : list N :=
  match l with
  | [] => []
  | [x] => x
  | x :: r => x ++ 0x2E :: join_dot r
  end.

Definition render (p : path) : list N := (if p_root p then [0x5C] else []) ++ join_dot (p_parts p).

Lemma nameseg_shape s : is_nameseg s = true ->
  exists a b c d, s = [a; b; c; d] /\ is_lead_name_char a = true /\ is_name_char b = true /\
                  is_name_char c = true /\ is_name_char d = true.
Proof.
  destruct s as [|a [|b [|c [|d [|e s]]]]]; cbn [is_nameseg]; try discriminate.
  intros H. apply andb_true_iff in H. destruct H as [H Hd]. apply andb_true_iff in H. destruct H as [H Hc].
  apply andb_true_iff in H. destruct H as [Ha Hb]. exists a, b, c, d. auto.
Qed.

Lemma take_segs_concat parts r :
  wf_parts parts -> take_segs (length parts) (concat parts ++ r) = Some (parts, r).
Proof.
  induction parts as [|s parts IH]; intros H; [reflexivity|].
  inversion H as [|? ? Hs Hrest]; subst.
  destruct (nameseg_shape s Hs) as (a & b & c & d & -> & _).
  cbn [length concat app take_segs]. rewrite Hs. rewrite IH by exact Hrest. reflexivity.
Qed.

Lemma lead_not_prefix a : is_lead_name_char a = true -> a <> 0x5C /\ a <> 0x2E /\ a <> 0x2F.
Proof.
  unfold is_lead_name_char. intros H. apply orb_true_iff in H. destruct H as [H|H].
  - apply andb_true_iff in H. destruct H as [H1 H2]. apply N.leb_le in H1, H2. lia.
  - apply N.eqb_eq in H. lia.
Qed.

Lemma name_char_not_dot a : is_name_char a = true -> a <> 0x2E.
Proof.
  unfold is_name_char, is_lead_name_char. intros H.
  repeat (apply orb_true_iff in H; destruct H as [H|H]);
    try (apply andb_true_iff in H; destruct H as [H1 H2]; apply N.leb_le in H1, H2; lia).
  apply N.eqb_eq in H. lia.
Qed.

(* encoding then decoding *)
Lemma path_enc_decode p r :
  wf_parts (p_parts p) -> (1 <= length (p_parts p) <= 255)%nat ->
  exists e, path_enc p = Some e /\
            name_decode (e ++ r) = Some (p_root p, p_parts p, r) /\
            name_prefix_ok (length (p_parts p)) (skipn (if p_root p then 1 else 0) e) = true /\
            e = (if p_root p then [0x5C] else []) ++
                (match length (p_parts p) with 1%nat => [] | 2%nat => [0x2E]
                 | k => [0x2F; N.of_nat k] end) ++ concat (p_parts p).
Proof.
  destruct p as [root parts]. cbn [p_root p_parts]. intros Hwf Hlen.
  unfold path_enc. cbn [p_root p_parts].
  destruct parts as [|s1 [|s2 [|s3 rest]]].
  - cbn in Hlen. lia.
  - (* one segment *)
    cbn [length option_bind]. eexists. split; [reflexivity|].
    inversion Hwf as [|? ? Hs _]; subst.
    destruct (nameseg_shape s1 Hs) as (a & b & c & d & -> & Ha & _).
    destruct (lead_not_prefix a Ha) as (N1 & N2 & N3).
    apply N.eqb_neq in N1, N2, N3.
    split; [|split; [|reflexivity]].
    + unfold name_decode. destruct root; cbn [app concat].
      * rewrite N.eqb_refl. rewrite N2, N3. cbn [take_segs]. rewrite Hs. reflexivity.
      * rewrite N1, N2, N3. cbn [take_segs]. rewrite Hs. reflexivity.
    + destruct root; cbn [skipn app concat name_prefix_ok Nat.eqb]; exact Ha.
  - (* two segments *)
    cbn [length option_bind]. eexists. split; [reflexivity|].
    split; [|split; [|reflexivity]].
    + unfold name_decode. pose proof (take_segs_concat [s1; s2] r Hwf) as HT. cbn [length] in HT.
      destruct root; cbn [app]; rewrite ?N.eqb_refl; change (46 =? 92) with false; cbn iota;
        rewrite ?N.eqb_refl; rewrite HT; reflexivity.
    + destruct root; reflexivity.
  - (* three or more *)
    remember (s1 :: s2 :: s3 :: rest) as parts eqn:Ep.
    assert (Hk : (3 <= length parts)%nat) by (subst parts; cbn [length]; lia).
    replace (match length parts with 0%nat => None | 1%nat => Some [] | 2%nat => Some [46]
             | S (S (S _)) => do _ <- assert (N.of_nat (length parts) <=? 255); Some [47; cast U8 (N.of_nat (length parts))] end)
      with (Some [0x2F; N.of_nat (length parts)]).
    2:{ destruct (length parts) as [|[|[|k]]] eqn:El; try lia.
        assert (Hle : N.of_nat (S (S (S k))) <=? 255 = true) by (apply N.leb_le; lia).
        rewrite Hle. cbn [assert option_bind]. unfold cast, U8. change (2 ^ 8) with 256.
        rewrite N.mod_small by lia. reflexivity. }
    cbn [option_bind]. eexists. split; [reflexivity|].
    split; [|split].
    + unfold name_decode.
      assert (Hnz : N.of_nat (length parts) =? 0 = false) by (apply N.eqb_neq; lia).
      pose proof (take_segs_concat parts r Hwf) as HT.
      destruct root; cbn [app]; rewrite ?N.eqb_refl; change (47 =? 92) with false; cbn iota;
        change (47 =? 46) with false; cbn iota; rewrite ?N.eqb_refl; rewrite Hnz, Nat2N.id, HT; reflexivity.
    + destruct root; cbn [skipn app name_prefix_ok];
        destruct (length parts) as [|[|[|k]]] eqn:El; try lia; cbn [Nat.eqb]; rewrite !N.eqb_refl; reflexivity.
    + destruct (length parts) as [|[|[|k]]] eqn:El; try lia. reflexivity.
Qed.

(* oversized or empty paths are refused (C18) *)
Lemma path_enc_refuse p : (length (p_parts p) = 0 \/ 255 < length (p_parts p))%nat -> path_enc p = None.
Proof.
  intros H. unfold path_enc. destruct (length (p_parts p)) as [|[|[|k]]] eqn:El; try lia; [reflexivity|].
  assert (Hle : N.of_nat (S (S (S k))) <=? 255 = false) by (apply N.leb_gt; lia).
  rewrite Hle. reflexivity.
Qed.

(* ---- Path::new ---- *)

Lemma split_dot_nonempty cur s : split_dot cur s <> [].
Proof. revert cur; induction s as [|c r IH]; intros cur; cbn [split_dot]; [discriminate|]. destruct (c =? 0x2E); [discriminate|apply IH]. Qed.

Lemma join_split cur s : join_dot (split_dot cur s) = rev cur ++ s.
Proof.
  revert cur; induction s as [|c r IH]; intros cur; cbn [split_dot].
  - cbn [join_dot]. now rewrite app_nil_r.
  - destruct (N.eqb_spec c 0x2E) as [->|Hc].
    + specialize (IH []). cbn [rev app] in IH.
      destruct (split_dot [] r) as [|x xs] eqn:E; [now apply split_dot_nonempty in E|].
      change (join_dot (rev cur :: x :: xs)) with (rev cur ++ 0x2E :: join_dot (x :: xs)).
      rewrite IH. reflexivity.
    + rewrite IH. cbn [rev]. rewrite <- app_assoc. reflexivity.
Qed.

(* what Path::new accepts is exactly the given text: it never emits an altered path *)
Lemma path_new_sound s p :
  path_new s = Some p -> render p = s /\ Forall (fun part => length part = 4%nat) (p_parts p).
Proof.
  unfold path_new. intros H.
  destruct (forallb _ _) eqn:Hall; [|discriminate]. inversion H; subst; clear H.
  split.
  - unfold render. cbn [p_root p_parts]. rewrite join_split. cbn [rev app].
    destruct s as [|c r]; [reflexivity|]. destruct (N.eqb_spec c 0x5C) as [->|Hc]; reflexivity.
  - cbn [p_parts]. apply Forall_forall. intros part Hin.
    rewrite forallb_forall in Hall. specialize (Hall part Hin). now apply Nat.eqb_eq in Hall.
Qed.

(* a segment of any other length makes Path::new panic *)
Lemma path_new_refuse s :
  let body := match s with c :: r => if c =? 0x5C then r else s | [] => s end in
  (exists part, In part (split_dot [] body) /\ length part <> 4%nat) -> path_new s = None.
Proof.
  cbn zeta. intros (part & Hin & Hlen). unfold path_new.
  match goal with |- (if forallb ?f ?l then _ else _) = None => destruct (forallb f l) eqn:Hall end; [|reflexivity].
  exfalso. rewrite forallb_forall in Hall.
  assert (Hin' : In part (split_dot [] (if match s with c :: _ => c =? 92 | [] => false end then tl s else s))).
  { destruct s as [|c r]; [exact Hin|]. cbn [tl]. destruct (c =? 92); exact Hin. }
  specialize (Hall part Hin'). apply Nat.eqb_eq in Hall. contradiction.
Qed.

Lemma split_dot_no_dot cur s : ~ In 0x2E s -> split_dot cur s = [rev cur ++ s].
Proof.
  revert cur; induction s as [|c r IH]; intros cur H; cbn [split_dot]; [now rewrite app_nil_r|].
  destruct (N.eqb_spec c 0x2E) as [->|Hc]; [exfalso; apply H; now left|].
  rewrite IH by (intros Hin; apply H; now right). cbn [rev]. now rewrite <- app_assoc.
Qed.

Lemma split_join parts :
  parts <> [] -> Forall (fun s => ~ In 0x2E s) parts -> split_dot [] (join_dot parts) = parts.
Proof.
  induction parts as [|x xs IH]; intros Hne Hall; [congruence|].
  inversion Hall as [|? ? Hx Hxs]; subst.
  destruct xs as [|y ys].
  - cbn [join_dot]. now rewrite split_dot_no_dot.
  - change (join_dot (x :: y :: ys)) with (x ++ 0x2E :: join_dot (y :: ys)).
    assert (Hgen : forall cur, split_dot cur (x ++ 0x2E :: join_dot (y :: ys)) = (rev cur ++ x) :: split_dot [] (join_dot (y :: ys))).
    { clear IH Hne Hall. induction x as [|c x IHx]; intros cur.
      - cbn [app split_dot]. rewrite N.eqb_refl. now rewrite app_nil_r.
      - cbn [app split_dot]. destruct (N.eqb_spec c 0x2E) as [->|Hc]; [exfalso; apply Hx; now left|].
        rewrite IHx by (intros Hin; apply Hx; now right). cbn [rev]. now rewrite <- app_assoc. }
    rewrite Hgen. cbn [rev app]. rewrite IH; [reflexivity|discriminate|exact Hxs].
Qed.

Lemma nameseg_no_dot s : is_nameseg s = true -> ~ In 0x2E s.
Proof.
  intros H. destruct (nameseg_shape s H) as (a & b & c & d & -> & Ha & Hb & Hc & Hd).
  destruct (lead_not_prefix a Ha) as (_ & Na & _).
  pose proof (name_char_not_dot b Hb). pose proof (name_char_not_dot c Hc). pose proof (name_char_not_dot d Hd).
  cbn [In]. intros [E|[E|[E|[E|[]]]]]; congruence.
Qed.

(* every well-formed path text is parsed into exactly its root flag and segments *)
Lemma path_new_render p :
  wf_parts (p_parts p) -> p_parts p <> [] -> path_new (render p) = Some p.
Proof.
  destruct p as [root parts]. cbn [p_parts]. intros Hwf Hne. unfold wf_parts in Hwf.
  assert (Hnd : Forall (fun s => ~ In 0x2E s) parts).
  { apply Forall_forall. intros s Hin. rewrite Forall_forall in Hwf. apply nameseg_no_dot. now apply Hwf. }
  assert (H4 : forallb (fun part => Nat.eqb (length part) 4) parts = true).
  { apply forallb_forall. intros s Hin. rewrite Forall_forall in Hwf.
    destruct (nameseg_shape s (Hwf s Hin)) as (a & b & c & d & -> & _). reflexivity. }
  unfold path_new, render. cbn [p_root p_parts].
  destruct root.
  - cbn [app tl]. rewrite N.eqb_refl. rewrite split_join by assumption. rewrite H4. reflexivity.
  - cbn [app].
    destruct parts as [|s1 ps]; [congruence|].
    inversion Hwf as [|? ? Hs _]; subst.
    destruct (nameseg_shape s1 Hs) as (a & b & c & d & -> & Ha & _).
    destruct (lead_not_prefix a Ha) as (Na & _).
    assert (Hhead : match join_dot ([a; b; c; d] :: ps) with c0 :: _ => c0 =? 92 | [] => false end = false).
    { destruct ps; cbn [join_dot app]; now apply N.eqb_neq. }
    rewrite Hhead. rewrite split_join by assumption. rewrite H4. reflexivity.
Qed.
