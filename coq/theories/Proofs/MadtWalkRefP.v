(* MADT, property C03 as a theorem.
   (1) `madt_reference_tiles`: for every constructor argument and every history inside the specification's domain, the Spec
       walker started at offset 44 of the REFERENCE image finds exactly the entries that were added (type code and length of
       each, in order) and lands exactly on the end of the table: `c03_judge madt_spec ctor r ops = true`.
       No size bound and no well-formedness hypothesis is needed: every reference structure carries its own (type u8, length u8)
       where `read_ehdr H_u8_u8` reads them, whatever its other fields contain.
   (2) `madt_model_tiles`: the same judgement holds of the image the Impl model produces (through `madt_refines`, hence with
       its hypotheses: well-formed builder lists, image below 2^32 bytes).
   The MADT returns no handles (`ts_returns = false`) and maintains no count field (`ts_counts = []`). *)
From Coq Require Import NArith ZArith List Lia Bool Arith.
From ACPI Require Import Lib.Bytes Lib.Sx Lib.Machine Impl.Table Impl.Run Impl.Madt
  Spec.Layout Spec.MadtS Proofs.TableP Proofs.WalkP Proofs.RefCommonP Proofs.MadtRefP Proofs.WalkRefCommonP.
Import ListNotations.
Open Scope N_scope.

(* every reference structure of the MADT describes itself: byte 0 is its type code, byte 1 its own length *)
Lemma madt_entry_self o b : madt_entry_ref o = Some b -> self_describing H_u8_u8 b (nth 0 b 0).
Proof.
  intros H. unfold madt_entry_ref in H. repeat dvar H.
  all: try (match type of H with context [sx_bytes ?hw] => destruct (sx_bytes hw) as [hwb|]; [|discriminate H] end;
            match type of H with context [Nat.eqb ?a ?b] => destruct (Nat.eqb a b); [|discriminate H] end).
  all: cbn [app] in H; eapply lay_u8_u8_self; [exact H|reflexivity|apply Nat.leb_le; reflexivity].
Qed.

Theorem madt_reference_tiles : forall ctor ops r,
  ts_image madt_spec ctor ops = Some r -> c03_judge madt_spec ctor r ops = true.
Proof.
  intros ctor ops r Himg. cbn [ts_image madt_spec] in Himg. unfold madt_image in Himg.
  destruct ctor as [n|[|o [|t [|rv [|lic [|x l]]]]]]; try discriminate Himg.
  destruct (sx_hdr_args o t rv) as [ha|] eqn:Eha; [|discriminate Himg].
  destruct (match lic with SL [] => Some 0 | SL [SA a] => Some a | _ => None end) as [addr|]; [|discriminate Himg].
  destruct (madt_entries_ref ops) as [es|] eqn:Ees; [|discriminate Himg].
  apply wr_Some_inj in Himg.
  destruct (sx_hdr_args_lengths _ _ _ _ Eha) as [Ho Ht].
  assert (Ees' : opt_concat (map madt_entry_ref ops) = Some es).
  { unfold madt_entries_ref in Ees. destruct (Nat.ltb 1 _); [discriminate Ees|exact Ees]. }
  apply (c03_judge_ref H_u8_u8 madt_entry_ref (fun e => nth 0 e 0) madt_entry_self madt_spec _ ops r 44%nat
           [65; 80; 73; 67] 1 ha (le 4 addr ++ le 4 0) es).
  - reflexivity.
  - cbn [ts_entries madt_spec]. rewrite Ees. reflexivity.
  - reflexivity.
  - exact Ees'.
  - rewrite <- Himg, <- app_assoc. reflexivity.
  - reflexivity.
  - exact Ho.
  - exact Ht.
  - rewrite app_length, !length_le. reflexivity.
Qed.

Corollary madt_model_tiles : forall md ctor ops r,
  ts_image madt_spec ctor ops = Some r -> madt_ops_wf ops -> N.of_nat (length r) < 2 ^ 32 ->
  exists s0 s, madt_new ctor = Some s0 /\ run_adds madt_addition md s0 ops = Some s /\
    c03_judge madt_spec ctor (tbl_image s) ops = true.
Proof.
  intros md ctor ops r Himg Hwf Hfit.
  destruct (madt_refines md ctor ops r Himg Hwf Hfit) as (s0 & s & Hn & Hr & Hi).
  exists s0, s. split; [exact Hn|]. split; [exact Hr|]. rewrite Hi. exact (madt_reference_tiles ctor ops r Himg).
Qed.

Print Assumptions madt_reference_tiles.
Print Assumptions madt_model_tiles.
