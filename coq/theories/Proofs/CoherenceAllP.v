(* Consequences of the per-component coherence theorems that are the same for every table component:
   (1) the other properties judged by the same oracle functions (C11 = C04's judgement, C12 = C04 and C01);
   (2) no false alarm: an implementation stream that the correspondence check K accepts is accepted by the oracle.  For
       C04 / C11 / C12 K compares whole streams; for C01 and C02 K compares the projections of Judge.v ([project]), and
       the oracles of C01 and C02 depend on a stream only through that projection;
   (3) the well-formedness condition [markers_ok] cannot be dropped (a machine-checked witness). *)
From Coq Require Import NArith List Bool Lia Arith.
From ACPI Require Import Lib.Bytes Lib.Sx Spec.Layout Spec.XsdtS Judge Proofs.CoherenceTablesP Proofs.CoherenceFixedP.
Import ListNotations.
Open Scope N_scope.

Definition table_comps : list N := [10; 11; 12; 13; 14; 15; 16; 17; 18; 19; 20; 21; 22; 23; 24; 25; 26; 27; 28; 29; 30].

Ltac each_comp H := unfold table_comps in H; cbn [In] in H; repeat (destruct H as [<-|H]; [|]); [..|destruct H].

(* (1) *)
Lemma coherent_c11_c12 comp md c : In comp table_comps -> coherent comp md c ->
  oracle 11 comp c (run_case md comp c) = true /\ oracle 12 comp c (run_case md comp c) = true.
Proof.
  intros Hin (H4 & H1 & _).
  assert (E11 : oracle 11 comp c (run_case md comp c) = oracle 4 comp c (run_case md comp c)) by (each_comp Hin; reflexivity).
  assert (E12 : oracle 12 comp c (run_case md comp c)
                = oracle 4 comp c (run_case md comp c) && oracle 1 comp c (run_case md comp c)) by (each_comp Hin; reflexivity).
  rewrite E11, E12, H4, H1. auto.
Qed.

(* (2) K, as the driver computes it: evs_eqb (project prop comp model) (project prop comp impl) *)
Lemma ev_eqb_eq x y : ev_eqb x y = true -> x = y.
Proof.
  destruct x, y; cbn [ev_eqb]; intros H; try discriminate H; try reflexivity.
  - apply list_N_eqb_eq in H. now subst.
  - apply N.eqb_eq in H. now subst.
Qed.

Lemma evs_eqb_eq a : forall b, evs_eqb a b = true -> a = b.
Proof.
  induction a as [|x a IH]; intros [|y b] H; cbn [evs_eqb] in H; try discriminate H; [reflexivity|].
  apply andb_true_iff in H. destruct H as [H1 H2]. apply ev_eqb_eq in H1. apply IH in H2. now subst.
Qed.

(* a per-event judgement that factors through a per-event projection gives the same verdict on streams with the same projection *)
Lemma forallb_proj (f : ev -> bool) (pe : ev -> ev) (g : ev -> bool) :
  (forall e, f e = g (pe e)) -> forall a b, map pe a = map pe b -> forallb f a = forallb f b.
Proof.
  intros Hf. assert (E : forall a, forallb f a = forallb g (map pe a)).
  { induction a as [|e a IH]; [reflexivity|]. cbn [forallb map]. now rewrite Hf, IH. }
  intros a b H. now rewrite (E a), (E b), H.
Qed.

Definition g_sum2 (e : ev) : bool := match e with EvBytes [s; t] => (s =? 0) && (t =? 0) | _ => true end.
Definition g_len (e : ev) : bool := match e with EvBytes [x; y] => x =? y | _ => true end.
Definition g_len_k (k : N) (e : ev) : bool := match e with EvBytes [x; y] => (x =? k) && (y =? k) | _ => true end.

Lemma nat_eqb_N n k : Nat.eqb n k = (N.of_nat n =? N.of_nat k).
Proof. destruct (Nat.eqb_spec n k), (N.eqb_spec (N.of_nat n) (N.of_nat k)); try reflexivity; lia. Qed.

(* the oracle of C01 sees a stream only through [project 1] *)
Lemma oracle1_through_projection comp c a b : In comp table_comps ->
  project 1 comp a = project 1 comp b -> oracle 1 comp c a = oracle 1 comp c b.
Proof.
  intros Hin H. each_comp Hin; try reflexivity;
    (match type of H with project 1 ?k _ = _ => apply (forallb_proj _ (project_ev 1 k) g_sum2); [|exact H] end);
    intros [img|n|]; try reflexivity; cbv beta iota delta [g_sum2 project_ev N.eqb Pos.eqb]; now rewrite ?andb_true_r.
Qed.

(* the oracle of C02 sees a stream only through [project 2] *)
Lemma oracle2_through_projection comp c a b : In comp table_comps ->
  project 2 comp a = project 2 comp b -> oracle 2 comp c a = oracle 2 comp c b.
Proof.
  intros Hin H. each_comp Hin;
    try (match type of H with project 2 ?k _ = _ => apply (forallb_proj _ (project_ev 2 k) g_len); [|exact H] end;
         intros [img|n|]; reflexivity).
  - apply (forallb_proj _ (project_ev 2 29) (g_len_k 64)); [|exact H]. intros [img|n|]; try reflexivity.
    rewrite (nat_eqb_N (length img) 64). reflexivity.
  - apply (forallb_proj _ (project_ev 2 30) (g_len_k 36)); [|exact H]. intros [img|n|]; try reflexivity.
    rewrite (nat_eqb_N (length img) 36). reflexivity.
Qed.

(* no false alarm: whenever K holds on a case inside the coherence theorem's domain, the oracle accepts the implementation *)
Theorem no_false_alarm comp md c impl : In comp table_comps -> coherent comp md c ->
  (evs_eqb (project 4 comp (run_case md comp c)) (project 4 comp impl) = true -> oracle 4 comp c impl = true) /\
  (evs_eqb (project 1 comp (run_case md comp c)) (project 1 comp impl) = true -> oracle 1 comp c impl = true) /\
  (evs_eqb (project 2 comp (run_case md comp c)) (project 2 comp impl) = true -> oracle 2 comp c impl = true).
Proof.
  intros Hin (H4 & H1 & H2). split; [|split]; intros E; apply evs_eqb_eq in E.
  - assert (P : forall x, project 4 comp x = x) by (intros x; each_comp Hin; reflexivity).
    rewrite !P in E. subst impl. exact H4.
  - rewrite <- (oracle1_through_projection comp c _ _ Hin E). exact H1.
  - rewrite <- (oracle2_through_projection comp c _ _ Hin E). exact H2.
Qed.

(* (3) [markers_ok] is needed: an atom other than 1 among the operations is not an operation for [real_ops] (the history
   (ctor) is in the XSDT Spec's domain, and `judged` says so), the model refuses it, and [refused_at] then reports a refusal
   of an in-domain prefix: the oracle rejects the model's own stream.  The generators never emit such an atom. *)
Definition stray_ctor : sx := SL [SL [SA 0; SA 0; SA 0; SA 0; SA 0; SA 0]; SL [SA 0; SA 0; SA 0; SA 0; SA 0; SA 0; SA 0; SA 0]; SA 0].
Example markers_ok_needed :
  let c := SL [stray_ctor; SA 2] in
  markers_ok [SA 2] = false /\ judged 4 10 c = true /\ run_case Wrapping 10 c = [EvPanic] /\
  oracle 4 10 c (run_case Wrapping 10 c) = false.
Proof. vm_compute. repeat split. Qed.
