(* SLIT shape (property C03 for the table that has no self-describing entries): for every constructor argument the model
   accepts and every accepted sequence of set_distance calls, in both build profiles, the image is 36 + 8 + n^2 bytes, the
   8-byte NumberOfLocalities at offset 36 is n, and the body from offset 44 is exactly n rows of n one-byte cells:
   (i, j) -> 44 + i*n + j maps the n^2 index pairs one-to-one onto the offsets [44, end of image). *)
From Coq Require Import NArith ZArith List Lia Bool Arith ZifyBool ZifyNat ZifyN.
From ACPI Require Import Lib.Bytes Lib.Sx Lib.Machine Impl.Checksum Impl.Table Impl.Fields Impl.Run Impl.Madt Impl.Slit
  Spec.Layout Spec.SlitShapeS Proofs.ChecksumP Proofs.TableP Proofs.MadtP Proofs.FixedP Proofs.SlitP.
Import ListNotations.
Open Scope N_scope.

(* what the specification says about the shape of an image with n localities *)
Definition slit_shape_of (img : list N) (n : N) : Prop :=
  N.of_nat (length img) = 36 + 8 + n * n /\
  field_at img 36 8 = n /\
  (* every cell of every row lies inside the image, after the count field *)
  (forall i j, i < n -> j < n -> (44 <= 44 + N.to_nat (i * n + j) < length img)%nat) /\
  (* distinct cells have distinct offsets *)
  (forall i j i' j', i < n -> j < n -> i' < n -> j' < n -> i * n + j = i' * n + j' -> i = i' /\ j = j') /\
  (* every byte of the body is a cell: the rows leave no gap and nothing follows the last row *)
  (forall k, (44 <= k < length img)%nat -> exists i j, i < n /\ j < n /\ k = (44 + N.to_nat (i * n + j))%nat).

Lemma sinv_shape s : SInv s -> slit_shape_of (slit_image s) (st_loc s).
Proof.
  intros I. pose proof (length_slit_image s I) as Hlen. rewrite (si_len s I) in Hlen.
  pose proof (loc_small s I) as Hsmall. set (n := st_loc s) in *.
  unfold slit_shape_of. split; [lia|]. split; [|split; [|split]].
  - unfold slit_image, field_at. rewrite <- (length_hdr_bytes (st_hdr s) (st_len s) (st_hck s) (si_hdr s I)), skipn_app_exact.
    unfold q8. rewrite firstn_le_app. apply unle_le_small. change (2 ^ (8 * N.of_nat 8)) with (2 ^ 64). fold n. lia.
  - intros i j Hi Hj. assert (i * n + j < n * n) by nia. lia.
  - intros i j i' j' Hi Hj Hi' Hj' E. assert (i = i') by nia. subst i'. split; [reflexivity|lia].
  - intros k Hk. assert (Hk' : N.of_nat k - 44 < n * n) by lia.
    assert (Hn : n <> 0) by (intros E; rewrite E in Hk'; lia).
    exists ((N.of_nat k - 44) / n), ((N.of_nat k - 44) mod n).
    pose proof (N.div_mod (N.of_nat k - 44) n Hn) as Hdm. pose proof (N.mod_lt (N.of_nat k - 44) n Hn) as Hm.
    split; [apply N.div_lt_upper_bound; [exact Hn|lia]|]. split; [exact Hm|]. lia.
Qed.

(* the constructor keeps the caller's locality count *)
Lemma slit_new_loc o t r n s0 : slit_new (SL [o; t; r; SA n]) = Some s0 -> st_loc s0 = n.
Proof.
  unfold slit_new. destruct (sx_hdr _ _ o t r); [|discriminate]. cbn [option_bind].
  destruct (mul_c U32 n n); [|discriminate]. cbn [option_bind].
  destruct (add_c U32 _ 44); [|discriminate]. cbn [option_bind].
  intros H. apply st_Some_inj in H. now subst s0.
Qed.

(* every accepted constructor call has this form *)
Lemma slit_new_form c s0 : slit_new c = Some s0 -> exists o t r n, c = SL [o; t; r; SA n].
Proof. unfold slit_new. intros H. break_sx H. eexists _, _, _, _. reflexivity. Qed.

(* one accepted set_distance keeps the invariant and the locality count *)
Lemma set_distance_keeps md s a b v s' : SInv s -> slit_set_distance md s a b v = Some s' -> SInv s' /\ st_loc s' = st_loc s.
Proof.
  intros I H. pose proof (accepted_nowrap md s a b v s' I H) as Hw.
  destruct (set_distance_spec md s a b v s' I H Hw (nowrap_sym _ _ _ Hw)) as (_ & _ & I' & HL & _). auto.
Qed.

(* ---------- C03 for the SLIT, on the calls ---------- *)
Theorem slit_shape md o t r n ops s0 s :
  slit_new (SL [o; t; r; SA n]) = Some s0 -> slit_run md s0 ops = Some s ->
  slit_shape_of (slit_image s) n.
Proof.
  intros Hn Hr. destruct (slit_new_inv _ s0 Hn) as [I0 _]. pose proof (slit_new_loc o t r n s0 Hn) as HL0.
  pose proof (slit_run_nowrap md ops s0 s I0 Hr) as Hw.
  destruct (slit_run_spec md ops s0 s I0 Hr Hw) as (I & HL & _).
  rewrite <- HL0, <- HL. apply sinv_shape. exact I.
Qed.

(* ---------- the same on the case vocabulary (observation markers included), as the harness drives it ---------- *)
Theorem slit_shape_history md o t r n ops s0 s :
  slit_new (SL [o; t; r; SA n]) = Some s0 -> run_steps (slit_step md) s0 ops = Some s ->
  slit_shape_of (slit_image s) n.
Proof.
  intros Hn Hr. destruct (slit_new_inv _ s0 Hn) as [I0 _]. pose proof (slit_new_loc o t r n s0 Hn) as HL0.
  assert (HP : SInv s /\ st_loc s = n).
  { apply (run_steps_inv (slit_step md) (fun x => SInv x /\ st_loc x = n)) with (ops := ops) (s := s0); [|split; assumption|exact Hr].
    intros x op x' e [Ix Lx] Hs. unfold slit_step in Hs. break_sx Hs.
    match type of Hs with option_bind (slit_set_distance md x ?a ?b ?v) _ = _ =>
      destruct (slit_set_distance md x a b v) as [x1|] eqn:E; [|discriminate Hs] end.
    cbn [option_bind] in Hs. apply st_Some_inj in Hs. injection Hs as <- _.
    destruct (set_distance_keeps md x _ _ _ x1 Ix E) as [I1 L1]. split; [exact I1|congruence]. }
  destruct HP as [I HL]. rewrite <- HL. apply sinv_shape. exact I.
Qed.

(* the executable judgement of Spec/SlitShapeS.v answers true on every image the model emits *)
Corollary slit_shape_judge_model md o t r n ops s0 s :
  slit_new (SL [o; t; r; SA n]) = Some s0 -> run_steps (slit_step md) s0 ops = Some s ->
  slit_shape_judge (SL [o; t; r; SA n]) (slit_image s) = true.
Proof.
  intros Hn Hr. destruct (slit_shape_history md o t r n ops s0 s Hn Hr) as (Hl & Hc & _).
  cbn [slit_shape_judge]. rewrite Hl, Hc, !N.eqb_refl. reflexivity.
Qed.

(* ---------- non-vacuity ---------- *)
Definition slit_shape_demo_ctor (n : N) : sx := SL [SL (map SA [1; 2; 3; 4; 5; 6]); SL (map SA [1; 2; 3; 4; 5; 6; 7; 8]); SA 77; SA n].
Definition slit_shape_demo (md : mode) (n : N) (ops : list (N * N * N)) : option (nat * N * list N) :=
  match slit_new (slit_shape_demo_ctor n) with
  | Some s0 => match slit_run md s0 ops with
               | Some s => Some (length (slit_image s), field_at (slit_image s) 36 8, skipn 44 (slit_image s))
               | None => None
               end
  | None => None
  end.
(* 3 localities, set_distance(0,1,20), (2,2,7), (1,2,30): 53 bytes, count 3, three rows of three cells *)
Example slit_shape_demo_3 :
  slit_shape_demo Checked 3 [(0, 1, 20); (2, 2, 7); (1, 2, 30)] = Some (53%nat, 3, [10; 20; 10;  20; 10; 30;  10; 30; 7]) /\
  slit_shape_demo Wrapping 3 [(0, 1, 20); (2, 2, 7); (1, 2, 30)] = slit_shape_demo Checked 3 [(0, 1, 20); (2, 2, 7); (1, 2, 30)] /\
  slit_shape_demo Checked 0 [] = Some (44%nat, 0, []) /\
  slit_shape_demo Checked 3 [(0, 3, 1)] = None.          (* an out-of-range call is refused, so the hypothesis is not always true *)
Proof. repeat split; vm_compute; reflexivity. Qed.

Print Assumptions slit_shape.
Print Assumptions slit_shape_history.
Print Assumptions slit_shape_judge_model.
