(* MCFG, property C03, per-entry part: the reference image of every in-domain history passes the self-check
   (the body is tiled by 16-byte allocation structures). *)
From Coq Require Import NArith ZArith List Lia Bool Arith.
From ACPI Require Import Lib.Bytes Lib.Sx Spec.Layout Spec.MadtS Spec.McfgS Spec.SelfCheck Judge
  Proofs.WalkP Proofs.RefCommonP Proofs.WalkRefCommon2P Proofs.McfgWalkRefP Proofs.SelfCommonP.
Import ListNotations.
Open Scope N_scope.

Lemma mcfg_entry_self_ok o b : mcfg_entry_ref o = Some b -> entry_self_ok 11 0 b = true.
Proof.
  intros H. unfold mcfg_entry_ref in H. repeat dvar H.
  cbn [entry_self_ok]. rewrite (lay_length _ _ _ H). reflexivity.
Qed.

Theorem mcfg_selfcheck : forall ctor ops r, ts_image mcfg_spec ctor ops = Some r -> c03_self 11 r = true.
Proof.
  intros ctor ops r Himg. cbn [ts_image mcfg_spec] in Himg. unfold mcfg_image in Himg.
  destruct ctor as [n|[|o [|t [|rv [|x l]]]]]; try discriminate Himg.
  destruct (sx_hdr_args o t rv) as [ha|] eqn:Eha; [|discriminate Himg].
  destruct (mcfg_entries_ref ops) as [es|] eqn:Ees; [|discriminate Himg].
  apply wr_Some_inj in Himg. subst r.
  destruct (sx_hdr_args_len _ _ _ _ Eha) as [Ho Ht].
  unfold c03_self. change (ts_walk (spec_of 11)) with (Some (44%nat, H_fixed 16)).
  apply (c03_self_at_ref 11 44%nat (H_fixed 16) (fun _ => 0)); try assumption; try reflexivity.
  - apply (opt_concat_forall mcfg_entry_ref _ mcfg_entry_self ops es Ees).
  - apply (opt_concat_forall mcfg_entry_ref _ mcfg_entry_self_ok ops es Ees).
Qed.

Print Assumptions mcfg_selfcheck.
