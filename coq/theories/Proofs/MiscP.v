(* Component 32: the model of the small public items equals the reference on the reference's whole domain, in both build
   profiles, and the independent decoder returns the caller's values. *)
From Coq Require Import NArith List Bool Lia.
From ACPI Require Import Lib.Bytes Lib.Sx Lib.Machine Impl.Fields Impl.Misc Spec.Layout Spec.AmlCoreS Spec.MiscS Spec.RhctS Impl.Rhct Proofs.WalkP Proofs.RhctRefP.
Import ListNotations.
Open Scope N_scope.

Lemma access_code_cases k code : access_code k = Some code ->
  (k = 1 /\ code = 1) \/ (k = 2 /\ code = 2) \/ (k = 4 /\ code = 3) \/ (k = 8 /\ code = 4).
Proof.
  unfold access_code. intros H.
  destruct (N.eqb_spec k 1) as [->|]; [injection H as <-; auto|].
  destruct (N.eqb_spec k 2) as [->|]; [injection H as <-; auto|].
  destruct (N.eqb_spec k 4) as [->|]; [injection H as <-; auto|].
  destruct (N.eqb_spec k 8) as [->|]; [injection H as <-; auto 6|discriminate H].
Qed.

Lemma gas_model_eq_ref md space k addr r :
  gas_ref space k addr = Some r -> exists f, generic_address md space k addr = Some f /\ ser_flds f = r.
Proof.
  unfold gas_ref. intros H. destruct (access_code k) as [code|] eqn:Ec; [|discriminate H].
  destruct (access_code_cases k code Ec) as [[-> ->]|[[-> ->]|[[-> ->]|[-> ->]]]];
    (exists [F 1 space; F 1 (8 * (match code with _ => 1 end)); F 1 0; F 1 0; F 8 addr]; fail) ||
    (unfold generic_address; destruct md; cbn [mul_m access_size_of];
     eexists; (split; [vm_compute; reflexivity|]); unfold lay in H; cbn in H; injection H as <-; reflexivity).
Qed.

Lemma misc_ref_shape c r : misc_ref c = Some r ->
  (exists k addr, c = SL [SA 1; SA k; SA addr]) \/ (exists k addr, c = SL [SA 2; SA k; SA addr]) \/
  (exists w, c = SL [SA 3; SA w] /\ w < 4) \/ (exists l, c = SL [SA 4; SL l]) \/ (exists l, c = SL [SA 5; SL l]).
Proof.
  unfold misc_ref. intros H.
  repeat match type of H with
         | match ?x with _ => _ end = Some _ =>
             lazymatch x with
             | sx_nums _ => fail
             | _ => destruct x; try discriminate H
             end
         end; eauto 10.
  all: right; right; left; eexists; split; [reflexivity|reflexivity].
Qed.

Theorem misc_refines : forall md c r, misc_ref c = Some r -> misc_case md c = r.
Proof.
  intros md c r H.
  destruct (misc_ref_shape c r H) as [(k & addr & ->)|[(k & addr & ->)|[(w & Hcw & Hw)|[(l & ->)|(l & ->)]]]];
    try subst c; cbn [misc_ref] in H.
  - destruct (N.ltb_spec addr (2 ^ 16)) as [Hlt|]; [|discriminate H].
    destruct (gas_ref 1 k addr) as [b|] eqn:E; [|discriminate H]. injection H as <-.
    destruct (gas_model_eq_ref md 1 k addr b E) as (f & Hf & Hs).
    cbn [misc_case]. rewrite (N.mod_small addr (2 ^ 16) Hlt), Hf, Hs. reflexivity.
  - destruct (N.ltb_spec addr (2 ^ 64)) as [Hlt|]; [|discriminate H].
    destruct (gas_ref 0 k addr) as [b|] eqn:E; [|discriminate H]. injection H as <-.
    destruct (gas_model_eq_ref md 0 k addr b E) as (f & Hf & Hs).
    cbn [misc_case]. rewrite Hf, Hs. reflexivity.
  - assert (Hc : w = 0 \/ w = 1 \/ w = 2 \/ w = 3) by lia.
    destruct Hc as [-> | [-> | [-> | ->]]]; injection H as <-; reflexivity.
  - cbn [misc_case]. destruct (sx_nums l) as [b|]; [|discriminate H].
    destruct (is_nameseg b); [|discriminate H]. injection H as <-. reflexivity.
  - cbn [misc_case]. cbn [rhct_entry_ref sx_bytes] in H.
    destruct (sx_nums l) as [b|]; [|discriminate H].
    match type of H with option_map _ ?x = _ => destruct x as [e|] eqn:E; [|discriminate H] end.
    injection H as <-. rewrite (isa_is_reference b e E). reflexivity.
Qed.

(* decoding the reference returns the caller's values at the specification's offsets *)
Theorem gas_ref_decodes : forall space k addr r code,
  gas_ref space k addr = Some r -> access_code k = Some code -> space < 256 -> addr < 2 ^ 64 ->
  gas_decode r = Some (space, 8 * k, 0, code, addr).
Proof.
  intros space k addr r code H Hc Hs Ha. unfold gas_ref in H. rewrite Hc in H.
  destruct (lay_decodes _ _ _ H) as [Hlen Hf]. unfold gas_decode. rewrite Hlen. cbn [Nat.eqb].
  rewrite (Hf 0%nat 1%nat space), (Hf 1%nat 1%nat (8 * k)), (Hf 2%nat 1%nat 0), (Hf 3%nat 1%nat code), (Hf 4%nat 8%nat addr) by (cbn [In]; auto 8).
  assert (Hk : 8 * k < 256 /\ code < 256).
  { destruct (access_code_cases k code Hc) as [[-> ->]|[[-> ->]|[[-> ->]|[-> ->]]]]; split; reflexivity. }
  destruct Hk as [Hk Hcode].
  change (2 ^ (8 * N.of_nat 1)) with 256. change (2 ^ (8 * N.of_nat 8)) with (2 ^ 64).
  rewrite !N.mod_small by assumption || reflexivity. reflexivity.
Qed.

Example misc_nonvacuous :
  misc_ref (SL [SA 1; SA 4; SA 0x3f8]) = Some [EvBytes [1; 32; 0; 3; 0xf8; 3; 0; 0; 0; 0; 0; 0]] /\
  misc_ref (SL [SA 4; SL [SA 70; SA 76; SA 68; SA 48]]) = Some [EvBytes [70; 76; 68; 48]] /\ misc_ref (SL [SA 4; SL [SA 102; SA 76; SA 68; SA 48]]) = None /\
  misc_ref (SL [SA 5; SL [SA 114; SA 118; SA 54]]) = Some [EvBytes [0; 0; 12; 0; 1; 0; 4; 0; 114; 118; 54; 0]] /\
  misc_case Checked (SL [SA 1; SA 16; SA 0]) = [EvPanic] /\ misc_case Wrapping (SL [SA 2; SA 3; SA 5]) = [EvPanic].
Proof. vm_compute. repeat split. Qed.

Print Assumptions misc_refines.
Print Assumptions gas_ref_decodes.
