(* RQSC: for every constructor argument and every finite history of add_controller calls the model accepts,
   the emitted image sums to 0 and its Length field is its size.
   Route: (1) every ResourceStructure / QoSController the API can build stores a length equal to its serialised size
   (the checked_add guards make the 16-bit fields exact); (2) header.length therefore tracks the serialised size of the table;
   (3) header.checksum is generate_checksum of the image with byte 9 zeroed, so the image sums to 0. *)
From Coq Require Import NArith ZArith List Lia Bool Arith.
From ACPI Require Import Lib.Bytes Lib.Sx Lib.Machine Impl.Checksum Impl.Table Impl.Fields Impl.Run Impl.Madt Impl.Gas Impl.Rqsc
  Spec.Layout Proofs.ChecksumP Proofs.TableP Proofs.MadtP.
Import ListNotations.

Ltac Zify.zify_post_hook ::= Z.to_euclidean_division_equations.

Open Scope N_scope.

(* ---------- generic facts about a standard header followed by anything ---------- *)

(* the dword at offset 4 of header ++ rest is the header's length value *)
Lemma hdr_len_field h len cks rest : hdr_ok h = true ->
  field_at (hdr_bytes h len cks ++ rest) 4 4 = len mod 2 ^ 32.
Proof.
  intros Hh. unfold hdr_ok in Hh. apply andb_true_iff in Hh. destruct Hh as [Hh _]. apply andb_true_iff in Hh.
  destruct Hh as [Hs _]. apply Nat.eqb_eq in Hs.
  unfold field_at, hdr_bytes. rewrite <- !app_assoc.
  match goal with |- context [skipn 4 (h_sig ?hh ++ ?X)] =>
    pose proof (skipn_app_exact (h_sig hh) X) as Hsk; rewrite Hs in Hsk; rewrite Hsk end.
  unfold d4. rewrite firstn_le_app. apply unle_le.
Qed.

(* storing generate_checksum of the image with the checksum byte zeroed makes the image sum to 0 *)
Lemma sum8_with_checksum h len rest :
  sum8 (hdr_bytes h len (generate_checksum (hdr_bytes h len 0 ++ rest)) ++ rest) = 0.
Proof.
  destruct (generate_checksum_spec (hdr_bytes h len 0 ++ rest)) as [H1 H2].
  set (g := generate_checksum (hdr_bytes h len 0 ++ rest)) in *.
  apply (f_equal Z.of_N) in H1. rewrite N2Z.inj_mod, N2Z.inj_add, <- zsum_sumN, zsum_app, zsum_hdr_bytes in H1.
  unfold sum8. apply N2Z.inj. rewrite N2Z.inj_mod, <- zsum_sumN, zsum_app, zsum_hdr_bytes.
  rewrite (N.mod_small g 256) by exact H2. change (0 mod 256) with 0 in H1.
  generalize dependent (zsum (hdr_bytes h 0 0)). generalize (zsum (d4 len)). generalize (zsum rest).
  intros. cbn [Z.of_N] in *. lia.
Qed.

Lemma length_concat_map_rev {A} (f : A -> list N) (l : list A) :
  length (concat (map f (rev l))) = length (concat (map f l)).
Proof.
  induction l as [|a l IH]; [reflexivity|].
  cbn [rev map concat]. rewrite map_app, concat_app, !app_length, IH. cbn [map concat]. rewrite app_nil_r. lia.
Qed.

Lemma add_m_mod md a b r : add_m md U32 a b = Some r -> r = (a + b) mod 2 ^ 32.
Proof.
  unfold add_m, add_c, U32. destruct (N.ltb_spec (a + b) (2 ^ 32)).
  - intros E; inversion E; subst. symmetry. now apply N.mod_small.
  - destruct md; [discriminate|]. intros E; inversion E; reflexivity.
Qed.

Lemma add_c_mod a b r : add_c U32 a b = Some r -> r = (a + b) mod 2 ^ 32.
Proof.
  unfold add_c, U32. destruct (N.ltb_spec (a + b) (2 ^ 32)); [|discriminate].
  intros E; inversion E; subst. symmetry. now apply N.mod_small.
Qed.

(* ---------- resources and controllers: stored length = serialised size ---------- *)

Definition RsOk (r : resource) : Prop :=
  rs_length r = N.of_nat (length (ser_resource r)) /\ rs_length r < 2 ^ 16.

Lemma resource_new_ok rtype flags id r : resource_new rtype flags id = Some r -> RsOk r.
Proof.
  unfold resource_new, resid_len, assert.
  destruct (N.leb_spec (1 * 3 + 2 * 2 + (1 + N.of_nat (length (ri_payload id)))) 65535) as [Hle|]; [|discriminate].
  cbn [option_bind]. intros H; inversion H; subst; clear H.
  unfold RsOk, ser_resource. cbn [rs_length rs_type rs_flags rs_id].
  unfold b1, w2. rewrite !app_length, !length_le. unfold cast, U16.
  rewrite N.mod_small by lia. split; lia.
Qed.

Lemma resource_of_sx_ok x r : resource_of_sx x = Some r -> RsOk r.
Proof.
  unfold resource_of_sx. intros H.
  repeat match type of H with
         | match ?x with _ => _ end = Some _ => destruct x; try discriminate
         end.
  match type of H with option_bind ?e _ = _ => destruct e; [|discriminate] end.
  cbn [option_bind] in H. eapply resource_new_ok; eauto.
Qed.

Definition QInv (q : qosc) : Prop :=
  length (ser_flds (q_gas q)) = 12%nat /\
  q_length q = N.of_nat (28 + length (concat (map ser_resource (q_rres q)))) /\
  q_length q < 2 ^ 16.

Lemma qos_new_inv ctype g rcid mcid flags : length (ser_flds g) = 12%nat -> QInv (qos_new ctype g rcid mcid flags).
Proof. intros Hg. unfold QInv, qos_new. cbn [q_gas q_length q_rres map concat length]. split; [exact Hg|split; reflexivity]. Qed.

Lemma qos_add_resource_inv q r q' : QInv q -> RsOk r -> qos_add_resource q r = Some q' -> QInv q'.
Proof.
  intros (Hg & Hl & Hlt) (Hr & Hrlt). unfold qos_add_resource, add_c, cast, U16.
  destruct (q_nres q + 1 <? 2 ^ 16); [|discriminate]. cbn [option_bind].
  rewrite (N.mod_small (rs_length r)) by exact Hrlt.
  destruct (N.ltb_spec (q_length q + rs_length r) (2 ^ 16)) as [Hfit|]; [|discriminate]. cbn [option_bind].
  intros H; inversion H; subst; clear H. unfold QInv. cbn [q_gas q_length q_rres map concat].
  split; [exact Hg|split; [|exact Hfit]]. rewrite app_length, Hl, Hr. lia.
Qed.

Lemma qos_add_all_inv l : forall q q', QInv q -> qos_add_all q l = Some q' -> QInv q'.
Proof.
  induction l as [|x l IH]; intros q q' I H; cbn [qos_add_all] in H.
  - inversion H; subst. exact I.
  - destruct (resource_of_sx x) as [rs|] eqn:Er; [|discriminate]. cbn [option_bind] in H.
    destruct (qos_add_resource q rs) as [q1|] eqn:Ea; [|discriminate]. cbn [option_bind] in H.
    eapply IH; [|exact H]. eapply qos_add_resource_inv; eauto. eapply resource_of_sx_ok; eauto.
Qed.

Lemma qos_of_sx_inv o q : qos_of_sx o = Some q -> QInv q.
Proof.
  unfold qos_of_sx. intros H.
  repeat match type of H with
         | match ?x with _ => _ end = Some _ => destruct x; try discriminate
         end.
  match type of H with option_bind (gas_of_sx ?g) _ = _ => destruct (gas_of_sx g) as [gv|] eqn:Eg; [|discriminate] end.
  cbn [option_bind] in H. eapply qos_add_all_inv; [|exact H].
  apply qos_new_inv. destruct (gas_of_sx_shape _ _ Eg) as (a & b & c & d & e & ->). apply length_gas_mk.
Qed.

(* the controller's own Length field is the number of bytes it serialises to *)
Lemma ser_qos_length q : QInv q -> N.of_nat (length (ser_qos q)) = q_length q.
Proof.
  intros (Hg & Hl & _). unfold ser_qos, b1, w2, d4. rewrite !app_length, !length_le, Hg, frev_rev, length_concat_map_rev, Hl. lia.
Qed.

(* ---------- the table ---------- *)

Record RInv (s : rqsc) : Prop := {
  ri_hdr : hdr_ok (r_hdr s) = true;
  (* header.length tracks the serialised size (exactly, as long as the u32 does not overflow) *)
  ri_len : r_len s = N.of_nat (length (rqsc_image s)) mod 2 ^ 32;
  (* header.checksum = generate_checksum of the image with byte 9 zeroed *)
  ri_ck : r_hck s = generate_checksum (rqsc_bytes (r_hdr s) (r_len s) 0 (r_rcs s));
  ri_q : Forall QInv (r_rcs s)
}.

Lemma length_rqsc_bytes h len cks rcs : hdr_ok h = true ->
  length (rqsc_bytes h len cks rcs) = (40 + length (concat (map ser_qos rcs)))%nat.
Proof.
  intros Hh. unfold rqsc_bytes, d4. rewrite !app_length, (length_hdr_bytes _ _ _ Hh), length_le, frev_rev, length_concat_map_rev. lia.
Qed.

Lemma wadd8_0 a : a < 256 -> wadd8 a 0 = a.
Proof. intros H. unfold wadd8. rewrite N.add_0_r. now apply N.mod_small. Qed.

Lemma rqsc_new_inv c s0 : rqsc_new c = Some s0 -> RInv s0.
Proof.
  unfold rqsc_new. destruct c as [|l]; [discriminate|].
  destruct l as [|o [|t [|r [|x l]]]]; try discriminate.
  destruct (sx_hdr [82; 81; 83; 67] 1 o t r) as [h|] eqn:Eh; [|discriminate]. cbn [option_bind].
  intros H. inversion H; subst; clear H.
  assert (Hh : hdr_ok h = true) by (eapply sx_hdr_ok; [|exact Eh]; reflexivity).
  constructor; cbn [r_hdr r_len r_hck r_rcs].
  - exact Hh.
  - unfold rqsc_image. cbn [r_hdr r_len r_hck r_rcs]. rewrite (length_rqsc_bytes _ _ _ _ Hh). reflexivity.
  - (* new feeds only the header to the checksum: the four count bytes are zero *)
    unfold generate_checksum, rqsc_bytes, ck_append. cbn [length frev rev_append map concat N.of_nat].
    rewrite app_nil_r, fold_left_app. f_equal.
    pose proof (fold_wadd8_lt (hdr_bytes h (36 + 4) 0) 0 ltac:(lia)) as Hlt.
    set (v := fold_left wadd8 (hdr_bytes h (36 + 4) 0) 0) in *.
    change (d4 0) with [0; 0; 0; 0]. cbn [fold_left]. rewrite !(wadd8_0 v Hlt). reflexivity.
  - constructor.
Qed.

Lemma rqsc_add_inv md s q s' : RInv s -> QInv q -> rqsc_add md s q = Some s' -> RInv s'.
Proof.
  intros [Hh Hlen Hck Hq] Iq. unfold rqsc_add.
  destruct (add_c U32 (cast U32 (q_length q)) (r_len s)) as [nl|] eqn:En; [|discriminate]. cbn [option_bind].
  intros H; inversion H; subst; clear H.
  constructor; cbn [r_hdr r_len r_hck r_rcs].
  - exact Hh.
  - apply add_c_mod in En. rewrite En. unfold cast, U32.
    destruct Iq as (Hg & Hl & Hlt).
    rewrite (N.mod_small (q_length q)) by (change (2 ^ 16) with 65536 in Hlt; change (2 ^ 32) with 4294967296; lia).
    unfold rqsc_image in *. cbn [r_hdr r_len r_hck r_rcs].
    rewrite (length_rqsc_bytes _ _ _ _ Hh) in Hlen. rewrite (length_rqsc_bytes _ _ _ _ Hh).
    cbn [map concat]. rewrite app_length, Hlen, N.add_mod_idemp_r by lia.
    pose proof (ser_qos_length q (conj Hg (conj Hl Hlt))) as Hs. f_equal. lia.
  - reflexivity.
  - constructor; assumption.
Qed.

Fixpoint rqsc_run (md : mode) (s : rqsc) (ops : list sx) : option rqsc :=
  match ops with
  | [] => Some s
  | SA _ :: r => rqsc_run md s r
  | o :: r => match rqsc_step md s o with Some (s', _) => rqsc_run md s' r | None => None end
  end.

Lemma rqsc_run_inv md ops : forall s s', RInv s -> rqsc_run md s ops = Some s' -> RInv s'.
Proof.
  induction ops as [|o ops IH]; intros s s' I H; cbn [rqsc_run] in H.
  - inversion H; subst. exact I.
  - destruct o as [n|l]; [now apply (IH s)|].
    unfold rqsc_step in H. destruct (qos_of_sx (SL l)) as [q|] eqn:Eq; [|discriminate]. cbn [option_bind] in H.
    destruct (rqsc_add md s q) as [s1|] eqn:Ea; [|discriminate]. cbn [option_bind] in H.
    apply (IH s1); [|exact H]. eapply rqsc_add_inv; eauto. eapply qos_of_sx_inv; eauto.
Qed.

(* consequences of the invariant for the emitted bytes *)
Lemma rinv_sum8 s : RInv s -> sum8 (rqsc_image s) = 0.
Proof.
  intros [_ _ Hck _]. unfold rqsc_image. rewrite Hck. unfold rqsc_bytes. apply sum8_with_checksum.
Qed.

Lemma rinv_len_field s : RInv s -> N.of_nat (length (rqsc_image s)) < 2 ^ 32 ->
  field_at (rqsc_image s) 4 4 = N.of_nat (length (rqsc_image s)).
Proof.
  intros [Hh Hlen _ _] Hfit. unfold rqsc_image at 1. unfold rqsc_bytes. rewrite (hdr_len_field _ _ _ _ Hh).
  rewrite Hlen, N.mod_mod by lia. now apply N.mod_small.
Qed.

(* every controller's own Length field, as emitted, is the number of bytes the controller occupies *)
Lemma rinv_controller_lengths s : RInv s -> Forall (fun q => field_at (ser_qos q) 2 2 = N.of_nat (length (ser_qos q))) (r_rcs s).
Proof.
  intros [_ _ _ Hq]. eapply Forall_impl; [|exact Hq]. intros q I.
  rewrite (ser_qos_length q I). destruct I as (_ & _ & Hlt).
  unfold ser_qos, field_at, b1. change (le 1 (q_type q)) with [q_type q mod 256]. change (le 1 0) with [0 mod 256].
  cbn [skipn app]. unfold w2. rewrite firstn_le_app. apply unle_le_small. exact Hlt.
Qed.

(* C01 + C02 for the RQSC: any constructor arguments, any build profile, any finite history *)
Theorem rqsc_history md c ops s0 s :
  rqsc_new c = Some s0 -> rqsc_run md s0 ops = Some s ->
  sum8 (rqsc_image s) = 0 /\
  (N.of_nat (length (rqsc_image s)) < 2 ^ 32 -> field_at (rqsc_image s) 4 4 = N.of_nat (length (rqsc_image s))).
Proof.
  intros Hn Hr. pose proof (rqsc_run_inv md ops s0 s (rqsc_new_inv c s0 Hn) Hr) as I.
  split; [now apply rinv_sum8 | now apply rinv_len_field].
Qed.
