(* C03, per-entry self-consistency on the REFERENCE images, generic part.
   If the body of an image (from the table's first-entry offset) is a concatenation of entries that describe themselves
   under the table's entry-header format and each of them passes [entry_self_ok], then [c03_self_at] is true of the image.
   Depends on the Spec layer and on the generic walk lemmas only (nothing from the Impl model). *)
From Coq Require Import NArith ZArith List Lia Bool Arith.
From ACPI Require Import Lib.Bytes Lib.Sx Spec.Layout Spec.MadtS Spec.HmatS Spec.SelfCheck Proofs.WalkP Proofs.WalkRefCommon2P.
Import ListNotations.

Ltac Zify.zify_post_hook ::= Z.to_euclidean_division_equations.

Open Scope N_scope.

(* cutting the entries out of the body in walk order gives the entries back *)
Lemma self_all_concat comp : forall es tys off,
  Forall2 (fun e t => entry_self_ok comp t e = true) es tys ->
  self_all comp (walk_result off es tys) (concat es) = true.
Proof.
  induction es as [|e es IH]; intros tys off HF; inversion HF as [|? t ? ts He Hrest]; subst; [reflexivity|].
  cbn [walk_result self_all concat]. rewrite firstn_app_exact, skipn_app_exact, He. cbn [andb].
  apply IH. exact Hrest.
Qed.

Lemma c03_self_at_of_entries comp first h r es tys :
  (first <= length r)%nat -> skipn first r = concat es ->
  Forall2 (self_describing h) es tys ->
  Forall2 (fun e t => entry_self_ok comp t e = true) es tys ->
  c03_self_at (Some (first, h)) comp r = true.
Proof.
  intros Hfirst Hsk HF Hok. unfold c03_self_at. rewrite Hsk.
  assert (Hfuel : (length es <= S (length r))%nat).
  { pose proof (concat_length_ge _ _ _ HF) as H1. rewrite <- Hsk, skipn_length in H1. lia. }
  rewrite (walk_concat h es tys first (S (length r)) HF Hfuel).
  rewrite (proj2 (Nat.leb_le _ _) Hfirst). cbn [andb].
  apply self_all_concat. exact Hok.
Qed.

(* the form every table Spec has: a reference table whose body is the concatenation of the entries, the type code of an
   entry being a function of its bytes *)
Lemma c03_self_at_ref comp first h (tyf : list N -> N) sig rev ha fx es :
  length sig = 4%nat -> length (ha_oem ha) = 6%nat -> length (ha_tbl ha) = 8%nat ->
  first = (36 + length fx)%nat ->
  Forall (fun e => self_describing h e (tyf e)) es ->
  Forall (fun e => entry_self_ok comp (tyf e) e = true) es ->
  c03_self_at (Some (first, h)) comp (ref_table sig rev ha (fx ++ concat es)) = true.
Proof.
  intros Hs Ho Ht Hf Hsd Hok.
  apply (c03_self_at_of_entries comp first h _ es (map tyf es)).
  - rewrite (length_ref_table' sig rev ha _ Hs Ho Ht), app_length. lia.
  - apply skipn_ref_table; assumption.
  - apply Forall_Forall2_map. exact Hsd.
  - apply (Forall_Forall2_map (fun e t => entry_self_ok comp t e = true)). exact Hok.
Qed.

(* entries built operation by operation with [opt_concat (map eref ops)] (MADT SRAT MCFG XSDT HMAT) *)
Lemma opt_concat_forall (eref : sx -> option (list N)) (P : list N -> Prop) :
  (forall o b, eref o = Some b -> P b) ->
  forall ops es, opt_concat (map eref ops) = Some es -> Forall P es.
Proof.
  intros HP. induction ops as [|o ops IH]; intros es H; cbn [map opt_concat] in H.
  - apply wr_Some_inj in H. subst es. constructor.
  - destruct (eref o) as [b|] eqn:Eb; [|discriminate H].
    destruct (opt_concat (map eref ops)) as [es'|]; [|discriminate H].
    apply wr_Some_inj in H. subst es. constructor; [exact (HP o b Eb)|]. apply IH. reflexivity.
Qed.

(* a checked layout has the size it was checked against *)
Lemma lay_length size l b : lay size l = Some b -> length b = size.
Proof. intros H. exact (proj1 (lay_decodes size l b H)). Qed.

Lemma lay_fixed_ok size l b : lay size l = Some b -> fixed_ok (Some size) b = true.
Proof. intros H. cbn [fixed_ok]. rewrite (lay_length _ _ _ H). apply Nat.eqb_refl. Qed.

(* the first byte of a layout that starts with a one-byte field *)
Lemma lay_nth0 size ty rest b : lay size (L 0 1 ty :: rest) = Some b -> nth 0 b 0 = ty mod 256.
Proof.
  intros H. unfold lay in H. destruct (_ && _); [|discriminate H]. apply wr_Some_inj in H. subst b.
  unfold L. rewrite assemble_cons. reflexivity.
Qed.

Lemma lenN_eq e n : length e = n -> lenN e = N.of_nat n.
Proof. intros <-. reflexivity. Qed.

(* a layout that starts with a one-byte type code, in a table whose types have fixed sizes *)
Lemma lay_u8_fixed (sizes : N -> option nat) size ty rest b :
  lay size (L 0 1 ty :: rest) = Some b -> sizes (ty mod 256) = Some size ->
  fixed_ok (sizes (nth 0 b 0)) b = true.
Proof. intros H Hs. rewrite (lay_nth0 _ _ _ _ H), Hs. exact (lay_fixed_ok _ _ _ H). Qed.

(* a fixed part followed by something *)
Lemma lay_then_split size l (rest img : list N) : HmatS.lay_then size l rest = Some img ->
  exists fixed, length fixed = size /\ img = fixed ++ rest.
Proof.
  unfold HmatS.lay_then. destruct (lay size l) as [fixed|] eqn:E; [|discriminate]. intros H. apply wr_Some_inj in H.
  exists fixed. split; [exact (lay_length _ _ _ E)|now subst img].
Qed.

Lemma option_map_app_split size l (rest img : list N) : option_map (fun h => h ++ rest) (lay size l) = Some img ->
  exists fixed, length fixed = size /\ img = fixed ++ rest.
Proof. exact (lay_then_split size l rest img). Qed.

(* the byte right after a prefix *)
Lemma byte_at_here pre x post off : N.to_nat off = length pre -> x < 256 -> byte_at (pre ++ x :: post) off = x.
Proof.
  intros Hoff Hx. unfold byte_at. rewrite Hoff. rewrite (field_at_skip pre (x :: post) (length pre) 1 eq_refl).
  unfold field_at. cbn [skipn firstn unle]. lia.
Qed.

Lemma pow8_1 : 2 ^ (8 * N.of_nat 1) = 256. Proof. reflexivity. Qed.
Lemma pow8_2 : 2 ^ (8 * N.of_nat 2) = 65536. Proof. reflexivity. Qed.
Lemma pow8_4 : 2 ^ (8 * N.of_nat 4) = 4294967296. Proof. reflexivity. Qed.

Lemma nth0_field e : (1 <= length e)%nat -> nth 0 e 0 = field_at e 0 1.
Proof. destruct e as [|x e]; cbn [length]; [lia|]. intros _. unfold field_at. cbn [skipn firstn unle nth]. lia. Qed.

(* header (type u8, length u8) from the decoded length field *)
Lemma sd_u8_u8_of_fields e : (2 <= length e)%nat -> field_at e 1 1 = N.of_nat (length e) ->
  self_describing H_u8_u8 e (nth 0 e 0).
Proof.
  intros Hlen Hf. destruct e as [|a [|b e']]; cbn [length] in Hlen; try lia.
  split; [cbn [length]; lia|]. intros rest. cbn [app read_ehdr nth].
  unfold field_at in Hf. cbn [skipn firstn unle] in Hf.
  replace b with (N.of_nat (length (a :: b :: e'))) by lia. rewrite Nat2N.id. reflexivity.
Qed.

(* header (type u16, reserved u16, length u32) from the decoded length field *)
Lemma sd_u16_u16_u32_of_fields e : (8 <= length e)%nat -> field_at e 4 4 = N.of_nat (length e) ->
  self_describing H_u16_u16_u32 e (field_at e 0 2).
Proof.
  intros Hlen Hf. destruct e as [|a [|b [|c [|d [|x [|y [|z [|w e']]]]]]]]; cbn [length] in Hlen; try lia.
  split; [cbn [length]; lia|]. intros rest. cbn [app read_ehdr].
  unfold field_at in Hf. cbn [skipn firstn] in Hf. rewrite Hf, Nat2N.id. reflexivity.
Qed.

Lemma length_arr' w l : length (arr w l) = (w * length l)%nat.
Proof.
  unfold arr. induction l as [|x l IH]; cbn [map concat length]; [lia|]. rewrite app_length, length_le, IH. lia.
Qed.
