(* RHCT: the table-specific obligations of the generic history invariant. *)
From Coq Require Import NArith ZArith List Lia Bool Arith.
From ACPI Require Import Lib.Bytes Lib.Sx Lib.Machine Impl.Checksum Impl.Table Impl.Fields Impl.Run Impl.Madt Impl.Rhct
  Proofs.ChecksumP Proofs.TableP Proofs.MadtP Proofs.Tables.
Import ListNotations.

Ltac Zify.zify_post_hook ::= Z.to_euclidean_division_equations.

Open Scope N_scope.

Ltac break_sx H :=
  repeat match type of H with
         | context [match ?x with _ => _ end] => is_var x; destruct x; try discriminate H
         end.

Lemma rh_Some_inj {A} (x y : A) : Some x = Some y -> x = y.
Proof. congruence. Qed.

Lemma rhct_new_inv c s0 : rhct_new c = Some s0 -> Inv2 KRhct s0.
Proof.
  unfold rhct_new. intros H. break_sx H.
  destruct (sx_hdr [82; 72; 67; 84] 1 _ _ _) as [h|] eqn:Eh; [|discriminate].
  cbn [option_bind] in H. apply rh_Some_inj in H. subst s0.
  apply tbl_new_inv2; [eapply sx_hdr_ok; [|exact Eh]; reflexivity | reflexivity].
Qed.

(* IsaStringNode: len() (8 + n + 1 rounded up to even) is what to_aml_bytes writes, for both parities of n *)
Lemma isa_bytes_length str b : isa_bytes str = Some b ->
  isa_len str = N.of_nat (length b) /\ isa_len str <= 65535 /\ (1 <= length b)%nat.
Proof.
  unfold isa_bytes. destruct (N.leb_spec (isa_len str) 65535) as [Hle|]; [|discriminate].
  cbn [assert option_bind]. intros H. apply rh_Some_inj in H. subst b.
  unfold isa_len in *. remember (N.of_nat (length str)) as n eqn:En.
  assert (Hn : n <= 65526).
  { destruct ((8 + n + 1) mod 2 =? 0); lia. }
  unfold cast, U16. rewrite (N.mod_small n) by lia.
  split; [|split; [exact Hle|]].
  - destruct (N.eqb_spec ((8 + n + 1) mod 2) 0) as [He|He];
      destruct (N.eqb_spec ((n + 1) mod 2) 1) as [Hp|Hp];
      unfold w2, b1; rewrite !app_length, !length_le; cbn [length]; lia.
  - unfold w2. rewrite app_length, length_le. lia.
Qed.

Lemma length_rh_dwords l : length (rh_dwords l) = (4 * length l)%nat.
Proof. unfold rh_dwords. induction l as [|x l IH]; cbn [map concat length]; [reflexivity|]. unfold d4 at 1. rewrite app_length, length_le, IH. lia. Qed.

(* HartInfoNode: len() = 12 + 4 * handles *)
Lemma hart_bytes_length uid hs b : hart_bytes uid hs = Some b ->
  hart_len hs = N.of_nat (length b) /\ hart_len hs <= 65535 /\ (1 <= length b)%nat.
Proof.
  unfold hart_bytes. destruct (N.leb_spec (hart_len hs) 65535) as [Hle|]; [|discriminate].
  cbn [assert option_bind]. intros H. apply rh_Some_inj in H. subst b.
  split; [|split; [exact Hle|]].
  - unfold hart_len, w2, d4. rewrite !app_length, !length_le, length_rh_dwords. lia.
  - unfold w2. rewrite app_length, length_le. lia.
Qed.

Lemma length_mmu_bytes x : length (mmu_bytes x) = 8%nat.
Proof. unfold mmu_bytes, w2, b1. rewrite !app_length, !length_le. reflexivity. Qed.

Lemma length_cmo_bytes x y z : length (cmo_bytes x y z) = 10%nat.
Proof. unfold cmo_bytes, w2, b1. rewrite !app_length, !length_le. reflexivity. Qed.

Lemma rhct_addition_sound s o e : t_kind s = KRhct -> rhct_addition s o = Some e ->
  a_claimed e = N.of_nat (length (a_bytes e)) /\
  (needs_pos (t_kind s) = true -> (1 <= length (a_bytes e))%nat /\ a_claimed e < 2 ^ 16).
Proof.
  intros Hk H. unfold rhct_addition in H. break_sx H;
    repeat match type of H with
           | option_bind ?x _ = Some _ => let E := fresh "E" in destruct x eqn:E; [|discriminate H]; cbn [option_bind] in H
           end;
    apply rh_Some_inj in H; subst e; cbn [rhct_add a_claimed a_bytes];
    try match goal with E : isa_bytes _ = Some _ |- _ => destruct (isa_bytes_length _ _ E) as (H1 & H2 & H3) end;
    try match goal with E : hart_bytes _ _ = Some _ |- _ => destruct (hart_bytes_length _ _ _ E) as (H1 & H2 & H3) end;
    rewrite ?length_mmu_bytes, ?length_cmo_bytes;
    (split; [first [assumption|reflexivity] | intros _; change (2 ^ 16) with 65536; split; lia]).
Qed.

Definition rhct_table : addtable :=
  {| at_name := [82; 72; 67; 84]; at_kind := KRhct; at_new := rhct_new; at_entry := rhct_addition;
     at_new_inv := rhct_new_inv; at_sound := rhct_addition_sound |}.
