(* CEDT: the table-specific obligations of the generic history invariant, and the CFMWS window-restrictions theorem
   (the restrictions word is the union of the bits of the builders invoked, in any order and with repetitions). *)
From Coq Require Import NArith ZArith List Lia Bool Arith.
From ACPI Require Import Lib.Bytes Lib.Sx Lib.Machine Impl.Checksum Impl.Table Impl.Fields Impl.Run Impl.Madt Impl.Cedt
  Spec.Layout Spec.CedtS Proofs.ChecksumP Proofs.TableP Proofs.MadtP Proofs.Tables Proofs.RimtP.
Import ListNotations.
Open Scope N_scope.

Lemma cedt_new_inv c s0 : cedt_new c = Some s0 -> Inv2 KCedt s0.
Proof.
  unfold cedt_new. destruct c as [|l]; [discriminate|].
  destruct l as [|o [|t [|r [|x l]]]]; try discriminate.
  destruct (sx_hdr [67; 69; 68; 84] 1 o t r) as [h|] eqn:Eh; [|discriminate]. cbn [option_bind].
  intros H. inversion H; subst.
  apply tbl_new_inv2; [eapply sx_hdr_ok; [|exact Eh]; reflexivity | reflexivity].
Qed.

(* CxlHostBridge::len() = 32 = bytes written; PortAssociation::len() = 17 = bytes written *)
Lemma chbs_len uid ver base vl : length (chbs_bytes uid ver base vl) = 32%nat.
Proof. reflexivity. Qed.
Lemma rdpas_len seg b proto base : length (rdpas_bytes seg b proto base) = 17%nat.
Proof. reflexivity. Qed.

(* CxlFixedMemory::len() = 0x24 + 4 * ways: equals the bytes written exactly when the serialiser's assert holds *)
Lemma cfmws_len_sound base size ways arith gran restr qtg nw tg :
  Forall (fun t => length t = 4%nat) tg -> nw = N.of_nat (length tg) ->
  cfmws_len nw = N.of_nat (length (cfmws_bytes base size ways arith gran restr qtg nw tg)).
Proof.
  intros Ht ->. unfold cfmws_len, cfmws_bytes, b1, w2, d4, q8. rewrite !app_length, !length_le, (length_concat_const 4) by exact Ht. lia.
Qed.

(* XorInterleaveMath::len() = 8 + 8 * bitmaps = bytes written *)
Lemma cxims_len_sound gran ms : cxims_len (N.of_nat (length ms)) = N.of_nat (length (cxims_bytes gran ms)).
Proof.
  unfold cxims_len, cxims_bytes, b1, w2, q8. rewrite !app_length, !length_le, (length_concat_map_le 8). lia.
Qed.

Lemma cedt_addition_sound s o e : t_kind s = KCedt -> cedt_addition s o = Some e ->
  a_claimed e = N.of_nat (length (a_bytes e)) /\
  (needs_pos (t_kind s) = true -> (1 <= length (a_bytes e))%nat /\ a_claimed e < 2 ^ 16).
Proof.
  intros Hk H. split; [|rewrite Hk; discriminate].
  unfold cedt_addition in H. split_matches H; inversion H; subst; cbn [a_claimed a_bytes];
    first [ reflexivity
          | apply cxims_len_sound
          | apply cfmws_len_sound;
            [ eapply (sx_list_all_Forall (sx_arr 4)); [|eassumption]; intros x a Ha; exact (sx_arr_length _ _ _ Ha)
            | match goal with E : assert (?a =? ?b) = Some _ |- _ =>
                unfold assert in E; destruct (N.eqb_spec a b); [assumption|discriminate E] end ] ].
Qed.

Definition cedt_table : addtable :=
  {| at_name := [67; 69; 68; 84]; at_kind := KCedt; at_new := cedt_new; at_entry := cedt_addition;
     at_new_inv := cedt_new_inv; at_sound := cedt_addition_sound |}.

(* what the generic history theorems give for this table: after every constructor and every history of additions
   (no bound on the length) the serialised table sums to 0 and its Length field is its size *)
Corollary cedt_history md c ops s0 s :
  cedt_new c = Some s0 -> run_adds cedt_addition md s0 ops = Some s -> N.of_nat (length (tbl_image s)) < 2 ^ 32 ->
  sum8 (tbl_image s) = 0 /\ field_at (tbl_image s) 4 4 = N.of_nat (length (tbl_image s)).
Proof.
  intros Hn Hr Hfit. pose proof (addtable_reach cedt_table md c ops s0 s Hn Hr Hfit) as [I _].
  split; [now apply inv_sum8_zero|now apply image_len_field].
Qed.

(* ------------------------------------------------------------------------------------------------
   CFMWS window restrictions (C11): window_restrictions starts at 0 and every builder does `|= bit`. *)

(* bit i of the accumulated word: set iff it was set before or some builder's mask has it *)
Lemma fold_lor_testbit (bits : list N) (a i : N) :
  N.testbit (fold_left N.lor bits a) i = N.testbit a i || existsb (fun b => N.testbit b i) bits.
Proof.
  revert a; induction bits as [|b bits IH]; intros a; cbn [fold_left existsb].
  - now rewrite orb_false_r.
  - rewrite IH, N.lor_spec, orb_assoc. reflexivity.
Qed.

Lemma restr_apply_testbit bits i : N.testbit (restr_apply bits) i = existsb (fun b => N.testbit b i) bits.
Proof. unfold restr_apply. rewrite fold_lor_testbit. rewrite N.bits_0. reflexivity. Qed.

(* one more builder call ORs its bit into the word (sequential reading of the builder chain) *)
Lemma restr_apply_snoc bits b : restr_apply (bits ++ [b]) = N.lor (restr_apply bits) b.
Proof. unfold restr_apply. rewrite fold_left_app. reflexivity. Qed.

Lemma restr_apply_app l1 l2 : restr_apply (l1 ++ l2) = N.lor (restr_apply l1) (restr_apply l2).
Proof.
  apply N.bits_inj. intros i. rewrite N.lor_spec, !restr_apply_testbit, existsb_app. reflexivity.
Qed.

Lemma existsb_same_elements {A} (p : A -> bool) (l1 l2 : list A) :
  (forall x, In x l1 <-> In x l2) -> existsb p l1 = existsb p l2.
Proof.
  intros H. apply eq_true_iff_eq. rewrite !existsb_exists. split; intros [x [Hx Hp]]; exists x; (split; [apply H; exact Hx|exact Hp]).
Qed.

(* the word depends only on WHICH builders were invoked: any order, any number of repetitions *)
Theorem restr_apply_order_repetition (l1 l2 : list N) :
  (forall b, In b l1 <-> In b l2) -> restr_apply l1 = restr_apply l2.
Proof.
  intros H. apply N.bits_inj. intros i. rewrite !restr_apply_testbit. now apply existsb_same_elements.
Qed.

Corollary restr_apply_perm_examples b c l : restr_apply (b :: c :: l) = restr_apply (c :: b :: l) /\ restr_apply (b :: b :: l) = restr_apply (b :: l).
Proof.
  split; apply restr_apply_order_repetition; intros x; cbn [In]; tauto.
Qed.

(* the restrictions word of the serialised CFMWS is the 16-bit field at offset 32 *)
Lemma cfmws_restr_field base size ways arith gran restr qtg nw tg :
  firstn 2 (skipn 32 (cfmws_bytes base size ways arith gran restr qtg nw tg)) = w2 restr.
Proof. reflexivity. Qed.

Lemma restr_bit_small b v : restr_bit b = Some v -> v < 32.
Proof. unfold restr_bit. intros H. split_matches H; inversion H; subst; reflexivity. Qed.

Lemma fold_lor_small (bits : list N) : Forall (fun v => v < 32) bits -> forall a, a < 32 -> fold_left N.lor bits a < 32.
Proof.
  induction 1 as [|b bits Hb _ IH]; intros a Ha; cbn [fold_left]; [exact Ha|].
  apply IH. change 32 with (2 ^ 5) in *.
  destruct (N.eq_dec (N.lor a b) 0) as [->|Hnz]; [reflexivity|].
  apply N.log2_lt_pow2; [lia|]. rewrite N.log2_lor.
  destruct (N.eq_dec a 0) as [->|Ha0]; destruct (N.eq_dec b 0) as [->|Hb0]; cbn [N.log2]; try lia.
  - apply N.max_lub_lt; [reflexivity|apply N.log2_lt_pow2; lia].
  - apply N.max_lub_lt; [apply N.log2_lt_pow2; lia|reflexivity].
  - apply N.max_lub_lt; apply N.log2_lt_pow2; lia.
Qed.

(* C11 for the CFMWS, Impl side: for every builder sequence accepted by the model, the little-endian word found at offset 32
   of the structure is the N.lor-fold of the builders' bits *)
Theorem cfmws_restrictions_field builders bits base size ways arith gran qtg nw tg :
  sx_list_all restr_builder builders = Some bits ->
  field_at (cfmws_bytes base size ways arith gran (restr_apply bits) qtg nw tg) 32 2 = fold_left N.lor bits 0.
Proof.
  intros H. unfold field_at. rewrite cfmws_restr_field. unfold w2. rewrite unle_le_small; [reflexivity|].
  assert (Hs : restr_apply bits < 32).
  { unfold restr_apply. apply fold_lor_small; [|reflexivity].
    eapply (sx_list_all_Forall restr_builder); [|exact H].
    intros x a Ha. unfold restr_builder in Ha. split_matches Ha; eapply restr_bit_small; eassumption. }
  change (2 ^ (8 * N.of_nat 2)) with 65536. lia.
Qed.

(* Impl <-> Spec: the lor-fold is the sum of the specification bits of exactly the builders invoked *)
Definition restr_val (f1 f2 f3 f4 f5 : bool) : N :=
  (if f1 then 1 else 0) + (if f2 then 2 else 0) + (if f3 then 4 else 0) + (if f4 then 8 else 0) + (if f5 then 16 else 0).

Lemma lor_restr_val k v f1 f2 f3 f4 f5 : restr_bit k = Some v ->
  N.lor (restr_val f1 f2 f3 f4 f5) v =
  restr_val (f1 || (k =? 1)) (f2 || (k =? 2)) (f3 || (k =? 3)) (f4 || (k =? 4)) (f5 || (k =? 5)).
Proof.
  unfold restr_bit. intros H. split_matches H; inversion H; subst; destruct f1, f2, f3, f4, f5; reflexivity.
Qed.

Lemma cedt_invoked_cons j k rest : cedt_invoked j (SL [SA k] :: rest) = (k =? j) || cedt_invoked j rest.
Proof. reflexivity. Qed.

Lemma fold_lor_restr_val builders : forall bits f1 f2 f3 f4 f5,
  sx_list_all restr_builder builders = Some bits ->
  fold_left N.lor bits (restr_val f1 f2 f3 f4 f5) =
  restr_val (f1 || cedt_invoked 1 builders) (f2 || cedt_invoked 2 builders) (f3 || cedt_invoked 3 builders)
            (f4 || cedt_invoked 4 builders) (f5 || cedt_invoked 5 builders).
Proof.
  induction builders as [|b builders IH]; intros bits f1 f2 f3 f4 f5 H; cbn [sx_list_all] in H.
  - inversion H; subst. cbn [fold_left cedt_invoked existsb]. now rewrite !orb_false_r.
  - destruct (restr_builder b) as [v|] eqn:Eb; [|discriminate].
    destruct (sx_list_all restr_builder builders) as [r|] eqn:Er; [|discriminate]. inversion H; subst. clear H.
    cbn [fold_left]. unfold restr_builder in Eb.
    destruct b as [|[|[k|] [|]]]; try discriminate.
    rewrite (lor_restr_val k v) by exact Eb. rewrite (IH r) by reflexivity.
    rewrite !cedt_invoked_cons, !orb_assoc. reflexivity.
Qed.

(* the word the Impl model writes = the restrictions value of the Spec layer (bits b0 type-2, b1 type-3, b2 volatile,
   b3 persistent, b4 fixed configuration of exactly the builders invoked) *)
Theorem cfmws_restrictions_spec builders bits :
  sx_list_all restr_builder builders = Some bits -> restr_apply bits = cedt_restrictions builders.
Proof.
  intros H. unfold restr_apply. change 0 with (restr_val false false false false false).
  rewrite (fold_lor_restr_val builders bits) by exact H. reflexivity.
Qed.
