(* Coherence (Proofs/CoherenceTablesP.v) instantiated for the tables with their own state machines:
   SLIT 14 (cell assignments), RQSC 22 (controllers with nested resources), HEST 21 (histories of error-source additions,
   without the stand-alone structures of the ops 20 / 21, as in c04_hest_refines). *)
From Coq Require Import NArith List Bool Lia Arith.
From ACPI Require Import Lib.Bytes Lib.Sx Lib.Machine Impl.Table Impl.Fields Impl.Run Impl.Slit Impl.Rqsc Impl.Hest
  Spec.Layout Spec.MadtS Spec.GasS Spec.SlitS Spec.RqscS Spec.HestS
  Proofs.FixedP Proofs.TableP Proofs.Tables Proofs.SlitP Proofs.RqscP Proofs.HestP
  Proofs.SlitRefP Proofs.RqscRefP Proofs.HestRefP
  Judge Proofs.CoherenceTablesP Proofs.CoherenceFixedP Proofs.CoherenceAddP.
Import ListNotations.
Open Scope N_scope.

Section Special.
  Context {S : Type}.
  Variable spec : tspec.
  Variable new : sx -> option S.
  Variable step : mode -> S -> sx -> option (S * list ev).
  Variable image : S -> option (list N).
  Variable wf : list sx -> Prop.           (* side condition on the history *)
  Variable fits : list N -> Prop.          (* side condition on the reference image *)
  Hypothesis step_one : forall md s o s' evs, step md s o = Some (s', evs) -> exists h, evs = [EvNum h].
  Hypothesis image_total : forall s, exists b, image s = Some b.
  Hypothesis Href : forall md ctor p r, ts_image spec ctor p = Some r -> wf p -> fits r ->
    exists s0 s, new ctor = Some s0 /\ run_steps (step md) s0 p = Some s /\ image s = Some r.
  Hypothesis wf_prefix : forall p q, wf (p ++ q) -> wf p.
  (* the covered domain is closed under prefixes *)
  Hypothesis dom_closed : forall ctor p q r, ts_image spec ctor (p ++ q) = Some r -> wf (p ++ q) -> fits r ->
    exists r1, ts_image spec ctor p = Some r1 /\ fits r1.
  (* what the model's theorems say of the image reached by a covered history *)
  Hypothesis Hgood : forall md ctor p r1 s0 s,
    ts_image spec ctor p = Some r1 -> wf p -> fits r1 ->
    new ctor = Some s0 -> run_steps (step md) s0 p = Some s -> image s = Some r1 ->
    sum8 r1 = 0 /\ field_at r1 4 4 = N.of_nat (length r1).

  Lemma special_refinement md : forall ctor p r, ts_image spec ctor p = Some r -> (fun _ p r => wf p /\ fits r) ctor p r ->
    exists s0 s, new ctor = Some s0 /\ run_steps (step md) s0 p = Some s /\ image s = Some r.
  Proof. intros ctor p r Ht [Hw Hf]. exact (Href md ctor p r Ht Hw Hf). Qed.

  Theorem special_coherent md ctor ops r :
    markers_ok ops = true -> wf (real_ops ops) -> ts_image spec ctor (real_ops ops) = Some r -> fits r ->
    let c := SL (ctor :: ops) in
    let evs := run_history image (step md) new c in
    c04_oracle spec c evs = true /\ c01_oracle c evs = true /\ c02_oracle c evs = true.
  Proof.
    intros Hm Hw Ht Hf c evs.
    assert (Hs : side_at_prefixes spec (fun _ p r => wf p /\ fits r) ctor ops).
    { intros p q r1 E Ht1. rewrite E in Hw, Ht. split; [exact (wf_prefix p q Hw)|].
      destruct (dom_closed ctor p q r Ht Hw Hf) as (r1' & Ht1' & Hf1). rewrite Ht1 in Ht1'. inversion Ht1'; subst r1'. exact Hf1. }
    destruct (refinement_accepts image (step md) new spec _ (special_refinement md) ctor ops r Ht Hs) as (s0 & sf & Hn & Hr & Hi).
    assert (Hg : forall p q s1 b, real_ops ops = p ++ q -> run_steps (step md) s0 p = Some s1 -> image s1 = Some b ->
              sum8 b = 0 /\ field_at b 4 4 = N.of_nat (length b)).
    { intros p q s1 b E Hs1 Hb. pose proof Hw as Hw'. pose proof Ht as Ht'. rewrite E in Hw', Ht'.
      destruct (dom_closed ctor p q r Ht' Hw' Hf) as (r1 & Ht1 & Hf1).
      pose proof (wf_prefix p q Hw') as Hwp.
      destruct (Href md ctor p r1 Ht1 Hwp Hf1) as (s0' & s' & Hn' & Hr' & Hi').
      rewrite Hn in Hn'. inversion Hn'; subst s0'. rewrite Hs1 in Hr'. inversion Hr'; subst s'.
      rewrite Hb in Hi'. inversion Hi'; subst b.
      exact (Hgood md ctor p r1 s0 s1 Ht1 Hwp Hf1 Hn Hs1 Hb). }
    split; [|split].
    - exact (c04_coherent_refines image (step md) (step_one md) image_total new spec _ (special_refinement md) ctor ops r Hm Ht Hs).
    - apply (images_coherent image (step md) (step_one md) image_total new sum_ok ctor ops s0 sf Hm Hn Hr).
      intros p q s1 b E Hs1 Hb. unfold sum_ok. apply N.eqb_eq. exact (proj1 (Hg p q s1 b E Hs1 Hb)).
    - apply (images_coherent image (step md) (step_one md) image_total new len_ok ctor ops s0 sf Hm Hn Hr).
      intros p q s1 b E Hs1 Hb. unfold len_ok. apply N.eqb_eq. exact (proj2 (Hg p q s1 b E Hs1 Hb)).
  Qed.
End Special.

Lemma total_some {S} (f : S -> list N) : forall s, exists b, (fun s => Some (f s)) s = Some b.
Proof. intros s. exists (f s). reflexivity. Qed.

(* ---------- SLIT ---------- *)
Lemma slit_step_one md s o s' evs : slit_step md s o = Some (s', evs) -> exists h, evs = [EvNum h].
Proof. unfold slit_step. intros H. inv_step H. exact (some_pair_one _ _ _ _ H). Qed.

Lemma slit_domain ctor ops r : ts_image slit_spec ctor ops = Some r ->
  exists o t r0 n h, ctor = SL [o; t; r0; SA n] /\ sx_hdr_args o t r0 = Some h /\ 44 + n * n < 2 ^ 32 /\
                     forallb (slit_op_ok n) ops = true.
Proof.
  cbn [ts_image slit_spec]. unfold SlitS.slit_image. intros H. ctor_shape H.
  destruct (sx_hdr_args _ _ _) as [h|] eqn:Eh; [|discriminate H].
  destruct (44 + n * n <? 2 ^ 32) eqn:E1; [|discriminate H]. cbn [andb] in H.
  destruct (forallb (slit_op_ok n) ops) eqn:E2; [|discriminate H].
  apply N.ltb_lt in E1. do 5 eexists. repeat split; eauto.
Qed.

Lemma slit_dom_closed ctor p q r : ts_image slit_spec ctor (p ++ q) = Some r -> exists r1, ts_image slit_spec ctor p = Some r1.
Proof.
  intros H. destruct (slit_domain _ _ _ H) as (o & t & r0 & n & h & -> & Eh & E1 & E2).
  rewrite forallb_app in E2. apply andb_true_iff in E2. destruct E2 as [E2 _].
  cbn [ts_image slit_spec]. unfold SlitS.slit_image. rewrite Eh, E2. apply N.ltb_lt in E1. rewrite E1. cbn [andb]. eexists. reflexivity.
Qed.

Theorem slit_coherent md ctor ops r :
  markers_ok ops = true -> ts_image slit_spec ctor (real_ops ops) = Some r -> coherent 14 md (SL (ctor :: ops)).
Proof.
  intros Hm Ht.
  apply (special_coherent slit_spec slit_new slit_step (fun s => Some (Impl.Slit.slit_image s)) (fun _ => True) (fun _ => True)
           slit_step_one (total_some _)) with (r := r); try assumption; try exact I.
  - intros md' c p r1 H _ _. destruct (slit_refines md' c p r1 H) as (s0 & s & Hn & Hr & Hi).
    exists s0, s. rewrite Hi. auto.
  - intros; exact I.
  - intros c p q r1 H _ _. destruct (slit_dom_closed c p q r1 H) as [r2 H2]. exists r2. auto.
  - intros md' c p r1 s0 s H _ _ Hn Hr Hi. apply some_inj in Hi. subst r1.
    destruct (slit_domain _ _ _ H) as (o & t & r0 & n & h & -> & _ & _ & Hok).
    rewrite (run_steps_slit_run md' n p Hok) in Hr.
    destruct (slit_correct_all md' _ _ s0 s Hn Hr) as (H1 & H2 & _). auto.
Qed.

(* ---------- RQSC ---------- *)
Lemma rqsc_step_one md s o s' evs : rqsc_step md s o = Some (s', evs) -> exists h, evs = [EvNum h].
Proof. unfold rqsc_step. intros H. inv_step H. exact (some_pair_one _ _ _ _ H). Qed.

Lemma rqsc_run_steps md ops : forall s, rqsc_run md s ops = run_steps (rqsc_step md) s ops.
Proof.
  induction ops as [|[n|l] ops IH]; intros s; cbn [rqsc_run run_steps]; [reflexivity|apply IH|].
  destruct (rqsc_step md s (SL l)) as [[s1 e]|]; [apply IH|reflexivity].
Qed.

Lemma opt_seq_app {A} (f : sx -> option A) p : forall q es,
  opt_seq (map f (p ++ q)) = Some es ->
  exists es1 es2, opt_seq (map f p) = Some es1 /\ opt_seq (map f q) = Some es2 /\ es = es1 ++ es2.
Proof.
  induction p as [|o p IH]; intros q es H.
  - exists [], es. auto.
  - cbn [app map opt_seq] in *. destruct (f o) as [e|]; [|discriminate].
    destruct (opt_seq (map f (p ++ q))) as [es'|] eqn:E; [|discriminate]. apply some_inj in H. subst es.
    destruct (IH q es' E) as (es1 & es2 & H1 & H2 & ->). rewrite H1. exists (e :: es1), es2. auto.
Qed.

Definition fits32 (r : list N) : Prop := N.of_nat (length r) < 2 ^ 32.

Lemma rqsc_dom_closed ctor p q r : ts_image rqsc_spec ctor (p ++ q) = Some r -> fits32 r ->
  exists r1, ts_image rqsc_spec ctor p = Some r1 /\ fits32 r1.
Proof.
  cbn [ts_image rqsc_spec]. unfold RqscS.rqsc_image, rqsc_entries_ref, fits32. intros H Hf. ctor_shape H.
  destruct (sx_hdr_args _ _ _) as [h|]; [|discriminate H].
  destruct (opt_seq (map controller_ref (p ++ q))) as [es|] eqn:E; [|discriminate H].
  destruct (opt_seq_app _ p q es E) as (es1 & es2 & E1 & _ & ->). rewrite E1.
  destruct (N.of_nat (length (es1 ++ es2)) <? 2 ^ 32) eqn:Eb; [|discriminate H]. apply N.ltb_lt in Eb.
  rewrite app_length in Eb.
  assert (Eb1 : N.of_nat (length es1) <? 2 ^ 32 = true) by (apply N.ltb_lt; lia). rewrite Eb1.
  eexists. split; [reflexivity|]. apply some_inj in H. subst r.
  rewrite length_ref_table_any in *. rewrite !app_length, !length_le, ?concat_app, ?app_length in *. lia.
Qed.

Theorem rqsc_coherent md ctor ops r :
  markers_ok ops = true -> ts_image rqsc_spec ctor (real_ops ops) = Some r -> N.of_nat (length r) < 2 ^ 32 ->
  coherent 22 md (SL (ctor :: ops)).
Proof.
  intros Hm Ht Hf.
  apply (special_coherent rqsc_spec rqsc_new rqsc_step (fun s => Some (Impl.Rqsc.rqsc_image s)) (fun _ => True) fits32
           rqsc_step_one (total_some _)) with (r := r); try assumption; try exact I.
  - intros md' c p r1 H _ Hf1. destruct (rqsc_refines md' c p r1 H Hf1) as (s0 & s & Hn & Hr & Hi).
    exists s0, s. rewrite Hi, <- rqsc_run_steps. auto.
  - intros; exact I.
  - intros c p q r1 H _ Hf1. exact (rqsc_dom_closed c p q r1 H Hf1).
  - intros md' c p r1 s0 s H _ Hf1 Hn Hr Hi. apply some_inj in Hi. subst r1. rewrite <- rqsc_run_steps in Hr.
    destruct (rqsc_history md' c p s0 s Hn Hr) as (H1 & H2). auto.
Qed.

(* ---------- HEST (histories of additions) ---------- *)
Definition hest_no_alone (p : list sx) : Prop := forallb (fun o => negb (is_alone_op o)) p = true.

Definition hest_state_new (c : sx) : option hstate := option_map (fun t => {| hs_tbl := t; hs_alone := None |}) (hest_new c).

Lemma hest_step_one md s o s' evs : hest_step md s o = Some (s', evs) -> exists h, evs = [EvNum h].
Proof.
  unfold hest_step. destruct (is_alone o).
  - destruct (hest_alone o); [|discriminate]. cbn [option_bind]. intros H. exact (some_pair_one _ _ _ _ H).
  - destruct (add_step hest_addition md (hs_tbl s) o) as [[t1 e]|] eqn:E; [|discriminate]. cbn [option_bind fst snd].
    intros [= _ <-]. exact (add_step_one _ _ _ _ _ _ E).
Qed.

Lemma hest_image_total : forall s, exists b, Impl.Hest.hest_image s = Some b.
Proof. intros s. unfold Impl.Hest.hest_image. eexists. reflexivity. Qed.

Lemma hest_run_steps md ops : forall s, hest_run md s ops = run_steps (hest_step md) s ops.
Proof.
  induction ops as [|[n|l] ops IH]; intros s; cbn [hest_run run_steps]; [reflexivity|apply IH|].
  destruct (hest_step md s (SL l)) as [[s1 e]|]; [apply IH|reflexivity].
Qed.

Lemma is_alone_same o : is_alone o = is_alone_op o.
Proof. reflexivity. Qed.

Lemma hest_run_not_alone md ops : forall s s', hest_no_alone ops -> hest_run md s ops = Some s' ->
  hs_alone s = None -> hs_alone s' = None.
Proof.
  unfold hest_no_alone. induction ops as [|o ops IH]; intros s s' Hna H Hs; cbn [hest_run] in H.
  - apply some_inj in H. now subst s'.
  - cbn [forallb] in Hna. apply andb_true_iff in Hna. destruct Hna as [Ho Hna].
    destruct o as [n|l]; [exact (IH s s' Hna H Hs)|].
    unfold hest_step in H. rewrite is_alone_same in H. destruct (is_alone_op (SL l)); [discriminate Ho|].
    destruct (add_step hest_addition md (hs_tbl s) (SL l)) as [[t1 e]|]; [|discriminate H]. cbn [option_bind fst snd] in H.
    apply (IH _ s' Hna H). reflexivity.
Qed.

Lemma no_alone_prefix p q : hest_no_alone (p ++ q) -> hest_no_alone p.
Proof. unfold hest_no_alone. rewrite forallb_app. intros H. apply andb_true_iff in H. exact (proj1 H). Qed.

Lemma no_alone_shows ops : hest_no_alone ops -> shows_alone ops = false.
Proof.
  unfold hest_no_alone. intros Hna. unfold shows_alone.
  destruct (list_last_case ops) as [-> | (l' & x & ->)]; [reflexivity|].
  rewrite last_op_snoc. rewrite forallb_app in Hna. apply andb_true_iff in Hna. destruct Hna as [_ Hx].
  cbn [forallb] in Hx. destruct (is_alone_op x); [discriminate Hx|reflexivity].
Qed.

Lemma hest_dom_closed ctor p q r : ts_image hest_spec ctor (p ++ q) = Some r -> hest_no_alone (p ++ q) -> fits32 r ->
  exists r1, ts_image hest_spec ctor p = Some r1 /\ fits32 r1.
Proof.
  cbn [ts_image hest_spec]. unfold HestS.hest_image, hest_entries_ref, hest_adds, fits32. intros H Hna Hf.
  rewrite (no_alone_shows _ Hna) in H. rewrite (no_alone_shows _ (no_alone_prefix p q Hna)).
  ctor_shape H.
  destruct (sx_hdr_args _ _ _) as [h|]; [|discriminate H].
  rewrite filter_app in H.
  destruct (opt_seq (map hest_entry_ref (_ ++ _))) as [es|] eqn:E; [|discriminate H].
  destruct (opt_seq_app _ _ _ es E) as (es1 & es2 & E1 & _ & ->). rewrite E1.
  destruct (N.of_nat (length (es1 ++ es2)) <? 2 ^ 32) eqn:Eb; [|discriminate H]. apply N.ltb_lt in Eb.
  rewrite app_length in Eb.
  assert (Eb1 : N.of_nat (length es1) <? 2 ^ 32 = true) by (apply N.ltb_lt; lia). rewrite Eb1.
  eexists. split; [reflexivity|]. apply some_inj in H. subst r.
  rewrite length_ref_table_any in *. rewrite !app_length, !length_le, ?concat_app, ?app_length in *. lia.
Qed.

Theorem hest_coherent md ctor ops r :
  markers_ok ops = true -> forallb (fun o => negb (is_alone_op o)) (real_ops ops) = true ->
  ts_image hest_spec ctor (real_ops ops) = Some r -> N.of_nat (length r) < 2 ^ 32 ->
  coherent 21 md (SL (ctor :: ops)).
Proof.
  intros Hm Hna Ht Hf.
  apply (special_coherent hest_spec hest_state_new hest_step Impl.Hest.hest_image hest_no_alone fits32
           hest_step_one hest_image_total) with (r := r); try assumption.
  - intros md' c p r1 H Hw Hf1. destruct (hest_table_refines md' c p r1 H Hw Hf1) as (t0 & s & Hn & Hr & Hi).
    exists {| hs_tbl := t0; hs_alone := None |}, s. unfold hest_state_new. rewrite Hn, <- hest_run_steps. auto.
  - exact no_alone_prefix.
  - exact hest_dom_closed.
  - intros md' c p r1 s0 s H Hw Hf1 Hn Hr Hi. unfold hest_state_new in Hn.
    destruct (hest_new c) as [t0|] eqn:En; [|discriminate Hn]. cbn [option_map] in Hn. apply some_inj in Hn. subst s0.
    rewrite <- hest_run_steps in Hr.
    pose proof (hest_run_not_alone md' p _ s Hw Hr eq_refl) as Ha.
    unfold Impl.Hest.hest_image in Hi. rewrite Ha in Hi. apply some_inj in Hi. subst r1.
    exact (hest_history_table md' c p t0 s En Hr Hf1).
Qed.
