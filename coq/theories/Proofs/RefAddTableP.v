(* Refinement, generic part (shared by CedtRefP / RqscRefP / HestRefP):
   (1) an image made of the standard header followed by [rest], whose Length field is 36 + |rest| and whose bytes sum to 0,
       IS the reference table `ref_table sig rev hdr rest` (the checksum byte is determined by all the other bytes);
   (2) consequently every state of an Impl/Table.v instance that satisfies the invariant `Inv` serialises to the reference table
       of its own entries;
   (3) a simulation lemma for the tables all of whose operations are additions with state-independent reference entries
       (kinds without narrow count / offset arithmetic: everything except VIOT, RHCT, PPTT): if the reference gives an entry
       image for every operation, the model accepts the whole history and its entries are exactly those images;
   (4) small shared facts (layout assembly, GAS: model field list = reference layout). *)
From Coq Require Import NArith ZArith List Lia Bool Arith.
From ACPI Require Import Lib.Bytes Lib.Sx Lib.Machine Impl.Checksum Impl.Table Impl.Fields Impl.Run Impl.Madt Impl.Gas Spec.Layout Spec.RimtS Spec.GasS
  Proofs.ChecksumP Proofs.TableP Proofs.MadtP Proofs.Tables Proofs.BitsP.
Import ListNotations.

Ltac Zify.zify_post_hook ::= Z.to_euclidean_division_equations.

Open Scope N_scope.

(* ---------- (1) the header the model writes is the reference header; uniqueness of the checksum byte ---------- *)

Definition ha_of (h : hdr) : hdr_args := {| ha_oem := h_oem h; ha_tbl := h_tbl h; ha_orev := h_orev h |}.

Lemma hdr_bytes_ref_header h len cks :
  hdr_bytes h len cks = ref_header (h_sig h) len (h_rev h) cks (h_oem h) (h_tbl h) (h_orev h).
Proof. reflexivity. Qed.

Lemma sumN_ref_header sig len rev cks oem tbl orev :
  sumN (ref_header sig len rev cks oem tbl orev) = sumN (ref_header sig len rev 0 oem tbl orev) + cks mod 256.
Proof.
  unfold ref_header. rewrite !sumN_app. cbn [sumN]. change (0 mod 256) with 0.
  generalize (sumN sig) (sumN (le 4 len)) (sumN oem) (sumN tbl) (sumN (le 4 orev)) (sumN CREATOR) (rev mod 256) (cks mod 256).
  intros. lia.
Qed.

Lemma cks_unique (a c : N) : c < 256 -> (a + c) mod 256 = 0 -> c = (256 - a mod 256) mod 256.
Proof. intros Hc H. lia. Qed.

(* the key lemma: header + rest with the right Length and a zero byte sum is the reference table *)
Lemma image_is_ref_table sig rev ha len cks rest :
  len = 36 + N.of_nat (length rest) ->
  sum8 (ref_header sig len rev cks (ha_oem ha) (ha_tbl ha) (ha_orev ha) ++ rest) = 0 ->
  ref_header sig len rev cks (ha_oem ha) (ha_tbl ha) (ha_orev ha) ++ rest = ref_table sig rev ha rest.
Proof.
  intros Hlen Hsum. unfold ref_table. rewrite <- Hlen. f_equal.
  unfold sum8 in Hsum. rewrite sumN_app, sumN_ref_header in Hsum.
  set (h0 := sumN (ref_header sig len rev 0 (ha_oem ha) (ha_tbl ha) (ha_orev ha))) in *.
  assert (E : cks mod 256 = (256 - (h0 + sumN rest) mod 256) mod 256).
  { apply cks_unique; [apply N.mod_lt; lia|].
    replace (h0 + sumN rest + cks mod 256) with (h0 + cks mod 256 + sumN rest) by lia. exact Hsum. }
  unfold ref_header. do 3 f_equal. cbn [app]. f_equal.
  rewrite N.mod_mod by lia. exact E.
Qed.

Lemma hdr_image_is_ref_table h len cks rest :
  len = 36 + N.of_nat (length rest) ->
  sum8 (hdr_bytes h len cks ++ rest) = 0 ->
  hdr_bytes h len cks ++ rest = ref_table (h_sig h) (h_rev h) (ha_of h) rest.
Proof. intros H1 H2. rewrite hdr_bytes_ref_header in *. now apply (image_is_ref_table (h_sig h) (h_rev h) (ha_of h)). Qed.

Lemma length_ref_table sig rev ha rest :
  length sig = 4%nat -> length (ha_oem ha) = 6%nat -> length (ha_tbl ha) = 8%nat ->
  length (ref_table sig rev ha rest) = (36 + length rest)%nat.
Proof.
  intros H1 H2 H3. unfold ref_table, ref_header, CREATOR. rewrite !app_length, !length_le, H1, H2, H3. cbn [length]. lia.
Qed.

(* ---------- (2) every invariant state serialises to the reference table of its entries ---------- *)
Lemma inv_image_is_ref s : Inv s ->
  tbl_image s = ref_table (h_sig (t_hdr s)) (h_rev (t_hdr s)) (ha_of (t_hdr s))
                          (mid (t_kind s) (t_pre s) (N.of_nat (length (t_ents s))) ++ concat (t_ents s)).
Proof.
  intros I. pose proof (inv_sum8_zero s I) as Hs. pose proof (inv_len s I) as Hl. pose proof (inv_cnt s I) as Hc.
  pose proof (inv_hdr s I) as Hh.
  rewrite <- Hc. unfold tbl_image in *. fold (t_body s) in *. unfold t_body in *.
  apply hdr_image_is_ref_table; [|exact Hs].
  rewrite Hl, app_length, (length_hdr_bytes _ _ _ Hh). lia.
Qed.

(* the header built from the case's constructor arguments: Impl decoder vs Spec decoder *)
Lemma sx_hdr_of_args sig rev o t r ha : sx_hdr_args o t r = Some ha ->
  sx_hdr sig rev o t r = Some {| h_sig := sig; h_rev := rev; h_oem := ha_oem ha; h_tbl := ha_tbl ha; h_orev := ha_orev ha |}
  /\ length (ha_oem ha) = 6%nat /\ length (ha_tbl ha) = 8%nat.
Proof.
  unfold sx_hdr_args, sx_hdr, sx_arr. intros H.
  destruct (sx_bytes o) as [a|]; [|discriminate]. destruct (sx_bytes t) as [b|]; [|discriminate].
  destruct (sx_num r) as [c|]; [|discriminate].
  destruct (Nat.eqb (length a) 6) eqn:E1; [|discriminate]. destruct (Nat.eqb (length b) 8) eqn:E2; [|discriminate].
  cbn [andb] in H. inversion H; subst. cbn [option_bind ha_oem ha_tbl ha_orev].
  apply Nat.eqb_eq in E1. apply Nat.eqb_eq in E2. auto.
Qed.

(* ---------- (3) simulation for addition tables with state-independent reference entries ---------- *)

Definition plain_kind (k : tkind) : bool := match k with KViot | KRhct | KPptt => false | _ => true end.

Lemma tbl_add_some md s st claimed bytes :
  Inv s -> plain_kind (t_kind s) = true -> claimed = N.of_nat (length bytes) ->
  N.of_nat (length (tbl_image s)) + claimed < 2 ^ 32 ->
  exists s' h, tbl_add md s st claimed bytes = Some (s', h).
Proof.
  intros I Hk Hcl Hfit. unfold tbl_add.
  assert (Hcast : cast U32 claimed = claimed) by (unfold cast, U32; apply N.mod_small; lia).
  rewrite Hcast.
  assert (Hnl : add_c U32 claimed (t_len s) = Some (claimed + t_len s)).
  { unfold add_m, add_c, U32. rewrite (inv_len s I).
    destruct (N.ltb_spec (claimed + N.of_nat (length (tbl_image s))) (2 ^ 32)); [reflexivity|lia]. }
  rewrite Hnl. cbn [option_bind].
  destruct (t_kind s); try discriminate Hk; cbn [option_bind]; eexists; eexists; reflexivity.
Qed.

Section AddRef.
  Variable T : addtable.
  Variable entry_ref : sx -> option (list N).
  Hypothesis plainK : plain_kind (at_kind T) = true.
  Hypothesis entry_ref_atom : forall n, entry_ref (SA n) = None.
  Hypothesis entry_agrees : forall s o r, t_kind s = at_kind T -> entry_ref o = Some r ->
    exists e, at_entry T s o = Some e /\ a_bytes e = r.

  Lemma plain_not_pos : needs_pos (at_kind T) = false.
  Proof. destruct (at_kind T); try reflexivity; discriminate plainK. Qed.

  Lemma run_adds_sim md : forall ops es s,
    Inv2 (at_kind T) s ->
    Forall2 (fun o r => entry_ref o = Some r) ops es ->
    N.of_nat (length (tbl_image s) + length (concat es)) < 2 ^ 32 ->
    exists s', run_adds (at_entry T) md s ops = Some s' /\ Inv2 (at_kind T) s' /\
               t_ents s' = t_ents s ++ es /\ t_hdr s' = t_hdr s /\ t_pre s' = t_pre s.
  Proof.
    induction ops as [|o ops IH]; intros es s I HF Hfit; inversion HF as [|? r ? es' Hr HF']; subst.
    - exists s. cbn [run_adds]. rewrite app_nil_r. auto.
    - destruct I as (I & HK & Hne).
      destruct o as [n|l]; [rewrite entry_ref_atom in Hr; discriminate|].
      destruct (entry_agrees s (SL l) r HK Hr) as (e & Ee & Eb).
      destruct (at_sound T s (SL l) e HK Ee) as (Hcl & _).
      cbn [concat] in Hfit. rewrite app_length in Hfit.
      assert (Hfit1 : N.of_nat (length (tbl_image s)) + a_claimed e < 2 ^ 32) by (rewrite Hcl, Eb; lia).
      assert (Hpk : plain_kind (t_kind s) = true) by (rewrite HK; exact plainK).
      destruct (tbl_add_some md s (a_style e) (a_claimed e) (a_bytes e) I Hpk Hcl Hfit1) as (s1 & h & Eadd).
      destruct (tbl_add_inv md s (a_style e) (a_claimed e) (a_bytes e) s1 h I Eadd Hcl Hfit1) as (I1 & _ & He1 & Hk1 & Hh1 & Hp1 & _).
      { unfold kind_fits. destruct (t_kind s); try exact Logic.I; discriminate Hpk. }
      set (s2 := set_flag s1 (a_flag e)).
      assert (I2 : Inv2 (at_kind T) s2).
      { split; [apply Inv_set_flag; exact I1|]. split; [unfold s2, set_flag; cbn [t_kind]; congruence|].
        unfold s2, set_flag. cbn [t_kind]. rewrite Hk1, HK, plain_not_pos. discriminate. }
      assert (Hlen2 : length (tbl_image s2) = (length (tbl_image s) + length r)%nat).
      { change (tbl_image s2) with (tbl_image s1).
        rewrite !length_image by (first [exact (inv_hdr s1 I1) | exact (inv_hdr s I)]).
        rewrite Hk1, Hp1. unfold t_body. rewrite He1, concat_app, app_length. cbn [concat]. rewrite app_nil_r, Eb. lia. }
      destruct (IH es' s2 I2 HF') as (s' & Hrun & I' & He' & Hh' & Hp'); [rewrite Hlen2; lia|].
      exists s'. cbn [run_adds]. unfold add_step. rewrite Ee. cbn [option_bind]. rewrite Eadd. cbn [option_bind fst snd].
      fold s2. split; [exact Hrun|]. split; [exact I'|].
      change (t_ents s2) with (t_ents s1) in He'. change (t_hdr s2) with (t_hdr s1) in Hh'. change (t_pre s2) with (t_pre s1) in Hp'.
      rewrite He', He1, <- app_assoc, Hh', Hh1, Hp', Hp1, Eb. auto.
  Qed.

  (* from a fresh table: the model accepts the history and serialises the reference table of the reference entries *)
  Theorem addtable_refines md s0 ops es :
    Inv2 (at_kind T) s0 -> t_ents s0 = [] ->
    Forall2 (fun o r => entry_ref o = Some r) ops es ->
    N.of_nat (36 + length (mid (at_kind T) (t_pre s0) 0) + length (concat es)) < 2 ^ 32 ->
    exists s, run_adds (at_entry T) md s0 ops = Some s /\
      tbl_image s = ref_table (h_sig (t_hdr s0)) (h_rev (t_hdr s0)) (ha_of (t_hdr s0))
                              (mid (at_kind T) (t_pre s0) (N.of_nat (length es)) ++ concat es).
  Proof.
    intros I0 He0 HF Hfit.
    destruct (run_adds_sim md ops es s0 I0 HF) as (s & Hrun & I & He & Hh & Hp).
    { destruct I0 as (I0 & HK & _). rewrite (length_image s0 (inv_hdr s0 I0)), HK. unfold t_body. rewrite He0. cbn [concat length]. lia. }
    exists s. split; [exact Hrun|]. destruct I as (I & HK & _).
    rewrite (inv_image_is_ref s I), Hh, Hp, HK, He, He0. reflexivity.
  Qed.
End AddRef.

(* the Spec's accumulating list traversal as a relation *)
Lemma sp_all_Forall2 {A} (f : sx -> option A) : forall l racc res,
  RimtS.sp_all f l racc = Some res -> exists es, Forall2 (fun o r => f o = Some r) l es /\ res = rev racc ++ es.
Proof.
  induction l as [|x l IH]; intros racc res H; cbn [RimtS.sp_all] in H.
  - inversion H; subst. exists []. rewrite frev_rev, app_nil_r. split; [constructor|reflexivity].
  - destruct (f x) as [a|] eqn:E; [|discriminate].
    destruct (IH _ _ H) as (es & HF & ->). exists (a :: es). split; [constructor; assumption|].
    cbn [rev]. now rewrite <- app_assoc.
Qed.

Lemma opt_seq_Forall2 {A} (f : sx -> option A) : forall l es,
  GasS.opt_seq (map f l) = Some es -> Forall2 (fun o r => f o = Some r) l es.
Proof.
  induction l as [|x l IH]; intros es H; cbn [map GasS.opt_seq] in H.
  - inversion H; subst. constructor.
  - destruct (f x) as [a|] eqn:E; [|discriminate]. destruct (GasS.opt_seq (map f l)) as [r|]; [|discriminate].
    inversion H; subst. constructor; [exact E|now apply IH].
Qed.

(* ---------- (4) small shared facts: layouts, byte strings, option inversion without simplification, the GAS ---------- *)
Lemma lay_Some n l r : lay n l = Some r -> r = assemble l.
Proof. unfold lay. destruct (_ && _); [|discriminate]. intros H; inversion H; reflexivity. Qed.


Lemma some_pair_inv {A B} (a c : A) (b d : B) : Some (a, b) = Some (c, d) -> a = c /\ b = d.
Proof. intros H; inversion H; auto. Qed.

Lemma some_inv {A} (a b : A) : Some a = Some b -> a = b.
Proof. intros H; inversion H; reflexivity. Qed.

Lemma assemble_app a b : assemble (a ++ b) = assemble a ++ assemble b.
Proof. unfold assemble. now rewrite map_app, concat_app. Qed.

Lemma bytes_ok_app a b : bytes_ok (a ++ b) = bytes_ok a && bytes_ok b.
Proof. unfold bytes_ok. apply forallb_app. Qed.

Lemma bytes_ok_assemble l : bytes_ok (assemble l) = true.
Proof.
  unfold assemble. induction l as [|[[o w] v] l IH]; [reflexivity|].
  cbn [map concat fst snd]. rewrite bytes_ok_app, le_bytes_ok, IH. reflexivity.
Qed.

Lemma assemble_LB l : forall off, bytes_ok l = true -> assemble (LB off l) = l.
Proof.
  induction l as [|b l IH]; intros off H; [reflexivity|].
  cbn [bytes_ok forallb] in H. apply andb_true_iff in H. destruct H as [Hb Hl]. unfold is_byte in Hb. apply N.ltb_lt in Hb.
  cbn [LB]. unfold assemble in *. cbn [map concat fst snd le app]. rewrite (IH (S off) Hl), N.mod_small by exact Hb. reflexivity.
Qed.

Lemma pci_addr d f r : d < 256 -> f < 256 -> r < 65536 ->
  N.lor (N.lor (N.shiftl (cast U8 d) 32) (N.shiftl (cast U8 f) 16)) (cast U16 r) = d * 2 ^ 32 + f * 2 ^ 16 + r.
Proof.
  intros Hd Hf Hr. unfold cast, U8, U16. rewrite !N.mod_small by (first [exact Hd | exact Hf | exact Hr]).
  rewrite !shiftl_mul.
  assert (P16 : 2 ^ 16 = 65536) by reflexivity. assert (P32 : 2 ^ 32 = 65536 * 65536) by reflexivity.
  rewrite (lor_disjoint (f * 2 ^ 16) d 32) by (rewrite P16, P32; lia).
  replace (d * 2 ^ 32 + f * 2 ^ 16) with ((d * 65536 + f) * 2 ^ 16) by (rewrite P16, P32; lia).
  rewrite (lor_disjoint r _ 16) by (rewrite P16; lia). reflexivity.
Qed.

Lemma gas_agrees g gb : gas_ref g = Some gb ->
  exists gv, gas_of_sx g = Some gv /\ ser_flds gv = gb /\ bytes_ok gb = true.
Proof.
  unfold gas_ref. intros H.
  repeat match type of H with context [match ?x with _ => _ end] => is_var x; destruct x; try discriminate H end.
  all: cbn [gas_of_sx];
    try match type of H with (if ?c then _ else _) = _ => destruct c eqn:Ec; [|discriminate H] end;
    unfold gas_layout in H; apply lay_Some in H; subst gb; eexists; (split; [reflexivity|]); (split; [|apply bytes_ok_assemble]);
    try reflexivity.
  repeat (apply andb_true_iff in Ec; destruct Ec as [Ec ?]).
  repeat match goal with E : (_ <? _) = true |- _ => apply N.ltb_lt in E end.
  unfold gas_new_pci_config. rewrite pci_addr by assumption. reflexivity.
Qed.

Lemma bytes_ok_ser_flds f : bytes_ok (ser_flds f) = true.
Proof.
  unfold ser_flds. induction f as [|[w v] f IH]; [reflexivity|].
  cbn [map concat fst snd]. rewrite bytes_ok_app, le_bytes_ok, IH. reflexivity.
Qed.

Lemma gas_arg_agrees x gbytes : gas_ref x = Some gbytes ->
  exists a b c d e, gas_of_sx x = Some (gas_mk a b c d e) /\ ser_flds (gas_mk a b c d e) = gbytes.
Proof.
  intros H. destruct (gas_agrees _ _ H) as (gv & Hg & Hs & _).
  destruct (gas_of_sx_shape _ _ Hg) as (a & b & c & d & e & ->). now exists a, b, c, d, e.
Qed.
