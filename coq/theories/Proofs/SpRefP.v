(* The simulation between an Impl/Table.v instance and a Spec built with [sp_entries] (Spec/RimtS.v: RIMT, VIOT, CEDT):
   if every operation accepted by the Spec's entry function is accepted by the model's with the same bytes, then every
   history accepted by the Spec is accepted by the model and leaves exactly the Spec's entries in the table. *)
From Coq Require Import NArith ZArith List Lia Bool Arith.
From ACPI Require Import Lib.Bytes Lib.Sx Lib.Machine Impl.Checksum Impl.Table Impl.Fields Impl.Run Impl.Madt
  Spec.Layout Spec.RimtS
  Proofs.ChecksumP Proofs.TableP Proofs.MadtP Proofs.Tables Proofs.BitsP Proofs.RefTableCommonP.
Import ListNotations.

Ltac Zify.zify_post_hook ::= Z.to_euclidean_division_equations.

Open Scope N_scope.

(* ---------- small facts used by the per-entry lemmas of these tables ---------- *)

(* PCI bus/device/function: the shifts and ors of as_bdf are the arithmetic of the specification *)
Lemma bdf_is_reference bus dev fn : bus < 256 -> dev < 32 -> fn < 8 -> bdf bus dev fn = bus * 256 + dev * 8 + fn.
Proof.
  intros Hb Hd Hf. unfold bdf, cast, U16. rewrite !N.mod_small by lia.
  rewrite !N.shiftl_mul_pow2. change (2 ^ 8) with 256. change (2 ^ 3) with 8.
  rewrite (lor_add_low (bus * 256) (dev * 8) 8) by (change (2 ^ 8) with 256; lia).
  rewrite (lor_add_low (bus * 256 + dev * 8) fn 3) by (change (2 ^ 3) with 8; lia).
  reflexivity.
Qed.

Lemma sp_bdf_pci bus dev fn b : sp_bdf bus dev fn = Some b -> pci_ok dev fn = Some tt /\ bdf bus dev fn = b.
Proof.
  unfold sp_bdf, pci_ok, assert.
  destruct (N.ltb_spec bus 256); [|discriminate]. destruct (N.ltb_spec dev 32); [|discriminate].
  destruct (N.ltb_spec fn 8); [|discriminate]. cbn [andb option_bind]. intros HH. inversion HH; subst.
  split; [reflexivity|]. now apply bdf_is_reference.
Qed.

Lemma d4_cast32 x : d4 (cast U32 x) = d4 x.
Proof. unfold d4, cast, U32. exact (le_mod 4 x). Qed.

(* the two list decoders *)
Lemma sp_all_list_all {A} (f g : sx -> option A) : (forall x a, f x = Some a -> g x = Some a) ->
  forall l racc r, sp_all f l racc = Some r -> exists r', sx_list_all g l = Some r' /\ r = rev racc ++ r'.
Proof.
  intros Hfg. induction l as [|x l IH]; intros racc r H; cbn [sp_all sx_list_all] in *.
  - inversion H; subst. exists []. split; [reflexivity|]. now rewrite frev_rev, app_nil_r.
  - destruct (f x) as [a|] eqn:Ea; [|discriminate H]. rewrite (Hfg _ _ Ea).
    destruct (IH _ _ H) as (r' & -> & ->). exists (a :: r'). split; [reflexivity|]. cbn [rev]. now rewrite <- app_assoc.
Qed.

(* ---------- handle references: the k-th handle is the offset the Spec recorded for the k-th entry ---------- *)
Lemma sp_lookup_handle s n rs x off ty :
  t_handles s = rev (map fst rs) -> n = length rs ->
  sp_lookup n rs x = Some (off, ty) -> handle_ref s x = Some off.
Proof.
  intros Hh Hn H. unfold sp_lookup in H.
  destruct x as [|l]; [discriminate H|]. destruct l as [|[a|] l]; try discriminate H.
  destruct a as [|a]; try discriminate H.
  destruct (Pos.eq_dec a 104) as [->|Ea].
  2:{ exfalso. repeat (destruct a as [a|a|]; try discriminate H). apply Ea; reflexivity. }
  destruct l as [|[k|] l]; try discriminate H. destruct l; try discriminate H.
  destruct (Nat.ltb_spec (N.to_nat k) n) as [Hk|]; [|discriminate H].
  cbn [handle_ref]. rewrite Hh. rewrite nth_error_rev_lt by (rewrite map_length; lia).
  rewrite map_length, nth_error_map, <- Hn, H. reflexivity.
Qed.

(* ---------- the simulation ---------- *)
Section SpSim.
  Variable K : tkind.
  Variable entry : tbl -> sx -> option addition.
  Hypothesis entry_sound : forall s o e, t_kind s = K -> entry s o = Some e ->
    a_claimed e = N.of_nat (length (a_bytes e)) /\
    (needs_pos (t_kind s) = true -> (1 <= length (a_bytes e))%nat /\ a_claimed e < 2 ^ 16).
  Variable entry_ref : nat -> sp_starts -> sx -> option (list N).
  Variable first : nat.       (* where the entries start: 36 + the fixed part *)

  (* the per-entry obligation: the model accepts what the Spec accepts, with the same bytes *)
  Hypothesis entry_refines : forall s n rs o e,
    t_handles s = rev (map fst rs) -> n = length rs -> entry_ref n rs o = Some e ->
    exists a, entry s o = Some a /\ a_bytes a = e.
  Hypothesis entry_ref_call : forall n rs v, entry_ref n rs (SA v) = None.

  Record SpSim (s : tbl) (off : N) (n : nat) (rs : sp_starts) (racc : list (list N)) : Prop := {
    sps_inv : Inv2 K s;
    sps_ents : t_ents s = rev racc;
    sps_handles : t_handles s = rev (map fst rs);
    sps_count : n = length rs;
    sps_next : off = N.of_nat (length (tbl_image s));
    sps_first : (36 + length (mid K (t_pre s) 0))%nat = first
  }.

  Lemma sp_entries_prefix ops : forall off n rs racc es,
    sp_entries entry_ref ops off n rs racc = Some es -> exists tail, es = rev racc ++ tail.
  Proof.
    induction ops as [|o ops IH]; intros off n rs racc es H; cbn [sp_entries] in H.
    - inversion H; subst. exists []. now rewrite frev_rev, app_nil_r.
    - destruct (entry_ref n rs o) as [e|]; [|discriminate H].
      destruct (IH _ _ _ _ _ H) as [tail ->]. exists (e :: tail). cbn [rev]. now rewrite <- app_assoc.
  Qed.

  Lemma sps_image_length s off n rs racc : SpSim s off n rs racc ->
    length (tbl_image s) = (first + length (concat (rev racc)))%nat.
  Proof.
    intros SM. destruct (sps_inv _ _ _ _ _ SM) as (I & HK & _).
    rewrite length_image by (exact (inv_hdr s I)). rewrite HK, (sps_first _ _ _ _ _ SM). unfold t_body.
    rewrite (sps_ents _ _ _ _ _ SM). reflexivity.
  Qed.

  Lemma sp_sim_step md s off n rs racc o e :
    SpSim s off n rs racc -> entry_ref n rs o = Some e ->
    N.of_nat (first + length (concat (rev (e :: racc)))) < 2 ^ 32 ->
    (K = KViot -> N.of_nat (first + length (concat (rev (e :: racc)))) < 2 ^ 16) ->
    exists s' evs, add_step entry md s o = Some (s', evs) /\
      SpSim s' (off + N.of_nat (length e)) (S n) ((off, nth 0 e 0) :: rs) (e :: racc) /\
      t_hdr s' = t_hdr s /\ t_pre s' = t_pre s.
  Proof.
    intros SM He Hfit Hvi.
    destruct (entry_refines s n rs o e (sps_handles _ _ _ _ _ SM) (sps_count _ _ _ _ _ SM) He) as (a & Ha & Hb).
    pose proof (sps_image_length _ _ _ _ _ SM) as Hlen.
    assert (Hsz : length (concat (rev (e :: racc))) = (length (concat (rev racc)) + length e)%nat).
    { cbn [rev]. rewrite concat_app, app_length. cbn [concat]. rewrite app_nil_r. reflexivity. }
    rewrite Hsz in Hfit, Hvi.
    destruct (add_step_ok K entry entry_sound md s o a (sps_inv _ _ _ _ _ SM) Ha)
      as (s' & Hstep & I' & Hents & Hhs & Hk & Hh & Hp & Hl').
    - rewrite Hb, Hlen. replace (first + length (concat (rev racc)) + length e)%nat
        with (first + (length (concat (rev racc)) + length e))%nat by lia. exact Hfit.
    - intros HK. rewrite Hb, Hlen. replace (first + length (concat (rev racc)) + length e)%nat
        with (first + (length (concat (rev racc)) + length e))%nat by lia. exact (Hvi HK).
    - exists s'. eexists. split; [exact Hstep|]. split; [|split; assumption].
      constructor; cbn [fst map rev].
      + exact I'.
      + rewrite Hents, (sps_ents _ _ _ _ _ SM), Hb. reflexivity.
      + rewrite Hhs, (sps_handles _ _ _ _ _ SM), <- (sps_next _ _ _ _ _ SM). reflexivity.
      + rewrite (sps_count _ _ _ _ _ SM). reflexivity.
      + rewrite Hl', (sps_next _ _ _ _ _ SM), Hb. lia.
      + rewrite Hp. exact (sps_first _ _ _ _ _ SM).
  Qed.

  Lemma sp_sim md ops : forall s off n rs racc es,
    SpSim s off n rs racc -> sp_entries entry_ref ops off n rs racc = Some es ->
    N.of_nat (first + length (concat es)) < 2 ^ 32 ->
    (K = KViot -> N.of_nat (first + length (concat es)) < 2 ^ 16) ->
    exists s', run_adds entry md s ops = Some s' /\ Inv2 K s' /\ t_ents s' = es /\
               t_hdr s' = t_hdr s /\ t_pre s' = t_pre s /\ all_calls ops.
  Proof.
    induction ops as [|o ops IH]; intros s off n rs racc es SM H Hfit Hvi; cbn [sp_entries] in H.
    - inversion H; subst. exists s. cbn [run_adds]. rewrite frev_rev.
      split; [reflexivity|]. split; [exact (sps_inv _ _ _ _ _ SM)|]. split; [exact (sps_ents _ _ _ _ _ SM)|].
      repeat split; constructor.
    - destruct (entry_ref n rs o) as [e|] eqn:He; [|discriminate H].
      destruct (sp_entries_prefix _ _ _ _ _ _ H) as [tail Htail].
      assert (Hle : (length (concat (rev (e :: racc))) <= length (concat es))%nat).
      { rewrite Htail, concat_app, app_length. lia. }
      destruct (sp_sim_step md s off n rs racc o e SM He) as (s1 & evs & Hstep & S1 & Hh1 & Hp1).
      { lia. }
      { intros HK. specialize (Hvi HK). lia. }
      destruct (IH s1 _ _ _ _ es S1 H Hfit Hvi) as (s' & Hrun & I' & Hents & Hh & Hp & Hall).
      assert (Ho : exists l, o = SL l).
      { destruct o as [v|l]; [rewrite entry_ref_call in He; discriminate He|eexists; reflexivity]. }
      destruct Ho as [l ->].
      exists s'. cbn [run_adds]. rewrite Hstep. split; [exact Hrun|]. split; [exact I'|]. split; [exact Hents|].
      split; [congruence|]. split; [congruence|]. constructor; [exact Logic.I|exact Hall].
  Qed.

End SpSim.

(* the state a constructor builds is related to the Spec's empty bookkeeping *)
Lemma sp_sim_new K first h pre : Inv2 K (tbl_new K h pre) -> (36 + length (mid K pre 0))%nat = first ->
  SpSim K first (tbl_new K h pre) (N.of_nat first) 0 [] [].
Proof.
  intros I Hf. constructor; try reflexivity; try assumption.
  destruct I as (I & _). rewrite length_image by (exact (inv_hdr _ I)). cbn [tbl_new t_kind t_pre].
  unfold t_body, t_ents. cbn [tbl_new t_rents]. rewrite frev_rev. cbn [rev concat length]. rewrite <- Hf. f_equal. lia.
Qed.
