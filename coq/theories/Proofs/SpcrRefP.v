(* SPCR (component 28): the Impl model refines the Spec.  The only public operation is the constructor SPCR::sbi; the Spec's
   domain is the empty history.  For every constructor argument the emitted image is the reference image. *)
From Coq Require Import NArith ZArith List Lia Bool Arith.
From ACPI Require Import Lib.Bytes Lib.Sx Lib.Machine Impl.Checksum Impl.Table Impl.Fields Impl.Run Impl.Madt Impl.Spcr
  Spec.Layout Spec.FixedS Spec.SpcrS Proofs.ChecksumP Proofs.TableP Proofs.MadtP Proofs.FixedP Proofs.SpcrP Proofs.RefFixedCommonP.
Import ListNotations.
Open Scope N_scope.

(* per-entry content: the packed SerialPortInfo::sbi() followed by the namespace string is the reference body *)
Lemma spcr_entries_are_reference :
  spcr_sbi_body = Some (ser_flds serial_port_info_sbi ++ EMPTY_NAMESPACE).
Proof. vm_compute. reflexivity. Qed.

Lemma spcr_new_shape o t r0 ha : sx_hdr_args o t r0 = Some ha ->
  exists c, spcr_new (SL [o; t; r0]) =
            Some {| sp_hdr := hdr_of [83; 80; 67; 82] 4 ha; sp_len := 90; sp_cks := c;
                    sp_info := serial_port_info_sbi; sp_ns := EMPTY_NAMESPACE |}.
Proof.
  intros Eh. unfold spcr_new. rewrite (sx_hdr_of_args' _ _ _ _ _ _ Eh). cbn [option_bind]. eexists. reflexivity.
Qed.

Theorem spcr_refines :
  forall md ctor ops r,
    ts_image spcr_spec ctor ops = Some r ->
    exists s0 s, spcr_new ctor = Some s0 /\
                 run_steps (spcr_step md) s0 ops = Some s /\
                 spcr_bytes s = r.
Proof.
  intros md ctor ops r H. cbn [ts_image spcr_spec fixed_spec] in H.
  apply ctor_only_some in H. destruct H as [-> H]. unfold spcr_ref in H.
  destruct ctor as [|l]; [discriminate|].
  destruct l as [|o [|t [|r0 [|x l]]]]; try discriminate.
  destruct (sx_hdr_args o t r0) as [ha|] eqn:Eh; [|discriminate].
  rewrite spcr_entries_are_reference in H. inversion H; subst r; clear H.
  destruct (spcr_new_shape o t r0 ha Eh) as [c Hn].
  eexists. eexists. split; [exact Hn|]. split; [reflexivity|].
  destruct (spcr_new_good _ _ Hn) as [Hs _].
  change (spcr_bytes _) with
    (hdr_bytes (hdr_of [83; 80; 67; 82] 4 ha) 90 c ++ (ser_flds serial_port_info_sbi ++ EMPTY_NAMESPACE)) in *.
  apply hdr_of_image_is_ref; [|exact Hs].
  vm_compute. reflexivity.
Qed.

Print Assumptions spcr_refines.
