(* Registry of the tables covered by the generic history theorems, and the consequences of the invariant
   in terms of the emitted image (C01, C02, C05). *)
From Coq Require Import NArith ZArith List Lia Bool Arith.
From ACPI Require Import Lib.Bytes Lib.Sx Lib.Machine Impl.Checksum Impl.Table Impl.Fields Impl.Run Spec.Layout
  Proofs.ChecksumP Proofs.TableP.
From ACPI Require Import Impl.Madt Proofs.MadtP.
Import ListNotations.
Open Scope N_scope.

(* a table all of whose public mutating operations are additions *)
Record addtable := {
  at_name : list N;
  at_kind : tkind;
  at_new : sx -> option tbl;
  at_entry : tbl -> sx -> option addition;
  at_new_inv : forall c s0, at_new c = Some s0 -> Inv2 at_kind s0;
  at_sound : forall s o e, t_kind s = at_kind -> at_entry s o = Some e ->
    a_claimed e = N.of_nat (length (a_bytes e)) /\
    (needs_pos (t_kind s) = true -> (1 <= length (a_bytes e))%nat /\ a_claimed e < 2 ^ 16)
}.

Definition madt_table : addtable :=
  {| at_name := [77; 65; 68; 84]; at_kind := KMadt; at_new := madt_new; at_entry := madt_addition;
     at_new_inv := madt_new_inv; at_sound := madt_addition_sound |}.

Definition add_tables : list addtable := [madt_table].

(* every state reached by a constructor followed by any history satisfies the invariant *)
Lemma addtable_reach (T : addtable) md c ops s0 s :
  at_new T c = Some s0 -> run_adds (at_entry T) md s0 ops = Some s ->
  N.of_nat (length (tbl_image s)) < 2 ^ 32 -> Inv2 (at_kind T) s.
Proof.
  intros Hn Hr Hfit. eapply (run_adds_inv (at_kind T) (at_entry T) (at_sound T)); eauto.
  eapply at_new_inv; eauto.
Qed.

(* C02 in terms of the image: the little-endian dword at offset 4 is the size *)
Lemma image_len_field s : Inv s -> N.of_nat (length (tbl_image s)) < 2 ^ 32 ->
  field_at (tbl_image s) 4 4 = N.of_nat (length (tbl_image s)).
Proof.
  intros I Hfit. pose proof (inv_hdr s I) as Hh. pose proof (inv_len s I) as Hl.
  unfold hdr_ok in Hh. apply andb_true_iff in Hh. destruct Hh as [Hh _]. apply andb_true_iff in Hh. destruct Hh as [Hs _].
  apply Nat.eqb_eq in Hs.
  remember (N.of_nat (length (tbl_image s))) as n eqn:En.
  unfold field_at, tbl_image, hdr_bytes. rewrite <- !app_assoc.
  match goal with |- context [skipn 4 (h_sig ?h ++ ?X)] =>
    pose proof (skipn_app_exact (h_sig h) X) as Hsk; rewrite Hs in Hsk; rewrite Hsk end.
  unfold d4. rewrite firstn_le_app.
  rewrite unle_le_small; [exact Hl|]. rewrite Hl. exact Hfit.
Qed.
