(* Registry of the tables covered by the generic history theorems, and the consequences of the invariant
   in terms of the emitted image (C01, C02, C05). *)
From Coq Require Import NArith ZArith List Lia Bool Arith.
From ACPI Require Import Lib.Bytes Lib.Sx Lib.Machine Impl.Checksum Impl.Table Impl.Fields Impl.Run Spec.Layout
  Proofs.ChecksumP Proofs.TableP.
From ACPI Require Import Impl.Madt Proofs.MadtP.
Import ListNotations.
Open Scope N_scope.

(* a table all of whose public mutating operations are additions *)
Record addtable := {
  at_name : list N;
  at_kind : tkind;
  at_new : sx -> option tbl;
  at_entry : tbl -> sx -> option addition;
  at_new_inv : forall c s0, at_new c = Some s0 -> Inv2 at_kind s0;
  at_sound : forall s o e, t_kind s = at_kind -> at_entry s o = Some e ->
    a_claimed e = N.of_nat (length (a_bytes e)) /\
    (needs_pos (t_kind s) = true -> (1 <= length (a_bytes e))%nat /\ a_claimed e < 2 ^ 16)
}.

Definition madt_table : addtable :=
  {| at_name := [77; 65; 68; 84]; at_kind := KMadt; at_new := madt_new; at_entry := madt_addition;
     at_new_inv := madt_new_inv; at_sound := madt_addition_sound |}.

(* the other tables' records live in their own P files, which import this file's head; they are collected in
   Proofs/Registry.v *)
Definition add_tables_core : list addtable := [madt_table].

(* every state reached by a constructor followed by any history satisfies the invariant *)
Lemma addtable_reach (T : addtable) md c ops s0 s :
  at_new T c = Some s0 -> run_adds (at_entry T) md s0 ops = Some s ->
  N.of_nat (length (tbl_image s)) < 2 ^ 32 -> Inv2 (at_kind T) s.
Proof.
  intros Hn Hr Hfit. eapply (run_adds_inv (at_kind T) (at_entry T) (at_sound T)); eauto.
  eapply at_new_inv; eauto.
Qed.

(* C02 in terms of the image: the little-endian dword at offset 4 is the size *)
Lemma image_len_field s : Inv s -> N.of_nat (length (tbl_image s)) < 2 ^ 32 ->
  field_at (tbl_image s) 4 4 = N.of_nat (length (tbl_image s)).
Proof.
  intros I Hfit. pose proof (inv_hdr s I) as Hh. pose proof (inv_len s I) as Hl.
  unfold hdr_ok in Hh. apply andb_true_iff in Hh. destruct Hh as [Hh _]. apply andb_true_iff in Hh. destruct Hh as [Hs _].
  apply Nat.eqb_eq in Hs.
  remember (N.of_nat (length (tbl_image s))) as n eqn:En.
  unfold field_at, tbl_image, hdr_bytes. rewrite <- !app_assoc.
  match goal with |- context [skipn 4 (h_sig ?h ++ ?X)] =>
    pose proof (skipn_app_exact (h_sig h) X) as Hsk; rewrite Hs in Hsk; rewrite Hsk end.
  unfold d4. rewrite firstn_le_app.
  rewrite unle_le_small; [exact Hl|]. rewrite Hl. exact Hfit.
Qed.

(* ------------------------------------------------------------------------------------------------
   tables whose additions are self-describing entries (C03) *)
From ACPI Require Import Proofs.WalkP.

Record walktable := {
  wt_table : addtable;
  wt_ehdr : ehdr;
  wt_self : forall s o e, at_entry wt_table s o = Some e -> exists ty, self_describing wt_ehdr (a_bytes e) ty;
  wt_new_empty : forall c s0, at_new wt_table c = Some s0 -> t_ents s0 = []
}.

Definition madt_walk : walktable :=
  {| wt_table := madt_table; wt_ehdr := H_u8_u8; wt_self := madt_addition_self; wt_new_empty := madt_new_empty |}.


Lemma forall_self_tys h (es : list (list N)) :
  Forall (fun e => exists ty, self_describing h e ty) es -> exists tys, Forall2 (self_describing h) es tys.
Proof.
  induction es as [|e es IH]; intros H; [exists []; constructor|].
  inversion H as [|? ? [ty Hty] Hr]; subst. destruct (IH Hr) as [tys Htys]. exists (ty :: tys). now constructor.
Qed.

(* the walk over the emitted image, from the first-entry offset, finds exactly the entries that were added *)
Lemma walktable_tiles (W : walktable) md c ops s0 s :
  at_new (wt_table W) c = Some s0 -> run_adds (at_entry (wt_table W)) md s0 ops = Some s ->
  N.of_nat (length (tbl_image s)) < 2 ^ 32 ->
  let first := (36 + length (mid (t_kind s) (t_pre s) 0))%nat in
  exists tys,
    Forall2 (self_describing (wt_ehdr W)) (t_ents s) tys /\
    walk (length (t_ents s)) (wt_ehdr W) first (skipn first (tbl_image s)) = Some (walk_result first (t_ents s) tys) /\
    concat (t_ents s) = skipn first (tbl_image s) /\
    t_cnt s = N.of_nat (length (t_ents s)).
Proof.
  intros Hn Hr Hfit first.
  pose proof (at_new_inv (wt_table W) c s0 Hn) as I0.
  pose proof (addtable_reach (wt_table W) md c ops s0 s Hn Hr Hfit) as I.
  assert (HF : Forall (fun e => exists ty, self_describing (wt_ehdr W) e ty) (t_ents s)).
  { apply (run_adds_forall (at_kind (wt_table W)) (at_entry (wt_table W)) (at_sound (wt_table W)) _ md ops s0 s); auto.
    - intros s1 o e He. exact (wt_self W s1 o e He).
    - rewrite (wt_new_empty W c s0 Hn). constructor. }
  destruct (forall_self_tys _ _ HF) as [tys Htys].
  destruct I as (I & _).
  destruct (image_split s (inv_hdr s I)) as (pre & Hs & Hl).
  exists tys. split; [exact Htys|].
  assert (Hsk : skipn first (tbl_image s) = t_body s).
  { rewrite Hs. unfold first. rewrite <- Hl. apply skipn_app_exact. }
  rewrite Hsk. split; [|split; [reflexivity|exact (inv_cnt s I)]].
  apply walk_concat; [exact Htys|lia].
Qed.

(* C05, from the constructor: handles are offsets in every later image *)
Lemma handle_offset_from_ctor (T : addtable) md c pre s0 s o s1 evs ops s' :
    at_new T c = Some s0 -> run_adds (at_entry T) md s0 pre = Some s ->
    add_step (at_entry T) md s o = Some (s1, evs) -> run_adds (at_entry T) md s1 ops = Some s' ->
    N.of_nat (length (tbl_image s')) < 2 ^ 32 ->
    exists e tail, at_entry T s o = Some e /\
      evs = [EvNum (if a_returns e then N.of_nat (length (tbl_image s)) else 0)] /\
      skipn (length (tbl_image s)) (tbl_image s') = a_bytes e ++ concat tail /\
      skipn (length (tbl_image s)) (tbl_image s1) = a_bytes e.
Proof.
  intros Hn Hpre Hstep Hrun Hfit.
  assert (I0 : Inv2 (at_kind T) s0) by (eapply at_new_inv; eauto).
  pose proof (inv_hdr s0 (proj1 I0)) as Hh0.
  pose proof (run_adds_hdr_ok (at_kind T) (at_entry T) (at_sound T) md pre s0 s Hh0 Hpre) as Hh.
  destruct (add_step_grows (at_kind T) (at_entry T) (at_sound T) md s o s1 evs Hh Hstep) as [Hh1 Hg1].
  pose proof (run_adds_grows (at_kind T) (at_entry T) (at_sound T) md ops s1 s' Hh1 Hrun) as Hg2.
  assert (I : Inv2 (at_kind T) s) by (eapply addtable_reach; eauto; lia).
  exact (handle_is_offset (at_kind T) (at_entry T) (at_sound T) md s o s1 evs ops s' I Hstep Hrun Hfit).
Qed.
