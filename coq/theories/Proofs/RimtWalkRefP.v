(* RIMT, C03 as a theorem: for every history in the domain of Spec/RimtS.v whose image is smaller than 4 GiB the reference
   image is exactly tiled by the devices that were added (walk from offset 48 by each device's own 16-bit length field at its
   bytes 2..3), the device count (offset 36) is the number of devices and the device array offset (offset 40) is 48; by the
   refinement theorem the same holds of the image the Impl model emits. *)
From Coq Require Import NArith ZArith List Lia Bool Arith.
From ACPI Require Import Lib.Bytes Lib.Sx Lib.Machine Impl.Checksum Impl.Table Impl.Fields Impl.Run Impl.Madt Impl.Rimt
  Spec.Layout Spec.RimtS
  Proofs.ChecksumP Proofs.TableP Proofs.MadtP Proofs.Tables Proofs.RimtP Proofs.RefTableCommonP Proofs.SpRefP
  Proofs.WalkP Proofs.WalkRefCommon2P Proofs.RimtRefP.
Import ListNotations.

Ltac Zify.zify_post_hook ::= Z.to_euclidean_division_equations.

Open Scope N_scope.

Definition rimt_ty (e : list N) : N := nth 0 e 0.

(* ---------- sub-structures have their fixed sizes ---------- *)
Lemma rimt_wire_length w e : rimt_wire_ref w = Some e -> length e = 8%nat.
Proof.
  unfold rimt_wire_ref. destruct w as [|l]; [discriminate|].
  destruct l as [|[num|] [|[lvl|] [|[pol|] [|[aplic|] [|]]]]]; try discriminate.
  intros H. exact (proj1 (lay_decodes _ _ _ H)).
Qed.

Lemma rimt_map_length n rs m e : rimt_map_ref n rs m = Some e -> length e = 20%nat.
Proof.
  unfold rimt_map_ref. destruct m as [|l]; [discriminate|].
  destruct l as [|[src|] [|[dst|] [|[cnt|] [|href [|[ats|] [|[pri|] [|[rciep|] [|]]]]]]]]; try discriminate.
  destruct (sp_lookup n rs href) as [[off ty]|]; [|discriminate].
  destruct ty; [|discriminate].
  intros H. exact (proj1 (lay_decodes _ _ _ H)).
Qed.

Lemma rimt_opt_list_forall (f : sx -> option (list N)) (P : list N -> Prop) x l :
  (forall y a, f y = Some a -> P a) -> rimt_opt_list f x = Some l -> Forall P l.
Proof.
  intros HP H. unfold rimt_opt_list in H. destruct x as [|xs]; [discriminate H|].
  destruct xs as [|[|ys] [|]]; try discriminate H.
  - apply wr_Some_inj in H. subst l. constructor.
  - apply (sp_all_forall f P HP ys [] l H). constructor.
Qed.

Lemma rimt_wires_length x ws : rimt_opt_list rimt_wire_ref x = Some ws -> length (concat ws) = (8 * length ws)%nat.
Proof. intros H. apply concat_length_const. exact (rimt_opt_list_forall _ _ x ws rimt_wire_length H). Qed.

Lemma rimt_maps_length n rs x ms : rimt_opt_list (rimt_map_ref n rs) x = Some ms -> length (concat ms) = (20 * length ms)%nat.
Proof. intros H. apply concat_length_const. exact (rimt_opt_list_forall _ _ x ms (rimt_map_length n rs) H). Qed.

Lemma pow16' : 2 ^ (8 * N.of_nat 2) = 65536.
Proof. reflexivity. Qed.

(* ---------- every reference device describes itself: its bytes 2..3 hold its own size ---------- *)
Lemma rimt_entry_self n rs o e : rimt_entry_ref n rs o = Some e -> self_describing H_u8_x_u16 e (rimt_ty e).
Proof.
  intros H. unfold rimt_entry_ref in H.
  destruct o as [|l]; [discriminate H|]. destruct l as [|[op|] l]; try discriminate H.
  destruct op as [|op]; try discriminate H.
  repeat (destruct op as [op|op|]; try discriminate H).
  - (* 3: platform device *)
    destruct l as [|[id|] [|name [|maps [|]]]]; try discriminate H.
    destruct (sx_bytes name) as [nm|]; [|discriminate H].
    destruct (rimt_opt_list (rimt_map_ref n rs) maps) as [ms|] eqn:Ems; [|discriminate H]. cbv zeta in H.
    apply rimt_fits_some in H. destruct H as [Hfit H]. apply N.leb_le in Hfit.
    destruct (option_map_app_decodes _ _ _ _ H) as [Hlen Hf].
    rewrite !app_length, map_length, (rimt_maps_length _ _ _ _ Ems) in Hlen. cbn [length] in Hlen.
    apply sd_u8_x_u16_of_fields; [lia|].
    rewrite (Hf 2%nat 2%nat (N.of_nat (12 + length nm + 1 + 20 * length ms))); [|cbn [In L]; tauto|lia].
    rewrite pow16', N.mod_small by lia. rewrite Hlen. f_equal. lia.
  - (* 2: PCIe root complex *)
    destruct l as [|[id|] [|[seg|] [|[ats|] [|[pri|] [|maps [|]]]]]]; try discriminate H.
    destruct (rimt_opt_list (rimt_map_ref n rs) maps) as [ms|] eqn:Ems; [|discriminate H]. cbv zeta in H.
    apply rimt_fits_some in H. destruct H as [Hfit H]. apply N.leb_le in Hfit.
    destruct (option_map_app_decodes _ _ _ _ H) as [Hlen Hf].
    rewrite (rimt_maps_length _ _ _ _ Ems) in Hlen.
    apply sd_u8_x_u16_of_fields; [lia|].
    rewrite (Hf 2%nat 2%nat (N.of_nat (16 + 20 * length ms))); [|cbn [In L]; tauto|lia].
    rewrite pow16', N.mod_small by lia. rewrite Hlen. reflexivity.
  - (* 1: IOMMU *)
    destruct l as [|[id|] [|base [|pci [|prox [|wires [|]]]]]]; try discriminate H.
    destruct (sp_opt base) as [b|]; [|discriminate H].
    destruct (rimt_pci_ref pci) as [pc|]; [|discriminate H].
    destruct (sp_opt prox) as [px|]; [|discriminate H].
    destruct (rimt_opt_list rimt_wire_ref wires) as [ws|] eqn:Ews; [|discriminate H]. cbv zeta in H.
    apply rimt_fits_some in H. destruct H as [Hfit H]. apply N.leb_le in Hfit.
    destruct (option_map_app_decodes _ _ _ _ H) as [Hlen Hf].
    rewrite (rimt_wires_length _ _ Ews) in Hlen.
    apply sd_u8_x_u16_of_fields; [lia|].
    rewrite (Hf 2%nat 2%nat (N.of_nat (32 + 8 * length ws))); [|cbn [In L]; tauto|lia].
    rewrite pow16', N.mod_small by lia. rewrite Hlen. reflexivity.
Qed.

(* ---------- the shape of the reference image ---------- *)
Lemma rimt_image_shape ctor ops r : ts_image rimt_spec ctor ops = Some r ->
  exists ha es,
    rimt_entries_ref ops = Some es /\
    length (ha_oem ha) = 6%nat /\ length (ha_tbl ha) = 8%nat /\
    r = ref_table [82; 73; 77; 84] 1 ha ((le 4 (N.of_nat (length es)) ++ le 4 48 ++ le 4 0) ++ concat es).
Proof.
  intros H. cbn [ts_image rimt_spec] in H. unfold rimt_image in H.
  destruct ctor as [|l]; [discriminate H|].
  destruct l as [|o [|t [|rr [|]]]]; try discriminate H.
  destruct (sx_hdr_args o t rr) as [ha|] eqn:Eha; [|discriminate H].
  destruct (rimt_entries_ref ops) as [es|] eqn:Ees; [|discriminate H].
  apply wr_Some_inj in H. subst r.
  destruct (sx_hdr_args_len _ _ _ _ Eha) as [Ho Ht].
  exists ha, es. split; [reflexivity|]. split; [exact Ho|]. split; [exact Ht|].
  rewrite <- !app_assoc. reflexivity.
Qed.

(* ---------- (1) the reference image is exactly tiled, and its count fields hold ---------- *)
(* The size hypothesis is needed for the device count only: Spec/RimtS.v does not bound the number of devices, and a count
   of 2^32 or more does not fit the 32-bit DeviceCount field. *)
Theorem rimt_reference_tiles : forall ctor ops r,
  ts_image rimt_spec ctor ops = Some r -> N.of_nat (length r) < 2 ^ 32 ->
  c03_judge rimt_spec ctor r ops = true.
Proof.
  intros ctor ops r H Hfit.
  destruct (rimt_image_shape ctor ops r H) as (ha & es & Ees & Ho & Ht & ->).
  assert (HF : Forall (fun e => self_describing H_u8_x_u16 e (rimt_ty e)) es).
  { apply (sp_entries_forall rimt_entry_ref _ rimt_entry_self ops _ _ _ _ es Ees). constructor. }
  apply (c03_judge_of_tyf rimt_spec ctor ops _ 48%nat H_u8_x_u16 rimt_ty es).
  - reflexivity.
  - cbn [ts_entries rimt_spec]. rewrite Ees. reflexivity.
  - apply skipn_ref_table; [reflexivity|exact Ho|exact Ht|]. rewrite !app_length, !length_le. reflexivity.
  - exact HF.
  - assert (Hc : N.of_nat (length es) < 2 ^ 32).
    { assert (Hn : (length es <= length (concat es))%nat).
      { apply concat_length_ge_pos. eapply Forall_impl; [|exact HF]. intros e [Hp _]. exact Hp. }
      rewrite (length_ref_table' [82; 73; 77; 84] 1 ha _ eq_refl Ho Ht), app_length in Hfit.
      change (2 ^ 32) with 4294967296 in *. lia. }
    cbn [ts_counts rimt_spec forallb]. rewrite andb_true_r.
    rewrite <- !app_assoc.
    rewrite (field_at_ref_table [82; 73; 77; 84] 1 ha _ 0%nat 4%nat eq_refl Ho Ht).
    rewrite (field_at_ref_table [82; 73; 77; 84] 1 ha _ 4%nat 4%nat eq_refl Ho Ht).
    rewrite field_at_le_app.
    rewrite (field_at_skip (le 4 (N.of_nat (length es))) _ 4%nat 4%nat (length_le _ _)), field_at_le_app.
    change (2 ^ (8 * N.of_nat 4)) with (2 ^ 32). rewrite N.mod_small by exact Hc. rewrite N.eqb_refl. reflexivity.
Qed.

(* ---------- (2) the image the Impl model emits is exactly tiled ---------- *)
Corollary rimt_model_tiles : forall md ctor ops r,
  ts_image rimt_spec ctor ops = Some r ->
  N.of_nat (length r) < 2 ^ 32 ->
  exists s0 s, rimt_new ctor = Some s0 /\
               run_adds rimt_addition md s0 ops = Some s /\
               c03_judge rimt_spec ctor (tbl_image s) ops = true.
Proof.
  intros md ctor ops r H Hfit.
  destruct (rimt_refines md ctor ops r H Hfit) as (s0 & s & Hn & Hr & Hi).
  exists s0, s. split; [exact Hn|]. split; [exact Hr|]. rewrite Hi. exact (rimt_reference_tiles ctor ops r H Hfit).
Qed.

(* ---------- (3) C05 on the reference image: the Spec's handles are the offsets the walk finds ---------- *)
(* [sp_final rimt_entry_ref pre 48 0 []] is the Spec's bookkeeping (number of devices, their (start, type) most recent first)
   after the operations [pre], i.e. what the next operation's references (104 k) are looked up in ([sp_lookup]).  A reference
   looked up after any prefix of a history names, in the reference image of the whole history, the offset at which the walk
   finds the device added by operation k, with the type recorded for it; every device is reachable through its handle. *)
Theorem rimt_reference_handles : forall ctor pre post r,
  ts_image rimt_spec ctor (pre ++ post) = Some r ->
  exists n rs found,
    sp_final rimt_entry_ref pre 48 0 [] = Some (n, rs) /\ n = length pre /\
    walk (S (length r)) H_u8_x_u16 48 (skipn 48 r) = Some found /\
    length found = length (pre ++ post) /\
    (forall k o ty, sp_lookup n rs (SL [SA 104; SA k]) = Some (o, ty) ->
       exists off len, nth_error found (N.to_nat k) = Some (ty, off, len) /\ N.of_nat off = o) /\
    (forall k, (k < length pre)%nat ->
       exists ty off len, nth_error found k = Some (ty, off, len) /\
                          sp_lookup n rs (SL [SA 104; SA (N.of_nat k)]) = Some (N.of_nat off, ty)).
Proof.
  intros ctor pre post r H.
  destruct (rimt_image_shape ctor _ r H) as (ha & es & Esp & Ho & Ht & ->). unfold rimt_entries_ref in Esp.
  apply (sp_reference_handles rimt_entry_ref H_u8_x_u16 rimt_entry_self _ 48%nat pre post es Esp).
  apply skipn_ref_table; [reflexivity|exact Ho|exact Ht|]. rewrite !app_length, !length_le. reflexivity.
Qed.

Corollary rimt_reference_handles_ok : forall ctor ops r n rs pending,
  ts_image rimt_spec ctor ops = Some r -> sp_final rimt_entry_ref ops 48 0 [] = Some (n, rs) ->
  (forall hk, In hk pending -> exists ty, sp_lookup n rs (SL [SA 104; SA (N.of_nat (snd hk))]) = Some (fst hk, ty)) ->
  c05_handles_ok rimt_spec r pending = true.
Proof.
  intros ctor ops r n rs pending H Hp Hpend.
  destruct (rimt_image_shape ctor _ r H) as (ha & es & Esp & Ho & Ht & ->). unfold rimt_entries_ref in Esp.
  apply (sp_reference_handles_ok rimt_entry_ref H_u8_x_u16 rimt_entry_self rimt_spec _ 48%nat ops es n rs pending eq_refl Esp);
    [|exact Hp|exact Hpend].
  apply skipn_ref_table; [reflexivity|exact Ho|exact Ht|]. rewrite !app_length, !length_le. reflexivity.
Qed.

Print Assumptions rimt_reference_tiles.
Print Assumptions rimt_model_tiles.
Print Assumptions rimt_reference_handles.
Print Assumptions rimt_reference_handles_ok.
