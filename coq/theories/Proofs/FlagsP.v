(* Option builders: a flag field is the union of the bits of the options invoked, in any order and any number of times,
   and setting/or-ing one field leaves every other field alone (C11, generic part). *)
From Coq Require Import NArith ZArith List Lia Bool Arith.
From ACPI Require Import Lib.Bytes Lib.Sx Impl.Fields.
Import ListNotations.
Open Scope N_scope.

Definition big_or (l : list N) : N := fold_right N.lor 0 l.

Lemma fold_lor_big l : forall a, fold_left N.lor l a = N.lor a (big_or l).
Proof.
  induction l as [|x l IH]; intros a; cbn [fold_left big_or fold_right]; [now rewrite N.lor_0_r|].
  rewrite IH. fold (big_or l). now rewrite N.lor_assoc.
Qed.

Lemma big_or_testbit l k : N.testbit (big_or l) k = existsb (fun x => N.testbit x k) l.
Proof.
  induction l as [|x l IH]; cbn [big_or fold_right existsb]; [apply N.bits_0|].
  fold (big_or l). rewrite N.lor_spec, IH. reflexivity.
Qed.

(* only WHICH options were invoked matters: same set of options, same field -- whatever the order and the repetitions *)
Lemma big_or_same_set l1 l2 : (forall x, In x l1 <-> In x l2) -> big_or l1 = big_or l2.
Proof.
  intros H. apply N.bits_inj. intros k. rewrite !big_or_testbit.
  destruct (existsb (fun x => N.testbit x k) l1) eqn:E1; destruct (existsb (fun x => N.testbit x k) l2) eqn:E2; try reflexivity.
  - apply existsb_exists in E1. destruct E1 as (x & Hx & Hb). apply H in Hx.
    assert (existsb (fun x => N.testbit x k) l2 = true) by (apply existsb_exists; eauto). congruence.
  - apply existsb_exists in E2. destruct E2 as (x & Hx & Hb). apply H in Hx.
    assert (existsb (fun x => N.testbit x k) l1 = true) by (apply existsb_exists; eauto). congruence.
Qed.

(* a bit is set in the union iff some invoked option carries it: distinct single-bit options stay distinguishable *)
Lemma big_or_bit l k : N.testbit (big_or l) k = true <-> exists x, In x l /\ N.testbit x k = true.
Proof. rewrite big_or_testbit. apply existsb_exists. Qed.

(* ---- field lists ---- *)
Lemma fget_fset_same f i v : (i < length f)%nat -> fget (fset f i v) i = v.
Proof.
  revert i; induction f as [|[w x] f IH]; intros [|i] H; cbn [length] in H; try lia; unfold fget in *; cbn [fset nth snd]; [reflexivity|].
  apply IH. lia.
Qed.

Lemma fget_fset_other f i j v : i <> j -> fget (fset f i v) j = fget f j.
Proof.
  revert i j; induction f as [|[w x] f IH]; intros [|i] [|j] H; unfold fget in *; cbn [fset nth snd]; try reflexivity; try congruence.
  apply IH. congruence.
Qed.

Lemma fget_f_or_same f i b : (i < length f)%nat -> fget (f_or f i b) i = N.lor (fget f i) b.
Proof.
  revert i; induction f as [|[w x] f IH]; intros [|i] H; cbn [length] in H; try lia; unfold fget in *; cbn [f_or nth snd]; [reflexivity|].
  apply IH. lia.
Qed.

Lemma fget_f_or_other f i j b : i <> j -> fget (f_or f i b) j = fget f j.
Proof.
  revert i j; induction f as [|[w x] f IH]; intros [|i] [|j] H; unfold fget in *; cbn [f_or nth snd]; try reflexivity; try congruence.
  apply IH. congruence.
Qed.

Lemma length_f_or f i b : length (f_or f i b) = length f.
Proof. revert i; induction f as [|[w x] f IH]; intros [|i]; cbn [f_or length]; auto. Qed.

(* or-ing a sequence of option bits into field i: the field becomes the union, every other field is untouched *)
Lemma fold_f_or f i bits : (i < length f)%nat ->
  fget (fold_left (fun g b => f_or g i b) bits f) i = N.lor (fget f i) (big_or bits) /\
  forall j, j <> i -> fget (fold_left (fun g b => f_or g i b) bits f) j = fget f j.
Proof.
  revert f; induction bits as [|b bits IH]; intros f H; cbn [fold_left big_or fold_right].
  - split; [now rewrite N.lor_0_r|reflexivity].
  - destruct (IH (f_or f i b)) as [H1 H2]; [rewrite length_f_or; exact H|]. fold (big_or bits). split.
    + rewrite H1, fget_f_or_same by exact H. now rewrite N.lor_assoc.
    + intros j Hj. rewrite H2 by exact Hj. apply fget_f_or_other. congruence.
Qed.

(* the serialised image depends on the field values only *)
Lemma ser_flds_ext f g : map fst f = map fst g -> (forall j, fget f j = fget g j) -> ser_flds f = ser_flds g.
Proof.
  revert g; induction f as [|[w x] f IH]; intros [|[w' x'] g] Hw Hv; try discriminate; [reflexivity|].
  cbn [map fst] in Hw. inversion Hw; subst. unfold ser_flds. cbn [map concat fst snd].
  pose proof (Hv 0%nat) as H0. unfold fget in H0. cbn [nth snd] in H0. subst x'.
  f_equal. apply IH; [assumption|]. intros j. specialize (Hv (S j)). unfold fget in *. exact Hv.
Qed.
