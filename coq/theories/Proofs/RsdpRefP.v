(* RSDP (component 30): the Impl model refines the Spec.  The only public operation is the constructor Rsdp::new(oem_id,
   xsdt_addr); the Spec's domain is the empty history.  For every constructor argument whose oem_id elements are bytes, the
   emitted 36 bytes are the reference image: same fields, and both checksums (ACPI 1.0 checksum over the first 20 bytes,
   extended checksum over all 36) are the values the reference computes from content. *)
From Coq Require Import NArith ZArith List Lia Bool Arith.
From ACPI Require Import Lib.Bytes Lib.Sx Lib.Machine Impl.Checksum Impl.Table Impl.Fields Impl.Run Impl.Rsdp
  Spec.Layout Spec.FixedS Spec.RsdpS Proofs.ChecksumP Proofs.MadtP Proofs.FixedP Proofs.RsdpP Proofs.RefFixedCommonP.
Import ListNotations.

Ltac Zify.zify_post_hook ::= Z.to_euclidean_division_equations.

Open Scope N_scope.

(* the crate's generate_checksum is the reference's two's-complement of the byte sum *)
Lemma generate_checksum_neg8 l : generate_checksum l = neg8 (sumN l).
Proof.
  unfold generate_checksum, neg8, ck_value. rewrite fold_wadd8_mod by lia. rewrite N.add_0_l.
  pose proof (N.mod_lt (sumN l) 256 ltac:(lia)) as Hlt.
  generalize dependent (sumN l mod 256). intros s Hs. f_equal. lia.
Qed.

(* per-entry content: for all field values (oem_id being bytes), the packed struct is the reference layout *)
Lemma rsdp_entries_are_reference oem x c e : length oem = 6%nat -> bytes_ok oem = true ->
  rsdp_lay oem x c e = Some (rsdp_bytes {| rs_cks := c; rs_oem := oem; rs_xsdt := x; rs_ext := e |}).
Proof.
  intros Ho Bo.
  destruct oem as [|o0 [|o1 [|o2 [|o3 [|o4 [|o5 [|]]]]]]]; try discriminate.
  unfold rsdp_lay.
  match goal with |- lay 36 ?L = _ => change (lay 36 L) with (Some (assemble L)) end.
  f_equal. rewrite !assemble_app. rewrite (assemble_LB 9 _ Bo). rewrite (assemble_LB 0) by reflexivity.
  unfold rsdp_bytes, RSDP_SIG, b1, d4, q8, assemble. cbn [rs_cks rs_oem rs_xsdt rs_ext map concat fst snd].
  rewrite !app_nil_r. rewrite <- ?app_assoc. reflexivity.
Qed.

Definition rsdp_ctor_bytes (ctor : sx) : Prop :=
  match ctor with SL (o :: _) => sx_is_bytes o | _ => True end.

Theorem rsdp_refines :
  forall md ctor ops r,
    ts_image rsdp_spec ctor ops = Some r ->
    rsdp_ctor_bytes ctor ->
    exists s0 s, rsdp_new ctor = Some s0 /\
                 run_steps (rsdp_step md) s0 ops = Some s /\
                 rsdp_bytes s = r.
Proof.
  intros md ctor ops r H Hb. cbn [ts_image rsdp_spec fixed_spec] in H.
  apply ctor_only_some in H. destruct H as [-> H]. unfold rsdp_ref in H.
  destruct ctor as [|l]; [discriminate|].
  destruct l as [|o [|[xsdt|] [|]]]; try discriminate.
  destruct (sx_bytes o) as [oem|] eqn:Eo; [|discriminate].
  destruct (Nat.eqb (length oem) 6) eqn:El; [|discriminate]. apply Nat.eqb_eq in El.
  pose proof (Hb _ Eo) as Bo.
  rewrite (rsdp_entries_are_reference oem xsdt 0 0 El Bo) in H.
  rewrite <- generate_checksum_neg8 in H.
  rewrite (rsdp_entries_are_reference oem xsdt _ 0 El Bo) in H.
  rewrite <- generate_checksum_neg8 in H.
  rewrite (rsdp_entries_are_reference oem xsdt _ _ El Bo) in H.
  inversion H; subst r; clear H.
  exists (rsdp_make oem xsdt), (rsdp_make oem xsdt).
  split; [|split; reflexivity].
  unfold rsdp_new. rewrite (sx_arr_of_bytes 6 o oem Eo El). reflexivity.
Qed.

(* the excluded class: an oem_id element that is not a byte (no Rust caller can express it: the argument is [u8; 6]).
   Here it is the model that keeps the element as it is, and the Spec's layout that truncates it. *)
Example rsdp_refines_refuted :
  exists ctor ops r,
    ts_image rsdp_spec ctor ops = Some r /\
    forall md s0 s, rsdp_new ctor = Some s0 -> run_steps (rsdp_step md) s0 ops = Some s -> rsdp_bytes s <> r.
Proof.
  exists (SL [SL [SA 256; SA 0; SA 0; SA 0; SA 0; SA 0]; SA 0]), [].
  eexists. split; [vm_compute; reflexivity|].
  intros md s0 s Hn Hr. vm_compute in Hn. inversion Hn; subst s0; clear Hn.
  cbn [run_steps] in Hr. inversion Hr; subst s; clear Hr.
  vm_compute. discriminate.
Qed.

Print Assumptions rsdp_refines.
Print Assumptions rsdp_refines_refuted.
