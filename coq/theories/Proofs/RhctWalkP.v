(* RHCT: walk instance (C03) and the count / length sites inside its nodes (C18).
   Every node starts with type u16, length u16 (H_u16_u16).  The sites:
     node length (u16 at offset 2 of every node),
     ISA string length, NUL included (u16 at offset 6 of an ISA string node),
     number of offsets (u16 at offset 6 of a hart info node).
   The table's node count (header area, offset 48) is a u32; it is covered by walktable_tiles and restated at the end. *)
From Coq Require Import NArith ZArith List Lia Bool Arith.
From ACPI Require Import Lib.Bytes Lib.Sx Lib.Machine Impl.Checksum Impl.Table Impl.Fields Impl.Run Impl.Madt Impl.Rhct
  Spec.Layout Proofs.ChecksumP Proofs.TableP Proofs.MadtP Proofs.WalkP Proofs.Tables Proofs.RhctP.
Import ListNotations.

Ltac Zify.zify_post_hook ::= Z.to_euclidean_division_equations.

Open Scope N_scope.

(* ---------- generic helpers (also used by Proofs/RimtWalkP.v) ---------- *)

(* the independent field reader, applied after a prefix of known size to a little-endian field *)
Lemma w2_field_at_after pre w v rest off : length pre = off ->
  field_at (pre ++ le w v ++ rest) off w = v mod 2 ^ (8 * N.of_nat w).
Proof. intros <-. unfold field_at. rewrite skipn_app_exact, firstn_le_app. apply unle_le. Qed.

Lemma w2_unle2 n : unle [n mod 256; n / 256 mod 256] = n mod 65536.
Proof. change [n mod 256; n / 256 mod 256] with (le 2 n). now rewrite unle_le. Qed.

(* type u16, length u16, the length field holding the entry's real size: the entry describes itself *)
Lemma w2_self_u16_u16 t n tail : t < 65536 -> n < 65536 -> N.to_nat n = length (w2 t ++ w2 n ++ tail) ->
  self_describing H_u16_u16 (w2 t ++ w2 n ++ tail) t.
Proof.
  intros Ht Hn Hl. split.
  - unfold w2. rewrite app_length, length_le. lia.
  - intros rest. rewrite <- Hl. unfold w2. cbn [le app read_ehdr].
    rewrite !w2_unle2, !N.mod_small by assumption. reflexivity.
Qed.

(* conversely, a self-describing entry's u16 at offset 2 is its size (the C18 reading of the walk instance) *)
Lemma w2_self_u16_u16_length_field e ty : self_describing H_u16_u16 e ty -> field_at e 2 2 = N.of_nat (length e).
Proof.
  intros [_ H]. specialize (H []). rewrite app_nil_r in H.
  destruct e as [|t0 [|t1 [|a [|b r]]]]; try discriminate H.
  cbn [read_ehdr] in H. unfold field_at. cbn [skipn firstn].
  remember (length (t0 :: t1 :: a :: b :: r)) as n eqn:En. remember (unle [a; b]) as v eqn:Ev.
  assert (E : N.to_nat v = n) by congruence. rewrite <- E. now rewrite N2Nat.id.
Qed.

(* a refused entry is a refused operation, in both build modes *)
Lemma w2_add_step_refuses (entry : tbl -> sx -> option addition) s o :
  entry s o = None -> forall md, add_step entry md s o = None.
Proof. intros H md. unfold add_step. rewrite H. reflexivity. Qed.

(* ---------- (A) the walk instance ---------- *)

Lemma rhct_new_empty c s0 : rhct_new c = Some s0 -> t_ents s0 = [].
Proof.
  unfold rhct_new. intros H. break_sx H.
  destruct (sx_hdr [82; 72; 67; 84] 1 _ _ _) as [h|]; [|discriminate].
  cbn [option_bind] in H. apply rh_Some_inj in H. subst s0. reflexivity.
Qed.

(* the true size of an ISA string node: 8 fixed bytes, the string, its NUL, padded to an even size *)
Definition isa_true_len (n : nat) : nat := (9 + n + (9 + n) mod 2)%nat.

Lemma isa_len_true str : isa_len str = N.of_nat (isa_true_len (length str)).
Proof.
  unfold isa_len, isa_true_len. remember (length str) as n eqn:En. clear En.
  pose proof (Nat.div_mod (9 + n) 2 ltac:(lia)) as D1. pose proof (Nat.mod_upper_bound (9 + n) 2 ltac:(lia)) as B1.
  pose proof (N.div_mod (8 + N.of_nat n + 1) 2 ltac:(lia)) as D2. pose proof (N.mod_lt (8 + N.of_nat n + 1) 2 ltac:(lia)) as B2.
  remember ((9 + n) mod 2)%nat as m. remember ((9 + n) / 2)%nat as a.
  remember ((8 + N.of_nat n + 1) mod 2) as r. remember ((8 + N.of_nat n + 1) / 2) as q.
  destruct (N.eqb_spec r 0) as [He|He]; lia.
Qed.

Lemma isa_bytes_shape str b : isa_bytes str = Some b ->
  exists tail, b = w2 0 ++ w2 (isa_len str) ++ w2 1 ++ w2 (N.of_nat (length str) + 1) ++ tail.
Proof.
  unfold isa_bytes. destruct (N.leb_spec (isa_len str) 65535) as [Hle|]; [|discriminate].
  cbn [assert option_bind]. intros H. apply rh_Some_inj in H. subst b.
  assert (Hn : N.of_nat (length str) < 65536).
  { rewrite isa_len_true in Hle. unfold isa_true_len in Hle. lia. }
  unfold cast, U16. change (2 ^ 16) with 65536. rewrite (N.mod_small _ _ Hn).
  eexists. reflexivity.
Qed.

Lemma hart_bytes_shape uid hs b : hart_bytes uid hs = Some b ->
  exists tail, b = w2 65535 ++ w2 (hart_len hs) ++ w2 1 ++ w2 (N.of_nat (length hs)) ++ tail.
Proof.
  unfold hart_bytes. destruct (N.leb_spec (hart_len hs) 65535) as [Hle|]; [|discriminate].
  cbn [assert option_bind]. intros H. apply rh_Some_inj in H. subst b. eexists. reflexivity.
Qed.

Lemma isa_bytes_self str b : isa_bytes str = Some b -> self_describing H_u16_u16 b 0.
Proof.
  intros E. destruct (isa_bytes_length _ _ E) as (H1 & H2 & _). destruct (isa_bytes_shape _ _ E) as [tail ->].
  apply w2_self_u16_u16; [lia|lia|]. rewrite H1. apply Nat2N.id.
Qed.

Lemma hart_bytes_self uid hs b : hart_bytes uid hs = Some b -> self_describing H_u16_u16 b 65535.
Proof.
  intros E. destruct (hart_bytes_length _ _ _ E) as (H1 & H2 & _). destruct (hart_bytes_shape _ _ _ E) as [tail ->].
  apply w2_self_u16_u16; [lia|lia|]. rewrite H1. apply Nat2N.id.
Qed.

Lemma mmu_bytes_self scheme : self_describing H_u16_u16 (mmu_bytes scheme) 2.
Proof. unfold mmu_bytes. apply w2_self_u16_u16; [lia|lia|reflexivity]. Qed.

Lemma cmo_bytes_self x y z : self_describing H_u16_u16 (cmo_bytes x y z) 1.
Proof. unfold cmo_bytes. apply w2_self_u16_u16; [lia|lia|reflexivity]. Qed.

(* every accepted addition is a node whose own u16 length field is its size: in particular the model refuses
   whenever that size does not fit 16 bits *)
Lemma rhct_addition_self s o e : rhct_addition s o = Some e -> exists ty, self_describing H_u16_u16 (a_bytes e) ty.
Proof.
  intros H. unfold rhct_addition in H. break_sx H;
    repeat match type of H with
           | option_bind ?x _ = Some _ => let E := fresh "E" in destruct x eqn:E; [|discriminate H]; cbn [option_bind] in H
           end;
    apply rh_Some_inj in H; subst e; cbn [rhct_add a_bytes];
    first [ exists 0; eapply isa_bytes_self; eassumption
          | exists 2; apply mmu_bytes_self
          | exists 1; apply cmo_bytes_self
          | exists 65535; eapply hart_bytes_self; eassumption ].
Qed.

Definition rhct_walk : walktable :=
  {| wt_table := rhct_table; wt_ehdr := H_u16_u16; wt_self := rhct_addition_self; wt_new_empty := rhct_new_empty |}.

(* ---------- (B) sites inside the nodes ---------- *)

(* node length (every node kind): u16 at offset 2 = the number of bytes the node occupies *)
Lemma rhct_node_length_exact s o e : rhct_addition s o = Some e ->
  field_at (a_bytes e) 2 2 = N.of_nat (length (a_bytes e)).
Proof.
  intros H. destruct (rhct_addition_self s o e H) as [ty Hs]. eapply w2_self_u16_u16_length_field; eassumption.
Qed.

(* ... and an accepted node is smaller than 2^16 bytes *)
Lemma rhct_node_length_fits s o e : rhct_addition s o = Some e -> N.of_nat (length (a_bytes e)) < 2 ^ 16.
Proof.
  intros H. change (2 ^ 16) with 65536. unfold rhct_addition in H. break_sx H;
    repeat match type of H with
           | option_bind ?x _ = Some _ => let E := fresh "E" in destruct x eqn:E; [|discriminate H]; cbn [option_bind] in H
           end;
    apply rh_Some_inj in H; subst e; cbn [rhct_add a_bytes];
    try match goal with E : isa_bytes _ = Some _ |- _ => destruct (isa_bytes_length _ _ E) as (H1 & H2 & H3) end;
    try match goal with E : hart_bytes _ _ = Some _ |- _ => destruct (hart_bytes_length _ _ _ E) as (H1 & H2 & H3) end;
    rewrite ?length_mmu_bytes, ?length_cmo_bytes; lia.
Qed.

(* ISA string node, accepted: the size is the padded true size, and the string length field (NUL included) is exact *)
Lemma rhct_isa_length_exact s str sb e : sx_bytes str = Some sb -> rhct_addition s (SL [SA 1; str]) = Some e ->
  field_at (a_bytes e) 2 2 = N.of_nat (isa_true_len (length sb)) /\ length (a_bytes e) = isa_true_len (length sb).
Proof.
  intros Hsb H. pose proof (rhct_node_length_exact _ _ _ H) as Hf.
  unfold rhct_addition in H. rewrite Hsb in H. cbn [option_bind] in H.
  destruct (isa_bytes sb) as [b|] eqn:E; [|discriminate H]. cbn [option_bind] in H.
  apply rh_Some_inj in H. subst e. cbn [rhct_add a_bytes] in *.
  destruct (isa_bytes_length _ _ E) as (H1 & _ & _). rewrite isa_len_true in H1.
  apply Nat2N.inj in H1. rewrite Hf, <- H1. split; reflexivity.
Qed.

Lemma rhct_isa_strlen_exact s str sb e : sx_bytes str = Some sb -> rhct_addition s (SL [SA 1; str]) = Some e ->
  field_at (a_bytes e) 6 2 = N.of_nat (length sb + 1).
Proof.
  intros Hsb H. unfold rhct_addition in H. rewrite Hsb in H. cbn [option_bind] in H.
  destruct (isa_bytes sb) as [b|] eqn:E; [|discriminate H]. cbn [option_bind] in H.
  apply rh_Some_inj in H. subst e. cbn [rhct_add a_bytes].
  destruct (isa_bytes_length _ _ E) as (_ & H2 & _). rewrite isa_len_true in H2. unfold isa_true_len in H2.
  destruct (isa_bytes_shape _ _ E) as [tail ->].
  remember (N.of_nat (length sb) + 1) as v eqn:Ev.
  change (w2 0 ++ w2 (isa_len sb) ++ w2 1 ++ w2 v ++ tail) with ((w2 0 ++ w2 (isa_len sb) ++ w2 1) ++ le 2 v ++ tail).
  rewrite (w2_field_at_after _ 2 v tail 6) by reflexivity.
  change (2 ^ (8 * N.of_nat 2)) with 65536. rewrite N.mod_small by lia. lia.
Qed.

(* refusal: a string whose padded node size does not fit the u16 node length is refused *)
Lemma rhct_isa_length_refuses s str sb : sx_bytes str = Some sb ->
  2 ^ 16 <= N.of_nat (isa_true_len (length sb)) -> rhct_addition s (SL [SA 1; str]) = None.
Proof.
  intros Hsb Hbig. unfold rhct_addition. rewrite Hsb. cbn [option_bind].
  unfold isa_bytes. rewrite isa_len_true.
  destruct (N.leb_spec (N.of_nat (isa_true_len (length sb))) 65535) as [Hle|]; [|reflexivity].
  exfalso. change (2 ^ 16) with 65536 in Hbig. lia.
Qed.

(* refusal: a string whose length with its NUL does not fit the u16 string length field is refused *)
Lemma rhct_isa_strlen_refuses s str sb : sx_bytes str = Some sb ->
  2 ^ 16 <= N.of_nat (length sb + 1) -> rhct_addition s (SL [SA 1; str]) = None.
Proof.
  intros Hsb Hbig. apply (rhct_isa_length_refuses s str sb Hsb).
  change (2 ^ 16) with 65536 in *. unfold isa_true_len. lia.
Qed.

(* hart info node *)
Lemma handle_refs_length s l hs : handle_refs s l = Some hs -> length hs = length l.
Proof.
  revert hs; induction l as [|x l IH]; intros hs H; cbn [handle_refs] in H.
  - apply rh_Some_inj in H. subst hs. reflexivity.
  - destruct (handle_ref s x) as [h|]; [|discriminate H].
    destruct (handle_refs s l) as [r|]; [|discriminate H].
    apply rh_Some_inj in H. subst hs. cbn [length]. now rewrite (IH r eq_refl).
Qed.

(* the number of offsets of a hart info node built by HartInfoNode::new(uid, isa) and one with_cmo per element of cmos *)
Definition hart_true_count (cmos : list sx) : nat := (1 + length cmos)%nat.
Definition hart_true_len (cmos : list sx) : nat := (12 + 4 * hart_true_count cmos)%nat.

Lemma rhct_hart_count_exact s uid isa cmos e : rhct_addition s (SL [SA 4; SA uid; isa; SL cmos]) = Some e ->
  field_at (a_bytes e) 6 2 = N.of_nat (hart_true_count cmos).
Proof.
  intros H. unfold rhct_addition in H.
  destruct (handle_ref s isa) as [ih|]; [|discriminate H]. cbn [option_bind] in H.
  destruct (handle_refs s cmos) as [chs|] eqn:Ec; [|discriminate H]. cbn [option_bind] in H.
  destruct (hart_bytes uid (ih :: chs)) as [b|] eqn:E; [|discriminate H]. cbn [option_bind] in H.
  apply rh_Some_inj in H. subst e. cbn [rhct_add a_bytes].
  destruct (hart_bytes_length _ _ _ E) as (_ & H2 & _). unfold hart_len in H2.
  destruct (hart_bytes_shape _ _ _ E) as [tail ->].
  remember (N.of_nat (length (ih :: chs))) as v eqn:Ev.
  change (w2 65535 ++ w2 (hart_len (ih :: chs)) ++ w2 1 ++ w2 v ++ tail)
    with ((w2 65535 ++ w2 (hart_len (ih :: chs)) ++ w2 1) ++ le 2 v ++ tail).
  rewrite (w2_field_at_after _ 2 v tail 6) by reflexivity.
  change (2 ^ (8 * N.of_nat 2)) with 65536. rewrite N.mod_small by lia.
  subst v. cbn [length]. rewrite (handle_refs_length _ _ _ Ec). reflexivity.
Qed.

Lemma rhct_hart_length_exact s uid isa cmos e : rhct_addition s (SL [SA 4; SA uid; isa; SL cmos]) = Some e ->
  field_at (a_bytes e) 2 2 = N.of_nat (hart_true_len cmos) /\ length (a_bytes e) = hart_true_len cmos.
Proof.
  intros H. pose proof (rhct_node_length_exact _ _ _ H) as Hf. unfold rhct_addition in H.
  destruct (handle_ref s isa) as [ih|]; [|discriminate H]. cbn [option_bind] in H.
  destruct (handle_refs s cmos) as [chs|] eqn:Ec; [|discriminate H]. cbn [option_bind] in H.
  destruct (hart_bytes uid (ih :: chs)) as [b|] eqn:E; [|discriminate H]. cbn [option_bind] in H.
  apply rh_Some_inj in H. subst e. cbn [rhct_add a_bytes] in *.
  destruct (hart_bytes_length _ _ _ E) as (H1 & _ & _). unfold hart_len in H1. cbn [length] in H1.
  rewrite (handle_refs_length _ _ _ Ec) in H1.
  assert (Hl : length b = hart_true_len cmos) by (unfold hart_true_len, hart_true_count; lia).
  rewrite Hf, Hl. split; reflexivity.
Qed.

(* refusal: a hart info node whose size does not fit the u16 node length is refused *)
Lemma rhct_hart_length_refuses s uid isa cmos :
  2 ^ 16 <= N.of_nat (hart_true_len cmos) -> rhct_addition s (SL [SA 4; SA uid; isa; SL cmos]) = None.
Proof.
  intros Hbig. unfold rhct_addition.
  destruct (handle_ref s isa) as [ih|]; [|reflexivity]. cbn [option_bind].
  destruct (handle_refs s cmos) as [chs|] eqn:Ec; [|reflexivity]. cbn [option_bind].
  unfold hart_bytes, hart_len. cbn [length]. rewrite (handle_refs_length _ _ _ Ec).
  destruct (N.leb_spec (12 + 4 * N.of_nat (S (length cmos))) 65535) as [Hle|]; [|reflexivity].
  exfalso. change (2 ^ 16) with 65536 in Hbig. unfold hart_true_len, hart_true_count in Hbig. lia.
Qed.

(* refusal: a number of offsets that does not fit the u16 count field is refused *)
Lemma rhct_hart_count_refuses s uid isa cmos :
  2 ^ 16 <= N.of_nat (hart_true_count cmos) -> rhct_addition s (SL [SA 4; SA uid; isa; SL cmos]) = None.
Proof.
  intros Hbig. apply rhct_hart_length_refuses. change (2 ^ 16) with 65536 in *. unfold hart_true_len. lia.
Qed.

(* the refusals as refusals of the public operation, in both build modes *)
Corollary rhct_isa_refused_both_modes md s str sb : sx_bytes str = Some sb ->
  2 ^ 16 <= N.of_nat (isa_true_len (length sb)) \/ 2 ^ 16 <= N.of_nat (length sb + 1) -> rhct_step md s (SL [SA 1; str]) = None.
Proof.
  intros Hsb [H|H]; apply w2_add_step_refuses;
    [eapply rhct_isa_length_refuses|eapply rhct_isa_strlen_refuses]; eassumption.
Qed.

Corollary rhct_hart_refused_both_modes md s uid isa cmos :
  2 ^ 16 <= N.of_nat (hart_true_len cmos) \/ 2 ^ 16 <= N.of_nat (hart_true_count cmos) ->
  rhct_step md s (SL [SA 4; SA uid; isa; SL cmos]) = None.
Proof.
  intros [H|H]; apply w2_add_step_refuses; [now apply rhct_hart_length_refuses|now apply rhct_hart_count_refuses].
Qed.

Print Assumptions rhct_walk.
Print Assumptions rhct_node_length_exact.
Print Assumptions rhct_node_length_fits.
Print Assumptions rhct_isa_length_exact.
Print Assumptions rhct_isa_strlen_exact.
Print Assumptions rhct_isa_length_refuses.
Print Assumptions rhct_isa_strlen_refuses.
Print Assumptions rhct_hart_count_exact.
Print Assumptions rhct_hart_length_exact.
Print Assumptions rhct_hart_length_refuses.
Print Assumptions rhct_hart_count_refuses.
Print Assumptions rhct_isa_refused_both_modes.
Print Assumptions rhct_hart_refused_both_modes.

(* ---------- (C) table level: what the walk instance gives for every accepted history, in both build modes ---------- *)
(* the node count in the table's header area (offset 48) is a u32 written from t_cnt; t_cnt is the number of nodes *)
Corollary rhct_tiles md c ops s0 s :
  rhct_new c = Some s0 -> run_adds rhct_addition md s0 ops = Some s -> N.of_nat (length (tbl_image s)) < 2 ^ 32 ->
  let first := (36 + length (mid (t_kind s) (t_pre s) 0))%nat in
  exists tys,
    Forall2 (self_describing H_u16_u16) (t_ents s) tys /\
    walk (length (t_ents s)) H_u16_u16 first (skipn first (tbl_image s)) = Some (walk_result first (t_ents s) tys) /\
    concat (t_ents s) = skipn first (tbl_image s) /\
    t_cnt s = N.of_nat (length (t_ents s)).
Proof. exact (walktable_tiles rhct_walk md c ops s0 s). Qed.

(* every node of every accepted history carries its true size in its u16 length field *)
Corollary rhct_history_node_lengths md c ops s0 s :
  rhct_new c = Some s0 -> run_adds rhct_addition md s0 ops = Some s -> N.of_nat (length (tbl_image s)) < 2 ^ 32 ->
  Forall (fun e => field_at e 2 2 = N.of_nat (length e)) (t_ents s).
Proof.
  intros Hn Hr Hfit. destruct (rhct_tiles md c ops s0 s Hn Hr Hfit) as (tys & HF & _).
  clear - HF. induction HF as [|e ty es tys He _ IH]; constructor; [|exact IH].
  eapply w2_self_u16_u16_length_field; exact He.
Qed.

Print Assumptions rhct_tiles.
Print Assumptions rhct_history_node_lengths.
