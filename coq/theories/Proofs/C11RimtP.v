(* C11 instances, RIMT: the options are constructor arguments (booleans, Option values).  IOMMU flags (PCI device / proximity
   domain valid -- each gating its value fields), interrupt-wire flags, PCIe root complex flags, ID-mapping flags; for the
   wires and ID mappings also at their place inside the emitted device.  Statements about the bytes the Impl model emits. *)
From Coq Require Import NArith ZArith List Lia Bool Arith ZifyBool ZifyNat ZifyN.
From ACPI Require Import Lib.Bytes Lib.Sx Lib.Machine Impl.Table Impl.Fields Impl.Madt Impl.Rimt Spec.Layout Spec.RimtS Spec.OptionsS
  Proofs.FlagsP Proofs.FadtP Proofs.RimtP Proofs.WalkRefCommon2P Proofs.C11CommonP.
Import ListNotations.
Open Scope N_scope.

Lemma truthy_bit v k : (if truthy v then k else 0) = sp_bit v k.
Proof. unfold truthy, sp_bit. destruct (v =? 0); reflexivity. Qed.

Lemma sp_bit_le v k : sp_bit v k <= k.
Proof. unfold sp_bit. destruct (v =? 0); lia. Qed.

(* ---------- interrupt wire ---------- *)
Theorem rimt_wire_flags num lvl pol aplic b :
  wire_bytes (SL [SA num; SA lvl; SA pol; SA aplic]) = Some b ->
  length b = 8%nat /\ field_at b 4 2 = wire_flags_ref lvl pol /\
  forall k, ~ in_range k wire_flags_at -> nth k b 0 = nth k (d4 num ++ w2 0 ++ w2 aplic) 0.
Proof.
  cbn [wire_bytes]. intros H; apply wr_Some_inj in H; subst b. rewrite !truthy_bit.
  split; [unfold d4, w2; rewrite !app_length, !length_le; reflexivity|].
  fold (wire_flags_ref lvl pol).
  assert (Hs : wire_flags_ref lvl pol < 2 ^ (8 * N.of_nat 2)).
  { unfold wire_flags_ref. apply (lor_lt _ _ 16); pose proof (sp_bit_le lvl 1); pose proof (sp_bit_le pol 2); lia. }
  apply (mid_flag_bytes (d4 num) 2 _ 0 (w2 aplic) 4 eq_refl Hs).
Qed.

(* ---------- ID mapping ---------- *)
Theorem rimt_idmap_flags s src dst num href ats pri rciep b :
  idmap_bytes s (SL [SA src; SA dst; SA num; href; SA ats; SA pri; SA rciep]) = Some b ->
  length b = 20%nat /\ field_at b 16 4 = idmap_flags_ref ats pri rciep /\
  exists b0, idmap_bytes s (SL [SA src; SA dst; SA num; href; SA 0; SA 0; SA 0]) = Some b0 /\
    forall k, ~ in_range k idmap_flags_at -> nth k b 0 = nth k b0 0.
Proof.
  cbn [idmap_bytes]. destruct (handle_ref s href) as [h|]; [|discriminate]. cbn [option_bind].
  intros H; apply wr_Some_inj in H; subst b. rewrite !truthy_bit. fold (idmap_flags_ref ats pri rciep).
  split; [unfold d4; rewrite !app_length, !length_le; reflexivity|].
  assert (Hs : idmap_flags_ref ats pri rciep < 2 ^ (8 * N.of_nat 4)).
  { unfold idmap_flags_ref. apply (lor_lt _ _ 32); [apply (lor_lt _ _ 32)|];
      pose proof (sp_bit_le ats 1); pose proof (sp_bit_le pri 2); pose proof (sp_bit_le rciep 4); lia. }
  rewrite !(app_assoc (d4 src)), !(app_assoc (d4 src ++ d4 dst)), !(app_assoc ((d4 src ++ d4 dst) ++ d4 num)).
  rewrite <- (app_nil_r (d4 (idmap_flags_ref ats pri rciep))).
  destruct (mid_flag_bytes (((d4 src ++ d4 dst) ++ d4 num) ++ d4 (cast U32 h)) 4 (idmap_flags_ref ats pri rciep) 0 [] 16
              ltac:(unfold d4; rewrite !app_length, !length_le; reflexivity) Hs) as [Hf Hfr].
  split; [exact Hf|]. exists ((((d4 src ++ d4 dst) ++ d4 num) ++ d4 (cast U32 h)) ++ le 4 0 ++ []).
  split; [rewrite app_nil_r, <- !app_assoc; reflexivity|]. intros k Hk. apply Hfr. exact Hk.
Qed.

(* ---------- IOMMU device ---------- *)
Lemma rimt_pci_given x p : rimt_pci x = Some p -> (match p with Some _ => true | None => false end) = opt_given x.
Proof. unfold rimt_pci. intros H. dmatch_in H; try (destruct (pci_ok _ _); [cbn [option_bind] in H|discriminate H]); inversion H; reflexivity. Qed.
Lemma opt_num_given x p : opt_num x = Some p -> (match p with Some _ => true | None => false end) = opt_given x.
Proof. unfold opt_num. intros H. dmatch_in H; inversion H; reflexivity. Qed.

Definition iommu_pre (id : N) (base : option N) (n : N) : list N :=
  b1 0 ++ b1 1 ++ w2 (iommu_len n) ++ w2 id ++ w2 0 ++ q8 (match base with Some b => b | None => 0 end).

(* flags = the two "supplied" bits; a value field that was not supplied is zero; nothing else depends on the two options *)
Theorem rimt_iommu_options s id base pci prox wires e :
  rimt_addition s (SL [SA 1; SA id; base; pci; prox; wires]) = Some e ->
  field_at (a_bytes e) 16 4 = iommu_flags_ref pci prox /\
  (N.testbit (field_at (a_bytes e) 16 4) 0 = opt_given pci) /\
  (N.testbit (field_at (a_bytes e) 16 4) 1 = opt_given prox) /\
  (opt_given pci = false -> field_at (a_bytes e) 20 2 = 0 /\ field_at (a_bytes e) 22 2 = 0) /\
  (opt_given prox = false -> field_at (a_bytes e) 24 4 = 0) /\
  exists e0, rimt_addition s (SL [SA 1; SA id; base; SL []; SL []; wires]) = Some e0 /\
    length (a_bytes e) = length (a_bytes e0) /\
    forall k, ~ in_ranges k (iommu_flags_at :: iommu_prox_at :: iommu_pci_at) -> nth k (a_bytes e) 0 = nth k (a_bytes e0) 0.
Proof.
  cbn [rimt_addition].
  destruct (opt_num base) as [b|]; [|discriminate]. cbn [option_bind].
  destruct (rimt_pci pci) as [p|] eqn:Ep; [|discriminate]. cbn [option_bind].
  destruct (opt_num prox) as [px|] eqn:Ex; [|discriminate]. cbn [option_bind].
  destruct (rimt_wires wires) as [ws|]; [|discriminate]. cbn [option_bind].
  destruct (assert _) eqn:Ea; [|discriminate]. cbn [option_bind].
  intros H; apply wr_Some_inj in H; subst e. cbn [a_bytes].
  pose proof (rimt_pci_given _ _ Ep) as Gp. pose proof (opt_num_given _ _ Ex) as Gx.
  set (n := N.of_nat (length ws)).
  assert (Hshape : forall p px, iommu_bytes id b p px ws =
     iommu_pre id b n ++ le 4 (N.lor (match p with Some _ => 1 | None => 0 end) (match px with Some _ => 2 | None => 0 end)) ++
     (w2 (match p with Some q => fst q | None => 0 end) ++ w2 (match p with Some q => snd q | None => 0 end) ++
      d4 (match px with Some q => q | None => 0 end) ++ w2 n ++ w2 32 ++ concat ws)).
  { intros p' px'. unfold iommu_bytes, iommu_pre. fold n. rewrite <- !app_assoc. reflexivity. }
  assert (Hpre : length (iommu_pre id b n) = 16%nat) by (unfold iommu_pre, b1, w2, q8; rewrite !app_length, !length_le; reflexivity).
  assert (Hfl : N.lor (match p with Some _ => 1 | None => 0 end) (match px with Some _ => 2 | None => 0 end) = iommu_flags_ref pci prox).
  { unfold iommu_flags_ref. rewrite <- Gp, <- Gx. destruct p, px; reflexivity. }
  assert (Hfield : field_at (iommu_bytes id b p px ws) 16 4 = iommu_flags_ref pci prox).
  { rewrite Hshape, Hfl. apply field_at_mid_small; [exact Hpre|]. unfold iommu_flags_ref. destruct (opt_given pci), (opt_given prox); reflexivity. }
  split; [exact Hfield|]. rewrite Hfield.
  split; [unfold iommu_flags_ref; destruct (opt_given pci), (opt_given prox); reflexivity|].
  split; [unfold iommu_flags_ref; destruct (opt_given pci), (opt_given prox); reflexivity|].
  assert (Hat : forall off w v post, field_at (iommu_pre id b n ++ le 4 (iommu_flags_ref pci prox) ++ post) (20 + off) w = v ->
                                     field_at (iommu_bytes id b p px ws) (20 + off) w = v ->  True) by auto.
  clear Hat.
  split; [|split].
  - intros Hn. rewrite Hn in Gp. destruct p; [discriminate|]. rewrite Hshape.
    rewrite (app_assoc (iommu_pre id b n)).
    assert (Hl20 : length (iommu_pre id b n ++ le 4 (N.lor 0 match px with Some _ => 2 | None => 0 end)) = 20%nat)
      by (rewrite app_length, length_le, Hpre; reflexivity).
    split.
    + rewrite (field_at_skip _ _ 20 2 Hl20). apply field_at_le_app.
    + rewrite (app_assoc _ (w2 0)). rewrite (field_at_skip _ _ 22 2) by (rewrite app_length, Hl20; reflexivity). apply field_at_le_app.
  - intros Hn. rewrite Hn in Gx. destruct px; [discriminate|]. rewrite Hshape.
    rewrite (app_assoc (iommu_pre id b n)), (app_assoc _ (w2 _)), (app_assoc _ (w2 _)).
    rewrite (field_at_skip _ _ 24 4) by (unfold w2; rewrite !app_length, !length_le, Hpre; reflexivity). apply field_at_le_app.
  - cbn [opt_num rimt_pci option_bind]. try rewrite Ea. cbn [option_bind]. eexists. split; [reflexivity|]. cbn [a_bytes].
    rewrite !Hshape. split; [unfold w2, d4; rewrite !app_length, !length_le; reflexivity|].
    intros k Hk.
    (* byte by byte: prefix, flags, pci fields, proximity domain, rest *)
    assert (Hk16 : ~ (16 <= k < 28)%nat).
    { intros Hr. apply Hk. unfold in_ranges, in_range, iommu_flags_at, iommu_prox_at, iommu_pci_at, rng.
      destruct (Nat.ltb_spec k 20); [exists (16, 4)%nat; cbn; split; [auto|lia]|].
      destruct (Nat.ltb_spec k 22); [exists (20, 2)%nat; cbn; split; [auto|lia]|].
      destruct (Nat.ltb_spec k 24); [exists (22, 2)%nat; cbn; split; [auto|lia]|].
      exists (24, 4)%nat; cbn; split; [auto|lia]. }
    destruct (Nat.ltb_spec k 16) as [Hlt|Hge].
    + rewrite !app_nth1 by (rewrite Hpre; exact Hlt). reflexivity.
    + rewrite !(app_nth2 (iommu_pre id b n)) by (rewrite Hpre; exact Hge). rewrite Hpre.
      set (A := w2 n ++ w2 32 ++ concat ws).
      rewrite !(app_assoc (le 4 _)), !(app_assoc (le 4 _ ++ w2 _)), !(app_assoc ((le 4 _ ++ w2 _) ++ w2 _)).
      rewrite !(app_nth2 _ A) by (unfold w2, d4; rewrite !app_length, !length_le; lia).
      unfold w2, d4. rewrite !app_length, !length_le. reflexivity.
Qed.

(* ---------- PCIe root complex ---------- *)
Theorem rimt_pcierc_options s id seg ats pri maps e :
  rimt_addition s (SL [SA 2; SA id; SA seg; SA ats; SA pri; maps]) = Some e ->
  field_at (a_bytes e) 8 4 = pcierc_flags_ref ats pri /\
  exists e0, rimt_addition s (SL [SA 2; SA id; SA seg; SA 0; SA 0; maps]) = Some e0 /\
    length (a_bytes e) = length (a_bytes e0) /\
    forall k, ~ in_range k pcierc_flags_at -> nth k (a_bytes e) 0 = nth k (a_bytes e0) 0.
Proof.
  cbn [rimt_addition]. destruct (rimt_maps s maps) as [ms|]; [|discriminate]. cbn [option_bind].
  destruct (assert _) eqn:Ea; [|discriminate]. cbn [option_bind].
  intros H; apply wr_Some_inj in H; subst e. cbn [a_bytes].
  set (n := N.of_nat (length ms)).
  assert (Hshape : forall a p, pcierc_bytes id seg a p ms =
     (b1 1 ++ b1 1 ++ w2 (pcierc_len n) ++ w2 id ++ w2 seg) ++ le 4 (N.lor (if a then 1 else 0) (if p then 2 else 0)) ++
     (w2 16 ++ w2 n ++ concat ms)).
  { intros a p. unfold pcierc_bytes. fold n. rewrite <- !app_assoc. reflexivity. }
  rewrite !Hshape, !truthy_bit. fold (pcierc_flags_ref ats pri).
  assert (Hs : pcierc_flags_ref ats pri < 2 ^ (8 * N.of_nat 4)).
  { unfold pcierc_flags_ref. apply (lor_lt _ _ 32); pose proof (sp_bit_le ats 1); pose proof (sp_bit_le pri 2); lia. }
  destruct (mid_flag_bytes (b1 1 ++ b1 1 ++ w2 (pcierc_len n) ++ w2 id ++ w2 seg) 4 (pcierc_flags_ref ats pri) 0 (w2 16 ++ w2 n ++ concat ms) 8
              ltac:(unfold b1, w2; rewrite !app_length, !length_le; reflexivity) Hs) as [Hf Hfr].
  split; [exact Hf|]. eexists. split; [reflexivity|]. cbn [a_bytes].
  change (N.lor (sp_bit 0 1) (sp_bit 0 2)) with 0.
  split; [rewrite !app_length, !length_le; reflexivity|exact Hfr].
Qed.

(* ---------- the flags of the i-th embedded element (interrupt wire / ID mapping) inside the emitted device ---------- *)
Lemma field_at_concat_elt w (es : list (list N)) : Forall (fun x => length x = w) es ->
  forall i off k pre post, (i < length es)%nat -> (off + k <= w)%nat ->
  field_at (pre ++ concat es ++ post) (length pre + w * i + off) k = field_at (nth i es []) off k.
Proof.
  intros HF. induction HF as [|x es Hx _ IH]; intros i off k pre post Hi Hoff; cbn [length] in Hi; [lia|].
  destruct i as [|i].
  - cbn [concat nth]. rewrite <- app_assoc. replace (length pre + w * 0 + off)%nat with (length pre + off)%nat by lia.
    rewrite field_at_app_r. apply field_at_app_l. lia.
  - cbn [concat nth]. rewrite <- app_assoc, (app_assoc pre x).
    replace (length pre + w * S i + off)%nat with (length (pre ++ x) + w * i + off)%nat by (rewrite app_length; lia).
    apply IH; lia.
Qed.

Lemma field_at_concat_elt0 w (es : list (list N)) : Forall (fun x => length x = w) es ->
  forall i off k pre n, length pre = n -> (i < length es)%nat -> (off + k <= w)%nat ->
  field_at (pre ++ concat es) (n + w * i + off) k = field_at (nth i es []) off k.
Proof.
  intros HF i off k pre n <- Hi Ho. rewrite <- (app_nil_r (concat es)). now apply field_at_concat_elt.
Qed.

Lemma sx_list_all_nth {A} (f : sx -> option A) : forall l es, sx_list_all f l = Some es ->
  length es = length l /\ forall i d d', (i < length l)%nat -> f (nth i l d) = Some (nth i es d').
Proof.
  induction l as [|x l IH]; intros es H; cbn [sx_list_all] in H.
  - inversion H; subst. split; [reflexivity|]. intros i d d' Hi. cbn in Hi. lia.
  - destruct (f x) as [a|] eqn:Ef; [|discriminate]. destruct (sx_list_all f l) as [r|] eqn:Er; [|discriminate].
    inversion H; subst es; clear H. destruct (IH r eq_refl) as [Hl Hn]. split; [cbn [length]; now rewrite Hl|].
    intros [|i] d d' Hi; cbn [nth]; [exact Ef|]. apply Hn. cbn [length] in Hi. lia.
Qed.

(* the i-th interrupt wire of an IOMMU device sits at 32 + 8 i; its flags word is the reference of its two booleans *)
Theorem rimt_iommu_wire_flags s id base pci prox ws e i num lvl pol aplic :
  rimt_addition s (SL [SA 1; SA id; base; pci; prox; SL [SL ws]]) = Some e ->
  nth_error ws i = Some (SL [SA num; SA lvl; SA pol; SA aplic]) ->
  field_at (a_bytes e) (32 + 8 * i + 4) 2 = wire_flags_ref lvl pol.
Proof.
  cbn [rimt_addition rimt_wires].
  destruct (opt_num base) as [b|]; [|discriminate]. cbn [option_bind].
  destruct (rimt_pci pci) as [p|]; [|discriminate]. cbn [option_bind].
  destruct (opt_num prox) as [px|]; [|discriminate]. cbn [option_bind].
  destruct (sx_list_all wire_bytes ws) as [wbs|] eqn:Ew; [|discriminate]. cbn [option_bind].
  destruct (assert _); [|discriminate]. cbn [option_bind].
  intros H Hi; apply wr_Some_inj in H; subst e. cbn [a_bytes].
  destruct (sx_list_all_nth wire_bytes ws wbs Ew) as [Hlen Hnth].
  assert (Hil : (i < length ws)%nat) by (apply nth_error_Some; congruence).
  specialize (Hnth i (SA 0) [] Hil). rewrite (nth_error_nth ws i (SA 0) Hi) in Hnth.
  destruct (rimt_wire_flags _ _ _ _ _ Hnth) as (_ & Hf & _).
  assert (HF : Forall (fun x => length x = 8%nat) wbs).
  { apply (sx_list_all_Forall wire_bytes (fun x => length x = 8%nat) wire_bytes_length _ _ Ew). }
  unfold iommu_bytes. rewrite !app_assoc, <- Hf.
  apply (field_at_concat_elt0 8 wbs HF i 4 2); [|rewrite Hlen; exact Hil|lia].
  unfold b1, w2, d4, q8. rewrite !app_length, !length_le. reflexivity.
Qed.

(* the i-th ID mapping of a PCIe root complex sits at 16 + 20 i; its flags dword is the reference of its three booleans *)
Theorem rimt_pcierc_idmap_flags s id seg ats pri ms e i src dst num href a p r :
  rimt_addition s (SL [SA 2; SA id; SA seg; SA ats; SA pri; SL [SL ms]]) = Some e ->
  nth_error ms i = Some (SL [SA src; SA dst; SA num; href; SA a; SA p; SA r]) ->
  field_at (a_bytes e) (16 + 20 * i + 16) 4 = idmap_flags_ref a p r.
Proof.
  cbn [rimt_addition rimt_maps].
  destruct (sx_list_all (idmap_bytes s) ms) as [mbs|] eqn:Em; [|discriminate]. cbn [option_bind].
  destruct (assert _); [|discriminate]. cbn [option_bind].
  intros H Hi; apply wr_Some_inj in H; subst e. cbn [a_bytes].
  destruct (sx_list_all_nth (idmap_bytes s) ms mbs Em) as [Hlen Hnth].
  assert (Hil : (i < length ms)%nat) by (apply nth_error_Some; congruence).
  specialize (Hnth i (SA 0) [] Hil). rewrite (nth_error_nth ms i (SA 0) Hi) in Hnth.
  destruct (rimt_idmap_flags _ _ _ _ _ _ _ _ _ Hnth) as (_ & Hf & _).
  assert (HF : Forall (fun x => length x = 20%nat) mbs).
  { apply (sx_list_all_Forall (idmap_bytes s) (fun x => length x = 20%nat) (idmap_bytes_length s) _ _ Em). }
  unfold pcierc_bytes. rewrite !app_assoc, <- Hf.
  apply (field_at_concat_elt0 20 mbs HF i 16 4); [|rewrite Hlen; exact Hil|lia].
  unfold b1, w2, d4. rewrite !app_length, !length_le. reflexivity.
Qed.

(* the i-th ID mapping of a platform device sits after the NUL-terminated name, at 12 + |name| + 1 + 20 i *)
Theorem rimt_platform_idmap_flags s id name nm ms e i src dst num href a p r :
  rimt_addition s (SL [SA 3; SA id; name; SL [SL ms]]) = Some e -> sx_bytes name = Some nm ->
  nth_error ms i = Some (SL [SA src; SA dst; SA num; href; SA a; SA p; SA r]) ->
  field_at (a_bytes e) (12 + length nm + 1 + 20 * i + 16) 4 = idmap_flags_ref a p r.
Proof.
  cbn [rimt_addition rimt_maps]. intros H Hname. rewrite Hname in H. cbn [option_bind] in H. revert H.
  destruct (sx_list_all (idmap_bytes s) ms) as [mbs|] eqn:Em; [|discriminate]. cbn [option_bind].
  destruct (assert _); [|discriminate]. cbn [option_bind].
  intros H Hi; apply wr_Some_inj in H; subst e. cbn [a_bytes].
  destruct (sx_list_all_nth (idmap_bytes s) ms mbs Em) as [Hlen Hnth].
  assert (Hil : (i < length ms)%nat) by (apply nth_error_Some; congruence).
  specialize (Hnth i (SA 0) [] Hil). rewrite (nth_error_nth ms i (SA 0) Hi) in Hnth.
  destruct (rimt_idmap_flags _ _ _ _ _ _ _ _ _ Hnth) as (_ & Hf & _).
  assert (HF : Forall (fun x => length x = 20%nat) mbs).
  { apply (sx_list_all_Forall (idmap_bytes s) (fun x => length x = 20%nat) (idmap_bytes_length s) _ _ Em). }
  unfold platform_bytes. rewrite !app_assoc, <- Hf.
  apply (field_at_concat_elt0 20 mbs HF i 16 4); [|rewrite Hlen; exact Hil|lia].
  unfold b1 at 1 2 4, w2. rewrite !app_length, !length_le. change b1 with (le 1). rewrite length_concat_map_le. lia.
Qed.

(* distinctness: in each of the four flag words the options own different single bits *)
Lemma rimt_options_distinct : forallb distinct_single_bits rimt_option_tables = true /\
  map (fun x => wire_flags_ref (fst x) (snd x)) [(0, 0); (1, 0); (0, 1); (1, 1)] = [0; 1; 2; 3] /\
  map (fun x => idmap_flags_ref (fst (fst x)) (snd (fst x)) (snd x))
      [(0, 0, 0); (1, 0, 0); (0, 1, 0); (1, 1, 0); (0, 0, 1); (1, 0, 1); (0, 1, 1); (1, 1, 1)] = [0; 1; 2; 3; 4; 5; 6; 7].
Proof. repeat split; reflexivity. Qed.
