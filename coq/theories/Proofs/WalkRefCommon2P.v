(* C03 on the REFERENCE images, generic part: if the body of an image (from the table's first-entry offset) is a concatenation
   of entries that describe themselves under the table's entry-header format, the entries are the ones [ts_entries] lists and
   the count fields hold, then the run-time judgement [c03_judge] of Spec/Layout.v is true.  Plus the facts about [ref_table],
   [field_at], [lay] / [lay_then] needed to establish those premises for a concrete table Spec. *)
From Coq Require Import NArith ZArith List Lia Bool Arith.
From ACPI Require Import Lib.Bytes Lib.Sx Spec.Layout Spec.HmatS Spec.RimtS Proofs.WalkP.
Import ListNotations.

Ltac Zify.zify_post_hook ::= Z.to_euclidean_division_equations.

Open Scope N_scope.

Lemma wr_Some_inj {A} (x y : A) : Some x = Some y -> x = y.
Proof. congruence. Qed.

(* ---------- the walk result against the expected (type, length) list ---------- *)

Lemma concat_length_ge h (es : list (list N)) tys :
  Forall2 (self_describing h) es tys -> (length es <= length (concat es))%nat.
Proof.
  induction 1 as [|e t es tys [Hpos _] _ IH]; cbn [concat length]; [lia|]. rewrite app_length. lia.
Qed.

Lemma walk_result_matches off es tys : length es = length tys ->
  forallb (fun p : (N * nat * nat) * (N * nat) =>
             match p with ((ty, _, len), (ety, elen)) => (ty =? ety) && Nat.eqb len elen end)
          (combine (walk_result off es tys) (map (fun p : N * list N => (fst p, length (snd p))) (combine tys es))) = true.
Proof.
  revert off tys. induction es as [|e es IH]; intros off [|t tys] H; cbn [length] in H; try lia; try reflexivity.
  cbn [walk_result combine map forallb fst snd]. rewrite N.eqb_refl, Nat.eqb_refl. cbn [andb]. apply IH. lia.
Qed.

Lemma Forall2_length_eq {A B} (R : A -> B -> Prop) l1 l2 : Forall2 R l1 l2 -> length l1 = length l2.
Proof. induction 1; cbn [length]; congruence. Qed.

(* the generic reduction of the run-time judgement to its premises *)
Lemma c03_judge_of_entries ts ctor ops r first h expected es tys :
  ts_walk ts = Some (first, h) -> ts_entries ts ctor ops = Some expected ->
  skipn first r = concat es -> Forall2 (self_describing h) es tys ->
  expected = map (fun p : N * list N => (fst p, length (snd p))) (combine tys es) ->
  forallb (fun f : nat * nat * N => match f with (o, w, v) => field_at r o w =? v end) (ts_counts ts (length expected)) = true ->
  c03_judge ts ctor r ops = true.
Proof.
  intros Hw He Hsk HF Hexp Hcnt. unfold c03_judge. rewrite Hw, He, Hsk.
  pose proof (Forall2_length_eq _ _ _ HF) as Hlen.
  assert (Hfuel : (length es <= S (length r))%nat).
  { pose proof (concat_length_ge _ _ _ HF) as H1. rewrite <- Hsk, skipn_length in H1. lia. }
  rewrite (walk_concat h es tys first (S (length r)) HF Hfuel).
  rewrite Hcnt, andb_true_r.
  assert (Hel : length expected = length es).
  { rewrite Hexp, map_length, combine_length. lia. }
  rewrite walk_result_length by exact Hlen. rewrite Hel, Nat.eqb_refl. cbn [andb].
  rewrite Hexp. apply walk_result_matches. exact Hlen.
Qed.

(* the same when the type code of an entry is a function of its bytes (the form every [ts_entries] has) *)
Lemma Forall_Forall2_map {A B} (R : A -> B -> Prop) (f : A -> B) l :
  Forall (fun x => R x (f x)) l -> Forall2 R l (map f l).
Proof. induction 1; cbn [map]; constructor; assumption. Qed.

Lemma combine_map_self {A B} (f : A -> B) (g : B * A -> B * nat) (g' : A -> B * nat) l :
  (forall x, g (f x, x) = g' x) -> map g (combine (map f l) l) = map g' l.
Proof. intros H. induction l as [|x l IH]; cbn [map combine]; [reflexivity|]. rewrite H, IH. reflexivity. Qed.

Lemma c03_judge_of_tyf ts ctor ops r first h (tyf : list N -> N) es :
  ts_walk ts = Some (first, h) ->
  ts_entries ts ctor ops = Some (map (fun e => (tyf e, length e)) es) ->
  skipn first r = concat es ->
  Forall (fun e => self_describing h e (tyf e)) es ->
  forallb (fun f : nat * nat * N => match f with (o, w, v) => field_at r o w =? v end) (ts_counts ts (length es)) = true ->
  c03_judge ts ctor r ops = true.
Proof.
  intros Hw He Hsk HF Hcnt.
  apply (c03_judge_of_entries ts ctor ops r first h _ es (map tyf es) Hw He Hsk).
  - apply Forall_Forall2_map. exact HF.
  - symmetry. apply combine_map_self. reflexivity.
  - rewrite map_length. exact Hcnt.
Qed.

(* ---------- what the walk finds, as a list (for the handle statements) ---------- *)
Lemma walk_of_entries r first h (tyf : list N -> N) es :
  skipn first r = concat es -> Forall (fun e => self_describing h e (tyf e)) es ->
  walk (S (length r)) h first (skipn first r) = Some (walk_result first es (map tyf es)).
Proof.
  intros Hsk HF. pose proof (Forall_Forall2_map _ tyf _ HF) as HF2. rewrite Hsk.
  apply walk_concat; [exact HF2|].
  pose proof (concat_length_ge _ _ _ HF2) as H1. rewrite <- Hsk, skipn_length in H1. lia.
Qed.

(* the k-th walked entry starts at first + the sizes of the entries before it *)
Lemma walk_result_nth off es tys : forall k e t,
  nth_error es k = Some e -> nth_error tys k = Some t ->
  nth_error (walk_result off es tys) k = Some (t, (off + length (concat (firstn k es)))%nat, length e).
Proof.
  revert off tys. induction es as [|e0 es IH]; intros off tys k e t He Ht; [destruct k; discriminate He|].
  destruct tys as [|t0 tys]; [destruct k; discriminate Ht|].
  destruct k as [|k]; cbn [nth_error] in He, Ht.
  - apply wr_Some_inj in He. apply wr_Some_inj in Ht. subst. cbn [walk_result nth_error firstn concat length].
    rewrite Nat.add_0_r. reflexivity.
  - cbn [walk_result nth_error firstn concat]. rewrite (IH (length e0 + off)%nat tys k e t He Ht).
    rewrite app_length. do 2 f_equal. f_equal. lia.
Qed.

(* ---------- self-describing entries from their decoded header fields ---------- *)

Lemma sd_u16_u16_of_fields e : (4 <= length e)%nat -> field_at e 2 2 = N.of_nat (length e) ->
  self_describing H_u16_u16 e (unle (firstn 2 e)).
Proof.
  intros Hlen Hf. destruct e as [|a [|b [|c [|d e']]]]; cbn [length] in Hlen; try lia.
  split; [cbn [length]; lia|]. intros rest. cbn [app read_ehdr firstn].
  unfold field_at in Hf. cbn [skipn firstn] in Hf. rewrite Hf, Nat2N.id. reflexivity.
Qed.

Lemma sd_u8_x_u16_of_fields e : (4 <= length e)%nat -> field_at e 2 2 = N.of_nat (length e) ->
  self_describing H_u8_x_u16 e (nth 0 e 0).
Proof.
  intros Hlen Hf. destruct e as [|a [|b [|c [|d e']]]]; cbn [length] in Hlen; try lia.
  split; [cbn [length]; lia|]. intros rest. cbn [app read_ehdr nth].
  unfold field_at in Hf. cbn [skipn firstn] in Hf. rewrite Hf, Nat2N.id. reflexivity.
Qed.

(* ---------- field_at on concatenations ---------- *)

Lemma field_at_app_l a b o w : (o + w <= length a)%nat -> field_at (a ++ b) o w = field_at a o w.
Proof.
  intros H. unfold field_at. rewrite skipn_app. replace (o - length a)%nat with 0%nat by lia. cbn [skipn].
  rewrite firstn_app. rewrite skipn_length. replace (w - (length a - o))%nat with 0%nat by lia. cbn [firstn].
  now rewrite app_nil_r.
Qed.

Lemma field_at_app_r a b o w : field_at (a ++ b) (length a + o) w = field_at b o w.
Proof.
  unfold field_at. rewrite skipn_app. rewrite skipn_all2 by lia. replace (length a + o - length a)%nat with o by lia.
  reflexivity.
Qed.

Lemma field_at_skip a b n w : length a = n -> field_at (a ++ b) n w = field_at b 0 w.
Proof. intros <-. rewrite <- (Nat.add_0_r (length a)) at 1. apply field_at_app_r. Qed.

Lemma field_at_le_app w v rest : field_at (le w v ++ rest) 0 w = v mod 2 ^ (8 * N.of_nat w).
Proof. unfold field_at. cbn [skipn]. rewrite firstn_le_app. apply unle_le. Qed.

(* a fixed part followed by something: the fields of the fixed part decode as assembled *)
Lemma lay_then_decodes size l rest img : lay_then size l rest = Some img ->
  length img = (size + length rest)%nat /\
  forall o w v, In (o, w, v) l -> (o + w <= size)%nat -> field_at img o w = v mod 2 ^ (8 * N.of_nat w).
Proof.
  unfold lay_then. destruct (lay size l) as [fixed|] eqn:E; [|discriminate]. intros H. apply wr_Some_inj in H. subst img.
  destruct (lay_decodes size l fixed E) as [Hlen Hf]. split; [rewrite app_length, Hlen; reflexivity|].
  intros o w v Hin Hfit. rewrite field_at_app_l by lia. apply Hf. exact Hin.
Qed.

Lemma option_map_app_decodes size l (rest : list N) img : option_map (fun h => h ++ rest) (lay size l) = Some img ->
  length img = (size + length rest)%nat /\
  forall o w v, In (o, w, v) l -> (o + w <= size)%nat -> field_at img o w = v mod 2 ^ (8 * N.of_nat w).
Proof. exact (lay_then_decodes size l rest img). Qed.

(* ---------- the reference table: where its body and its fixed-part fields are ---------- *)

Lemma ref_table_split sig rev ha rest : length sig = 4%nat -> length (ha_oem ha) = 6%nat -> length (ha_tbl ha) = 8%nat ->
  exists hd, length hd = 36%nat /\ ref_table sig rev ha rest = hd ++ rest.
Proof.
  intros H1 H2 H3. unfold ref_table. eexists. split; [|reflexivity].
  unfold ref_header. rewrite !app_length, !length_le, H1, H2, H3. reflexivity.
Qed.

(* the body: everything after the 36-byte header and the fixed part *)
Lemma skipn_ref_table sig rev ha fixed body first :
  length sig = 4%nat -> length (ha_oem ha) = 6%nat -> length (ha_tbl ha) = 8%nat ->
  first = (36 + length fixed)%nat ->
  skipn first (ref_table sig rev ha (fixed ++ body)) = body.
Proof.
  intros H1 H2 H3 ->. destruct (ref_table_split sig rev ha (fixed ++ body) H1 H2 H3) as (hd & Hl & ->).
  rewrite app_assoc. rewrite <- Hl, <- app_length. apply skipn_app_exact.
Qed.

(* a field of the fixed part *)
Lemma field_at_ref_table sig rev ha rest o w :
  length sig = 4%nat -> length (ha_oem ha) = 6%nat -> length (ha_tbl ha) = 8%nat ->
  field_at (ref_table sig rev ha rest) (36 + o) w = field_at rest o w.
Proof.
  intros H1 H2 H3. destruct (ref_table_split sig rev ha rest H1 H2 H3) as (hd & Hl & ->).
  rewrite <- Hl. apply field_at_app_r.
Qed.

Lemma length_ref_table' sig rev ha rest : length sig = 4%nat -> length (ha_oem ha) = 6%nat -> length (ha_tbl ha) = 8%nat ->
  length (ref_table sig rev ha rest) = (36 + length rest)%nat.
Proof.
  intros H1 H2 H3. destruct (ref_table_split sig rev ha rest H1 H2 H3) as (hd & Hl & ->). rewrite app_length, Hl. reflexivity.
Qed.

Lemma sx_hdr_args_len o t r ha : sx_hdr_args o t r = Some ha ->
  length (ha_oem ha) = 6%nat /\ length (ha_tbl ha) = 8%nat.
Proof.
  unfold sx_hdr_args.
  destruct (sx_bytes o) as [a|]; [|discriminate]. destruct (sx_bytes t) as [b|]; [|discriminate].
  destruct (sx_num r) as [c|]; [|discriminate].
  destruct (Nat.eqb_spec (length a) 6); [|discriminate]. destruct (Nat.eqb_spec (length b) 8); [|discriminate].
  cbn [andb]. intros H. apply wr_Some_inj in H. subst ha. split; assumption.
Qed.

(* entries of positive size: there are at most as many as bytes *)
Lemma concat_length_ge_pos (es : list (list N)) : Forall (fun e => (1 <= length e)%nat) es -> (length es <= length (concat es))%nat.
Proof. induction 1; cbn [concat length]; [lia|]. rewrite app_length. lia. Qed.

Lemma concat_length_const {A} n (l : list (list A)) : Forall (fun e => length e = n) l -> length (concat l) = (n * length l)%nat.
Proof. induction 1 as [|e l He _ IH]; cbn [concat length]; [lia|]. rewrite app_length, He, IH. lia. Qed.

(* ---------- Specs built with [sp_entries] / [sp_all] (Spec/RimtS.v: RIMT, VIOT, CEDT) ---------- *)

(* a property of every entry the entry function can produce holds of every entry of the list *)
Lemma sp_entries_forall (entry : nat -> sp_starts -> sx -> option (list N)) (P : list N -> Prop) :
  (forall n rs o e, entry n rs o = Some e -> P e) ->
  forall ops off n rs racc es, sp_entries entry ops off n rs racc = Some es -> Forall P racc -> Forall P es.
Proof.
  intros HP. induction ops as [|o ops IH]; intros off n rs racc es H HF; cbn [sp_entries] in H.
  - apply wr_Some_inj in H. subst es. rewrite frev_rev. apply Forall_rev. exact HF.
  - destruct (entry n rs o) as [e|] eqn:He; [|discriminate H].
    apply (IH _ _ _ _ _ H). constructor; [exact (HP _ _ _ _ He)|exact HF].
Qed.

Lemma sp_all_forall {A} (f : sx -> option A) (P : A -> Prop) : (forall x a, f x = Some a -> P a) ->
  forall l racc r, sp_all f l racc = Some r -> Forall P racc -> Forall P r.
Proof.
  intros HP. induction l as [|x l IH]; intros racc r H HF; cbn [sp_all] in H.
  - apply wr_Some_inj in H. subst r. rewrite frev_rev. apply Forall_rev. exact HF.
  - destruct (f x) as [a|] eqn:Ea; [|discriminate H]. apply (IH _ _ H). constructor; [exact (HP _ _ Ea)|exact HF].
Qed.

(* ---------- handles (C05 on the reference image): the Spec's bookkeeping of entry starts against the walk ---------- *)

(* (type code, start offset) of each entry of a body that begins at [off] *)
Fixpoint starts_of (tyf : list N -> N) (off : N) (es : list (list N)) : list (N * N) :=
  match es with
  | [] => []
  | e :: r => (tyf e, off) :: starts_of tyf (off + N.of_nat (length e)) r
  end.

Lemma starts_of_app tyf off a b :
  starts_of tyf off (a ++ b) = starts_of tyf off a ++ starts_of tyf (off + N.of_nat (length (concat a))) b.
Proof.
  revert off. induction a as [|e a IH]; intros off; cbn [app starts_of concat length].
  - rewrite N.add_0_r. reflexivity.
  - rewrite IH, app_length. do 3 f_equal. lia.
Qed.

Lemma length_starts_of tyf off es : length (starts_of tyf off es) = length es.
Proof. revert off. induction es as [|e es IH]; intros off; cbn [starts_of length]; [reflexivity|]. now rewrite IH. Qed.

(* the walk finds exactly those starts *)
Lemma starts_of_walk_result tyf off es :
  map (fun x : N * nat * nat => match x with (t, o, _) => (t, N.of_nat o) end) (walk_result off es (map tyf es))
  = starts_of tyf (N.of_nat off) es.
Proof.
  revert off. induction es as [|e es IH]; intros off; cbn [map walk_result starts_of]; [reflexivity|].
  rewrite IH. do 2 f_equal. lia.
Qed.

Lemma nth_error_rev_lt' {A} (l : list A) k : (k < length l)%nat -> nth_error (rev l) k = nth_error l (length l - 1 - k).
Proof.
  induction l as [|x l IH]; intros H; cbn [length] in H; [lia|].
  cbn [rev length]. destruct (Nat.eq_dec k (length l)) as [->|Hne].
  - rewrite nth_error_app2 by (rewrite rev_length; lia). rewrite rev_length, Nat.sub_diag.
    replace (S (length l) - 1 - length l)%nat with 0%nat by lia. reflexivity.
  - rewrite nth_error_app1 by (rewrite rev_length; lia). rewrite IH by lia.
    replace (S (length l) - 1 - k)%nat with (S (length l - 1 - k)) by lia. reflexivity.
Qed.

(* a start recorded for the k-th entry of a prefix of the entries is where the walk over the whole body finds entry k *)
Lemma start_is_walked tyf first es1 tail k ty off :
  nth_error (starts_of tyf (N.of_nat first) es1) k = Some (ty, off) ->
  exists o len, nth_error (walk_result first (es1 ++ tail) (map tyf (es1 ++ tail))) k = Some (ty, o, len) /\ N.of_nat o = off.
Proof.
  intros H.
  assert (Hk : (k < length (starts_of tyf (N.of_nat first) es1))%nat) by (apply nth_error_Some; congruence).
  pose proof (starts_of_walk_result tyf first (es1 ++ tail)) as Hm.
  assert (Hn : nth_error (starts_of tyf (N.of_nat first) (es1 ++ tail)) k = Some (ty, off)).
  { rewrite starts_of_app, nth_error_app1 by exact Hk. exact H. }
  rewrite <- Hm, nth_error_map in Hn.
  destruct (nth_error (walk_result first (es1 ++ tail) (map tyf (es1 ++ tail))) k) as [[[t o] len]|]; [|discriminate Hn].
  cbn [option_map] in Hn. apply wr_Some_inj in Hn. exists o, len. split; congruence.
Qed.

(* and conversely the k-th walked entry is at the k-th recorded start *)
Lemma walked_is_start tyf first es k ty o len :
  nth_error (walk_result first es (map tyf es)) k = Some (ty, o, len) ->
  nth_error (starts_of tyf (N.of_nat first) es) k = Some (ty, N.of_nat o).
Proof. intros H. rewrite <- starts_of_walk_result, nth_error_map, H. reflexivity. Qed.

(* the run-time C05 judgement from the same premises *)
Lemma c05_handles_ok_of_starts ts r first h (tyf : list N -> N) es pending :
  ts_walk ts = Some (first, h) -> skipn first r = concat es ->
  Forall (fun e => self_describing h e (tyf e)) es ->
  (forall hk, In hk pending -> exists ty, nth_error (starts_of tyf (N.of_nat first) es) (snd hk) = Some (ty, fst hk)) ->
  c05_handles_ok ts r pending = true.
Proof.
  intros Hw Hsk HF Hp. unfold c05_handles_ok. destruct pending as [|x pending']; [reflexivity|].
  remember (x :: pending') as pending eqn:Epend. clear Epend x pending'.
  rewrite Hw, (walk_of_entries r first h tyf es Hsk HF).
  apply forallb_forall. intros hk Hin. destruct (Hp hk Hin) as [ty Hn].
  rewrite <- (app_nil_r es) in Hn |- *.
  rewrite (app_nil_r es) in Hn.
  destruct (start_is_walked tyf first es [] (snd hk) ty (fst hk) Hn) as (o & len & Hf & Ho).
  rewrite Hf. apply N.eqb_eq. exact Ho.
Qed.

(* ---------- handles of the Specs built with [sp_entries]: the bookkeeping [(n, rs)] against the walk ---------- *)

Definition sp_ty (e : list N) : N := nth 0 e 0.

(* the bookkeeping of [sp_entries] after a list of operations: number of entries and their (start, type), most recent
   first; this is the [(n, rs)] with which the NEXT operation's handle references (104 k) are looked up *)
Fixpoint sp_final (entry : nat -> sp_starts -> sx -> option (list N)) (ops : list sx) (off : N) (n : nat) (rs : sp_starts)
  : option (nat * sp_starts) :=
  match ops with
  | [] => Some (n, rs)
  | o :: r =>
      match entry n rs o with
      | Some e => sp_final entry r (off + N.of_nat (length e)) (S n) ((off, sp_ty e) :: rs)
      | None => None
      end
  end.

Definition swap_NN (x : N * N) : N * N := (snd x, fst x).

Definition sp_ok (first : N) (rs : sp_starts) (n : nat) (off : N) (es : list (list N)) : Prop :=
  rev rs = map swap_NN (starts_of sp_ty first es) /\ n = length rs /\ off = first + N.of_nat (length (concat es)).

Lemma sp_ok_step first rs n off racc e : sp_ok first rs n off (rev racc) ->
  sp_ok first ((off, sp_ty e) :: rs) (S n) (off + N.of_nat (length e)) (rev (e :: racc)).
Proof.
  intros (H1 & H2 & H3). unfold sp_ok. cbn [rev length]. split; [|split].
  - rewrite H1, starts_of_app, map_app. cbn [starts_of map swap_NN fst snd]. rewrite <- H3. reflexivity.
  - rewrite H2. reflexivity.
  - rewrite concat_app, app_length. cbn [concat]. rewrite app_nil_r. lia.
Qed.

Section SpHandles.
  Variable entry : nat -> sp_starts -> sx -> option (list N).

  Lemma sp_entries_prefix' ops : forall off n rs racc es,
    sp_entries entry ops off n rs racc = Some es -> exists tail, es = rev racc ++ tail.
  Proof.
    induction ops as [|o ops IH]; intros off n rs racc es H; cbn [sp_entries] in H.
    - apply wr_Some_inj in H. subst es. exists []. now rewrite frev_rev, app_nil_r.
    - destruct (entry n rs o) as [e|]; [|discriminate H].
      destruct (IH _ _ _ _ _ H) as [tail ->]. exists (e :: tail). cbn [rev]. now rewrite <- app_assoc.
  Qed.

  Lemma sp_entries_length ops : forall off n rs racc es,
    sp_entries entry ops off n rs racc = Some es -> length es = (length racc + length ops)%nat.
  Proof.
    induction ops as [|o ops IH]; intros off n rs racc es H; cbn [sp_entries] in H.
    - apply wr_Some_inj in H. subst es. rewrite frev_rev, rev_length. cbn [length]. lia.
    - destruct (entry n rs o) as [e|]; [|discriminate H]. rewrite (IH _ _ _ _ _ H). cbn [length]. lia.
  Qed.

  Lemma sp_final_split first pre : forall post off n rs racc es,
    sp_entries entry (pre ++ post) off n rs racc = Some es -> sp_ok first rs n off (rev racc) ->
    exists n' rs' off' es1 tail,
      sp_final entry pre off n rs = Some (n', rs') /\ sp_ok first rs' n' off' es1 /\ es = es1 ++ tail /\
      length es1 = (length racc + length pre)%nat /\ length es = (length racc + length (pre ++ post))%nat.
  Proof.
    induction pre as [|o pre IH]; intros post off n rs racc es H Hok.
    - cbn [app] in H. cbn [sp_final].
      pose proof (sp_entries_length _ _ _ _ _ _ H) as Hlen.
      destruct (sp_entries_prefix' _ _ _ _ _ _ H) as [tail ->].
      exists n, rs, off, (rev racc), tail. split; [reflexivity|]. split; [exact Hok|]. split; [reflexivity|].
      split; [rewrite rev_length; cbn [length]; lia|exact Hlen].
    - cbn [app sp_entries] in H. cbn [sp_final].
      destruct (entry n rs o) as [e|] eqn:He; [|discriminate H].
      destruct (IH post _ _ _ _ es H (sp_ok_step first rs n off racc e Hok))
        as (n' & rs' & off' & es1 & tail & Hp & Hok' & Hes & Hl1 & Hl).
      exists n', rs', off', es1, tail. split; [exact Hp|]. split; [exact Hok'|]. split; [exact Hes|].
      cbn [length app] in *. split; lia.
  Qed.

  Lemma sp_lookup_is_start first rs n off es k o ty : sp_ok first rs n off es ->
    sp_lookup n rs (SL [SA 104; SA k]) = Some (o, ty) -> nth_error (starts_of sp_ty first es) (N.to_nat k) = Some (ty, o).
  Proof.
    intros (H1 & H2 & _) H. cbn [sp_lookup] in H.
    destruct (Nat.ltb_spec (N.to_nat k) n) as [Hk|]; [|discriminate H].
    assert (Hr : nth_error (rev rs) (N.to_nat k) = Some (o, ty)).
    { rewrite nth_error_rev_lt' by lia. rewrite <- H2. exact H. }
    rewrite H1, nth_error_map in Hr.
    destruct (nth_error (starts_of sp_ty first es) (N.to_nat k)) as [[t o']|]; [|discriminate Hr].
    cbn [option_map] in Hr. unfold swap_NN in Hr. cbn [fst snd] in Hr. apply wr_Some_inj in Hr.
    injection Hr as -> ->. reflexivity.
  Qed.

  Lemma start_is_sp_lookup first rs n off es k o ty : sp_ok first rs n off es ->
    nth_error (starts_of sp_ty first es) k = Some (ty, o) -> sp_lookup n rs (SL [SA 104; SA (N.of_nat k)]) = Some (o, ty).
  Proof.
    intros (H1 & H2 & _) H.
    assert (Hk : (k < length rs)%nat).
    { rewrite <- rev_length, H1, map_length. apply nth_error_Some. congruence. }
    cbn [sp_lookup]. rewrite Nat2N.id. destruct (Nat.ltb_spec k n); [|lia].
    rewrite H2, <- nth_error_rev_lt' by exact Hk. rewrite H1, nth_error_map, H. reflexivity.
  Qed.

  Variable h : ehdr.
  Hypothesis entry_self : forall n rs o e, entry n rs o = Some e -> self_describing h e (sp_ty e).

  (* A handle reference looked up after any prefix [pre] of a history names, in any image whose body is the entries of the
     WHOLE history, the offset at which the walk finds the entry added by that operation, with the type recorded for it;
     conversely every entry added by [pre] is reachable through its handle. *)
  Lemma sp_reference_handles r first pre post es :
    sp_entries entry (pre ++ post) (N.of_nat first) 0 [] [] = Some es -> skipn first r = concat es ->
    exists n rs found,
      sp_final entry pre (N.of_nat first) 0 [] = Some (n, rs) /\ n = length pre /\
      walk (S (length r)) h first (skipn first r) = Some found /\
      length found = length (pre ++ post) /\
      (forall k o ty, sp_lookup n rs (SL [SA 104; SA k]) = Some (o, ty) ->
         exists off len, nth_error found (N.to_nat k) = Some (ty, off, len) /\ N.of_nat off = o) /\
      (forall k, (k < length pre)%nat ->
         exists ty off len, nth_error found k = Some (ty, off, len) /\
                            sp_lookup n rs (SL [SA 104; SA (N.of_nat k)]) = Some (N.of_nat off, ty)).
  Proof.
    intros Ees Hsk.
    assert (HF : Forall (fun e => self_describing h e (sp_ty e)) es).
    { apply (sp_entries_forall entry _ entry_self _ _ _ _ _ es Ees). constructor. }
    assert (Hok0 : sp_ok (N.of_nat first) [] 0 (N.of_nat first) (rev [])).
    { unfold sp_ok. cbn [rev starts_of map length concat]. repeat split. lia. }
    destruct (sp_final_split (N.of_nat first) pre post _ _ _ _ es Ees Hok0)
      as (n & rs & off & es1 & tail & Hp & Hok & Hes & Hl1 & Hl).
    cbn [length] in Hl1, Hl.
    exists n, rs, (walk_result first es (map sp_ty es)).
    split; [exact Hp|]. split.
    { destruct Hok as (H1 & H2 & _). rewrite H2, <- rev_length, H1, map_length, length_starts_of, Hl1. reflexivity. }
    split; [exact (walk_of_entries r first h sp_ty es Hsk HF)|].
    split; [rewrite walk_result_length by (now rewrite map_length); exact Hl|].
    split.
    - intros k o ty Hr. subst es.
      exact (start_is_walked sp_ty first es1 tail (N.to_nat k) ty o (sp_lookup_is_start _ _ _ _ _ k o ty Hok Hr)).
    - intros k Hk.
      assert (Hk1 : (k < length (starts_of sp_ty (N.of_nat first) es1))%nat) by (rewrite length_starts_of; lia).
      destruct (nth_error (starts_of sp_ty (N.of_nat first) es1) k) as [[ty o]|] eqn:En; [|apply nth_error_None in En; lia].
      subst es. destruct (start_is_walked sp_ty first es1 tail k ty o En) as (off' & len & Hf & Hoff).
      exists ty, off', len. split; [exact Hf|]. rewrite Hoff. exact (start_is_sp_lookup _ _ _ _ _ k o ty Hok En).
  Qed.

  (* in the form of the run-time judgement [c05_handles_ok] *)
  Lemma sp_reference_handles_ok ts r first ops es n rs pending :
    ts_walk ts = Some (first, h) ->
    sp_entries entry ops (N.of_nat first) 0 [] [] = Some es -> skipn first r = concat es ->
    sp_final entry ops (N.of_nat first) 0 [] = Some (n, rs) ->
    (forall hk, In hk pending -> exists ty, sp_lookup n rs (SL [SA 104; SA (N.of_nat (snd hk))]) = Some (fst hk, ty)) ->
    c05_handles_ok ts r pending = true.
  Proof.
    intros Hw Ees Hsk Hp Hpend.
    assert (HF : Forall (fun e => self_describing h e (sp_ty e)) es).
    { apply (sp_entries_forall entry _ entry_self _ _ _ _ _ es Ees). constructor. }
    assert (Hok0 : sp_ok (N.of_nat first) [] 0 (N.of_nat first) (rev [])).
    { unfold sp_ok. cbn [rev starts_of map length concat]. repeat split. lia. }
    pose proof Ees as Ees'. rewrite <- (app_nil_r ops) in Ees'.
    destruct (sp_final_split (N.of_nat first) ops [] _ _ _ _ es Ees' Hok0)
      as (n' & rs' & off & es1 & tail & Hp' & Hok & Hes & Hl1 & Hl).
    rewrite Hp in Hp'. apply wr_Some_inj in Hp'. injection Hp' as <- <-.
    assert (tail = []) as ->.
    { assert (Hlen : length es = length es1) by (rewrite app_nil_r in Hl; lia).
      rewrite Hes, app_length in Hlen. destruct tail; [reflexivity|cbn [length] in Hlen; lia]. }
    rewrite app_nil_r in Hes. subst es1.
    apply (c05_handles_ok_of_starts ts r first h sp_ty es pending Hw Hsk HF).
    intros hk Hin. destruct (Hpend hk Hin) as [ty Hr]. exists ty.
    pose proof (sp_lookup_is_start _ _ _ _ _ _ _ ty Hok Hr) as Hn. rewrite Nat2N.id in Hn. exact Hn.
  Qed.
End SpHandles.
