(* HMAT: the Impl model refines the Spec layer (C04 as a theorem; for the System Locality matrix this contains C12:
   cell (i, j), at row-major index i * (number of targets) + j, holds the last value assigned to it, 0xFFFF if none).
   For every constructor argument and every history inside the specification's domain, in both build profiles, the
   model accepts the history and its image is byte for byte the reference image. *)
From Coq Require Import NArith ZArith List Lia Bool Arith.
From ACPI Require Import Lib.Bytes Lib.Sx Lib.Machine Impl.Checksum Impl.Table Impl.Fields Impl.Run Impl.Madt Impl.Hmat
  Spec.Layout Spec.MadtS Spec.HmatS
  Proofs.ChecksumP Proofs.BitsP Proofs.TableP Proofs.MadtP Proofs.Tables Proofs.HmatP Proofs.RefCommonR2P.
Import ListNotations.

Ltac Zify.zify_post_hook ::= Z.to_euclidean_division_equations.

Open Scope N_scope.

(* ---------- Memory Proximity Domain Attributes ---------- *)
Lemma mem_prox_ref ipd mpd :
  hmat_entry_ref (SL [SA 1; SA ipd; SA mpd]) = Some (ser_flds (mem_prox ipd mpd)).
Proof. reflexivity. Qed.

(* ---------- Memory Side Cache Information ---------- *)
Lemma msc_attributes_ref total level assoc policy line :
  total < 4 -> level < 4 -> assoc < 3 -> policy < 3 -> line < 2 ^ 16 ->
  msc_attributes total level assoc policy line = total + 16 * level + 256 * assoc + 4096 * policy + 65536 * line.
Proof.
  intros H1 H2 H3 H4 H5. unfold msc_attributes, cast, U16. rewrite (N.mod_small line) by exact H5.
  rewrite !shiftl_mul.
  rewrite (lor_disjoint' total level 4) by (change (2 ^ 4) with 16; lia).
  rewrite (lor_disjoint' _ assoc 8) by (change (2 ^ 4) with 16; change (2 ^ 8) with 256; lia).
  rewrite (lor_disjoint' _ policy 12) by (change (2 ^ 4) with 16; change (2 ^ 8) with 256; change (2 ^ 12) with 4096; lia).
  rewrite (lor_disjoint' _ line 16)
    by (change (2 ^ 4) with 16; change (2 ^ 8) with 256; change (2 ^ 12) with 4096; change (2 ^ 16) with 65536; lia).
  change (2 ^ 4) with 16; change (2 ^ 8) with 256; change (2 ^ 12) with 4096; change (2 ^ 16) with 65536. lia.
Qed.

Lemma msc_bytes_ref pd size attrs handles : hm_len handles < 2 ^ 16 ->
  msc_bytes pd size attrs handles =
  lay_then 32 [L 0 2 2; L 2 2 0; L 4 4 (32 + 2 * hm_len handles); L 8 4 pd; L 12 4 0; L 16 8 size; L 24 4 attrs; L 28 2 0;
               L 30 2 (hm_len handles)] (arr 2 handles).
Proof.
  intros Hn. unfold msc_bytes, msc_len.
  assert (Hle : (hm_len handles <=? 65535) = true) by (apply N.leb_le; change (2 ^ 16) with 65536 in Hn; lia).
  rewrite Hle. cbn [assert option_bind].
  replace (32 + hm_len handles * 2) with (32 + 2 * hm_len handles) by lia.
  generalize (hm_len handles). intros n. reflexivity.
Qed.

Lemma msc_entry_ref md s pd size total level assoc policy line hs e :
  hmat_entry_ref (SL [SA 3; SA pd; SA size; SA total; SA level; SA assoc; SA policy; SA line; SL hs]) = Some e ->
  exists a, hmat_addition md s (SL [SA 3; SA pd; SA size; SA total; SA level; SA assoc; SA policy; SA line; SL hs]) = Some a /\
            a_bytes a = e.
Proof.
  intros H. cbn [hmat_entry_ref] in H. cbn [hmat_addition].
  destruct (sx_nums hs) as [handles|]; [|discriminate]. cbn [option_bind].
  match type of H with (if ?c then _ else _) = _ => destruct c eqn:Ec; [|discriminate] end.
  repeat (apply andb_true_iff in Ec; destruct Ec as [Ec ?]).
  repeat match goal with Hx : (_ <? _) = true |- _ => apply N.ltb_lt in Hx end.
  rewrite msc_attributes_ref by assumption.
  fold (hm_len handles) in *.
  rewrite msc_bytes_ref by assumption. rewrite H. cbn [option_bind].
  eexists. split; reflexivity.
Qed.

(* ---------- System Locality Latency and Bandwidth Information ---------- *)
Lemma nth_upd_N l idx v i : idx < hm_len l ->
  nth (N.to_nat i) (upd l (N.to_nat idx) v) 0 = if idx =? i then v else nth (N.to_nat i) l 0.
Proof.
  intros H. unfold hm_len in H. destruct (N.eqb_spec idx i) as [->|Hne].
  - apply nth_upd_same. lia.
  - apply nth_upd_other. intros E. apply N2Nat.inj in E. congruence.
Qed.

Definition flag_bits (bs : list sx) : N :=
  N.lor (if ever (is_op 2) bs then 16 else 0) (if ever (is_op 1) bs then 32 else 0).

Ltac break_match_goal :=
  repeat match goal with |- context [match ?x with _ => _ end] => is_var x; destruct x end.

Lemma last_slot_cons k i b bs acc : last_slot k i (b :: bs) acc = last_slot k i bs (last_slot k i [b] acc).
Proof. cbn [last_slot]. break_match_goal; reflexivity. Qed.

Lemma last_cell_cons i j b bs acc : last_cell i j (b :: bs) acc = last_cell i j bs (last_cell i j [b] acc).
Proof. cbn [last_cell]. break_match_goal; reflexivity. Qed.

Lemma flag_bits_cons b bs : flag_bits (b :: bs) = N.lor (flag_bits [b]) (flag_bits bs).
Proof.
  unfold flag_bits, ever. cbn [existsb]. rewrite !orb_false_r.
  destruct (is_op 2 b), (is_op 1 b), (existsb (is_op 2) bs), (existsb (is_op 1) bs); reflexivity.
Qed.

(* one builder call *)
Lemma sysloc_builder_step ni nt b sl :
  sl_builder_ok ni nt b = true -> nI sl = ni -> nT sl = nt -> shape_ok sl ->
  exists sl', sysloc_builder sl b = Some sl' /\
    nI sl' = ni /\ nT sl' = nt /\ shape_ok sl' /\
    sl_dt sl' = sl_dt sl /\ sl_mts sl' = sl_mts sl /\ sl_unit sl' = sl_unit sl /\
    sl_flags sl' = N.lor (sl_flags sl) (flag_bits [b]) /\
    (forall i, i < ni -> nth (N.to_nat i) (sl_inits sl') 0 = last_slot 3 i [b] (nth (N.to_nat i) (sl_inits sl) 0)) /\
    (forall j, j < nt -> nth (N.to_nat j) (sl_targets sl') 0 = last_slot 4 j [b] (nth (N.to_nat j) (sl_targets sl) 0)) /\
    (forall i j, i < ni -> j < nt -> cell sl' i j = last_cell i j [b] (cell sl i j)).
Proof.
  intros Hb HI HT Hs. unfold sl_builder_ok in Hb. break_sx Hb.
  - (* set_entry_value *)
    match goal with |- context [SL [SA 5; SA ?a; SA ?b; SA ?c]] => rename a into i0; rename b into j0; rename c into v0 end.
    apply andb_true_iff in Hb. destruct Hb as [Hb _]. apply andb_true_iff in Hb. destruct Hb as [Hi Hj].
    apply N.ltb_lt in Hi, Hj.
    destruct (set_entry_spec sl i0 j0 v0 Hs) as (s1 & E1 & Hs1 & HI1 & HT1 & Hf1 & Hin1 & Htg1 & Hc1); try congruence.
    exists s1. cbn [sysloc_builder]. split; [exact E1|].
    assert (Hd : sl_dt s1 = sl_dt sl /\ sl_mts s1 = sl_mts sl /\ sl_unit s1 = sl_unit sl).
    { unfold sysloc_set_entry in E1. destruct (assert _); [|discriminate]. cbn [option_bind] in E1.
      destruct (hm_vec_set _ _ _); [|discriminate]. cbn [option_bind] in E1. apply rc_Some_inj in E1. subst s1.
      repeat split. }
    destruct Hd as (Hd1 & Hd2 & Hd3).
    split; [congruence|]. split; [congruence|]. split; [exact Hs1|]. split; [exact Hd1|]. split; [exact Hd2|].
    split; [exact Hd3|]. split; [rewrite Hf1; unfold flag_bits; cbn; rewrite N.lor_0_r; reflexivity|].
    split; [intros i _; rewrite Hin1; reflexivity|]. split; [intros j _; rewrite Htg1; reflexivity|].
    intros i j Hi2 Hj2. cbn [last_cell]. rewrite Hc1 by congruence.
    rewrite (N.eqb_sym i0 i), (N.eqb_sym j0 j). reflexivity.
  - (* set_initiator_value *)
    match goal with |- context [SL [SA 3; SA ?a; SA ?b]] => rename a into idx; rename b into v0 end.
    apply andb_true_iff in Hb. destruct Hb as [Hi _]. apply N.ltb_lt in Hi. rewrite <- HI in Hi. unfold nI in Hi.
    cbn [sysloc_builder]. unfold hm_vec_set. apply N.ltb_lt in Hi as Hi'. rewrite Hi'. cbn [option_map].
    eexists. split; [reflexivity|].
    unfold shape_ok, cell, nI, nT, hm_len in *. cbn [sl_with_inits sl_inits sl_targets sl_entries sl_dt sl_mts sl_unit sl_flags].
    rewrite !length_upd.
    split; [exact HI|]. split; [exact HT|]. split; [exact Hs|]. split; [reflexivity|]. split; [reflexivity|].
    split; [reflexivity|]. split; [unfold flag_bits; cbn; rewrite N.lor_0_r; reflexivity|].
    split; [|split; [intros; reflexivity|intros; reflexivity]].
    intros i _. cbn [last_slot]. rewrite nth_upd_N by exact Hi. change (3 =? 3) with true. cbn [andb]. reflexivity.
  - (* set_target_value *)
    match goal with |- context [SL [SA 4; SA ?a; SA ?b]] => rename a into idx; rename b into v0 end.
    apply andb_true_iff in Hb. destruct Hb as [Hi _]. apply N.ltb_lt in Hi. rewrite <- HT in Hi. unfold nT in Hi.
    cbn [sysloc_builder]. unfold hm_vec_set. apply N.ltb_lt in Hi as Hi'. rewrite Hi'. cbn [option_map].
    eexists. split; [reflexivity|].
    unfold shape_ok, cell, nI, nT, hm_len in *. cbn [sl_with_targets sl_inits sl_targets sl_entries sl_dt sl_mts sl_unit sl_flags].
    rewrite !length_upd.
    split; [exact HI|]. split; [exact HT|]. split; [exact Hs|]. split; [reflexivity|]. split; [reflexivity|].
    split; [reflexivity|]. split; [unfold flag_bits; cbn; rewrite N.lor_0_r; reflexivity|].
    split; [intros; reflexivity|split; [|intros; reflexivity]].
    intros j _. cbn [last_slot]. rewrite nth_upd_N by exact Hi. change (4 =? 4) with true. cbn [andb]. reflexivity.
  - (* minimum_transfer_size_required *)
    cbn [sysloc_builder]. eexists. split; [reflexivity|].
    unfold shape_ok, cell, nI, nT in *. cbn [sl_with_flags sl_inits sl_targets sl_entries sl_dt sl_mts sl_unit sl_flags].
    repeat split; auto.
  - (* non_sequential_transfers *)
    cbn [sysloc_builder]. eexists. split; [reflexivity|].
    unfold shape_ok, cell, nI, nT in *. cbn [sl_with_flags sl_inits sl_targets sl_entries sl_dt sl_mts sl_unit sl_flags].
    repeat split; auto.
Qed.

(* the builder fold of the model from any intermediate state, against the Spec's summaries of the remaining builders *)
Lemma sysloc_builders_sim ni nt bs : forall sl,
  forallb (sl_builder_ok ni nt) bs = true ->
  nI sl = ni -> nT sl = nt -> shape_ok sl ->
  exists sl', sysloc_builders sl bs = Some sl' /\
    nI sl' = ni /\ nT sl' = nt /\ shape_ok sl' /\
    sl_dt sl' = sl_dt sl /\ sl_mts sl' = sl_mts sl /\ sl_unit sl' = sl_unit sl /\
    sl_flags sl' = N.lor (sl_flags sl) (flag_bits bs) /\
    (forall i, i < ni -> nth (N.to_nat i) (sl_inits sl') 0 = last_slot 3 i bs (nth (N.to_nat i) (sl_inits sl) 0)) /\
    (forall j, j < nt -> nth (N.to_nat j) (sl_targets sl') 0 = last_slot 4 j bs (nth (N.to_nat j) (sl_targets sl) 0)) /\
    (forall i j, i < ni -> j < nt -> cell sl' i j = last_cell i j bs (cell sl i j)).
Proof.
  induction bs as [|b bs IH]; intros sl Hok HI HT Hs.
  - exists sl. cbn [sysloc_builders last_slot last_cell]. unfold flag_bits. cbn [ever existsb].
    change (N.lor 0 0) with 0. rewrite N.lor_0_r. repeat split; auto.
  - cbn [forallb] in Hok. apply andb_true_iff in Hok. destruct Hok as [Hb Hok].
    destruct (sysloc_builder_step ni nt b sl Hb HI HT Hs) as (s1 & E1 & HI1 & HT1 & Hs1 & D1 & M1 & U1 & F1 & A1 & B1 & C1).
    destruct (IH s1 Hok HI1 HT1 Hs1) as (s2 & E2 & HI2 & HT2 & Hs2 & D2 & M2 & U2 & F2 & A2 & B2 & C2).
    exists s2. cbn [sysloc_builders]. rewrite E1. split; [exact E2|].
    split; [exact HI2|]. split; [exact HT2|]. split; [exact Hs2|]. split; [congruence|]. split; [congruence|].
    split; [congruence|]. split; [rewrite F2, F1, (flag_bits_cons b bs), N.lor_assoc; reflexivity|].
    split; [|split].
    + intros i Hi. rewrite last_slot_cons, A2, A1 by exact Hi. reflexivity.
    + intros j Hj. rewrite last_slot_cons, B2, B1 by exact Hj. reflexivity.
    + intros i j Hi Hj. rewrite last_cell_cons, C2, C1 by assumption. reflexivity.
Qed.

Lemma sysloc_flags_ref lt (b2 b1 : bool) : lt < 4 ->
  N.lor (cast U8 lt) (N.lor (if b2 then 16 else 0) (if b1 then 32 else 0)) =
  lt + (if b2 then 16 else 0) + (if b1 then 32 else 0).
Proof.
  intros H. assert (C : lt = 0 \/ lt = 1 \/ lt = 2 \/ lt = 3) by lia.
  destruct C as [->|[->|[->| ->]]]; destruct b2, b1; reflexivity.
Qed.

Lemma sysloc_lay len flags dt mts ni nt unit rest :
  lay_then 32 [L 0 2 1; L 2 2 0; L 4 4 len; L 8 1 flags; L 9 1 dt; L 10 1 mts; L 11 1 0; L 12 4 ni; L 16 4 nt; L 20 4 0; L 24 8 unit] rest
  = Some (w2 1 ++ w2 0 ++ d4 len ++ b1 flags ++ b1 dt ++ b1 mts ++ b1 0 ++ d4 ni ++ d4 nt ++ d4 0 ++ q8 unit ++ rest).
Proof. reflexivity. Qed.

Lemma sysloc_entry_ref md s lt dt mts unit ni nt bs e :
  hmat_entry_ref (SL [SA 2; SA lt; SA dt; SA mts; SA unit; SA ni; SA nt; SL bs]) = Some e ->
  exists a, hmat_addition md s (SL [SA 2; SA lt; SA dt; SA mts; SA unit; SA ni; SA nt; SL bs]) = Some a /\ a_bytes a = e.
Proof.
  intros H. cbn [hmat_entry_ref] in H.
  match type of H with (if ?c then _ else _) = _ => destruct c eqn:Ec; [|discriminate] end.
  apply andb_true_iff in Ec. destruct Ec as [Ec Hok].
  repeat (apply andb_true_iff in Ec; destruct Ec as [Ec ?]).
  repeat match goal with Hx : (_ <? _) = true |- _ => apply N.ltb_lt in Hx end.
  rename Ec into Hlt.
  rewrite sysloc_lay in H. apply rc_Some_inj in H. subst e.
  assert (Hfit : ni * nt < U64).
  { unfold U64. assert (2 ^ 32 < 2 ^ 64) by (apply N.pow_lt_mono_r; lia). lia. }
  destruct (sysloc_new md lt dt mts unit ni nt) as [sl0|] eqn:E0.
  2:{ unfold sysloc_new, mul_m in E0. apply N.ltb_lt in Hfit. rewrite Hfit in E0. discriminate E0. }
  destruct (sysloc_new_spec _ _ _ _ _ _ _ _ E0 Hfit) as (Hs0 & HI0 & HT0 & Hc0).
  assert (Hsl0 : sl_flags sl0 = cast U8 lt /\ sl_dt sl0 = dt /\ sl_mts sl0 = mts /\ sl_unit sl0 = unit /\
                 sl_inits sl0 = repeatN 0 (N.to_nat ni) /\ sl_targets sl0 = repeatN 0 (N.to_nat nt)).
  { unfold sysloc_new, mul_m in E0. apply N.ltb_lt in Hfit. rewrite Hfit in E0. cbn [option_bind] in E0.
    apply rc_Some_inj in E0. subst sl0. repeat split. }
  destruct Hsl0 as (Hf0 & Hd0 & Hm0 & Hu0 & Hin0 & Htg0).
  destruct (sysloc_builders_sim ni nt bs sl0 Hok HI0 HT0 Hs0)
    as (sl & Eb & HI & HT & Hs & Hd & Hm & Hu & Hf & Hin & Htg & Hce).
  assert (Hlen32 : (sysloc_len sl <? U32) = true).
  { apply N.ltb_lt. unfold sysloc_len, U32. unfold shape_ok, nI, nT in Hs. unfold nI in HI. unfold nT in HT.
    rewrite Hs, HI, HT. lia. }
  cbn [hmat_addition]. rewrite E0. cbn [option_bind]. rewrite Eb. cbn [option_bind].
  rewrite Hlen32. cbn [assert option_bind].
  eexists. split; [reflexivity|]. cbn [hmat_add a_bytes].
  (* the three vectors are the lists the specification writes *)
  assert (Ein : sl_inits sl = map (fun i => last_slot 3 i bs 0) (seqN ni)).
  { apply list_is_map; [unfold nI, hm_len in HI; lia|].
    intros i Hi. rewrite (Hin i Hi), Hin0. rewrite nth_repeatN by lia. reflexivity. }
  assert (Etg : sl_targets sl = map (fun j => last_slot 4 j bs 0) (seqN nt)).
  { apply list_is_map; [unfold nT, hm_len in HT; lia|].
    intros j Hj. rewrite (Htg j Hj), Htg0. rewrite nth_repeatN by lia. reflexivity. }
  assert (Ece : sl_entries sl = flat_map (fun i => map (fun j => last_cell i j bs 0xFFFF) (seqN nt)) (seqN ni)).
  { apply list_is_matrix.
    - unfold shape_ok in Hs. rewrite HI, HT in Hs. exact Hs.
    - intros i j Hi Hj. pose proof (Hce i j Hi Hj) as Hc. unfold cell at 1 in Hc. rewrite HT in Hc. rewrite Hc.
      rewrite Hc0 by assumption. reflexivity. }
  unfold sysloc_bytes, sysloc_len.
  fold (nI sl). fold (nT sl). rewrite HI, HT.
  replace (hm_len (sl_entries sl)) with (ni * nt) by (unfold shape_ok in Hs; rewrite HI, HT in Hs; symmetry; exact Hs).
  rewrite Hf, Hd, Hm, Hu, Hf0, Hd0, Hm0, Hu0. unfold flag_bits. rewrite sysloc_flags_ref by exact Hlt.
  rewrite Ein, Etg, Ece.
  replace (4 * ni + 4 * nt + 2 * (ni * nt) + 32) with (32 + 4 * ni + 4 * nt + 2 * (ni * nt)) by lia.
  reflexivity.
Qed.

(* ---------- every structure type: model entry bytes = reference entry bytes ---------- *)
Theorem hmat_entries_are_reference md s o e :
  hmat_entry_ref o = Some e ->
  exists a, hmat_addition md s o = Some a /\ a_bytes a = e.
Proof.
  intros H. pose proof H as H0. unfold hmat_entry_ref in H.
  break_sx H; first [ eapply sysloc_entry_ref; eassumption | eapply msc_entry_ref; eassumption | idtac ].
  rewrite mem_prox_ref in H0. apply rc_Some_inj in H0. subst e. eexists. split; reflexivity.
Qed.

(* ---------- histories ---------- *)
Lemma hmat_image_length s : Inv2 KHmat s -> length (tbl_image s) = (40 + length (concat (t_ents s)))%nat.
Proof.
  intros (I & HK & _). rewrite length_image by exact (inv_hdr s I). rewrite HK. unfold t_body. cbn [mid]. unfold d4. rewrite length_le. lia.
Qed.

Lemma hmat_sim md ops : forall s es,
  Inv2 KHmat s -> opt_concat (map hmat_entry_ref ops) = Some es ->
  N.of_nat (length (tbl_image s)) + N.of_nat (length (concat es)) < 2 ^ 32 ->
  exists s', run_adds (hmat_addition md) md s ops = Some s' /\ Inv2 KHmat s' /\ t_ents s' = t_ents s ++ es /\
             t_hdr s' = t_hdr s /\ t_pre s' = t_pre s.
Proof.
  induction ops as [|o ops IH]; intros s es I2 H Hfit; cbn [map opt_concat] in H.
  - apply rc_Some_inj in H. subst es. exists s. cbn [run_adds]. rewrite app_nil_r. repeat split; try reflexivity; apply I2.
  - destruct (hmat_entry_ref o) as [e|] eqn:Ee; [|discriminate].
    destruct (opt_concat (map hmat_entry_ref ops)) as [es'|] eqn:Ees; [|discriminate].
    apply rc_Some_inj in H. subst es. cbn [concat] in Hfit. rewrite app_length in Hfit.
    destruct (hmat_entries_are_reference md s o e Ee) as (a & Ea & Hab).
    destruct o as [n|l]; [discriminate Ee|].
    destruct (add_step_accepts KHmat (hmat_addition md) (hmat_addition_sound md) eq_refl md s l a I2 Ea)
      as (s1 & evs & Estep & I2' & Hre & Hrh & Hhd & Hpre & Hlen1).
    { rewrite Hab. lia. }
    cbn [run_adds]. rewrite Estep.
    destruct (IH s1 es' I2' eq_refl) as (s' & Er & I' & He' & Hhd' & Hpre').
    + rewrite Hlen1, Hab. lia.
    + exists s'. split; [exact Er|]. split; [exact I'|]. split; [|split; congruence].
      rewrite He'. unfold t_ents. rewrite !frev_rev, Hre, Hab. cbn [rev]. rewrite <- app_assoc. reflexivity.
Qed.

(* HMAT: for every constructor argument and every history in the specification's domain, in both build profiles,
   the model accepts the history and its image is the reference image *)
Theorem hmat_refines md ctor ops r :
  ts_image hmat_spec ctor ops = Some r ->
  N.of_nat (length r) < 2 ^ 32 ->
  exists s0 s, hmat_new ctor = Some s0 /\ run_adds (hmat_addition md) md s0 ops = Some s /\ tbl_image s = r.
Proof.
  cbn [ts_image hmat_spec]. unfold hmat_image, hmat_entries_ref. intros H Hfit.
  destruct ctor as [|[|o [|t [|r0 [|x c]]]]]; try discriminate.
  destruct (sx_hdr_args o t r0) as [ha|] eqn:Eh; [|discriminate].
  destruct (opt_concat (map hmat_entry_ref ops)) as [es|] eqn:Ees; [|discriminate].
  apply rc_Some_inj in H. subst r.
  rewrite (ref_table_length [72; 77; 65; 84] 1 o t r0 ha _ Eh eq_refl) in Hfit.
  rewrite app_length, length_le in Hfit.
  destruct (sx_hdr_of_args [72; 77; 65; 84] 1 o t r0 ha Eh) as (h & Eh' & Hs & Hrv & Ho & Ht & Hv).
  assert (Enew : hmat_new (SL [o; t; r0]) = Some (tbl_new KHmat h [])).
  { cbn [hmat_new]. rewrite Eh'. reflexivity. }
  pose proof (hmat_new_inv _ _ Enew) as I0.
  assert (He0 : t_ents (tbl_new KHmat h []) = []) by reflexivity.
  destruct (hmat_sim md ops (tbl_new KHmat h []) es I0 Ees) as (s & Er & I & He & Hhd & Hpre).
  - rewrite (hmat_image_length _ I0), He0. cbn [concat length]. lia.
  - exists (tbl_new KHmat h []), s. split; [exact Enew|]. split; [exact Er|].
    destruct I as (I & HK & _).
    rewrite (inv_image_ref s [72; 77; 65; 84] 1 ha I) by (rewrite Hhd; assumption).
    rewrite HK, He, He0. reflexivity.
Qed.

(* the same at the entry point: the history observed once at its end reports one number per operation, no refusal,
   and the reference image *)
Lemma hmat_entries_lists ops : forall es, opt_concat (map hmat_entry_ref ops) = Some es -> all_lists ops.
Proof.
  induction ops as [|o ops IH]; intros es H; [constructor|]. cbn [map opt_concat] in H.
  destruct (hmat_entry_ref o) as [e|] eqn:Ee; [|discriminate].
  destruct (opt_concat (map hmat_entry_ref ops)) as [es'|]; [|discriminate].
  constructor; [|eapply IH; reflexivity]. destruct o as [n|l]; [discriminate Ee|]. eexists; reflexivity.
Qed.

Corollary hmat_case_refines md ctor ops r :
  ts_image hmat_spec ctor ops = Some r ->
  N.of_nat (length r) < 2 ^ 32 ->
  exists evs, Forall is_num evs /\ hmat_case md (SL (ctor :: ops ++ [SA 1])) = evs ++ [EvBytes r].
Proof.
  intros H Hfit. destruct (hmat_refines md ctor ops r H Hfit) as (s0 & s & Hn & Hr & Hi). subst r.
  unfold hmat_case, hmat_step. eapply addtable_case_end; eauto.
  cbn [ts_image hmat_spec] in H. unfold hmat_image, hmat_entries_ref in H.
  destruct ctor as [|[|o [|t [|r0 [|x c]]]]]; try discriminate.
  destruct (sx_hdr_args o t r0); [|discriminate].
  destruct (opt_concat (map hmat_entry_ref ops)) as [es|] eqn:Ees; [|discriminate].
  eapply hmat_entries_lists; exact Ees.
Qed.

Print Assumptions hmat_entries_are_reference.
Print Assumptions hmat_refines.
Print Assumptions hmat_case_refines.
