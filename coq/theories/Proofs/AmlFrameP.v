(* Framing facts shared by C06 / C10 / C15: a PkgLength produced by create_pkg_length delimits exactly the body it was
   computed for; alternative construction paths give identical bytes. *)
From Coq Require Import NArith ZArith List Lia Bool Arith.
From ACPI Require Import Lib.Bytes Lib.Sx Lib.Machine Impl.AmlCore Impl.AmlTerm Spec.AmlCoreS Spec.AmlTermS
  Proofs.PkgLenP Proofs.IntP.
Import ListNotations.
Open Scope N_scope.

(* the lead byte announces the number of follow bytes *)
Lemma lead_ok_width e : lead_ok e -> exists b0 rest, e = b0 :: rest /\ N.to_nat (b0 / 64) = length rest.
Proof.
  destruct e as [|b0 [|b1 rest]]; cbn [lead_ok]; intros H; [contradiction| |].
  - exists b0, []. split; [reflexivity|]. rewrite N.div_small by lia. reflexivity.
  - destruct H as (H1 & _ & _). exists b0, (b1 :: rest). split; [reflexivity|]. rewrite H1. apply Nat2N.id.
Qed.

(* the Spec's object splitter recovers exactly the body a framed object was built from *)
Lemma take_pkg_framed md body pl r :
  N.of_nat (length body) < 2 ^ 63 ->        (* a Vec<u8> never exceeds isize::MAX bytes *)
  pkg_len md (N.of_nat (length body)) true = Some pl ->
  take_pkg (pl ++ body ++ r) = Some (body, r).
Proof.
  intros Hn H.
  destruct (pkg_len_incl_correct md (N.of_nat (length body)) pl (body ++ r) Hn H) as (Hd & Hl & _).
  destruct (lead_ok_width pl Hl) as (b0 & rest & -> & Hw).
  unfold take_pkg. cbn [app]. cbn [app] in Hd. rewrite Hd.
  rewrite Hw.
  replace (N.to_nat (N.of_nat (length body) + N.of_nat (length (b0 :: rest))) - S (length rest))%nat with (length body)
    by (cbn [length]; lia).
  assert (E1 : Nat.ltb (N.to_nat (N.of_nat (length body) + N.of_nat (length (b0 :: rest)))) (S (length rest)) = false)
    by (apply Nat.ltb_ge; cbn [length]; lia).
  assert (E2 : Nat.ltb (length (body ++ r)) (length body) = false) by (apply Nat.ltb_ge; rewrite app_length; lia).
  rewrite E1, E2. cbn [orb]. rewrite firstn_app_exact, skipn_app_exact. reflexivity.
Qed.

(* ---------------- C15: alternative construction paths ---------------- *)

Lemma scope_raw_eq md p ks : enc md (TScopeRaw p ks) = enc md (TScope p ks).
Proof.
  cbn [enc]. destruct (enc_path_text p) as [ep|]; [|reflexivity]. cbn [option_bind].
  match goal with |- context [?f ks] => is_fix f; destruct (f ks) as [eks|] end; [|reflexivity].
  cbn [option_bind]. unfold framed. cbn [app length firstn skipn].
  replace (S (length (ep ++ eks)) - 1)%nat with (length (ep ++ eks)) by lia.
  destruct (pkg_len md (N.of_nat (length (ep ++ eks))) true); reflexivity.
Qed.

Lemma pkg_builder_eq md ks : enc md (TPkgBuilder ks) = enc md (TPackage ks).
Proof.
  cbn [enc].
  match goal with |- context [?f ks] => is_fix f; destruct (f ks) as [eks|] end.
  - cbn [option_bind]. destruct (assert (N.of_nat (length ks) <=? 255)); [|reflexivity].
    cbn [option_bind]. unfold framed. cbn [length].
    replace (N.of_nat (S (length eks))) with (N.of_nat (length eks) + 1) by lia.
    destruct (pkg_len md (N.of_nat (length eks) + 1) true); reflexivity.
  - cbn [option_bind]. destruct (assert (N.of_nat (length ks) <=? 255)); reflexivity.
Qed.

Lemma usize_u64_eq md n : n < 2 ^ 64 -> enc md (TInt 0 n) = enc md (TInt 64 n).
Proof.
  intros H. cbn [enc enc_int]. unfold enc_usize, cast, U64. rewrite N.mod_small by exact H. reflexivity.
Qed.

Lemma str_string_same b : term_of_sx (SL [SA 5; b]) = term_of_sx (SL [SA 6; b]).
Proof. reflexivity. Qed.
