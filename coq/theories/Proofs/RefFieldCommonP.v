(* C05, "verbatim reference" half, generic part.
   (a) where a field of an entry lies in an image whose body is a concatenation of entries, and what the walk reports for
       that entry;
   (b) the bookkeeping of the Specs that thread a [placed] (Spec/PpttS.v: PPTT, RHCT), generically over the entry function:
       splitting a history at an operation, the handle statements (same shape as Proofs/RhctWalkRefP.v);
   (c) the same splitting for the Specs built with [sp_entries] (Spec/RimtS.v: RIMT, VIOT);
   (d) [names_node]: the proposition "this reference, made when [npre] nodes existed, names a node of type [ty] that the walk
       finds, and [v] is that node's offset".
   Spec layer only: nothing from the Impl model. *)
From Coq Require Import NArith ZArith List Lia Bool Arith.
From ACPI Require Import Lib.Bytes Lib.Sx Spec.Layout Spec.MadtS Spec.HmatS Spec.PpttS Spec.RimtS Proofs.WalkP Proofs.WalkRefCommon2P.
Import ListNotations.

Ltac Zify.zify_post_hook ::= Z.to_euclidean_division_equations.

Open Scope N_scope.

(* ---------- (d) what a reference field must hold ---------- *)
(* [found] is the result of the Spec walk over an image; [x] is a handle reference written when [npre] operations had been
   applied; it names operation k < npre, the walk finds a node of type [ty] as its k-th entry, and [v] is the offset of
   that node *)
Definition names_node (found : list (N * nat * nat)) (npre : nat) (x : sx) (ty : N) (v : N) : Prop :=
  exists k off klen, x = SL [SA 104; SA k] /\ (N.to_nat k < npre)%nat /\
    nth_error found (N.to_nat k) = Some (ty, off, klen) /\ v = N.of_nat off.

(* ---------- (a) fields inside an image ---------- *)
Lemma skipn_add {A} a b : forall l : list A, skipn (a + b) l = skipn b (skipn a l).
Proof.
  induction a as [|a IH]; intros l; [reflexivity|]. destruct l as [|x l]; cbn [Nat.add skipn]; [now destruct b|apply IH].
Qed.

Lemma field_at_add r a b w : field_at r (a + b) w = field_at (skipn a r) b w.
Proof. unfold field_at. rewrite skipn_add. reflexivity. Qed.

Lemma field_in_body r first es1 e tail o w :
  skipn first r = concat (es1 ++ e :: tail) -> (o + w <= length e)%nat ->
  field_at r (first + length (concat es1) + o) w = field_at e o w.
Proof.
  intros Hsk Hfit. rewrite <- Nat.add_assoc, field_at_add, Hsk, concat_app. cbn [concat].
  rewrite field_at_app_r. apply field_at_app_l. exact Hfit.
Qed.

Lemma field_at_arr w vals rest : forall j v, nth_error vals j = Some v ->
  field_at (arr w vals ++ rest) (w * j) w = v mod 2 ^ (8 * N.of_nat w).
Proof.
  unfold arr. induction vals as [|x vals IH]; intros j v H; [destruct j; discriminate H|].
  destruct j as [|j]; cbn [nth_error] in H; cbn [map concat]; rewrite <- app_assoc.
  - apply wr_Some_inj in H. subst x. rewrite Nat.mul_0_r. apply field_at_le_app.
  - replace (w * S j)%nat with (length (le w x) + w * j)%nat by (rewrite length_le; lia).
    rewrite field_at_app_r. apply IH. exact H.
Qed.

Lemma field_in_concat_const n (l : list (list N)) rest o w : Forall (fun x => length x = n) l ->
  forall j e, nth_error l j = Some e -> (o + w <= n)%nat ->
  field_at (concat l ++ rest) (n * j + o) w = field_at e o w.
Proof.
  induction 1 as [|x l Hx HF IH]; intros j e H Hfit; [destruct j; discriminate H|].
  destruct j as [|j]; cbn [nth_error] in H; cbn [concat]; rewrite <- app_assoc.
  - apply wr_Some_inj in H. subst x. rewrite Nat.mul_0_r. cbn [Nat.add]. apply field_at_app_l. lia.
  - replace (n * S j + o)%nat with (length x + (n * j + o))%nat by lia. rewrite field_at_app_r. apply IH; assumption.
Qed.

Lemma nth0_field e : (1 <= length e)%nat -> nth 0 e 0 = field_at e 0 1.
Proof.
  destruct e as [|x e']; cbn [length]; [lia|]. intros _. unfold field_at. cbn [skipn firstn unle nth]. lia.
Qed.

Lemma sd_u8_u8_of_fields e : (2 <= length e)%nat -> field_at e 1 1 = N.of_nat (length e) ->
  self_describing H_u8_u8 e (nth 0 e 0).
Proof.
  intros Hlen Hf. destruct e as [|a [|b e']]; cbn [length] in Hlen; try lia.
  split; [cbn [length]; lia|]. intros rest. cbn [app read_ehdr nth].
  unfold field_at in Hf. cbn [skipn firstn unle] in Hf. do 2 f_equal. lia.
Qed.

(* ---------- what the walk reports for one entry of the body ---------- *)
Lemma walk_result_bound : forall es tys off k t o len,
  nth_error (walk_result off es tys) k = Some (t, o, len) -> (o + len <= off + length (concat es))%nat.
Proof.
  induction es as [|e es IH]; intros [|t0 tys] off k t o len H; try (destruct k; discriminate H).
  destruct k as [|k]; cbn [walk_result nth_error] in H; cbn [concat]; rewrite app_length.
  - apply wr_Some_inj in H. injection H as _ <- <-. lia.
  - apply IH in H. lia.
Qed.

Lemma skipn_body_length {A} (r : list A) first (l : list A) : skipn first r = l -> (1 <= length l)%nat ->
  (first + length l = length r)%nat.
Proof. intros <- H. rewrite skipn_length in *. lia. Qed.

Lemma walked_nth r first h (tyf : list N -> N) es1 e tail :
  skipn first r = concat (es1 ++ e :: tail) -> Forall (fun x => self_describing h x (tyf x)) (es1 ++ e :: tail) ->
  walk (S (length r)) h first (skipn first r) = Some (walk_result first (es1 ++ e :: tail) (map tyf (es1 ++ e :: tail))) /\
  nth_error (walk_result first (es1 ++ e :: tail) (map tyf (es1 ++ e :: tail))) (length es1)
    = Some (tyf e, (first + length (concat es1))%nat, length e).
Proof.
  intros Hsk HF. split; [exact (walk_of_entries r first h tyf _ Hsk HF)|].
  rewrite (walk_result_nth first _ _ (length es1) e (tyf e)).
  - rewrite firstn_app, firstn_all, Nat.sub_diag. cbn [firstn]. rewrite app_nil_r. reflexivity.
  - rewrite nth_error_app2, Nat.sub_diag by lia. reflexivity.
  - rewrite map_app, nth_error_app2 by (rewrite map_length; lia). rewrite map_length, Nat.sub_diag. reflexivity.
Qed.

(* every walked offset of a non-empty body lies inside the image *)
Lemma walked_offset_fits r first es tys k t o len :
  skipn first r = concat es -> (1 <= length (concat es))%nat ->
  nth_error (walk_result first es tys) k = Some (t, o, len) -> (o + len <= length r)%nat.
Proof.
  intros Hsk Hpos H. apply walk_result_bound in H. rewrite <- (skipn_body_length r first _ Hsk Hpos). exact H.
Qed.

(* the start recorded for entry k of a prefix is the k-th walked entry of the whole body, and k is inside the prefix *)
Lemma start_walked tyf first es1 rest k ty off :
  nth_error (starts_of tyf (N.of_nat first) es1) k = Some (ty, off) ->
  (k < length es1)%nat /\
  exists o len, nth_error (walk_result first (es1 ++ rest) (map tyf (es1 ++ rest))) k = Some (ty, o, len) /\ off = N.of_nat o.
Proof.
  intros H. split.
  - rewrite <- (length_starts_of tyf (N.of_nat first) es1). apply nth_error_Some. congruence.
  - destruct (start_is_walked tyf first es1 rest k ty off H) as (o & len & Hf & Ho). exists o, len. split; [exact Hf|congruence].
Qed.

(* all the offsets the walk reports lie inside the image *)
Lemma walked_all_fit r first h (tyf : list N -> N) es1 e tail bound :
  skipn first r = concat (es1 ++ e :: tail) -> Forall (fun x => self_describing h x (tyf x)) (es1 ++ e :: tail) ->
  N.of_nat (length r) < bound ->
  forall k t o len, nth_error (walk_result first (es1 ++ e :: tail) (map tyf (es1 ++ e :: tail))) k = Some (t, o, len) ->
    N.of_nat o < bound.
Proof.
  intros Hsk HF Hb k t o len H.
  assert (Hpos : (1 <= length (concat (es1 ++ e :: tail)))%nat).
  { apply Forall_app in HF. destruct HF as [_ HF]. inversion HF as [|? ? [Hp _] _]; subst.
    rewrite concat_app, app_length. cbn [concat]. rewrite app_length. lia. }
  pose proof (walked_offset_fits r first _ _ k t o len Hsk Hpos H). lia.
Qed.

(* a field that holds (v mod bound) where v is the offset of a walked node holds that offset exactly *)
Lemma names_node_field found npre x ty v f bound : names_node found npre x ty v ->
  (forall k t o len, nth_error found k = Some (t, o, len) -> N.of_nat o < bound) ->
  f = v mod bound -> names_node found npre x ty f.
Proof.
  intros (k & off & klen & Hx & Hk & Hf & Hv) Hfit ->. exists k, off, klen.
  split; [exact Hx|]. split; [exact Hk|]. split; [exact Hf|]. subst v. apply N.mod_small. exact (Hfit _ _ _ _ Hf).
Qed.

Lemma rf_length_arr w l : length (arr w l) = (w * length l)%nat.
Proof.
  unfold arr. induction l as [|x l IH]; cbn [map concat length]; [lia|]. rewrite app_length, length_le, IH. lia.
Qed.

(* an array of equally wide elements following a fixed part *)
Lemma lay_then_arr_field size l w vals img : lay_then size l (arr w vals) = Some img ->
  length img = (size + w * length vals)%nat /\ forall j v, nth_error vals j = Some v -> field_at img (size + w * j) w = v mod 2 ^ (8 * N.of_nat w).
Proof.
  intros H. split; [rewrite (proj1 (lay_then_decodes _ _ _ _ H)), rf_length_arr; reflexivity|].
  intros j v Hv. unfold lay_then in H. destruct (lay size l) as [fixed|] eqn:E; [|discriminate H].
  apply wr_Some_inj in H. subst img. rewrite <- (proj1 (lay_decodes _ _ _ E)), field_at_app_r.
  rewrite <- (app_nil_r (arr w vals)). apply field_at_arr. exact Hv.
Qed.

(* [sp_all]: element by element *)
Lemma sp_all_spec {A} (f : sx -> option A) : forall l racc r, sp_all f l racc = Some r ->
  exists r', r = rev racc ++ r' /\ length r' = length l /\ forall j x, nth_error l j = Some x -> exists a, nth_error r' j = Some a /\ f x = Some a.
Proof.
  induction l as [|x0 l IH]; intros racc r H; cbn [sp_all] in H.
  - apply wr_Some_inj in H. subst r. exists []. rewrite frev_rev, app_nil_r. split; [reflexivity|]. split; [reflexivity|].
    intros [|j] x Hx; discriminate Hx.
  - destruct (f x0) as [a0|] eqn:E0; [|discriminate H].
    destruct (IH _ _ H) as (r' & -> & Hl & Hn). exists (a0 :: r'). cbn [rev length]. rewrite <- app_assoc.
    split; [reflexivity|]. split; [lia|].
    intros [|j] x Hx; cbn [nth_error] in Hx |- *.
    + apply wr_Some_inj in Hx. subst x0. exists a0. split; [reflexivity|exact E0].
    + exact (Hn j x Hx).
Qed.

(* ---------- (b) Specs that thread a [placed] ---------- *)
Lemma resolve_shape p ty x off : resolve p ty x = Some off -> exists k, x = SL [SA 104; SA k].
Proof.
  unfold resolve. intros H.
  repeat match type of H with context [match ?v with _ => _ end] => is_var v; destruct v; try discriminate H end.
  eexists. reflexivity.
Qed.

Lemma resolve_all_nth p ty : forall xs cs, resolve_all p ty xs = Some cs ->
  length cs = length xs /\
  forall j x, nth_error xs j = Some x -> exists c, nth_error cs j = Some c /\ resolve p ty x = Some c.
Proof.
  induction xs as [|x0 xs IH]; intros cs H; cbn [resolve_all] in H.
  - apply wr_Some_inj in H. subst cs. split; [reflexivity|]. intros [|j] x Hx; discriminate Hx.
  - destruct (resolve p ty x0) as [c0|] eqn:E0; [|discriminate H].
    destruct (resolve_all p ty xs) as [cs'|]; [|discriminate H]. apply wr_Some_inj in H. subst cs.
    destruct (IH cs' eq_refl) as [Hl Hn]. split; [cbn [length]; lia|].
    intros [|j] x Hx; cbn [nth_error] in Hx |- *.
    + apply wr_Some_inj in Hx. subst x0. exists c0. split; [reflexivity|exact E0].
    + exact (Hn j x Hx).
Qed.

Section Placed.
  Variable entry : placed -> sx -> option (list N).
  Variable tyf : list N -> N.

  Fixpoint pl_entries_from (ops : list sx) (p : placed) (next : N) (racc : list (list N)) : option (list (list N)) :=
    match ops with
    | [] => Some (frev racc)
    | o :: r =>
        match entry p o with
        | Some e => pl_entries_from r ((tyf e, next) :: fst p, snd p + 1) (next + N.of_nat (length e)) (e :: racc)
        | None => None
        end
    end.

  (* the bookkeeping after a list of operations: what the NEXT operation's references are resolved in *)
  Fixpoint pl_placed_from (ops : list sx) (p : placed) (next : N) : option placed :=
    match ops with
    | [] => Some p
    | o :: r =>
        match entry p o with
        | Some e => pl_placed_from r ((tyf e, next) :: fst p, snd p + 1) (next + N.of_nat (length e))
        | None => None
        end
    end.

  Definition pl_ok (first : N) (p : placed) (next : N) (es : list (list N)) : Prop :=
    rev (fst p) = starts_of tyf first es /\ snd p = N.of_nat (length (fst p)) /\ next = first + N.of_nat (length (concat es)).

  Lemma pl_ok_step first p next racc e : pl_ok first p next (rev racc) ->
    pl_ok first ((tyf e, next) :: fst p, snd p + 1) (next + N.of_nat (length e)) (rev (e :: racc)).
  Proof.
    intros (H1 & H2 & H3). unfold pl_ok. cbn [fst snd rev length]. split; [|split].
    - rewrite H1, starts_of_app. cbn [starts_of]. rewrite <- H3. reflexivity.
    - rewrite H2. lia.
    - rewrite concat_app, app_length. cbn [concat]. rewrite app_nil_r. lia.
  Qed.

  Lemma pl_ok_nil first : pl_ok first ([], 0) first (rev []).
  Proof. unfold pl_ok. cbn [fst snd rev starts_of length concat]. repeat split. lia. Qed.

  Lemma pl_entries_prefix ops : forall p next racc es,
    pl_entries_from ops p next racc = Some es -> exists tail, es = rev racc ++ tail /\ length tail = length ops.
  Proof.
    induction ops as [|o ops IH]; intros p next racc es H; cbn [pl_entries_from] in H.
    - apply wr_Some_inj in H. subst es. exists []. rewrite frev_rev, app_nil_r. split; reflexivity.
    - destruct (entry p o) as [e|]; [|discriminate H].
      destruct (IH _ _ _ _ H) as (tail & -> & Hl). exists (e :: tail). cbn [rev length]. rewrite <- app_assoc, Hl.
      split; reflexivity.
  Qed.

  Lemma pl_entries_forall (P : list N -> Prop) : (forall p o e, entry p o = Some e -> P e) ->
    forall ops p next racc es, pl_entries_from ops p next racc = Some es -> Forall P racc -> Forall P es.
  Proof.
    intros HP. induction ops as [|o ops IH]; intros p next racc es H HF; cbn [pl_entries_from] in H.
    - apply wr_Some_inj in H. subst es. rewrite frev_rev. apply Forall_rev. exact HF.
    - destruct (entry p o) as [e|] eqn:He; [|discriminate H].
      apply (IH _ _ _ _ H). constructor; [exact (HP _ _ _ He)|exact HF].
  Qed.

  (* a history cut in two: the bookkeeping in between, the prefix laid out alone, and the continuation *)
  Lemma pl_split first pre : forall post p next racc es,
    pl_entries_from (pre ++ post) p next racc = Some es -> pl_ok first p next (rev racc) ->
    exists p' next' racc',
      pl_placed_from pre p next = Some p' /\ pl_ok first p' next' (rev racc') /\
      pl_entries_from post p' next' racc' = Some es /\
      pl_entries_from pre p next racc = Some (rev racc') /\
      length racc' = (length racc + length pre)%nat.
  Proof.
    induction pre as [|o pre IH]; intros post p next racc es H Hok.
    - exists p, next, racc. cbn [app] in H. cbn [pl_placed_from pl_entries_from length]. rewrite frev_rev.
      split; [reflexivity|]. split; [exact Hok|]. split; [exact H|]. split; [reflexivity|lia].
    - cbn [app pl_entries_from] in H. cbn [pl_placed_from pl_entries_from].
      destruct (entry p o) as [e|] eqn:He; [|discriminate H].
      destruct (IH post _ _ _ es H (pl_ok_step first p next racc e Hok)) as (p' & next' & racc' & Hp & Hok' & Hpost & Hpre & Hl).
      exists p', next', racc'. split; [exact Hp|]. split; [exact Hok'|]. split; [exact Hpost|]. split; [exact Hpre|].
      cbn [length] in *. lia.
  Qed.

  (* ... cut at one operation *)
  Lemma pl_split_at first pre o post es :
    pl_entries_from (pre ++ o :: post) ([], 0) first [] = Some es ->
    exists p es1 e tail,
      pl_placed_from pre ([], 0) first = Some p /\
      pl_ok first p (first + N.of_nat (length (concat es1))) es1 /\
      entry p o = Some e /\ es = es1 ++ e :: tail /\
      length es1 = length pre /\ length tail = length post /\
      pl_entries_from pre ([], 0) first [] = Some es1.
  Proof.
    intros H.
    destruct (pl_split first pre (o :: post) _ _ _ es H (pl_ok_nil first)) as (p & next & racc & Hp & Hok & Hpost & Hpre & Hl).
    cbn [pl_entries_from] in Hpost. destruct (entry p o) as [e|] eqn:He; [|discriminate Hpost].
    destruct (pl_entries_prefix _ _ _ _ _ Hpost) as (tail & Hes & Htl). cbn [rev] in Hes. rewrite <- app_assoc in Hes.
    exists p, (rev racc), e, tail. split; [exact Hp|].
    assert (Hnext : next = first + N.of_nat (length (concat (rev racc)))) by (exact (proj2 (proj2 Hok))).
    rewrite <- Hnext. split; [exact Hok|]. split; [exact He|]. split; [exact Hes|].
    split; [rewrite rev_length; cbn [length] in Hl; exact Hl|]. split; [exact Htl|exact Hpre].
  Qed.

  (* resolving (104 k) in the bookkeeping = reading the k-th start *)
  Lemma pl_resolve_is_start first p next es k ty off : pl_ok first p next es ->
    resolve p ty (SL [SA 104; SA k]) = Some off -> nth_error (starts_of tyf first es) (N.to_nat k) = Some (ty, off).
  Proof.
    intros (H1 & H2 & _) H. cbn [resolve] in H.
    destruct (N.ltb_spec k (snd p)) as [Hk|]; [|discriminate H].
    destruct (nth_error (fst p) (N.to_nat (snd p - 1 - k))) as [[t o]|] eqn:En; [|discriminate H].
    destruct (N.eqb_spec t ty) as [->|]; [|discriminate H]. apply wr_Some_inj in H. subst o.
    rewrite <- H1, nth_error_rev_lt' by lia.
    replace (length (fst p) - 1 - N.to_nat k)%nat with (N.to_nat (snd p - 1 - k)) by lia. exact En.
  Qed.

  Lemma pl_start_is_resolved first p next es k ty off : pl_ok first p next es ->
    nth_error (starts_of tyf first es) k = Some (ty, off) -> resolve p ty (SL [SA 104; SA (N.of_nat k)]) = Some off.
  Proof.
    intros (H1 & H2 & _) H.
    assert (Hk : (k < length (fst p))%nat).
    { rewrite <- rev_length, H1. apply nth_error_Some. congruence. }
    rewrite <- H1, nth_error_rev_lt' in H by exact Hk. cbn [resolve].
    destruct (N.ltb_spec (N.of_nat k) (snd p)); [|lia].
    replace (N.to_nat (snd p - 1 - N.of_nat k)) with (length (fst p) - 1 - k)%nat by lia.
    rewrite H, N.eqb_refl. reflexivity.
  Qed.

  (* a reference resolved in the bookkeeping of a prefix names a walked node of the whole body *)
  Lemma pl_resolved_names first p next es1 rest x ty off : pl_ok (N.of_nat first) p next es1 ->
    resolve p ty x = Some off ->
    names_node (walk_result first (es1 ++ rest) (map tyf (es1 ++ rest))) (length es1) x ty off.
  Proof.
    intros Hok H. destruct (resolve_shape _ _ _ _ H) as [k ->].
    destruct (start_walked tyf first es1 rest _ ty off (pl_resolve_is_start _ _ _ _ k ty off Hok H)) as (Hk & o & len & Hf & Ho).
    exists k, o, len. split; [reflexivity|]. split; [exact Hk|]. split; [exact Hf|exact Ho].
  Qed.

  Variable h : ehdr.
  Hypothesis entry_self : forall p o e, entry p o = Some e -> self_describing h e (tyf e).

  Lemma pl_entries_self ops p next es : pl_entries_from ops p next [] = Some es ->
    Forall (fun e => self_describing h e (tyf e)) es.
  Proof. intros H. apply (pl_entries_forall _ entry_self _ _ _ _ _ H). constructor. Qed.

  (* A handle reference resolved after any prefix [pre] of a history names, in any image whose body is the entries of the
     WHOLE history, the offset at which the walk finds the entry added by that operation, with the requested type;
     conversely every entry added by [pre] is reachable through its handle. *)
  Lemma pl_reference_handles r first pre post es :
    pl_entries_from (pre ++ post) ([], 0) (N.of_nat first) [] = Some es -> skipn first r = concat es ->
    exists p found,
      pl_placed_from pre ([], 0) (N.of_nat first) = Some p /\ snd p = N.of_nat (length pre) /\
      walk (S (length r)) h first (skipn first r) = Some found /\
      length found = length (pre ++ post) /\
      (forall k ty off, resolve p ty (SL [SA 104; SA k]) = Some off ->
         exists o len, nth_error found (N.to_nat k) = Some (ty, o, len) /\ N.of_nat o = off) /\
      (forall k, (k < length pre)%nat ->
         exists ty o len, nth_error found k = Some (ty, o, len) /\
                          resolve p ty (SL [SA 104; SA (N.of_nat k)]) = Some (N.of_nat o)).
  Proof.
    intros Ees Hsk.
    pose proof (pl_entries_self _ _ _ _ Ees) as HF.
    destruct (pl_split (N.of_nat first) pre post _ _ _ es Ees (pl_ok_nil _)) as (p & next & racc & Hp & Hok & Hpost & Hpre & Hl).
    destruct (pl_entries_prefix _ _ _ _ _ Hpost) as (tail & Hes & Htl).
    cbn [length] in Hl.
    exists p, (walk_result first es (map tyf es)).
    split; [exact Hp|]. split.
    { destruct Hok as (H1 & H2 & _). rewrite H2, <- rev_length, H1, length_starts_of, rev_length, Hl. reflexivity. }
    split; [exact (walk_of_entries r first h tyf es Hsk HF)|].
    split; [rewrite walk_result_length by (now rewrite map_length); rewrite Hes, !app_length, rev_length, Hl, Htl; reflexivity|].
    split.
    - intros k ty off Hr. subst es.
      exact (start_is_walked tyf first (rev racc) tail (N.to_nat k) ty off (pl_resolve_is_start _ _ _ _ k ty off Hok Hr)).
    - intros k Hk.
      assert (Hk1 : (k < length (starts_of tyf (N.of_nat first) (rev racc)))%nat) by (rewrite length_starts_of, rev_length; lia).
      destruct (nth_error (starts_of tyf (N.of_nat first) (rev racc)) k) as [[ty off]|] eqn:En; [|apply nth_error_None in En; lia].
      subst es. destruct (start_is_walked tyf first (rev racc) tail k ty off En) as (o & len & Hf & Hoff).
      exists ty, o, len. split; [exact Hf|]. rewrite Hoff. exact (pl_start_is_resolved _ _ _ _ k ty off Hok En).
  Qed.

  (* in the form of the run-time judgement [c05_handles_ok] *)
  Lemma pl_reference_handles_ok ts r first ops es p pending :
    ts_walk ts = Some (first, h) ->
    pl_entries_from ops ([], 0) (N.of_nat first) [] = Some es -> skipn first r = concat es ->
    pl_placed_from ops ([], 0) (N.of_nat first) = Some p ->
    (forall hk, In hk pending -> exists ty, resolve p ty (SL [SA 104; SA (N.of_nat (snd hk))]) = Some (fst hk)) ->
    c05_handles_ok ts r pending = true.
  Proof.
    intros Hw Ees Hsk Hp Hpend.
    pose proof (pl_entries_self _ _ _ _ Ees) as HF.
    pose proof Ees as Ees'. rewrite <- (app_nil_r ops) in Ees'.
    destruct (pl_split (N.of_nat first) ops [] _ _ _ es Ees' (pl_ok_nil _)) as (p' & next & racc & Hp' & Hok & Hpost & Hpre & Hl).
    rewrite Hp in Hp'. apply wr_Some_inj in Hp'. subst p'.
    cbn [pl_entries_from] in Hpost. rewrite frev_rev in Hpost. apply wr_Some_inj in Hpost. subst es.
    apply (c05_handles_ok_of_starts ts r first h tyf (rev racc) pending Hw Hsk HF).
    intros hk Hin. destruct (Hpend hk Hin) as [ty Hr]. exists ty.
    pose proof (pl_resolve_is_start _ _ _ _ _ ty (fst hk) Hok Hr) as Hn. rewrite Nat2N.id in Hn. exact Hn.
  Qed.
End Placed.

(* ---------- (c) Specs built with [sp_entries] ---------- *)
Section SpSplit.
  Variable entry : nat -> sp_starts -> sx -> option (list N).

  Lemma sp_ok_nil first : sp_ok first [] 0 first (rev []).
  Proof. unfold sp_ok. cbn [rev starts_of map length concat]. repeat split. lia. Qed.

  Lemma sp_entries_tail ops : forall off n rs racc es,
    sp_entries entry ops off n rs racc = Some es -> exists tail, es = rev racc ++ tail /\ length tail = length ops.
  Proof.
    induction ops as [|o ops IH]; intros off n rs racc es H; cbn [sp_entries] in H.
    - apply wr_Some_inj in H. subst es. exists []. rewrite frev_rev, app_nil_r. split; reflexivity.
    - destruct (entry n rs o) as [e|]; [|discriminate H].
      destruct (IH _ _ _ _ _ H) as (tail & -> & Hl). exists (e :: tail). cbn [rev length]. rewrite <- app_assoc, Hl.
      split; reflexivity.
  Qed.

  Lemma sp_split first pre : forall post off n rs racc es,
    sp_entries entry (pre ++ post) off n rs racc = Some es -> sp_ok first rs n off (rev racc) ->
    exists n' rs' off' racc',
      sp_final entry pre off n rs = Some (n', rs') /\ sp_ok first rs' n' off' (rev racc') /\
      sp_entries entry post off' n' rs' racc' = Some es /\
      sp_entries entry pre off n rs racc = Some (rev racc') /\
      length racc' = (length racc + length pre)%nat.
  Proof.
    induction pre as [|o pre IH]; intros post off n rs racc es H Hok.
    - exists n, rs, off, racc. cbn [app] in H. cbn [sp_final sp_entries length]. rewrite frev_rev.
      split; [reflexivity|]. split; [exact Hok|]. split; [exact H|]. split; [reflexivity|lia].
    - cbn [app sp_entries] in H. cbn [sp_final sp_entries].
      destruct (entry n rs o) as [e|] eqn:He; [|discriminate H].
      destruct (IH post _ _ _ _ es H (sp_ok_step first rs n off racc e Hok))
        as (n' & rs' & off' & racc' & Hp & Hok' & Hpost & Hpre & Hl).
      exists n', rs', off', racc'. split; [exact Hp|]. split; [exact Hok'|]. split; [exact Hpost|]. split; [exact Hpre|].
      cbn [length] in *. lia.
  Qed.

  Lemma sp_split_at first pre o post es :
    sp_entries entry (pre ++ o :: post) first 0 [] [] = Some es ->
    exists n rs es1 e tail,
      sp_final entry pre first 0 [] = Some (n, rs) /\ n = length pre /\
      sp_ok first rs n (first + N.of_nat (length (concat es1))) es1 /\
      entry n rs o = Some e /\ es = es1 ++ e :: tail /\
      length es1 = length pre /\ length tail = length post /\
      sp_entries entry pre first 0 [] [] = Some es1.
  Proof.
    intros H.
    destruct (sp_split first pre (o :: post) _ _ _ _ es H (sp_ok_nil first))
      as (n & rs & off & racc & Hp & Hok & Hpost & Hpre & Hl).
    cbn [sp_entries] in Hpost. destruct (entry n rs o) as [e|] eqn:He; [|discriminate Hpost].
    destruct (sp_entries_tail _ _ _ _ _ _ Hpost) as (tail & Hes & Htl). cbn [rev] in Hes. rewrite <- app_assoc in Hes.
    cbn [length] in Hl.
    exists n, rs, (rev racc), e, tail. split; [exact Hp|]. split.
    { destruct Hok as (H1 & H2 & _). rewrite H2, <- rev_length, H1, map_length, length_starts_of, rev_length. exact Hl. }
    assert (Hoff : off = first + N.of_nat (length (concat (rev racc)))) by (exact (proj2 (proj2 Hok))).
    rewrite <- Hoff. split; [exact Hok|]. split; [exact He|]. split; [exact Hes|].
    split; [rewrite rev_length; exact Hl|]. split; [exact Htl|exact Hpre].
  Qed.

  (* a reference looked up in the bookkeeping of a prefix names a walked entry of the whole body *)
  Lemma sp_lookup_names first rs n off es1 rest x o ty : sp_ok (N.of_nat first) rs n off es1 ->
    sp_lookup n rs x = Some (o, ty) ->
    names_node (walk_result first (es1 ++ rest) (map sp_ty (es1 ++ rest))) (length es1) x ty o.
  Proof.
    intros Hok H.
    assert (Hx : exists k, x = SL [SA 104; SA k]).
    { unfold sp_lookup in H.
      repeat match type of H with context [match ?v with _ => _ end] => is_var v; destruct v; try discriminate H end.
      eexists. reflexivity. }
    destruct Hx as [k ->].
    destruct (start_walked sp_ty first es1 rest _ ty o (sp_lookup_is_start entry _ _ _ _ _ k o ty Hok H)) as (Hk & o' & len & Hf & Ho).
    exists k, o', len. split; [reflexivity|]. split; [exact Hk|]. split; [exact Hf|exact Ho].
  Qed.
End SpSplit.
