(* Only the concatenation of the bytes matters to a sink, never how they are chunked (C14). *)
From Coq Require Import NArith List Lia.
From ACPI Require Import Lib.Bytes Lib.Sx Impl.Checksum Impl.Sink Proofs.ChecksumP.
Import ListNotations.
Open Scope N_scope.

Lemma byte_in_range_call c : bytes_ok (call_bytes c) = true \/ (exists b, c = SByte b) \/ (exists l, c = SVec l).
Proof. destruct c; cbn [call_bytes]; auto using le_bytes_ok; right; [left|right]; eauto. Qed.

Section Default.
  Context {S : Type}.
  Variable bytef : S -> N -> S.

  Lemma d_call_flat s c : d_call bytef s c = fold_left bytef (call_bytes c) s.
  Proof. destruct c; reflexivity. Qed.

  (* a sink implementing only `byte` observes exactly the flattened stream, one byte at a time *)
  Lemma run_default_flat t : forall s, run_default bytef s t = fold_left bytef (flatten t) s.
  Proof.
    induction t as [|c t IH]; intros s; [reflexivity|].
    unfold run_default, flatten in *. cbn [fold_left map concat]. rewrite fold_left_app, IH, d_call_flat. reflexivity.
  Qed.
End Default.

Lemma run_vec_flat t : forall s, run_vec s t = s ++ flatten t.
Proof.
  induction t as [|c t IH]; intros s; unfold run_vec, flatten in *; cbn [fold_left map concat]; [now rewrite app_nil_r|].
  rewrite IH. destruct c; cbn [vec_call call_bytes]; now rewrite <- app_assoc.
Qed.

Lemma run_cksum_flat t s : run_cksum s t = ck_append s (flatten t).
Proof. unfold run_cksum. rewrite run_default_flat. reflexivity. Qed.

(* two traces with the same concatenation are indistinguishable to every one of these sinks *)
Lemma same_flat_same_obs {S} (bytef : S -> N -> S) t1 t2 s :
  flatten t1 = flatten t2 -> run_default bytef s t1 = run_default bytef s t2.
Proof. intros H. rewrite !run_default_flat, H. reflexivity. Qed.

(* u8sum(x) = Checksum::default() fed with x's trace = the arithmetic sum of the serialised bytes mod 256 *)
Lemma u8sum_is_sum8 t : run_cksum 0 t = sum8 (flatten t).
Proof. rewrite run_cksum_flat. rewrite ck_append_sum8 by lia. rewrite N.add_0_l. reflexivity. Qed.
