(* HEST: the table-specific obligations of the generic history invariant, and the relation between the component-21
   history runner (which also carries the stand-alone structures) and the generic addition runner. *)
From Coq Require Import NArith ZArith List Lia Bool Arith.
From ACPI Require Import Lib.Bytes Lib.Sx Lib.Machine Impl.Checksum Impl.Table Impl.Fields Impl.Run Impl.Madt Impl.Gas Impl.Hest
  Spec.Layout Proofs.ChecksumP Proofs.TableP Proofs.MadtP Proofs.Tables.
Import ListNotations.
Open Scope N_scope.

Lemma hest_new_inv c s0 : hest_new c = Some s0 -> Inv2 KHest s0.
Proof.
  unfold hest_new. destruct c as [|l]; [discriminate|].
  destruct l as [|o [|t [|r [|x l]]]]; try discriminate.
  destruct (sx_hdr [72; 69; 83; 84] 1 o t r) as [h|] eqn:Eh; [|discriminate]. cbn [option_bind].
  intros H. inversion H; subst.
  apply tbl_new_inv2; [eapply sx_hdr_ok; [|exact Eh]; reflexivity | reflexivity].
Qed.

(* add_structure passes t.as_bytes() to update_header, whose length is data.len(): claimed = written, for every source *)
Lemma hest_addition_sound s o e : t_kind s = KHest -> hest_addition s o = Some e ->
  a_claimed e = N.of_nat (length (a_bytes e)) /\
  (needs_pos (t_kind s) = true -> (1 <= length (a_bytes e))%nat /\ a_claimed e < 2 ^ 16).
Proof.
  intros Hk. unfold hest_addition.
  destruct (hest_entry o); [|discriminate]. cbn [option_bind]. intros H. inversion H; subst; cbn [a_claimed a_bytes].
  split; [reflexivity|]. rewrite Hk. discriminate.
Qed.

Definition hest_table : addtable :=
  {| at_name := [72; 69; 83; 84]; at_kind := KHest; at_new := hest_new; at_entry := hest_addition;
     at_new_inv := hest_new_inv; at_sound := hest_addition_sound |}.

(* ---- the sizes the specification assigns to each source type are the sizes the structures serialise to ---- *)

Lemma length_ser_flds_fset f i v : length (ser_flds (fset f i v)) = length (ser_flds f).
Proof.
  revert i; induction f as [|[w x] f IH]; intros [|i]; cbn [fset]; try reflexivity.
  - unfold ser_flds. cbn [map concat fst snd]. rewrite !app_length, !length_le. reflexivity.
  - unfold ser_flds in *. cbn [map concat fst snd]. rewrite !app_length. now rewrite IH.
Qed.

Lemma length_ser_flds_fset_seq vals : forall f i, length (ser_flds (fset_seq f i vals)) = length (ser_flds f).
Proof.
  induction vals as [|v vals IH]; intros f i; cbn [fset_seq]; [reflexivity|].
  rewrite IH. apply length_ser_flds_fset.
Qed.

Lemma apply_setters_length (setter : flds -> sx -> option flds) :
  (forall f o f', setter f o = Some f' -> length (ser_flds f') = length (ser_flds f)) ->
  forall l f f', apply_setters setter f l = Some f' -> length (ser_flds f') = length (ser_flds f).
Proof.
  intros Hs l. induction l as [|o l IH]; intros f f' H; cbn [apply_setters] in H.
  - inversion H; subst. reflexivity.
  - destruct (setter f o) as [f1|] eqn:E; [|discriminate]. rewrite (IH _ _ H). eapply Hs; eauto.
Qed.

Ltac setter_cases H :=
  repeat match type of H with
         | match ?x with _ => _ end = Some _ => destruct x; try discriminate
         | option_bind ?x _ = Some _ => let E := fresh "E" in destruct x eqn:E; [cbn [option_bind] in H|discriminate]
         end;
  try (inversion H; subst; clear H).

Lemma aer_setter_length ty f o f' : aer_setter ty f o = Some f' -> length (ser_flds f') = length (ser_flds f).
Proof.
  unfold aer_setter. intros H. setter_cases H; apply length_ser_flds_fset.
Qed.

Lemma notif_setter_length f o f' : notif_setter f o = Some f' -> length (ser_flds f') = length (ser_flds f).
Proof.
  unfold notif_setter. intros H. setter_cases H; apply length_ser_flds_fset.
Qed.

Lemma ghes_setter_length ty f o f' : ghes_setter ty f o = Some f' -> length (ser_flds f') = length (ser_flds f).
Proof.
  unfold ghes_setter. intros H. setter_cases H;
    first [apply length_ser_flds_fset | apply length_ser_flds_fset_seq].
Qed.

Lemma aer_new_length ty c f : aer_new ty c = Some f ->
  length (ser_flds f) = (44 + length (ser_flds (aer_tail ty)))%nat.
Proof.
  unfold aer_new. intros H. setter_cases H; reflexivity.
Qed.

(* type code -> size table of SPEC_NOTES (6 -> 48, 7 -> 44, 8 -> 56, 9 -> 64, 10 -> 92) *)
Definition hest_size_of_op (o : sx) : nat :=
  match o with
  | SL (SA 1 :: _) => 48 | SL (SA 2 :: _) => 44 | SL (SA 3 :: _) => 56 | SL (SA 4 :: _) => 64 | SL (SA 5 :: _) => 92
  | _ => 0
  end%nat.

Lemma hest_entry_size o f : hest_entry o = Some f -> length (ser_flds f) = hest_size_of_op o.
Proof.
  unfold hest_entry. intros H.
  repeat match type of H with
         | match ?x with _ => _ end = Some _ => destruct x; try discriminate
         end;
  try match type of H with
      | option_bind (aer_new ?ty ?c) _ = Some _ =>
          let E := fresh "E" in
          destruct (aer_new ty c) as [f0|] eqn:E; [cbn [option_bind] in H|discriminate];
          rewrite (apply_setters_length _ (aer_setter_length ty) _ _ _ H), (aer_new_length _ _ _ E); reflexivity
      end;
  first [ rewrite (apply_setters_length _ (ghes_setter_length 9) _ _ _ H); reflexivity
        | rewrite (apply_setters_length _ (ghes_setter_length 10) _ _ _ H); reflexivity ].
Qed.

(* ---- the stand-alone operations never touch the table: the table component of a component-21 history is the
   table reached by the generic addition runner on the same history without them ---- *)
Fixpoint hest_run (md : mode) (s : hstate) (ops : list sx) : option hstate :=
  match ops with
  | [] => Some s
  | SA _ :: r => hest_run md s r
  | o :: r => match hest_step md s o with Some (s', _) => hest_run md s' r | None => None end
  end.

Lemma hest_run_tbl md ops : forall s s',
  hest_run md s ops = Some s' ->
  run_adds hest_addition md (hs_tbl s) (filter (fun o => negb (is_alone o)) ops) = Some (hs_tbl s').
Proof.
  induction ops as [|o ops IH]; intros s s' H; cbn [hest_run] in H.
  - inversion H; subst. reflexivity.
  - destruct o as [n|l].
    + cbn [filter is_alone negb run_adds]. now apply IH.
    + unfold hest_step in H. destruct (is_alone (SL l)) eqn:Ea; cbn [filter]; rewrite Ea; cbn [negb].
      * destruct (hest_alone (SL l)); [|discriminate]. cbn [option_bind] in H. apply IH in H. exact H.
      * cbn [run_adds]. destruct (add_step hest_addition md (hs_tbl s) (SL l)) as [[t1 evs]|]; [|discriminate].
        cbn [option_bind fst snd] in H. apply IH in H. exact H.
Qed.

(* C01 / C02 for every component-21 history: whatever stand-alone structures were built in between, the table
   image sums to 0 and declares its own size *)
Theorem hest_history_table md c ops t0 s :
  hest_new c = Some t0 -> hest_run md {| hs_tbl := t0; hs_alone := None |} ops = Some s ->
  N.of_nat (length (tbl_image (hs_tbl s))) < 2 ^ 32 ->
  sum8 (tbl_image (hs_tbl s)) = 0 /\ field_at (tbl_image (hs_tbl s)) 4 4 = N.of_nat (length (tbl_image (hs_tbl s))).
Proof.
  intros Hn Hr Hfit. apply hest_run_tbl in Hr. cbn [hs_tbl] in Hr.
  pose proof (addtable_reach hest_table md c _ t0 (hs_tbl s) Hn Hr Hfit) as [I _].
  split; [now apply inv_sum8_zero | now apply image_len_field].
Qed.
