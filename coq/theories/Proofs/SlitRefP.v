(* SLIT: the Impl model refines the Spec layer (C04 as a theorem, containing C12 for the distance matrix).
   For every constructor argument and every history inside the specification's domain, in both build profiles, the
   model accepts the history and its image is byte for byte the reference image.  Derived from the cell-wise
   theorem of Proofs/SlitP.v (slit_run_spec / slit_run_accepts). *)
From Coq Require Import NArith ZArith List Lia Bool Arith.
From ACPI Require Import Lib.Bytes Lib.Sx Lib.Machine Impl.Checksum Impl.Table Impl.Fields Impl.Run Impl.Madt Impl.Slit
  Spec.Layout Spec.MadtS Spec.HmatS Spec.SlitS
  Proofs.ChecksumP Proofs.TableP Proofs.MadtP Proofs.FixedP Proofs.SlitP Proofs.RefCommonR2P.
Import ListNotations.

Ltac Zify.zify_post_hook ::= Z.to_euclidean_division_equations.

Open Scope N_scope.

(* the call an operation of the vocabulary stands for *)
Definition op_triple (o : sx) : N * N * N :=
  match o with SL [SA 1; SA a; SA b; SA v] => (a, b, v) | _ => (0, 0, 0) end.

Lemma slit_op_ok_inv n o : slit_op_ok n o = true ->
  exists a b v, o = SL [SA 1; SA a; SA b; SA v] /\ a < n /\ b < n /\ v < 256.
Proof.
  unfold slit_op_ok. intros H. break_sx H.
  apply andb_true_iff in H. destruct H as [H Hv]. apply andb_true_iff in H. destruct H as [Ha Hb].
  apply N.ltb_lt in Ha, Hb, Hv. eexists _, _, _. split; [reflexivity|]. auto.
Qed.

(* the Spec's abstract matrix is the one of Proofs/SlitP.v *)
Lemma last_pair_slit_last n i j ops : forallb (slit_op_ok n) ops = true ->
  forall acc, last_pair i j ops acc = slit_last i j (map op_triple ops) acc.
Proof.
  induction ops as [|o ops IH]; intros Hok acc; [reflexivity|].
  cbn [forallb] in Hok. apply andb_true_iff in Hok. destruct Hok as [Ho Hok].
  destruct (slit_op_ok_inv n o Ho) as (a & b & v & -> & _).
  cbn [last_pair map op_triple slit_last]. apply IH. exact Hok.
Qed.

(* the model's history runner on the vocabulary is slit_run on the calls *)
Lemma run_steps_slit_run md n ops : forallb (slit_op_ok n) ops = true ->
  forall s, run_steps (slit_step md) s ops = slit_run md s (map op_triple ops).
Proof.
  induction ops as [|o ops IH]; intros Hok s; [reflexivity|].
  cbn [forallb] in Hok. apply andb_true_iff in Hok. destruct Hok as [Ho Hok].
  destruct (slit_op_ok_inv n o Ho) as (a & b & v & -> & _ & _ & Hv).
  cbn [run_steps map op_triple slit_run]. rewrite slit_step_is.
  unfold cast, U8. change (2 ^ 8) with 256. rewrite (N.mod_small v 256) by exact Hv.
  destruct (slit_set_distance md s a b v) as [s1|]; cbn [option_map]; [apply IH; exact Hok|reflexivity].
Qed.

Lemma ops_in_range n ops : forallb (slit_op_ok n) ops = true -> Forall (op_in_range n) (map op_triple ops).
Proof.
  induction ops as [|o ops IH]; intros Hok; [constructor|].
  cbn [forallb] in Hok. apply andb_true_iff in Hok. destruct Hok as [Ho Hok].
  destruct (slit_op_ok_inv n o Ho) as (a & b & v & -> & Ha & Hb & _).
  cbn [map op_triple]. constructor; [split; assumption|]. apply IH. exact Hok.
Qed.

(* set_distance never touches the header fields other than the checksum *)
Lemma set_distance_hdr md s a b v s' : slit_set_distance md s a b v = Some s' -> st_hdr s' = st_hdr s.
Proof.
  unfold slit_set_distance. intros H.
  repeat match type of H with
         | option_bind ?x _ = Some _ => destruct x; [|discriminate H]; cbn [option_bind] in H
         | (if ?c then _ else _) = Some _ => destruct c
         end;
    apply rc_Some_inj in H; subst s'; reflexivity.
Qed.

Lemma slit_run_hdr md tr : forall s s', slit_run md s tr = Some s' -> st_hdr s' = st_hdr s.
Proof.
  induction tr as [|[[a b] v] tr IH]; intros s s' H; cbn [slit_run] in H.
  - apply rc_Some_inj in H. subst s'. reflexivity.
  - destruct (slit_set_distance md s a b v) as [s1|] eqn:E; [|discriminate].
    rewrite (IH s1 s' H). eapply set_distance_hdr; eassumption.
Qed.

(* the constructor accepts every matrix that fits the Length field *)
Lemma slit_new_accepts o t r0 n ha : sx_hdr_args o t r0 = Some ha -> 44 + n * n < 2 ^ 32 ->
  exists s0, slit_new (SL [o; t; r0; SA n]) = Some s0 /\ st_loc s0 = n /\
    h_sig (st_hdr s0) = [83; 76; 73; 84] /\ h_rev (st_hdr s0) = 1 /\ h_oem (st_hdr s0) = ha_oem ha /\
    h_tbl (st_hdr s0) = ha_tbl ha /\ h_orev (st_hdr s0) = ha_orev ha.
Proof.
  intros Eh Hsz.
  destruct (sx_hdr_of_args [83; 76; 73; 84] 1 o t r0 ha Eh) as (h & Eh' & Hs & Hrv & Ho & Ht & Hv).
  unfold slit_new. rewrite Eh'. cbn [option_bind]. unfold mul_c, add_c.
  destruct (N.ltb_spec (n * n) U32) as [H1|H1]; [|unfold U32 in H1; lia]. cbn [option_bind].
  destruct (N.ltb_spec (n * n + 44) U32) as [H2|H2]; [|unfold U32 in H2; lia]. cbn [option_bind].
  eexists. split; [reflexivity|]. cbn [st_loc st_hdr]. repeat split; assumption.
Qed.

(* SLIT: for every constructor argument and every history in the specification's domain, in both build profiles,
   the model accepts the history and its image is the reference image *)
Theorem slit_refines md ctor ops r :
  ts_image slit_spec ctor ops = Some r ->
  exists s0 s, slit_new ctor = Some s0 /\ run_steps (slit_step md) s0 ops = Some s /\ Impl.Slit.slit_image s = r.
Proof.
  cbn [ts_image slit_spec]. unfold SlitS.slit_image. intros H.
  destruct ctor as [|[|o [|t [|r0 [|[n|] [|x c]]]]]]; try discriminate.
  destruct (sx_hdr_args o t r0) as [ha|] eqn:Eh; [|discriminate].
  match type of H with (if ?c then _ else _) = _ => destruct c eqn:Ec; [|discriminate] end.
  apply andb_true_iff in Ec. destruct Ec as [Hsz Hok]. apply N.ltb_lt in Hsz.
  apply rc_Some_inj in H. subst r.
  destruct (slit_new_accepts o t r0 n ha Eh Hsz) as (s0 & Enew & HL0 & Hs & Hrv & Ho & Ht & Hv).
  destruct (slit_new_inv _ _ Enew) as [I0 Hd].
  (* the history is accepted *)
  pose proof (ops_in_range n ops Hok) as Hin. rewrite <- HL0 in Hin.
  destruct (slit_run_accepts md (map op_triple ops) s0 I0 Hin) as [s Er].
  exists s0, s. split; [exact Enew|]. split; [rewrite (run_steps_slit_run md n ops Hok); exact Er|].
  (* its image is the reference image *)
  pose proof (slit_run_nowrap md _ _ _ I0 Er) as Hw.
  destruct (slit_run_spec md _ s0 s I0 Er Hw) as (I & HL & _ & Hc).
  pose proof (slit_run_hdr md _ _ _ Er) as Hh.
  assert (Hlen : N.of_nat (length (vlist (st_ents s))) = n * n).
  { rewrite <- vlen_vlist, (si_shape s I), HL, HL0. reflexivity. }
  assert (Ecells : vlist (st_ents s) = flat_map (fun i => map (fun j => last_pair i j ops 10) (seqN n)) (seqN n)).
  { apply list_is_matrix; [exact Hlen|].
    intros i j Hi Hj. rewrite (last_pair_slit_last n i j ops Hok).
    rewrite slit_last_sym. rewrite <- HL0 in Hi, Hj.
    pose proof (Hc j i Hj Hi) as Hm. unfold mcell, cells in Hm. rewrite HL, HL0 in Hm.
    replace (i * n + j) with (j + n * i) by lia. rewrite Hm.
    f_equal. apply Hd.
    pose proof (cell_index_lt (st_loc s0) j i Hj Hi) as Hk. pose proof (si_shape s0 I0) as Hsh. rewrite vlen_vlist in Hsh.
    rewrite HL0 in *. lia. }
  unfold Impl.Slit.slit_image. rewrite <- Ecells.
  replace (le 8 n) with (q8 (st_loc s)) by (rewrite HL, HL0; reflexivity).
  apply image_is_ref_table; try (rewrite Hh; assumption).
  - rewrite (si_len s I), HL, HL0. rewrite app_length. unfold q8. rewrite length_le. lia.
  - exact (sinv_sum8 s I).
Qed.

(* the same at the entry point: the history observed once at its end reports one number per operation, no refusal,
   and the reference image *)
Lemma slit_ops_lists n ops : forallb (slit_op_ok n) ops = true -> all_lists ops.
Proof.
  induction ops as [|o ops IH]; intros Hok; [constructor|].
  cbn [forallb] in Hok. apply andb_true_iff in Hok. destruct Hok as [Ho Hok].
  destruct (slit_op_ok_inv n o Ho) as (a & b & v & -> & _).
  constructor; [eexists; reflexivity|apply IH; exact Hok].
Qed.

Lemma slit_step_nums md s o s1 e : slit_step md s o = Some (s1, e) -> Forall is_num e.
Proof.
  unfold slit_step. intros H. break_sx H.
  destruct (slit_set_distance md s _ _ _); [|discriminate]. cbn [option_bind] in H.
  apply rc_Some_inj in H. inversion H; subst. constructor; [eexists; reflexivity|constructor].
Qed.

Corollary slit_case_refines md ctor ops r :
  ts_image slit_spec ctor ops = Some r ->
  exists evs, Forall is_num evs /\ slit_case md (SL (ctor :: ops ++ [SA 1])) = evs ++ [EvBytes r].
Proof.
  intros H. destruct (slit_refines md ctor ops r H) as (s0 & s & Hn & Hr & Hi).
  unfold slit_case.
  apply (run_history_end (fun s => Some (Impl.Slit.slit_image s)) (slit_step md) (slit_step_nums md) slit_new ctor ops s0 s r);
    try assumption; [|congruence].
  cbn [ts_image slit_spec] in H. unfold SlitS.slit_image in H.
  destruct ctor as [|[|o [|t [|r0 [|[n|] [|x c]]]]]]; try discriminate.
  destruct (sx_hdr_args o t r0); [|discriminate].
  match type of H with (if ?c then _ else _) = _ => destruct c eqn:Ec; [|discriminate] end.
  apply andb_true_iff in Ec. destruct Ec as [_ Hok]. eapply slit_ops_lists; exact Hok.
Qed.

Print Assumptions slit_refines.
Print Assumptions slit_case_refines.
