(* Coherence of the executable judgement with the theorems about the Impl model, continued (Proofs/CoherenceTablesP.v):
   the oracles that WALK the observed images.

     C05  c05_oracle (Spec/Layout.v): like c04_oracle, but judge_history is given [c05_handles_ok ts], which checks every
          handle returned so far (pending : list of (handle, index of the operation that returned it)) against the offset at
          which the Spec walker finds that operation's entry in the observed image.   PPTT 16, RHCT 17, RIMT 18, VIOT 19.
     C03  c03_full_oracle / c03_extra_oracle (Judge.v): at every observation c03_judge (the walk finds the (type, length) list
          of the entries added, lands on the end, count fields hold) and c03_self (every entry is consistent with itself).

   Generic part (this file):
     [pend]            the pending list judge_history has accumulated after a prefix of real operations, computed from the model;
     [judge_obs_h]     judge_history with ANY handles_ok accepts the model's own stream when, after every prefix p of the
                       real operations, the model's image satisfies [judge img p] and [handles_ok img (pend p)]
                       (extends judge_obs of CoherenceTablesP.v, where handles_ok is trivial);
     [pend_in]         every pending pair (h, k) comes from operation number k of the prefix, which returns a handle, and h is
                       the number the model reported for it;
     [walk_coherent]   the shape of Section Special (CoherenceSpecialP.v: refinement on a prefix-closed domain with side conditions
                       wf / fits): a judgement true of every covered reference image, and a handles_ok true of every covered
                       reference image with the model's pending list, are accepted along the model's stream.
   Instances: Proofs/CoherenceWalkC05P.v (C05) and Proofs/CoherenceWalkC03P.v (C03). *)
From Coq Require Import NArith List Bool Lia Arith.
From ACPI Require Import Lib.Bytes Lib.Sx Lib.Machine Impl.Table Impl.Run Spec.Layout Proofs.FixedP Proofs.CoherenceTablesP.
Import ListNotations.
Open Scope N_scope.

Definition all_lists (p : list sx) : Prop := Forall (fun o => match o with SA _ => False | SL _ => True end) p.

Lemma all_lists_prefix ops p q : real_ops ops = p ++ q -> all_lists p.
Proof.
  intros E. pose proof (real_ops_all_lists ops) as F. rewrite E in F. apply Forall_app in F. exact (proj1 F).
Qed.

Section Pending.
  Context {S : Type}.
  Variable step : S -> sx -> option (S * list ev).
  Hypothesis step_one : forall s o s' evs, step s o = Some (s', evs) -> exists h, evs = [EvNum h].
  Variable returns : sx -> bool.

  (* the pending handles after the operations p, applied from state s when n operations had been applied before *)
  Fixpoint pend (s : S) (n : nat) (p : list sx) (acc : list (N * nat)) : list (N * nat) :=
    match p with
    | [] => acc
    | o :: r =>
        match step s o with
        | Some (s', evs) =>
            pend s' (Datatypes.S n) r
                 (match evs with EvNum h :: _ => if returns o then (h, n) :: acc else acc | _ => acc end)
        | None => acc
        end
    end.

  (* where a pending pair comes from *)
  Lemma pend_in p : forall s n acc h k,
    all_lists p -> In (h, k) (pend s n p acc) ->
    In (h, k) acc \/
    exists pre o post sk sk1, p = pre ++ o :: post /\ k = (n + length pre)%nat /\
      run_steps step s pre = Some sk /\ step sk o = Some (sk1, [EvNum h]) /\ returns o = true.
  Proof.
    induction p as [|o p IH]; intros s n acc h k Hl Hin.
    - left. exact Hin.
    - inversion Hl as [|x l0 Ho Hl']; subst. cbn [pend] in Hin.
      destruct (step s o) as [[s' evs]|] eqn:Es; [|left; exact Hin].
      destruct (step_one s o s' evs Es) as [h0 ->].
      destruct (IH s' (Datatypes.S n) _ h k Hl' Hin) as [Hacc|(pre & o' & post & sk & sk1 & -> & -> & Hr & Hst & Hret)].
      + destruct (returns o) eqn:Er; [|left; exact Hacc].
        destruct Hacc as [Heq|Hacc]; [|left; exact Hacc].
        inversion Heq; subst h0 k. right. exists [], o, p, s, s'. cbn [app length run_steps].
        repeat split; [lia|exact Es|exact Er].
      + right. exists (o :: pre), o', post, sk, sk1. cbn [app length].
        split; [reflexivity|]. split; [lia|]. split; [|split; assumption].
        destruct o as [a|l]; [destruct Ho|]. cbn [run_steps]. rewrite Es. exact Hr.
  Qed.
End Pending.

Section GenericH.
  Context {S : Type}.
  Variable image : S -> option (list N).
  Variable step : S -> sx -> option (S * list ev).
  Hypothesis step_one : forall s o s' evs, step s o = Some (s', evs) -> exists h, evs = [EvNum h].
  Variable returns : sx -> bool.
  Variable judge : list N -> list sx -> bool.
  Variable handles_ok : list N -> list (N * nat) -> bool.

  Lemma judge_obs_h ops : forall s sf rp pending,
    markers_ok ops = true ->
    run_steps step s ops = Some sf ->
    (forall p q s1, real_ops ops = p ++ q -> run_steps step s p = Some s1 ->
                    exists img, image s1 = Some img /\ judge img (rev rp ++ p) = true
                                /\ handles_ok img (pend step returns s (length rp) p pending) = true) ->
    judge_history returns judge handles_ok rp ops (obs image step s ops) pending = true.
  Proof.
    induction ops as [|o r IH]; intros s sf rp pending Hm Hr Hp.
    - reflexivity.
    - cbn [markers_ok forallb] in Hm. apply andb_true_iff in Hm. destruct Hm as [Ho Hm].
      destruct o as [n|l].
      + apply N.eqb_eq in Ho. subst n. cbn [run_steps] in Hr.
        rewrite real_ops_cons_SA in Hp.
        destruct (Hp [] (real_ops r) s eq_refl eq_refl) as (img & Hi & Hj & Hh).
        rewrite app_nil_r in Hj. cbn [pend] in Hh.
        pose proof (IH s sf rp pending Hm Hr Hp) as J.
        cbn [obs]. rewrite Hi. cbn [judge_history].
        rewrite frev_rev, Hj, Hh, J. reflexivity.
      + cbn [run_steps] in Hr.
        destruct (step s (SL l)) as [[s' evs]|] eqn:Es; [|discriminate].
        destruct (step_one s (SL l) s' evs Es) as [h ->].
        assert (J : judge_history returns judge handles_ok (SL l :: rp) r (obs image step s' r)
                      (if returns (SL l) then (h, length rp) :: pending else pending) = true).
        { apply (IH s' sf (SL l :: rp) _ Hm Hr).
          intros p q s1 E Hs. rewrite real_ops_cons_SL in Hp.
          destruct (Hp (SL l :: p) q s1) as (img & Hi & Hj & Hh).
          - rewrite E. reflexivity.
          - cbn [run_steps]. rewrite Es. exact Hs.
          - exists img. split; [exact Hi|]. split.
            + cbn [rev]. rewrite <- app_assoc. exact Hj.
            + cbn [pend] in Hh. rewrite Es in Hh. exact Hh. }
        cbn [obs]. rewrite Es. cbn [app judge_history]. exact J.
  Qed.

End GenericH.

(* ---------- refinement on a prefix-closed domain: judgements of the reference image are accepted along the model's stream ---------- *)
Section WalkCoherent.
  Context {S : Type}.
  Variable spec : tspec.
  Variable new : sx -> option S.
  Variable step : mode -> S -> sx -> option (S * list ev).
  Variable image : S -> option (list N).
  Variable wf : list sx -> Prop.           (* side condition on the history *)
  Variable fits : list N -> Prop.          (* side condition on the reference image *)
  Hypothesis step_one : forall md s o s' evs, step md s o = Some (s', evs) -> exists h, evs = [EvNum h].
  Hypothesis Href : forall md ctor p r, ts_image spec ctor p = Some r -> wf p -> fits r ->
    exists s0 s, new ctor = Some s0 /\ run_steps (step md) s0 p = Some s /\ image s = Some r.
  Hypothesis wf_prefix : forall p q, wf (p ++ q) -> wf p.
  Hypothesis dom_closed : forall ctor p q r, ts_image spec ctor (p ++ q) = Some r -> wf (p ++ q) -> fits r ->
    exists r1, ts_image spec ctor p = Some r1 /\ fits r1.

  Variable returns : sx -> bool.
  Variable judge : sx -> list N -> list sx -> bool.
  Variable handles_ok : list N -> list (N * nat) -> bool.
  (* the judgement holds of every covered reference image *)
  Hypothesis ref_judge : forall ctor p r, ts_image spec ctor p = Some r -> wf p -> fits r -> judge ctor r p = true.
  (* the handles the model reported along a covered history are accepted on that history's reference image *)
  Hypothesis ref_handles : forall md ctor p r s0 s1,
    ts_image spec ctor p = Some r -> wf p -> fits r -> all_lists p ->
    new ctor = Some s0 -> run_steps (step md) s0 p = Some s1 -> image s1 = Some r ->
    handles_ok r (pend (step md) returns s0 0 p []) = true.

  Theorem walk_coherent md ctor ops r :
    markers_ok ops = true -> wf (real_ops ops) -> ts_image spec ctor (real_ops ops) = Some r -> fits r ->
    judge_history returns (judge ctor) handles_ok [] ops (run_history image (step md) new (SL (ctor :: ops))) [] = true.
  Proof.
    intros Hm Hw Ht Hf.
    destruct (Href md ctor (real_ops ops) r Ht Hw Hf) as (s0 & sf & Hn & Hr & _).
    rewrite run_steps_real in Hr.
    rewrite (run_history_obs image (step md) new ctor ops s0 Hn).
    apply (judge_obs_h image (step md) (step_one md) returns (judge ctor) handles_ok ops s0 sf [] [] Hm Hr).
    intros p q s1 E Hs1. cbn [rev app length].
    pose proof Hw as Hw'. pose proof Ht as Ht'. rewrite E in Hw', Ht'.
    destruct (dom_closed ctor p q r Ht' Hw' Hf) as (r1 & Ht1 & Hf1).
    pose proof (wf_prefix p q Hw') as Hwp.
    destruct (Href md ctor p r1 Ht1 Hwp Hf1) as (s0' & s' & Hn' & Hr' & Hi').
    rewrite Hn in Hn'. inversion Hn'; subst s0'. rewrite Hs1 in Hr'. inversion Hr'; subst s'.
    exists r1. split; [exact Hi'|]. split; [exact (ref_judge ctor p r1 Ht1 Hwp Hf1)|].
    exact (ref_handles md ctor p r1 s0 s1 Ht1 Hwp Hf1 (all_lists_prefix ops p q E) Hn Hs1 Hi').
  Qed.
End WalkCoherent.
