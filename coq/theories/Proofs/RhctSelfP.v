(* RHCT, property C03, per-entry part: the reference image of every in-domain history passes the self-check
   (ISA string node: string length incl. NUL, padding to an even size, NUL in place; CMO / MMU nodes: fixed sizes;
   hart info node: offset count against the node length). *)
From Coq Require Import NArith ZArith List Lia Bool Arith ZifyBool ZifyNat ZifyN.
From ACPI Require Import Lib.Bytes Lib.Sx Spec.Layout Spec.MadtS Spec.HmatS Spec.PpttS Spec.RhctS Spec.SelfCheck Judge
  Proofs.WalkP Proofs.WalkRefCommon2P Proofs.RhctWalkRefP Proofs.SelfCommonP.
Import ListNotations.

Ltac Zify.zify_post_hook ::= Z.to_euclidean_division_equations.

Open Scope N_scope.

Lemma rhct_ty_field e : rhct_ty e = field_at e 0 2.
Proof. reflexivity. Qed.

Lemma odd_mod2 m : (if Nat.odd m then 1 else 0)%nat = (m mod 2)%nat.
Proof.
  destruct (Nat.odd m) eqn:E.
  - apply Nat.odd_spec in E. destruct E as [k ->]. rewrite Nat.add_comm, Nat.mul_comm, Nat.mod_add by lia. reflexivity.
  - assert (E' : Nat.even m = true) by (rewrite <- Nat.negb_odd, E; reflexivity).
    apply Nat.even_spec in E'. destruct E' as [k ->]. rewrite Nat.mul_comm, Nat.mod_mul by lia. reflexivity.
Qed.

Lemma rhct_entry_self_ok p o e : rhct_entry_ref p o = Some e -> entry_self_ok 17 (rhct_ty e) e = true.
Proof.
  intros H. unfold rhct_entry_ref in H. rewrite rhct_ty_field. cbn [entry_self_ok].
  destruct o as [|l]; [discriminate H|]. destruct l as [|[op|] l]; try discriminate H.
  destruct op as [|op]; try discriminate H.
  repeat (destruct op as [op|op|]; try discriminate H).
  - (* 3: CMO *)
    destruct l as [|[cbom|] [|[cbop|] [|[cboz|] [|]]]]; try discriminate H.
    destruct ((cbom <? 256) && (cbop <? 256) && (cboz <? 256)); [|discriminate H].
    destruct (lay_decodes _ _ _ H) as [Hlen Hf].
    rewrite (Hf 0%nat 2%nat 1) by (cbn [In L]; tauto).
    change (1 mod 2 ^ (8 * N.of_nat 2)) with 1. cbn [rhct_self]. rewrite Hlen. reflexivity.
  - (* 4: hart info *)
    destruct l as [|[uid|] [|isa [|[|cmos] [|]]]]; try discriminate H.
    destruct (resolve p 0 isa) as [i|]; [|discriminate H].
    destruct (resolve_all p 1 cmos) as [cs|]; [|discriminate H].
    destruct (uid <? 2 ^ 32); [|discriminate H]. cbn [andb] in H.
    destruct (N.leb_spec (N.of_nat (12 + 4 * S (length cs))) 65535) as [Hle|]; [|discriminate H].
    destruct (lay_then_decodes _ _ _ _ H) as [Hlen Hf].
    rewrite length_arr in Hlen. cbn [length] in Hlen.
    rewrite (Hf 0%nat 2%nat 65535) by (cbn [In L]; try tauto; lia).
    change (65535 mod 2 ^ (8 * N.of_nat 2)) with 65535. cbn [rhct_self].
    rewrite (Hf 6%nat 2%nat (N.of_nat (S (length cs)))) by (cbn [In L]; try tauto; lia).
    rewrite pow8_2, N.mod_small by lia. unfold lenN. rewrite Hlen. apply N.eqb_eq. lia.
  - (* 2: MMU *)
    destruct l as [|[scheme|] [|]]; try discriminate H.
    destruct (scheme <? 3); [|discriminate H].
    destruct (lay_decodes _ _ _ H) as [Hlen Hf].
    rewrite (Hf 0%nat 2%nat 2) by (cbn [In L]; tauto).
    change (2 mod 2 ^ (8 * N.of_nat 2)) with 2. cbn [rhct_self]. rewrite Hlen. reflexivity.
  - (* 1: ISA string *)
    destruct l as [|str [|]]; try discriminate H.
    destruct (sx_bytes str) as [b|]; [|discriminate H]. cbv zeta in H.
    destruct (forallb _ b); [|discriminate H]. cbn [andb] in H.
    rewrite odd_mod2 in H.
    remember (8 + length b + 1 + (8 + length b + 1) mod 2)%nat as total eqn:Et.
    destruct (N.leb_spec (N.of_nat total) 65535) as [Hle|]; [|discriminate H].
    destruct (lay_then_decodes _ _ _ _ H) as [Hlen Hf].
    destruct (lay_then_split _ _ _ _ H) as (fixed & Hfx & He).
    assert (Hl : length e = total).
    { rewrite Hlen, Et, !app_length. cbn [length].
      destruct (Nat.odd (8 + length b + 1)) eqn:Eo; rewrite <- (odd_mod2 (8 + length b + 1)), Eo; cbn [length]; lia. }
    rewrite (Hf 0%nat 2%nat 0) by (cbn [In L]; try tauto; lia).
    change (0 mod 2 ^ (8 * N.of_nat 2)) with 0. cbn [rhct_self].
    rewrite (Hf 6%nat 2%nat (N.of_nat (length b + 1))) by (cbn [In L]; try tauto; lia).
    rewrite pow8_2, N.mod_small by lia.
    assert (H1 : (1 <=? N.of_nat (length b + 1)) = true) by (apply N.leb_le; lia).
    assert (H2 : (lenN e =? 8 + N.of_nat (length b + 1) + N.of_nat (length b + 1) mod 2) = true).
    { unfold lenN. rewrite Hl, Et. apply N.eqb_eq. lia. }
    assert (H3 : (byte_at e (7 + N.of_nat (length b + 1)) =? 0) = true).
    { rewrite He. cbn [app]. rewrite app_assoc. rewrite byte_at_here; [reflexivity| |lia].
      rewrite app_length, Hfx. lia. }
    rewrite H1, H2, H3. reflexivity.
Qed.

Lemma rhct_entries_from_self_ok ops : forall p next racc es,
  rhct_entries_from ops p next racc = Some es ->
  Forall (fun e => entry_self_ok 17 (rhct_ty e) e = true) racc ->
  Forall (fun e => entry_self_ok 17 (rhct_ty e) e = true) es.
Proof.
  induction ops as [|o ops IH]; intros p next racc es H HF; cbn [rhct_entries_from] in H.
  - apply wr_Some_inj in H. subst es. rewrite frev_rev. apply Forall_rev. exact HF.
  - destruct (rhct_entry_ref p o) as [e|] eqn:He; [|discriminate H].
    apply (IH _ _ _ _ H). constructor; [exact (rhct_entry_self_ok p o e He)|exact HF].
Qed.

Theorem rhct_selfcheck : forall ctor ops r, ts_image rhct_spec ctor ops = Some r -> c03_self 17 r = true.
Proof.
  intros ctor ops r H.
  destruct (rhct_image_shape ctor ops r H) as (ha & timebase & es & Ees & Hc & Ho & Ht & ->).
  unfold c03_self. change (ts_walk (spec_of 17)) with (Some (56%nat, H_u16_u16)).
  apply (c03_self_at_ref 17 56%nat H_u16_u16 rhct_ty); try assumption; try reflexivity.
  - apply (rhct_entries_from_self ops _ _ _ es Ees). constructor.
  - apply (rhct_entries_from_self_ok ops _ _ _ es Ees). constructor.
Qed.

Print Assumptions rhct_selfcheck.
