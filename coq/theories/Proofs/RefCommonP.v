(* Refinement of the incrementally maintained tables (Impl/Table.v instances) to their reference images, generic part.
   - the image of a state satisfying the accumulator invariant IS `ref_table` of its header arguments and body
     (the checksum byte is determined by the other bytes and the zero byte-sum);
   - a simulation theorem for histories: if every operation the Spec accepts is accepted by the model's `entry` with the
     reference bytes, the model's run over the whole history succeeds and its image is the reference image;
   - the same at the level of the `t_case` entry point (events).
   Used by MadtRefP / McfgRefP / XsdtRefP / SratRefP. *)
From Coq Require Import NArith ZArith List Lia Bool Arith.
From ACPI Require Import Lib.Bytes Lib.Sx Lib.Machine Impl.Checksum Impl.Table Impl.Fields Impl.Run Impl.Madt
  Spec.Layout Spec.MadtS Proofs.ChecksumP Proofs.TableP Proofs.MadtP Proofs.Tables.
Import ListNotations.

Ltac Zify.zify_post_hook ::= Z.to_euclidean_division_equations.

Open Scope N_scope.

(* ---------- the header: model serialiser = reference header ---------- *)
Definition mk_hdr (sig : list N) (rev : N) (ha : hdr_args) : hdr :=
  {| h_sig := sig; h_rev := rev; h_oem := ha_oem ha; h_tbl := ha_tbl ha; h_orev := ha_orev ha |}.

Lemma hdr_bytes_ref h len cks :
  hdr_bytes h len cks = ref_header (h_sig h) len (h_rev h) cks (h_oem h) (h_tbl h) (h_orev h).
Proof. reflexivity. Qed.

Lemma sumN_ref_header sig len rev cks oem tbl orev :
  sumN (ref_header sig len rev cks oem tbl orev) = sumN (ref_header sig len rev 0 oem tbl orev) + cks mod 256.
Proof.
  unfold ref_header. rewrite !sumN_app. cbn [sumN]. change (0 mod 256) with 0.
  generalize (sumN sig) (sumN (le 4 len)) (sumN oem) (sumN tbl) (sumN (le 4 orev)) (sumN CREATOR) (rev mod 256) (cks mod 256).
  intros. lia.
Qed.

(* the key fact: header fields + body + Length + zero byte-sum determine the image *)
Lemma ref_table_unique sig rev ha len cks rest :
  len = 36 + N.of_nat (length rest) -> cks < 256 ->
  sum8 (ref_header sig len rev cks (ha_oem ha) (ha_tbl ha) (ha_orev ha) ++ rest) = 0 ->
  ref_header sig len rev cks (ha_oem ha) (ha_tbl ha) (ha_orev ha) ++ rest = ref_table sig rev ha rest.
Proof.
  intros Hlen Hc Hs. unfold ref_table. rewrite <- Hlen.
  f_equal. f_equal.
  unfold sum8 in Hs. rewrite sumN_app, sumN_ref_header in Hs.
  set (A := sumN (ref_header sig len rev 0 (ha_oem ha) (ha_tbl ha) (ha_orev ha))) in *.
  set (R := sumN rest) in *. clearbody A R. clear - Hc Hs.
  assert (E : cks = (256 - (A + R) mod 256) mod 256) by lia.
  rewrite <- E.
  unfold ref_header. reflexivity.
Qed.

Lemma ck_value_lt c : c < 256 -> ck_value c < 256.
Proof. intros H. exact (proj2 (ck_value_spec c H)). Qed.

Lemma image_is_ref s sig rev ha fx :
  Inv s -> t_hdr s = mk_hdr sig rev ha -> mid (t_kind s) (t_pre s) (t_cnt s) = fx ->
  tbl_image s = ref_table sig rev ha (fx ++ t_body s).
Proof.
  intros I Hh Hm.
  pose proof (inv_sum8_zero s I) as Hs.
  pose proof (inv_len s I) as Hl.
  pose proof (inv_hdr s I) as Hok.
  assert (Hlen : t_len s = 36 + N.of_nat (length (fx ++ t_body s))).
  { rewrite Hl. unfold tbl_image. rewrite app_length, (length_hdr_bytes _ _ _ Hok), Hm. lia. }
  unfold tbl_image in *. rewrite Hm in *. rewrite hdr_bytes_ref in *. rewrite Hh in *. cbn [mk_hdr h_sig h_rev h_oem h_tbl h_orev] in *.
  apply ref_table_unique; [exact Hlen| |exact Hs].
  rewrite (inv_hck s I). apply ck_value_lt. exact (inv_ck_lt s I).
Qed.

Lemma sx_hdr_of_args sig rev o t r ha :
  sx_hdr_args o t r = Some ha -> sx_hdr sig rev o t r = Some (mk_hdr sig rev ha).
Proof.
  unfold sx_hdr_args, sx_hdr, sx_arr.
  destruct (sx_bytes o) as [a|]; [|discriminate]. destruct (sx_bytes t) as [b|]; [|discriminate].
  destruct (sx_num r) as [c|]; [|discriminate].
  destruct (Nat.eqb (length a) 6); [|discriminate]. destruct (Nat.eqb (length b) 8); [|discriminate].
  cbn [andb option_bind]. intros H. inversion H; subst. reflexivity.
Qed.

Lemma length_ref_table sig rev ha rest : hdr_ok (mk_hdr sig rev ha) = true ->
  length (ref_table sig rev ha rest) = (36 + length rest)%nat.
Proof.
  intros H. unfold ref_table. rewrite app_length. f_equal.
  exact (length_hdr_bytes (mk_hdr sig rev ha) _ _ H).
Qed.

(* ---------- the kinds whose add only does length arithmetic ---------- *)
Definition plain_kind (k : tkind) : bool :=
  match k with KXsdt | KMcfg | KMadt | KSrat | KHmat | KCedt => true | _ => false end.

Lemma plain_needs_pos k : plain_kind k = true -> needs_pos k = false.
Proof. destruct k; cbn; congruence. Qed.

Lemma plain_mid k pre c : plain_kind k = true -> mid k pre c = mid k pre 0.
Proof. destruct k; cbn; congruence. Qed.

Lemma tbl_add_plain md s st claimed bytes :
  plain_kind (t_kind s) = true -> Inv s ->
  N.of_nat (length (tbl_image s)) + claimed < 2 ^ 32 ->
  exists s1 h, tbl_add md s st claimed bytes = Some (s1, h).
Proof.
  intros Hp I Hfit. unfold tbl_add.
  assert (Hcast : cast U32 claimed = claimed) by (unfold cast, U32; apply N.mod_small; lia).
  rewrite Hcast.
  assert (Hnl : add_c U32 claimed (t_len s) = Some (claimed + t_len s)).
  { unfold add_m, add_c, U32. rewrite (inv_len s I).
    destruct (N.ltb_spec (claimed + N.of_nat (length (tbl_image s))) (2 ^ 32)); [reflexivity|lia]. }
  rewrite Hnl. cbn [option_bind].
  destruct (t_kind s); try discriminate Hp; cbn [option_bind]; eauto.
Qed.

Definition is_SL (o : sx) : Prop := match o with SL _ => True | SA _ => False end.

(* ---------- histories ---------- *)
Section Sim.
  Variable K : tkind.
  Hypothesis Kplain : plain_kind K = true.
  Variable entry : tbl -> sx -> option addition.
  Hypothesis entry_sound : forall s o e, t_kind s = K -> entry s o = Some e ->
    a_claimed e = N.of_nat (length (a_bytes e)) /\
    (needs_pos (t_kind s) = true -> (1 <= length (a_bytes e))%nat /\ a_claimed e < 2 ^ 16).
  (* the Spec's per-operation reference entry *)
  Variable eref : sx -> option (list N).
  Hypothesis eref_atom : forall n, eref (SA n) = None.
  (* what the remaining history must satisfy given the table's flag (MADT: at most one add_imsic) *)
  Variable ok : bool -> list sx -> Prop.
  Hypothesis step_ok : forall s o rest b, t_kind s = K -> ok (t_flag s) (o :: rest) -> eref o = Some b ->
    exists e, entry s o = Some e /\ a_bytes e = b /\ ok (a_flag e) rest.

  Lemma eref_ops_SL ops es : opt_concat (map eref ops) = Some es -> Forall is_SL ops.
  Proof.
    revert es; induction ops as [|o ops IH]; intros es H; [constructor|].
    cbn [map opt_concat] in H. destruct (eref o) as [b|] eqn:Eb; [|discriminate].
    destruct (opt_concat (map eref ops)) as [es'|]; [|discriminate].
    constructor; [|eapply IH; reflexivity].
    destruct o; [rewrite eref_atom in Eb; discriminate|exact Logic.I].
  Qed.

  Lemma sim_run md : forall ops s es,
    Inv2 K s -> ok (t_flag s) ops -> opt_concat (map eref ops) = Some es ->
    N.of_nat (length (tbl_image s)) + N.of_nat (length (concat es)) < 2 ^ 32 ->
    exists s', run_adds entry md s ops = Some s' /\ Inv2 K s' /\ t_ents s' = t_ents s ++ es /\
               t_hdr s' = t_hdr s /\ t_pre s' = t_pre s.
  Proof.
    induction ops as [|o ops IH]; intros s es I2 Hok Hes Hfit.
    - cbn [map opt_concat] in Hes. inversion Hes; subst. exists s. cbn [run_adds]. rewrite app_nil_r. auto.
    - cbn [map opt_concat] in Hes. destruct (eref o) as [b|] eqn:Eb; [|discriminate].
      destruct (opt_concat (map eref ops)) as [es'|] eqn:Ees; [|discriminate]. inversion Hes; subst es; clear Hes.
      destruct o as [n|l]; [rewrite eref_atom in Eb; discriminate|].
      destruct I2 as (I & HK & Hne).
      destruct (step_ok s (SL l) ops b HK Hok Eb) as (e & Ee & Hb & Hok').
      destruct (entry_sound s (SL l) e HK Ee) as [Hcl _].
      cbn [concat] in Hfit. rewrite app_length in Hfit.
      assert (Hfit1 : N.of_nat (length (tbl_image s)) + a_claimed e < 2 ^ 32) by (rewrite Hcl, Hb; lia).
      assert (Hpk : plain_kind (t_kind s) = true) by (rewrite HK; exact Kplain).
      destruct (tbl_add_plain md s (a_style e) (a_claimed e) (a_bytes e) Hpk I Hfit1) as (s1 & h & Eadd).
      assert (Hkf : kind_fits (t_kind s) (length (t_ents s)) (a_claimed e)).
      { unfold kind_fits. destruct (t_kind s); try exact Logic.I; discriminate Hpk. }
      destruct (tbl_add_inv md s _ _ _ s1 h I Eadd Hcl Hfit1 Hkf) as (I1 & Hh & He & Hk & Hhd & Hp & Hhs).
      assert (Estep : add_step entry md s (SL l) =
                      Some (set_flag s1 (a_flag e), [EvNum (if a_returns e then h else 0)])).
      { unfold add_step. rewrite Ee. cbn [option_bind]. rewrite Eadd. reflexivity. }
      cbn [run_adds]. rewrite Estep.
      assert (Hlen1 : length (tbl_image (set_flag s1 (a_flag e))) = (length (tbl_image s) + length b)%nat).
      { change (tbl_image (set_flag s1 (a_flag e))) with (tbl_image s1).
        rewrite !length_image by (first [exact (inv_hdr s I) | exact (inv_hdr s1 I1)]).
        unfold t_body. rewrite He, Hk, Hp, concat_app, app_length. cbn [concat]. rewrite app_nil_r, Hb. lia. }
      destruct (IH (set_flag s1 (a_flag e)) es') as (s' & Hr & I' & He' & Hhd' & Hp').
      + split; [now apply Inv_set_flag|]. split; [cbn [set_flag t_kind]; congruence|].
        cbn [set_flag t_kind]. rewrite Hk, HK, (plain_needs_pos K Kplain). discriminate.
      + cbn [set_flag t_flag]. exact Hok'.
      + reflexivity.
      + rewrite Hlen1. lia.
      + exists s'. split; [exact Hr|]. split; [exact I'|].
        change (t_ents (set_flag s1 (a_flag e))) with (t_ents s1) in He'.
        change (t_hdr (set_flag s1 (a_flag e))) with (t_hdr s1) in Hhd'.
        change (t_pre (set_flag s1 (a_flag e))) with (t_pre s1) in Hp'.
        rewrite He', He, Hb, <- app_assoc. cbn [app]. repeat split; congruence.
  Qed.

  (* from a fresh table: the run succeeds and the image is the reference table *)
  Lemma sim_image md s0 ops es sig rev ha fx :
    Inv2 K s0 -> t_ents s0 = [] -> ok (t_flag s0) ops ->
    t_hdr s0 = mk_hdr sig rev ha -> mid K (t_pre s0) 0 = fx ->
    opt_concat (map eref ops) = Some es ->
    N.of_nat (length (ref_table sig rev ha (fx ++ concat es))) < 2 ^ 32 ->
    exists s, run_adds entry md s0 ops = Some s /\ tbl_image s = ref_table sig rev ha (fx ++ concat es).
  Proof.
    intros I2 He0 Hok Hh Hm Hes Hfit.
    pose proof I2 as (I & HK & _).
    assert (Hhok : hdr_ok (mk_hdr sig rev ha) = true) by (rewrite <- Hh; exact (inv_hdr s0 I)).
    rewrite (length_ref_table _ _ _ _ Hhok), app_length in Hfit.
    assert (Hl0 : length (tbl_image s0) = (36 + length fx)%nat).
    { rewrite length_image by exact (inv_hdr s0 I). unfold t_body. rewrite He0, HK, Hm. cbn [concat length]. lia. }
    destruct (sim_run md ops s0 es I2 Hok Hes) as (s & Hr & (I' & HK' & _) & He & Hhd & Hp).
    - rewrite Hl0. lia.
    - exists s. split; [exact Hr|].
      rewrite (image_is_ref s sig rev ha fx I').
      + unfold t_body. rewrite He, He0. reflexivity.
      + congruence.
      + rewrite HK', Hp, (plain_mid K _ _ Kplain). exact Hm.
  Qed.

  (* the same through the history runner of Impl/Run.v: the case "ctor, ops, observe" yields one EvNum 0 per operation
     (for tables whose operations return no handle) and then the image *)
  Hypothesis no_handle : forall s o e, entry s o = Some e -> a_returns e = false.

  Lemma run_ops_acc_adds md : forall ops s s' acc,
    Forall is_SL ops -> run_adds entry md s ops = Some s' ->
    run_ops_acc (fun s => Some (tbl_image s)) (add_step entry md) s (ops ++ [SA 1]) acc
    = frev (EvBytes (tbl_image s') :: rev_append (map (fun _ => EvNum 0) ops) acc).
  Proof.
    induction ops as [|o ops IH]; intros s s' acc HF Hr.
    - cbn [run_adds] in Hr. inversion Hr; subst. reflexivity.
    - inversion HF as [|? ? Ho HF']; subst. destruct o as [n|l]; [destruct Ho|].
      cbn [run_adds] in Hr. cbn [app run_ops_acc].
      destruct (add_step entry md s (SL l)) as [[s1 evs]|] eqn:E; [|discriminate].
      rewrite (IH s1 s' _ HF' Hr). cbn [map rev_append]. do 3 f_equal.
      unfold add_step in E. destruct (entry s (SL l)) as [e|] eqn:Ee; [|discriminate]. cbn [option_bind] in E.
      destruct (tbl_add md s (a_style e) (a_claimed e) (a_bytes e)) as [r|]; [|discriminate]. cbn [option_bind] in E.
      inversion E; subst. rewrite (no_handle _ _ _ Ee). reflexivity.
  Qed.

  Lemma run_history_adds md new ctor ops s0 s :
    new ctor = Some s0 -> Forall is_SL ops -> run_adds entry md s0 ops = Some s ->
    run_history (fun s => Some (tbl_image s)) (add_step entry md) new (SL (ctor :: ops ++ [SA 1]))
    = map (fun _ => EvNum 0) ops ++ [EvBytes (tbl_image s)].
  Proof.
    intros Hn HF Hr. unfold run_history. rewrite Hn. unfold run_ops.
    rewrite (run_ops_acc_adds md ops s0 s [] HF Hr).
    rewrite frev_rev. cbn [rev]. rewrite <- rev_alt, rev_involutive. reflexivity.
  Qed.
End Sim.

(* ---------- small helpers for the per-entry lemmas ---------- *)
(* tables without a flag: nothing is required of the remaining history *)
Definition ok_any (_ : bool) (_ : list sx) : Prop := True.

(* case analysis on the variables an S-expression decoder matches on (and nothing else) *)
Ltac dvar H :=
  match type of H with context [match ?x with _ => _ end] => is_var x; destruct x; try discriminate H end.

(* "last value given to a setter" (Spec.MadtS.last_arg), threaded through its accumulator *)
Definition val (acc : option (list N)) : N := match acc with Some (v :: _) => v | _ => 0 end.
Definition val1 (acc : option (list N)) : N := match acc with Some (_ :: v :: _) => v | _ => 0 end.
Definition isS (acc : option (list N)) : bool := match acc with Some _ => true | None => false end.

Lemma arg0_val k st : arg0 k st = val (last_arg k st None).
Proof. reflexivity. Qed.
Lemma arg1_val1 k st : arg1 k st = val1 (last_arg k st None).
Proof. reflexivity. Qed.
Lemma called_isS k st : called k st = isS (last_arg k st None).
Proof. reflexivity. Qed.

(* checked assembly, when it succeeds, is plain assembly *)
Lemma lay_some size l b : lay size l = Some b -> b = assemble l.
Proof. unfold lay. destruct (_ && _); [|discriminate]. intros H. now inversion H. Qed.

Lemma assemble_app a b : assemble (a ++ b) = assemble a ++ assemble b.
Proof. unfold assemble. now rewrite map_app, concat_app. Qed.

Definition mod256 (l : list N) : list N := map (fun b => b mod 256) l.

Lemma assemble_LB off l : assemble (LB off l) = mod256 l.
Proof.
  revert off; induction l as [|x l IH]; intros off; [reflexivity|].
  cbn [LB]. change (assemble ((off, 1%nat, x) :: LB (S off) l)) with ((x mod 256) :: assemble (LB (S off) l)).
  rewrite IH. reflexivity.
Qed.

Lemma mod256_bytes l : bytes_ok l = true -> mod256 l = l.
Proof.
  induction l as [|x l IH]; intros H; [reflexivity|].
  cbn [bytes_ok forallb] in H. apply andb_true_iff in H. destruct H as [Hx Hl].
  unfold is_byte in Hx. apply N.ltb_lt in Hx. cbn [mod256 map]. rewrite (N.mod_small x 256 Hx).
  f_equal. exact (IH Hl).
Qed.

Lemma bytes_ok_app a b : bytes_ok (a ++ b) = bytes_ok a && bytes_ok b.
Proof. unfold bytes_ok. apply forallb_app. Qed.

Lemma bytes_ok_mod256 l : bytes_ok (mod256 l) = true.
Proof.
  induction l as [|x l IH]; [reflexivity|]. cbn [mod256 map bytes_ok forallb]. apply andb_true_iff. split; [|exact IH].
  unfold is_byte. apply N.ltb_lt. apply N.mod_lt. discriminate.
Qed.

Lemma bytes_ok_assemble l : bytes_ok (assemble l) = true.
Proof.
  induction l as [|[[o w] v] l IH]; [reflexivity|].
  change (assemble ((o, w, v) :: l)) with (le w v ++ assemble l). rewrite bytes_ok_app, le_bytes_ok, IH. reflexivity.
Qed.

Lemma ser_flds_app a b : ser_flds (a ++ b) = ser_flds a ++ ser_flds b.
Proof. unfold ser_flds. now rewrite map_app, concat_app. Qed.

Lemma ser_flds_fbytes l : ser_flds (fbytes l) = mod256 l.
Proof. induction l as [|x l IH]; [reflexivity|]. cbn [fbytes map]. unfold ser_flds in *. cbn [map concat fst snd le app]. unfold fbytes in IH. rewrite IH. reflexivity. Qed.

Lemma sx_arr_of_bytes k s b : sx_bytes s = Some b -> length b = k -> sx_arr k s = Some b.
Proof. intros H1 H2. unfold sx_arr. rewrite H1, H2, Nat.eqb_refl. reflexivity. Qed.
