(* The inductive invariant of the incrementally maintained tables (C01, C02, C05 bookkeeping). *)
From Coq Require Import NArith ZArith List Lia Bool Arith.
From ACPI Require Import Lib.Bytes Lib.Sx Lib.Machine Impl.Checksum Impl.Table Proofs.ChecksumP.
Import ListNotations.

Ltac Zify.zify_post_hook ::= Z.to_euclidean_division_equations.

Open Scope N_scope.

(* image with the checksum byte zeroed: what the running checksum is meant to sum *)
Definition tbl_image0 (s : tbl) : list N :=
  hdr_bytes (t_hdr s) (t_len s) 0 ++ mid (t_kind s) (t_pre s) (t_cnt s) ++ t_body s.

Record Inv (s : tbl) : Prop := {
  inv_hdr : hdr_ok (t_hdr s) = true;
  inv_len : t_len s = N.of_nat (length (tbl_image s));
  inv_ck_lt : t_ck s < 256;
  inv_ck : (Z.of_N (t_ck s) mod 256 = zsum (tbl_image0 s) mod 256)%Z;
  inv_hck : t_hck s = ck_value (t_ck s);
  inv_hoff : t_hoff s = N.of_nat (length (tbl_image s));
  inv_cnt : t_cnt s = N.of_nat (length (t_ents s))
}.

Lemma length_hdr_bytes h len cks : hdr_ok h = true -> length (hdr_bytes h len cks) = 36%nat.
Proof.
  unfold hdr_ok. intros H. apply andb_true_iff in H. destruct H as [H H2]. apply andb_true_iff in H. destruct H as [H0 H1].
  apply Nat.eqb_eq in H0. apply Nat.eqb_eq in H1. apply Nat.eqb_eq in H2.
  unfold hdr_bytes, d4, b1, CREATOR_ID, CREATOR_REVISION. rewrite !app_length, !length_le, H0, H1, H2. reflexivity.
Qed.

Lemma length_mid k pre c : length (mid k pre c) = length (mid k pre 0).
Proof. destruct k; unfold mid, d4, w2, q8; rewrite ?app_length, ?length_le; reflexivity. Qed.

Lemma length_image s : hdr_ok (t_hdr s) = true ->
  length (tbl_image s) = (36 + length (mid (t_kind s) (t_pre s) 0) + length (t_body s))%nat.
Proof.
  intros H. unfold tbl_image. rewrite !app_length, (length_hdr_bytes _ _ _ H), length_mid. lia.
Qed.

Lemma zsum_b1 x : zsum (b1 x) = Z.of_N (x mod 256).
Proof. unfold b1. cbn [le zsum]. lia. Qed.

Lemma zsum_hdr_bytes h len cks :
  (zsum (hdr_bytes h len cks) = zsum (hdr_bytes h 0 0) + zsum (d4 len) + Z.of_N (cks mod 256))%Z.
Proof.
  unfold hdr_bytes. rewrite !zsum_app. rewrite !zsum_b1.
  change (zsum (d4 0)) with 0%Z. change (0 mod 256) with 0.
  generalize (zsum (d4 len)). intros. cbn [Z.of_N]. lia.
Qed.

Lemma zsum_sum8 l : exists k : Z, (zsum l = Z.of_N (sum8 l) + 256 * k)%Z.
Proof.
  unfold sum8. rewrite zsum_sumN. exists (Z.of_N (sumN l / 256)). lia.
Qed.

(* sum of the whole image = 0 mod 256 whenever the accumulator invariant holds *)
Lemma inv_sum8_zero s : Inv s -> sum8 (tbl_image s) = 0.
Proof.
  intros I. destruct I as [Hh _ Hlt Hck Hhck _ _].
  unfold sum8. apply N2Z.inj. rewrite N2Z.inj_mod by lia. rewrite <- zsum_sumN.
  unfold tbl_image. unfold tbl_image0 in Hck. rewrite zsum_app, zsum_hdr_bytes in *.
  rewrite Hhck. change (Z.of_N 0) with 0%Z.
  change (0 mod 256) with 0 in Hck. cbn [Z.of_N] in Hck.
  destruct (ck_value_spec (t_ck s) Hlt) as [Hv Hvl]. unfold ck_raw in Hv.
  rewrite (N.mod_small (ck_value (t_ck s)) 256) by exact Hvl.
  set (X := (zsum (hdr_bytes (t_hdr s) 0 0) + zsum (d4 (t_len s)))%Z) in *.
  set (Y := zsum (mid (t_kind s) (t_pre s) (t_cnt s) ++ t_body s)) in *.
  set (c := t_ck s) in *. set (v := ck_value c) in *.
  assert (Hz : ((Z.of_N c + Z.of_N v) mod 256 = 0)%Z) by lia.
  clearbody X Y c v. clear - Hck Hz. lia.
Qed.

Lemma tbl_new_inv k h pre : hdr_ok h = true ->
  (zsum (init_extra k pre) = zsum (mid k pre 0))%Z -> Inv (tbl_new k h pre).
Proof.
  intros Hh Hx.
  assert (Hlen : length (tbl_image (tbl_new k h pre)) = (36 + length (mid k pre 0))%nat).
  { rewrite length_image by exact Hh. unfold t_body, t_ents; rewrite ?frev_rev. cbn [tbl_new t_kind t_pre t_rents rev concat length]. lia. }
  constructor; unfold t_ents; rewrite ?frev_rev; cbn [tbl_new t_hdr t_len t_ck t_hck t_hoff t_cnt t_rents t_kind length rev] in *.
  - exact Hh.
  - rewrite Hlen. lia.
  - unfold ck_append. apply fold_wadd8_lt. apply fold_wadd8_lt. lia.
  - unfold tbl_image0, t_body, t_ents; rewrite ?frev_rev. cbn [tbl_new t_hdr t_len t_kind t_pre t_cnt t_rents rev concat].
    rewrite app_nil_r, zsum_app.
    unfold ck_append.
    rewrite fold_wadd8_Z. rewrite <- Zplus_mod_idemp_l. rewrite fold_wadd8_Z.
    rewrite Zplus_mod_idemp_l. rewrite Hx. reflexivity.
  - reflexivity.
  - rewrite Hlen. lia.
  - reflexivity.
Qed.

(* difference of the fixed part when the count changes *)
Lemma zsum_mid_step k pre c c' :
  (zsum (mid k pre c') - zsum (mid k pre c) =
   match k with
   | KRhct | KRimt | KHest => zsum (d4 c') - zsum (d4 c)
   | KViot => zsum (w2 c') - zsum (w2 c)
   | _ => 0
   end)%Z.
Proof. destruct k; unfold mid; rewrite ?zsum_app; lia. Qed.

Lemma le_mod16 c : w2 (c mod U16) = w2 c.
Proof. unfold w2, U16. apply (le_mod 2). Qed.

Definition kind_fits (k : tkind) (n : nat) (claimed : N) : Prop :=
  match k with
  | KViot => claimed < 2 ^ 16 /\ N.of_nat n + 1 < 2 ^ 16
  | KRhct => N.of_nat n + 1 < 2 ^ 32
  | _ => True
  end.

Lemma mod_step (x y : Z) : (exists k : Z, x = y + 256 * k)%Z -> (x mod 256 = y mod 256)%Z.
Proof. intros [k ->]. rewrite Z.mul_comm. apply Z.mod_add. lia. Qed.

Lemma tbl_add_inv md s st claimed bytes s' h :
  Inv s -> tbl_add md s st claimed bytes = Some (s', h) ->
  claimed = N.of_nat (length bytes) ->
  N.of_nat (length (tbl_image s)) + claimed < 2 ^ 32 ->
  kind_fits (t_kind s) (length (t_ents s)) claimed ->
  Inv s' /\ h = N.of_nat (length (tbl_image s)) /\ t_ents s' = t_ents s ++ [bytes] /\
  t_kind s' = t_kind s /\ t_hdr s' = t_hdr s /\ t_pre s' = t_pre s /\ t_handles s' = t_handles s ++ [h].
Proof.
  intros I Hadd Hcl Hfit Hkf. destruct I as [Hh Hlen Hlt Hck Hhck Hhoff Hcnt].
  unfold tbl_add in Hadd.
  assert (Hcast : cast U32 claimed = claimed).
  { unfold cast, U32. apply N.mod_small. lia. }
  rewrite Hcast in Hadd.
  assert (Hnl : add_c U32 claimed (t_len s) = Some (claimed + t_len s)).
  { unfold add_m, add_c, U32. rewrite Hlen. destruct (N.ltb_spec (claimed + N.of_nat (length (tbl_image s))) (2 ^ 32)); [reflexivity|lia]. }
  rewrite Hnl in Hadd. cbn [option_bind] in Hadd.
  assert (Ecnt : (match t_kind s with
            | KViot => Some ((t_cnt s + 1) mod U16)
            | KRhct => add_m md U32 (t_cnt s) 1
            | _ => Some (t_cnt s + 1) end) = Some (t_cnt s + 1)).
  { unfold kind_fits in Hkf. destruct (t_kind s); try reflexivity.
    - unfold add_m, add_c, U32. rewrite Hcnt. destruct (N.ltb_spec (N.of_nat (length (t_ents s)) + 1) (2 ^ 32)); [reflexivity|lia].
    - unfold U16. rewrite Hcnt. rewrite N.mod_small by lia. reflexivity. }
  rewrite Ecnt in Hadd. cbn [option_bind] in Hadd.
  assert (Ehoff : (match t_kind s with
            | KViot => add_c U16 (t_hoff s) (cast U16 claimed)
            | KPptt | KRhct => add_m md U32 (t_hoff s) claimed
            | _ => Some (t_hoff s + claimed) end) = Some (t_hoff s + claimed)
            \/ (match t_kind s with
            | KViot => add_c U16 (t_hoff s) (cast U16 claimed)
            | KPptt | KRhct => add_m md U32 (t_hoff s) claimed
            | _ => Some (t_hoff s + claimed) end) = None).
  { unfold kind_fits in Hkf. destruct (t_kind s); try (left; reflexivity).
    - left. unfold add_m, add_c, U32. rewrite Hhoff. destruct (N.ltb_spec (N.of_nat (length (tbl_image s)) + claimed) (2 ^ 32)); [reflexivity|lia].
    - left. unfold add_m, add_c, U32. rewrite Hhoff. destruct (N.ltb_spec (N.of_nat (length (tbl_image s)) + claimed) (2 ^ 32)); [reflexivity|lia].
    - unfold add_c, cast, U16. rewrite (N.mod_small claimed) by lia.
      destruct (t_hoff s + claimed <? 2 ^ 16); [left|right]; reflexivity. }
  destruct Ehoff as [Ehoff|Ehoff]; rewrite Ehoff in Hadd; [|discriminate].
  cbn [option_bind] in Hadd. inversion Hadd; subst s' h; clear Hadd.
  set (ck' := fold_left ck_step (upd_ops (t_kind s) st (t_len s) (claimed + t_len s) (t_cnt s) bytes) (t_ck s)).
  set (s' := {| t_kind := t_kind s; t_hdr := t_hdr s; t_pre := t_pre s; t_len := claimed + t_len s; t_ck := ck';
                t_hck := ck_value ck'; t_cnt := t_cnt s + 1; t_hoff := t_hoff s + claimed; t_flag := t_flag s;
                t_rents := bytes :: t_rents s; t_rhandles := t_hoff s :: t_rhandles s |}).
  assert (Hbody : t_body s' = t_body s ++ bytes).
  { unfold t_body, t_ents; rewrite ?frev_rev. cbn [s' t_rents rev]. rewrite concat_app. cbn [concat]. now rewrite app_nil_r. }
  assert (Hlen' : length (tbl_image s') = (length (tbl_image s) + length bytes)%nat).
  { rewrite !length_image by exact Hh. cbn [s' t_kind t_pre]. rewrite Hbody, app_length. lia. }
  assert (He' : t_ents s' = t_ents s ++ [bytes]) by (unfold t_ents; rewrite !frev_rev; reflexivity).
  assert (Hh' : t_handles s' = t_handles s ++ [t_hoff s]) by (unfold t_handles; rewrite !frev_rev; reflexivity).
  split; [|split; [exact Hhoff|split; [exact He'|split; [reflexivity|split; [reflexivity|split; [reflexivity|exact Hh']]]]]].
  constructor; cbn [s' t_hdr t_len t_ck t_hck t_hoff t_cnt t_kind].
  - exact Hh.
  - fold s'. rewrite Hlen'. rewrite Hlen. lia.
  - apply ck_fold_lt. exact Hlt.
  - fold s'. unfold ck'. rewrite ck_fold_Z. rewrite <- Zplus_mod_idemp_l, Hck, Zplus_mod_idemp_l.
    unfold tbl_image0. cbn [s' t_hdr t_len t_kind t_pre t_cnt]. rewrite Hbody.
    rewrite !zsum_app.
    rewrite (zsum_hdr_bytes _ (t_len s) 0), (zsum_hdr_bytes _ (claimed + t_len s) 0).
    pose proof (zsum_mid_step (t_kind s) (t_pre s) (t_cnt s) (t_cnt s + 1)) as Hm.
    destruct (zsum_sum8 bytes) as [kb Hkb].
    apply mod_step.
    destruct (t_kind s), st; cbn [upd_ops sum_op app net op_added op_removed] in *;
      rewrite ?le_mod16 in *;
      first [ exists 0%Z; lia | exists kb; lia | exists (- kb)%Z; lia ].
  - reflexivity.
  - fold s'. rewrite Hlen'. rewrite Hhoff. lia.
  - unfold t_ents in *; rewrite ?frev_rev in *. cbn [s' t_rents rev]. rewrite app_length. cbn [length]. rewrite Hcnt. lia.
Qed.

(* ------------------------------------------------------------------------------------------------
   Histories of additions: the invariant holds after every prefix of every history (no bound on length) *)

Lemma Inv_set_flag s b : Inv s -> Inv (set_flag s b).
Proof. intros [H1 H2 H3 H4 H5 H6 H7]. constructor; assumption. Qed.

Lemma concat_len_ge (l : list (list N)) :
  Forall (fun e => (1 <= length e)%nat) l -> (length l <= length (concat l))%nat.
Proof.
  induction l as [|x l IH]; intros H; [cbn; lia|]. inversion H; subst.
  cbn [concat length]. rewrite app_length. specialize (IH H3). lia.
Qed.

(* the kinds whose count / offset arithmetic needs non-empty, small entries *)
Definition needs_pos (k : tkind) : bool := match k with KRhct | KViot => true | _ => false end.

Section AddTable.
  Variable K : tkind.
  Variable entry : tbl -> sx -> option addition.
  Hypothesis entry_sound : forall s o e, t_kind s = K -> entry s o = Some e ->
    a_claimed e = N.of_nat (length (a_bytes e)) /\
    (needs_pos (t_kind s) = true -> (1 <= length (a_bytes e))%nat /\ a_claimed e < 2 ^ 16).

  Fixpoint run_adds (md : mode) (s : tbl) (ops : list sx) : option tbl :=
    match ops with
    | [] => Some s
    | SA _ :: r => run_adds md s r
    | o :: r => match add_step entry md s o with Some (s', _) => run_adds md s' r | None => None end
    end.

  Definition Inv2 (s : tbl) : Prop :=
    Inv s /\ t_kind s = K /\ (needs_pos (t_kind s) = true -> Forall (fun e => (1 <= length e)%nat) (t_ents s)).

  Lemma add_step_grows md s o s' evs : hdr_ok (t_hdr s) = true ->
    add_step entry md s o = Some (s', evs) ->
    hdr_ok (t_hdr s') = true /\ (length (tbl_image s) <= length (tbl_image s'))%nat.
  Proof.
    intros Hh H. unfold add_step in H.
    destruct (entry s o) as [e|]; [|discriminate]. cbn [option_bind] in H.
    destruct (tbl_add md s (a_style e) (a_claimed e) (a_bytes e)) as [[s1 h]|] eqn:E; [|discriminate].
    cbn [option_bind fst snd] in H. inversion H; subst; clear H.
    unfold tbl_add in E.
    destruct (add_c U32 (cast U32 (a_claimed e)) (t_len s)); [|discriminate]. cbn [option_bind] in E.
    destruct (match t_kind s with KViot => _ | KRhct => _ | _ => _ end); [|discriminate]. cbn [option_bind] in E.
    destruct (match t_kind s with KViot => _ | KPptt | KRhct => _ | _ => _ end); [|discriminate]. cbn [option_bind] in E.
    inversion E; subst; clear E. unfold set_flag. cbn [t_hdr]. split; [exact Hh|].
    rewrite !length_image by exact Hh. unfold t_body, t_ents; rewrite ?frev_rev. cbn [t_kind t_pre t_rents rev]. rewrite concat_app, app_length. lia.
  Qed.

  Lemma run_adds_grows md ops : forall s s', hdr_ok (t_hdr s) = true -> run_adds md s ops = Some s' ->
    (length (tbl_image s) <= length (tbl_image s'))%nat.
  Proof.
    induction ops as [|o ops IH]; intros s s' Hh H; cbn [run_adds] in H.
    - inversion H; subst. lia.
    - destruct o as [n|l].
      + now apply IH.
      + destruct (add_step entry md s (SL l)) as [[s1 evs]|] eqn:E; [|discriminate].
        destruct (add_step_grows md s (SL l) s1 evs Hh E) as [Hh1 Hle].
        specialize (IH s1 s' Hh1 H). lia.
  Qed.

  Lemma run_adds_hdr_ok md ops : forall s s', hdr_ok (t_hdr s) = true -> run_adds md s ops = Some s' -> hdr_ok (t_hdr s') = true.
  Proof.
    induction ops as [|o ops IH]; intros s s' Hh H; cbn [run_adds] in H.
    - inversion H; subst. exact Hh.
    - destruct o as [n|l]; [now apply (IH s)|].
      destruct (add_step entry md s (SL l)) as [[s1 evs]|] eqn:E; [|discriminate].
      destruct (add_step_grows md s (SL l) s1 evs Hh E) as [Hh1 _]. now apply (IH s1).
  Qed.

  Lemma add_step_inv md s o s' evs :
    Inv2 s -> add_step entry md s o = Some (s', evs) -> N.of_nat (length (tbl_image s')) < 2 ^ 32 ->
    Inv2 s' /\
    (exists e, entry s o = Some e /\ t_ents s' = t_ents s ++ [a_bytes e] /\
               t_handles s' = t_handles s ++ [N.of_nat (length (tbl_image s))] /\
               evs = [EvNum (if a_returns e then N.of_nat (length (tbl_image s)) else 0)]) /\
    t_kind s' = t_kind s /\ t_hdr s' = t_hdr s /\ t_pre s' = t_pre s.
  Proof.
    intros (I & HK & Hne) H Hfit.
    pose proof (add_step_grows md s o s' evs (inv_hdr s I) H) as [Hh' Hgrow].
    unfold add_step in H.
    destruct (entry s o) as [e|] eqn:Ee; [|discriminate]. cbn [option_bind] in H.
    destruct (entry_sound s o e HK Ee) as (Hcl & Hps).
    destruct (tbl_add md s (a_style e) (a_claimed e) (a_bytes e)) as [[s1 h]|] eqn:E; [|discriminate].
    cbn [option_bind fst snd] in H. inversion H; subst s' evs; clear H.
    assert (Hlen1 : length (tbl_image (set_flag s1 (a_flag e))) = length (tbl_image s1)) by reflexivity.
    rewrite Hlen1 in *.
    (* length of the new image, from the shape of tbl_add alone *)
    assert (Hs1 : length (tbl_image s1) = (length (tbl_image s) + length (a_bytes e))%nat /\
                  (t_kind s = KViot -> t_hoff s + a_claimed e < 2 ^ 16)).
    { unfold tbl_add in E.
      destruct (add_c U32 (cast U32 (a_claimed e)) (t_len s)); [|discriminate]. cbn [option_bind] in E.
      destruct (match t_kind s with KViot => _ | KRhct => _ | _ => _ end); [|discriminate]. cbn [option_bind] in E.
      destruct (match t_kind s with KViot => _ | KPptt | KRhct => _ | _ => _ end) eqn:Eh; [|discriminate]. cbn [option_bind] in E.
      inversion E; subst; clear E. split.
      - rewrite !length_image by (exact (inv_hdr s I)). cbn [t_kind t_pre]. unfold t_body, t_ents; rewrite ?frev_rev. cbn [t_rents rev].
        rewrite concat_app, app_length. cbn [concat]. rewrite app_nil_r. lia.
      - intros Hk. rewrite Hk in Eh. unfold add_c, cast, U16 in Eh.
        assert (Hsmall : a_claimed e < 2 ^ 16) by (apply Hps; rewrite Hk; reflexivity).
        rewrite (N.mod_small (a_claimed e)) in Eh by exact Hsmall.
        destruct (N.ltb_spec (t_hoff s + a_claimed e) (2 ^ 16)); [assumption|discriminate]. }
    destruct Hs1 as [Hs1 Hviot].
    assert (Hcnt : needs_pos (t_kind s) = true -> (length (t_ents s) <= length (t_body s))%nat)
      by (intros Hk; apply concat_len_ge; exact (Hne Hk)).
    assert (Hbl : (length (t_body s) <= length (tbl_image s))%nat).
    { rewrite length_image by (exact (inv_hdr s I)). lia. }
    destruct (tbl_add_inv md s (a_style e) (a_claimed e) (a_bytes e) s1 h I E Hcl) as (I1 & Hh & He & Hk & Hhd & Hp & Hhs).
    - rewrite Hcl. lia.
    - unfold kind_fits. destruct (t_kind s) eqn:Ek; try exact Logic.I.
      + specialize (Hcnt eq_refl). destruct (Hps eq_refl) as [Hpos _]. lia.
      + specialize (Hviot eq_refl). rewrite (inv_hoff s I) in Hviot.
        specialize (Hcnt eq_refl). destruct (Hps eq_refl) as [Hpos Hsmall]. split; [exact Hsmall|].
        change (2 ^ 16) with 65536 in *. lia.
    - split; [split; [|split]|].
      + now apply Inv_set_flag.
      + unfold set_flag. cbn [t_kind]. congruence.
      + change (t_ents (set_flag s1 (a_flag e))) with (t_ents s1). change (t_kind (set_flag s1 (a_flag e))) with (t_kind s1). rewrite He, Hk. intros Hkk. apply Forall_app. split; [exact (Hne Hkk)|].
        constructor; [exact (proj1 (Hps Hkk))|constructor].
      + split; [|repeat split; unfold set_flag; cbn [t_kind t_hdr t_pre]; assumption].
        exists e. split; [reflexivity|]. change (t_ents (set_flag s1 (a_flag e))) with (t_ents s1).
        change (t_handles (set_flag s1 (a_flag e))) with (t_handles s1). rewrite He, Hhs, Hh.
        repeat split; reflexivity.
  Qed.

  (* the invariant after every history, of any length *)
  Theorem run_adds_inv md ops : forall s s',
    Inv2 s -> run_adds md s ops = Some s' -> N.of_nat (length (tbl_image s')) < 2 ^ 32 -> Inv2 s'.
  Proof.
    induction ops as [|o ops IH]; intros s s' I H Hfit; cbn [run_adds] in H.
    - inversion H; subst. exact I.
    - destruct o as [n|l]; [now apply (IH s)|].
      destruct (add_step entry md s (SL l)) as [[s1 evs]|] eqn:E; [|discriminate].
      destruct I as (I & HK & Hne).
      destruct (add_step_grows md s (SL l) s1 evs (inv_hdr s I) E) as [Hh1 _].
      pose proof (run_adds_grows md ops s1 s' Hh1 H) as Hg.
      destruct (add_step_inv md s (SL l) s1 evs (conj I (conj HK Hne)) E) as (I1 & _); [lia|].
      now apply (IH s1).
  Qed.
End AddTable.

Lemma tbl_new_inv2 k h pre : hdr_ok h = true ->
  (zsum (init_extra k pre) = zsum (mid k pre 0))%Z -> Inv2 k (tbl_new k h pre).
Proof. intros H1 H2. split; [now apply tbl_new_inv|split; [reflexivity|intros _; constructor]]. Qed.

(* ------------------------------------------------------------------------------------------------
   What histories preserve: entry-wise predicates, the already emitted body (prefix stability), handles as offsets *)

Lemma image_split s : hdr_ok (t_hdr s) = true ->
  exists pre, tbl_image s = pre ++ t_body s /\ length pre = (36 + length (mid (t_kind s) (t_pre s) 0))%nat.
Proof.
  intros H. exists (hdr_bytes (t_hdr s) (t_len s) (t_hck s) ++ mid (t_kind s) (t_pre s) (t_cnt s)).
  split; [unfold tbl_image; now rewrite app_assoc|]. rewrite app_length, (length_hdr_bytes _ _ _ H), length_mid. reflexivity.
Qed.

Section AddTable2.
  Variable K : tkind.
  Variable entry : tbl -> sx -> option addition.
  Hypothesis entry_sound : forall s o e, t_kind s = K -> entry s o = Some e ->
    a_claimed e = N.of_nat (length (a_bytes e)) /\
    (needs_pos (t_kind s) = true -> (1 <= length (a_bytes e))%nat /\ a_claimed e < 2 ^ 16).

  (* a predicate established by every addition holds of every entry of every reachable state *)
  Lemma run_adds_forall (P : list N -> Prop) md ops : forall s s',
    (forall s o e, entry s o = Some e -> P (a_bytes e)) ->
    Inv2 K s -> run_adds entry md s ops = Some s' -> N.of_nat (length (tbl_image s')) < 2 ^ 32 ->
    Forall P (t_ents s) -> Forall P (t_ents s').
  Proof.
    induction ops as [|o ops IH]; intros s s' HP I H Hfit HF; cbn [run_adds] in H.
    - inversion H; subst. exact HF.
    - destruct o as [n|l]; [now apply (IH s)|].
      destruct (add_step entry md s (SL l)) as [[s1 evs]|] eqn:E; [|discriminate].
      destruct I as (I & HK & Hne).
      destruct (add_step_grows K entry entry_sound md s (SL l) s1 evs (inv_hdr s I) E) as [Hh1 _].
      pose proof (run_adds_grows K entry entry_sound md ops s1 s' Hh1 H) as Hg.
      destruct (add_step_inv K entry entry_sound md s (SL l) s1 evs (conj I (conj HK Hne)) E) as (I1 & (e & Ee & He & _) & _); [lia|].
      apply (IH s1 s' HP I1 H Hfit). rewrite He. apply Forall_app. split; [exact HF|]. constructor; [|constructor].
      exact (HP s (SL l) e Ee).
  Qed.

  (* what has been emitted stays where it is: the body only grows at its end *)
  Lemma run_adds_body_prefix md ops : forall s s',
    Inv2 K s -> run_adds entry md s ops = Some s' -> N.of_nat (length (tbl_image s')) < 2 ^ 32 ->
    exists tail, t_ents s' = t_ents s ++ tail /\ t_kind s' = t_kind s /\ t_pre s' = t_pre s /\ t_hdr s' = t_hdr s.
  Proof.
    induction ops as [|o ops IH]; intros s s' I H Hfit; cbn [run_adds] in H.
    - inversion H; subst. exists []. now rewrite app_nil_r.
    - destruct o as [n|l]; [now apply (IH s)|].
      destruct (add_step entry md s (SL l)) as [[s1 evs]|] eqn:E; [|discriminate].
      destruct I as (I & HK & Hne).
      destruct (add_step_grows K entry entry_sound md s (SL l) s1 evs (inv_hdr s I) E) as [Hh1 _].
      pose proof (run_adds_grows K entry entry_sound md ops s1 s' Hh1 H) as Hg.
      destruct (add_step_inv K entry entry_sound md s (SL l) s1 evs (conj I (conj HK Hne)) E) as (I1 & (e & Ee & He & _) & Hk1 & Hhd1 & Hp1); [lia|].
      destruct (IH s1 s' I1 H Hfit) as (tail & Ht & Hk & Hp & Hhd).
      exists (a_bytes e :: tail). rewrite Ht, He, <- app_assoc. repeat split; congruence.
  Qed.

  (* C05: the handle reported by an addition is the offset at which the added node starts, in the image after the addition
     and in every later image *)
  Lemma handle_is_offset md s o s1 evs ops s' :
    Inv2 K s -> add_step entry md s o = Some (s1, evs) -> run_adds entry md s1 ops = Some s' ->
    N.of_nat (length (tbl_image s')) < 2 ^ 32 ->
    exists e tail, entry s o = Some e /\
      evs = [EvNum (if a_returns e then N.of_nat (length (tbl_image s)) else 0)] /\
      skipn (length (tbl_image s)) (tbl_image s') = a_bytes e ++ concat tail /\
      skipn (length (tbl_image s)) (tbl_image s1) = a_bytes e.
  Proof.
    intros I E Hr Hfit.
    pose proof I as (I0 & HK & Hne).
    destruct (add_step_grows K entry entry_sound md s o s1 evs (inv_hdr s I0) E) as [Hh1 _].
    pose proof (run_adds_grows K entry entry_sound md ops s1 s' Hh1 Hr) as Hg.
    destruct (add_step_inv K entry entry_sound md s o s1 evs I E) as (I1 & (e & Ee & He & _ & Hev) & Hk1 & Hhd1 & Hp1); [lia|].
    destruct (run_adds_body_prefix md ops s1 s' I1 Hr Hfit) as (tail & Ht & Hk & Hp & Hhd).
    exists e, tail. split; [exact Ee|]. split; [exact Hev|].
    destruct (image_split s (inv_hdr s I0)) as (pre & Hs & Hl).
    destruct (image_split s1 Hh1) as (pre1 & Hs1 & Hl1).
    assert (Hh' : hdr_ok (t_hdr s') = true) by (rewrite Hhd, Hhd1; exact (inv_hdr s I0)).
    destruct (image_split s' Hh') as (pre' & Hs' & Hl').
    assert (Hb1 : t_body s1 = t_body s ++ a_bytes e).
    { unfold t_body. rewrite He, concat_app. cbn [concat]. now rewrite app_nil_r. }
    assert (Hb' : t_body s' = t_body s ++ a_bytes e ++ concat tail).
    { unfold t_body. rewrite Ht, He, !concat_app. cbn [concat]. now rewrite app_nil_r, <- app_assoc. }
    split.
    - rewrite Hs', Hb', Hs. rewrite app_assoc.
      replace (length (pre ++ t_body s)) with (length (pre' ++ t_body s))
        by (rewrite !app_length, Hl, Hl', Hk, Hp, Hk1, Hp1; reflexivity).
      apply skipn_app_exact.
    - rewrite Hs1, Hb1, Hs. rewrite app_assoc.
      replace (length (pre ++ t_body s)) with (length (pre1 ++ t_body s))
        by (rewrite !app_length, Hl, Hl1, Hk1, Hp1; reflexivity).
      apply skipn_app_exact.
  Qed.
End AddTable2.
