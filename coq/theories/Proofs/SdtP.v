(* The generic table refines a plain byte vector with a self-maintaining header (C13). *)
From Coq Require Import NArith ZArith List Lia Bool Arith.
From ACPI Require Import Lib.Bytes Lib.Sx Lib.Machine Impl.Checksum Impl.Table Impl.Fields Impl.Run Impl.Sdt
  Spec.Layout Spec.SdtS Proofs.ChecksumP.
Import ListNotations.
Open Scope N_scope.

(* ---- lists seen through nth ---- *)
Lemma nth_upd {A} (l : list A) i j v d : (i < length l)%nat -> nth j (upd l i v) d = if Nat.eqb j i then v else nth j l d.
Proof.
  intros H. destruct (Nat.eqb_spec j i) as [->|Hne]; [now apply nth_upd_same|]. apply nth_upd_other. congruence.
Qed.

Lemma nth_skipn' {A} (l : list A) k i d : nth i (skipn k l) d = nth (k + i) l d.
Proof. revert l; induction k as [|k IH]; intros l; [reflexivity|]. destruct l; cbn [skipn Nat.add nth]; [now destruct i|apply IH]. Qed.

Lemma nth_firstn' {A} (l : list A) k i d : (i < k)%nat -> nth i (firstn k l) d = nth i l d.
Proof.
  revert l i; induction k as [|k IH]; intros l i H; [lia|]. destruct l; cbn [firstn]; [reflexivity|].
  destruct i; cbn [nth]; [reflexivity|]. apply IH. lia.
Qed.

Lemma nth_write_at {A} (l : list A) off bs j d : (off + length bs <= length l)%nat ->
  nth j (write_at l off bs) d = if (Nat.leb off j && Nat.ltb j (off + length bs))%bool then nth (j - off) bs d else nth j l d.
Proof.
  intros H. rewrite write_at_spec by exact H.
  destruct (Nat.leb_spec off j) as [Hle|Hgt]; cbn [andb].
  - destruct (Nat.ltb_spec j (off + length bs)) as [Hlt|Hge].
    + rewrite app_nth2 by (rewrite firstn_length; lia). rewrite firstn_length, Nat.min_l by lia.
      rewrite app_nth1 by lia. reflexivity.
    + rewrite app_nth2 by (rewrite firstn_length; lia). rewrite firstn_length, Nat.min_l by lia.
      rewrite app_nth2 by lia. rewrite nth_skipn'. f_equal. lia.
  - rewrite app_nth1 by (rewrite firstn_length; lia). apply nth_firstn'. lia.
Qed.

Definition zero9 (l : list N) : list N := upd l 9 0.

Lemma upd_split {A} (l : list A) i v : (i < length l)%nat -> upd l i v = firstn i l ++ [v] ++ skipn (S i) l.
Proof.
  revert i; induction l as [|x l IH]; intros [|i] H; cbn [length] in H; try lia; cbn [upd firstn skipn app]; [reflexivity|].
  rewrite IH by lia. reflexivity.
Qed.

(* the code's update_checksum is the Spec's with_checksum *)
Lemma gen_cks_value l : generate_checksum l = (256 - sumN l mod 256) mod 256.
Proof.
  destruct (generate_checksum_spec l) as [H1 H2].
  assert (Hs : sumN l mod 256 < 256) by (apply N.mod_lt; lia).
  rewrite <- N.add_mod_idemp_l in H1 by lia.
  set (s := sumN l mod 256) in *. set (g := generate_checksum l) in *. clearbody s g. 
  Ltac Zify.zify_post_hook ::= Z.to_euclidean_division_equations. lia.
Qed.

Lemma update_checksum_spec d : (10 <= length d)%nat -> sdt_update_checksum d = with_checksum d.
Proof.
  intros H. unfold sdt_update_checksum, with_checksum.
  rewrite (upd_split d 9 0) by lia.
  set (A := firstn 9 d). set (B := skipn 10 d).
  assert (HA : length A = 9%nat) by (unfold A; rewrite firstn_length; lia).
  rewrite upd_split by (rewrite !app_length, HA; cbn [length]; lia).
  assert (E1 : firstn 9 (A ++ [0] ++ B) = A) by (rewrite <- HA; apply firstn_app_exact).
  assert (E2 : skipn 10 (A ++ [0] ++ B) = B).
  { replace (A ++ [0] ++ B) with ((A ++ [0]) ++ B) by (now rewrite <- app_assoc).
    replace 10%nat with (length (A ++ [0])) by (rewrite app_length, HA; reflexivity). apply skipn_app_exact. }
  rewrite E1, E2, gen_cks_value. reflexivity.
Qed.

Lemma length_update_checksum d : length (sdt_update_checksum d) = length d.
Proof. unfold sdt_update_checksum. now rewrite !length_upd. Qed.

(* the image always sums to 0 after any operation (each ends with update_checksum) *)
Lemma update_checksum_sums d : (10 <= length d)%nat -> sum8 (sdt_update_checksum d) = 0.
Proof.
  intros H. rewrite update_checksum_spec by exact H. unfold with_checksum, sum8.
  rewrite !sumN_app. cbn [sumN]. 
  set (a := sumN (firstn 9 d)). set (b := sumN (skipn 10 d)).
  replace (a + (0 + 0 + b)) with (a + b) by lia.
  Ltac Zify.zify_post_hook ::= Z.to_euclidean_division_equations. clearbody a b. lia.
Qed.

(* two vectors that agree everywhere except possibly at byte 9 get the same image *)
Definition agree9 (a b : list N) : Prop := length a = length b /\ forall i, i <> 9%nat -> nth i a 0 = nth i b 0.

Lemma zero9_ext a b : (10 <= length a)%nat -> agree9 a b -> zero9 a = zero9 b.
Proof.
  intros Hl [Hlen Hn]. unfold zero9. apply (nth_ext _ _ 0 0); [now rewrite !length_upd|].
  intros i Hi. rewrite length_upd in Hi. rewrite !nth_upd by lia.
  destruct (Nat.eqb_spec i 9); [reflexivity|now apply Hn].
Qed.

Lemma update_checksum_ext a b : (10 <= length a)%nat -> agree9 a b -> sdt_update_checksum a = sdt_update_checksum b.
Proof. intros Hl Hab. unfold sdt_update_checksum. fold (zero9 a) (zero9 b). now rewrite (zero9_ext a b Hl Hab). Qed.

Lemma agree9_update_checksum a : (10 <= length a)%nat -> agree9 (sdt_update_checksum a) a.
Proof.
  intros H. split; [apply length_update_checksum|]. intros i Hi. unfold sdt_update_checksum.
  rewrite !nth_upd by (rewrite ?length_upd; lia). destruct (Nat.eqb_spec i 9); [contradiction|reflexivity].
Qed.

Lemma agree9_write_at a b off bs : (off + length bs <= length a)%nat -> agree9 a b -> agree9 (write_at a off bs) (write_at b off bs).
Proof.
  intros H [Hlen Hn]. split; [rewrite !length_write_at by lia; exact Hlen|].
  intros i Hi. rewrite !nth_write_at by lia. destruct (Nat.leb off i && Nat.ltb i (off + length bs))%bool; [reflexivity|now apply Hn].
Qed.

Lemma agree9_app a b c : agree9 a b -> agree9 (a ++ c) (b ++ c).
Proof.
  intros [Hlen Hn]. split; [rewrite !app_length; lia|]. intros i Hi.
  destruct (Nat.lt_ge_cases i (length a)).
  - rewrite !app_nth1 by lia. now apply Hn.
  - rewrite !app_nth2 by lia. now rewrite Hlen.
Qed.

(* ---- refusals ---- *)
Lemma write_bytes_refuse md data off bs :
  off < 2 ^ 64 -> N.of_nat (length bs) < 2 ^ 64 ->          (* usize arguments, slices below isize::MAX *)
  N.of_nat (length data) < off + N.of_nat (length bs) -> sdt_write_bytes md data off bs = None.
Proof.
  intros Ho Hb H. unfold sdt_write_bytes, add_m.
  destruct (N.ltb_spec (off + N.of_nat (length bs)) U64) as [Hs|Hs]; cbn [option_bind].
  - destruct (N.leb_spec (off + N.of_nat (length bs)) (N.of_nat (length data))); [lia|reflexivity].
  - destruct md; [reflexivity|]. cbn [option_bind].
    destruct (N.leb_spec ((off + N.of_nat (length bs)) mod U64) (N.of_nat (length data))); [|reflexivity].
    cbn [assert option_bind].
    destruct (N.leb_spec off ((off + N.of_nat (length bs)) mod U64)) as [Hc|Hc]; [|reflexivity].
    exfalso. unfold U64 in *. change (2 ^ 64) with 18446744073709551616 in *.
    set (bl := N.of_nat (length bs)) in *. set (dl := N.of_nat (length data)) in *. clearbody bl dl.
    Ltac Zify.zify_post_hook ::= Z.to_euclidean_division_equations. lia.
Qed.

Lemma write_bytes_accept md data off bs :
  off + N.of_nat (length bs) <= N.of_nat (length data) -> N.of_nat (length data) < 2 ^ 64 ->
  sdt_write_bytes md data off bs = Some (sdt_update_checksum (write_at data (N.to_nat off) bs)).
Proof.
  intros H Hd. unfold sdt_write_bytes, add_m, U64.
  destruct (N.ltb_spec (off + N.of_nat (length bs)) (2 ^ 64)); [|lia]. cbn [option_bind].
  destruct (N.leb_spec (off + N.of_nat (length bs)) (N.of_nat (length data))); [|lia]. cbn [assert option_bind].
  destruct (N.leb_spec off (off + N.of_nat (length bs))); [|lia]. reflexivity.
Qed.

(* ---- the appends ---- *)
Definition sappend (v bs : list N) : list N :=
  sdt_update_checksum (write_at (v ++ bs) 4 (d4 (N.of_nat (length v + length bs)))).

Lemma with_length_write_at x : (8 <= length x)%nat -> with_length x = write_at x 4 (d4 (N.of_nat (length x))).
Proof. intros H. unfold with_length. rewrite write_at_spec by (unfold d4; rewrite length_le; lia). unfold d4. rewrite length_le. reflexivity. Qed.

Lemma sappend_spec v bs : (36 <= length v)%nat -> sappend v bs = with_checksum (with_length (v ++ bs)).
Proof.
  intros H. unfold sappend. rewrite with_length_write_at by (rewrite app_length; lia).
  rewrite app_length. apply update_checksum_spec. rewrite length_write_at; unfold d4; rewrite ?length_le, ?app_length; lia.
Qed.

Lemma agree9_refl a : agree9 a a. Proof. split; auto. Qed.
Lemma agree9_trans a b c : agree9 a b -> agree9 b c -> agree9 a c.
Proof. intros [H1 H2] [H3 H4]. split; [congruence|]. intros i Hi. rewrite H2, H4 by exact Hi. reflexivity. Qed.

Lemma write_at_app {A} (v c : list A) off bs : (off + length bs <= length v)%nat ->
  write_at (v ++ c) off bs = write_at v off bs ++ c.
Proof.
  intros H. rewrite !write_at_spec by (rewrite ?app_length; lia).
  rewrite firstn_app, skipn_app. replace (off - length v)%nat with 0%nat by lia.
  replace (off + length bs - length v)%nat with 0%nat by lia. cbn [firstn skipn]. rewrite app_nil_r, <- !app_assoc. reflexivity.
Qed.

Lemma append_slice_refines md v bs :
  (36 <= length v)%nat -> N.of_nat (length v) < 2 ^ 64 -> sdt_append_slice md v bs = Some (sappend v bs).
Proof.
  intros H Hd. unfold sdt_append_slice.
  rewrite write_bytes_accept; [|unfold d4; rewrite length_le; lia|exact Hd]. cbn [option_bind]. f_equal.
  unfold sappend. change (N.to_nat 4) with 4%nat.
  assert (Hw : (4 + length (d4 (N.of_nat (length v + length bs))) <= length v)%nat) by (unfold d4; rewrite length_le; lia).
  rewrite write_at_app by exact Hw.
  apply update_checksum_ext; [rewrite app_length, length_update_checksum, length_write_at by exact Hw; lia|].
  apply agree9_app. apply agree9_update_checksum. rewrite length_write_at by exact Hw. lia.
Qed.

Lemma length_sappend v bs : (8 <= length v)%nat -> length (sappend v bs) = (length v + length bs)%nat.
Proof.
  intros H. unfold sappend. rewrite length_update_checksum, length_write_at; rewrite ?app_length; unfold d4; rewrite ?length_le; lia.
Qed.

Lemma append_refines md v w x :
  (36 <= length v)%nat -> N.of_nat (length v + w) < 2 ^ 64 -> sdt_append md v w x = Some (sappend v (le w x)).
Proof.
  intros H Hd. unfold sdt_append.
  assert (Hl1 : length (v ++ repeatN 0 w) = (length v + w)%nat) by (rewrite app_length, length_repeatN; reflexivity).
  rewrite write_bytes_accept; [|unfold d4; rewrite length_le, Hl1; lia|rewrite Hl1; exact Hd]. cbn [option_bind]. change (N.to_nat 4) with 4%nat.
  set (L := d4 (N.of_nat (length v + w))).
  assert (HL : length L = 4%nat) by (unfold L, d4; apply length_le).
  set (W1 := write_at (v ++ repeatN 0 w) 4 L).
  assert (HW1 : length W1 = (length v + w)%nat) by (unfold W1; rewrite length_write_at; rewrite ?Hl1, ?HL; lia).
  rewrite write_bytes_accept; [|rewrite length_update_checksum, HW1, length_le; lia|rewrite length_update_checksum, HW1; exact Hd]. f_equal.
  rewrite Nat2N.id. unfold sappend. rewrite length_le. fold L.
  apply update_checksum_ext; [rewrite length_write_at; rewrite ?length_update_checksum, ?HW1, ?length_le; lia|].
  apply (agree9_trans _ (write_at W1 (length v) (le w x))).
  - apply agree9_write_at; [rewrite length_update_checksum, HW1, length_le; lia|]. apply agree9_update_checksum. lia.
  - (* both are v with bytes 4..8 := L and the new tail x *)
    split; [rewrite !length_write_at; rewrite ?HW1, ?app_length, ?length_le, ?HL; lia|]. intros i _.
    rewrite nth_write_at by (rewrite HW1, length_le; lia). unfold W1.
    rewrite (nth_write_at (v ++ le w x)) by (rewrite app_length, length_le, HL; lia).
    rewrite nth_write_at by (rewrite Hl1, HL; lia). rewrite length_le, HL.
    destruct (Nat.leb_spec (length v) i) as [Hi|Hi]; cbn [andb].
    + destruct (Nat.ltb_spec i (length v + w)) as [Hj|Hj].
      * destruct (Nat.leb_spec 4 i); cbn [andb]; [destruct (Nat.ltb_spec i (4 + 4)); [lia|]|]; rewrite app_nth2 by lia; reflexivity.
      * destruct (Nat.leb_spec 4 i); cbn [andb]; [destruct (Nat.ltb_spec i (4 + 4)); [lia|]|lia].
        rewrite !nth_overflow by (rewrite app_length, ?length_repeatN, ?length_le; lia). reflexivity.
    + destruct (Nat.leb 4 i && Nat.ltb i (4 + 4))%bool; [reflexivity|]. rewrite !app_nth1 by lia. reflexivity.
Qed.

Lemma write_at_twice {A} (v : list A) off a b : length a = length b -> (off + length a <= length v)%nat ->
  write_at (write_at v off a) off b = write_at v off b.
Proof.
  intros Hab H. rewrite (write_at_spec (write_at v off a)) by (rewrite length_write_at; lia).
  rewrite !write_at_spec by lia.
  rewrite firstn_app. rewrite firstn_length, Nat.min_l by lia. rewrite Nat.sub_diag. cbn [firstn]. rewrite app_nil_r, firstn_firstn, Nat.min_id.
  f_equal. f_equal.
  replace (firstn off v ++ a ++ skipn (off + length a) v) with ((firstn off v ++ a) ++ skipn (off + length a) v) by (now rewrite <- app_assoc).
  rewrite <- Hab.
  replace (off + length a)%nat with (length (firstn off v ++ a)) at 1 by (rewrite app_length, firstn_length; lia).
  apply skipn_app_exact.
Qed.

Lemma sappend_sappend v a b : (36 <= length v)%nat -> sappend (sappend v a) b = sappend v (a ++ b).
Proof.
  intros H. unfold sappend at 1. rewrite length_sappend by lia.
  set (L2 := d4 (N.of_nat (length v + length a + length b))).
  assert (HL2 : length L2 = 4%nat) by (unfold L2, d4; apply length_le).
  unfold sappend at 2. rewrite app_length, Nat.add_assoc. fold L2.
  unfold sappend.
  set (L1 := d4 (N.of_nat (length v + length a))).
  assert (HL1 : length L1 = 4%nat) by (unfold L1, d4; apply length_le).
  assert (Hq : (4 + length L1 <= length (v ++ a))%nat) by (rewrite app_length, HL1; lia).
  assert (Hlen1 : length (write_at (v ++ a) 4 L1) = (length v + length a)%nat)
    by (rewrite length_write_at by exact Hq; apply app_length).
  assert (Hlen2 : length (sdt_update_checksum (write_at (v ++ a) 4 L1) ++ b) = (length v + length a + length b)%nat)
    by (rewrite app_length, length_update_checksum, Hlen1; reflexivity).
  apply update_checksum_ext.
  { rewrite length_write_at; rewrite ?Hlen2, ?HL2; lia. }
  apply (agree9_trans _ (write_at (write_at (v ++ a) 4 L1 ++ b) 4 L2)).
  - apply agree9_write_at; [rewrite Hlen2, HL2; lia|].
    apply agree9_app. apply agree9_update_checksum. rewrite Hlen1. lia.
  - rewrite <- write_at_app by exact Hq. rewrite <- app_assoc.
    rewrite write_at_twice; [apply agree9_refl|congruence|rewrite !app_length, HL1; lia].
Qed.

Lemma sink_vec_refines md bs : forall v,
  bytes_ok bs = true ->
  (36 <= length v)%nat -> N.of_nat (length v + length bs) < 2 ^ 64 -> bs <> [] -> sdt_sink_vec md v bs = Some (sappend v bs).
Proof.
  induction bs as [|b r IH]; intros v Hb H Hd Hne; [congruence|]. cbn [sdt_sink_vec].
  cbn [length] in Hd. cbn [bytes_ok forallb] in Hb. apply andb_true_iff in Hb. destruct Hb as [Hb0 Hbr].
  unfold is_byte in Hb0. apply N.ltb_lt in Hb0.
  rewrite append_refines by lia. cbn [option_bind le]. rewrite (N.mod_small b 256) by exact Hb0.
  destruct r as [|b2 r].
  - cbn [sdt_sink_vec]. reflexivity.
  - rewrite IH; [|exact Hbr|rewrite length_sappend by lia; cbn [length]; lia
                 |rewrite length_sappend by lia; cbn [length] in *; lia|discriminate].
    rewrite sappend_sappend by lia. reflexivity.
Qed.

(* ---- one operation of the implementation model = one operation of the byte-vector specification ---- *)
Definition sdt_wf (v : list N) : Prop := (36 <= length v)%nat /\ N.of_nat (length v) < 2 ^ 62.

Lemma width_same w : width_ok w = spec_width w.
Proof. reflexivity. Qed.

Lemma width_cases w k : spec_width w = Some k -> (k = 1 \/ k = 2 \/ k = 4 \/ k = 8)%nat.
Proof. unfold spec_width. destruct w as [|p]; [discriminate|]. repeat (destruct p as [p|p|]; try discriminate); intros H; inversion H; auto. Qed.

Lemma op_append md v w k x : sdt_wf v -> spec_width w = Some k ->
  sdt_op md v (SL [SA 1; SA w; SA x]) = sdt_spec_op v (SL [SA 1; SA w; SA x]).
Proof.
  intros [H Hd] Hw. cbn [sdt_op sdt_spec_op]. rewrite width_same, Hw. cbn [option_bind]. f_equal.
  destruct (width_cases w k Hw) as [->|[->|[->| ->]]];
    (rewrite append_refines; [rewrite sappend_spec by exact H; reflexivity|exact H|change (2 ^ 62) with 4611686018427387904 in Hd; change (2 ^ 64) with 18446744073709551616; lia]).
Qed.

Lemma op_append_slice md v b bytes : sdt_wf v -> sx_bytes b = Some bytes -> N.of_nat (length bytes) < 2 ^ 62 ->
  sdt_op md v (SL [SA 2; b]) = sdt_spec_op v (SL [SA 2; b]).
Proof.
  intros [H Hd] Hb Hl. cbn [sdt_op sdt_spec_op]. rewrite Hb. cbn [option_bind]. f_equal.
  rewrite append_slice_refines; [rewrite sappend_spec by exact H; reflexivity|exact H|].
  change (2 ^ 62) with 4611686018427387904 in *. change (2 ^ 64) with 18446744073709551616. lia.
Qed.

Lemma write_refines md v off bs : sdt_wf v -> off < 2 ^ 64 -> N.of_nat (length bs) < 2 ^ 62 ->
  sdt_write_bytes md v off bs =
  (if off + N.of_nat (length bs) <=? N.of_nat (length v) then option_map with_checksum (vec_write v (N.to_nat off) bs) else None).
Proof.
  intros [H Hd] Ho Hl. destruct (N.leb_spec (off + N.of_nat (length bs)) (N.of_nat (length v))) as [Hin|Hout].
  - rewrite write_bytes_accept; [|exact Hin|change (2 ^ 62) with 4611686018427387904 in Hd; change (2 ^ 64) with 18446744073709551616; lia].
    unfold vec_write. destruct (Nat.leb_spec (N.to_nat off + length bs) (length v)) as [Hn|Hn]; [|lia].
    cbn [option_map]. f_equal. rewrite write_at_spec by exact Hn.
    apply update_checksum_spec. rewrite !app_length, firstn_length, skipn_length. lia.
  - apply write_bytes_refuse; [exact Ho| |exact Hout].
    change (2 ^ 62) with 4611686018427387904 in Hl. change (2 ^ 64) with 18446744073709551616. lia.
Qed.

Lemma op_write_bytes md v off b bytes : sdt_wf v -> off < 2 ^ 64 -> sx_bytes b = Some bytes -> N.of_nat (length bytes) < 2 ^ 62 ->
  sdt_op md v (SL [SA 3; SA off; b]) = sdt_spec_op v (SL [SA 3; SA off; b]).
Proof.
  intros Hwf Ho Hb Hl. cbn [sdt_op sdt_spec_op]. rewrite Hb. cbn [option_bind]. rewrite write_refines by assumption.
  destruct (off + N.of_nat (length bytes) <=? N.of_nat (length v)); reflexivity.
Qed.

Lemma op_write_int md v w k off x : sdt_wf v -> off < 2 ^ 64 -> spec_width w = Some k ->
  sdt_op md v (SL [SA 4; SA w; SA off; SA x]) = sdt_spec_op v (SL [SA 4; SA w; SA off; SA x]).
Proof.
  intros Hwf Ho Hw. cbn [sdt_op sdt_spec_op]. rewrite width_same, Hw. cbn [option_bind].
  rewrite write_refines; [rewrite length_le; destruct (off + N.of_nat k <=? N.of_nat (length v)); reflexivity|exact Hwf|exact Ho|].
  rewrite length_le. destruct (width_cases w k Hw) as [->|[->|[->| ->]]]; reflexivity.
Qed.

Lemma op_sink_int md v w k x : sdt_wf v -> spec_width w = Some k ->
  sdt_op md v (SL [SA 5; SA w; SA x]) = sdt_spec_op v (SL [SA 5; SA w; SA x]).
Proof.
  intros [H Hd] Hw. cbn [sdt_op sdt_spec_op]. rewrite width_same, Hw. cbn [option_bind]. f_equal.
  rewrite sink_vec_refines; [rewrite sappend_spec by exact H; reflexivity|apply le_bytes_ok|exact H| |].
  - rewrite length_le. destruct (width_cases w k Hw) as [->|[->|[->| ->]]];
      change (2 ^ 62) with 4611686018427387904 in Hd; change (2 ^ 64) with 18446744073709551616; lia.
  - destruct (width_cases w k Hw) as [->|[->|[->| ->]]]; discriminate.
Qed.

Lemma op_sink_vec md v b bytes : sdt_wf v -> sx_bytes b = Some bytes -> bytes_ok bytes = true -> N.of_nat (length bytes) < 2 ^ 62 ->
  sdt_op md v (SL [SA 6; b]) = sdt_spec_op v (SL [SA 6; b]).
Proof.
  intros [H Hd] Hb Hok Hl. cbn [sdt_op sdt_spec_op]. rewrite Hb. cbn [option_bind].
  destruct bytes as [|b0 bytes]; [reflexivity|]. f_equal.
  rewrite sink_vec_refines; [rewrite sappend_spec by exact H; reflexivity|exact Hok|exact H| |discriminate].
  change (2 ^ 62) with 4611686018427387904 in *. change (2 ^ 64) with 18446744073709551616. lia.
Qed.

Lemma op_update_checksum md v : sdt_wf v -> sdt_op md v (SL [SA 7]) = sdt_spec_op v (SL [SA 7]).
Proof. intros [H _]. cbn [sdt_op sdt_spec_op]. rewrite update_checksum_spec by lia. reflexivity. Qed.

(* what every performed operation guarantees about the result *)
Lemma with_checksum_props v : (10 <= length v)%nat -> sum8 (with_checksum v) = 0 /\ length (with_checksum v) = length v.
Proof.
  intros H. rewrite <- update_checksum_spec by exact H. split; [now apply update_checksum_sums|apply length_update_checksum].
Qed.
