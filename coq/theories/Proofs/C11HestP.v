(* C11 instance, HEST PCIe AER sources (root port / endpoint / bridge): the Flags byte (offset 6) is the constructor's option
   (GLOBAL for new_global, the FirmwareFirst value otherwise), whatever setters are called afterwards, and a setter call changes
   nothing outside its own value field.  Statement about the bytes the Impl model of hest.rs emits. *)
From Coq Require Import NArith ZArith List Lia Bool Arith ZifyBool ZifyNat ZifyN.
From ACPI Require Import Lib.Bytes Lib.Sx Lib.Machine Impl.Table Impl.Fields Impl.Madt Impl.Gas Impl.Hest Spec.Layout Spec.OptionsS
  Proofs.FlagsP Proofs.FadtP Proofs.WalkRefCommon2P Proofs.C11CommonP.
Import ListNotations.
Open Scope N_scope.

Definition aer_ws (ty : N) : list nat :=
  [2; 2; 2; 1; 1; 4; 4; 4; 2; 2; 2; 2; 4; 4; 4; 4]%nat ++ match ty with 6 => [4%nat] | 8 => [4; 4; 4]%nat | _ => [] end.
Definition aer_size (ty : N) : nat := match ty with 6 => 48%nat | 8 => 56%nat | _ => 44%nat end.

Lemma aer_new_spec ty c f0 : aer_new ty c = Some f0 ->
  widths f0 = aer_ws ty /\ fget f0 3 = aer_ctor_flags c.
Proof.
  unfold aer_new. intros H. dmatch_in H;
    try (destruct (pci_ok _ _); [cbn [option_bind] in H|discriminate H]); inversion H; subst f0; clear H;
    (split; [unfold aer_ws, widths, aer_common, aer_tail; dmatch_goal; reflexivity | reflexivity]).
Qed.

Lemma aer_step ty : In ty [6; 7; 8] -> forall f o f', widths f = aer_ws ty -> True -> aer_setter ty f o = Some f' ->
  widths f' = aer_ws ty /\ True /\ fget f' 3 = N.lor (fget f 3) ((fun _ => 0) o) /\
  forall j, j <> 3%nat -> ~ In (fld_range (aer_ws ty) j) (aer_call_ranges o) -> fget f' j = fget f j.
Proof.
  intros Hty f o f' Hw _ H. cbn [In] in Hty.
  destruct Hty as [<-|[<-|[<-|[]]]];
  (assert (Hl : (16 <= length f <= 19)%nat) by (rewrite <- widths_length, Hw; cbn; lia));
  unfold aer_setter in H; dmatch_in H; inversion H; subst f'; clear H;
    (split; [rewrite ?widths_fset; exact Hw|]); (split; [exact I|]); cbn [aer_call_ranges];
    (split; [fg0; rewrite ?N.lor_0_r; reflexivity | intros j Hj Hn; fg Hn; reflexivity]).
Qed.

Lemma big_or_zeros {A} (l : list A) : big_or (map (fun _ => 0) l) = 0.
Proof. induction l as [|x l IH]; [reflexivity|]. cbn [map big_or fold_right]. fold (big_or (map (fun _ : A => 0) l)). now rewrite IH. Qed.

(* k = 1, 2, 3: add_structure(PcieAerRootPort / PcieAerDevice / PcieAerBridge); structure type 6 / 7 / 8 *)
Definition aer_type (k : N) : N := match k with 1 => 6 | 2 => 7 | _ => 8 end.

Theorem hest_aer_options s k c st e : In k [1; 2; 3] ->
  hest_addition s (SL [SA k; c; SL st]) = Some e ->
  exists f0, aer_new (aer_type k) c = Some f0 /\
    length (a_bytes e) = aer_size (aer_type k) /\
    field_at (a_bytes e) 6 1 = aer_ctor_flags c mod 2 ^ 8 /\
    forall b, ~ in_ranges b (aer_flags_at :: concat (map aer_call_ranges st)) -> nth b (a_bytes e) 0 = nth b (ser_flds f0) 0.
Proof.
  intros Hk. unfold hest_addition.
  assert (Hentry : hest_entry (SL [SA k; c; SL st]) = do f <- aer_new (aer_type k) c; apply_setters (aer_setter (aer_type k)) f st).
  { cbn [In] in Hk. destruct Hk as [<-|[<-|[<-|[]]]]; reflexivity. }
  rewrite Hentry. clear Hentry.
  destruct (aer_new (aer_type k) c) as [f0|] eqn:En; [|discriminate]. cbn [option_bind]. rewrite apply_setters_fold.
  destruct (fold_opt _ f0 st) as [f|] eqn:E; [|discriminate]. cbn [option_bind].
  intros H; inversion H; subst e; clear H. cbn [a_bytes].
  destruct (aer_new_spec _ _ _ En) as [Hw H3].
  assert (Hty : In (aer_type k) [6; 7; 8]) by (cbn [In] in Hk; destruct Hk as [<-|[<-|[<-|[]]]]; cbn; auto).
  assert (Hi : (3 < length (aer_ws (aer_type k)))%nat) by (unfold aer_ws; rewrite app_length; cbn; lia).
  assert (Hfw : fwid (aer_ws (aer_type k)) 3 = 1%nat) by reflexivity.
  assert (Hfo : foff (aer_ws (aer_type k)) 3 = 6%nat) by reflexivity.
  exists f0. split; [reflexivity|].
  (* the generic law wants the initial flags below 2^8: reduce the flags field first *)
  assert (Hz : forall o : sx, (fun _ : sx => 0) o < 2 ^ (8 * N.of_nat (fwid (aer_ws (aer_type k)) 3))) by (intros _; rewrite Hfw; reflexivity).
  pose proof (flag_fields (aer_setter (aer_type k)) (aer_ws (aer_type k)) 3 (fun _ => True) (fun _ => 0) aer_call_ranges
                Hi Hz (aer_step _ Hty) st f0 f Hw I E) as (Hw' & _ & Hf & Hfr).
  rewrite big_or_zeros, N.lor_0_r in Hf.
  split; [|split].
  - rewrite length_ser_flds_w, Hw'. cbn [In] in Hk. destruct Hk as [<-|[<-|[<-|[]]]]; reflexivity.
  - pose proof (field_at_ser_flds f 3 ltac:(rewrite <- widths_length, Hw'; exact Hi)) as Hfa.
    rewrite Hw' in Hfa. unfold foff, fwid in Hfo, Hfw. rewrite Hfo, Hfw in Hfa. rewrite Hfa, Hf, H3. reflexivity.
  - intros b Hb. destruct (byte_field (aer_ws (aer_type k)) b) as [j|] eqn:Ej.
    + apply (nth_ser_flds_same f f0 b j); [congruence|rewrite Hw'; exact Ej|].
      pose proof (byte_field_range _ _ _ Ej) as Hr. apply Hfr.
      * intros ->. apply Hb. exists aer_flags_at. split; [now left|]. unfold fld_range in Hr. rewrite Hfo, Hfw in Hr. exact Hr.
      * intros o Ho Hin. apply Hb. exists (fld_range (aer_ws (aer_type k)) j). split; [|exact Hr].
        right. apply in_concat. exists (aer_call_ranges o). split; [now apply in_map|exact Hin].
    + apply byte_field_none in Ej. rewrite !nth_overflow; [reflexivity| |]; rewrite length_ser_flds_w; [rewrite Hw|rewrite Hw']; exact Ej.
Qed.

(* the two constructor options of the enumeration: firmware first (bit 0, only through new_root_port/new_bridge with
   FirmwareFirst::Enabled), global (bit 1, only through new_global); distinct single bits *)
Lemma aer_options_distinct : distinct_single_bits aer_option_table && below (2 ^ 8) aer_option_table = true /\
  aer_ctor_flags (SL [SA 0]) = 2 /\ (forall b d f, aer_ctor_flags (SL [SA 1; SA 1; b; d; f]) = 1) /\
  (forall b d f, aer_ctor_flags (SL [SA 1; SA 0; b; d; f]) = 0).
Proof. repeat split; reflexivity. Qed.

(* the constructor option changes nothing but the Flags byte *)
Theorem hest_aer_ctor_frame ty ff bus dev fn f :
  aer_new ty (SL [SA 1; SA ff; SA bus; SA dev; SA fn]) = Some f ->
  exists f0, aer_new ty (SL [SA 1; SA 0; SA bus; SA dev; SA fn]) = Some f0 /\
  forall b, ~ in_range b aer_flags_at -> nth b (ser_flds f) 0 = nth b (ser_flds f0) 0.
Proof.
  cbn [aer_new]. destruct (pci_ok _ _); [|discriminate]. cbn [option_bind]. intros H; inversion H; subst f; clear H.
  eexists. split; [reflexivity|]. intros b Hb.
  unfold aer_common. cbn [app]. unfold ser_flds. cbn [map concat fst snd F].
  rewrite !(app_assoc (le 2 ty)), !(app_assoc (le 2 ty ++ le 2 0)).
  apply (nth_mid_frame ((le 2 ty ++ le 2 0) ++ le 2 0) 1). exact Hb.
Qed.
