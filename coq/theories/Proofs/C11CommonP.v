(* C11, per-structure instances: the generic machinery.
   A packed structure is a field list; a builder chain is a fold of a partial step function over the builder calls.
   If every single call (i) keeps the widths, (ii) ORs `bit o` into the flag field and (iii) writes no field outside
   the byte ranges `ranges o`, then for EVERY sequence of calls
     - the flag field read from the emitted BYTES at its (offset, width) is  initial OR big_or (map bit ops)   (union),
     - every byte outside the byte ranges of the flag field and of the fields in the footprint of the calls made is the
       byte of the structure before any call                                                                     (frame),
     - a bit is set iff it was set initially or some call made carries it                                        (gating).
   Also: the same three facts for hand-written serialisers of the shape  pre ++ le w flags ++ post. *)
From Coq Require Import NArith ZArith List Lia Bool Arith ZifyBool ZifyNat ZifyN.
From ACPI Require Import Lib.Bytes Lib.Sx Lib.Machine Impl.Fields Impl.Madt Impl.Srat Spec.Layout
  Proofs.FlagsP Proofs.FadtP Proofs.WalkRefCommon2P.
Import ListNotations.
Open Scope N_scope.

(* ---------- bit arithmetic ---------- *)
Lemma lor_lt a b n : a < 2 ^ n -> b < 2 ^ n -> N.lor a b < 2 ^ n.
Proof.
  intros Ha Hb.
  rewrite <- (N.mod_small a (2 ^ n)), <- (N.mod_small b (2 ^ n)) by assumption.
  rewrite <- !N.land_ones, <- N.land_lor_distr_l, N.land_ones.
  apply N.mod_lt. apply N.pow_nonzero. discriminate.
Qed.

Lemma big_or_lt n l : Forall (fun x => x < 2 ^ n) l -> big_or l < 2 ^ n.
Proof.
  induction 1 as [|x l Hx _ IH]; cbn [big_or fold_right].
  - apply N.neq_0_lt_0. apply N.pow_nonzero. discriminate.
  - fold (big_or l). now apply lor_lt.
Qed.

Lemma big_or_map_lt {A} (bit : A -> N) n (l : list A) : (forall o, bit o < 2 ^ n) -> big_or (map bit l) < 2 ^ n.
Proof. intros H. apply big_or_lt. apply Forall_forall. intros x Hx. apply in_map_iff in Hx. destruct Hx as (o & <- & _). apply H. Qed.

Lemma big_or_app a b : big_or (a ++ b) = N.lor (big_or a) (big_or b).
Proof.
  induction a as [|x a IH]; cbn [app big_or fold_right]; [reflexivity|].
  fold (big_or (a ++ b)). fold (big_or a). now rewrite IH, N.lor_assoc.
Qed.

(* the bit k of the union over the calls made: set iff some call made carries it *)
Lemma big_or_map_testbit {A} (bit : A -> N) (l : list A) k :
  N.testbit (big_or (map bit l)) k = existsb (fun o => N.testbit (bit o) k) l.
Proof. rewrite big_or_testbit. induction l as [|x l IH]; cbn [map existsb]; [reflexivity|]. now rewrite IH. Qed.

(* gating: when exactly the calls satisfying [p] carry bit k, the bit of the union tells whether such a call was made *)
Lemma big_or_gate {A} (bit : A -> N) (p : A -> bool) k (l : list A) :
  (forall o, N.testbit (bit o) k = p o) -> N.testbit (big_or (map bit l)) k = existsb p l.
Proof.
  intros H. rewrite big_or_map_testbit. induction l as [|x l IH]; cbn [existsb]; [reflexivity|]. now rewrite H, IH.
Qed.

(* only which calls were made matters *)
Lemma big_or_map_same_set {A} (bit : A -> N) l1 l2 : (forall x, In x l1 <-> In x l2) -> big_or (map bit l1) = big_or (map bit l2).
Proof.
  intros H. apply big_or_same_set. intros x. rewrite !in_map_iff. split; intros (o & Ho & Hi); exists o; (split; [exact Ho|]); now apply H.
Qed.

(* a table of option bits: every entry a single bit, all different *)
Definition single_bit (n : N) : bool := negb (n =? 0) && (N.land n (n - 1) =? 0).
Fixpoint nodupb (l : list N) : bool :=
  match l with [] => true | x :: r => negb (existsb (N.eqb x) r) && nodupb r end.
Definition distinct_single_bits (l : list N) : bool := forallb single_bit l && nodupb l.
Definition below (n : N) (l : list N) : bool := forallb (fun x => x <? n) l.

(* ---------- byte positions of a field list ---------- *)
Definition foff (ws : list nat) (i : nat) : nat := wsum (firstn i ws).
Definition fwid (ws : list nat) (i : nat) : nat := nth i ws 0%nat.
(* the byte range (offset, width) of field i *)
Definition fld_range (ws : list nat) (i : nat) : nat * nat := (foff ws i, fwid ws i).

Definition in_range (k : nat) (r : nat * nat) : Prop := (fst r <= k < fst r + snd r)%nat.
Definition in_ranges (k : nat) (rs : list (nat * nat)) : Prop := exists r, In r rs /\ in_range k r.

(* the field the k-th byte of the image belongs to *)
Fixpoint byte_field (ws : list nat) (k : nat) : option nat :=
  match ws with
  | [] => None
  | w :: r => if (k <? w)%nat then Some 0%nat else option_map S (byte_field r (k - w))
  end.

Lemma byte_field_range ws : forall k j, byte_field ws k = Some j -> in_range k (fld_range ws j).
Proof.
  unfold in_range, fld_range, foff, fwid. induction ws as [|w ws IH]; intros k j H; [discriminate|].
  cbn [byte_field] in H. destruct (Nat.ltb_spec k w) as [Hk|Hk].
  - inversion H; subst. cbn [firstn wsum fold_right nth fst snd]. lia.
  - destruct (byte_field ws (k - w)) as [j'|] eqn:E; [|discriminate]. inversion H; subst.
    specialize (IH _ _ E). cbn [firstn wsum fold_right nth fst snd] in *. fold (wsum (firstn j' ws)). lia.
Qed.

Lemma byte_field_none ws : forall k, byte_field ws k = None -> (wsum ws <= k)%nat.
Proof.
  induction ws as [|w ws IH]; intros k H; [cbn; lia|].
  cbn [byte_field] in H. destruct (Nat.ltb_spec k w) as [Hk|Hk]; [discriminate|].
  destruct (byte_field ws (k - w)) eqn:E; [discriminate|]. specialize (IH _ E). cbn [wsum fold_right] in *. fold (wsum ws). lia.
Qed.

(* two field lists of the same widths agreeing on the field of byte k agree on byte k *)
Lemma nth_ser_flds_same : forall f g k j, widths f = widths g -> byte_field (widths f) k = Some j -> fget f j = fget g j ->
  nth k (ser_flds f) 0 = nth k (ser_flds g) 0.
Proof.
  induction f as [|[w x] f IH]; intros [|[w' y] g] k j Hw Hb Hv; try discriminate.
  cbn [widths map fst] in Hw. inversion Hw as [[Hw1 Hw2]]. subst w'.
  unfold ser_flds. cbn [map concat fst snd]. fold (ser_flds f). fold (ser_flds g).
  cbn [widths map fst byte_field] in Hb. fold (widths f) in Hb.
  destruct (Nat.ltb_spec k w) as [Hk|Hk].
  - inversion Hb; subst j. unfold fget in Hv. cbn [nth snd] in Hv. subst y. rewrite !app_nth1 by (rewrite length_le; exact Hk). reflexivity.
  - destruct (byte_field (widths f) (k - w)) as [j'|] eqn:E; [|discriminate]. inversion Hb; subst j.
    rewrite !app_nth2 by (rewrite length_le; exact Hk). rewrite !length_le.
    apply (IH g (k - w)%nat j'); [exact Hw2|exact E|]. unfold fget in *. exact Hv.
Qed.

Lemma foff_fwid_lt ws i : (i < length ws)%nat -> (foff ws i + fwid ws i <= wsum ws)%nat.
Proof.
  unfold foff, fwid. revert i; induction ws as [|w ws IH]; intros [|i] H; cbn [length] in H; try lia;
    cbn [firstn wsum fold_right nth]; fold (wsum ws); [lia|].
  specialize (IH i ltac:(lia)). fold (wsum (firstn i ws)). lia.
Qed.

(* ---------- folds of partial step functions ---------- *)
Fixpoint fold_opt {A} (st : A -> sx -> option A) (x : A) (l : list sx) : option A :=
  match l with
  | [] => Some x
  | o :: r => match st x o with Some x' => fold_opt st x' r | None => None end
  end.

Lemma apply_setters_fold st f l : apply_setters st f l = fold_opt st f l.
Proof. revert f; induction l as [|o l IH]; intros f; cbn [apply_setters fold_opt]; [reflexivity|]. destruct (st f o); [apply IH|reflexivity]. Qed.

Lemma apply_builders_fold {A} (st : A -> sx -> option A) x l : apply_builders st x l = fold_opt st x l.
Proof. revert x; induction l as [|o l IH]; intros x; cbn [apply_builders fold_opt]; [reflexivity|]. destruct (st x o); [apply IH|reflexivity]. Qed.

Lemma fold_opt_app {A} (st : A -> sx -> option A) l1 : forall l2 x,
  fold_opt st x (l1 ++ l2) = match fold_opt st x l1 with Some y => fold_opt st y l2 | None => None end.
Proof. induction l1 as [|o l1 IH]; intros l2 x; cbn [app fold_opt]; [reflexivity|]. destruct (st x o); [apply IH|reflexivity]. Qed.

(* ---------- the generic law for field lists ---------- *)
Section FlagField.
  Variable st : flds -> sx -> option flds.       (* one builder call *)
  Variable WS : list nat.                        (* the widths of the structure's fields *)
  Variable i : nat.                              (* index of the flag field *)
  Variable Inv : flds -> Prop.                   (* whatever else the calls maintain *)
  Variable bit : sx -> N.                        (* the bit(s) a call ORs into the flag field *)
  Variable ranges : sx -> list (nat * nat).      (* the byte ranges (offset, width) of the other fields a call may write *)
  Hypothesis Hi : (i < length WS)%nat.
  Hypothesis bit_small : forall o, bit o < 2 ^ (8 * N.of_nat (fwid WS i)).
  Hypothesis step : forall f o f', widths f = WS -> Inv f -> st f o = Some f' ->
    widths f' = WS /\ Inv f' /\ fget f' i = N.lor (fget f i) (bit o) /\
    forall j, j <> i -> ~ In (fld_range WS j) (ranges o) -> fget f' j = fget f j.

  Lemma flag_fields : forall ops f f', widths f = WS -> Inv f -> fold_opt st f ops = Some f' ->
    widths f' = WS /\ Inv f' /\ fget f' i = N.lor (fget f i) (big_or (map bit ops)) /\
    forall j, j <> i -> (forall o, In o ops -> ~ In (fld_range WS j) (ranges o)) -> fget f' j = fget f j.
  Proof.
    induction ops as [|o ops IH]; intros f f' Hw HI H; cbn [fold_opt] in H.
    - inversion H; subst. cbn [map big_or fold_right]. rewrite N.lor_0_r. auto.
    - destruct (st f o) as [f1|] eqn:E; [|discriminate].
      destruct (step f o f1 Hw HI E) as (Hw1 & HI1 & Hf1 & Hfr1).
      destruct (IH f1 f' Hw1 HI1 H) as (Hw' & HI' & Hf' & Hfr').
      split; [exact Hw'|]. split; [exact HI'|]. split.
      + rewrite Hf', Hf1. cbn [map big_or fold_right]. fold (big_or (map bit ops)). now rewrite N.lor_assoc.
      + intros j Hj Hn. rewrite Hfr' by (auto; intros o' Ho'; apply Hn; now right). apply Hfr1; [exact Hj|]. apply Hn. now left.
  Qed.

  (* the statement about the emitted bytes *)
  Theorem flag_bytes : forall ops f f', widths f = WS -> Inv f -> fget f i < 2 ^ (8 * N.of_nat (fwid WS i)) ->
    fold_opt st f ops = Some f' ->
    length (ser_flds f') = wsum WS /\
    field_at (ser_flds f') (foff WS i) (fwid WS i) = N.lor (fget f i) (big_or (map bit ops)) /\
    forall k, ~ in_ranges k (fld_range WS i :: concat (map ranges ops)) ->
              nth k (ser_flds f') 0 = nth k (ser_flds f) 0.
  Proof.
    intros ops f f' Hw HI Hs H.
    destruct (flag_fields ops f f' Hw HI H) as (Hw' & _ & Hf & Hfr).
    split; [rewrite length_ser_flds_w; now rewrite Hw'|]. split.
    - unfold foff, fwid. rewrite <- Hw'. rewrite field_at_ser_flds by (rewrite <- widths_length, Hw'; exact Hi).
      rewrite Hf, Hw'. apply N.mod_small. apply lor_lt; [exact Hs|]. apply big_or_map_lt. exact bit_small.
    - intros k Hk.
      destruct (byte_field WS k) as [j|] eqn:E.
      + apply (nth_ser_flds_same f' f k j); [congruence|rewrite Hw'; exact E|].
        pose proof (byte_field_range WS k j E) as Hr.
        apply Hfr.
        * intros ->. apply Hk. exists (fld_range WS i). split; [now left|exact Hr].
        * intros o Ho Hin. apply Hk. exists (fld_range WS j). split; [|exact Hr].
          right. apply in_concat. exists (ranges o). split; [now apply in_map|exact Hin].
      + apply byte_field_none in E. rewrite !nth_overflow; [reflexivity| |]; rewrite length_ser_flds_w; [rewrite Hw|rewrite Hw']; exact E.
  Qed.
End FlagField.

(* ---------- hand-written serialisers: pre ++ le w flags ++ post ---------- *)
Lemma field_at_mid pre w v post : field_at (pre ++ le w v ++ post) (length pre) w = v mod 2 ^ (8 * N.of_nat w).
Proof. rewrite (field_at_skip pre _ (length pre)) by reflexivity. apply field_at_le_app. Qed.

Lemma field_at_mid_small pre w v post n : length pre = n -> v < 2 ^ (8 * N.of_nat w) -> field_at (pre ++ le w v ++ post) n w = v.
Proof. intros <- H. rewrite field_at_mid. now apply N.mod_small. Qed.

Lemma nth_mid_frame pre w v v' post k : ~ in_range k (length pre, w) ->
  nth k (pre ++ le w v ++ post) 0 = nth k (pre ++ le w v' ++ post) 0.
Proof.
  unfold in_range. cbn [fst snd]. intros H.
  destruct (Nat.ltb_spec k (length pre)) as [Hk|Hk].
  - now rewrite !app_nth1 by exact Hk.
  - rewrite !(app_nth2 pre) by exact Hk.
    rewrite !app_nth2 by (rewrite length_le; lia). now rewrite !length_le.
Qed.

(* destructing the (variable) scrutinees of the matches a step function is made of *)
Ltac dmatch_in H :=
  repeat match type of H with context [match ?x with _ => _ end] => is_var x; destruct x; try discriminate H end.
Ltac dmatch_goal :=
  repeat match goal with |- context [match ?x with _ => _ end] => is_var x; destruct x end.

Lemma length_fset f i v : length (fset f i v) = length f.
Proof. revert i; induction f as [|[w x] f IH]; intros [|i]; cbn [fset length]; auto. Qed.

Lemma big_or_if {A} (p : A -> bool) b (l : list A) :
  big_or (map (fun o => if p o then b else 0) l) = if existsb p l then b else 0.
Proof.
  induction l as [|x l IH]; cbn [map big_or fold_right existsb]; [reflexivity|].
  fold (big_or (map (fun o => if p o then b else 0) l)). rewrite IH.
  destruct (p x), (existsb p l); cbn [orb]; rewrite ?N.lor_diag, ?N.lor_0_r, ?N.lor_0_l; reflexivity.
Qed.

(* side conditions  i <> j  of the field-list rewrites: literals, or j a field outside the listed byte ranges (Hn) *)
Ltac in_refl := first [left; reflexivity | right; in_refl].
Ltac neq_side Hn := first [lia | let E := fresh in intro E; apply Hn; rewrite <- E; cbn [In]; in_refl].
Ltac len_side := rewrite ?length_fset, ?length_f_or; lia.
Ltac fg Hn := repeat first
  [ rewrite fget_fset_other by neq_side Hn
  | rewrite fget_f_or_other by neq_side Hn
  | rewrite fget_fset_same by len_side
  | rewrite fget_f_or_same by len_side ].
Ltac fg0 := repeat first
  [ rewrite fget_fset_other by lia
  | rewrite fget_f_or_other by lia
  | rewrite fget_fset_same by len_side
  | rewrite fget_f_or_same by len_side ].

(* ---------- structures kept as records with a hand-written serialiser ---------- *)
(* builders that only OR bits into the flags component: flags = union, everything else (`rest`) as constructed *)
Section FlagRecord.
  Context {A B : Type}.
  Variable st : A -> sx -> option A.
  Variable flags : A -> N.
  Variable rest : A -> B.
  Variable bit : sx -> N.
  Hypothesis step : forall x o x', st x o = Some x' -> flags x' = N.lor (flags x) (bit o) /\ rest x' = rest x.

  Lemma flag_record : forall ops x x', fold_opt st x ops = Some x' ->
    flags x' = N.lor (flags x) (big_or (map bit ops)) /\ rest x' = rest x.
  Proof.
    induction ops as [|o ops IH]; intros x x' H; cbn [fold_opt] in H.
    - inversion H; subst. cbn [map big_or fold_right]. now rewrite N.lor_0_r.
    - destruct (st x o) as [x1|] eqn:E; [|discriminate]. destruct (step _ _ _ E) as [H1 H2].
      destruct (IH _ _ H) as [H3 H4]. split; [|congruence].
      rewrite H3, H1. cbn [map big_or fold_right]. fold (big_or (map bit ops)). now rewrite N.lor_assoc.
  Qed.
End FlagRecord.

Lemma mid_flag_bytes pre w v v0 post n : length pre = n -> v < 2 ^ (8 * N.of_nat w) ->
  field_at (pre ++ le w v ++ post) n w = v /\
  forall k, ~ in_range k (n, w) -> nth k (pre ++ le w v ++ post) 0 = nth k (pre ++ le w v0 ++ post) 0.
Proof. intros Hn Hv. split; [now apply field_at_mid_small|]. intros k Hk. subst n. now apply nth_mid_frame. Qed.
