(* SRAT: every structure an accepted add_* pushes describes itself (type u8, length u8) -- the walk instance for C03.
   The three structure sizes are the constants 40 / 32 / 20; there is no caller-controlled count or length inside a
   structure (nothing to refuse), and the table has no entry-count field.  C18 content: the one-byte length field of
   every structure holds the structure's true size. *)
From Coq Require Import NArith ZArith List Lia Bool Arith.
From ACPI Require Import Lib.Bytes Lib.Sx Lib.Machine Impl.Checksum Impl.Table Impl.Fields Impl.Run Impl.Madt Impl.Srat
  Spec.Layout Proofs.ChecksumP Proofs.TableP Proofs.MadtP Proofs.Tables Proofs.FixedP Proofs.SratP Proofs.WalkP
  Proofs.WalkW3Common.
Import ListNotations.
Open Scope N_scope.

Lemma memaff_self m : exists ty, self_describing H_u8_u8 (memaff_bytes m) ty.
Proof. eexists. unfold memaff_bytes. apply u8_u8_self; reflexivity. Qed.

Lemma geninit_self g : length (handle_bytes (gi_handle g)) = 16%nat -> exists ty, self_describing H_u8_u8 (geninit_bytes g) ty.
Proof.
  intros Hh. eexists. pose proof (geninit_bytes_length g Hh) as Hl. unfold geninit_bytes in *.
  apply u8_u8_self_whole; [reflexivity|]. rewrite Hl. reflexivity.
Qed.

Lemma rintc_aff_builder_head f o f' : rintc_aff_builder f o = Some f' -> head2 f' = head2 f.
Proof.
  unfold rintc_aff_builder.
  repeat match goal with |- (match ?x with _ => _ end) = Some _ -> _ => destruct x; try discriminate end;
  intros H; apply Some_inj in H; subst; rewrite ?f_or_head2, ?fset_head2 by lia; reflexivity.
Qed.

Lemma rintc_self u clock bs f : length u = 4%nat -> apply_builders rintc_aff_builder (rintc_aff_new u clock) bs = Some f ->
  exists ty, self_describing H_u8_u8 (ser_flds f) ty.
Proof.
  intros Hu Hf. apply good_entry_self.
  apply (apply_builders_inv rintc_aff_builder (fun f => head2 f = Some (7, 20) /\ flds_len f = 20%nat)) in Hf.
  - destruct Hf as [Hh Hl]. eapply good_entry_intro; [exact Hh|reflexivity|reflexivity|rewrite Hl; reflexivity|rewrite Hl; lia].
  - intros x o x' [Hh Hl] Hb. rewrite (rintc_aff_builder_head _ _ _ Hb), (rintc_aff_builder_len _ _ _ Hb). auto.
  - split; [reflexivity|now apply rintc_aff_new_len].
Qed.

Lemma srat_addition_self s o e : srat_addition s o = Some e -> exists ty, self_describing H_u8_u8 (a_bytes e) ty.
Proof.
  unfold srat_addition.
  repeat match goal with |- (match ?x with _ => _ end) = Some _ -> _ => destruct x; try discriminate end.
  - (* RINTC affinity *)
    match goal with |- (do u <- sx_arr 4 ?X; _) = _ -> _ => destruct (sx_arr 4 X) as [u|] eqn:Eu; [|discriminate] end.
    cbn [option_bind].
    match goal with |- (do f <- ?X; _) = _ -> _ => destruct X as [f|] eqn:Ef; [|discriminate] end.
    cbn [option_bind]. intros H. apply Some_inj in H. subst e. cbn [a_bytes].
    eapply rintc_self; [|exact Ef]. eapply sx_arr_length; eauto.
  - (* generic initiator *)
    match goal with |- (do hd <- sx_handle ?X; _) = _ -> _ => destruct (sx_handle X) as [hd|] eqn:Eh; [|discriminate] end.
    cbn [option_bind].
    match goal with |- (do g <- ?X; _) = _ -> _ => destruct X as [g|] eqn:Eg; [|discriminate] end.
    cbn [option_bind]. intros H. apply Some_inj in H. subst e. cbn [a_bytes].
    apply geninit_self.
    assert (Hg : gi_handle g = hd).
    { apply (apply_builders_inv geninit_builder (fun g => gi_handle g = hd)) in Eg; [exact Eg| |reflexivity].
      intros x o x' Hx Hb. rewrite (geninit_builder_handle _ _ _ Hb). exact Hx. }
    rewrite Hg. eapply sx_handle_length; eauto.
  - (* memory affinity *)
    match goal with |- (do m <- ?X; _) = _ -> _ => destruct X as [m|]; [|discriminate] end.
    cbn [option_bind]. intros H. apply Some_inj in H. subst e. cbn [a_bytes]. apply memaff_self.
Qed.

Lemma srat_new_empty c s0 : srat_new c = Some s0 -> t_ents s0 = [].
Proof.
  unfold srat_new. destruct c as [|l]; [discriminate|].
  destruct l as [|o [|t [|r [|x l]]]]; try discriminate.
  destruct (sx_hdr _ _ _ _ _); [|discriminate]. cbn [option_bind].
  intros H. apply Some_inj in H. subst. reflexivity.
Qed.

Definition srat_walk : walktable :=
  {| wt_table := srat_table; wt_ehdr := H_u8_u8; wt_self := srat_addition_self; wt_new_empty := srat_new_empty |}.

(* the one-byte length field of every structure is the number of bytes the structure occupies *)
Lemma srat_structure_length_exact s o e :
  srat_addition s o = Some e -> field_at (a_bytes e) 1 1 = N.of_nat (length (a_bytes e)).
Proof.
  intros H. destruct (srat_addition_self s o e H) as [ty Hty]. exact (u8_u8_self_len_field _ _ Hty).
Qed.

Corollary srat_history_structure_lengths md c ops s0 s :
  srat_new c = Some s0 -> run_adds srat_addition md s0 ops = Some s -> N.of_nat (length (tbl_image s)) < 2 ^ 32 ->
  Forall (fun e => field_at e 1 1 = N.of_nat (length e)) (t_ents s).
Proof.
  intros Hn Hr Hfit.
  destruct (walktable_tiles srat_walk md c ops s0 s Hn Hr Hfit) as (tys & HF & _).
  cbn [wt_ehdr srat_walk] in HF. clear -HF.
  induction HF as [|e ty es tys He _ IH]; constructor; [exact (u8_u8_self_len_field _ _ He)|exact IH].
Qed.

Print Assumptions srat_walk.
Print Assumptions srat_structure_length_exact.
Print Assumptions srat_history_structure_lengths.
