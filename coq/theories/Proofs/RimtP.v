(* RIMT: the table-specific obligations of the generic history invariant
   (every device's hand-written len() is the number of bytes its serialiser writes whenever the serialiser does not panic),
   plus the list lemmas shared with Proofs/ViotP.v and Proofs/CedtP.v. *)
From Coq Require Import NArith ZArith List Lia Bool Arith.
From ACPI Require Import Lib.Bytes Lib.Sx Lib.Machine Impl.Checksum Impl.Table Impl.Fields Impl.Run Impl.Madt Impl.Rimt Spec.Layout
  Proofs.ChecksumP Proofs.TableP Proofs.MadtP Proofs.Tables.
Import ListNotations.
Open Scope N_scope.

(* ---- shared list lemmas ---- *)
Lemma sx_list_all_Forall {A} (f : sx -> option A) (P : A -> Prop) :
  (forall x a, f x = Some a -> P a) -> forall l r, sx_list_all f l = Some r -> Forall P r /\ length r = length l.
Proof.
  intros Hf. induction l as [|x l IH]; intros r H; cbn [sx_list_all] in H.
  - inversion H; subst. split; [constructor|reflexivity].
  - destruct (f x) as [a|] eqn:Ea; [|discriminate].
    destruct (sx_list_all f l) as [r'|]; [|discriminate]. inversion H; subst.
    destruct (IH r' eq_refl) as [IH1 IH2]. split; [constructor; [eapply Hf; eauto|exact IH1]|cbn [length]; now rewrite IH2].
Qed.

Lemma length_concat_const {A} (k : nat) (l : list (list A)) :
  Forall (fun e => length e = k) l -> length (concat l) = (k * length l)%nat.
Proof.
  induction l as [|x l IH]; intros H; cbn [concat length]; [lia|].
  inversion H; subst. rewrite app_length, IH by assumption. lia.
Qed.

Lemma length_concat_map_le (w : nat) (l : list N) : length (concat (map (le w) l)) = (w * length l)%nat.
Proof.
  rewrite (length_concat_const w); [now rewrite map_length|].
  apply Forall_forall. intros e He. apply in_map_iff in He. destruct He as [x [<- _]]. apply length_le.
Qed.

(* destructs every match / option_bind standing between an addition function and its `Some e` *)
Ltac split_matches H :=
  repeat match type of H with
         | option_bind ?x _ = Some _ => let E := fresh "E" in destruct x eqn:E; cbn [option_bind] in H; [|discriminate H]
         | context [match ?x with _ => _ end] => destruct x; try discriminate H
         end.

(* ---- RIMT ---- *)
Lemma rimt_new_inv c s0 : rimt_new c = Some s0 -> Inv2 KRimt s0.
Proof.
  unfold rimt_new. destruct c as [|l]; [discriminate|].
  destruct l as [|o [|t [|r [|x l]]]]; try discriminate.
  destruct (sx_hdr [82; 73; 77; 84] 1 o t r) as [h|] eqn:Eh; [|discriminate]. cbn [option_bind].
  intros H. inversion H; subst.
  apply tbl_new_inv2; [eapply sx_hdr_ok; [|exact Eh]; reflexivity | reflexivity].
Qed.

Lemma wire_bytes_length w b : wire_bytes w = Some b -> length b = 8%nat.
Proof. unfold wire_bytes. intros H. split_matches H; inversion H; subst; reflexivity. Qed.

Lemma idmap_bytes_length s m b : idmap_bytes s m = Some b -> length b = 20%nat.
Proof. unfold idmap_bytes. intros H. split_matches H; inversion H; subst; reflexivity. Qed.

Lemma rimt_wires_length x ws : rimt_wires x = Some ws -> length (concat ws) = (8 * length ws)%nat.
Proof.
  unfold rimt_wires. intros H. split_matches H.
  - inversion H; subst. reflexivity.
  - apply length_concat_const. eapply (sx_list_all_Forall wire_bytes); [|exact H]. apply wire_bytes_length.
Qed.

Lemma rimt_maps_length s x ms : rimt_maps s x = Some ms -> length (concat ms) = (20 * length ms)%nat.
Proof.
  unfold rimt_maps. intros H. split_matches H.
  - inversion H; subst. reflexivity.
  - apply length_concat_const. eapply (sx_list_all_Forall (idmap_bytes s)); [|exact H]. apply idmap_bytes_length.
Qed.

(* Iommu::len() = bytes written by Iommu::to_aml_bytes *)
Lemma iommu_len_sound id b p px ws : length (concat ws) = (8 * length ws)%nat ->
  iommu_len (N.of_nat (length ws)) = N.of_nat (length (iommu_bytes id b p px ws)).
Proof.
  intros H. unfold iommu_len, iommu_bytes, b1, w2, d4, q8. rewrite !app_length, !length_le, H. lia.
Qed.

(* PcieRootComplex::len() = bytes written *)
Lemma pcierc_len_sound id seg ats pri ms : length (concat ms) = (20 * length ms)%nat ->
  pcierc_len (N.of_nat (length ms)) = N.of_nat (length (pcierc_bytes id seg ats pri ms)).
Proof.
  intros H. unfold pcierc_len, pcierc_bytes, b1, w2, d4. rewrite !app_length, !length_le, H. lia.
Qed.

(* Platform::len() = bytes written, for every name *)
Lemma platform_len_sound id nm ms : length (concat ms) = (20 * length ms)%nat ->
  platform_len nm (N.of_nat (length ms)) = N.of_nat (length (platform_bytes id nm ms)).
Proof.
  intros H. unfold platform_len, platform_moff, platform_bytes, b1, w2. rewrite !app_length, !length_le, H.
  rewrite (length_concat_map_le 1). lia.
Qed.

Lemma rimt_addition_sound s o e : t_kind s = KRimt -> rimt_addition s o = Some e ->
  a_claimed e = N.of_nat (length (a_bytes e)) /\
  (needs_pos (t_kind s) = true -> (1 <= length (a_bytes e))%nat /\ a_claimed e < 2 ^ 16).
Proof.
  intros Hk H. split; [|rewrite Hk; discriminate].
  unfold rimt_addition in H. split_matches H; inversion H; subst; cbn [a_claimed a_bytes];
    first [ apply iommu_len_sound; eapply rimt_wires_length; eassumption
          | apply pcierc_len_sound; eapply rimt_maps_length; eassumption
          | apply platform_len_sound; eapply rimt_maps_length; eassumption ].
Qed.

Definition rimt_table : addtable :=
  {| at_name := [82; 73; 77; 84]; at_kind := KRimt; at_new := rimt_new; at_entry := rimt_addition;
     at_new_inv := rimt_new_inv; at_sound := rimt_addition_sound |}.

(* what the generic history theorems give for this table: after every constructor and every history of additions
   (no bound on the length) the serialised table sums to 0 and its Length field is its size *)
Corollary rimt_history md c ops s0 s :
  rimt_new c = Some s0 -> run_adds rimt_addition md s0 ops = Some s -> N.of_nat (length (tbl_image s)) < 2 ^ 32 ->
  sum8 (tbl_image s) = 0 /\ field_at (tbl_image s) 4 4 = N.of_nat (length (tbl_image s)).
Proof.
  intros Hn Hr Hfit. pose proof (addtable_reach rimt_table md c ops s0 s Hn Hr Hfit) as [I _].
  split; [now apply inv_sum8_zero|now apply image_len_field].
Qed.
